//! C08 executor.
//!   `Q`                                  -> `B<Reader::VERIF_BUF_SIZE>`
//!   `C <hex input|-> <schedule|-> <op>*` -> `B<size> <value tokens>* [P]`
//! schedule: comma separated; `n` = a read delivers the next n input bytes (n >= 1; if the reader
//! asks for fewer, it gets what fits and the rest of the chunk stays for the next call), `nxk` = k
//! such chunks, `I` = the read fails with ErrorKind::Interrupted.  After the schedule: Ok(0).
//! ops: i8..i128 isize u8..u128 usize s(String) c(char) t:<ty>,<ty>.. v:<n>:<ty> l(read_line)
//! L(read_lines) e(is_eof).  A panic ends the script and prints `P`.
use rlib_io::reader::{Readable, Reader};
use std::cell::RefCell;
use std::collections::VecDeque;
use std::io::Read;
use std::rc::Rc;

enum Ev {
    Data(usize),
    Intr,
}

struct Sched {
    data: Vec<u8>,
    pos: usize,
    events: VecDeque<Ev>,
}

struct Src(Rc<RefCell<Sched>>);

impl Read for Src {
    fn read(&mut self, buf: &mut [u8]) -> std::io::Result<usize> {
        let mut s = self.0.borrow_mut();
        match s.events.pop_front() {
            None => Ok(0),
            Some(Ev::Intr) => Err(std::io::Error::new(std::io::ErrorKind::Interrupted, "scripted")),
            Some(Ev::Data(n)) => {
                let k = n.min(buf.len());
                let pos = s.pos;
                buf[..k].copy_from_slice(&s.data[pos..pos + k]);
                s.pos += k;
                if k < n {
                    s.events.push_front(Ev::Data(n - k));
                }
                Ok(k)
            }
        }
    }
}

trait Show: Readable {
    const NAME: &'static str;
    fn show(&self) -> String;
}
macro_rules! show_int {
    ($($t:ty),*) => { $( impl Show for $t {
        const NAME: &'static str = stringify!($t);
        fn show(&self) -> String { format!("i:{}", self) }
    } )* };
}
show_int!(i8, i16, i32, i64, i128, isize, u8, u16, u32, u64, u128, usize);

fn hex_str(s: &str) -> String {
    // every char came from `u8 as char`, so its code point is the byte
    s.chars().map(|c| format!("{:02x}", c as u32)).collect()
}
impl Show for String {
    const NAME: &'static str = "s";
    fn show(&self) -> String {
        format!("s:{}", hex_str(self))
    }
}
impl Show for char {
    const NAME: &'static str = "c";
    fn show(&self) -> String {
        format!("c:{:02x}", *self as u32)
    }
}

fn scalar<T: Show>(r: &mut Reader, out: &mut Vec<String>) {
    let v: T = r.read();
    out.push(v.show());
}
fn vector<T: Show>(r: &mut Reader, n: usize, out: &mut Vec<String>) {
    let v: Vec<T> = r.read_vec(n);
    out.push(format!("v{}", v.len()));
    out.extend(v.iter().map(|x| x.show()));
}

macro_rules! by_type {
    ($name:expr, $f:ident, $($arg:expr),*) => {
        match $name {
            "i8" => $f::<i8>($($arg),*), "i16" => $f::<i16>($($arg),*), "i32" => $f::<i32>($($arg),*),
            "i64" => $f::<i64>($($arg),*), "i128" => $f::<i128>($($arg),*), "isize" => $f::<isize>($($arg),*),
            "u8" => $f::<u8>($($arg),*), "u16" => $f::<u16>($($arg),*), "u32" => $f::<u32>($($arg),*),
            "u64" => $f::<u64>($($arg),*), "u128" => $f::<u128>($($arg),*), "usize" => $f::<usize>($($arg),*),
            "s" => $f::<String>($($arg),*), "c" => $f::<char>($($arg),*),
            other => bad(other),
        }
    };
}

fn bad(what: &str) -> ! {
    eprintln!("harness: unknown token {:?}", what);
    std::process::exit(3)
}

macro_rules! tuples {
    ($r:expr, $sig:expr, $out:expr, $( ($($t:ty : $v:ident),+) );* $(;)?) => {{
        let mut matched = false;
        $(
            if !matched && $sig == [$(<$t as Show>::NAME),+].join(",") {
                matched = true;
                let ($($v),+): ($($t),+) = $r.read();
                let items: Vec<String> = vec![$($v.show()),+];
                $out.push(format!("t{}", items.len()));
                $out.extend(items);
            }
        )*
        if !matched { bad($sig) }
    }};
}

/// the tuple types instantiated here (keep in sync with TUPLES in checks/c08.py)
fn tuple(r: &mut Reader, sig: &str, out: &mut Vec<String>) {
    tuples!(r, sig, out,
        (i32: a, i32: b);
        (String: a, i64: b);
        (char: a, u8: b);
        (i8: a, u16: b, String: c);
        (i128: a, char: b, isize: c);
        (u64: a, i16: b, char: c, String: d);
        (usize: a, i64: b, u128: c, i8: d, u32: e);
        (i32: a, String: b, char: c, u8: d, i64: e, i16: f);
        (u8: a, u8: b, i8: c, i8: d, char: e, char: f, String: g);
        (i64: a, u64: b, i128: c, u128: d, isize: e, usize: f, String: g, char: h);
    );
}

fn one_op(r: &mut Reader, op: &str, out: &mut Vec<String>) {
    match op {
        "l" => out.push(match r.read_line() {
            None => "l:-".to_string(),
            Some(s) => format!("l:={}", hex_str(&s)),
        }),
        "L" => {
            let ls = r.read_lines();
            out.push(format!("L{}", ls.len()));
            out.extend(ls.iter().map(|s| format!("={}", hex_str(s))));
        }
        "e" => out.push(format!("e:{}", if r.is_eof() { 1 } else { 0 })),
        _ if op.starts_with("t:") => tuple(r, &op[2..], out),
        _ if op.starts_with("v:") => {
            let mut it = op[2..].splitn(2, ':');
            let n: usize = vh::p(it.next().unwrap());
            let ty = it.next().unwrap_or_else(|| bad(op));
            by_type!(ty, vector, r, n, out)
        }
        _ => by_type!(op, scalar, r, out),
    }
}

fn unhex(s: &str) -> Vec<u8> {
    if s == "-" {
        return Vec::new();
    }
    (0..s.len() / 2).map(|i| u8::from_str_radix(&s[2 * i..2 * i + 2], 16).unwrap_or_else(|_| bad(s))).collect()
}

fn schedule(s: &str) -> VecDeque<Ev> {
    let mut q = VecDeque::new();
    if s == "-" {
        return q;
    }
    for t in s.split(',') {
        if t == "I" {
            q.push_back(Ev::Intr);
        } else if let Some((n, k)) = t.split_once('x') {
            let (n, k): (usize, usize) = (vh::p(n), vh::p(k));
            for _ in 0..k {
                q.push_back(Ev::Data(n));
            }
        } else {
            q.push_back(Ev::Data(vh::p(t)));
        }
    }
    q
}

fn main() {
    vh::serve(|t| {
        let size = Reader::VERIF_BUF_SIZE;
        if t[0] == "Q" {
            return format!("B{}", size);
        }
        if t[0] != "C" || t.len() < 3 {
            bad(t[0]);
        }
        let data = unhex(t[1]);
        let events = schedule(t[2]);
        let total: usize = events.iter().map(|e| if let Ev::Data(n) = e { *n } else { 0 }).sum();
        if total != data.len() || events.iter().any(|e| matches!(e, Ev::Data(0))) {
            eprintln!("harness: schedule delivers {} bytes, input has {}", total, data.len());
            std::process::exit(3);
        }
        let shared = Rc::new(RefCell::new(Sched { data, pos: 0, events }));
        let mut reader = Reader::new(Box::new(Src(shared.clone())));
        let mut out: Vec<String> = vec![format!("B{}", size)];
        for op in &t[3..] {
            let mut vals = Vec::new();
            match vh::guarded(|| one_op(&mut reader, op, &mut vals)) {
                Some(()) => out.extend(vals),
                None => {
                    out.push("P".to_string());
                    break;
                }
            }
        }
        out.join(" ")
    });
}
