//! C05 executor.
//!
//! History mode, one line = one history on several live DSU values:
//!   `h <n0> <op>*`   with ops  `u c a b` (un) | `p c v` (par) | `k c a b` (check) | `s c v` (size)
//!                              | `r c n` (reset) | `c c` (clone copy c, appended as a new copy)
//!                              | `f c d m` (a new copy made by `clone_from`: a scratch value = clone of copy d,
//!                                 reset to m-1 elements when m > 0, then `scratch.clone_from(&copy c)`; the scratch
//!                                 value is appended as a new copy: it must be indistinguishable from `c c`)
//!                              | `g c d n` (as `f`, but the scratch value = clone of copy d first goes through a
//!                                 `reset(n)` with n >= 2^60 that must panic ('capacity overflow') and leave it
//!                                 exactly as it was; then `scratch.clone_from(&copy c)`; again the same as `c c`)
//! `reset` arguments in 2^32 .. 2^60 are refused by the executor (they would really allocate); n >= 2^60 asks for
//! more than isize::MAX bytes and panics before any allocation.
//! Output: per call its return value `T`/`F`/`N<k>`/`U`, followed by `[ p.. | sz.. ]` (hooked arrays of
//! the touched copy) when they differ from the last arrays shown for that copy; a panicking call prints `P`
//! (followed by the arrays of the touched copy if the call changed them before panicking) and the history goes
//! on with the value the call left behind, as in a caller that catches the unwind; at the end `E` and the arrays
//! of every copy.
//! Cross-checks on entry points that have no return value of their own (only when the type implements Debug;
//! the executor builds without it): the `{:?}` and `{:#?}` renderings after `reset(n)` equal those of
//! `DSU::new(n)`; those of a clone / of the target of `clone_from` equal those of the source; a `reset`, `par` or
//! `size` that panicked (the model: nothing written) left the renderings as they were.  A failed
//! cross-check replaces the return value by a token starting with `X`, which no model accepts.
//!
//! Big mode (implementation-only search): `big <family> <n> <seed>` builds one DSU of n elements with an
//! adversarial union order and prints `B <maxdepth> <maxallowed> <classes> <ok>`, where ok = every
//! element's parent chain is no longer than log2 of the size recorded at its root, root sizes are the
//! true class cardinalities (counted through the parent array) and agree with a naive labelling where
//! that is affordable; lookups of the deepest elements (run on a thread with a 256 KiB stack) return the root,
//! leave the whole old path pointing at the root and the forest passes the audit again; `size`, `check`,
//! `reset` followed by a second build and clones are compared with the naive labelling.
use rlib_dsu::DSU;
use std::fmt::Write as _;
use vh::{guarded, p, Sm};

/// optional Debug rendering ("autoref specialisation": the bounded impl on `Wrap<T>` is preferred, the
/// unbounded one on `&Wrap<T>` is the fallback when the type has no Debug impl)
struct Wrap<'a, T>(&'a T);
#[allow(dead_code)]
trait DbgYes {
    fn dbg(&self) -> Option<(String, String)>;
}
#[allow(dead_code)]
trait DbgNo {
    fn dbg(&self) -> Option<(String, String)>;
}
impl<'a, T: std::fmt::Debug> DbgYes for Wrap<'a, T> {
    fn dbg(&self) -> Option<(String, String)> {
        Some((format!("{:?}", self.0), format!("{:#?}", self.0)))
    }
}
impl<'a, 'b, T> DbgNo for &'b Wrap<'a, T> {
    fn dbg(&self) -> Option<(String, String)> {
        None
    }
}
fn dbg_of(d: &DSU) -> Option<(String, String)> {
    (&Wrap(d)).dbg()
}
/// do the two values render identically (vacuously true without a Debug impl)?
fn same_dbg(a: &DSU, b: &DSU) -> bool {
    dbg_of(a) == dbg_of(b)
}

fn arrays(d: &DSU) -> (Vec<usize>, Vec<usize>) {
    let (a, b) = d.verif_raw();
    (a.to_vec(), b.to_vec())
}

fn show(out: &mut String, a: &(Vec<usize>, Vec<usize>)) {
    out.push_str(" [");
    for x in &a.0 {
        write!(out, " {}", x).unwrap();
    }
    out.push_str(" |");
    for x in &a.1 {
        write!(out, " {}", x).unwrap();
    }
    out.push_str(" ]");
}

/// a reset to n elements either is small enough to be harmless or is refused before any allocation
fn reset_arg_ok(n: usize) -> bool {
    n < (1usize << 32) || n >= (1usize << 60)
}

fn history(t: &[&str]) -> String {
    let n0: usize = p(t[1]);
    let mut copies: Vec<DSU> = vec![DSU::new(n0)];
    let mut last: Vec<Option<(Vec<usize>, Vec<usize>)>> = vec![None];
    let mut out = String::new();
    let mut i = 2;
    while i < t.len() {
        let kind = t[i];
        let c: usize = p(t[i + 1]);
        let (nargs, touched) = match kind {
            "u" | "k" => (2, c),
            "p" | "s" | "r" => (1, c),
            "c" => (0, copies.len()),
            "f" | "g" => (2, copies.len()),
            _ => {
                eprintln!("harness: unknown op {}", kind);
                std::process::exit(3)
            }
        };
        let a: usize = if nargs >= 1 { p(t[i + 2]) } else { 0 };
        let b: usize = if nargs >= 2 { p(t[i + 3]) } else { 0 };
        i += 2 + nargs;
        if (kind == "r" && !reset_arg_ok(a)) || (kind == "g" && b < (1usize << 60)) {
            eprintln!("harness: refusing reset argument {}", if kind == "r" { a } else { b });
            std::process::exit(3)
        }
        // calls that write nothing when they panic: the hidden state must stay as well
        let before = if matches!(kind, "r" | "p" | "s") { dbg_of(&copies[c]) } else { None };
        let r: Option<String> = guarded(|| match kind {
            "u" => (if copies[c].un(a, b) { "T" } else { "F" }).to_string(),
            "k" => (if copies[c].check(a, b) { "T" } else { "F" }).to_string(),
            "p" => format!("N{}", copies[c].par(a)),
            "s" => format!("N{}", copies[c].size(a)),
            "r" => {
                copies[c].reset(a);
                if same_dbg(&copies[c], &DSU::new(a)) {
                    "U".to_string()
                } else {
                    "Xdebug-after-reset-differs-from-new".to_string()
                }
            }
            "c" => {
                let d = copies[c].clone();
                let ok = same_dbg(&d, &copies[c]);
                copies.push(d);
                last.push(None);
                (if ok { "U" } else { "Xdebug-of-clone-differs-from-source" }).to_string()
            }
            "g" => {
                let mut d = copies[a].clone();
                let was = (arrays(&d), dbg_of(&d));
                let refused = guarded(|| d.reset(b)).is_none();
                let intact = (arrays(&d), dbg_of(&d)) == was;
                d.clone_from(&copies[c]);
                let ok = same_dbg(&d, &copies[c]);
                copies.push(d);
                last.push(None);
                (if !refused {
                    "Xreset-beyond-isize-max-bytes-returned"
                } else if !intact {
                    "Xrefused-reset-changed-the-value"
                } else if !ok {
                    "Xdebug-after-clone_from-differs-from-source"
                } else {
                    "U"
                })
                .to_string()
            }
            _ => {
                let mut d = copies[a].clone();
                if b > 0 {
                    d.reset(b - 1);
                }
                d.clone_from(&copies[c]);
                let ok = same_dbg(&d, &copies[c]);
                copies.push(d);
                last.push(None);
                (if ok { "U" } else { "Xdebug-after-clone_from-differs-from-source" }).to_string()
            }
        });
        if !out.is_empty() {
            out.push(' ');
        }
        match r {
            None if matches!(kind, "r" | "p" | "s") && dbg_of(&copies[c]) != before => {
                out.push_str("Xdebug-changed-by-a-panicking-call")
            }
            None => out.push('P'),
            Some(s) => out.push_str(&s),
        }
        if touched < copies.len() {
            let cur = arrays(&copies[touched]);
            if last[touched].as_ref() != Some(&cur) {
                show(&mut out, &cur);
                last[touched] = Some(cur);
            }
        }
    }
    if !out.is_empty() {
        out.push(' ');
    }
    out.push('E');
    for d in &copies {
        show(&mut out, &arrays(d));
    }
    out
}

/// depth of every node and the root it reaches, from the raw parent array (iterative, memoised)
fn depths(pa: &[usize]) -> Option<(Vec<u32>, Vec<usize>)> {
    let n = pa.len();
    let mut dep = vec![u32::MAX; n];
    let mut root = vec![usize::MAX; n];
    let mut stack = Vec::new();
    for v in 0..n {
        let mut x = v;
        stack.clear();
        while dep[x] == u32::MAX {
            if pa[x] >= n {
                return None;
            }
            if pa[x] == x {
                dep[x] = 0;
                root[x] = x;
                break;
            }
            stack.push(x);
            if stack.len() > n {
                return None; // cycle
            }
            x = pa[x];
        }
        while let Some(y) = stack.pop() {
            dep[y] = dep[pa[y]] + 1;
            root[y] = root[pa[y]];
        }
    }
    Some((dep, root))
}

fn log2(x: usize) -> u32 {
    usize::BITS - 1 - x.leading_zeros()
}

struct Naive {
    lab: Vec<usize>,
    members: Vec<Vec<usize>>,
}
impl Naive {
    fn new(n: usize) -> Self {
        Naive { lab: (0..n).collect(), members: (0..n).map(|i| vec![i]).collect() }
    }
    fn same(&self, u: usize, v: usize) -> bool {
        self.lab[u] == self.lab[v]
    }
    fn union(&mut self, u: usize, v: usize) {
        let (mut a, mut b) = (self.lab[u], self.lab[v]);
        if a == b {
            return;
        }
        if self.members[a].len() > self.members[b].len() {
            std::mem::swap(&mut a, &mut b);
        }
        let m = std::mem::take(&mut self.members[a]);
        for &x in &m {
            self.lab[x] = b;
        }
        self.members[b].extend(m);
    }
}

/// checks the whole forest; returns (maxdepth, maxallowed over classes, classes, ok)
fn audit(d: &DSU, naive: &Naive) -> (u32, u32, usize, bool) {
    let (pa, sa) = d.verif_raw();
    let n = pa.len();
    let mut ok = sa.len() == n && naive.lab.len() == n;
    let (dep, root) = match depths(pa) {
        Some(x) => x,
        None => return (0, 0, 0, false),
    };
    let mut cnt = vec![0usize; n];
    for v in 0..n {
        cnt[root[v]] += 1;
    }
    let (mut maxd, mut maxallowed, mut classes) = (0u32, 0u32, 0usize);
    for v in 0..n {
        let r = root[v];
        if sa[r] != cnt[r] || cnt[r] != naive.members[naive.lab[v]].len() || naive.lab[r] != naive.lab[v] {
            ok = false;
        }
        if cnt[r] == 0 || dep[v] > log2(cnt[r]) {
            ok = false;
        }
        maxd = maxd.max(dep[v]);
        if r == v {
            classes += 1;
            maxallowed = maxallowed.max(log2(cnt[r]));
        }
    }
    (maxd, maxallowed, classes, ok)
}

/// `d.par(v)` on a thread with a small stack (the stack clause: log-depth recursion needs next to nothing)
fn par_small_stack(d: &mut DSU, v: usize) -> usize {
    std::thread::scope(|sc| {
        std::thread::Builder::new()
            .stack_size(256 << 10)
            .spawn_scoped(sc, || d.par(v))
            .expect("spawn")
            .join()
            .unwrap_or(usize::MAX)
    })
}

/// lookups of the `cnt` deepest elements: each must return the root, leave every node of the old path pointing
/// at the root, and the forest must pass the audit afterwards; `which` selects par / size / check
fn deep_lookups(d: &mut DSU, naive: &Naive, cnt: usize, ok: &mut bool) {
    let n = d.verif_raw().0.len();
    let (dep, root) = match depths(d.verif_raw().0) {
        Some(x) => x,
        None => {
            *ok = false;
            return;
        }
    };
    let mut order: Vec<usize> = (0..n).collect();
    order.sort_by_key(|&v| std::cmp::Reverse(dep[v]));
    for (j, &v) in order.iter().take(cnt).enumerate() {
        // the path as it is now (earlier lookups may have compressed parts of it)
        let mut path = Vec::new();
        let mut x = v;
        loop {
            let px = d.verif_raw().0[x];
            if px == x || path.len() > n {
                break;
            }
            path.push(x);
            x = px;
        }
        let want = root[v];
        if x != want {
            *ok = false;
        }
        match j % 3 {
            0 => {
                if par_small_stack(d, v) != want {
                    *ok = false;
                }
            }
            1 => {
                if d.size(v) != naive.members[naive.lab[v]].len() {
                    *ok = false;
                }
            }
            _ => {
                let w = order[(j * 7 + 1) % n];
                if d.check(v, w) != naive.same(v, w) {
                    *ok = false;
                }
            }
        }
        let pa = d.verif_raw().0;
        if path.iter().any(|&y| pa[y] != want) || pa[want] != want {
            *ok = false;
        }
    }
    let (_, _, _, o) = audit(d, naive);
    if !o {
        *ok = false;
    }
}

/// a reset that cannot get its buffer must panic and leave the value (arrays and rendering) as it was
fn refused_reset(d: &mut DSU, n: usize, ok: &mut bool) {
    let was = (arrays(d), dbg_of(d));
    if guarded(|| d.reset(n)).is_some() || (arrays(d), dbg_of(d)) != was {
        *ok = false;
    }
}

fn big(t: &[&str]) -> String {
    let fam = t[1];
    let n: usize = p(t[2]);
    let mut rng = Sm(p::<u64>(t[3]));
    let mut d = DSU::new(n);
    let mut naive = Naive::new(n);
    let mut ok = true;
    let mut worst = (0u32, 0u32);
    let do_un = |d: &mut DSU, naive: &mut Naive, u: usize, v: usize, ok: &mut bool| {
        let joined = !naive.same(u, v);
        naive.union(u, v);
        if d.un(u, v) != joined {
            *ok = false;
        }
    };
    let checkpoint = |d: &DSU, naive: &Naive, ok: &mut bool, worst: &mut (u32, u32)| {
        let (md, ma, _, o) = audit(d, naive);
        if !o {
            *ok = false;
        }
        if md > worst.0 {
            worst.0 = md;
        }
        if ma > worst.1 {
            worst.1 = ma;
        }
    };
    // binomial trees: join roots of equal-size trees, never touching a non-root (no compression happens);
    // audited after every level, where the depth bound is tight
    let binomial = |d: &mut DSU, naive: &mut Naive, rev: bool, ok: &mut bool, worst: &mut (u32, u32)| {
        let n = naive.lab.len();
        let mut roots: Vec<usize> = (0..n).collect();
        while roots.len() > 1 {
            let mut next = Vec::with_capacity(roots.len() / 2 + 1);
            let mut j = 0;
            while j + 1 < roots.len() {
                let (a, b) = if !rev { (roots[j], roots[j + 1]) } else { (roots[j + 1], roots[j]) };
                do_un(d, naive, a, b, ok);
                let pa = d.verif_raw().0;
                next.push(if pa[a] == a { a } else { b });
                j += 2;
            }
            if j < roots.len() {
                next.push(roots[j]);
            }
            roots = next;
            checkpoint(d, naive, ok, worst);
        }
    };
    match fam {
        // un(i, i+1): every argument is a root or a child of the root; without union by size this is a path
        "chain_up" => {
            for i in 0..n.saturating_sub(1) {
                do_un(&mut d, &mut naive, i, i + 1, &mut ok);
            }
        }
        "chain_down" => {
            for i in (0..n.saturating_sub(1)).rev() {
                do_un(&mut d, &mut naive, i + 1, i, &mut ok);
            }
        }
        // a growing component is always passed as the first argument through its current root
        "chain_root" => {
            let mut r = 0usize;
            for i in 1..n {
                do_un(&mut d, &mut naive, r, i, &mut ok);
                r = d.verif_raw().0[r];
                if d.verif_raw().0[r] != r {
                    r = i;
                }
            }
        }
        "binomial" => binomial(&mut d, &mut naive, false, &mut ok, &mut worst),
        "binomial_rev" => binomial(&mut d, &mut naive, true, &mut ok, &mut worst),
        // a deep forest, a clone of it, lookups of the deepest elements on the clone only (the original must not
        // move), then reset to the same / a smaller / a larger size and a second build in the other direction
        "binomial_reset" => {
            binomial(&mut d, &mut naive, false, &mut ok, &mut worst);
            let before = arrays(&d);
            let mut e = d.clone();
            if arrays(&e) != before || !same_dbg(&e, &d) {
                ok = false;
            }
            deep_lookups(&mut e, &naive, 64, &mut ok);
            if arrays(&d) != before {
                ok = false;
            }
            // refused resets on the deep forest and on the compressed clone: nothing moves, the audit still passes
            refused_reset(&mut d, usize::MAX, &mut ok);
            refused_reset(&mut e, 1usize << 60, &mut ok);
            checkpoint(&d, &naive, &mut ok, &mut worst);
            let mut f = DSU::new(n / 3);
            f.clone_from(&e);
            if arrays(&f) != arrays(&e) || !same_dbg(&f, &e) {
                ok = false;
            }
            for (k, m) in [n, n / 2 + 1, n + n / 3 + 1].into_iter().enumerate() {
                d.reset(m);
                if arrays(&d) != arrays(&DSU::new(m)) || !same_dbg(&d, &DSU::new(m)) {
                    ok = false;
                }
                naive = Naive::new(m);
                binomial(&mut d, &mut naive, k % 2 == 0, &mut ok, &mut worst);
                deep_lookups(&mut d, &naive, 16, &mut ok);
            }
        }
        // n resets of one value to sizes 0..=40, each followed by a few unions and lookups compared with the naive
        // labelling; audited every 1024 resets (anything that counts resets or calls must survive n of them)
        "resets" => {
            d = DSU::new(5);
            for k in 0..n {
                let m = (rng.next() % 41) as usize;
                d.reset(m);
                naive = Naive::new(m);
                if m > 0 {
                    for _ in 0..(rng.next() % 6) {
                        let u = (rng.next() % m as u64) as usize;
                        let v = (rng.next() % m as u64) as usize;
                        do_un(&mut d, &mut naive, u, v, &mut ok);
                    }
                    let u = (rng.next() % m as u64) as usize;
                    let v = (rng.next() % m as u64) as usize;
                    if d.check(u, v) != naive.same(u, v) || d.size(u) != naive.members[naive.lab[u]].len() {
                        ok = false;
                    }
                    // now and then a reset that is refused: the answers after it are those of the same partition
                    if k % 97 == 0 {
                        refused_reset(&mut d, usize::MAX - (rng.next() % 3) as usize, &mut ok);
                        if d.check(u, v) != naive.same(u, v) || d.size(v) != naive.members[naive.lab[v]].len() {
                            ok = false;
                        }
                    }
                }
                if k % 1024 == 0 {
                    checkpoint(&d, &naive, &mut ok, &mut worst);
                }
            }
        }
        // random unions with interleaved finds (path compression active)
        "random" => {
            let m = n + n / 2;
            for k in 0..m {
                let u = (rng.next() % n.max(1) as u64) as usize;
                let v = (rng.next() % n.max(1) as u64) as usize;
                if n == 0 {
                    break;
                }
                match rng.next() % 5 {
                    0 => {
                        let r = d.par(u);
                        if !naive.same(r, u) || d.verif_raw().0[r] != r || d.verif_raw().0[u] != r {
                            ok = false;
                        }
                    }
                    1 => {
                        if d.check(u, v) != naive.same(u, v) {
                            ok = false;
                        }
                    }
                    2 => {
                        if d.size(u) != naive.members[naive.lab[u]].len() {
                            ok = false;
                        }
                    }
                    _ => do_un(&mut d, &mut naive, u, v, &mut ok),
                }
                if n <= 4096 && k % 64 == 0 {
                    checkpoint(&d, &naive, &mut ok, &mut worst);
                }
            }
        }
        // random unions between current roots only: no find ever compresses, depth is as large as the linking rule allows
        "random_roots" => {
            let mut roots: Vec<usize> = (0..n).collect();
            while roots.len() > 1 {
                let i = (rng.next() % roots.len() as u64) as usize;
                let mut j = (rng.next() % (roots.len() as u64 - 1)) as usize;
                if j >= i {
                    j += 1;
                }
                let (a, b) = (roots[i], roots[j]);
                do_un(&mut d, &mut naive, a, b, &mut ok);
                let gone = if d.verif_raw().0[a] == a { j } else { i };
                roots.swap_remove(gone);
            }
        }
        _ => {
            eprintln!("harness: unknown family {}", fam);
            std::process::exit(3)
        }
    }
    checkpoint(&d, &naive, &mut ok, &mut worst);
    let (_, _, classes, _) = audit(&d, &naive);
    // the deepest elements can still be found (recursion depth = chain length), by par / size / check; a forest
    // that already violates the bound is not searched further (a deep chain would overflow the stack)
    if ok {
        deep_lookups(&mut d, &naive, 48, &mut ok);
    }
    format!("B {} {} {} {}", worst.0, worst.1, classes, if ok { 1 } else { 0 })
}

fn main() {
    vh::serve(|t| match t[0] {
        "h" => history(t),
        "big" => big(t),
        other => {
            eprintln!("harness: unknown mode {}", other);
            std::process::exit(3)
        }
    });
}
