//! C05 executor.
//!
//! History mode, one line = one history on several live DSU values:
//!   `h <n0> <op>*`   with ops  `u c a b` (un) | `p c v` (par) | `k c a b` (check) | `s c v` (size)
//!                              | `r c n` (reset) | `c c` (clone copy c, appended as a new copy)
//! Output: per call its return value `T`/`F`/`N<k>`/`U`, followed by `[ p.. | sz.. ]` (hooked arrays of
//! the touched copy) when they differ from the last arrays shown for that copy; a panic prints `P` and
//! ends the history; otherwise `E` and the arrays of every copy follow.
//!
//! Big mode (implementation-only search): `big <family> <n> <seed>` builds one DSU of n elements with an
//! adversarial union order and prints `B <maxdepth> <maxallowed> <classes> <ok>`, where ok = every
//! element's parent chain is no longer than log2 of the size recorded at its root, root sizes are the
//! true class cardinalities (counted through the parent array) and agree with a naive labelling where
//! that is affordable.
use rlib_dsu::DSU;
use std::fmt::Write as _;
use vh::{guarded, p, Sm};

fn arrays(d: &DSU) -> (Vec<usize>, Vec<usize>) {
    let (a, b) = d.verif_raw();
    (a.to_vec(), b.to_vec())
}

fn show(out: &mut String, a: &(Vec<usize>, Vec<usize>)) {
    out.push_str(" [");
    for x in &a.0 {
        write!(out, " {}", x).unwrap();
    }
    out.push_str(" |");
    for x in &a.1 {
        write!(out, " {}", x).unwrap();
    }
    out.push_str(" ]");
}

fn history(t: &[&str]) -> String {
    let n0: usize = p(t[1]);
    let mut copies: Vec<DSU> = vec![DSU::new(n0)];
    let mut last: Vec<Option<(Vec<usize>, Vec<usize>)>> = vec![None];
    let mut out = String::new();
    let mut i = 2;
    while i < t.len() {
        let kind = t[i];
        let c: usize = p(t[i + 1]);
        let (nargs, touched) = match kind {
            "u" | "k" => (2, c),
            "p" | "s" | "r" => (1, c),
            "c" => (0, copies.len()),
            _ => {
                eprintln!("harness: unknown op {}", kind);
                std::process::exit(3)
            }
        };
        let a: usize = if nargs >= 1 { p(t[i + 2]) } else { 0 };
        let b: usize = if nargs >= 2 { p(t[i + 3]) } else { 0 };
        i += 2 + nargs;
        let r: Option<String> = guarded(|| match kind {
            "u" => (if copies[c].un(a, b) { "T" } else { "F" }).to_string(),
            "k" => (if copies[c].check(a, b) { "T" } else { "F" }).to_string(),
            "p" => format!("N{}", copies[c].par(a)),
            "s" => format!("N{}", copies[c].size(a)),
            "r" => {
                copies[c].reset(a);
                "U".to_string()
            }
            _ => {
                let d = copies[c].clone();
                copies.push(d);
                last.push(None);
                "U".to_string()
            }
        });
        match r {
            None => {
                if !out.is_empty() {
                    out.push(' ');
                }
                out.push('P');
                return out;
            }
            Some(s) => {
                if !out.is_empty() {
                    out.push(' ');
                }
                out.push_str(&s);
                let cur = arrays(&copies[touched]);
                if last[touched].as_ref() != Some(&cur) {
                    show(&mut out, &cur);
                    last[touched] = Some(cur);
                }
            }
        }
    }
    if !out.is_empty() {
        out.push(' ');
    }
    out.push('E');
    for d in &copies {
        show(&mut out, &arrays(d));
    }
    out
}

/// depth of every node and the root it reaches, from the raw parent array (iterative, memoised)
fn depths(pa: &[usize]) -> Option<(Vec<u32>, Vec<usize>)> {
    let n = pa.len();
    let mut dep = vec![u32::MAX; n];
    let mut root = vec![usize::MAX; n];
    let mut stack = Vec::new();
    for v in 0..n {
        let mut x = v;
        stack.clear();
        while dep[x] == u32::MAX {
            if pa[x] >= n {
                return None;
            }
            if pa[x] == x {
                dep[x] = 0;
                root[x] = x;
                break;
            }
            stack.push(x);
            if stack.len() > n {
                return None; // cycle
            }
            x = pa[x];
        }
        while let Some(y) = stack.pop() {
            dep[y] = dep[pa[y]] + 1;
            root[y] = root[pa[y]];
        }
    }
    Some((dep, root))
}

fn log2(x: usize) -> u32 {
    usize::BITS - 1 - x.leading_zeros()
}

struct Naive {
    lab: Vec<usize>,
    members: Vec<Vec<usize>>,
}
impl Naive {
    fn new(n: usize) -> Self {
        Naive { lab: (0..n).collect(), members: (0..n).map(|i| vec![i]).collect() }
    }
    fn same(&self, u: usize, v: usize) -> bool {
        self.lab[u] == self.lab[v]
    }
    fn union(&mut self, u: usize, v: usize) {
        let (mut a, mut b) = (self.lab[u], self.lab[v]);
        if a == b {
            return;
        }
        if self.members[a].len() > self.members[b].len() {
            std::mem::swap(&mut a, &mut b);
        }
        let m = std::mem::take(&mut self.members[a]);
        for &x in &m {
            self.lab[x] = b;
        }
        self.members[b].extend(m);
    }
}

/// checks the whole forest; returns (maxdepth, maxallowed over classes, classes, ok)
fn audit(d: &DSU, naive: &Naive) -> (u32, u32, usize, bool) {
    let (pa, sa) = d.verif_raw();
    let n = pa.len();
    let mut ok = sa.len() == n && naive.lab.len() == n;
    let (dep, root) = match depths(pa) {
        Some(x) => x,
        None => return (0, 0, 0, false),
    };
    let mut cnt = vec![0usize; n];
    for v in 0..n {
        cnt[root[v]] += 1;
    }
    let (mut maxd, mut maxallowed, mut classes) = (0u32, 0u32, 0usize);
    for v in 0..n {
        let r = root[v];
        if sa[r] != cnt[r] || cnt[r] != naive.members[naive.lab[v]].len() || naive.lab[r] != naive.lab[v] {
            ok = false;
        }
        if cnt[r] == 0 || dep[v] > log2(cnt[r]) {
            ok = false;
        }
        maxd = maxd.max(dep[v]);
        if r == v {
            classes += 1;
            maxallowed = maxallowed.max(log2(cnt[r]));
        }
    }
    (maxd, maxallowed, classes, ok)
}

fn big(t: &[&str]) -> String {
    let fam = t[1];
    let n: usize = p(t[2]);
    let mut rng = Sm(p::<u64>(t[3]));
    let mut d = DSU::new(n);
    let mut naive = Naive::new(n);
    let mut ok = true;
    let mut worst = (0u32, 0u32);
    let do_un = |d: &mut DSU, naive: &mut Naive, u: usize, v: usize, ok: &mut bool| {
        let joined = !naive.same(u, v);
        naive.union(u, v);
        if d.un(u, v) != joined {
            *ok = false;
        }
    };
    let checkpoint = |d: &DSU, naive: &Naive, ok: &mut bool, worst: &mut (u32, u32)| {
        let (md, ma, _, o) = audit(d, naive);
        if !o {
            *ok = false;
        }
        if md > worst.0 {
            worst.0 = md;
        }
        if ma > worst.1 {
            worst.1 = ma;
        }
    };
    match fam {
        // un(i, i+1): every argument is a root or a child of the root; without union by size this is a path
        "chain_up" => {
            for i in 0..n.saturating_sub(1) {
                do_un(&mut d, &mut naive, i, i + 1, &mut ok);
            }
        }
        "chain_down" => {
            for i in (0..n.saturating_sub(1)).rev() {
                do_un(&mut d, &mut naive, i + 1, i, &mut ok);
            }
        }
        // a growing component is always passed as the first argument through its current root
        "chain_root" => {
            let mut r = 0usize;
            for i in 1..n {
                do_un(&mut d, &mut naive, r, i, &mut ok);
                r = d.verif_raw().0[r];
                if d.verif_raw().0[r] != r {
                    r = i;
                }
            }
        }
        // binomial trees: join roots of equal-size trees, never touching a non-root (no compression happens);
        // audited after every level, where the depth bound is tight
        "binomial" | "binomial_rev" => {
            let mut roots: Vec<usize> = (0..n).collect();
            while roots.len() > 1 {
                let mut next = Vec::with_capacity(roots.len() / 2 + 1);
                let mut j = 0;
                while j + 1 < roots.len() {
                    let (a, b) = if fam == "binomial" { (roots[j], roots[j + 1]) } else { (roots[j + 1], roots[j]) };
                    do_un(&mut d, &mut naive, a, b, &mut ok);
                    let pa = d.verif_raw().0;
                    next.push(if pa[a] == a { a } else { b });
                    j += 2;
                }
                if j < roots.len() {
                    next.push(roots[j]);
                }
                roots = next;
                checkpoint(&d, &naive, &mut ok, &mut worst);
            }
        }
        // random unions with interleaved finds (path compression active)
        "random" => {
            let m = n + n / 2;
            for k in 0..m {
                let u = (rng.next() % n.max(1) as u64) as usize;
                let v = (rng.next() % n.max(1) as u64) as usize;
                if n == 0 {
                    break;
                }
                match rng.next() % 4 {
                    0 => {
                        let r = d.par(u);
                        if !naive.same(r, u) {
                            ok = false;
                        }
                    }
                    1 => {
                        if d.check(u, v) != naive.same(u, v) {
                            ok = false;
                        }
                    }
                    _ => do_un(&mut d, &mut naive, u, v, &mut ok),
                }
                if n <= 4096 && k % 64 == 0 {
                    checkpoint(&d, &naive, &mut ok, &mut worst);
                }
            }
        }
        // random unions between current roots only: no find ever compresses, depth is as large as the linking rule allows
        "random_roots" => {
            let mut roots: Vec<usize> = (0..n).collect();
            while roots.len() > 1 {
                let i = (rng.next() % roots.len() as u64) as usize;
                let mut j = (rng.next() % (roots.len() as u64 - 1)) as usize;
                if j >= i {
                    j += 1;
                }
                let (a, b) = (roots[i], roots[j]);
                do_un(&mut d, &mut naive, a, b, &mut ok);
                let gone = if d.verif_raw().0[a] == a { j } else { i };
                roots.swap_remove(gone);
            }
        }
        _ => {
            eprintln!("harness: unknown family {}", fam);
            std::process::exit(3)
        }
    }
    checkpoint(&d, &naive, &mut ok, &mut worst);
    let (_, _, classes, _) = audit(&d, &naive);
    // the deepest element can still be found (recursion depth = its chain length)
    let (pa, _) = d.verif_raw();
    if !ok {
        // a forest that already violates the bound is not searched further (a deep chain would overflow the stack)
    } else if let Some((dep, _)) = depths(pa) {
        if let Some(v) = (0..n).max_by_key(|&v| dep[v]) {
            let r = d.par(v);
            if !naive.same(r, v) {
                ok = false;
            }
        }
    }
    format!("B {} {} {} {}", worst.0, worst.1, classes, if ok { 1 } else { 0 })
}

fn main() {
    vh::serve(|t| match t[0] {
        "h" => history(t),
        "big" => big(t),
        other => {
            eprintln!("harness: unknown mode {}", other);
            std::process::exit(3)
        }
    });
}
