//! C18 executor.
//!
//! ## The pair script: `<op> <a-hex> <b-hex> [route]`
//! (two binary64 bit patterns; `op` is only echoed by the driver, every observation is always produced).
//! One line out, decimal tokens:
//!   raw(x) raw(y) raw(x+y) raw(x-y) raw(x*y) raw(x/y) raw(-x) raw(x*y+x) raw((x*y+x)/y)    (9 x `se m`)
//!   bits(f64(x)) bits(f64(x+y)) bits(f64(x-y)) bits(f64(x*y)) bits(f64(x/y)) bits(f64(chain))
//!   lt le gt ge eq (0/1)  partial_cmp (0 None 1 Less 2 Equal 3 Greater)
//!   raw(min) raw(max) raw(abs x)
//! where x = f80::from(a), y = f80::from(b) and raw = (sign/exponent u16, significand u64).
//!
//! Then the relations on EXTENDED-FORMAT operands (values that are not images of an f64), with
//!   m = x*y + x,  p = x*y,  q = x/y,  s = x+y   and   n_e = f80::from(f64::from(e)):
//!   bits(f64(m))  raw(n_m) raw(n_p) raw(n_q) raw(n_s)
//!   rel(m,n_m) rel(n_m,m) rel(p,n_p) rel(n_p,p) rel(q,n_q) rel(n_q,q) rel(s,n_s) rel(n_s,s)
//!   rel(m,p) rel(p,s) rel(s,q)
//!   raw(abs m) raw(abs p) raw(abs q) raw(abs s)
//! where rel(u,v) = `code raw(u.min(v)) raw(u.max(v))` and
//!   code = [u<v] + 2[u<=v] + 4[u>v] + 8[u>=v] + 16[u==v] + 32*partial_cmp(u,v).
//!
//! `route` (optional, a string of letters, `-` = none) selects OTHER ENTRY POINTS of the crate that must produce
//! the very same observation line (the line is fed to the same Coq case constructor):
//!   a  the arithmetic goes through the assigning operators (`t = x; t += y`, ..., `acc = p; acc += x; acc /= y`)
//!   c  an operand whose pattern is +0.0 / 1.0 is `f80::ZERO` (`f80::default()` for the second operand) / `f80::ONE`
//!      instead of `f80::from(..)`
//!   s  when a == b, the relations on (x, y) are called with the SAME reference twice (`x == x`, `x.partial_cmp(&x)`)
//!   l  every `partial_cmp` of the line is evaluated inside a loop over copies made by a pattern
//!      (`for &(u, v) in pairs { u.partial_cmp(&v) }`): nothing but `partial_cmp` ever looks at those temporaries
//!   t  the whole script runs on a freshly spawned thread (that never called `f80_init`)
//!   i  `f80_init()` is called (again) immediately before the script, and once more between arithmetic and relations
//!   f b p u  HISTORIES THAT END ABNORMALLY, run on the same thread BEFORE the script (src/preamble.rs): operands and
//!      results of the case (x, y, x+y, x*y, x/y, x*y+x) and six fixed values are formatted with Display / Debug / LowerExp
//!      (if implemented) under 22 specifications ({}, {:?}, {:.3}, {:.18}, {:10.2}, {:.0}, {:+.6?}, {:08.3}, {:.*}, {:.19},
//!      {:.40?}, slices, Option under {:#?}, a derived Debug struct, several values in one call, a user Display that fails)
//!      into  f: a String;  b: a bounded fmt::Write sink and a bounded io::Write sink that fail after
//!      0, 1, 2, len/2, len-1 bytes;  p: a sink that panics, user Display impls that panic before / after the f80,
//!      to_string of a Display that returns Err, rlib_show::Show (all panics caught with catch_unwind);
//!      u: user closures comparing / converting / adding f80 values that panic or stop early (sort_by, sort_unstable_by,
//!      max_by, min_by, binary_search_by with a panicking comparator or `partial_cmp(..).unwrap()` on a NaN, folds with
//!      `+=`, `map` with conversions, f80 operations in a Drop that runs during unwinding, try_fold / find / any /
//!      position / take_while)
//!   h  the script itself runs on a thread spawned AFTER the preamble from the thread that ran it (a new thread
//!      inherits the floating-point environment of its creator)
//!
//! HIDDEN STATE (src/hidden.rs).  Before the script every case runs every kind of operation of the crate once on its
//! operands (conversions both ways, + - * / and the assigning forms, neg, the six relations, partial_cmp, min, max,
//! abs, Display, Debug, Display with a precision, Show) and compares the x87 control word (fnstcw), TOP / stack-fault of
//! the status word (fnstsw) and the control bits of MXCSR before and after EACH of them; so does every formatting call
//! and every closure of the preamble, and every step of a straight-line program.  The whole case is bracketed by the
//! same comparison including the x87 tag word (fnstenv).  A difference is a failed internal check
//! `x87-state-changed-by-<operation>` / `x87-state-left-changed-at-the-end-of-the-case`.  After each case the process
//! puts the main thread back into the state it had at start-up (fninit, fldcw, ldmxcsr), so that one case that leaks
//! state is reported as one case.
//!
//! Independently of the route, every case evaluates a number of INTERNAL CONSISTENCY checks between entry points
//! (assigning vs. by-value operators, `!=` vs. `==`, same-reference vs. two-object comparisons, constants vs.
//! conversions, `partial_cmp` inside filter/count, running maximum, `max_by`, `sort_by` over fresh copies vs. the
//! operators).  If one fails the line printed is `X <names of the failed checks>` instead of the observation:
//! such a line never has the agreed shape, so the case fails both Coq checks.
//!
//! ## Straight-line programs: `trace <a-hex> <b-hex> <n> (<op> <i> <j>){n}`
//! registers r0 = f80::from(a), r1 = f80::from(b); step k computes r(k+2) = op(r_i, r_j); ops:
//!   add sub mul div (by value)  adda suba mula diva (assigning form)  neg abs (of r_i)  min max
//!   rnd = f80::from(f64::from(r_i))
//! An optional trailing token is a route of letters f b p u: the preamble runs before the program (on r0, r1 and the
//! fixed values) and after EVERY step the step's result is formatted into the failing sinks / compared inside a
//! panicking comparator, so that abnormal exits are interleaved with the arithmetic.
//! One line out: `T raw(r0) raw(r1)` then per step `raw(result) bits(f64::from(result)) code` where code is the
//! relation code (as above) of the ordered operand pair (r_i, r_j), taken through references to the two
//! registers (the same reference twice when i = j).
//!
//! ## Leaf kernels: `kern <kind> <a-hex> <b-hex> <nx> x.. <ny> y.. <np> p..`   (src/kern.rs)
//! The operations inlined into `#[inline(never)]` LEAF functions (dot product, Horner, running sums with loop-invariant
//! f80 factors, counting against an f80 limit, min/max scans, f80 mixed with f64 / integer flags): f80 locals stay alive
//! in the function's red zone across conversions, relations, min, max, abs, neg.  Each kernel is also computed step by
//! step (`apply`, `rel_code`, every value through `black_box`); a difference is the failed internal check
//! `leaf-kernel-<kind>-differs-from-the-step-by-step-computation`.  Line out: the `T ...` line of the fixed program
//! `mul 0 1, add 2 0, sub 3 1` on (a, b), then ` K <kind> v0 .. v5` (the kernel's integers; the plugin compares them
//! with exact arithmetic).
mod hidden;
mod kern;
mod preamble;

// (which of the two helper traits is used depends on whether f80 implements the optional trait)
#[allow(unused_imports)]
use preamble::{Abn, ShowFallback, ShowImpl, Wrap};
use rlib_f80::f80;
use rlib_num_traits::ZeroOne;
use std::cmp::Ordering;
use std::hint::black_box;

fn raw(x: f80) -> (u16, u64) {
    // `#[repr(align(16))] struct f80([u8; 10])`: the value is the first 10 bytes
    let b: [u8; 10] = unsafe { std::ptr::read(&x as *const f80 as *const [u8; 10]) };
    (
        u16::from_le_bytes([b[8], b[9]]),
        u64::from_le_bytes([b[0], b[1], b[2], b[3], b[4], b[5], b[6], b[7]]),
    )
}

fn is_nan_raw(r: (u16, u64)) -> bool {
    (r.0 & 0x7FFF) == 0x7FFF && r.1 != 1 << 63
}

/// same 10 bytes (NaNs as a class)
fn same(u: f80, v: f80) -> bool {
    let (a, b) = (raw(u), raw(v));
    a == b || (is_nan_raw(a) && is_nan_raw(b))
}

fn ord_code(o: Option<Ordering>) -> u32 {
    match o {
        None => 0,
        Some(Ordering::Less) => 1,
        Some(Ordering::Equal) => 2,
        Some(Ordering::Greater) => 3,
    }
}

fn push_raw(out: &mut Vec<String>, r: f80) {
    let (se, m) = raw(r);
    out.push(format!("{} {}", se, m));
}

/// every relation of the crate on the ordered pair (*u, *v), through the given references
/// (`*u < *v` is `PartialOrd::lt(&*u, &*v)`: no copy is made)
pub fn rel_code(u: &f80, v: &f80, fails: &mut Vec<&'static str>) -> u32 {
    let eq = *u == *v;
    let ne = *u != *v;
    if eq == ne {
        fails.push("ne-is-not-the-negation-of-eq");
    }
    (*u < *v) as u32
        + 2 * ((*u <= *v) as u32)
        + 4 * ((*u > *v) as u32)
        + 8 * ((*u >= *v) as u32)
        + 16 * (eq as u32)
        + 32 * ord_code(u.partial_cmp(v))
}

/// `partial_cmp` of every pair, evaluated on copies made by the loop pattern: only `partial_cmp` reads them
#[inline(never)]
fn pcmp_loop(pairs: &[(f80, f80)]) -> Vec<u32> {
    let mut out = Vec::with_capacity(pairs.len());
    for &(u, v) in pairs {
        out.push(ord_code(u.partial_cmp(&v)));
    }
    out
}

#[inline(never)]
fn pcmp_zip(us: &[f80], vs: &[f80]) -> Vec<u32> {
    us.iter().zip(vs.iter()).map(|(&u, &v)| ord_code(u.partial_cmp(&v))).collect()
}

#[inline(never)]
fn count_by_pcmp(vals: &[f80], pivot: f80, want: Option<Ordering>) -> usize {
    vals.iter().filter(|&&u| u.partial_cmp(&pivot) == want).count()
}

#[inline(never)]
fn running_max_pcmp(vals: &[f80]) -> f80 {
    let mut best = vals[0];
    for &u in &vals[1..] {
        if u.partial_cmp(&best) == Some(Ordering::Greater) {
            best = u;
        }
    }
    best
}

#[inline(never)]
fn running_min_pcmp(vals: &[f80]) -> f80 {
    vals.iter().copied().fold(vals[0], |acc, u| if u.partial_cmp(&acc) == Some(Ordering::Less) { u } else { acc })
}

/// the loop idioms in which user code calls `partial_cmp`, against the operators on the stored values
fn idioms(vals: &[f80], pivot: f80, fails: &mut Vec<&'static str>) {
    // filter / count
    let (mut lt, mut eq, mut gt, mut un) = (0usize, 0usize, 0usize, 0usize);
    for u in vals {
        if *u < pivot {
            lt += 1;
        } else if *u > pivot {
            gt += 1;
        } else if *u == pivot {
            eq += 1;
        } else {
            un += 1;
        }
    }
    if count_by_pcmp(vals, pivot, Some(Ordering::Less)) != lt
        || count_by_pcmp(vals, pivot, Some(Ordering::Equal)) != eq
        || count_by_pcmp(vals, pivot, Some(Ordering::Greater)) != gt
        || count_by_pcmp(vals, pivot, None) != un
    {
        fails.push("filter-count-by-partial_cmp");
    }
    // running maximum / minimum
    let mut best = 0usize;
    let mut least = 0usize;
    for k in 1..vals.len() {
        if vals[k] > vals[best] {
            best = k;
        }
        if vals[k] < vals[least] {
            least = k;
        }
    }
    if !same(running_max_pcmp(vals), vals[best]) {
        fails.push("running-maximum-by-partial_cmp");
    }
    if !same(running_min_pcmp(vals), vals[least]) {
        fails.push("fold-minimum-by-partial_cmp");
    }
    // max_by / sort_by on the ordered (non-NaN) values
    let ordered: Vec<f80> = vals.iter().copied().filter(|u| *u == *u).collect();
    if !ordered.is_empty() {
        let mx = ordered.iter().copied().max_by(|a, b| a.partial_cmp(b).unwrap_or(Ordering::Equal)).unwrap();
        if ordered.iter().any(|u| *u > mx) {
            fails.push("max_by-partial_cmp");
        }
        let mut sorted = ordered.clone();
        sorted.sort_by(|a, b| a.partial_cmp(b).unwrap_or(Ordering::Equal));
        if sorted.windows(2).any(|w| w[1] < w[0]) {
            fails.push("sort_by-partial_cmp");
        }
    }
}

#[derive(Clone, Copy, Default)]
struct Route {
    assign: bool,
    consts: bool,
    selfref: bool,
    looped: bool,
    thread: bool,
    init: bool,
    abn: Abn,
    inherit: bool,
}

fn parse_route(s: &str) -> Route {
    let mut r = Route::default();
    for c in s.chars() {
        match c {
            'a' => r.assign = true,
            'c' => r.consts = true,
            's' => r.selfref = true,
            'l' => r.looped = true,
            't' => r.thread = true,
            'i' => r.init = true,
            'f' => r.abn.string = true,
            'b' => r.abn.bounded = true,
            'p' => r.abn.panicky = true,
            'u' => r.abn.unwind = true,
            'h' => r.inherit = true,
            '-' => {}
            _ => {
                eprintln!("harness: unknown route letter {:?}", c);
                std::process::exit(3)
            }
        }
    }
    r
}

const ONE_BITS: u64 = 0x3FF0000000000000;

fn operand(bits: u64, consts: bool, second: bool) -> f80 {
    if consts && bits == 0 {
        return if second { f80::default() } else { f80::ZERO };
    }
    if consts && bits == ONE_BITS {
        return f80::ONE;
    }
    f80::from(f64::from_bits(bits))
}

fn script(abits: u64, bbits: u64, rt: Route, fails: &mut Vec<&'static str>) -> String {
    if rt.init {
        rlib_f80::f80_init();
    }
    let (x, y) = (operand(abits, rt.consts, false), operand(bbits, rt.consts, true));
    // the constants are the conversions of 0.0 and 1.0 (whose raws Coq checks whenever a pattern is 0.0 / 1.0)
    if raw(f80::ZERO) != raw(f80::from(0.0)) || raw(f80::default()) != raw(f80::from(0.0)) {
        fails.push("ZERO-or-default-is-not-from-0.0");
    }
    if raw(f80::ONE) != raw(f80::from(1.0)) {
        fails.push("ONE-is-not-from-1.0");
    }
    // by-value operators
    let (s1, d1, p1, q1) = (x + y, x - y, x * y, x / y);
    let mad1 = x * y + x;
    let ch1 = mad1 / y;
    // assigning operators
    let mut s2 = x;
    s2 += y;
    let mut d2 = x;
    d2 -= y;
    let mut p2 = x;
    p2 *= y;
    let mut q2 = x;
    q2 /= y;
    let mut acc = p2;
    acc += x;
    let mad2 = acc;
    acc /= y;
    let ch2 = acc;
    if !same(s1, s2) {
        fails.push("add_assign-differs-from-add");
    }
    if !same(d1, d2) {
        fails.push("sub_assign-differs-from-sub");
    }
    if !same(p1, p2) {
        fails.push("mul_assign-differs-from-mul");
    }
    if !same(q1, q2) {
        fails.push("div_assign-differs-from-div");
    }
    if !same(mad1, mad2) || !same(ch1, ch2) {
        fails.push("assign-chain-differs-from-operator-chain");
    }
    let (s, d, p, q, mad, ch) = if rt.assign { (s2, d2, p2, q2, mad2, ch2) } else { (s1, d1, p1, q1, mad1, ch1) };
    let n = -x;
    if rt.init {
        rlib_f80::f80_init();
    }
    let mut out: Vec<String> = Vec::new();
    for r in [x, y, s, d, p, q, n, mad, ch] {
        push_raw(&mut out, r);
    }
    for r in [x, s, d, p, q, ch] {
        out.push(format!("{}", f64::from(r).to_bits()));
    }
    // relations on operands that need the extended format
    let ext = [mad, p, q, s];
    let through64: Vec<f80> = ext.iter().map(|&e| f80::from(f64::from(e))).collect();
    // the twelve ordered pairs of the line: (x, y) and the eleven of the extended group
    let mut pairs: Vec<(f80, f80)> = vec![(x, y)];
    for (&e, &ne) in ext.iter().zip(through64.iter()) {
        pairs.push((e, ne));
        pairs.push((ne, e));
    }
    pairs.push((mad, p));
    pairs.push((p, s));
    pairs.push((s, q));
    let mut codes: Vec<u32> = Vec::with_capacity(pairs.len());
    for (k, (u, v)) in pairs.iter().enumerate() {
        let c = if k == 0 && rt.selfref && abits == bbits { rel_code(u, u, fails) } else { rel_code(u, v, fails) };
        codes.push(c);
    }
    // partial_cmp on loop temporaries
    let lp = pcmp_loop(&pairs);
    let us: Vec<f80> = pairs.iter().map(|t| t.0).collect();
    let vs: Vec<f80> = pairs.iter().map(|t| t.1).collect();
    let lz = pcmp_zip(&us, &vs);
    for k in 0..pairs.len() {
        if lp[k] != codes[k] >> 5 || lz[k] != codes[k] >> 5 {
            fails.push("partial_cmp-on-loop-temporaries-differs");
            break;
        }
    }
    if rt.looped {
        for k in 0..pairs.len() {
            codes[k] = (codes[k] & 31) + 32 * lp[k];
        }
    }
    // the same object on both sides against two objects holding the same bytes
    for u in [x, y, mad, p, q, s, n] {
        let copy = black_box(u);
        let mut dummy = Vec::new();
        if rel_code(&u, &u, fails) != rel_code(&u, &copy, &mut dummy) {
            fails.push("same-reference-comparison-differs-from-two-objects");
            break;
        }
    }
    idioms(&[x, y, s, d, p, q, n, mad, ch], y, fails);
    idioms(&[mad, through64[0], p, through64[1], q, through64[2], s, through64[3]], p, fails);

    let c0 = codes[0];
    for bit in 0..5 {
        out.push(format!("{}", (c0 >> bit) & 1));
    }
    out.push(format!("{}", c0 >> 5));
    for r in [x.min(y), x.max(y), x.abs()] {
        push_raw(&mut out, r);
    }
    out.push(format!("{}", f64::from(mad).to_bits()));
    for &r in &through64 {
        push_raw(&mut out, r);
    }
    for k in 1..pairs.len() {
        let (u, v) = pairs[k];
        out.push(format!("{}", codes[k]));
        push_raw(&mut out, u.min(v));
        push_raw(&mut out, u.max(v));
    }
    for &e in &ext {
        push_raw(&mut out, e.abs());
    }
    out.join(" ")
}

/// every kind of operation of the crate once on the operands of the case, each bracketed by `hidden::quick()`
#[inline(never)]
fn audit(abits: u64, bbits: u64, fails: &mut Vec<&'static str>) {
    let x = watched!(fails, "f80-from-f64", f80::from(black_box(f64::from_bits(abits))));
    let y = watched!(fails, "f80-from-f64", f80::from(black_box(f64::from_bits(bbits))));
    let s = watched!(fails, "add", x + y);
    let d = watched!(fails, "sub", x - y);
    let p = watched!(fails, "mul", x * y);
    let q = watched!(fails, "div", x / y);
    let m = watched!(fails, "add", p + x);
    let c = watched!(fails, "div", m / y);
    let n = watched!(fails, "neg", -x);
    let mut t = x;
    watched!(fails, "add_assign", t += y);
    watched!(fails, "mul_assign", t *= y);
    watched!(fails, "sub_assign", t -= x);
    watched!(fails, "div_assign", t /= y);
    let vals = [x, y, s, d, p, q, m, c, n, t];
    let mut back = [x; 10];
    for (k, &v) in vals.iter().enumerate() {
        let f = watched!(fails, "f64-from-f80", f64::from(v));
        back[k] = watched!(fails, "f80-from-f64", f80::from(black_box(f)));
        black_box(watched!(fails, "abs", v.abs()));
    }
    let pairs = [(x, y), (y, x), (m, p), (m, back[6]), (back[4], p), (q, s), (x, x), (n, d)];
    for (u, v) in pairs.iter() {
        black_box(watched!(fails, "eq", *u == *v));
        black_box(watched!(fails, "ne", *u != *v));
        black_box(watched!(fails, "lt", *u < *v));
        black_box(watched!(fails, "le", *u <= *v));
        black_box(watched!(fails, "gt", *u > *v));
        black_box(watched!(fails, "ge", *u >= *v));
        black_box(watched!(fails, "partial_cmp", u.partial_cmp(v)));
        black_box(watched!(fails, "min", u.min(*v)));
        black_box(watched!(fails, "max", u.max(*v)));
    }
    black_box(watched!(fails, "Display", format!("{}", x)));
    black_box(watched!(fails, "Debug", format!("{:?}", y)));
    black_box(watched!(fails, "Display-with-a-precision", format!("{:.3} {:12.18}", p, q)));
    black_box(watched!(fails, "Debug-with-a-precision", format!("{:.17?}", m)));
    black_box(watched!(fails, "Show", (&&Wrap(s)).show_text(9)));
}

/// one case on the current thread: hidden-state audit, the abnormal histories of the route, the script
fn case(abits: u64, bbits: u64, rt: Route) -> String {
    let mut fails: Vec<&'static str> = Vec::new();
    let h0 = hidden::full();
    audit(abits, bbits, &mut fails);
    if rt.abn.any() {
        let (x, y) = (f80::from(f64::from_bits(abits)), f80::from(f64::from_bits(bbits)));
        let mut vals = vec![x, y, x + y, x * y, x / y, x * y + x];
        vals.extend_from_slice(&preamble::fixed_values());
        preamble::run(&vals, rt.abn, &mut fails);
    }
    let line = if rt.inherit {
        match std::thread::spawn(move || {
            let mut f: Vec<&'static str> = Vec::new();
            let l = script(abits, bbits, rt, &mut f);
            (l, f)
        })
        .join()
        {
            Ok((l, f)) => {
                fails.extend(f);
                l
            }
            Err(_) => "P".to_string(),
        }
    } else {
        script(abits, bbits, rt, &mut fails)
    };
    if hidden::full() != h0 {
        fails.push("x87-state-left-changed-at-the-end-of-the-case");
    }
    finish(line, fails)
}

fn finish(line: String, mut fails: Vec<&'static str>) -> String {
    if !fails.is_empty() && !no_x() {
        fails.sort();
        fails.dedup();
        return format!("X {}", fails.join(" "));
    }
    line
}

/// C18_NO_X=1 (experiments only: is a change caught by the routes / traces alone?) suppresses the `X` lines
fn no_x() -> bool {
    std::env::var_os("C18_NO_X").is_some()
}

/// one step of a straight-line program (also the primitive of the step-by-step side of src/kern.rs)
#[inline(never)]
pub fn apply(op: &str, u: f80, v: f80) -> f80 {
    match op {
        "add" => u + v,
        "sub" => u - v,
        "mul" => u * v,
        "div" => u / v,
        "adda" => {
            let mut w = u;
            w += v;
            w
        }
        "suba" => {
            let mut w = u;
            w -= v;
            w
        }
        "mula" => {
            let mut w = u;
            w *= v;
            w
        }
        "diva" => {
            let mut w = u;
            w /= v;
            w
        }
        "neg" => -u,
        "abs" => u.abs(),
        "min" => u.min(v),
        "max" => u.max(v),
        "rnd" => f80::from(f64::from(u)),
        _ => {
            eprintln!("harness: unknown trace op {:?}", op);
            std::process::exit(3)
        }
    }
}

fn trace(t: &[&str]) -> String {
    let a = f64::from_bits(u64::from_str_radix(t[1], 16).expect("hex"));
    let b = f64::from_bits(u64::from_str_radix(t[2], 16).expect("hex"));
    let n: usize = vh::p(t[3]);
    let abn = if t.len() > 4 + 3 * n { parse_route(t[4 + 3 * n]).abn } else { Abn::default() };
    let mut fails: Vec<&'static str> = Vec::new();
    let h0 = hidden::full();
    let mut regs: Vec<f80> = Vec::with_capacity(n + 2);
    regs.push(watched!(fails, "f80-from-f64", f80::from(a)));
    regs.push(watched!(fails, "f80-from-f64", f80::from(b)));
    if abn.any() {
        let mut vals = vec![regs[0], regs[1]];
        vals.extend_from_slice(&preamble::fixed_values());
        preamble::run(&vals, abn, &mut fails);
    }
    let mut out: Vec<String> = vec!["T".to_string()];
    push_raw(&mut out, regs[0]);
    push_raw(&mut out, regs[1]);
    for k in 0..n {
        let op = t[4 + 3 * k];
        let i: usize = vh::p(t[5 + 3 * k]);
        let j: usize = vh::p(t[6 + 3 * k]);
        let before = hidden::quick();
        let code = rel_code(&regs[i], &regs[j], &mut fails);
        if hidden::quick() != before {
            fails.push("x87-state-changed-by-a-relation");
        }
        let (u, v) = (regs[i], regs[j]);
        let before = hidden::quick();
        let r = apply(op, u, v);
        if hidden::quick() != before {
            fails.push("x87-state-changed-by-a-step-of-the-program");
        }
        push_raw(&mut out, r);
        let narrowed = watched!(fails, "f64-from-f80", f64::from(r));
        out.push(format!("{} {}", narrowed.to_bits(), code));
        regs.push(r);
        if abn.any() {
            preamble::between_steps(r, k, abn, &mut fails);
        }
    }
    if hidden::full() != h0 {
        fails.push("x87-state-left-changed-at-the-end-of-the-case");
    }
    finish(out.join(" "), fails)
}

/// `kern <kind> <a> <b> <nx> x.. <ny> y.. <np> p..` (all numbers binary64 bit patterns in hex): the leaf kernel `kind`
/// of src/kern.rs on the inputs, against its step-by-step twin.  One line out: the line of the fixed straight-line
/// program `mul 0 1, add 2 0, sub 3 1` on (a, b) - so that the case is an ordinary `Trace` for Coq - followed by
/// ` K <kind> v0 .. v5`, the six integers of the kernel (counters, raw bytes, f64 bit patterns; see src/kern.rs).
fn kern_case(t: &[&str]) -> String {
    let hexf = |s: &str| f64::from_bits(u64::from_str_radix(s, 16).expect("hex"));
    let kind = t[1];
    let mut pos = 4;
    let mut lists: Vec<Vec<f64>> = Vec::new();
    for _ in 0..3 {
        let n: usize = vh::p(t[pos]);
        lists.push(t[pos + 1..pos + 1 + n].iter().map(|s| hexf(s)).collect());
        pos += 1 + n;
    }
    let head = trace(&["trace", t[2], t[3], "3", "mul", "0", "1", "add", "2", "0", "sub", "3", "1"]);
    if !head.starts_with("T ") {
        return head;
    }
    let mut fails: Vec<&'static str> = Vec::new();
    let h0 = hidden::full();
    let got = watched!(fails, "a-leaf-kernel", kern::run(kind, &lists[0], &lists[1], &lists[2]));
    let (leaf, slow) = match got {
        Some(r) => r,
        None => {
            eprintln!("harness: unknown kernel {:?}", kind);
            std::process::exit(3)
        }
    };
    if leaf != slow {
        fails.push(Box::leak(format!("leaf-kernel-{}-differs-from-the-step-by-step-computation", kind).into_boxed_str()));
    }
    // the kernel once more, after the step-by-step twin: same inputs, same answer
    if let Some((again, _)) = kern::run(kind, &lists[0], &lists[1], &lists[2]) {
        if again != leaf {
            fails.push("leaf-kernel-is-not-deterministic");
        }
    }
    if hidden::full() != h0 {
        fails.push("x87-state-left-changed-at-the-end-of-the-case");
    }
    let vals: Vec<String> = leaf.iter().map(|v| v.to_string()).collect();
    finish(format!("{} K {} {}", head, kind, vals.join(" ")), fails)
}

// ---------------------------------------------------------------------------------------- kernels in a child process
// A leaf kernel whose red zone is overwritten does not only compute wrong numbers: the overwritten slot may hold a
// slice pointer or a loop bound, and the process dies with SIGSEGV.  The kernels therefore run in a child process
// (this executable again, C18_KERN_CHILD=1, one line in -> one line out, flushed); a child that dies is a failed
// internal check of the case and is replaced by a fresh one.
struct KernChild {
    proc: std::sync::Arc<std::sync::Mutex<std::process::Child>>,
    to: std::process::ChildStdin,
    from: std::io::BufReader<std::process::ChildStdout>,
}

static KERN_CHILD: std::sync::Mutex<Option<KernChild>> = std::sync::Mutex::new(None);

fn spawn_kern_child() -> Option<KernChild> {
    let exe = std::env::current_exe().ok()?;
    let mut proc = std::process::Command::new(exe)
        .env("C18_KERN_CHILD", "1")
        .stdin(std::process::Stdio::piped())
        .stdout(std::process::Stdio::piped())
        .stderr(std::process::Stdio::null())
        .spawn()
        .ok()?;
    let to = proc.stdin.take()?;
    let from = std::io::BufReader::new(proc.stdout.take()?);
    Some(KernChild { proc: std::sync::Arc::new(std::sync::Mutex::new(proc)), to, from })
}

fn kern_in_child(t: &[&str]) -> String {
    use std::io::{BufRead, Write};
    let mut guard = KERN_CHILD.lock().unwrap_or_else(|e| e.into_inner());
    if guard.is_none() {
        *guard = spawn_kern_child();
    }
    let answer = match guard.as_mut() {
        None => return kern_case(t), // no child process available: in this process
        Some(ch) => {
            // watchdog: an overwritten loop bound may as well make the kernel run for ever
            let (done, wait) = std::sync::mpsc::channel::<()>();
            let victim = ch.proc.clone();
            let dog = std::thread::spawn(move || {
                if wait.recv_timeout(std::time::Duration::from_secs(20)) == Err(std::sync::mpsc::RecvTimeoutError::Timeout) {
                    let _ = victim.lock().unwrap_or_else(|e| e.into_inner()).kill();
                }
            });
            let mut line = String::new();
            let sent = writeln!(ch.to, "{}", t.join(" ")).and_then(|_| ch.to.flush());
            let got = sent.and_then(|_| ch.from.read_line(&mut line));
            let _ = done.send(());
            let _ = dog.join();
            match got {
                Ok(n) if n > 0 && line.ends_with('\n') => Some(line.trim_end().to_string()),
                _ => None,
            }
        }
    };
    match answer {
        Some(l) => l,
        None => {
            if let Some(ch) = guard.take() {
                let mut p = ch.proc.lock().unwrap_or_else(|e| e.into_inner());
                let _ = p.kill();
                let _ = p.wait();
            }
            finish(String::new(), vec![Box::leak(format!("leaf-kernel-{}-killed-the-process", t[1]).into_boxed_str())])
        }
    }
}

fn kern_child_main() {
    use std::io::{BufRead, Write};
    std::panic::set_hook(Box::new(|_| {}));
    let base = hidden::full();
    let stdin = std::io::stdin();
    let stdout = std::io::stdout();
    for line in stdin.lock().lines() {
        let line = match line {
            Ok(l) => l,
            Err(_) => break,
        };
        let toks: Vec<&str> = line.split_whitespace().collect();
        if toks.is_empty() {
            continue;
        }
        let res = std::panic::catch_unwind(std::panic::AssertUnwindSafe(|| kern_case(&toks))).unwrap_or_else(|_| "P".to_string());
        if hidden::full() != base {
            hidden::restore(base);
        }
        let mut out = stdout.lock();
        if writeln!(out, "{}", res).and_then(|_| out.flush()).is_err() {
            break;
        }
    }
}

fn main() {
    // C18_NO_INIT=1: the process never calls f80_init (legal on Linux, where it does nothing)
    if std::env::var_os("C18_NO_INIT").is_none() {
        rlib_f80::f80_init();
    }
    if std::env::var_os("C18_KERN_CHILD").is_some() {
        return kern_child_main();
    }
    let base = hidden::full();
    vh::serve(|t| {
        let line = one_line(t);
        // a case that left the hidden state changed has said so in its line: the next case starts clean
        if hidden::full() != base {
            hidden::restore(base);
        }
        line
    });
    if let Some(ch) = KERN_CHILD.lock().unwrap_or_else(|e| e.into_inner()).take() {
        drop(ch.to);
        let _ = ch.proc.lock().unwrap_or_else(|e| e.into_inner()).wait();
    }
}

fn one_line(t: &[&str]) -> String {
    {
        if t[0] == "trace" {
            return trace(t);
        }
        if t[0] == "kern" {
            return kern_in_child(t);
        }
        let abits = u64::from_str_radix(t[1], 16).expect("hex");
        let bbits = u64::from_str_radix(t[2], 16).expect("hex");
        let rt = if t.len() > 3 { parse_route(t[3]) } else { Route::default() };
        if rt.thread {
            let rt2 = rt;
            match std::thread::spawn(move || case(abits, bbits, rt2)).join() {
                Ok(s) => s,
                Err(_) => "P".to_string(),
            }
        } else {
            case(abits, bbits, rt)
        }
    }
}
