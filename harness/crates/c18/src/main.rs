//! C18 executor.  One line in: `<op> <a-hex> <b-hex>` (two binary64 bit patterns; `op` is only
//! echoed by the driver, every observation is always produced).  One line out, decimal tokens:
//!   raw(x) raw(y) raw(x+y) raw(x-y) raw(x*y) raw(x/y) raw(-x) raw(x*y+x) raw((x*y+x)/y)    (9 x `se m`)
//!   bits(f64(x)) bits(f64(x+y)) bits(f64(x-y)) bits(f64(x*y)) bits(f64(x/y)) bits(f64(chain))
//!   lt le gt ge eq (0/1)  partial_cmp (0 None 1 Less 2 Equal 3 Greater)
//!   raw(min) raw(max) raw(abs x)
//! where x = f80::from(a), y = f80::from(b) and raw = (sign/exponent u16, significand u64).
use rlib_f80::f80;
use std::cmp::Ordering;

fn raw(x: f80) -> (u16, u64) {
    // `#[repr(align(16))] struct f80([u8; 10])`: the value is the first 10 bytes
    let b: [u8; 10] = unsafe { std::ptr::read(&x as *const f80 as *const [u8; 10]) };
    (
        u16::from_le_bytes([b[8], b[9]]),
        u64::from_le_bytes([b[0], b[1], b[2], b[3], b[4], b[5], b[6], b[7]]),
    )
}

fn main() {
    rlib_f80::f80_init();
    vh::serve(|t| {
        let a = f64::from_bits(u64::from_str_radix(t[1], 16).expect("hex"));
        let b = f64::from_bits(u64::from_str_radix(t[2], 16).expect("hex"));
        let (x, y) = (f80::from(a), f80::from(b));
        let (s, d, p, q, n) = (x + y, x - y, x * y, x / y, -x);
        let mad = x * y + x;
        let ch = mad / y;
        let mut out: Vec<String> = Vec::new();
        for r in [x, y, s, d, p, q, n, mad, ch] {
            let (se, m) = raw(r);
            out.push(format!("{} {}", se, m));
        }
        for r in [x, s, d, p, q, ch] {
            out.push(format!("{}", f64::from(r).to_bits()));
        }
        for v in [x < y, x <= y, x > y, x >= y, x == y] {
            out.push(format!("{}", v as u8));
        }
        out.push(
            match x.partial_cmp(&y) {
                None => "0",
                Some(Ordering::Less) => "1",
                Some(Ordering::Equal) => "2",
                Some(Ordering::Greater) => "3",
            }
            .to_string(),
        );
        for r in [x.min(y), x.max(y), x.abs()] {
            let (se, m) = raw(r);
            out.push(format!("{} {}", se, m));
        }
        out.join(" ")
    });
}
