//! C18 executor.  One line in: `<op> <a-hex> <b-hex>` (two binary64 bit patterns; `op` is only
//! echoed by the driver, every observation is always produced).  One line out, decimal tokens:
//!   raw(x) raw(y) raw(x+y) raw(x-y) raw(x*y) raw(x/y) raw(-x) raw(x*y+x) raw((x*y+x)/y)    (9 x `se m`)
//!   bits(f64(x)) bits(f64(x+y)) bits(f64(x-y)) bits(f64(x*y)) bits(f64(x/y)) bits(f64(chain))
//!   lt le gt ge eq (0/1)  partial_cmp (0 None 1 Less 2 Equal 3 Greater)
//!   raw(min) raw(max) raw(abs x)
//! where x = f80::from(a), y = f80::from(b) and raw = (sign/exponent u16, significand u64).
//!
//! Then the relations on EXTENDED-FORMAT operands (values that are not images of an f64), with
//!   m = x*y + x,  p = x*y,  q = x/y,  s = x+y   and   n_e = f80::from(f64::from(e)):
//!   bits(f64(m))  raw(n_m) raw(n_p) raw(n_q) raw(n_s)
//!   rel(m,n_m) rel(n_m,m) rel(p,n_p) rel(n_p,p) rel(q,n_q) rel(n_q,q) rel(s,n_s) rel(n_s,s)
//!   rel(m,p) rel(p,s) rel(s,q)
//!   raw(abs m) raw(abs p) raw(abs q) raw(abs s)
//! where rel(u,v) = `code raw(u.min(v)) raw(u.max(v))` and
//!   code = [u<v] + 2[u<=v] + 4[u>v] + 8[u>=v] + 16[u==v] + 32*partial_cmp(u,v).
use rlib_f80::f80;
use std::cmp::Ordering;

fn raw(x: f80) -> (u16, u64) {
    // `#[repr(align(16))] struct f80([u8; 10])`: the value is the first 10 bytes
    let b: [u8; 10] = unsafe { std::ptr::read(&x as *const f80 as *const [u8; 10]) };
    (
        u16::from_le_bytes([b[8], b[9]]),
        u64::from_le_bytes([b[0], b[1], b[2], b[3], b[4], b[5], b[6], b[7]]),
    )
}

fn pcmp(u: f80, v: f80) -> u32 {
    match u.partial_cmp(&v) {
        None => 0,
        Some(Ordering::Less) => 1,
        Some(Ordering::Equal) => 2,
        Some(Ordering::Greater) => 3,
    }
}

fn push_raw(out: &mut Vec<String>, r: f80) {
    let (se, m) = raw(r);
    out.push(format!("{} {}", se, m));
}

/// every relation of the crate on the ordered pair (u, v)
fn rel(out: &mut Vec<String>, u: f80, v: f80) {
    let code = (u < v) as u32
        + 2 * ((u <= v) as u32)
        + 4 * ((u > v) as u32)
        + 8 * ((u >= v) as u32)
        + 16 * ((u == v) as u32)
        + 32 * pcmp(u, v);
    out.push(format!("{}", code));
    push_raw(out, u.min(v));
    push_raw(out, u.max(v));
}

fn main() {
    rlib_f80::f80_init();
    vh::serve(|t| {
        let a = f64::from_bits(u64::from_str_radix(t[1], 16).expect("hex"));
        let b = f64::from_bits(u64::from_str_radix(t[2], 16).expect("hex"));
        let (x, y) = (f80::from(a), f80::from(b));
        let (s, d, p, q, n) = (x + y, x - y, x * y, x / y, -x);
        let mad = x * y + x;
        let ch = mad / y;
        let mut out: Vec<String> = Vec::new();
        for r in [x, y, s, d, p, q, n, mad, ch] {
            push_raw(&mut out, r);
        }
        for r in [x, s, d, p, q, ch] {
            out.push(format!("{}", f64::from(r).to_bits()));
        }
        for v in [x < y, x <= y, x > y, x >= y, x == y] {
            out.push(format!("{}", v as u8));
        }
        out.push(format!("{}", pcmp(x, y)));
        for r in [x.min(y), x.max(y), x.abs()] {
            push_raw(&mut out, r);
        }
        // relations on operands that need the extended format
        let ext = [mad, p, q, s];
        let through64: Vec<f80> = ext.iter().map(|&e| f80::from(f64::from(e))).collect();
        out.push(format!("{}", f64::from(mad).to_bits()));
        for &r in &through64 {
            push_raw(&mut out, r);
        }
        for (&e, &ne) in ext.iter().zip(through64.iter()) {
            rel(&mut out, e, ne);
            rel(&mut out, ne, e);
        }
        rel(&mut out, mad, p);
        rel(&mut out, p, s);
        rel(&mut out, s, q);
        for &e in &ext {
            push_raw(&mut out, e.abs());
        }
        out.join(" ")
    });
}
