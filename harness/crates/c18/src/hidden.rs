//! Hidden floating-point state of the current thread: everything an f80 operation depends on beside its operands.
//!
//!   x87 control word (fnstcw): rounding control, precision control, exception masks
//!   x87 status word (fnstsw):  TOP (a value left on / popped off the register stack moves it), SF (stack fault)
//!   x87 tag word (fnstenv):    which of the eight registers are occupied (must be none between operations)
//!   MXCSR control bits:        the SSE rounding mode / masks / FTZ / DAZ (the f64 side of the conversions)
//!
//! The sticky exception flags and the condition codes change legitimately and are ignored.
use core::arch::asm;

#[derive(Clone, Copy, PartialEq, Eq, Debug)]
pub struct Quick {
    pub cw: u16,
    pub top_sf: u16,
    pub mxcsr: u32,
}

/// control word, TOP + SF of the status word, control bits of MXCSR: three stores, no side effect
#[inline(always)]
pub fn quick() -> Quick {
    let mut cw = 0u16;
    let mut sw = 0u16;
    let mut mx = 0u32;
    unsafe {
        asm!(
            "fnstcw  WORD PTR [{0}]",
            "fnstsw  WORD PTR [{1}]",
            "stmxcsr DWORD PTR [{2}]",
            in(reg) &mut cw as *mut u16,
            in(reg) &mut sw as *mut u16,
            in(reg) &mut mx as *mut u32,
            options(nostack)
        );
    }
    Quick { cw, top_sf: sw & 0x3840, mxcsr: mx & 0xFFC0 }
}

#[derive(Clone, Copy, PartialEq, Eq, Debug)]
pub struct Full {
    pub q: Quick,
    pub tag: u16,
}

/// `quick` + the tag word (fnstenv masks all exceptions as a side effect: fldenv of the same image undoes that)
#[inline(never)]
pub fn full() -> Full {
    let q = quick();
    let mut env = [0u32; 7];
    unsafe {
        asm!(
            "fnstenv [{0}]",
            "fldenv  [{0}]",
            in(reg) env.as_mut_ptr(),
            options(nostack)
        );
    }
    Full { q, tag: (env[2] & 0xFFFF) as u16 }
}

/// put the thread back into the state `b` (empty register stack): a case that left the state changed has been
/// reported by then; the cases after it on the same thread must not inherit the damage
#[inline(never)]
pub fn restore(b: Full) {
    let cw = b.q.cw;
    let mx = b.q.mxcsr;
    unsafe {
        asm!(
            "fninit",
            "fldcw   WORD PTR [{0}]",
            "ldmxcsr DWORD PTR [{1}]",
            in(reg) &cw as *const u16,
            in(reg) &mx as *const u32,
            options(nostack)
        );
    }
}

/// evaluate `$e`; if the hidden state after it differs from the state before it, record
/// `x87-state-changed-by-<name>`
#[macro_export]
macro_rules! watched {
    ($fails:expr, $name:literal, $e:expr) => {{
        let before = $crate::hidden::quick();
        let r = $e;
        if $crate::hidden::quick() != before {
            $fails.push(concat!("x87-state-changed-by-", $name));
        }
        r
    }};
}
