//! LEAF KERNELS: the operations of rlib_f80 in the surroundings in which optimised user code contains them.
//!
//! Every operation of the crate is an `asm!` block whose `options(..)` / operand list is a promise to the compiler
//! (`nostack`: the block does not touch the stack or the red zone; no `pure` / `nomem` / `preserves_flags`; the x87
//! stack is left as found).  A wrong promise is invisible as long as the block is compiled on its own or next to a
//! call: it needs the block INLINED into a function whose locals the optimiser has placed where the promise says the
//! block will not look.  The pair script and the straight-line programs of main.rs are such harmless surroundings
//! (they format, allocate, call closures: every function there has a frame and spills around calls).
//!
//! Each kernel below is written once, generically over the way the primitive operations are reached (`Ar`), and
//! instantiated twice:
//!   * `<name>_leaf`  `#[inline(never)]`, the operators used directly: after inlining (release, lto) a LEAF function - no
//!     call, no formatting, no allocation, no panic path (slices are only iterated / zipped, never indexed); its
//!     f80 locals (loop invariants, loop-carried accumulators) live in registers-worth of stack slots that on x86-64
//!     SysV are in the RED ZONE below rsp, while f64 values are converted, compared, narrowed next to them;
//!   * `<name>_slow`  the same quantity step by step: every primitive is a call of an `#[inline(never)]` function
//!     (`apply` of main.rs, the interpreter of the straight-line programs; `rel_code`), operands and results
//!     forced through memory with `black_box`: a non-leaf function with an ordinary frame.
//! Results are plain integers: counters, raw bytes of f80 values as (sign/exponent word, significand), f64 bit
//! patterns.  The two instantiations must agree bit for bit (failed internal check `leaf-kernel-<name>-...`), the
//! plugin compares both with exact rational arithmetic rounded as the property says (checks/c18.py `kern_expected`),
//! and the debug / release / lto builds must print the same line.
//!
//! Kernels (f64 inputs are arguments, so that a case supplies them):
//!   line      count of a*x + b*y + c > 0                         three loop-invariant f80 locals, two conversions
//!   recur     acc = acc*a + k*b, count of acc > lim              invariants + a loop-carried accumulator
//!   dot       acc = acc + x*y                                    loop-carried only
//!   horner    acc = acc*x0 + c                                   one invariant, one carried
//!   runsum    s = s + x*f, counts of s > lim / s <= lim          invariant factor and limit
//!   limit     if-chain  v < lim / v == lim / v > lim, v = x*scale
//!   minmax    running min / max of x*scale + off                 min, max with two carried values
//!   absneg    acc = acc + |x - bias|, count of -acc < -(x)       abs (converts 0.0 itself), neg
//!   tof64     d = f64(a*x + b); f64 arithmetic on d next to f80 relations (SSE and x87 interleaved)
//!   mixed     integer flags and f80 relations in one if-chain (parity of the index, <, ==, <=, >=)
//!   inv2, inv4, inv5, inv6, inv8    2 / 4 / 5 / 6 / 8 loop-invariant f80 locals alive across the conversions
//!             (eight 16-byte locals fill the whole red zone)
//!   carried3  three loop-carried f80 values (sum, alternating product, running maximum of |..|)
//!   pcmp      partial_cmp against an invariant pivot, counted by outcome
//!   convonly  nothing but conversions f64 -> f80 -> f64 next to one live invariant (returned at the end)
//!   flags     integer comparisons (select, carry) used on both sides of f80 relations within one basic block
//!   sides     line with extra live integer state (four counters, an index hash): other register pressure
use crate::{apply, rel_code};
use rlib_f80::f80;
use std::cmp::Ordering;
use std::hint::black_box;

pub type Out = [u64; 6];

#[inline(always)]
fn se(x: f80) -> u64 {
    let b: [u8; 10] = unsafe { std::ptr::read(&x as *const f80 as *const [u8; 10]) };
    u16::from_le_bytes([b[8], b[9]]) as u64
}

#[inline(always)]
fn mant(x: f80) -> u64 {
    let b: [u8; 10] = unsafe { std::ptr::read(&x as *const f80 as *const [u8; 10]) };
    u64::from_le_bytes([b[0], b[1], b[2], b[3], b[4], b[5], b[6], b[7]])
}

/// how a kernel reaches the primitive operations of the crate
pub trait Ar {
    fn cv(x: f64) -> f80;
    fn to(x: f80) -> f64;
    fn add(u: f80, v: f80) -> f80;
    fn sub(u: f80, v: f80) -> f80;
    fn mul(u: f80, v: f80) -> f80;
    fn neg(u: f80) -> f80;
    fn abs(u: f80) -> f80;
    fn min(u: f80, v: f80) -> f80;
    fn max(u: f80, v: f80) -> f80;
    fn lt(u: &f80, v: &f80) -> bool;
    fn le(u: &f80, v: &f80) -> bool;
    fn gt(u: &f80, v: &f80) -> bool;
    fn ge(u: &f80, v: &f80) -> bool;
    fn eq(u: &f80, v: &f80) -> bool;
    fn pcmp(u: &f80, v: &f80) -> Option<Ordering>;
}

/// the operators, as user code writes them
pub struct Leaf;
impl Ar for Leaf {
    #[inline(always)]
    fn cv(x: f64) -> f80 {
        f80::from(x)
    }
    #[inline(always)]
    fn to(x: f80) -> f64 {
        f64::from(x)
    }
    #[inline(always)]
    fn add(u: f80, v: f80) -> f80 {
        u + v
    }
    #[inline(always)]
    fn sub(u: f80, v: f80) -> f80 {
        u - v
    }
    #[inline(always)]
    fn mul(u: f80, v: f80) -> f80 {
        u * v
    }
    #[inline(always)]
    fn neg(u: f80) -> f80 {
        -u
    }
    #[inline(always)]
    fn abs(u: f80) -> f80 {
        u.abs()
    }
    #[inline(always)]
    fn min(u: f80, v: f80) -> f80 {
        u.min(v)
    }
    #[inline(always)]
    fn max(u: f80, v: f80) -> f80 {
        u.max(v)
    }
    #[inline(always)]
    fn lt(u: &f80, v: &f80) -> bool {
        *u < *v
    }
    #[inline(always)]
    fn le(u: &f80, v: &f80) -> bool {
        *u <= *v
    }
    #[inline(always)]
    fn gt(u: &f80, v: &f80) -> bool {
        *u > *v
    }
    #[inline(always)]
    fn ge(u: &f80, v: &f80) -> bool {
        *u >= *v
    }
    #[inline(always)]
    fn eq(u: &f80, v: &f80) -> bool {
        *u == *v
    }
    #[inline(always)]
    fn pcmp(u: &f80, v: &f80) -> Option<Ordering> {
        u.partial_cmp(v)
    }
}

#[inline(never)]
fn slow_cv(x: f64) -> f80 {
    let slot = black_box(x);
    black_box(f80::from(slot))
}

#[inline(never)]
fn slow_to(x: f80) -> f64 {
    let slot = black_box(x);
    black_box(f64::from(slot))
}

#[inline(never)]
fn slow_code(u: &f80, v: &f80) -> u32 {
    let mut sink: Vec<&'static str> = Vec::new();
    let (a, b) = (black_box(*u), black_box(*v));
    let c = rel_code(&a, &b, &mut sink);
    if !sink.is_empty() {
        return 0x8000_0000 | c;
    }
    black_box(c)
}

/// step by step through the interpreter of the straight-line programs
pub struct Slow;
impl Ar for Slow {
    fn cv(x: f64) -> f80 {
        slow_cv(x)
    }
    fn to(x: f80) -> f64 {
        slow_to(x)
    }
    fn add(u: f80, v: f80) -> f80 {
        black_box(apply("add", black_box(u), black_box(v)))
    }
    fn sub(u: f80, v: f80) -> f80 {
        black_box(apply("sub", black_box(u), black_box(v)))
    }
    fn mul(u: f80, v: f80) -> f80 {
        black_box(apply("mul", black_box(u), black_box(v)))
    }
    fn neg(u: f80) -> f80 {
        black_box(apply("neg", black_box(u), black_box(u)))
    }
    fn abs(u: f80) -> f80 {
        black_box(apply("abs", black_box(u), black_box(u)))
    }
    fn min(u: f80, v: f80) -> f80 {
        black_box(apply("min", black_box(u), black_box(v)))
    }
    fn max(u: f80, v: f80) -> f80 {
        black_box(apply("max", black_box(u), black_box(v)))
    }
    fn lt(u: &f80, v: &f80) -> bool {
        slow_code(u, v) & 1 != 0
    }
    fn le(u: &f80, v: &f80) -> bool {
        slow_code(u, v) & 2 != 0
    }
    fn gt(u: &f80, v: &f80) -> bool {
        slow_code(u, v) & 4 != 0
    }
    fn ge(u: &f80, v: &f80) -> bool {
        slow_code(u, v) & 8 != 0
    }
    fn eq(u: &f80, v: &f80) -> bool {
        slow_code(u, v) & 16 != 0
    }
    fn pcmp(u: &f80, v: &f80) -> Option<Ordering> {
        match (slow_code(u, v) >> 5) & 3 {
            0 => None,
            1 => Some(Ordering::Less),
            2 => Some(Ordering::Equal),
            _ => Some(Ordering::Greater),
        }
    }
}

// ------------------------------------------------------------------------------------------------ the kernels
#[inline(always)]
fn line<A: Ar>(xs: &[f64], ys: &[f64], a: f64, b: f64, c: f64) -> Out {
    let (a, b, c) = (A::cv(a), A::cv(b), A::cv(c));
    let mut cnt = 0u64;
    for (&x, &y) in xs.iter().zip(ys) {
        if A::gt(&A::add(A::add(A::mul(a, A::cv(x)), A::mul(b, A::cv(y))), c), &A::cv(0.)) {
            cnt += 1;
        }
    }
    [cnt, 0, 0, 0, 0, 0]
}

#[inline(always)]
fn recur<A: Ar>(ks: &[f64], a: f64, b: f64, lim: f64) -> Out {
    let a = A::cv(a);
    let b = A::cv(b);
    let lim = A::cv(lim);
    let mut acc = A::cv(0.);
    let mut cnt = 0u64;
    for &k in ks {
        acc = A::add(A::mul(acc, a), A::mul(A::cv(k), b));
        if A::gt(&acc, &lim) {
            cnt += 1;
        }
    }
    [cnt, se(acc), mant(acc), 0, 0, 0]
}

#[inline(always)]
fn dot<A: Ar>(xs: &[f64], ys: &[f64]) -> Out {
    let mut acc = A::cv(0.);
    let mut pos = 0u64;
    for (&x, &y) in xs.iter().zip(ys) {
        acc = A::add(acc, A::mul(A::cv(x), A::cv(y)));
        if A::gt(&acc, &A::cv(0.)) {
            pos += 1;
        }
    }
    [pos, se(acc), mant(acc), 0, 0, 0]
}

#[inline(always)]
fn horner<A: Ar>(cs: &[f64], x0: f64) -> Out {
    let x0 = A::cv(x0);
    let mut acc = A::cv(0.);
    for &c in cs {
        acc = A::add(A::mul(acc, x0), A::cv(c));
    }
    [0, se(acc), mant(acc), se(x0), mant(x0), 0]
}

#[inline(always)]
fn runsum<A: Ar>(xs: &[f64], f: f64, lim: f64) -> Out {
    let f = A::cv(f);
    let lim = A::cv(lim);
    let mut s = A::cv(0.);
    let (mut above, mut notabove) = (0u64, 0u64);
    for &x in xs {
        s = A::add(s, A::mul(A::cv(x), f));
        if A::gt(&s, &lim) {
            above += 1;
        }
        if A::le(&s, &lim) {
            notabove += 1;
        }
    }
    [above, se(s), mant(s), notabove, se(f), mant(f)]
}

#[inline(always)]
fn limit<A: Ar>(xs: &[f64], scale: f64, lim: f64) -> Out {
    let scale = A::cv(scale);
    let lim = A::cv(lim);
    let (mut lt, mut eq, mut gt, mut other) = (0u64, 0u64, 0u64, 0u64);
    for &x in xs {
        let v = A::mul(A::cv(x), scale);
        if A::lt(&v, &lim) {
            lt += 1;
        } else if A::eq(&v, &lim) {
            eq += 1;
        } else if A::gt(&v, &lim) {
            gt += 1;
        } else {
            other += 1;
        }
    }
    [lt, eq, gt, other, se(lim), mant(lim)]
}

#[inline(always)]
fn minmax<A: Ar>(xs: &[f64], scale: f64, off: f64, lo0: f64, hi0: f64) -> Out {
    let scale = A::cv(scale);
    let off = A::cv(off);
    let mut mn = A::cv(lo0);
    let mut mx = A::cv(hi0);
    let mut moved = 0u64;
    for &x in xs {
        let v = A::add(A::mul(A::cv(x), scale), off);
        mn = A::min(mn, v);
        mx = A::max(mx, v);
        if A::eq(&mn, &v) || A::eq(&mx, &v) {
            moved += 1;
        }
    }
    [moved, se(mn), mant(mn), se(mx), mant(mx), 0]
}

#[inline(always)]
fn absneg<A: Ar>(xs: &[f64], bias: f64) -> Out {
    let bias = A::cv(bias);
    let mut acc = A::cv(0.);
    let mut cnt = 0u64;
    for &x in xs {
        let v = A::cv(x);
        acc = A::add(acc, A::abs(A::sub(v, bias)));
        if A::lt(&A::neg(acc), &A::neg(A::abs(v))) {
            cnt += 1;
        }
    }
    [cnt, se(acc), mant(acc), se(bias), mant(bias), 0]
}

#[inline(always)]
fn tof64<A: Ar>(xs: &[f64], a: f64, b: f64, t: f64) -> Out {
    let a80 = A::cv(a);
    let b80 = A::cv(b);
    let mut s64 = 0.0f64;
    let mut cnt = 0u64;
    let mut big = 0u64;
    for &x in xs {
        let v = A::add(A::mul(a80, A::cv(x)), b80);
        let d = A::to(v);
        s64 += d * 0.5;
        // SSE comparison, x87 relation, SSE comparison again
        if d > t && A::gt(&v, &a80) && s64 > t * 0.25 {
            cnt += 1;
        }
        if s64 * s64 >= t && A::le(&b80, &v) {
            big += 1;
        }
    }
    [cnt, s64.to_bits(), big, se(a80), mant(a80), 0]
}

#[inline(always)]
fn mixed<A: Ar>(xs: &[f64], ys: &[f64], lo: f64, hi: f64) -> Out {
    let lo = A::cv(lo);
    let hi = A::cv(hi);
    let (mut c0, mut c1, mut c2, mut c3) = (0u64, 0u64, 0u64, 0u64);
    let mut i = 0u64;
    let mut h = 0u64;
    for (&x, &y) in xs.iter().zip(ys) {
        let v = A::add(A::cv(x), A::cv(y));
        let odd = i & 1 == 1;
        if odd && A::lt(&v, &lo) {
            c0 += 1;
        } else if A::eq(&v, &lo) || (i % 3 == 0 && A::ge(&v, &hi)) {
            c1 += 1;
        } else if A::le(&v, &hi) && !odd {
            c2 += 1;
        } else if i > 4 {
            c3 += 1;
        }
        h = h.wrapping_mul(31).wrapping_add(c0 ^ (c2 << 1)).wrapping_add(i);
        i += 1;
    }
    [c0, c1, c2, c3, h, se(hi) ^ mant(lo)]
}

#[inline(always)]
fn inv2<A: Ar>(xs: &[f64], a: f64, t: f64) -> Out {
    let a = A::cv(a);
    let t = A::cv(t);
    let mut cnt = 0u64;
    for &x in xs {
        if A::gt(&A::mul(a, A::cv(x)), &t) {
            cnt += 1;
        }
    }
    [cnt, se(a), mant(a), se(t), mant(t), 0]
}

#[inline(always)]
fn inv4<A: Ar>(xs: &[f64], ys: &[f64], a0: f64, a1: f64, a2: f64, a3: f64) -> Out {
    let (a0, a1, a2, a3) = (A::cv(a0), A::cv(a1), A::cv(a2), A::cv(a3));
    let mut cnt = 0u64;
    for (&x, &y) in xs.iter().zip(ys) {
        let v = A::add(A::add(A::mul(a0, A::cv(x)), A::mul(a1, A::cv(y))), a2);
        if A::gt(&v, &a3) {
            cnt += 1;
        }
    }
    [cnt, se(a0) ^ se(a1) ^ se(a2) ^ se(a3), mant(a0) ^ mant(a1), mant(a2) ^ mant(a3), 0, 0]
}

#[inline(always)]
fn inv5<A: Ar>(xs: &[f64], ys: &[f64], a0: f64, a1: f64, a2: f64, a3: f64, a4: f64) -> Out {
    let (a0, a1, a2, a3, a4) = (A::cv(a0), A::cv(a1), A::cv(a2), A::cv(a3), A::cv(a4));
    let mut cnt = 0u64;
    for (&x, &y) in xs.iter().zip(ys) {
        let l = A::add(A::add(A::mul(a0, A::cv(x)), A::mul(a1, A::cv(y))), a2);
        let r = A::add(A::mul(a3, A::cv(x)), a4);
        if A::gt(&l, &r) {
            cnt += 1;
        }
    }
    [cnt, se(a0) ^ se(a1) ^ se(a2) ^ se(a3) ^ se(a4), mant(a0) ^ mant(a1), mant(a2) ^ mant(a3), mant(a4), 0]
}

#[inline(always)]
fn inv6<A: Ar>(xs: &[f64], ys: &[f64], a0: f64, a1: f64, a2: f64, a3: f64, a4: f64, a5: f64) -> Out {
    let (a0, a1, a2) = (A::cv(a0), A::cv(a1), A::cv(a2));
    let (a3, a4, a5) = (A::cv(a3), A::cv(a4), A::cv(a5));
    let (mut cnt, mut low) = (0u64, 0u64);
    for (&x, &y) in xs.iter().zip(ys) {
        let l = A::add(A::add(A::mul(a0, A::cv(x)), A::mul(a1, A::cv(y))), a2);
        let r = A::add(A::mul(a3, A::cv(x)), A::mul(a4, A::cv(y)));
        if A::gt(&A::mul(l, r), &a5) {
            cnt += 1;
        } else if A::lt(&l, &a5) {
            low += 1;
        }
    }
    [cnt, low, se(a0) ^ se(a1) ^ se(a2) ^ se(a3) ^ se(a4) ^ se(a5), mant(a0) ^ mant(a1) ^ mant(a2), mant(a3) ^ mant(a4) ^ mant(a5), 0]
}

#[inline(always)]
#[allow(clippy::too_many_arguments)]
fn inv8<A: Ar>(xs: &[f64], ys: &[f64], a0: f64, a1: f64, a2: f64, a3: f64, a4: f64, a5: f64, a6: f64, a7: f64) -> Out {
    let (a0, a1, a2, a3) = (A::cv(a0), A::cv(a1), A::cv(a2), A::cv(a3));
    let (a4, a5, a6, a7) = (A::cv(a4), A::cv(a5), A::cv(a6), A::cv(a7));
    let (mut cnt, mut eqs) = (0u64, 0u64);
    for (&x, &y) in xs.iter().zip(ys) {
        let l = A::add(A::add(A::mul(a0, A::cv(x)), A::mul(a1, A::cv(y))), a2);
        let r = A::add(A::add(A::mul(a3, A::cv(x)), A::mul(a4, A::cv(y))), a5);
        if A::gt(&A::mul(l, a6), &A::mul(r, a7)) {
            cnt += 1;
        }
        if A::eq(&l, &r) || A::ge(&A::min(l, a6), &A::max(r, a7)) {
            eqs += 1;
        }
    }
    [
        cnt,
        eqs,
        se(a0) ^ se(a1) ^ se(a2) ^ se(a3) ^ se(a4) ^ se(a5) ^ se(a6) ^ se(a7),
        mant(a0) ^ mant(a1) ^ mant(a2) ^ mant(a3),
        mant(a4) ^ mant(a5) ^ mant(a6) ^ mant(a7),
        0,
    ]
}

#[inline(always)]
fn carried3<A: Ar>(xs: &[f64], ys: &[f64]) -> Out {
    let mut p = A::cv(0.);
    let mut q = A::cv(1.);
    let mut r = A::cv(0.);
    for (&x, &y) in xs.iter().zip(ys) {
        p = A::add(p, A::cv(x));
        q = A::neg(A::mul(q, A::cv(y)));
        r = A::max(r, A::abs(A::sub(p, q)));
    }
    [se(p), mant(p), se(q), mant(q), se(r), mant(r)]
}

#[inline(always)]
fn pcmp<A: Ar>(xs: &[f64], pivot: f64, scale: f64) -> Out {
    let pivot = A::cv(pivot);
    let scale = A::cv(scale);
    let (mut l, mut e, mut g, mut n) = (0u64, 0u64, 0u64, 0u64);
    for &x in xs {
        match A::pcmp(&A::mul(A::cv(x), scale), &pivot) {
            Some(Ordering::Less) => l += 1,
            Some(Ordering::Equal) => e += 1,
            Some(Ordering::Greater) => g += 1,
            None => n += 1,
        }
    }
    [l, e, g, n, se(pivot), mant(pivot)]
}

#[inline(always)]
fn convonly<A: Ar>(xs: &[f64], keep: f64) -> Out {
    let keep = A::cv(keep);
    let mut same = 0u64;
    let mut h = 0u64;
    for &x in xs {
        let v = A::cv(x);
        let back = A::to(v);
        h = h.rotate_left(7) ^ back.to_bits();
        if A::eq(&v, &keep) {
            same += 1;
        }
    }
    [same, h, se(keep), mant(keep), 0, 0]
}

#[inline(always)]
fn sides<A: Ar>(xs: &[f64], ys: &[f64], a: f64, b: f64, c: f64) -> Out {
    let (a, b, c) = (A::cv(a), A::cv(b), A::cv(c));
    let (mut pos, mut neg, mut on, mut i, mut h) = (0u64, 0u64, 0u64, 0u64, 0u64);
    for (&x, &y) in xs.iter().zip(ys) {
        let v = A::add(A::add(A::mul(a, A::cv(x)), A::mul(b, A::cv(y))), c);
        if A::gt(&v, &A::cv(0.)) {
            pos += 1;
            h = h.wrapping_mul(131).wrapping_add(i);
        } else if A::lt(&v, &A::cv(0.)) {
            neg += 1;
            h ^= i << (neg & 7);
        } else {
            on += 1;
        }
        i += 1;
    }
    [pos, neg, on, h, se(c), mant(c)]
}

/// integer comparisons whose outcome is used on BOTH sides of an f80 relation / min / conversion in the same
/// basic block (selects, carries of 128-bit sums): the shapes in which a compiler may keep EFLAGS alive across a block
/// that promised `preserves_flags`
#[inline(always)]
fn flags<A: Ar>(xs: &[f64], ys: &[f64], lim: f64, m: f64) -> Out {
    let lim = A::cv(lim);
    let m = m as u64;
    let (mut h, mut i, mut cnt) = (0u64, 0u64, 0u64);
    let mut wide = 0u128;
    for (&x, &y) in xs.iter().zip(ys) {
        let (bx, by) = (x.to_bits(), y.to_bits());
        let below = i < m;
        let s1 = if below { bx } else { by };
        let r1 = A::lt(&A::cv(x), &lim);
        let s2 = if below { by >> 3 } else { bx >> 5 };
        let parity = (bx ^ by) & 1 == 0;
        let t1 = if parity { 3u64 } else { 5 };
        let r2 = A::eq(&A::cv(y), &lim);
        let t2 = if parity { i } else { m };
        let (sum, carry) = bx.overflowing_add(by);
        let v = A::min(A::cv(x), A::cv(y));
        let r3 = A::ge(&v, &lim);
        wide = wide.wrapping_add(((sum as u128) << 1) | carry as u128).wrapping_add((r3 as u128) << 64);
        h = h.wrapping_mul(t1).wrapping_add(s1 ^ s2).wrapping_add(t2 + r1 as u64 + 2 * r2 as u64);
        if r1 && below || r2 && parity || r3 && carry {
            cnt += 1;
        }
        i += 1;
    }
    [cnt, h, wide as u64, (wide >> 64) as u64, se(lim), mant(lim)]
}

macro_rules! pair {
    ($gen:ident, $leaf:ident, $slow:ident, ($($arg:ident : $ty:ty),*)) => {
        #[inline(never)]
        pub fn $leaf($($arg: $ty),*) -> Out {
            $gen::<Leaf>($($arg),*)
        }
        #[inline(never)]
        pub fn $slow($($arg: $ty),*) -> Out {
            $gen::<Slow>($($arg),*)
        }
    };
}

pair!(line, line_leaf, line_slow, (xs: &[f64], ys: &[f64], a: f64, b: f64, c: f64));
pair!(recur, recur_leaf, recur_slow, (ks: &[f64], a: f64, b: f64, lim: f64));
pair!(dot, dot_leaf, dot_slow, (xs: &[f64], ys: &[f64]));
pair!(horner, horner_leaf, horner_slow, (cs: &[f64], x0: f64));
pair!(runsum, runsum_leaf, runsum_slow, (xs: &[f64], f: f64, lim: f64));
pair!(limit, limit_leaf, limit_slow, (xs: &[f64], scale: f64, lim: f64));
pair!(minmax, minmax_leaf, minmax_slow, (xs: &[f64], scale: f64, off: f64, lo0: f64, hi0: f64));
pair!(absneg, absneg_leaf, absneg_slow, (xs: &[f64], bias: f64));
pair!(tof64, tof64_leaf, tof64_slow, (xs: &[f64], a: f64, b: f64, t: f64));
pair!(mixed, mixed_leaf, mixed_slow, (xs: &[f64], ys: &[f64], lo: f64, hi: f64));
pair!(inv2, inv2_leaf, inv2_slow, (xs: &[f64], a: f64, t: f64));
pair!(inv4, inv4_leaf, inv4_slow, (xs: &[f64], ys: &[f64], a0: f64, a1: f64, a2: f64, a3: f64));
pair!(inv5, inv5_leaf, inv5_slow, (xs: &[f64], ys: &[f64], a0: f64, a1: f64, a2: f64, a3: f64, a4: f64));
pair!(inv6, inv6_leaf, inv6_slow, (xs: &[f64], ys: &[f64], a0: f64, a1: f64, a2: f64, a3: f64, a4: f64, a5: f64));
pair!(inv8, inv8_leaf, inv8_slow, (xs: &[f64], ys: &[f64], a0: f64, a1: f64, a2: f64, a3: f64, a4: f64, a5: f64, a6: f64, a7: f64));
pair!(carried3, carried3_leaf, carried3_slow, (xs: &[f64], ys: &[f64]));
pair!(pcmp, pcmp_leaf, pcmp_slow, (xs: &[f64], pivot: f64, scale: f64));
pair!(convonly, convonly_leaf, convonly_slow, (xs: &[f64], keep: f64));
pair!(flags, flags_leaf, flags_slow, (xs: &[f64], ys: &[f64], lim: f64, m: f64));
pair!(sides, sides_leaf, sides_slow, (xs: &[f64], ys: &[f64], a: f64, b: f64, c: f64));

/// (leaf result, step-by-step result) of the kernel `kind`; `p` are its scalar arguments (missing ones are 1.0)
pub fn run(kind: &str, xs: &[f64], ys: &[f64], p: &[f64]) -> Option<(Out, Out)> {
    let mut q = [1.0f64; 8];
    for (k, v) in p.iter().take(8).enumerate() {
        q[k] = *v;
    }
    let (xs, ys, q) = (black_box(xs), black_box(ys), black_box(q));
    macro_rules! both {
        ($leaf:ident, $slow:ident, ($($a:expr),*)) => {
            Some((black_box($leaf($($a),*)), black_box($slow($($a),*))))
        };
    }
    match kind {
        "line" => both!(line_leaf, line_slow, (xs, ys, q[0], q[1], q[2])),
        "recur" => both!(recur_leaf, recur_slow, (xs, q[0], q[1], q[2])),
        "dot" => both!(dot_leaf, dot_slow, (xs, ys)),
        "horner" => both!(horner_leaf, horner_slow, (xs, q[0])),
        "runsum" => both!(runsum_leaf, runsum_slow, (xs, q[0], q[1])),
        "limit" => both!(limit_leaf, limit_slow, (xs, q[0], q[1])),
        "minmax" => both!(minmax_leaf, minmax_slow, (xs, q[0], q[1], q[2], q[3])),
        "absneg" => both!(absneg_leaf, absneg_slow, (xs, q[0])),
        "tof64" => both!(tof64_leaf, tof64_slow, (xs, q[0], q[1], q[2])),
        "mixed" => both!(mixed_leaf, mixed_slow, (xs, ys, q[0], q[1])),
        "inv2" => both!(inv2_leaf, inv2_slow, (xs, q[0], q[1])),
        "inv4" => both!(inv4_leaf, inv4_slow, (xs, ys, q[0], q[1], q[2], q[3])),
        "inv5" => both!(inv5_leaf, inv5_slow, (xs, ys, q[0], q[1], q[2], q[3], q[4])),
        "inv6" => both!(inv6_leaf, inv6_slow, (xs, ys, q[0], q[1], q[2], q[3], q[4], q[5])),
        "inv8" => both!(inv8_leaf, inv8_slow, (xs, ys, q[0], q[1], q[2], q[3], q[4], q[5], q[6], q[7])),
        "carried3" => both!(carried3_leaf, carried3_slow, (xs, ys)),
        "pcmp" => both!(pcmp_leaf, pcmp_slow, (xs, q[0], q[1])),
        "convonly" => both!(convonly_leaf, convonly_slow, (xs, q[0])),
        "flags" => both!(flags_leaf, flags_slow, (xs, ys, q[0], q[1])),
        "sides" => both!(sides_leaf, sides_slow, (xs, ys, q[0], q[1], q[2])),
        _ => None,
    }
}
