//! Histories that END ABNORMALLY before the ordinary script runs on the same thread.
//!
//! The operations of rlib_f80 depend on hidden state of the thread (x87 rounding / precision control, exception
//! masks, register stack).  An entry point that changes that state for its own purposes and restores it at the end
//! is only correct if it restores it on EVERY exit: an `Err` propagated with `?` from the formatter's sink, a panic
//! of the sink or of a user closure, a short-circuit of an iterator adapter.  The routes below produce those exits;
//! afterwards the ordinary script must print the observation line it always prints.
//!
//!   f  every value formatted into a `String` with every format specification, and into a sink that does f80
//!      arithmetic of its own inside `write_str` (user code called back by the formatter must find the thread in the
//!      state the call was made in: 1 + 1.5 * 2^-64, 1/3, (1 + 2^-52)^4 give there what they give outside)
//!   b  ... into a bounded `fmt::Write` sink and a bounded `io::Write` sink that report an error after
//!      k = 0, 1, 2, len/2, len-1 bytes (len = length of the complete text)
//!   p  ... into a sink that panics after k bytes, a user `Display` that panics after it has written an f80,
//!      `to_string()` of a user `Display` that returns `Err` (all caught with `catch_unwind`)
//!   u  user closures that compare / convert / add f80 values and panic or short-circuit in the middle:
//!      `sort_by` / `max_by` / `binary_search_by` with a comparator that panics at the k-th call or on a NaN
//!      (`partial_cmp(..).unwrap()`), folds with `+=` that panic, conversions inside `map` that panic, `try_fold` /
//!      `find` / `any` / `take_while` that stop early, f80 operations inside a `Drop` that runs during unwinding
//!
//! Every single call is bracketed by `hidden::quick()`; a difference is recorded as an `x87-state-changed-by-...`
//! failure (the line of the case becomes `X ...`).  Formatting is also required to be deterministic: the text
//! produced into a `String` after the abnormal exits must be the text produced before them, and what a bounded sink
//! received must be a prefix of it.
use crate::watched;
use rlib_f80::f80;
use rlib_num_traits::ZeroOne;
use std::cmp::Ordering;
use std::fmt;
use std::hint::black_box;
use std::io;
use std::panic::{catch_unwind, AssertUnwindSafe};

// ------------------------------------------------------------------ optional impls (autoref specialisation)
pub struct Wrap<T>(pub T);

macro_rules! optional_fmt_trait {
    ($yes:ident, $no:ident, $method:ident, $tr:path) => {
        #[allow(dead_code)]
        pub trait $yes {
            fn $method(&self, f: &mut fmt::Formatter<'_>) -> fmt::Result;
        }
        impl<T: $tr> $yes for &Wrap<T> {
            fn $method(&self, f: &mut fmt::Formatter<'_>) -> fmt::Result {
                <T as $tr>::fmt(&self.0, f)
            }
        }
        #[allow(dead_code)]
        pub trait $no {
            fn $method(&self, f: &mut fmt::Formatter<'_>) -> fmt::Result;
        }
        impl<T> $no for Wrap<T> {
            fn $method(&self, _: &mut fmt::Formatter<'_>) -> fmt::Result {
                Ok(())
            }
        }
    };
}
optional_fmt_trait!(LowerExpYes, LowerExpNo, lower_exp, fmt::LowerExp);
optional_fmt_trait!(UpperExpYes, UpperExpNo, upper_exp, fmt::UpperExp);

#[allow(dead_code)]
pub trait ShowImpl {
    fn show_text(&self, precision: usize) -> String;
}
impl<T: rlib_show::Show> ShowImpl for &Wrap<T> {
    fn show_text(&self, precision: usize) -> String {
        let mut st = rlib_show::ShowSettings::new();
        st.float_precision = precision;
        st.colors = false;
        self.0.show(&st)
    }
}
#[allow(dead_code)]
pub trait ShowFallback {
    fn show_text(&self, precision: usize) -> String;
}
impl<T> ShowFallback for Wrap<T> {
    fn show_text(&self, _: usize) -> String {
        String::new()
    }
}

/// `{:e}` / `{:E}` of the f80 with the flags of the enclosing specification, nothing if f80 has no such impl
struct LowerE(f80);
impl fmt::Display for LowerE {
    fn fmt(&self, f: &mut fmt::Formatter<'_>) -> fmt::Result {
        (&&Wrap(self.0)).lower_exp(f)
    }
}
struct UpperE(f80);
impl fmt::Display for UpperE {
    fn fmt(&self, f: &mut fmt::Formatter<'_>) -> fmt::Result {
        (&&Wrap(self.0)).upper_exp(f)
    }
}

/// a user type whose `Display` writes an f80 with a precision and then reports an error
struct ErrAfter(f80);
impl fmt::Display for ErrAfter {
    fn fmt(&self, f: &mut fmt::Formatter<'_>) -> fmt::Result {
        write!(f, "<{:.4}", self.0)?;
        Err(fmt::Error)
    }
}

/// a user type whose `Display` panics after (`.0 == false`: before) it has written an f80 with a precision
struct PanicAround(bool, f80);
impl fmt::Display for PanicAround {
    fn fmt(&self, f: &mut fmt::Formatter<'_>) -> fmt::Result {
        if !self.0 {
            panic!("user Display panics before the f80");
        }
        write!(f, "<{:.7}", self.1)?;
        panic!("user Display panics after the f80");
    }
}

#[derive(Debug)]
#[allow(dead_code)]
struct Rec {
    lo: f80,
    hi: f80,
}

pub const N_SPEC: usize = 22;

/// the k-th format specification applied to v, written to `$w` with `write!` (fmt::Write or io::Write)
macro_rules! spec_body {
    ($w:expr, $k:expr, $v:expr) => {
        match $k {
            0 => write!($w, "{}", $v),
            1 => write!($w, "{:?}", $v),
            2 => write!($w, "{:.3}", $v),
            3 => write!($w, "{:.18}", $v),
            4 => write!($w, "{:10.2}", $v),
            5 => write!($w, "{:.0}", $v),
            6 => write!($w, "{:+.6?}", $v),
            7 => write!($w, "{:<12.4}|", $v),
            8 => write!($w, "{:08.3}", $v),
            9 => write!($w, "{:.*}", 5, $v),
            10 => write!($w, "{:>w$.p$?}", $v, w = 24, p = 17),
            11 => write!($w, "{:.19}", $v),
            12 => write!($w, "{:.40?}", $v),
            13 => write!($w, "{}", LowerE($v)),
            14 => write!($w, "{:.3}", LowerE($v)),
            15 => write!($w, "{:12.5}", UpperE($v)),
            16 => write!($w, "{:.3?}", [$v, -$v, $v * $v]),
            17 => write!($w, "{:#.2?}", Some($v)),
            18 => write!($w, "{:.6?}", Rec { lo: $v.min(-$v), hi: $v.max(-$v) }),
            19 => write!($w, "a={:.3} b={:.18?} c={} d={:.1}", $v, $v, $v, -$v),
            20 => write!($w, "{}", ErrAfter($v)),
            _ => write!($w, "{:.2}{:>9.3}", ErrAfter($v), $v),
        }
    };
}

#[inline(never)]
fn spec_fmt(k: usize, w: &mut dyn fmt::Write, v: f80) -> fmt::Result {
    spec_body!(w, k, v)
}

#[inline(never)]
fn spec_io(k: usize, w: &mut dyn io::Write, v: f80) -> io::Result<()> {
    spec_body!(w, k, v)
}

// ------------------------------------------------------------------ sinks
/// fixed-capacity buffer: takes what fits, then reports an error
struct Bounded {
    buf: String,
    cap: usize,
}
impl fmt::Write for Bounded {
    fn write_str(&mut self, s: &str) -> fmt::Result {
        let room = self.cap - self.buf.len();
        if s.len() <= room {
            self.buf.push_str(s);
            return Ok(());
        }
        let mut n = room;
        while !s.is_char_boundary(n) {
            n -= 1;
        }
        self.buf.push_str(&s[..n]);
        Err(fmt::Error)
    }
}

/// an `io::Write` that accepts `left` bytes (short writes) and fails afterwards (a closed pipe)
struct IoBounded {
    got: Vec<u8>,
    left: usize,
}
impl io::Write for IoBounded {
    fn write(&mut self, b: &[u8]) -> io::Result<usize> {
        if self.left == 0 && !b.is_empty() {
            return Err(io::Error::new(io::ErrorKind::BrokenPipe, "sink is full"));
        }
        let n = self.left.min(b.len());
        self.got.extend_from_slice(&b[..n]);
        self.left -= n;
        Ok(n)
    }
    fn flush(&mut self) -> io::Result<()> {
        Ok(())
    }
}

/// a sink that panics instead of reporting an error
struct Panicky {
    left: usize,
}
impl fmt::Write for Panicky {
    fn write_str(&mut self, s: &str) -> fmt::Result {
        if s.len() > self.left {
            panic!("sink panics");
        }
        self.left -= s.len();
        Ok(())
    }
}

/// a sink that does f80 arithmetic of its own while it is being written to (user code called back by the
/// formatter): it must find the thread in the state the formatting call was made in
struct Observing {
    expect: crate::hidden::Quick,
    probe: [(f64, bool); 4],
    state_differs: bool,
    arithmetic_differs: bool,
}
impl fmt::Write for Observing {
    fn write_str(&mut self, _: &str) -> fmt::Result {
        if crate::hidden::quick() != self.expect {
            self.state_differs = true;
        }
        if probe() != self.probe {
            self.arithmetic_differs = true;
        }
        Ok(())
    }
}

/// inexact f80 operations whose results depend on the rounding / precision control (compared with the same
/// computation made outside the formatting call; `bool`: the result exceeds its first operand)
#[inline(never)]
fn probe() -> [(f64, bool); 4] {
    let one = black_box(f80::ONE);
    let tiny = f80::from(black_box(f64::from_bits(0x3BF8000000000000))); // 1.5 * 2^-64
    let e = f80::from(black_box(f64::from_bits(0x3FF0000000000001))); // 1 + 2^-52
    let three = f80::from(black_box(3.0));
    let t = one + tiny; // 1 + 2^-63 to nearest, 1 when chopped or at 53 bits
    let third = one / three;
    let p = (e * e) * (e * e) - one; // low bits of a product
    let q = (one - tiny) - one;
    [
        (f64::from((t - one) * f80::from(1e30)), t > one),
        (f64::from((third * three - one) * f80::from(1e30)), third > one),
        (f64::from(p * f80::from(1e30)), p > one),
        (f64::from(q * f80::from(1e30)), q > one),
    ]
}

fn cuts(len: usize) -> Vec<usize> {
    let mut v: Vec<usize> = Vec::new();
    for k in [0, 1, 2, len / 2, len.saturating_sub(1)] {
        if k < len && !v.contains(&k) {
            v.push(k);
        }
    }
    v
}

#[derive(Clone, Copy, Default)]
pub struct Abn {
    pub string: bool,
    pub bounded: bool,
    pub panicky: bool,
    pub unwind: bool,
}

impl Abn {
    pub fn any(&self) -> bool {
        self.string || self.bounded || self.panicky || self.unwind
    }
}

/// one value, one specification, the sinks selected by `rt`
pub fn format_one(v: f80, k: usize, rt: Abn, sinks: bool, panics: bool, fails: &mut Vec<&'static str>) {
    let mut text = String::new();
    let _ = watched!(fails, "formatting-into-a-String", spec_fmt(k, &mut text, v));
    let len = text.len();
    if rt.string {
        let mut o = Observing { expect: crate::hidden::quick(), probe: probe(), state_differs: false, arithmetic_differs: false };
        let _ = spec_fmt(k, &mut o, v);
        if o.state_differs {
            fails.push("x87-state-differs-inside-the-sink-while-an-f80-is-being-formatted");
        }
        if o.arithmetic_differs {
            fails.push("f80-arithmetic-inside-the-sink-is-not-correctly-rounded-while-an-f80-is-being-formatted");
        }
    }
    if rt.bounded && sinks {
        for (nth, cap) in cuts(len).into_iter().enumerate() {
            let mut b = Bounded { buf: String::new(), cap };
            let _ = watched!(fails, "formatting-into-a-full-fmt-sink", spec_fmt(k, &mut b, v));
            if !text.starts_with(b.buf.as_str()) {
                fails.push("bounded-sink-did-not-receive-a-prefix-of-the-text");
            }
            if nth % 2 == 1 {
                continue;
            }
            let mut o = IoBounded { got: Vec::new(), left: cap };
            let _ = watched!(fails, "formatting-into-a-full-io-sink", spec_io(k, &mut o, v));
            if !text.as_bytes().starts_with(&o.got) {
                fails.push("bounded-sink-did-not-receive-a-prefix-of-the-text");
            }
        }
    }
    if rt.panicky && panics {
        for cap in [0, len / 2] {
            if cap < len {
                let mut s = Panicky { left: cap };
                let _ = watched!(
                    fails,
                    "formatting-into-a-panicking-sink",
                    catch_unwind(AssertUnwindSafe(|| spec_fmt(k, &mut s, v)))
                );
            }
        }
    }
    if (rt.bounded && sinks) || (rt.panicky && panics) {
        let mut again = String::new();
        let _ = watched!(fails, "formatting-into-a-String", spec_fmt(k, &mut again, v));
        if again != text {
            fails.push("formatted-text-changed-after-an-abnormal-exit");
        }
    }
}

/// user `Display` implementations around an f80 that panic, `to_string` / `format!` of one that reports an error
fn user_display_panics(v: f80, fails: &mut Vec<&'static str>) {
    let _ = watched!(
        fails,
        "a-panic-in-a-user-Display-after-the-f80",
        catch_unwind(AssertUnwindSafe(|| format!("{:.3} {}", v, PanicAround(true, v))))
    );
    let _ = watched!(
        fails,
        "a-panic-in-a-user-Display-before-the-f80",
        catch_unwind(AssertUnwindSafe(|| format!("{:.3} {} {:.5}", v, PanicAround(false, v), v)))
    );
    // `to_string` panics when the Display impl returns an error
    let _ = watched!(
        fails,
        "to_string-of-a-Display-that-returns-Err",
        catch_unwind(AssertUnwindSafe(|| ErrAfter(v).to_string()))
    );
    // the Show trait of the crate (formatting through rlib_show), when implemented
    for prec in [0usize, 9, 18, 30] {
        let a = watched!(fails, "Show", (&&Wrap(v)).show_text(prec));
        let b = (&&Wrap(v)).show_text(prec);
        if a != b {
            fails.push("formatted-text-changed-after-an-abnormal-exit");
        }
    }
}

struct OpsInDrop(f80, f80);
impl Drop for OpsInDrop {
    fn drop(&mut self) {
        // runs on the unwinding path
        let s = self.0 * self.1 + self.0;
        let c = s.partial_cmp(&self.1);
        black_box((s, c, f64::from(s), format!("{:.3}", s)));
    }
}

/// user closures that compare / convert / add f80 values and leave in the middle
pub fn unwinding_closures(vals: &[f80], fails: &mut Vec<&'static str>) {
    let nan = f80::ZERO / f80::ZERO;
    let n = vals.len();
    // a comparator that panics at its k-th call
    for k in [0usize, 1, 3, n] {
        let mut v = vals.to_vec();
        let mut calls = 0usize;
        let _ = watched!(
            fails,
            "a-panic-in-a-sort_by-comparator",
            catch_unwind(AssertUnwindSafe(|| {
                v.sort_by(|a, b| {
                    let o = a.partial_cmp(b).unwrap_or(Ordering::Equal);
                    if calls == k {
                        panic!("comparator panics");
                    }
                    calls += 1;
                    o
                })
            }))
        );
        let mut v = vals.to_vec();
        let mut calls = 0usize;
        let _ = watched!(
            fails,
            "a-panic-in-a-sort_unstable_by-comparator",
            catch_unwind(AssertUnwindSafe(|| {
                v.sort_unstable_by(|a, b| {
                    if calls == k {
                        panic!("comparator panics");
                    }
                    calls += 1;
                    if *a < *b {
                        Ordering::Less
                    } else if *a > *b {
                        Ordering::Greater
                    } else {
                        Ordering::Equal
                    }
                })
            }))
        );
    }
    // the idiom `partial_cmp(..).unwrap()` on a list that contains a NaN
    let mut with_nan = vals.to_vec();
    with_nan.insert(n / 2, nan);
    {
        let mut v = with_nan.clone();
        let _ = watched!(
            fails,
            "partial_cmp-unwrap-on-a-NaN-inside-sort_by",
            catch_unwind(AssertUnwindSafe(|| v.sort_by(|a, b| a.partial_cmp(b).unwrap())))
        );
        let _ = watched!(
            fails,
            "partial_cmp-unwrap-on-a-NaN-inside-max_by",
            catch_unwind(AssertUnwindSafe(|| with_nan.iter().copied().max_by(|a, b| a.partial_cmp(b).unwrap())))
        );
        let _ = watched!(
            fails,
            "partial_cmp-unwrap-on-a-NaN-inside-min_by",
            catch_unwind(AssertUnwindSafe(|| with_nan.iter().copied().min_by(|a, b| b.partial_cmp(a).expect("ordered"))))
        );
        let _ = watched!(
            fails,
            "partial_cmp-unwrap-on-a-NaN-inside-binary_search_by",
            catch_unwind(AssertUnwindSafe(|| with_nan.binary_search_by(|a| a.partial_cmp(&vals[0]).unwrap())))
        );
        let _ = watched!(
            fails,
            "an-assertion-on-a-comparison",
            catch_unwind(AssertUnwindSafe(|| {
                for u in &with_nan {
                    assert!(*u == *u, "NaN");
                    assert!(!(*u < *u));
                }
            }))
        );
    }
    // arithmetic and conversions inside closures that panic
    for k in [0usize, 1, n / 2] {
        let mut calls = 0usize;
        let _ = watched!(
            fails,
            "a-panic-in-a-fold-with-add_assign",
            catch_unwind(AssertUnwindSafe(|| {
                vals.iter().fold(f80::ZERO, |mut acc, &u| {
                    acc += u;
                    acc *= u;
                    if calls == k {
                        panic!("fold panics");
                    }
                    calls += 1;
                    acc
                })
            }))
        );
        let mut calls = 0usize;
        let _ = watched!(
            fails,
            "a-panic-in-a-map-with-conversions",
            catch_unwind(AssertUnwindSafe(|| {
                vals.iter()
                    .map(|&u| {
                        let d = f64::from(u);
                        let w = f80::from(d);
                        if calls == k {
                            panic!("map panics");
                        }
                        calls += 1;
                        (d, w / u)
                    })
                    .collect::<Vec<_>>()
            }))
        );
        let _ = watched!(
            fails,
            "f80-operations-in-a-Drop-during-unwinding",
            catch_unwind(AssertUnwindSafe(|| {
                let _g = OpsInDrop(vals[k % n], vals[(k + 1) % n]);
                let _h = OpsInDrop(vals[(k + 2) % n], nan);
                if black_box(true) {
                    panic!("unwinds through two guards");
                }
            }))
        );
    }
    // short circuits: the adapter stops calling the closure in the middle of the list
    let pivot = vals[n / 2];
    let _ = watched!(
        fails,
        "a-try_fold-that-stops-early",
        black_box(vals.iter().try_fold(f80::ZERO, |acc, &u| if u < pivot { None } else { Some(acc + u) }))
    );
    let _ = watched!(
        fails,
        "a-try_fold-that-stops-early",
        black_box(vals.iter().try_fold(f80::ONE, |acc, &u| {
            let t = acc * u;
            if f64::from(t).is_finite() {
                Ok(t)
            } else {
                Err(t)
            }
        }))
    );
    let _ = watched!(fails, "find-any-position-take_while", {
        black_box(vals.iter().find(|&&u| u >= pivot));
        black_box(vals.iter().any(|&u| u == pivot));
        black_box(vals.iter().position(|&u| u.partial_cmp(&pivot) == Some(Ordering::Greater)));
        black_box(vals.iter().take_while(|&&u| u != pivot).count());
        black_box(with_nan.iter().all(|&u| u == u));
    });
}

/// values that take the interesting paths of a decimal formatter whatever the operands of the case are
pub fn fixed_values() -> [f80; 6] {
    [
        f80::from(2.5),
        f80::from(-0.1),
        f80::ONE / f80::from(3.0),
        f80::from(123456.789),
        f80::from(1e17) + f80::ONE,
        -(f80::from(0.999999999999) + f80::from(5e-20)),
    ]
}

/// the whole preamble of a case: the abnormal histories selected by `rt` on `vals`
#[inline(never)]
pub fn run(vals: &[f80], rt: Abn, fails: &mut Vec<&'static str>) {
    if rt.string || rt.bounded || rt.panicky {
        for (i, &v) in vals.iter().enumerate() {
            for k in 0..N_SPEC {
                // budget: every (value, specification) goes into a String, every second combination into the
                // bounded sinks, every fifth into the panicking sink (a panic costs 10 us; the six fixed values cover every residue)
                format_one(v, k, rt, (i + k) % 2 == 0, (i + 2 * k) % 5 == 0, fails);
            }
            if rt.panicky && i % 2 == 0 {
                user_display_panics(v, fails);
            }
        }
    }
    if rt.unwind {
        unwinding_closures(vals, fails);
    }
}

/// between two steps of a straight-line program: one value, two specifications, the failing sinks
pub fn between_steps(v: f80, step: usize, rt: Abn, fails: &mut Vec<&'static str>) {
    if rt.string || rt.bounded || rt.panicky {
        format_one(v, (2 + 5 * step) % N_SPEC, rt, true, true, fails);
        format_one(v, (3 + 7 * step) % N_SPEC, rt, true, step % 2 == 0, fails);
    }
    if rt.unwind {
        let pair = [v, -v, v * v];
        let mut calls = 0usize;
        let _ = watched!(
            fails,
            "a-panic-in-a-sort_by-comparator",
            catch_unwind(AssertUnwindSafe(|| {
                let mut w = pair;
                w.sort_by(|a, b| {
                    let o = a.partial_cmp(b).unwrap();
                    if calls == step % 3 {
                        panic!("comparator panics");
                    }
                    calls += 1;
                    o
                })
            }))
        );
    }
}
