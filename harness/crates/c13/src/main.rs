//! C13 executor.
//!   `tab N`   -> `T <mnp[0..=N]> | <isp as 0/1 string> | <primes>`   (full tables of Sieve::new(N))
//!   `fact N`  -> `F <flat>`: for every m in 0..=N the pairs `p c` of factorize(m) followed by -1;
//!                a panic inside factorize(m) (after the pairs already yielded) is -2 followed by -1
//!   `big N`   -> `ok <#primes> <checked cells>` or `mismatch <what> <index> impl=<..> ref=<..>`: Sieve::new(N)
//!                compared element by element with an independent odd-only segmented sieve of
//!                Eratosthenes written here, and factorize(m) checked for every m <= N
//!                (implementation-only search, never counted as proof)
//! A panic of Sieve::new itself prints `P`.
use rlib_sieve::Sieve;
use std::fmt::Write;

fn tab(n: usize) -> String {
    let s = Sieve::new(n);
    let mut o = String::from("T");
    for m in 0..=n {
        write!(o, " {}", s.min_prime(m as i32)).unwrap();
    }
    o.push_str(" | ");
    for m in 0..=n {
        o.push(if s.is_prime(m as i32) { '1' } else { '0' });
    }
    o.push_str(" |");
    for p in s.primes() {
        write!(o, " {}", p).unwrap();
    }
    o
}

fn fact(n: usize) -> String {
    let s = Sieve::new(n);
    let mut o = String::from("F");
    for m in 0..=n {
        let mut it = s.factorize(m as i32);
        let mut steps = 0usize;
        loop {
            match vh::guarded(|| it.next()) {
                Some(Some((p, c))) => write!(o, " {} {}", p, c).unwrap(),
                Some(None) => break,
                None => {
                    o.push_str(" -2");
                    break;
                }
            }
            steps += 1;
            if steps > 64 {
                // more prime powers than any i32 has: report as a wrong (over-long) answer
                break;
            }
        }
        o.push_str(" -1");
    }
    o
}

/// independent reference: least prime factor of every m <= n.
/// Even numbers get 2; odd numbers are sieved in segments of 2^15 odd cells by the odd base primes
/// <= sqrt(n) in increasing order (first marker wins = least prime factor); unmarked odd m >= 3 is prime.
fn reference_lpf(n: usize) -> Vec<u32> {
    let mut lpf = vec![0u32; n + 1];
    let mut m = 4;
    while m <= n {
        lpf[m] = 2;
        m += 2;
    }
    if n >= 2 {
        lpf[2] = 2;
    }
    // base primes by plain trial division (independent of everything else)
    let mut r = 0usize;
    while (r + 1) * (r + 1) <= n {
        r += 1;
    }
    let mut base: Vec<usize> = Vec::new();
    let mut q = 3;
    while q <= r {
        if base.iter().take_while(|&&b| b * b <= q).all(|&b| q % b != 0) {
            base.push(q);
        }
        q += 2;
    }
    const SEG: usize = 1 << 15; // odd cells per segment: cell k of segment starting at lo is lo + 2k
    let mut lo = 3usize;
    while lo <= n {
        let hi = std::cmp::min(n, lo + 2 * SEG - 2); // last odd number of this segment (<= n)
        for &p in &base {
            if p * p > hi {
                break;
            }
            // first odd multiple of p that is >= max(p*p, lo)
            let mut start = std::cmp::max(p * p, ((lo + p - 1) / p) * p);
            if start % 2 == 0 {
                start += p;
            }
            let mut x = start;
            while x <= hi {
                if lpf[x] == 0 {
                    lpf[x] = p as u32;
                }
                x += 2 * p;
            }
        }
        let mut x = lo;
        while x <= hi {
            if lpf[x] == 0 {
                lpf[x] = x as u32;
            }
            x += 2;
        }
        lo += 2 * SEG;
    }
    lpf
}

fn big(n: usize) -> String {
    let s = Sieve::new(n);
    let lpf = reference_lpf(n);
    let mut checked = 0usize;
    for m in 0..=n {
        let want = if m < 2 { 0 } else { lpf[m] as i32 };
        if m >= 2 && s.min_prime(m as i32) != want {
            return format!("mismatch min_prime {} impl={} ref={}", m, s.min_prime(m as i32), want);
        }
        let wp = m >= 2 && lpf[m] as usize == m;
        if s.is_prime(m as i32) != wp {
            return format!("mismatch is_prime {} impl={} ref={}", m, s.is_prime(m as i32), wp);
        }
        checked += 2;
    }
    let mut j = 0usize;
    let pr = s.primes();
    for m in 2..=n {
        if lpf[m] as usize == m {
            if j >= pr.len() || pr[j] as usize != m {
                return format!("mismatch primes {} impl={} ref={}", j, if j < pr.len() { pr[j] } else { -1 }, m);
            }
            j += 1;
        }
    }
    if j != pr.len() {
        return format!("mismatch primes {} impl={} ref=end", j, pr[j]);
    }
    // factorize(m) against repeated division by the reference table
    for m in 1..=n {
        let mut x = m;
        let mut it = s.factorize(m as i32);
        while x > 1 {
            let p = lpf[x] as usize;
            let mut c = 0;
            while x % p == 0 {
                x /= p;
                c += 1;
            }
            match vh::guarded(|| it.next()) {
                Some(Some((ip, ic))) if ip as usize == p && ic == c => {}
                other => return format!("mismatch factorize {} impl={:?} ref=({},{})", m, other, p, c),
            }
        }
        match vh::guarded(|| it.next()) {
            Some(None) => {}
            other => return format!("mismatch factorize {} impl={:?} ref=end", m, other),
        }
        checked += 1;
    }
    format!("ok {} {}", pr.len(), checked)
}

fn main() {
    // a mutated inner loop of factorize can spin forever (p = 1): never hang the check
    std::thread::spawn(|| {
        std::thread::sleep(std::time::Duration::from_secs(900));
        eprintln!("harness: watchdog (900 s)");
        std::process::exit(4);
    });
    vh::serve(|t| {
        let n: usize = vh::p(t[1]);
        match t[0] {
            "tab" => tab(n),
            "fact" => fact(n),
            "big" => big(n),
            other => {
                eprintln!("harness: unknown query {}", other);
                std::process::exit(3)
            }
        }
    });
}
