//! C13 executor.
//!   `tab N`   -> `T <mnp[0..=N]> | <isp as 0/1 string> | <primes>`   (full tables of Sieve::new(N))
//!                read in the plain order (all min_prime ascending, all is_prime ascending, primes() once);
//!                afterwards the SAME Sieve is read again (descending, interleaved, primes() a second time) and
//!                must give the same answers
//!   `fact N`  -> `F <flat>`: for every m in 0..=N the pairs `p c` of factorize(m) followed by -1;
//!                a panic inside factorize(m) (after the pairs already yielded) is -2 followed by -1.
//!                First pass: `next()` by hand, ascending m, one iterator at a time; an exhausted iterator is asked
//!                twice more and must keep answering `None`.  Second pass on the same Sieve (m >= 1): the provided Iterator
//!                methods (`collect`, `for`, `count`, `last`, `fold`, `nth`, `size_hint`, `max`/`sum` through `map`,
//!                `by_ref().take`, `peekable`, `chain`) must agree with the first pass.
//!   `tabr N SEED`  -> the same line as `tab N`, but the values are collected by a seeded random history on one
//!                Sieve: random / repeated / descending reads, primes() at random moments, factorize iterators
//!                (up to three alive at a time, advanced alternately, some dropped half way) between the reads,
//!                optionally after a larger or smaller Sieve was built in the same process.  Every repeated read
//!                must equal the first one; every factorisation seen on the way must be the walk over the table.
//!   `factr N SEED` -> the same line as `fact N`, but m in random order with repeats, up to three iterators alive
//!                and advanced alternately, different consumption forms (`next`, `for`, `by_ref().take` + rest),
//!                table reads in between.
//!   An internal disagreement (two reads of one value differ, an adaptor disagrees with `next()`, ...) prints
//!   `X <description>` instead of the observation: the plugin turns that into the Coq case `CIncoherent`,
//!   which fails both checks.
//!   `big N`   -> `ok <#primes> <checked cells>` or `mismatch <what> <index> impl=<..> ref=<..>`: Sieve::new(N)
//!                compared element by element with an independent odd-only segmented sieve of
//!                Eratosthenes written here, and factorize(m) checked for every m <= N
//!                (implementation-only search, never counted as proof).  The reference table is computed once per
//!                process for the largest limit asked so far (its cells do not depend on the limit) and reused.
//!                `<#primes>` is pi(N) of the reference: the plugin compares it with published values of pi.
//!   `sweep LO HI` -> `big` without the all-m factorisation for EVERY limit N = HI, HI-1, ..., LO in this process
//!                (descending: a smaller limit always follows a larger one); factorize(m) for the top 9 m of every N.
//!                `ok <#limits> <checked cells>` or `mismatch N=<limit> ...`
//! A panic of Sieve::new itself prints `P`.
use rlib_sieve::Sieve;
use std::fmt::Write;
use std::sync::atomic::{AtomicU64, Ordering};
use std::sync::{Arc, Mutex};

const CAP: usize = 64; // more prime powers than any i32 has

#[derive(Clone, Copy, PartialEq, Debug)]
enum End {
    Done,
    Panic,
    Long,
}

/// what one factorize(m) gave: the pairs, and how it ended
#[derive(Clone, PartialEq, Debug)]
struct Fz {
    pairs: Vec<(i32, i32)>,
    end: End,
}

type Pc = (i32, i32);

fn tab_line(mnp: &[i32], isp: &[bool], primes: &[i32]) -> String {
    let mut o = String::from("T");
    for x in mnp {
        write!(o, " {}", x).unwrap();
    }
    o.push_str(" | ");
    for &b in isp {
        o.push(if b { '1' } else { '0' });
    }
    o.push_str(" |");
    for p in primes {
        write!(o, " {}", p).unwrap();
    }
    o
}

fn fact_line(fz: &[Fz]) -> String {
    let mut o = String::from("F");
    for f in fz {
        for (p, c) in &f.pairs {
            write!(o, " {} {}", p, c).unwrap();
        }
        if f.end == End::Panic {
            o.push_str(" -2");
        }
        o.push_str(" -1");
    }
    o
}

/// `next()` by hand until the first `None` / panic / CAP steps
fn drain<I: Iterator<Item = Pc>>(it: &mut I) -> Fz {
    let mut pairs = Vec::new();
    loop {
        match vh::guarded(|| it.next()) {
            Some(Some(pc)) => pairs.push(pc),
            Some(None) => return Fz { pairs, end: End::Done },
            None => return Fz { pairs, end: End::Panic },
        }
        if pairs.len() > CAP {
            // over-long answer: reported as it is (cut), the Coq side rejects it
            return Fz { pairs, end: End::Long };
        }
    }
}

/// an iterator that has returned `None` keeps returning `None`
fn after_none<I: Iterator<Item = Pc>>(it: &mut I, m: usize) -> Result<(), String> {
    for k in 1..=2 {
        match vh::guarded(|| it.next()) {
            Some(None) => {}
            Some(Some(pc)) => return Err(format!("factorize({}): next() call {} after None returned Some({:?})", m, k, pc)),
            None => return Err(format!("factorize({}): next() call {} after None panicked", m, k)),
        }
    }
    Ok(())
}

/// `for` loop with the partial result kept when the iterator panics
fn by_for(s: &Sieve, m: usize) -> Fz {
    let mut pairs = Vec::new();
    let mut long = false;
    let r = vh::guarded(|| {
        for pc in s.factorize(m as i32) {
            pairs.push(pc);
            if pairs.len() > CAP {
                long = true;
                break;
            }
        }
    });
    let end = if r.is_none() {
        End::Panic
    } else if long {
        End::Long
    } else {
        End::Done
    };
    Fz { pairs, end }
}

/// the provided Iterator methods against the result of the hand-written `next()` walk
fn adaptors(s: &Sieve, m: usize, f: &Fz) -> Result<(), String> {
    // m = 0 is outside the property (the first pass already records what next() does there)
    if f.end == End::Long || m == 0 {
        return Ok(());
    }
    let mi = m as i32;
    let done = f.end == End::Done;
    let whole: Option<Vec<Pc>> = if done { Some(f.pairs.clone()) } else { None };
    let bad = |what: &str, got: String, want: String| -> Result<(), String> {
        Err(format!("factorize({}).{} = {} but next() gave {}", m, what, got, want))
    };
    let g = vh::guarded(|| s.factorize(mi).collect::<Vec<Pc>>());
    if g != whole {
        return bad("collect()", format!("{:?}", g), format!("{:?}", f));
    }
    let g = by_for(s, m);
    if g != *f {
        return bad("for-loop", format!("{:?}", g), format!("{:?}", f));
    }
    let g = vh::guarded(|| s.factorize(mi).count());
    if g != whole.as_ref().map(|l| l.len()) {
        return bad("count()", format!("{:?}", g), format!("{:?}", f));
    }
    let g = vh::guarded(|| s.factorize(mi).last());
    if g != whole.as_ref().map(|l| l.last().copied()) {
        return bad("last()", format!("{:?}", g), format!("{:?}", f));
    }
    let g = vh::guarded(|| {
        s.factorize(mi).fold(Vec::new(), |mut v: Vec<Pc>, pc| {
            v.push(pc);
            v
        })
    });
    if g != whole {
        return bad("fold(push)", format!("{:?}", g), format!("{:?}", f));
    }
    let g = vh::guarded(|| s.factorize(mi).map(|(p, _)| p as i64).max());
    if g != whole.as_ref().map(|l| l.iter().map(|&(p, _)| p as i64).max()) {
        return bad("map(p).max()", format!("{:?}", g), format!("{:?}", f));
    }
    let g = vh::guarded(|| s.factorize(mi).map(|(_, c)| c as i64).sum::<i64>());
    if g != whole.as_ref().map(|l| l.iter().map(|&(_, c)| c as i64).sum::<i64>()) {
        return bad("map(c).sum()", format!("{:?}", g), format!("{:?}", f));
    }
    // nth(k): k inside, at the end, and one past the end
    for k in [0usize, 1, f.pairs.len().saturating_sub(1), f.pairs.len(), f.pairs.len() + 1] {
        let want: Option<Option<Pc>> = if k < f.pairs.len() {
            Some(Some(f.pairs[k]))
        } else if done {
            Some(None)
        } else {
            None
        };
        let g = vh::guarded(|| s.factorize(mi).nth(k));
        if g != want {
            return bad(&format!("nth({})", k), format!("{:?}", g), format!("{:?}", f));
        }
    }
    if done {
        // size_hint before every next(): lower <= remaining <= upper
        let mut it = s.factorize(mi);
        for k in 0..=f.pairs.len() {
            let rem = f.pairs.len() - k;
            match vh::guarded(|| it.size_hint()) {
                Some((lo, hi)) if lo <= rem && hi.map_or(true, |h| rem <= h) => {}
                other => return bad(&format!("size_hint() after {} items", k), format!("{:?}", other), format!("{} remaining", rem)),
            }
            let _ = vh::guarded(|| it.next());
        }
        // consumed in two parts through by_ref
        let mut it = s.factorize(mi);
        let g = vh::guarded(|| {
            let mut v: Vec<Pc> = it.by_ref().take(1).collect();
            v.extend(&mut it);
            v
        });
        if g != whole {
            return bad("by_ref().take(1) + rest", format!("{:?}", g), format!("{:?}", f));
        }
        let g = vh::guarded(|| {
            let mut pk = s.factorize(mi).peekable();
            let first = pk.peek().copied();
            let again = pk.peek().copied();
            (first, again, pk.collect::<Vec<Pc>>())
        });
        let h = f.pairs.first().copied();
        if g != Some((h, h, f.pairs.clone())) {
            return bad("peekable()", format!("{:?}", g), format!("{:?}", f));
        }
        let g = vh::guarded(|| s.factorize(mi).chain(s.factorize(mi)).collect::<Vec<Pc>>());
        let mut twice = f.pairs.clone();
        twice.extend(f.pairs.iter().copied());
        if g != Some(twice) {
            return bad("chain(factorize(m))", format!("{:?}", g), format!("{:?}", f));
        }
    }
    Ok(())
}

fn tab(n: usize) -> Result<String, String> {
    let s = Sieve::new(n);
    let mnp: Vec<i32> = (0..=n).map(|m| s.min_prime(m as i32)).collect();
    let isp: Vec<bool> = (0..=n).map(|m| s.is_prime(m as i32)).collect();
    let primes: Vec<i32> = s.primes().clone();
    // the same object again: descending and interleaved, primes() a second and third time
    if *s.primes() != primes {
        return Err(format!("N={}: second primes() call differs from the first", n));
    }
    for m in (0..=n).rev() {
        let (a, b) = (s.is_prime(m as i32), s.min_prime(m as i32));
        if a != isp[m] {
            return Err(format!("N={}: is_prime({}) first={} again={}", n, m, isp[m], a));
        }
        if b != mnp[m] {
            return Err(format!("N={}: min_prime({}) first={} again={}", n, m, mnp[m], b));
        }
    }
    if *s.primes() != primes {
        return Err(format!("N={}: third primes() call differs from the first", n));
    }
    Ok(tab_line(&mnp, &isp, &primes))
}

fn fact(n: usize) -> Result<String, String> {
    let s = Sieve::new(n);
    let mut all = Vec::with_capacity(n + 1);
    for m in 0..=n {
        let mut it = s.factorize(m as i32);
        let f = drain(&mut it);
        if f.end == End::Done {
            after_none(&mut it, m).map_err(|e| format!("N={}: {}", n, e))?;
        }
        all.push(f);
    }
    for m in (0..=n).rev() {
        adaptors(&s, m, &all[m]).map_err(|e| format!("N={}: {}", n, e))?;
    }
    Ok(fact_line(&all))
}

/// slots for values read more than once in a random history
struct Slots {
    n: usize,
    mnp: Vec<Option<i32>>,
    isp: Vec<Option<bool>>,
    primes: Option<Vec<i32>>,
}

impl Slots {
    fn new(n: usize) -> Self {
        Slots { n, mnp: vec![None; n + 1], isp: vec![None; n + 1], primes: None }
    }
    fn min_prime(&mut self, s: &Sieve, m: usize) -> Result<(), String> {
        let v = s.min_prime(m as i32);
        match self.mnp[m] {
            Some(old) if old != v => Err(format!("N={}: min_prime({}) first={} again={}", self.n, m, old, v)),
            _ => {
                self.mnp[m] = Some(v);
                Ok(())
            }
        }
    }
    fn is_prime(&mut self, s: &Sieve, m: usize) -> Result<(), String> {
        let v = s.is_prime(m as i32);
        match self.isp[m] {
            Some(old) if old != v => Err(format!("N={}: is_prime({}) first={} again={}", self.n, m, old, v)),
            _ => {
                self.isp[m] = Some(v);
                Ok(())
            }
        }
    }
    fn primes(&mut self, s: &Sieve) -> Result<(), String> {
        let v = s.primes();
        match &self.primes {
            Some(old) if old != v => Err(format!(
                "N={}: primes() differs between two calls: first len {} again len {}",
                self.n,
                old.len(),
                v.len()
            )),
            Some(_) => Ok(()),
            None => {
                self.primes = Some(v.clone());
                Ok(())
            }
        }
    }
    fn read(&mut self, s: &Sieve, q: (u8, usize)) -> Result<(), String> {
        match q.0 {
            0 => self.min_prime(s, q.1),
            1 => self.is_prime(s, q.1),
            _ => self.primes(s),
        }
    }
    /// the walk PrimeIter performs, on the recorded table (all cells it touches must have been read by now)
    fn walk(&self, m: usize) -> Vec<Pc> {
        let mut out = Vec::new();
        let mut x = m;
        while x != 1 && out.len() <= CAP {
            let p = self.mnp[x].unwrap_or(0);
            if p <= 1 {
                break;
            }
            let mut c = 0;
            while x != 1 && self.mnp[x].unwrap_or(0) == p {
                x /= p as usize;
                c += 1;
            }
            out.push((p, c));
        }
        out
    }
}

/// random index in 0..=n, boundary values favoured
fn pick(r: &mut vh::Sm, n: usize) -> usize {
    let v = r.next();
    match v % 8 {
        0 => [0, 1, 2, n, n.saturating_sub(1), n / 2, 3, 4][((v >> 8) % 8) as usize].min(n),
        _ => ((v >> 8) % (n as u64 + 1)) as usize,
    }
}

/// optionally build another Sieve in this process before the one under test (larger, smaller, kept alive or dropped)
fn pre_sieve(r: &mut vh::Sm, n: usize) -> Option<Sieve> {
    match r.next() % 6 {
        0 => {
            let b = Sieve::new(2 * n + 70);
            let _ = b.primes().len();
            None
        }
        1 => Some(Sieve::new(2 * n + 70)),
        2 => Some(Sieve::new(n + 1)),
        3 => {
            let b = Sieve::new(n / 2);
            let _ = b.primes().len();
            None
        }
        _ => None,
    }
}

fn tabr(n: usize, seed: u64) -> Result<String, String> {
    let mut r = vh::Sm(seed ^ (n as u64).wrapping_mul(0x9E3779B97F4A7C15));
    let other = pre_sieve(&mut r, n);
    let s = Sieve::new(n);
    let mut sl = Slots::new(n);
    let mut live = Vec::new(); // (m, iterator, pairs so far)
    let mut seen: Vec<(usize, Vec<Pc>, bool)> = Vec::new(); // (m, pairs, complete)
    let mut prev: (u8, usize) = (2, 0);
    let steps = 3 * (n + 1) + 8;
    for _ in 0..steps {
        let v = r.next();
        match v % 16 {
            0..=4 => {
                prev = (0, pick(&mut r, n));
                sl.read(&s, prev)?;
            }
            5..=8 => {
                prev = (1, pick(&mut r, n));
                sl.read(&s, prev)?;
            }
            9 => {
                prev = (2, 0);
                sl.read(&s, prev)?;
            }
            10 => sl.read(&s, prev)?,
            11 => {
                let hi = pick(&mut r, n);
                let lo = hi.saturating_sub(((v >> 8) % 9) as usize);
                for m in (lo..=hi).rev() {
                    sl.is_prime(&s, m)?;
                    sl.min_prime(&s, m)?;
                }
            }
            12 => {
                if n >= 1 && live.len() < 3 {
                    let m = 1 + pick(&mut r, n - 1);
                    live.push((m, s.factorize(m as i32), Vec::new()));
                }
            }
            13 | 14 => {
                if !live.is_empty() {
                    let k = ((v >> 8) % live.len() as u64) as usize;
                    let finished = {
                        let (m, it, pairs) = &mut live[k];
                        match vh::guarded(|| it.next()) {
                            Some(Some(pc)) => {
                                pairs.push(pc);
                                if pairs.len() > CAP {
                                    return Err(format!("N={}: factorize({}) yields more than {} pairs", n, m, CAP));
                                }
                                false
                            }
                            Some(None) => {
                                after_none(it, *m).map_err(|e| format!("N={}: {}", n, e))?;
                                true
                            }
                            None => return Err(format!("N={}: factorize({}) panicked after {:?}", n, m, pairs)),
                        }
                    };
                    if finished || (v >> 16) % 16 == 0 {
                        // finished, or dropped half way
                        let (m, _, pairs) = live.swap_remove(k);
                        seen.push((m, pairs, finished));
                    }
                }
            }
            _ => {
                if n >= 1 {
                    let m = 1 + pick(&mut r, n - 1);
                    match vh::guarded(|| s.factorize(m as i32).collect::<Vec<Pc>>()) {
                        Some(l) if l.len() <= CAP => seen.push((m, l, true)),
                        other => return Err(format!("N={}: factorize({}).collect() = {:?}", n, m, other.map(|l| l.len()))),
                    }
                }
            }
        }
    }
    for (m, _, pairs) in live.drain(..) {
        seen.push((m, pairs, false));
    }
    // whatever has not been read yet: min_prime ascending, is_prime descending, primes() once more
    for m in 0..=n {
        sl.min_prime(&s, m)?;
    }
    for m in (0..=n).rev() {
        sl.is_prime(&s, m)?;
    }
    sl.primes(&s)?;
    for (m, pairs, complete) in &seen {
        let w = sl.walk(*m);
        let ok = if *complete { *pairs == w } else { pairs.len() <= w.len() && pairs[..] == w[..pairs.len()] };
        if !ok {
            return Err(format!(
                "N={}: factorize({}) between table reads gave {:?} (complete={}), the table says {:?}",
                n, m, pairs, complete, w
            ));
        }
    }
    drop(other);
    let mnp: Vec<i32> = sl.mnp.iter().map(|x| x.unwrap()).collect();
    let isp: Vec<bool> = sl.isp.iter().map(|x| x.unwrap()).collect();
    Ok(tab_line(&mnp, &isp, sl.primes.as_ref().unwrap()))
}

fn factr(n: usize, seed: u64) -> Result<String, String> {
    let mut r = vh::Sm(seed ^ (n as u64).wrapping_mul(0xD1B54A32D192ED03));
    let other = pre_sieve(&mut r, n);
    let s = Sieve::new(n);
    let mut sl = Slots::new(n);
    // every m once, plus repeats, in random order
    let mut order: Vec<usize> = (0..=n).collect();
    for _ in 0..(n / 4 + 2) {
        order.push(pick(&mut r, n));
    }
    for i in (1..order.len()).rev() {
        let j = (r.next() % (i as u64 + 1)) as usize;
        order.swap(i, j);
    }
    let mut res: Vec<Option<Fz>> = vec![None; n + 1];
    fn record(res: &mut [Option<Fz>], n: usize, m: usize, f: Fz, how: &str) -> Result<(), String> {
        match &res[m] {
            Some(old) if *old != f => Err(format!("N={}: factorize({}) first {:?}, again ({}) {:?}", n, m, old, how, f)),
            _ => {
                res[m] = Some(f);
                Ok(())
            }
        }
    }
    let mut live = Vec::new(); // (m, iterator, pairs so far)
    let mut idx = 0usize;
    while idx < order.len() || !live.is_empty() {
        let v = r.next();
        if (v >> 4) % 4 == 0 {
            let q = (((v >> 8) % 3) as u8, pick(&mut r, n));
            sl.read(&s, q)?;
        }
        let start = idx < order.len() && live.len() < 3 && (live.is_empty() || v % 8 < 3);
        if start {
            let m = order[idx];
            idx += 1;
            match (v >> 16) % 4 {
                0 | 1 => live.push((m, s.factorize(m as i32), Vec::new())),
                2 => record(&mut res, n, m, by_for(&s, m), "for-loop")?,
                _ => {
                    // first item through by_ref().take(1), the rest by hand
                    let mut it = s.factorize(m as i32);
                    let head = vh::guarded(|| it.by_ref().take(1).collect::<Vec<Pc>>());
                    let f = match head {
                        None => Fz { pairs: Vec::new(), end: End::Panic },
                        Some(h) if h.is_empty() => {
                            after_none(&mut it, m).map_err(|e| format!("N={}: {}", n, e))?;
                            Fz { pairs: h, end: End::Done }
                        }
                        Some(mut h) => {
                            let rest = drain(&mut it);
                            h.extend(rest.pairs);
                            Fz { pairs: h, end: rest.end }
                        }
                    };
                    record(&mut res, n, m, f, "by_ref().take(1) + next()")?;
                }
            }
        } else if !live.is_empty() {
            let k = ((v >> 8) % live.len() as u64) as usize;
            let end = {
                let (m, it, pairs) = &mut live[k];
                match vh::guarded(|| it.next()) {
                    Some(Some(pc)) => {
                        pairs.push(pc);
                        if pairs.len() > CAP {
                            Some(End::Long)
                        } else {
                            None
                        }
                    }
                    Some(None) => {
                        after_none(it, *m).map_err(|e| format!("N={}: {}", n, e))?;
                        Some(End::Done)
                    }
                    None => Some(End::Panic),
                }
            };
            if let Some(end) = end {
                let (m, _, pairs) = live.swap_remove(k);
                record(&mut res, n, m, Fz { pairs, end }, "interleaved next()")?;
            }
        }
    }
    drop(other);
    let all: Vec<Fz> = res.into_iter().map(|x| x.unwrap()).collect();
    Ok(fact_line(&all))
}

/// independent reference: least prime factor of every m <= n.
/// Even numbers get 2; odd numbers are sieved in segments of 2^15 odd cells by the odd base primes
/// <= sqrt(n) in increasing order (first marker wins = least prime factor); unmarked odd m >= 3 is prime.
/// (the value of a cell does not depend on n: a prefix of the table for a larger n is the table for a smaller n)
fn reference_lpf(n: usize) -> Vec<u32> {
    let mut lpf = vec![0u32; n + 1];
    let mut m = 4;
    while m <= n {
        lpf[m] = 2;
        m += 2;
    }
    if n >= 2 {
        lpf[2] = 2;
    }
    // base primes by plain trial division (independent of everything else)
    let mut r = 0usize;
    while (r + 1) * (r + 1) <= n {
        r += 1;
    }
    let mut base: Vec<usize> = Vec::new();
    let mut q = 3;
    while q <= r {
        if base.iter().take_while(|&&b| b * b <= q).all(|&b| q % b != 0) {
            base.push(q);
        }
        q += 2;
    }
    const SEG: usize = 1 << 15; // odd cells per segment: cell k of segment starting at lo is lo + 2k
    let mut lo = 3usize;
    while lo <= n {
        let hi = std::cmp::min(n, lo + 2 * SEG - 2); // last odd number of this segment (<= n)
        for &p in &base {
            if p * p > hi {
                break;
            }
            // first odd multiple of p that is >= max(p*p, lo)
            let mut start = std::cmp::max(p * p, ((lo + p - 1) / p) * p);
            if start % 2 == 0 {
                start += p;
            }
            let mut x = start;
            while x <= hi {
                if lpf[x] == 0 {
                    lpf[x] = p as u32;
                }
                x += 2 * p;
            }
        }
        let mut x = lo;
        while x <= hi {
            if lpf[x] == 0 {
                lpf[x] = x as u32;
            }
            x += 2;
        }
        lo += 2 * SEG;
    }
    lpf
}

/// Sieve::new(n) against the reference table `lpf` (valid for indices 0..=n at least) and the reference prime
/// list `rp` (all primes <= n, possibly more: only those <= n are used); factorize(m) for m in fact_from..=n.
/// Ok((#primes, checked cells)) or Err(description)
fn compare(s: &Sieve, n: usize, lpf: &[u32], rp: &[u32], fact_from: usize) -> Result<(usize, usize), String> {
    let mut checked = 0usize;
    for m in 0..=n {
        let want = if m < 2 { 0 } else { lpf[m] as i32 };
        if m >= 2 && s.min_prime(m as i32) != want {
            return Err(format!("min_prime {} impl={} ref={}", m, s.min_prime(m as i32), want));
        }
        let wp = m >= 2 && lpf[m] as usize == m;
        if s.is_prime(m as i32) != wp {
            return Err(format!("is_prime {} impl={} ref={}", m, s.is_prime(m as i32), wp));
        }
        checked += 2;
    }
    let pr = s.primes();
    let cnt = rp.partition_point(|&p| p as usize <= n);
    for j in 0..cnt {
        if j >= pr.len() || pr[j] as u32 != rp[j] {
            return Err(format!("primes {} impl={} ref={}", j, if j < pr.len() { pr[j] } else { -1 }, rp[j]));
        }
    }
    if pr.len() != cnt {
        return Err(format!("primes {} impl={} ref=end", cnt, pr[cnt]));
    }
    // factorize(m) against repeated division by the reference table
    for m in fact_from.max(1)..=n {
        let mut x = m;
        let mut it = s.factorize(m as i32);
        while x > 1 {
            let p = lpf[x] as usize;
            let mut c = 0;
            while x % p == 0 {
                x /= p;
                c += 1;
            }
            match vh::guarded(|| it.next()) {
                Some(Some((ip, ic))) if ip as usize == p && ic == c => {}
                other => return Err(format!("factorize {} impl={:?} ref=({},{})", m, other, p, c)),
            }
        }
        match vh::guarded(|| it.next()) {
            Some(None) => {}
            other => return Err(format!("factorize {} impl={:?} ref=end", m, other)),
        }
        checked += 1;
    }
    Ok((cnt, checked))
}

fn ref_primes(lpf: &[u32]) -> Vec<u32> {
    (2..lpf.len()).filter(|&m| lpf[m] as usize == m).map(|m| m as u32).collect()
}

/// (least prime factors, primes) of the reference for indices 0..=m, m >= n: one table per process, recomputed only
/// when a larger limit arrives (the plugin sends the largest limit first).  Nothing of the implementation runs while
/// the lock is held.
static REFERENCE: Mutex<Option<Arc<(Vec<u32>, Vec<u32>)>>> = Mutex::new(None);

fn reference(n: usize) -> Arc<(Vec<u32>, Vec<u32>)> {
    let mut g = REFERENCE.lock().unwrap_or_else(|e| e.into_inner());
    if let Some(r) = g.as_ref() {
        if r.0.len() > n {
            return r.clone();
        }
    }
    *g = None; // free the smaller table first
    let lpf = reference_lpf(n);
    let rp = ref_primes(&lpf);
    let r = Arc::new((lpf, rp));
    *g = Some(r.clone());
    r
}

fn big(n: usize) -> String {
    let s = Sieve::new(n);
    let r = reference(n);
    let (lpf, rp) = (&r.0, &r.1);
    match compare(&s, n, lpf, rp, 1) {
        Ok((np, checked)) => format!("ok {} {}", np, checked),
        Err(e) => format!("mismatch {}", e),
    }
}

fn sweep(lo: usize, hi: usize) -> String {
    let r = reference(hi);
    let (lpf, rp) = (&r.0, &r.1);
    let (mut limits, mut checked) = (0usize, 0usize);
    for n in (lo..=hi).rev() {
        let s = match vh::guarded(|| Sieve::new(n)) {
            Some(s) => s,
            None => return format!("mismatch N={} Sieve::new panicked", n),
        };
        match vh::guarded(|| compare(&s, n, lpf, rp, n.saturating_sub(8))) {
            Some(Ok((_, c))) => checked += c,
            Some(Err(e)) => return format!("mismatch N={} {}", n, e),
            None => return format!("mismatch N={} an accessor panicked", n),
        }
        limits += 1;
    }
    format!("ok {} {}", limits, checked)
}

static PROGRESS: AtomicU64 = AtomicU64::new(0);

fn main() {
    // a mutated inner loop of factorize can spin forever (p = 1): never hang the check
    // (900 s without finishing one input line)
    std::thread::spawn(|| {
        let mut last = (PROGRESS.load(Ordering::Relaxed), std::time::Instant::now());
        loop {
            std::thread::sleep(std::time::Duration::from_secs(5));
            let now = PROGRESS.load(Ordering::Relaxed);
            if now != last.0 {
                last = (now, std::time::Instant::now());
            } else if last.1.elapsed().as_secs() >= 900 {
                eprintln!("harness: watchdog (900 s on one input line)");
                std::process::exit(4);
            }
        }
    });
    vh::serve(|t| {
        PROGRESS.fetch_add(1, Ordering::Relaxed);
        let n: usize = vh::p(t[1]);
        let incoherent = |r: Result<String, String>| match r {
            Ok(s) => s,
            Err(e) => format!("X {} {}", t[0], e),
        };
        let out = match t[0] {
            "tab" => incoherent(tab(n)),
            "fact" => incoherent(fact(n)),
            "tabr" => incoherent(tabr(n, vh::p(t[2]))),
            "factr" => incoherent(factr(n, vh::p(t[2]))),
            "big" => big(n),
            "sweep" => sweep(n, vh::p(t[2])),
            other => {
                eprintln!("harness: unknown query {}", other);
                std::process::exit(3)
            }
        };
        PROGRESS.fetch_add(1, Ordering::Relaxed);
        out
    });
}
