//! C01 / C02 executor.  One stdin line = one history on one item type:
//!   `<kind> op*`   with ops
//!     new n <item> | slice k <item>*k | iter k <item>*k | set i <item> | mod l r <modifier>
//!     | ask l r | lb l <pred> | lbr r <pred> | dbg
//!   items:      integer (built-ins, Combinator via From<i64>, Affine) / string token (Concat, `_` = empty)
//!               / `v:md` (MinAdd, MaxAdd, SumAdd, the Combinators: the item carries the pending lazy tag `md`
//!               in every component; Flip: `bit:flag`, flag 0|1 = its pending-flip flag)
//!   modifiers:  integer (ignored for the kinds with M = (), Flip included) / `as s` | `ap s` (Concat) / `a b` (Affine)
//!   predicates: T | F | ge k | le k | fst <pred> | snd <pred> | np s | lenge k
//! Output: one chunk per op, chunks separated by TAB:
//!   `u` (returned unit) | `p` (panicked) | `i <item>` | `d <debug() string>` |
//!   `b <index or -> <item>*` (the items are the arguments the closure received, in order)
//! Items are printed with every field (lazy tags included).
use rlib_segtree::segtree_items::{Combinator, Max, MaxAdd, Min, MinAdd, Sum, SumAdd};
use rlib_segtree::{Segtree, SegtreeItem};
use std::cell::RefCell;
use std::fmt::Debug;

#[derive(Clone, Debug)]
enum Pred {
    True,
    False,
    Ge(i64),
    Le(i64),
    Fst(Box<Pred>),
    Snd(Box<Pred>),
    NotPrefix(String),
    LenGe(i64),
}

struct Toks<'a> {
    t: &'a [&'a str],
    i: usize,
}
impl<'a> Toks<'a> {
    fn next(&mut self) -> &'a str {
        if self.i >= self.t.len() {
            eprintln!("harness: line too short");
            std::process::exit(3)
        }
        self.i += 1;
        self.t[self.i - 1]
    }
    fn int<N: std::str::FromStr>(&mut self) -> N
    where
        N::Err: Debug,
    {
        vh::p(self.next())
    }
    /// `v` or `v:md` (an item that carries a pending lazy tag of its own)
    fn int_md(&mut self) -> (i64, i64) {
        let s = self.next();
        match s.split_once(':') {
            Some((v, md)) => (vh::p(v), vh::p(md)),
            None => (vh::p(s), 0),
        }
    }
    fn string(&mut self) -> String {
        let s = self.next();
        if s == "_" {
            String::new()
        } else {
            s.to_string()
        }
    }
    fn done(&self) -> bool {
        self.i >= self.t.len()
    }
    fn pred(&mut self) -> Pred {
        match self.next() {
            "T" => Pred::True,
            "F" => Pred::False,
            "ge" => Pred::Ge(self.int()),
            "le" => Pred::Le(self.int()),
            "fst" => Pred::Fst(Box::new(self.pred())),
            "snd" => Pred::Snd(Box::new(self.pred())),
            "np" => Pred::NotPrefix(self.string()),
            "lenge" => Pred::LenGe(self.int()),
            other => {
                eprintln!("harness: unknown predicate {}", other);
                std::process::exit(3)
            }
        }
    }
}

fn eval_z(p: &Pred, v: i64) -> bool {
    match p {
        Pred::True => true,
        Pred::False => false,
        Pred::Ge(k) => v >= *k,
        Pred::Le(k) => v <= *k,
        _ => false,
    }
}

/// what the executor needs from an item type
trait Kind: Sized + Clone + Default + Debug {
    type M: Debug;
    fn item(t: &mut Toks) -> Self;
    fn modifier(t: &mut Toks) -> Self::M;
    fn enc(&self) -> String;
    fn eval(p: &Pred, x: &Self) -> bool;
}

impl Kind for Min<i64> {
    type M = ();
    fn item(t: &mut Toks) -> Self {
        Min::new(t.int())
    }
    fn modifier(t: &mut Toks) -> () {
        let _: i64 = t.int();
    }
    fn enc(&self) -> String {
        format!("{}", self.v)
    }
    fn eval(p: &Pred, x: &Self) -> bool {
        eval_z(p, x.v)
    }
}
impl Kind for Max<i64> {
    type M = ();
    fn item(t: &mut Toks) -> Self {
        Max::new(t.int())
    }
    fn modifier(t: &mut Toks) -> () {
        let _: i64 = t.int();
    }
    fn enc(&self) -> String {
        format!("{}", self.v)
    }
    fn eval(p: &Pred, x: &Self) -> bool {
        eval_z(p, x.v)
    }
}
impl Kind for Sum<i64> {
    type M = ();
    fn item(t: &mut Toks) -> Self {
        Sum::new(t.int())
    }
    fn modifier(t: &mut Toks) -> () {
        let _: i64 = t.int();
    }
    fn enc(&self) -> String {
        format!("{}", self.v)
    }
    fn eval(p: &Pred, x: &Self) -> bool {
        eval_z(p, x.v)
    }
}
impl Kind for MinAdd<i64> {
    type M = i64;
    fn item(t: &mut Toks) -> Self {
        let (v, md) = t.int_md();
        let mut x = MinAdd::new(v);
        x.md = md;
        x
    }
    fn modifier(t: &mut Toks) -> i64 {
        t.int()
    }
    fn enc(&self) -> String {
        format!("{},{}", self.v, self.md)
    }
    fn eval(p: &Pred, x: &Self) -> bool {
        eval_z(p, x.v)
    }
}
impl Kind for MaxAdd<i64> {
    type M = i64;
    fn item(t: &mut Toks) -> Self {
        let (v, md) = t.int_md();
        let mut x = MaxAdd::new(v);
        x.md = md;
        x
    }
    fn modifier(t: &mut Toks) -> i64 {
        t.int()
    }
    fn enc(&self) -> String {
        format!("{},{}", self.v, self.md)
    }
    fn eval(p: &Pred, x: &Self) -> bool {
        eval_z(p, x.v)
    }
}
impl Kind for SumAdd<i64> {
    type M = i64;
    fn item(t: &mut Toks) -> Self {
        let (v, md) = t.int_md();
        let mut x = SumAdd::new(v);
        x.md = md;
        x
    }
    fn modifier(t: &mut Toks) -> i64 {
        t.int()
    }
    fn enc(&self) -> String {
        format!("{},{},{}", self.v, self.len, self.md)
    }
    fn eval(p: &Pred, x: &Self) -> bool {
        match p {
            Pred::True => true,
            Pred::False => false,
            Pred::Fst(q) => eval_z(q, x.v),
            Pred::Snd(q) => eval_z(q, x.len),
            _ => false,
        }
    }
}
type C2 = Combinator<MinAdd<i64>, MaxAdd<i64>>;
type C3 = Combinator<C2, SumAdd<i64>>;
impl Kind for C2 {
    type M = i64;
    fn item(t: &mut Toks) -> Self {
        let (v, md) = t.int_md();
        let mut x = C2::from(v);
        x.0.md = md;
        x.1.md = md;
        x
    }
    fn modifier(t: &mut Toks) -> i64 {
        t.int()
    }
    fn enc(&self) -> String {
        format!("{},{}", self.0.enc(), self.1.enc())
    }
    fn eval(p: &Pred, x: &Self) -> bool {
        match p {
            Pred::True => true,
            Pred::False => false,
            Pred::Fst(q) => <MinAdd<i64> as Kind>::eval(q, &x.0),
            Pred::Snd(q) => <MaxAdd<i64> as Kind>::eval(q, &x.1),
            _ => false,
        }
    }
}
impl Kind for C3 {
    type M = i64;
    fn item(t: &mut Toks) -> Self {
        let (v, md) = t.int_md();
        let mut x = C3::from(v);
        (x.0).0.md = md;
        (x.0).1.md = md;
        x.1.md = md;
        x
    }
    fn modifier(t: &mut Toks) -> i64 {
        t.int()
    }
    fn enc(&self) -> String {
        format!("{},{}", self.0.enc(), self.1.enc())
    }
    fn eval(p: &Pred, x: &Self) -> bool {
        match p {
            Pred::True => true,
            Pred::False => false,
            Pred::Fst(q) => <C2 as Kind>::eval(q, &x.0),
            Pred::Snd(q) => <SumAdd<i64> as Kind>::eval(q, &x.1),
            _ => false,
        }
    }
}

// ---------------------------------------------------------------- user item 1: Concat
#[derive(Clone, Debug)]
enum CMod {
    Assign(String),
    Append(String),
}
/// The parts are the element strings of the covered range, in order; merge concatenates the
/// part lists (not commutative).  Assign/Append act on every element; the lazy tag is the
/// composition of the modifiers not yet pushed to the children.
#[derive(Clone, Default)]
struct Concat {
    parts: Vec<String>,
    tag: Option<CMod>,
}
fn enc_str(s: &str) -> String {
    if s.is_empty() {
        "_".to_string()
    } else {
        s.to_string()
    }
}
impl Debug for Concat {
    fn fmt(&self, f: &mut std::fmt::Formatter<'_>) -> std::fmt::Result {
        write!(f, "{}", self.enc())
    }
}
impl SegtreeItem<CMod> for Concat {
    fn merge(left: &Self, right: &Self) -> Self {
        let mut parts = left.parts.clone();
        parts.extend(right.parts.iter().cloned());
        Concat { parts, tag: None }
    }
    fn modify(&mut self, m: &CMod) {
        for p in self.parts.iter_mut() {
            match m {
                CMod::Assign(s) => *p = s.clone(),
                CMod::Append(s) => p.push_str(s),
            }
        }
        self.tag = Some(match (m, self.tag.take()) {
            (CMod::Assign(s), _) => CMod::Assign(s.clone()),
            (CMod::Append(s), None) => CMod::Append(s.clone()),
            (CMod::Append(s), Some(CMod::Assign(a))) => CMod::Assign(a + s),
            (CMod::Append(s), Some(CMod::Append(a))) => CMod::Append(a + s),
        });
    }
    fn push(&mut self, left: &mut Self, right: &mut Self) {
        if let Some(t) = self.tag.take() {
            left.modify(&t);
            right.modify(&t);
        }
    }
}
impl Kind for Concat {
    type M = CMod;
    fn item(t: &mut Toks) -> Self {
        Concat { parts: vec![t.string()], tag: None }
    }
    fn modifier(t: &mut Toks) -> CMod {
        match t.next() {
            "as" => CMod::Assign(t.string()),
            "ap" => CMod::Append(t.string()),
            other => {
                eprintln!("harness: unknown concat modifier {}", other);
                std::process::exit(3)
            }
        }
    }
    /// `<number of parts>:<part>|<part>...;<tag>` with tag N | A<str> | P<str>
    fn enc(&self) -> String {
        let parts: Vec<String> = self.parts.iter().map(|s| enc_str(s)).collect();
        let tag = match &self.tag {
            None => "N".to_string(),
            Some(CMod::Assign(s)) => format!("A{}", enc_str(s)),
            Some(CMod::Append(s)) => format!("P{}", enc_str(s)),
        };
        format!("{}:{};{}", self.parts.len(), parts.join("|"), tag)
    }
    fn eval(p: &Pred, x: &Self) -> bool {
        let whole: String = x.parts.concat();
        match p {
            Pred::True => true,
            Pred::False => false,
            Pred::NotPrefix(w) => !w.starts_with(&whole),
            Pred::LenGe(k) => whole.len() as i64 >= *k,
            _ => false,
        }
    }
}

// ---------------------------------------------------------------- user item 2: Affine
const P: u64 = 998_244_353;
/// range sum mod P with lazy affine maps x -> a*x + b applied to every element
/// (Assign c = (0, c), Add c = (1, c)); the tags do not commute.
#[derive(Clone)]
struct Affine {
    sum: u64,
    len: u64,
    a: u64,
    b: u64,
}
impl Default for Affine {
    fn default() -> Self {
        Affine { sum: 0, len: 0, a: 1, b: 0 }
    }
}
impl Debug for Affine {
    fn fmt(&self, f: &mut std::fmt::Formatter<'_>) -> std::fmt::Result {
        write!(f, "{}", self.enc())
    }
}
impl SegtreeItem<(u64, u64)> for Affine {
    fn merge(left: &Self, right: &Self) -> Self {
        Affine { sum: (left.sum + right.sum) % P, len: left.len + right.len, a: 1, b: 0 }
    }
    fn modify(&mut self, m: &(u64, u64)) {
        self.sum = (m.0 * self.sum + m.1 * self.len) % P;
        let a = (m.0 * self.a) % P;
        let b = (m.0 * self.b + m.1) % P;
        self.a = a;
        self.b = b;
    }
    fn push(&mut self, left: &mut Self, right: &mut Self) {
        let t = (self.a, self.b);
        left.modify(&t);
        right.modify(&t);
        self.a = 1;
        self.b = 0;
    }
}
impl Kind for Affine {
    type M = (u64, u64);
    fn item(t: &mut Toks) -> Self {
        let v: u64 = t.int();
        Affine { sum: v % P, len: 1, a: 1, b: 0 }
    }
    fn modifier(t: &mut Toks) -> (u64, u64) {
        let a: u64 = t.int();
        let b: u64 = t.int();
        (a, b)
    }
    fn enc(&self) -> String {
        format!("{},{},{},{}", self.sum, self.len, self.a, self.b)
    }
    fn eval(p: &Pred, x: &Self) -> bool {
        match p {
            Pred::True => true,
            Pred::False => false,
            Pred::Fst(q) => eval_z(q, (x.sum % P) as i64),
            Pred::Snd(q) => eval_z(q, x.len as i64),
            _ => false,
        }
    }
}

// ---------------------------------------------------------------- user item 3: Flip
/// Number of one-bits of a range with the parameterless range modification "flip every bit".
/// The modifier type is the zero-sized `()` (the default `M` of `SegtreeItem`), and still the item
/// is lazy: `modify(&())` leaves a pending flip that `push` hands down to the children.
#[derive(Clone, Default)]
struct Flip {
    ones: i64,
    len: i64,
    flip: bool,
}
impl Debug for Flip {
    fn fmt(&self, f: &mut std::fmt::Formatter<'_>) -> std::fmt::Result {
        write!(f, "{}", self.enc())
    }
}
impl SegtreeItem<()> for Flip {
    fn merge(left: &Self, right: &Self) -> Self {
        Flip { ones: left.ones + right.ones, len: left.len + right.len, flip: false }
    }
    fn modify(&mut self, _m: &()) {
        self.ones = self.len - self.ones;
        self.flip = !self.flip;
    }
    fn push(&mut self, left: &mut Self, right: &mut Self) {
        if self.flip {
            left.modify(&());
            right.modify(&());
            self.flip = false;
        }
    }
}
impl Kind for Flip {
    type M = ();
    fn item(t: &mut Toks) -> Self {
        let (b, fl) = t.int_md();
        Flip { ones: b, len: 1, flip: fl != 0 }
    }
    fn modifier(t: &mut Toks) -> () {
        let _: i64 = t.int();
    }
    fn enc(&self) -> String {
        format!("{},{},{}", self.ones, self.len, self.flip as i64)
    }
    fn eval(p: &Pred, x: &Self) -> bool {
        match p {
            Pred::True => true,
            Pred::False => false,
            Pred::Fst(q) => eval_z(q, x.ones),
            Pred::Snd(q) => eval_z(q, x.len),
            _ => false,
        }
    }
}

// ---------------------------------------------------------------- the history runner
fn items<T: Kind>(t: &mut Toks) -> Vec<T> {
    let k: usize = t.int();
    (0..k).map(|_| T::item(t)).collect()
}

fn run<T>(t: &mut Toks) -> String
where
    T: Kind + SegtreeItem<<T as Kind>::M>,
{
    let mut tree: Option<Segtree<T, T::M>> = None;
    let mut out: Vec<String> = Vec::new();
    while !t.done() {
        let op = t.next();
        let chunk: Option<String> = match op {
            "new" => {
                let n: usize = t.int();
                let v = T::item(t);
                vh::guarded(|| Segtree::new(n, v)).map(|s| {
                    tree = Some(s);
                    "u".to_string()
                })
            }
            "slice" => {
                let xs: Vec<T> = items(t);
                vh::guarded(|| Segtree::from_slice(&xs)).map(|s| {
                    tree = Some(s);
                    "u".to_string()
                })
            }
            "iter" => {
                let xs: Vec<T> = items(t);
                vh::guarded(|| Segtree::from_iter(xs.into_iter())).map(|s| {
                    tree = Some(s);
                    "u".to_string()
                })
            }
            "set" => {
                let i: usize = t.int();
                let v = T::item(t);
                match tree.as_mut() {
                    None => None,
                    Some(s) => vh::guarded(|| s.set(i, v)).map(|_| "u".to_string()),
                }
            }
            "mod" => {
                let l: usize = t.int();
                let r: usize = t.int();
                let m = T::modifier(t);
                match tree.as_mut() {
                    None => None,
                    Some(s) => vh::guarded(|| s.modify(l, r, &m)).map(|_| "u".to_string()),
                }
            }
            "ask" => {
                let l: usize = t.int();
                let r: usize = t.int();
                match tree.as_mut() {
                    None => None,
                    Some(s) => vh::guarded(|| s.ask(l, r)).map(|x| format!("i {}", x.enc())),
                }
            }
            "lb" | "lbr" => {
                let pos: usize = t.int();
                let p = t.pred();
                match tree.as_mut() {
                    None => None,
                    Some(s) => {
                        let seen: RefCell<Vec<T>> = RefCell::new(Vec::new());
                        let f = |x: &T| {
                            seen.borrow_mut().push(x.clone());
                            T::eval(&p, x)
                        };
                        let res = vh::guarded(|| if op == "lb" { s.lower_bound(pos, f) } else { s.lower_bound_rev(pos, f) });
                        res.map(|r| {
                            let mut c = match r {
                                Some(k) => format!("b {}", k),
                                None => "b -".to_string(),
                            };
                            for x in seen.borrow().iter() {
                                c.push(' ');
                                c.push_str(&x.enc());
                            }
                            c
                        })
                    }
                }
            }
            "dbg" => match tree.as_mut() {
                None => None,
                Some(s) => vh::guarded(|| s.debug()).map(|d| format!("d {}", d)),
            },
            other => {
                eprintln!("harness: unknown op {}", other);
                std::process::exit(3)
            }
        };
        out.push(chunk.unwrap_or_else(|| "p".to_string()));
    }
    out.join("\t")
}

fn main() {
    vh::serve(|toks| {
        let mut t = Toks { t: toks, i: 1 };
        match toks[0] {
            "min" => run::<Min<i64>>(&mut t),
            "max" => run::<Max<i64>>(&mut t),
            "sum" => run::<Sum<i64>>(&mut t),
            "minadd" => run::<MinAdd<i64>>(&mut t),
            "maxadd" => run::<MaxAdd<i64>>(&mut t),
            "sumadd" => run::<SumAdd<i64>>(&mut t),
            "comb2" => run::<C2>(&mut t),
            "comb3" => run::<C3>(&mut t),
            "concat" => run::<Concat>(&mut t),
            "affine" => run::<Affine>(&mut t),
            "flip" => run::<Flip>(&mut t),
            other => {
                eprintln!("harness: unknown kind {}", other);
                std::process::exit(3)
            }
        }
    });
}
