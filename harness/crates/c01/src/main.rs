//! C01 / C02 executor.  One stdin line = one history on one item type:
//!   `<kind> op*`   with ops
//!     new n <item> | slice k <item>*k | iter k <item>*k | set i <item> | mod l r <modifier>
//!     | ask l r | lb l <pred> | lbr r <pred> | dbg
//!     | raw n <item>            Segtree::new_raw(n, item) (every node = item, nothing rebuilt)
//!     | lbp l k <pred> | lbrp r k <pred>
//!                               the search is first run with a closure that panics on its k-th call (caught),
//!                               then run again, uninterrupted, with the plain predicate: the chunk printed is
//!                               that of the second run (a search never changes the logical array and pushing
//!                               twice equals pushing once, so it must equal the chunk of `lb` / `lbr`)
//!   items:      integer (built-ins, Combinator via From<i64>, Affine) / string token (Concat, `_` = empty)
//!               / `v:md` (MinAdd, MaxAdd, SumAdd, the Combinators: the item carries the pending lazy tag `md`
//!               in every component; Flip: `bit:flag`, flag 0|1 = its pending-flip flag)
//!               / `key/id` (the kinds over Keyed and over f64: f64 value = key, id 1 = the zero is -0.0;
//!               MinAdd/MaxAdd<Keyed>: `key/id:md`) / `v:md:len` (SumAdd and the SumAdd component of comb3: weighted leaf)
//!   modifiers:  integer (ignored for the kinds with M = (), Flip included) / `as s` | `ap s` (Concat) / `a b` (Affine)
//!   predicates: T | F | ge k | le k | fst <pred> | snd <pred> | np s | lenge k
//! Output: one chunk per op, chunks separated by TAB:
//!   `u` (returned unit) | `p` (panicked) | `i <item>` | `d <debug() string>` |
//!   `b <index or -> <item>*` (the items are the arguments the closure received, in order)
//! Items are printed with every field (lazy tags included).
//! Self-checks (a failure prints a chunk the plugin cannot read as the expected observation):
//!   * `dbg`: after debug() (which leaves every inner node pushed) every range [l, r] (all of them up to n = 48,
//!     a grid above) is asked again and compared, field by field, with the left-to-right fold of `T::merge`
//!     over the single-element answers: `d FOLD-MISMATCH ...`;
//!   * `Concat::push` panics unless, after handing its tag down, its own parts are exactly the left child's
//!     parts followed by the right child's; `Concat::update` is overridden (rebuilds in place).
//!   * `iter k`: the iterator handed to from_iter is `Vec::into_iter()`, a lazy `.iter().cloned().map(..)`
//!     or a `.rev()` of the reversed vector, by k mod 3.
use rlib_segtree::segtree_items::{Combinator, Max, MaxAdd, Min, MinAdd, Sum, SumAdd};
use rlib_num_traits::MinMax;
use rlib_segtree::{Segtree, SegtreeItem};
use std::cell::{Cell, RefCell};
use std::fmt::Debug;

#[derive(Clone, Debug)]
enum Pred {
    True,
    False,
    Ge(i64),
    Le(i64),
    Fst(Box<Pred>),
    Snd(Box<Pred>),
    NotPrefix(String),
    LenGe(i64),
}

struct Toks<'a> {
    t: &'a [&'a str],
    i: usize,
}
impl<'a> Toks<'a> {
    fn next(&mut self) -> &'a str {
        if self.i >= self.t.len() {
            eprintln!("harness: line too short");
            std::process::exit(3)
        }
        self.i += 1;
        self.t[self.i - 1]
    }
    fn int<N: std::str::FromStr>(&mut self) -> N
    where
        N::Err: Debug,
    {
        vh::p(self.next())
    }
    /// `v` or `v:md` (an item that carries a pending lazy tag of its own)
    fn int_md(&mut self) -> (i64, i64) {
        let s = self.next();
        match s.split_once(':') {
            Some((v, md)) => (vh::p(v), vh::p(md)),
            None => (vh::p(s), 0),
        }
    }
    /// `v`, `v:md` or `v:md:len`
    fn int_md_len(&mut self) -> (i64, i64, Option<i64>) {
        let s = self.next();
        let f: Vec<&str> = s.split(':').collect();
        match f.len() {
            1 => (vh::p(f[0]), 0, None),
            2 => (vh::p(f[0]), vh::p(f[1]), None),
            _ => (vh::p(f[0]), vh::p(f[1]), Some(vh::p(f[2]))),
        }
    }
    /// `key/id` or `key/id:md`
    fn keyed_md(&mut self) -> (Keyed, i64) {
        let s = self.next();
        let (kv, md) = match s.split_once(':') {
            Some((kv, md)) => (kv, vh::p(md)),
            None => (s, 0),
        };
        match kv.split_once('/') {
            Some((k, i)) => (Keyed { key: vh::p(k), id: vh::p(i) }, md),
            None => {
                eprintln!("harness: bad keyed token {}", s);
                std::process::exit(3)
            }
        }
    }
    fn string(&mut self) -> String {
        let s = self.next();
        if s == "_" {
            String::new()
        } else {
            s.to_string()
        }
    }
    fn done(&self) -> bool {
        self.i >= self.t.len()
    }
    fn pred(&mut self) -> Pred {
        match self.next() {
            "T" => Pred::True,
            "F" => Pred::False,
            "ge" => Pred::Ge(self.int()),
            "le" => Pred::Le(self.int()),
            "fst" => Pred::Fst(Box::new(self.pred())),
            "snd" => Pred::Snd(Box::new(self.pred())),
            "np" => Pred::NotPrefix(self.string()),
            "lenge" => Pred::LenGe(self.int()),
            other => {
                eprintln!("harness: unknown predicate {}", other);
                std::process::exit(3)
            }
        }
    }
}

fn eval_z(p: &Pred, v: i64) -> bool {
    match p {
        Pred::True => true,
        Pred::False => false,
        Pred::Ge(k) => v >= *k,
        Pred::Le(k) => v <= *k,
        _ => false,
    }
}

/// what the executor needs from an item type
trait Kind: Sized + Clone + Default + Debug {
    type M: Debug;
    fn item(t: &mut Toks) -> Self;
    fn modifier(t: &mut Toks) -> Self::M;
    fn enc(&self) -> String;
    fn eval(p: &Pred, x: &Self) -> bool;
}

impl Kind for Min<i64> {
    type M = ();
    fn item(t: &mut Toks) -> Self {
        let v: i64 = t.int();
        if v & 1 == 0 {
            Min::new(v)
        } else {
            Min::from(v)
        }
    }
    fn modifier(t: &mut Toks) -> () {
        let _: i64 = t.int();
    }
    fn enc(&self) -> String {
        format!("{}", self.v)
    }
    fn eval(p: &Pred, x: &Self) -> bool {
        eval_z(p, x.v)
    }
}
impl Kind for Max<i64> {
    type M = ();
    fn item(t: &mut Toks) -> Self {
        let v: i64 = t.int();
        if v & 1 == 0 {
            Max::new(v)
        } else {
            Max::from(v)
        }
    }
    fn modifier(t: &mut Toks) -> () {
        let _: i64 = t.int();
    }
    fn enc(&self) -> String {
        format!("{}", self.v)
    }
    fn eval(p: &Pred, x: &Self) -> bool {
        eval_z(p, x.v)
    }
}
impl Kind for Sum<i64> {
    type M = ();
    fn item(t: &mut Toks) -> Self {
        let v: i64 = t.int();
        if v & 1 == 0 {
            Sum::new(v)
        } else {
            Sum::from(v)
        }
    }
    fn modifier(t: &mut Toks) -> () {
        let _: i64 = t.int();
    }
    fn enc(&self) -> String {
        format!("{}", self.v)
    }
    fn eval(p: &Pred, x: &Self) -> bool {
        eval_z(p, x.v)
    }
}
impl Kind for MinAdd<i64> {
    type M = i64;
    fn item(t: &mut Toks) -> Self {
        let (v, md) = t.int_md();
        let mut x = MinAdd::new(v);
        x.md = md;
        x
    }
    fn modifier(t: &mut Toks) -> i64 {
        t.int()
    }
    fn enc(&self) -> String {
        format!("{},{}", self.v, self.md)
    }
    fn eval(p: &Pred, x: &Self) -> bool {
        eval_z(p, x.v)
    }
}
impl Kind for MaxAdd<i64> {
    type M = i64;
    fn item(t: &mut Toks) -> Self {
        let (v, md) = t.int_md();
        let mut x = MaxAdd::new(v);
        x.md = md;
        x
    }
    fn modifier(t: &mut Toks) -> i64 {
        t.int()
    }
    fn enc(&self) -> String {
        format!("{},{}", self.v, self.md)
    }
    fn eval(p: &Pred, x: &Self) -> bool {
        eval_z(p, x.v)
    }
}
impl Kind for SumAdd<i64> {
    type M = i64;
    fn item(t: &mut Toks) -> Self {
        let (v, md, len) = t.int_md_len();
        let mut x = SumAdd::new(v);
        x.md = md;
        if let Some(l) = len {
            x.len = l;
        }
        x
    }
    fn modifier(t: &mut Toks) -> i64 {
        t.int()
    }
    fn enc(&self) -> String {
        format!("{},{},{}", self.v, self.len, self.md)
    }
    fn eval(p: &Pred, x: &Self) -> bool {
        match p {
            Pred::True => true,
            Pred::False => false,
            Pred::Fst(q) => eval_z(q, x.v),
            Pred::Snd(q) => eval_z(q, x.len),
            _ => false,
        }
    }
}
type C2 = Combinator<MinAdd<i64>, MaxAdd<i64>>;
type C3 = Combinator<C2, SumAdd<i64>>;
impl Kind for C2 {
    type M = i64;
    fn item(t: &mut Toks) -> Self {
        let (v, md) = t.int_md();
        let mut x = C2::from(v);
        x.0.md = md;
        x.1.md = md;
        x
    }
    fn modifier(t: &mut Toks) -> i64 {
        t.int()
    }
    fn enc(&self) -> String {
        format!("{},{}", self.0.enc(), self.1.enc())
    }
    fn eval(p: &Pred, x: &Self) -> bool {
        match p {
            Pred::True => true,
            Pred::False => false,
            Pred::Fst(q) => <MinAdd<i64> as Kind>::eval(q, &x.0),
            Pred::Snd(q) => <MaxAdd<i64> as Kind>::eval(q, &x.1),
            _ => false,
        }
    }
}
impl Kind for C3 {
    type M = i64;
    fn item(t: &mut Toks) -> Self {
        let (v, md, len) = t.int_md_len();
        let mut x = C3::from(v);
        (x.0).0.md = md;
        (x.0).1.md = md;
        x.1.md = md;
        if let Some(l) = len {
            x.1.len = l;
        }
        x
    }
    fn modifier(t: &mut Toks) -> i64 {
        t.int()
    }
    fn enc(&self) -> String {
        format!("{},{}", self.0.enc(), self.1.enc())
    }
    fn eval(p: &Pred, x: &Self) -> bool {
        match p {
            Pred::True => true,
            Pred::False => false,
            Pred::Fst(q) => <C2 as Kind>::eval(q, &x.0),
            Pred::Snd(q) => <SumAdd<i64> as Kind>::eval(q, &x.1),
            _ => false,
        }
    }
}


// ---------------------------------------------------------------- other integer widths of the built-ins
/// MinAdd<i32> (the README's width), SumAdd<u64>, Min<u64>, Max<u64>: same observations as the i64 kinds
impl Kind for MinAdd<i32> {
    type M = i32;
    fn item(t: &mut Toks) -> Self {
        let (v, md) = t.int_md();
        let mut x = MinAdd::from(v as i32);
        x.md = md as i32;
        x
    }
    fn modifier(t: &mut Toks) -> i32 {
        t.int()
    }
    fn enc(&self) -> String {
        format!("{},{}", self.v, self.md)
    }
    fn eval(p: &Pred, x: &Self) -> bool {
        eval_z(p, x.v as i64)
    }
}
impl Kind for SumAdd<u64> {
    type M = u64;
    fn item(t: &mut Toks) -> Self {
        let (v, md, len) = t.int_md_len();
        let mut x = SumAdd::from(v as u64);
        x.md = md as u64;
        if let Some(l) = len {
            x.len = l as u64;
        }
        x
    }
    fn modifier(t: &mut Toks) -> u64 {
        t.int()
    }
    fn enc(&self) -> String {
        format!("{},{},{}", self.v, self.len, self.md)
    }
    fn eval(p: &Pred, x: &Self) -> bool {
        match p {
            Pred::True => true,
            Pred::False => false,
            Pred::Fst(q) => eval_z(q, x.v as i64),
            Pred::Snd(q) => eval_z(q, x.len as i64),
            _ => false,
        }
    }
}

/// Min<u64> / Max<u64>: the input integer x (any i64) stands for the u64 value x + 2^63 (top bit flipped: an
/// order isomorphism i64 -> u64), printed back the same way; u64::MAX and 0 (the Default values) correspond to
/// i64::MAX and i64::MIN, so the observations equal those of Min<i64> / Max<i64>.
const TOP: u64 = 1 << 63;
impl Kind for Min<u64> {
    type M = ();
    fn item(t: &mut Toks) -> Self {
        let v: i64 = t.int();
        Min::from((v as u64) ^ TOP)
    }
    fn modifier(t: &mut Toks) -> () {
        let _: i64 = t.int();
    }
    fn enc(&self) -> String {
        format!("{}", (self.v ^ TOP) as i64)
    }
    fn eval(p: &Pred, x: &Self) -> bool {
        eval_z(p, (x.v ^ TOP) as i64)
    }
}
impl Kind for Max<u64> {
    type M = ();
    fn item(t: &mut Toks) -> Self {
        let v: i64 = t.int();
        Max::new((v as u64) ^ TOP)
    }
    fn modifier(t: &mut Toks) -> () {
        let _: i64 = t.int();
    }
    fn enc(&self) -> String {
        format!("{}", (self.v ^ TOP) as i64)
    }
    fn eval(p: &Pred, x: &Self) -> bool {
        eval_z(p, (x.v ^ TOP) as i64)
    }
}

// ---------------------------------------------------------------- element type with distinguishable ties
/// Ordered and compared by `key` only; `+=` adds the keys and keeps the id of the left operand.
/// Two elements with the same key compare equal and are still told apart by `id`, so which operand
/// a merge (or an `update` override) keeps on a tie shows in every printed item.
#[derive(Clone, Copy, Debug, Default)]
struct Keyed {
    key: i64,
    id: i64,
}
impl PartialEq for Keyed {
    fn eq(&self, o: &Self) -> bool {
        self.key == o.key
    }
}
impl PartialOrd for Keyed {
    fn partial_cmp(&self, o: &Self) -> Option<std::cmp::Ordering> {
        self.key.partial_cmp(&o.key)
    }
}
impl std::ops::AddAssign for Keyed {
    fn add_assign(&mut self, o: Keyed) {
        self.key += o.key;
    }
}
impl MinMax for Keyed {
    const MIN: Keyed = Keyed { key: i64::MIN, id: -1 };
    const MAX: Keyed = Keyed { key: i64::MAX, id: -1 };
}
fn eval_kz(p: &Pred, key: i64, id: i64) -> bool {
    match p {
        Pred::True => true,
        Pred::False => false,
        Pred::Fst(q) => eval_z(q, key),
        Pred::Snd(q) => eval_z(q, id),
        _ => false,
    }
}
impl Kind for Min<Keyed> {
    type M = ();
    fn item(t: &mut Toks) -> Self {
        let (k, _) = t.keyed_md();
        if k.id & 1 == 0 {
            Min::new(k)
        } else {
            Min::from(k)
        }
    }
    fn modifier(t: &mut Toks) -> () {
        let _: i64 = t.int();
    }
    fn enc(&self) -> String {
        format!("{},{}", self.v.key, self.v.id)
    }
    fn eval(p: &Pred, x: &Self) -> bool {
        eval_kz(p, x.v.key, x.v.id)
    }
}
impl Kind for Max<Keyed> {
    type M = ();
    fn item(t: &mut Toks) -> Self {
        let (k, _) = t.keyed_md();
        if k.id & 1 == 0 {
            Max::new(k)
        } else {
            Max::from(k)
        }
    }
    fn modifier(t: &mut Toks) -> () {
        let _: i64 = t.int();
    }
    fn enc(&self) -> String {
        format!("{},{}", self.v.key, self.v.id)
    }
    fn eval(p: &Pred, x: &Self) -> bool {
        eval_kz(p, x.v.key, x.v.id)
    }
}
impl Kind for MinAdd<Keyed> {
    type M = Keyed;
    fn item(t: &mut Toks) -> Self {
        let (k, md) = t.keyed_md();
        let mut x = MinAdd::new(k);
        x.md.key = md;
        x
    }
    fn modifier(t: &mut Toks) -> Keyed {
        Keyed { key: t.int(), id: 0 }
    }
    fn enc(&self) -> String {
        format!("{},{},{},{}", self.v.key, self.v.id, self.md.key, self.md.id)
    }
    fn eval(p: &Pred, x: &Self) -> bool {
        eval_kz(p, x.v.key, x.v.id)
    }
}
impl Kind for MaxAdd<Keyed> {
    type M = Keyed;
    fn item(t: &mut Toks) -> Self {
        let (k, md) = t.keyed_md();
        let mut x = MaxAdd::new(k);
        x.md.key = md;
        x
    }
    fn modifier(t: &mut Toks) -> Keyed {
        Keyed { key: t.int(), id: 0 }
    }
    fn enc(&self) -> String {
        format!("{},{},{},{}", self.v.key, self.v.id, self.md.key, self.md.id)
    }
    fn eval(p: &Pred, x: &Self) -> bool {
        eval_kz(p, x.v.key, x.v.id)
    }
}

// ---------------------------------------------------------------- Min / Max over f64: the two zeros
/// token `key/id`: the value `key` (an integer), or -0.0 for `0/1`
fn f64_of(k: Keyed) -> f64 {
    if k.key == 0 && k.id == 1 {
        -0.0
    } else {
        k.key as f64
    }
}
/// `key,id`; anything that is not an integral value below 2^50 or one of the zeros prints as `X`
fn enc_f64(x: f64) -> String {
    if x == 0.0 {
        format!("0,{}", x.to_bits() >> 63)
    } else if x.fract() == 0.0 && x.abs() < 1.0e15 {
        format!("{},0", x as i64)
    } else {
        "X".to_string()
    }
}
fn eval_f64(p: &Pred, x: f64) -> bool {
    if x == 0.0 {
        eval_kz(p, 0, (x.to_bits() >> 63) as i64)
    } else {
        eval_kz(p, x as i64, 0)
    }
}
impl Kind for Min<f64> {
    type M = ();
    fn item(t: &mut Toks) -> Self {
        let (k, _) = t.keyed_md();
        Min::new(f64_of(k))
    }
    fn modifier(t: &mut Toks) -> () {
        let _: i64 = t.int();
    }
    fn enc(&self) -> String {
        enc_f64(self.v)
    }
    fn eval(p: &Pred, x: &Self) -> bool {
        eval_f64(p, x.v)
    }
}
impl Kind for Max<f64> {
    type M = ();
    fn item(t: &mut Toks) -> Self {
        let (k, _) = t.keyed_md();
        Max::from(f64_of(k))
    }
    fn modifier(t: &mut Toks) -> () {
        let _: i64 = t.int();
    }
    fn enc(&self) -> String {
        enc_f64(self.v)
    }
    fn eval(p: &Pred, x: &Self) -> bool {
        eval_f64(p, x.v)
    }
}

// ---------------------------------------------------------------- Sum over a non-commutative `+`
/// a string whose `+` is concatenation
#[derive(Clone, Default)]
struct Cat(String);
impl std::ops::Add for Cat {
    type Output = Cat;
    fn add(self, o: Cat) -> Cat {
        Cat(self.0 + &o.0)
    }
}
impl Debug for Cat {
    fn fmt(&self, f: &mut std::fmt::Formatter<'_>) -> std::fmt::Result {
        write!(f, "{}", enc_str(&self.0))
    }
}
impl Kind for Sum<Cat> {
    type M = ();
    fn item(t: &mut Toks) -> Self {
        let s = t.string();
        if s.len() & 1 == 0 {
            Sum::new(Cat(s))
        } else {
            Sum::from(Cat(s))
        }
    }
    fn modifier(t: &mut Toks) -> () {
        let _: i64 = t.int();
    }
    fn enc(&self) -> String {
        enc_str(&self.v.0)
    }
    fn eval(p: &Pred, x: &Self) -> bool {
        match p {
            Pred::True => true,
            Pred::False => false,
            Pred::NotPrefix(w) => !w.starts_with(&x.v.0),
            Pred::LenGe(k) => x.v.0.len() as i64 >= *k,
            _ => false,
        }
    }
}

// ---------------------------------------------------------------- user item 1: Concat
#[derive(Clone, Debug)]
enum CMod {
    Assign(String),
    Append(String),
}
/// The parts are the element strings of the covered range, in order; merge concatenates the
/// part lists (not commutative).  Assign/Append act on every element; the lazy tag is the
/// composition of the modifiers not yet pushed to the children.
#[derive(Clone, Default)]
struct Concat {
    parts: Vec<String>,
    tag: Option<CMod>,
}
fn enc_str(s: &str) -> String {
    if s.is_empty() {
        "_".to_string()
    } else {
        s.to_string()
    }
}
impl Debug for Concat {
    fn fmt(&self, f: &mut std::fmt::Formatter<'_>) -> std::fmt::Result {
        write!(f, "{}", self.enc())
    }
}
impl SegtreeItem<CMod> for Concat {
    fn merge(left: &Self, right: &Self) -> Self {
        let mut parts = left.parts.clone();
        parts.extend(right.parts.iter().cloned());
        Concat { parts, tag: None }
    }
    fn modify(&mut self, m: &CMod) {
        for p in self.parts.iter_mut() {
            match m {
                CMod::Assign(s) => *p = s.clone(),
                CMod::Append(s) => p.push_str(s),
            }
        }
        self.tag = Some(match (m, self.tag.take()) {
            (CMod::Assign(s), _) => CMod::Assign(s.clone()),
            (CMod::Append(s), None) => CMod::Append(s.clone()),
            (CMod::Append(s), Some(CMod::Assign(a))) => CMod::Assign(a + s),
            (CMod::Append(s), Some(CMod::Append(a))) => CMod::Append(a + s),
        });
    }
    /// the only item here that overrides `update`: rebuilds in place, same result as `merge`
    fn update(&mut self, left: &Self, right: &Self) {
        self.parts.clear();
        self.parts.extend(left.parts.iter().cloned());
        self.parts.extend(right.parts.iter().cloned());
        self.tag = None;
    }
    fn push(&mut self, left: &mut Self, right: &mut Self) {
        if let Some(t) = self.tag.take() {
            left.modify(&t);
            right.modify(&t);
        }
        // canary: `left` / `right` really are this node's left / right child, in this order
        if !self.parts.iter().eq(left.parts.iter().chain(right.parts.iter())) {
            panic!("Concat::push: children do not spell the parent");
        }
    }
}
impl Kind for Concat {
    type M = CMod;
    fn item(t: &mut Toks) -> Self {
        Concat { parts: vec![t.string()], tag: None }
    }
    fn modifier(t: &mut Toks) -> CMod {
        match t.next() {
            "as" => CMod::Assign(t.string()),
            "ap" => CMod::Append(t.string()),
            other => {
                eprintln!("harness: unknown concat modifier {}", other);
                std::process::exit(3)
            }
        }
    }
    /// `<number of parts>:<part>|<part>...;<tag>` with tag N | A<str> | P<str>
    fn enc(&self) -> String {
        let parts: Vec<String> = self.parts.iter().map(|s| enc_str(s)).collect();
        let tag = match &self.tag {
            None => "N".to_string(),
            Some(CMod::Assign(s)) => format!("A{}", enc_str(s)),
            Some(CMod::Append(s)) => format!("P{}", enc_str(s)),
        };
        format!("{}:{};{}", self.parts.len(), parts.join("|"), tag)
    }
    fn eval(p: &Pred, x: &Self) -> bool {
        let whole: String = x.parts.concat();
        match p {
            Pred::True => true,
            Pred::False => false,
            Pred::NotPrefix(w) => !w.starts_with(&whole),
            Pred::LenGe(k) => whole.len() as i64 >= *k,
            _ => false,
        }
    }
}

// ---------------------------------------------------------------- user item 2: Affine
const P: u64 = 998_244_353;
/// range sum mod P with lazy affine maps x -> a*x + b applied to every element
/// (Assign c = (0, c), Add c = (1, c)); the tags do not commute.
#[derive(Clone)]
struct Affine {
    sum: u64,
    len: u64,
    a: u64,
    b: u64,
}
impl Default for Affine {
    fn default() -> Self {
        Affine { sum: 0, len: 0, a: 1, b: 0 }
    }
}
impl Debug for Affine {
    fn fmt(&self, f: &mut std::fmt::Formatter<'_>) -> std::fmt::Result {
        write!(f, "{}", self.enc())
    }
}
impl SegtreeItem<(u64, u64)> for Affine {
    fn merge(left: &Self, right: &Self) -> Self {
        Affine { sum: (left.sum + right.sum) % P, len: left.len + right.len, a: 1, b: 0 }
    }
    fn modify(&mut self, m: &(u64, u64)) {
        self.sum = (m.0 * self.sum + m.1 * self.len) % P;
        let a = (m.0 * self.a) % P;
        let b = (m.0 * self.b + m.1) % P;
        self.a = a;
        self.b = b;
    }
    fn push(&mut self, left: &mut Self, right: &mut Self) {
        let t = (self.a, self.b);
        left.modify(&t);
        right.modify(&t);
        self.a = 1;
        self.b = 0;
    }
}
impl Kind for Affine {
    type M = (u64, u64);
    fn item(t: &mut Toks) -> Self {
        let v: u64 = t.int();
        Affine { sum: v % P, len: 1, a: 1, b: 0 }
    }
    fn modifier(t: &mut Toks) -> (u64, u64) {
        let a: u64 = t.int();
        let b: u64 = t.int();
        (a, b)
    }
    fn enc(&self) -> String {
        format!("{},{},{},{}", self.sum, self.len, self.a, self.b)
    }
    fn eval(p: &Pred, x: &Self) -> bool {
        match p {
            Pred::True => true,
            Pred::False => false,
            Pred::Fst(q) => eval_z(q, (x.sum % P) as i64),
            Pred::Snd(q) => eval_z(q, x.len as i64),
            _ => false,
        }
    }
}

// ---------------------------------------------------------------- user item 3: Flip
/// Number of one-bits of a range with the parameterless range modification "flip every bit".
/// The modifier type is the zero-sized `()` (the default `M` of `SegtreeItem`), and still the item
/// is lazy: `modify(&())` leaves a pending flip that `push` hands down to the children.
#[derive(Clone, Default)]
struct Flip {
    ones: i64,
    len: i64,
    flip: bool,
}
impl Debug for Flip {
    fn fmt(&self, f: &mut std::fmt::Formatter<'_>) -> std::fmt::Result {
        write!(f, "{}", self.enc())
    }
}
impl SegtreeItem<()> for Flip {
    fn merge(left: &Self, right: &Self) -> Self {
        Flip { ones: left.ones + right.ones, len: left.len + right.len, flip: false }
    }
    fn modify(&mut self, _m: &()) {
        self.ones = self.len - self.ones;
        self.flip = !self.flip;
    }
    fn push(&mut self, left: &mut Self, right: &mut Self) {
        if self.flip {
            left.modify(&());
            right.modify(&());
            self.flip = false;
        }
    }
}
impl Kind for Flip {
    type M = ();
    fn item(t: &mut Toks) -> Self {
        let (b, fl) = t.int_md();
        Flip { ones: b, len: 1, flip: fl != 0 }
    }
    fn modifier(t: &mut Toks) -> () {
        let _: i64 = t.int();
    }
    fn enc(&self) -> String {
        format!("{},{},{}", self.ones, self.len, self.flip as i64)
    }
    fn eval(p: &Pred, x: &Self) -> bool {
        match p {
            Pred::True => true,
            Pred::False => false,
            Pred::Fst(q) => eval_z(q, x.ones),
            Pred::Snd(q) => eval_z(q, x.len),
            _ => false,
        }
    }
}


// ---------------------------------------------------------------- more Combinators
/// both components non-commutative and lazy; the second component holds the rotated string (a->b->c->a)
type CCat = Combinator<Concat, Concat>;
fn rot(s: &str) -> String {
    s.chars()
        .map(|c| match c {
            'a' => 'b',
            'b' => 'c',
            'c' => 'a',
            o => o,
        })
        .collect()
}
impl Kind for CCat {
    type M = CMod;
    fn item(t: &mut Toks) -> Self {
        let s = t.string();
        let r = rot(&s);
        Combinator(Concat { parts: vec![s], tag: None }, Concat { parts: vec![r], tag: None })
    }
    fn modifier(t: &mut Toks) -> CMod {
        <Concat as Kind>::modifier(t)
    }
    fn enc(&self) -> String {
        format!("{},{}", self.0.enc(), self.1.enc())
    }
    fn eval(p: &Pred, x: &Self) -> bool {
        match p {
            Pred::True => true,
            Pred::False => false,
            Pred::Fst(q) => <Concat as Kind>::eval(q, &x.0),
            Pred::Snd(q) => <Concat as Kind>::eval(q, &x.1),
            _ => false,
        }
    }
}
/// right-nested, modifier type (), built with From
type CU = Combinator<Min<i64>, Combinator<Max<i64>, Sum<i64>>>;
impl Kind for CU {
    type M = ();
    fn item(t: &mut Toks) -> Self {
        let v: i64 = t.int();
        CU::from(v)
    }
    fn modifier(t: &mut Toks) -> () {
        let _: i64 = t.int();
    }
    fn enc(&self) -> String {
        format!("{},{},{}", self.0.v, (self.1).0.v, (self.1).1.v)
    }
    fn eval(p: &Pred, x: &Self) -> bool {
        match p {
            Pred::True => true,
            Pred::False => false,
            Pred::Fst(q) => eval_z(q, x.0.v),
            Pred::Snd(q) => match &**q {
                Pred::True => true,
                Pred::False => false,
                Pred::Fst(r) => eval_z(r, (x.1).0.v),
                Pred::Snd(r) => eval_z(r, (x.1).1.v),
                _ => false,
            },
            _ => false,
        }
    }
}
/// a lazy and a non-lazy component under the modifier type (): the flips reach the first component only
type CFl = Combinator<Flip, Sum<i64>>;
impl Kind for CFl {
    type M = ();
    fn item(t: &mut Toks) -> Self {
        let (b, fl) = t.int_md();
        Combinator(Flip { ones: b, len: 1, flip: fl != 0 }, Sum::from(b))
    }
    fn modifier(t: &mut Toks) -> () {
        let _: i64 = t.int();
    }
    fn enc(&self) -> String {
        format!("{},{}", self.0.enc(), self.1.v)
    }
    fn eval(p: &Pred, x: &Self) -> bool {
        match p {
            Pred::True => true,
            Pred::False => false,
            Pred::Fst(q) => <Flip as Kind>::eval(q, &x.0),
            Pred::Snd(q) => eval_z(q, x.1.v),
            _ => false,
        }
    }
}

// ---------------------------------------------------------------- the history runner
fn items<T: Kind>(t: &mut Toks) -> Vec<T> {
    let k: usize = t.int();
    (0..k).map(|_| T::item(t)).collect()
}

/// After debug() every inner node has been pushed, so further queries change nothing.  Every range is
/// asked again and compared (all fields) with the left-to-right fold of `T::merge` over the single-element
/// answers: the values stored in inner nodes (written by `update`) must agree with query-time `merge`.
fn fold_check<T>(s: &mut Segtree<T, T::M>, n: usize) -> Option<String>
where
    T: Kind + SegtreeItem<<T as Kind>::M>,
{
    let leaves: Vec<T> = (0..n).map(|i| s.ask(i, i)).collect();
    let step = if n <= 48 { 1 } else { n / 24 };
    let mut l = 0;
    while l < n {
        let mut acc = leaves[l].clone();
        for r in l..n {
            if r > l {
                acc = T::merge(&acc, &leaves[r]);
            }
            if step == 1 || r % step == step - 1 || r == n - 1 || r == l {
                let got = s.ask(l, r);
                if got.enc() != acc.enc() {
                    return Some(format!("FOLD-MISMATCH {} {} ask={} fold={}", l, r, got.enc(), acc.enc()));
                }
            }
        }
        l += step;
    }
    None
}

fn run<T>(t: &mut Toks) -> String
where
    T: Kind + SegtreeItem<<T as Kind>::M>,
{
    let mut tree: Option<Segtree<T, T::M>> = None;
    let mut size: usize = 0;
    let mut out: Vec<String> = Vec::new();
    while !t.done() {
        let op = t.next();
        let chunk: Option<String> = match op {
            "new" => {
                let n: usize = t.int();
                let v = T::item(t);
                vh::guarded(|| Segtree::new(n, v)).map(|s| {
                    tree = Some(s);
                    size = n;
                    "u".to_string()
                })
            }
            "raw" => {
                let n: usize = t.int();
                let v = T::item(t);
                vh::guarded(|| Segtree::new_raw(n, v)).map(|s| {
                    tree = Some(s);
                    size = n;
                    "u".to_string()
                })
            }
            "slice" => {
                let xs: Vec<T> = items(t);
                let k = xs.len();
                vh::guarded(|| Segtree::from_slice(&xs)).map(|s| {
                    tree = Some(s);
                    size = k;
                    "u".to_string()
                })
            }
            "iter" => {
                let xs: Vec<T> = items(t);
                let k = xs.len();
                vh::guarded(|| match k % 3 {
                    0 => Segtree::from_iter(xs.into_iter()),
                    1 => Segtree::from_iter(xs.iter().cloned().map(|x| x)),
                    _ => {
                        let mut ys = xs.clone();
                        ys.reverse();
                        Segtree::from_iter(ys.into_iter().rev())
                    }
                })
                .map(|s| {
                    tree = Some(s);
                    size = k;
                    "u".to_string()
                })
            }
            "set" => {
                let i: usize = t.int();
                let v = T::item(t);
                match tree.as_mut() {
                    None => None,
                    Some(s) => vh::guarded(|| s.set(i, v)).map(|_| "u".to_string()),
                }
            }
            "mod" => {
                let l: usize = t.int();
                let r: usize = t.int();
                let m = T::modifier(t);
                match tree.as_mut() {
                    None => None,
                    Some(s) => vh::guarded(|| s.modify(l, r, &m)).map(|_| "u".to_string()),
                }
            }
            "ask" => {
                let l: usize = t.int();
                let r: usize = t.int();
                match tree.as_mut() {
                    None => None,
                    Some(s) => vh::guarded(|| s.ask(l, r)).map(|x| format!("i {}", x.enc())),
                }
            }
            "lb" | "lbr" | "lbp" | "lbrp" => {
                let fwd = op == "lb" || op == "lbp";
                let pos: usize = t.int();
                let kth: usize = if op == "lbp" || op == "lbrp" { t.int() } else { 0 };
                let p = t.pred();
                match tree.as_mut() {
                    None => None,
                    Some(s) => {
                        if kth > 0 {
                            // the predicate panics on its kth call; the panic is caught, the tree must stay usable
                            let calls = Cell::new(0usize);
                            let f1 = |x: &T| {
                                calls.set(calls.get() + 1);
                                if calls.get() == kth {
                                    panic!("predicate");
                                }
                                T::eval(&p, x)
                            };
                            let _ = vh::guarded(|| if fwd { s.lower_bound(pos, f1) } else { s.lower_bound_rev(pos, f1) });
                        }
                        let seen: RefCell<Vec<T>> = RefCell::new(Vec::new());
                        let f = |x: &T| {
                            seen.borrow_mut().push(x.clone());
                            T::eval(&p, x)
                        };
                        let res = vh::guarded(|| if fwd { s.lower_bound(pos, f) } else { s.lower_bound_rev(pos, f) });
                        res.map(|r| {
                            let mut c = match r {
                                Some(k) => format!("b {}", k),
                                None => "b -".to_string(),
                            };
                            for x in seen.borrow().iter() {
                                c.push(' ');
                                c.push_str(&x.enc());
                            }
                            c
                        })
                    }
                }
            }
            "dbg" => match tree.as_mut() {
                None => None,
                Some(s) => vh::guarded(|| {
                    let d = s.debug();
                    match fold_check(s, size) {
                        None => d,
                        Some(bad) => bad,
                    }
                })
                .map(|d| format!("d {}", d)),
            },
            other => {
                eprintln!("harness: unknown op {}", other);
                std::process::exit(3)
            }
        };
        out.push(chunk.unwrap_or_else(|| "p".to_string()));
    }
    out.join("\t")
}

fn main() {
    vh::serve(|toks| {
        let mut t = Toks { t: toks, i: 1 };
        match toks[0] {
            "min" => run::<Min<i64>>(&mut t),
            "max" => run::<Max<i64>>(&mut t),
            "sum" => run::<Sum<i64>>(&mut t),
            "minadd" => run::<MinAdd<i64>>(&mut t),
            "maxadd" => run::<MaxAdd<i64>>(&mut t),
            "sumadd" => run::<SumAdd<i64>>(&mut t),
            "comb2" => run::<C2>(&mut t),
            "comb3" => run::<C3>(&mut t),
            "concat" => run::<Concat>(&mut t),
            "affine" => run::<Affine>(&mut t),
            "flip" => run::<Flip>(&mut t),
            "minadd32" => run::<MinAdd<i32>>(&mut t),
            "sumaddu64" => run::<SumAdd<u64>>(&mut t),
            "minu64" => run::<Min<u64>>(&mut t),
            "maxu64" => run::<Max<u64>>(&mut t),
            "minkey" => run::<Min<Keyed>>(&mut t),
            "maxkey" => run::<Max<Keyed>>(&mut t),
            "minaddkey" => run::<MinAdd<Keyed>>(&mut t),
            "maxaddkey" => run::<MaxAdd<Keyed>>(&mut t),
            "minf" => run::<Min<f64>>(&mut t),
            "maxf" => run::<Max<f64>>(&mut t),
            "sumcat" => run::<Sum<Cat>>(&mut t),
            "combcat" => run::<CCat>(&mut t),
            "combunit" => run::<CU>(&mut t),
            "combflip" => run::<CFl>(&mut t),
            other => {
                eprintln!("harness: unknown kind {}", other);
                std::process::exit(3)
            }
        }
    });
}
