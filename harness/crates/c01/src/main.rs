//! C01 / C02 executor.  One stdin line = one history on one item type:
//!   `<kind> op*`   with ops
//!     new n <item> | slice k <item>*k | iter k <item>*k | set i <item> | mod l r <modifier>
//!     | ask l r | lb l <pred> | lbr r <pred> | dbg
//!     | raw n <item>            Segtree::new_raw(n, item) (every node = item, nothing rebuilt)
//!     | lbp l k <pred> | lbrp r k <pred>
//!                               the search is first run with a closure that panics on its k-th call (caught),
//!                               then run again, uninterrupted, with the plain predicate: the chunk printed is
//!                               that of the second run (a search never changes the logical array and pushing
//!                               twice equals pushing once, so it must equal the chunk of `lb` / `lbr`)
//!   items:      integer (built-ins, Combinator via From<i64>, Affine) / string token (Concat, `_` = empty)
//!               / `v:md` (MinAdd, MaxAdd, SumAdd, the Combinators: the item carries the pending lazy tag `md`
//!               in every component; Flip: `bit:flag`, flag 0|1 = its pending-flip flag)
//!               / `key/id` (the kinds over Keyed and over f64: f64 value = key, id 1 = the zero is -0.0;
//!               MinAdd/MaxAdd<Keyed>: `key/id:md`) / `v:md:len` (SumAdd and the SumAdd component of comb3: weighted leaf)
//!   modifiers:  integer (ignored for the kinds with M = (), Flip included) / `as s` | `ap s` (Concat) / `a b` (Affine)
//!   predicates: T | F | ge k | le k | fst <pred> | snd <pred> | np s | lenge k
//! Output: one chunk per op, chunks separated by TAB:
//!   `u` (returned unit) | `p` (panicked) | `i <item>` | `d <debug() string>` |
//!   `b <index or -> <item>*` (the items are the arguments the closure received, in order)
//! Items are printed with every field (lazy tags included).
//! Self-checks (a failure prints a chunk the plugin cannot read as the expected observation):
//!   * `dbg`: after debug() (which leaves every inner node pushed) every range [l, r] (all of them up to n = 48,
//!     a grid above) is asked again and compared, field by field, with the left-to-right fold of `T::merge`
//!     over the single-element answers: `d FOLD-MISMATCH ...`;
//!   * `Concat::push` panics unless, after handing its tag down, its own parts are exactly the left child's
//!     parts followed by the right child's; `Concat::update` is overridden (rebuilds in place).
//!   * `iter k`: the iterator handed to from_iter is `Vec::into_iter()`, a lazy `.iter().cloned().map(..)`
//!     or a `.rev()` of the reversed vector, by k mod 3.
//! Width kinds `w.<type>.<kind>`: the built-in item <kind> (min, max, sum, minadd, maxadd, sumadd, comb2, comb3,
//! combunit - tokens and encodings of the i64 kind of that name) over the primitive <type>, for every type
//! rlib_num_traits implements MinMax / ZeroOne for (table `for_prim!` in main): on a history whose numbers fit
//! the type the observation line is the one of the i64 kind (floats: integral values print as integers, anything
//! else as `X`).  One more self-check there:
//!   * `dbg`: ZeroOne::{ZERO, ONE}, MinMax::{MIN, MAX}, Default of the element type (through the traits, as the
//!     items see them), every field of the item's Default::default(), of new(1) and of from(1) are compared with
//!     what std says (`<type>::MAX`, 0, 1 ...): `d CONST-MISMATCH ...`.
use rlib_segtree::segtree_items::{Combinator, Max, MaxAdd, Min, MinAdd, Sum, SumAdd};
use rlib_num_traits::{MinMax, ZeroOne};
use rlib_segtree::{Segtree, SegtreeItem};
use std::cell::{Cell, RefCell};
use std::fmt::Debug;
use std::marker::PhantomData;

#[derive(Clone, Debug)]
enum Pred {
    True,
    False,
    Ge(i128),
    Le(i128),
    Fst(Box<Pred>),
    Snd(Box<Pred>),
    NotPrefix(String),
    LenGe(i64),
}

struct Toks<'a> {
    t: &'a [&'a str],
    i: usize,
}
impl<'a> Toks<'a> {
    fn next(&mut self) -> &'a str {
        if self.i >= self.t.len() {
            eprintln!("harness: line too short");
            std::process::exit(3)
        }
        self.i += 1;
        self.t[self.i - 1]
    }
    fn int<N: std::str::FromStr>(&mut self) -> N
    where
        N::Err: Debug,
    {
        vh::p(self.next())
    }
    /// `v` or `v:md` (an item that carries a pending lazy tag of its own)
    fn int_md(&mut self) -> (i64, i64) {
        let s = self.next();
        match s.split_once(':') {
            Some((v, md)) => (vh::p(v), vh::p(md)),
            None => (vh::p(s), 0),
        }
    }
    /// `v`, `v:md` or `v:md:len`
    fn int_md_len(&mut self) -> (i64, i64, Option<i64>) {
        let s = self.next();
        let f: Vec<&str> = s.split(':').collect();
        match f.len() {
            1 => (vh::p(f[0]), 0, None),
            2 => (vh::p(f[0]), vh::p(f[1]), None),
            _ => (vh::p(f[0]), vh::p(f[1]), Some(vh::p(f[2]))),
        }
    }
    /// `key/id` or `key/id:md`
    fn keyed_md(&mut self) -> (Keyed, i64) {
        let s = self.next();
        let (kv, md) = match s.split_once(':') {
            Some((kv, md)) => (kv, vh::p(md)),
            None => (s, 0),
        };
        match kv.split_once('/') {
            Some((k, i)) => (Keyed { key: vh::p(k), id: vh::p(i) }, md),
            None => {
                eprintln!("harness: bad keyed token {}", s);
                std::process::exit(3)
            }
        }
    }
    fn string(&mut self) -> String {
        let s = self.next();
        if s == "_" {
            String::new()
        } else {
            s.to_string()
        }
    }
    fn done(&self) -> bool {
        self.i >= self.t.len()
    }
    fn pred(&mut self) -> Pred {
        match self.next() {
            "T" => Pred::True,
            "F" => Pred::False,
            "ge" => Pred::Ge(self.int()),
            "le" => Pred::Le(self.int()),
            "fst" => Pred::Fst(Box::new(self.pred())),
            "snd" => Pred::Snd(Box::new(self.pred())),
            "np" => Pred::NotPrefix(self.string()),
            "lenge" => Pred::LenGe(self.int()),
            other => {
                eprintln!("harness: unknown predicate {}", other);
                std::process::exit(3)
            }
        }
    }
}

fn eval_z<V: Into<i128>>(p: &Pred, v: V) -> bool {
    let v: i128 = v.into();
    match p {
        Pred::True => true,
        Pred::False => false,
        Pred::Ge(k) => v >= *k,
        Pred::Le(k) => v <= *k,
        _ => false,
    }
}

/// what the executor needs from an item type
trait Kind: Sized + Clone + Default + Debug {
    type M: Debug;
    fn item(t: &mut Toks) -> Self;
    fn modifier(t: &mut Toks) -> Self::M;
    fn enc(&self) -> String;
    fn eval(p: &Pred, x: &Self) -> bool;
}

impl Kind for Min<i64> {
    type M = ();
    fn item(t: &mut Toks) -> Self {
        let v: i64 = t.int();
        if v & 1 == 0 {
            Min::new(v)
        } else {
            Min::from(v)
        }
    }
    fn modifier(t: &mut Toks) -> () {
        let _: i64 = t.int();
    }
    fn enc(&self) -> String {
        format!("{}", self.v)
    }
    fn eval(p: &Pred, x: &Self) -> bool {
        eval_z(p, x.v)
    }
}
impl Kind for Max<i64> {
    type M = ();
    fn item(t: &mut Toks) -> Self {
        let v: i64 = t.int();
        if v & 1 == 0 {
            Max::new(v)
        } else {
            Max::from(v)
        }
    }
    fn modifier(t: &mut Toks) -> () {
        let _: i64 = t.int();
    }
    fn enc(&self) -> String {
        format!("{}", self.v)
    }
    fn eval(p: &Pred, x: &Self) -> bool {
        eval_z(p, x.v)
    }
}
impl Kind for Sum<i64> {
    type M = ();
    fn item(t: &mut Toks) -> Self {
        let v: i64 = t.int();
        if v & 1 == 0 {
            Sum::new(v)
        } else {
            Sum::from(v)
        }
    }
    fn modifier(t: &mut Toks) -> () {
        let _: i64 = t.int();
    }
    fn enc(&self) -> String {
        format!("{}", self.v)
    }
    fn eval(p: &Pred, x: &Self) -> bool {
        eval_z(p, x.v)
    }
}
impl Kind for MinAdd<i64> {
    type M = i64;
    fn item(t: &mut Toks) -> Self {
        let (v, md) = t.int_md();
        let mut x = MinAdd::new(v);
        x.md = md;
        x
    }
    fn modifier(t: &mut Toks) -> i64 {
        t.int()
    }
    fn enc(&self) -> String {
        format!("{},{}", self.v, self.md)
    }
    fn eval(p: &Pred, x: &Self) -> bool {
        eval_z(p, x.v)
    }
}
impl Kind for MaxAdd<i64> {
    type M = i64;
    fn item(t: &mut Toks) -> Self {
        let (v, md) = t.int_md();
        let mut x = MaxAdd::new(v);
        x.md = md;
        x
    }
    fn modifier(t: &mut Toks) -> i64 {
        t.int()
    }
    fn enc(&self) -> String {
        format!("{},{}", self.v, self.md)
    }
    fn eval(p: &Pred, x: &Self) -> bool {
        eval_z(p, x.v)
    }
}
impl Kind for SumAdd<i64> {
    type M = i64;
    fn item(t: &mut Toks) -> Self {
        let (v, md, len) = t.int_md_len();
        let mut x = SumAdd::new(v);
        x.md = md;
        if let Some(l) = len {
            x.len = l;
        }
        x
    }
    fn modifier(t: &mut Toks) -> i64 {
        t.int()
    }
    fn enc(&self) -> String {
        format!("{},{},{}", self.v, self.len, self.md)
    }
    fn eval(p: &Pred, x: &Self) -> bool {
        match p {
            Pred::True => true,
            Pred::False => false,
            Pred::Fst(q) => eval_z(q, x.v),
            Pred::Snd(q) => eval_z(q, x.len),
            _ => false,
        }
    }
}
type C2 = Combinator<MinAdd<i64>, MaxAdd<i64>>;
type C3 = Combinator<C2, SumAdd<i64>>;
impl Kind for C2 {
    type M = i64;
    fn item(t: &mut Toks) -> Self {
        let (v, md) = t.int_md();
        let mut x = C2::from(v);
        x.0.md = md;
        x.1.md = md;
        x
    }
    fn modifier(t: &mut Toks) -> i64 {
        t.int()
    }
    fn enc(&self) -> String {
        format!("{},{}", self.0.enc(), self.1.enc())
    }
    fn eval(p: &Pred, x: &Self) -> bool {
        match p {
            Pred::True => true,
            Pred::False => false,
            Pred::Fst(q) => <MinAdd<i64> as Kind>::eval(q, &x.0),
            Pred::Snd(q) => <MaxAdd<i64> as Kind>::eval(q, &x.1),
            _ => false,
        }
    }
}
impl Kind for C3 {
    type M = i64;
    fn item(t: &mut Toks) -> Self {
        let (v, md, len) = t.int_md_len();
        let mut x = C3::from(v);
        (x.0).0.md = md;
        (x.0).1.md = md;
        x.1.md = md;
        if let Some(l) = len {
            x.1.len = l;
        }
        x
    }
    fn modifier(t: &mut Toks) -> i64 {
        t.int()
    }
    fn enc(&self) -> String {
        format!("{},{}", self.0.enc(), self.1.enc())
    }
    fn eval(p: &Pred, x: &Self) -> bool {
        match p {
            Pred::True => true,
            Pred::False => false,
            Pred::Fst(q) => <C2 as Kind>::eval(q, &x.0),
            Pred::Snd(q) => <SumAdd<i64> as Kind>::eval(q, &x.1),
            _ => false,
        }
    }
}


// ---------------------------------------------------------------- other integer widths of the built-ins
/// MinAdd<i32> (the README's width), SumAdd<u64>, Min<u64>, Max<u64>: same observations as the i64 kinds
impl Kind for MinAdd<i32> {
    type M = i32;
    fn item(t: &mut Toks) -> Self {
        let (v, md) = t.int_md();
        let mut x = MinAdd::from(v as i32);
        x.md = md as i32;
        x
    }
    fn modifier(t: &mut Toks) -> i32 {
        t.int()
    }
    fn enc(&self) -> String {
        format!("{},{}", self.v, self.md)
    }
    fn eval(p: &Pred, x: &Self) -> bool {
        eval_z(p, x.v as i64)
    }
}
impl Kind for SumAdd<u64> {
    type M = u64;
    fn item(t: &mut Toks) -> Self {
        let (v, md, len) = t.int_md_len();
        let mut x = SumAdd::from(v as u64);
        x.md = md as u64;
        if let Some(l) = len {
            x.len = l as u64;
        }
        x
    }
    fn modifier(t: &mut Toks) -> u64 {
        t.int()
    }
    fn enc(&self) -> String {
        format!("{},{},{}", self.v, self.len, self.md)
    }
    fn eval(p: &Pred, x: &Self) -> bool {
        match p {
            Pred::True => true,
            Pred::False => false,
            Pred::Fst(q) => eval_z(q, x.v as i64),
            Pred::Snd(q) => eval_z(q, x.len as i64),
            _ => false,
        }
    }
}

/// Min<u64> / Max<u64>: the input integer x (any i64) stands for the u64 value x + 2^63 (top bit flipped: an
/// order isomorphism i64 -> u64), printed back the same way; u64::MAX and 0 (the Default values) correspond to
/// i64::MAX and i64::MIN, so the observations equal those of Min<i64> / Max<i64>.
const TOP: u64 = 1 << 63;
impl Kind for Min<u64> {
    type M = ();
    fn item(t: &mut Toks) -> Self {
        let v: i64 = t.int();
        Min::from((v as u64) ^ TOP)
    }
    fn modifier(t: &mut Toks) -> () {
        let _: i64 = t.int();
    }
    fn enc(&self) -> String {
        format!("{}", (self.v ^ TOP) as i64)
    }
    fn eval(p: &Pred, x: &Self) -> bool {
        eval_z(p, (x.v ^ TOP) as i64)
    }
}
impl Kind for Max<u64> {
    type M = ();
    fn item(t: &mut Toks) -> Self {
        let v: i64 = t.int();
        Max::new((v as u64) ^ TOP)
    }
    fn modifier(t: &mut Toks) -> () {
        let _: i64 = t.int();
    }
    fn enc(&self) -> String {
        format!("{}", (self.v ^ TOP) as i64)
    }
    fn eval(p: &Pred, x: &Self) -> bool {
        eval_z(p, (x.v ^ TOP) as i64)
    }
}

// ---------------------------------------------------------------- element type with distinguishable ties
/// Ordered and compared by `key` only; `+=` adds the keys and keeps the id of the left operand.
/// Two elements with the same key compare equal and are still told apart by `id`, so which operand
/// a merge (or an `update` override) keeps on a tie shows in every printed item.
#[derive(Clone, Copy, Debug, Default)]
struct Keyed {
    key: i64,
    id: i64,
}
impl PartialEq for Keyed {
    fn eq(&self, o: &Self) -> bool {
        self.key == o.key
    }
}
impl PartialOrd for Keyed {
    fn partial_cmp(&self, o: &Self) -> Option<std::cmp::Ordering> {
        self.key.partial_cmp(&o.key)
    }
}
impl std::ops::AddAssign for Keyed {
    fn add_assign(&mut self, o: Keyed) {
        self.key += o.key;
    }
}
impl MinMax for Keyed {
    const MIN: Keyed = Keyed { key: i64::MIN, id: -1 };
    const MAX: Keyed = Keyed { key: i64::MAX, id: -1 };
}
fn eval_kz(p: &Pred, key: i64, id: i64) -> bool {
    match p {
        Pred::True => true,
        Pred::False => false,
        Pred::Fst(q) => eval_z(q, key),
        Pred::Snd(q) => eval_z(q, id),
        _ => false,
    }
}
impl Kind for Min<Keyed> {
    type M = ();
    fn item(t: &mut Toks) -> Self {
        let (k, _) = t.keyed_md();
        if k.id & 1 == 0 {
            Min::new(k)
        } else {
            Min::from(k)
        }
    }
    fn modifier(t: &mut Toks) -> () {
        let _: i64 = t.int();
    }
    fn enc(&self) -> String {
        format!("{},{}", self.v.key, self.v.id)
    }
    fn eval(p: &Pred, x: &Self) -> bool {
        eval_kz(p, x.v.key, x.v.id)
    }
}
impl Kind for Max<Keyed> {
    type M = ();
    fn item(t: &mut Toks) -> Self {
        let (k, _) = t.keyed_md();
        if k.id & 1 == 0 {
            Max::new(k)
        } else {
            Max::from(k)
        }
    }
    fn modifier(t: &mut Toks) -> () {
        let _: i64 = t.int();
    }
    fn enc(&self) -> String {
        format!("{},{}", self.v.key, self.v.id)
    }
    fn eval(p: &Pred, x: &Self) -> bool {
        eval_kz(p, x.v.key, x.v.id)
    }
}
impl Kind for MinAdd<Keyed> {
    type M = Keyed;
    fn item(t: &mut Toks) -> Self {
        let (k, md) = t.keyed_md();
        let mut x = MinAdd::new(k);
        x.md.key = md;
        x
    }
    fn modifier(t: &mut Toks) -> Keyed {
        Keyed { key: t.int(), id: 0 }
    }
    fn enc(&self) -> String {
        format!("{},{},{},{}", self.v.key, self.v.id, self.md.key, self.md.id)
    }
    fn eval(p: &Pred, x: &Self) -> bool {
        eval_kz(p, x.v.key, x.v.id)
    }
}
impl Kind for MaxAdd<Keyed> {
    type M = Keyed;
    fn item(t: &mut Toks) -> Self {
        let (k, md) = t.keyed_md();
        let mut x = MaxAdd::new(k);
        x.md.key = md;
        x
    }
    fn modifier(t: &mut Toks) -> Keyed {
        Keyed { key: t.int(), id: 0 }
    }
    fn enc(&self) -> String {
        format!("{},{},{},{}", self.v.key, self.v.id, self.md.key, self.md.id)
    }
    fn eval(p: &Pred, x: &Self) -> bool {
        eval_kz(p, x.v.key, x.v.id)
    }
}

// ---------------------------------------------------------------- Min / Max over f64: the two zeros
/// token `key/id`: the value `key` (an integer), or -0.0 for `0/1`
fn f64_of(k: Keyed) -> f64 {
    if k.key == 0 && k.id == 1 {
        -0.0
    } else {
        k.key as f64
    }
}
/// `key,id`; anything that is not an integral value below 2^50 or one of the zeros prints as `X`
fn enc_f64(x: f64) -> String {
    if x == 0.0 {
        format!("0,{}", x.to_bits() >> 63)
    } else if x.fract() == 0.0 && x.abs() < 1.0e15 {
        format!("{},0", x as i64)
    } else {
        "X".to_string()
    }
}
fn eval_f64(p: &Pred, x: f64) -> bool {
    if x == 0.0 {
        eval_kz(p, 0, (x.to_bits() >> 63) as i64)
    } else {
        eval_kz(p, x as i64, 0)
    }
}
impl Kind for Min<f64> {
    type M = ();
    fn item(t: &mut Toks) -> Self {
        let (k, _) = t.keyed_md();
        Min::new(f64_of(k))
    }
    fn modifier(t: &mut Toks) -> () {
        let _: i64 = t.int();
    }
    fn enc(&self) -> String {
        enc_f64(self.v)
    }
    fn eval(p: &Pred, x: &Self) -> bool {
        eval_f64(p, x.v)
    }
}
impl Kind for Max<f64> {
    type M = ();
    fn item(t: &mut Toks) -> Self {
        let (k, _) = t.keyed_md();
        Max::from(f64_of(k))
    }
    fn modifier(t: &mut Toks) -> () {
        let _: i64 = t.int();
    }
    fn enc(&self) -> String {
        enc_f64(self.v)
    }
    fn eval(p: &Pred, x: &Self) -> bool {
        eval_f64(p, x.v)
    }
}

// ---------------------------------------------------------------- Sum over a non-commutative `+`
/// a string whose `+` is concatenation
#[derive(Clone, Default)]
struct Cat(String);
impl std::ops::Add for Cat {
    type Output = Cat;
    fn add(self, o: Cat) -> Cat {
        Cat(self.0 + &o.0)
    }
}
impl Debug for Cat {
    fn fmt(&self, f: &mut std::fmt::Formatter<'_>) -> std::fmt::Result {
        write!(f, "{}", enc_str(&self.0))
    }
}
impl Kind for Sum<Cat> {
    type M = ();
    fn item(t: &mut Toks) -> Self {
        let s = t.string();
        if s.len() & 1 == 0 {
            Sum::new(Cat(s))
        } else {
            Sum::from(Cat(s))
        }
    }
    fn modifier(t: &mut Toks) -> () {
        let _: i64 = t.int();
    }
    fn enc(&self) -> String {
        enc_str(&self.v.0)
    }
    fn eval(p: &Pred, x: &Self) -> bool {
        match p {
            Pred::True => true,
            Pred::False => false,
            Pred::NotPrefix(w) => !w.starts_with(&x.v.0),
            Pred::LenGe(k) => x.v.0.len() as i64 >= *k,
            _ => false,
        }
    }
}

// ---------------------------------------------------------------- user item 1: Concat
#[derive(Clone, Debug)]
enum CMod {
    Assign(String),
    Append(String),
}
/// The parts are the element strings of the covered range, in order; merge concatenates the
/// part lists (not commutative).  Assign/Append act on every element; the lazy tag is the
/// composition of the modifiers not yet pushed to the children.
#[derive(Clone, Default)]
struct Concat {
    parts: Vec<String>,
    tag: Option<CMod>,
}
fn enc_str(s: &str) -> String {
    if s.is_empty() {
        "_".to_string()
    } else {
        s.to_string()
    }
}
impl Debug for Concat {
    fn fmt(&self, f: &mut std::fmt::Formatter<'_>) -> std::fmt::Result {
        write!(f, "{}", self.enc())
    }
}
impl SegtreeItem<CMod> for Concat {
    fn merge(left: &Self, right: &Self) -> Self {
        let mut parts = left.parts.clone();
        parts.extend(right.parts.iter().cloned());
        Concat { parts, tag: None }
    }
    fn modify(&mut self, m: &CMod) {
        for p in self.parts.iter_mut() {
            match m {
                CMod::Assign(s) => *p = s.clone(),
                CMod::Append(s) => p.push_str(s),
            }
        }
        self.tag = Some(match (m, self.tag.take()) {
            (CMod::Assign(s), _) => CMod::Assign(s.clone()),
            (CMod::Append(s), None) => CMod::Append(s.clone()),
            (CMod::Append(s), Some(CMod::Assign(a))) => CMod::Assign(a + s),
            (CMod::Append(s), Some(CMod::Append(a))) => CMod::Append(a + s),
        });
    }
    /// the only item here that overrides `update`: rebuilds in place, same result as `merge`
    fn update(&mut self, left: &Self, right: &Self) {
        self.parts.clear();
        self.parts.extend(left.parts.iter().cloned());
        self.parts.extend(right.parts.iter().cloned());
        self.tag = None;
    }
    fn push(&mut self, left: &mut Self, right: &mut Self) {
        if let Some(t) = self.tag.take() {
            left.modify(&t);
            right.modify(&t);
        }
        // canary: `left` / `right` really are this node's left / right child, in this order
        if !self.parts.iter().eq(left.parts.iter().chain(right.parts.iter())) {
            panic!("Concat::push: children do not spell the parent");
        }
    }
}
impl Kind for Concat {
    type M = CMod;
    fn item(t: &mut Toks) -> Self {
        Concat { parts: vec![t.string()], tag: None }
    }
    fn modifier(t: &mut Toks) -> CMod {
        match t.next() {
            "as" => CMod::Assign(t.string()),
            "ap" => CMod::Append(t.string()),
            other => {
                eprintln!("harness: unknown concat modifier {}", other);
                std::process::exit(3)
            }
        }
    }
    /// `<number of parts>:<part>|<part>...;<tag>` with tag N | A<str> | P<str>
    fn enc(&self) -> String {
        let parts: Vec<String> = self.parts.iter().map(|s| enc_str(s)).collect();
        let tag = match &self.tag {
            None => "N".to_string(),
            Some(CMod::Assign(s)) => format!("A{}", enc_str(s)),
            Some(CMod::Append(s)) => format!("P{}", enc_str(s)),
        };
        format!("{}:{};{}", self.parts.len(), parts.join("|"), tag)
    }
    fn eval(p: &Pred, x: &Self) -> bool {
        let whole: String = x.parts.concat();
        match p {
            Pred::True => true,
            Pred::False => false,
            Pred::NotPrefix(w) => !w.starts_with(&whole),
            Pred::LenGe(k) => whole.len() as i64 >= *k,
            _ => false,
        }
    }
}

// ---------------------------------------------------------------- user item 2: Affine
const P: u64 = 998_244_353;
/// range sum mod P with lazy affine maps x -> a*x + b applied to every element
/// (Assign c = (0, c), Add c = (1, c)); the tags do not commute.
#[derive(Clone)]
struct Affine {
    sum: u64,
    len: u64,
    a: u64,
    b: u64,
}
impl Default for Affine {
    fn default() -> Self {
        Affine { sum: 0, len: 0, a: 1, b: 0 }
    }
}
impl Debug for Affine {
    fn fmt(&self, f: &mut std::fmt::Formatter<'_>) -> std::fmt::Result {
        write!(f, "{}", self.enc())
    }
}
impl SegtreeItem<(u64, u64)> for Affine {
    fn merge(left: &Self, right: &Self) -> Self {
        Affine { sum: (left.sum + right.sum) % P, len: left.len + right.len, a: 1, b: 0 }
    }
    fn modify(&mut self, m: &(u64, u64)) {
        self.sum = (m.0 * self.sum + m.1 * self.len) % P;
        let a = (m.0 * self.a) % P;
        let b = (m.0 * self.b + m.1) % P;
        self.a = a;
        self.b = b;
    }
    fn push(&mut self, left: &mut Self, right: &mut Self) {
        let t = (self.a, self.b);
        left.modify(&t);
        right.modify(&t);
        self.a = 1;
        self.b = 0;
    }
}
impl Kind for Affine {
    type M = (u64, u64);
    fn item(t: &mut Toks) -> Self {
        let v: u64 = t.int();
        Affine { sum: v % P, len: 1, a: 1, b: 0 }
    }
    fn modifier(t: &mut Toks) -> (u64, u64) {
        let a: u64 = t.int();
        let b: u64 = t.int();
        (a, b)
    }
    fn enc(&self) -> String {
        format!("{},{},{},{}", self.sum, self.len, self.a, self.b)
    }
    fn eval(p: &Pred, x: &Self) -> bool {
        match p {
            Pred::True => true,
            Pred::False => false,
            Pred::Fst(q) => eval_z(q, (x.sum % P) as i64),
            Pred::Snd(q) => eval_z(q, x.len as i64),
            _ => false,
        }
    }
}

// ---------------------------------------------------------------- user item 3: Flip
/// Number of one-bits of a range with the parameterless range modification "flip every bit".
/// The modifier type is the zero-sized `()` (the default `M` of `SegtreeItem`), and still the item
/// is lazy: `modify(&())` leaves a pending flip that `push` hands down to the children.
#[derive(Clone, Default)]
struct Flip {
    ones: i64,
    len: i64,
    flip: bool,
}
impl Debug for Flip {
    fn fmt(&self, f: &mut std::fmt::Formatter<'_>) -> std::fmt::Result {
        write!(f, "{}", self.enc())
    }
}
impl SegtreeItem<()> for Flip {
    fn merge(left: &Self, right: &Self) -> Self {
        Flip { ones: left.ones + right.ones, len: left.len + right.len, flip: false }
    }
    fn modify(&mut self, _m: &()) {
        self.ones = self.len - self.ones;
        self.flip = !self.flip;
    }
    fn push(&mut self, left: &mut Self, right: &mut Self) {
        if self.flip {
            left.modify(&());
            right.modify(&());
            self.flip = false;
        }
    }
}
impl Kind for Flip {
    type M = ();
    fn item(t: &mut Toks) -> Self {
        let (b, fl) = t.int_md();
        Flip { ones: b, len: 1, flip: fl != 0 }
    }
    fn modifier(t: &mut Toks) -> () {
        let _: i64 = t.int();
    }
    fn enc(&self) -> String {
        format!("{},{},{}", self.ones, self.len, self.flip as i64)
    }
    fn eval(p: &Pred, x: &Self) -> bool {
        match p {
            Pred::True => true,
            Pred::False => false,
            Pred::Fst(q) => eval_z(q, x.ones),
            Pred::Snd(q) => eval_z(q, x.len),
            _ => false,
        }
    }
}


// ---------------------------------------------------------------- more Combinators
/// both components non-commutative and lazy; the second component holds the rotated string (a->b->c->a)
type CCat = Combinator<Concat, Concat>;
fn rot(s: &str) -> String {
    s.chars()
        .map(|c| match c {
            'a' => 'b',
            'b' => 'c',
            'c' => 'a',
            o => o,
        })
        .collect()
}
impl Kind for CCat {
    type M = CMod;
    fn item(t: &mut Toks) -> Self {
        let s = t.string();
        let r = rot(&s);
        Combinator(Concat { parts: vec![s], tag: None }, Concat { parts: vec![r], tag: None })
    }
    fn modifier(t: &mut Toks) -> CMod {
        <Concat as Kind>::modifier(t)
    }
    fn enc(&self) -> String {
        format!("{},{}", self.0.enc(), self.1.enc())
    }
    fn eval(p: &Pred, x: &Self) -> bool {
        match p {
            Pred::True => true,
            Pred::False => false,
            Pred::Fst(q) => <Concat as Kind>::eval(q, &x.0),
            Pred::Snd(q) => <Concat as Kind>::eval(q, &x.1),
            _ => false,
        }
    }
}
/// right-nested, modifier type (), built with From
type CU = Combinator<Min<i64>, Combinator<Max<i64>, Sum<i64>>>;
impl Kind for CU {
    type M = ();
    fn item(t: &mut Toks) -> Self {
        let v: i64 = t.int();
        CU::from(v)
    }
    fn modifier(t: &mut Toks) -> () {
        let _: i64 = t.int();
    }
    fn enc(&self) -> String {
        format!("{},{},{}", self.0.v, (self.1).0.v, (self.1).1.v)
    }
    fn eval(p: &Pred, x: &Self) -> bool {
        match p {
            Pred::True => true,
            Pred::False => false,
            Pred::Fst(q) => eval_z(q, x.0.v),
            Pred::Snd(q) => match &**q {
                Pred::True => true,
                Pred::False => false,
                Pred::Fst(r) => eval_z(r, (x.1).0.v),
                Pred::Snd(r) => eval_z(r, (x.1).1.v),
                _ => false,
            },
            _ => false,
        }
    }
}
/// a lazy and a non-lazy component under the modifier type (): the flips reach the first component only
type CFl = Combinator<Flip, Sum<i64>>;
impl Kind for CFl {
    type M = ();
    fn item(t: &mut Toks) -> Self {
        let (b, fl) = t.int_md();
        Combinator(Flip { ones: b, len: 1, flip: fl != 0 }, Sum::from(b))
    }
    fn modifier(t: &mut Toks) -> () {
        let _: i64 = t.int();
    }
    fn enc(&self) -> String {
        format!("{},{}", self.0.enc(), self.1.v)
    }
    fn eval(p: &Pred, x: &Self) -> bool {
        match p {
            Pred::True => true,
            Pred::False => false,
            Pred::Fst(q) => <Flip as Kind>::eval(q, &x.0),
            Pred::Snd(q) => eval_z(q, x.1.v),
            _ => false,
        }
    }
}

// ---------------------------------------------------------------- every built-in item over every primitive number type
/// What the width kinds need from a primitive element type.  The bounds are those the built-in items ask for
/// (`MinMax` for the Default of Min / Max / MinAdd / MaxAdd, `ZeroOne` for the leaf length of SumAdd): the impls
/// come from the sibling crate rlib_num_traits, selected by the type.  `STD_*` are what std says the constants
/// are - never taken from rlib_num_traits.
trait Prim:
    Copy
    + Debug
    + Default
    + PartialOrd
    + std::ops::Add<Output = Self>
    + std::ops::Mul<Output = Self>
    + std::ops::AddAssign
    + MinMax
    + ZeroOne
{
    const STD_MIN: Self;
    const STD_MAX: Self;
    const STD_ZERO: Self;
    const STD_ONE: Self;
    /// FromStr of the type itself (a token that does not fit the type is a harness error)
    fn parse(s: &str) -> Self;
    /// the value as an integer; `X` for a float that is not a small integral value
    fn show(self) -> String;
    /// for the thresholds of the predicates (saturating: only u128 above i128::MAX and huge floats saturate)
    fn to_i128(self) -> i128;
    /// same bits
    fn same(self, o: Self) -> bool;
}
macro_rules! prim_int {
    ($($t:ty),*) => {$(
        impl Prim for $t {
            const STD_MIN: $t = <$t>::MIN;
            const STD_MAX: $t = <$t>::MAX;
            const STD_ZERO: $t = 0;
            const STD_ONE: $t = 1;
            fn parse(s: &str) -> $t { vh::p(s) }
            fn show(self) -> String { format!("{}", self) }
            fn to_i128(self) -> i128 { i128::try_from(self).unwrap_or(i128::MAX) }
            fn same(self, o: $t) -> bool { self == o }
        }
    )*};
}
macro_rules! prim_float {
    ($($t:ty),*) => {$(
        impl Prim for $t {
            const STD_MIN: $t = <$t>::MIN;
            const STD_MAX: $t = <$t>::MAX;
            const STD_ZERO: $t = 0.0;
            const STD_ONE: $t = 1.0;
            fn parse(s: &str) -> $t { vh::p(s) }
            fn show(self) -> String {
                if self.fract() == 0.0 && self.abs() < 1.0e15 { format!("{}", self as i128) } else { "X".to_string() }
            }
            fn to_i128(self) -> i128 { self as i128 }
            fn same(self, o: $t) -> bool { self.to_bits() == o.to_bits() }
        }
    )*};
}
/// the instantiation table: `$f::<type>(a, b)` for the type named by `$name`
macro_rules! for_prim {
    ($name:expr, $f:ident, $a:expr, $b:expr; $($t:ident),*) => {
        match $name {
            $(stringify!($t) => $f::<$t>($a, $b),)*
            other => {
                eprintln!("harness: unknown primitive type {}", other);
                std::process::exit(3)
            }
        }
    };
}
prim_int!(i8, i16, i32, i64, i128, isize, u8, u16, u32, u64, u128, usize);
prim_float!(f32, f64);

fn differs<W: Prim>(out: &mut Vec<String>, what: &str, got: W, want: W) {
    if !got.same(want) {
        out.push(format!("{} {} = {:?}, std says {:?}", std::any::type_name::<W>(), what, got, want));
    }
}
/// The constants of the element type, as the items see them (through the traits of rlib_num_traits); each item
/// reports those of the traits it asks for: MinMax (Min, Max, MinAdd, MaxAdd), ZeroOne (SumAdd), Default (all
/// but Min / Max).
fn mm_consts<W: Prim>(out: &mut Vec<String>) {
    differs(out, "MinMax::MIN", <W as MinMax>::MIN, W::STD_MIN);
    differs(out, "MinMax::MAX", <W as MinMax>::MAX, W::STD_MAX);
}
fn zo_consts<W: Prim>(out: &mut Vec<String>) {
    differs(out, "ZeroOne::ZERO", <W as ZeroOne>::ZERO, W::STD_ZERO);
    differs(out, "ZeroOne::ONE", <W as ZeroOne>::ONE, W::STD_ONE);
}
fn dflt_const<W: Prim>(out: &mut Vec<String>) {
    differs(out, "Default::default()", W::default(), W::STD_ZERO);
}

/// Codec of the built-in item `I` over a primitive type, tokens and encodings exactly those of the i64 kind
/// of the same name: the same history prints the same observation line whatever the width.
struct Wd<I>(PhantomData<I>);
/// `new` / `From` by the parity of the token's position in the line
fn by_new(t: &Toks) -> bool {
    t.i & 1 == 0
}
fn fields<W: Prim>(t: &mut Toks) -> (W, W, Option<W>) {
    let f: Vec<&str> = t.next().split(':').collect();
    match f.len() {
        1 => (W::parse(f[0]), W::STD_ZERO, None),
        2 => (W::parse(f[0]), W::parse(f[1]), None),
        _ => (W::parse(f[0]), W::parse(f[1]), Some(W::parse(f[2]))),
    }
}
fn eval_w<W: Prim>(p: &Pred, v: W) -> bool {
    eval_z(p, v.to_i128())
}
macro_rules! unit_width_kind {
    ($item:ident, $dflt:ident, $consts:ident) => {
        impl<W: Prim> Codec for Wd<$item<W>> {
            type M = ();
            type T = $item<W>;
            fn item(t: &mut Toks) -> Self::T {
                let v = W::parse(t.next());
                if by_new(t) {
                    $item::new(v)
                } else {
                    $item::from(v)
                }
            }
            fn modifier(t: &mut Toks) -> () {
                t.next();
            }
            fn enc(x: &Self::T) -> String {
                x.v.show()
            }
            fn eval(p: &Pred, x: &Self::T) -> bool {
                eval_w(p, x.v)
            }
            fn consts() -> Vec<String> {
                let mut out = Vec::new();
                $consts::<W>(&mut out);
                differs(&mut out, concat!(stringify!($item), "::default().v"), <$item<W>>::default().v, W::$dflt);
                differs(&mut out, concat!(stringify!($item), "::new(1).v"), <$item<W>>::new(W::STD_ONE).v, W::STD_ONE);
                differs(&mut out, concat!(stringify!($item), "::from(1).v"), <$item<W>>::from(W::STD_ONE).v, W::STD_ONE);
                out
            }
        }
    };
}
unit_width_kind!(Min, STD_MAX, mm_consts);
unit_width_kind!(Max, STD_MIN, mm_consts);
unit_width_kind!(Sum, STD_ZERO, dflt_const);
macro_rules! add_width_kind {
    ($item:ident, $dflt:ident) => {
        impl<W: Prim> Codec for Wd<$item<W>> {
            type M = W;
            type T = $item<W>;
            fn item(t: &mut Toks) -> Self::T {
                let (v, md, _) = fields::<W>(t);
                let mut x = if by_new(t) { $item::new(v) } else { $item::from(v) };
                x.md = md;
                x
            }
            fn modifier(t: &mut Toks) -> W {
                W::parse(t.next())
            }
            fn enc(x: &Self::T) -> String {
                format!("{},{}", x.v.show(), x.md.show())
            }
            fn eval(p: &Pred, x: &Self::T) -> bool {
                eval_w(p, x.v)
            }
            fn consts() -> Vec<String> {
                let mut out = Vec::new();
                mm_consts::<W>(&mut out);
                dflt_const::<W>(&mut out);
                let d = <$item<W>>::default();
                differs(&mut out, concat!(stringify!($item), "::default().v"), d.v, W::$dflt);
                differs(&mut out, concat!(stringify!($item), "::default().md"), d.md, W::STD_ZERO);
                for (how, x) in [("new", <$item<W>>::new(W::STD_ONE)), ("from", <$item<W>>::from(W::STD_ONE))] {
                    differs(&mut out, &format!("{}::{}(1).v", stringify!($item), how), x.v, W::STD_ONE);
                    differs(&mut out, &format!("{}::{}(1).md", stringify!($item), how), x.md, W::STD_ZERO);
                }
                out
            }
        }
    };
}
add_width_kind!(MinAdd, STD_MAX);
add_width_kind!(MaxAdd, STD_MIN);
impl<W: Prim> Codec for Wd<SumAdd<W>> {
    type M = W;
    type T = SumAdd<W>;
    fn item(t: &mut Toks) -> Self::T {
        let (v, md, len) = fields::<W>(t);
        let mut x = if by_new(t) { SumAdd::new(v) } else { SumAdd::from(v) };
        x.md = md;
        if let Some(l) = len {
            x.len = l;
        }
        x
    }
    fn modifier(t: &mut Toks) -> W {
        W::parse(t.next())
    }
    fn enc(x: &Self::T) -> String {
        format!("{},{},{}", x.v.show(), x.len.show(), x.md.show())
    }
    fn eval(p: &Pred, x: &Self::T) -> bool {
        match p {
            Pred::True => true,
            Pred::False => false,
            Pred::Fst(q) => eval_w(q, x.v),
            Pred::Snd(q) => eval_w(q, x.len),
            _ => false,
        }
    }
    fn consts() -> Vec<String> {
        let mut out = Vec::new();
        zo_consts::<W>(&mut out);
        dflt_const::<W>(&mut out);
        let d = <SumAdd<W>>::default();
        differs(&mut out, "SumAdd::default().v", d.v, W::STD_ZERO);
        differs(&mut out, "SumAdd::default().len", d.len, W::STD_ZERO);
        differs(&mut out, "SumAdd::default().md", d.md, W::STD_ZERO);
        for (how, x) in [("new", <SumAdd<W>>::new(W::STD_ONE)), ("from", <SumAdd<W>>::from(W::STD_ONE))] {
            differs(&mut out, &format!("SumAdd::{}(1).v", how), x.v, W::STD_ONE);
            differs(&mut out, &format!("SumAdd::{}(1).len (the length of a fresh leaf)", how), x.len, W::STD_ONE);
            differs(&mut out, &format!("SumAdd::{}(1).md", how), x.md, W::STD_ZERO);
        }
        out
    }
}
type WC2<W> = Combinator<MinAdd<W>, MaxAdd<W>>;
type WC3<W> = Combinator<WC2<W>, SumAdd<W>>;
type WCU<W> = Combinator<Min<W>, Combinator<Max<W>, Sum<W>>>;
/// Default of a Combinator = the Defaults of its components (compared through the encodings and, because the
/// encoding of a huge float is `X`, through the Debug rendering)
fn comb_default<A: Codec, B: Codec>(out: &mut Vec<String>)
where
    Combinator<A::T, B::T>: Default,
{
    let d = <Combinator<A::T, B::T>>::default();
    let (a, b) = (A::T::default(), B::T::default());
    if A::enc(&d.0) != A::enc(&a) || B::enc(&d.1) != B::enc(&b) || format!("{:?}", d) != format!("Combinator({:?}, {:?})", a, b) {
        out.push(format!("Combinator::default() = {:?}, the components' defaults are {:?}, {:?}", d, a, b));
    }
}
impl<W: Prim> Codec for Wd<WC2<W>> {
    type M = W;
    type T = WC2<W>;
    fn item(t: &mut Toks) -> Self::T {
        let (v, md, _) = fields::<W>(t);
        let mut x = <WC2<W>>::from(v);
        x.0.md = md;
        x.1.md = md;
        x
    }
    fn modifier(t: &mut Toks) -> W {
        W::parse(t.next())
    }
    fn enc(x: &Self::T) -> String {
        format!("{},{}", <Wd<MinAdd<W>>>::enc(&x.0), <Wd<MaxAdd<W>>>::enc(&x.1))
    }
    fn eval(p: &Pred, x: &Self::T) -> bool {
        match p {
            Pred::True => true,
            Pred::False => false,
            Pred::Fst(q) => <Wd<MinAdd<W>>>::eval(q, &x.0),
            Pred::Snd(q) => <Wd<MaxAdd<W>>>::eval(q, &x.1),
            _ => false,
        }
    }
    fn consts() -> Vec<String> {
        let mut out = <Wd<MinAdd<W>>>::consts();
        out.extend(<Wd<MaxAdd<W>>>::consts());
        comb_default::<Wd<MinAdd<W>>, Wd<MaxAdd<W>>>(&mut out);
        out
    }
}
impl<W: Prim> Codec for Wd<WC3<W>> {
    type M = W;
    type T = WC3<W>;
    fn item(t: &mut Toks) -> Self::T {
        let (v, md, len) = fields::<W>(t);
        let mut x = <WC3<W>>::from(v);
        (x.0).0.md = md;
        (x.0).1.md = md;
        x.1.md = md;
        if let Some(l) = len {
            x.1.len = l;
        }
        x
    }
    fn modifier(t: &mut Toks) -> W {
        W::parse(t.next())
    }
    fn enc(x: &Self::T) -> String {
        format!("{},{}", <Wd<WC2<W>>>::enc(&x.0), <Wd<SumAdd<W>>>::enc(&x.1))
    }
    fn eval(p: &Pred, x: &Self::T) -> bool {
        match p {
            Pred::True => true,
            Pred::False => false,
            Pred::Fst(q) => <Wd<WC2<W>>>::eval(q, &x.0),
            Pred::Snd(q) => <Wd<SumAdd<W>>>::eval(q, &x.1),
            _ => false,
        }
    }
    fn consts() -> Vec<String> {
        let mut out = <Wd<WC2<W>>>::consts();
        out.extend(<Wd<SumAdd<W>>>::consts());
        comb_default::<Wd<WC2<W>>, Wd<SumAdd<W>>>(&mut out);
        out
    }
}
/// right-nested, modifier type (), built with From
struct WMaxSum<W>(PhantomData<W>);
impl<W: Prim> Codec for WMaxSum<W> {
    type M = ();
    type T = Combinator<Max<W>, Sum<W>>;
    fn item(t: &mut Toks) -> Self::T {
        <Self::T>::from(W::parse(t.next()))
    }
    fn modifier(t: &mut Toks) -> () {
        t.next();
    }
    fn enc(x: &Self::T) -> String {
        format!("{},{}", x.0.v.show(), x.1.v.show())
    }
    fn eval(p: &Pred, x: &Self::T) -> bool {
        match p {
            Pred::True => true,
            Pred::False => false,
            Pred::Fst(r) => eval_w(r, x.0.v),
            Pred::Snd(r) => eval_w(r, x.1.v),
            _ => false,
        }
    }
    fn consts() -> Vec<String> {
        let mut out = <Wd<Max<W>>>::consts();
        out.extend(<Wd<Sum<W>>>::consts());
        comb_default::<Wd<Max<W>>, Wd<Sum<W>>>(&mut out);
        out
    }
}
impl<W: Prim> Codec for Wd<WCU<W>> {
    type M = ();
    type T = WCU<W>;
    fn item(t: &mut Toks) -> Self::T {
        <WCU<W>>::from(W::parse(t.next()))
    }
    fn modifier(t: &mut Toks) -> () {
        t.next();
    }
    fn enc(x: &Self::T) -> String {
        format!("{},{}", x.0.v.show(), <WMaxSum<W>>::enc(&x.1))
    }
    fn eval(p: &Pred, x: &Self::T) -> bool {
        match p {
            Pred::True => true,
            Pred::False => false,
            Pred::Fst(q) => eval_w(q, x.0.v),
            Pred::Snd(q) => <WMaxSum<W>>::eval(q, &x.1),
            _ => false,
        }
    }
    fn consts() -> Vec<String> {
        let mut out = <Wd<Min<W>>>::consts();
        out.extend(<WMaxSum<W>>::consts());
        comb_default::<Wd<Min<W>>, WMaxSum<W>>(&mut out);
        out
    }
}
/// `w.<type>.<kind>`: the built-in item `<kind>` (named like the i64 kinds) over the primitive `<type>`
fn run_width<W: Prim>(kind: &str, t: &mut Toks) -> String {
    match kind {
        "min" => run::<Wd<Min<W>>>(t),
        "max" => run::<Wd<Max<W>>>(t),
        "sum" => run::<Wd<Sum<W>>>(t),
        "minadd" => run::<Wd<MinAdd<W>>>(t),
        "maxadd" => run::<Wd<MaxAdd<W>>>(t),
        "sumadd" => run::<Wd<SumAdd<W>>>(t),
        "comb2" => run::<Wd<WC2<W>>>(t),
        "comb3" => run::<Wd<WC3<W>>>(t),
        "combunit" => run::<Wd<WCU<W>>>(t),
        other => {
            eprintln!("harness: unknown width kind {}", other);
            std::process::exit(3)
        }
    }
}

// ---------------------------------------------------------------- a sum whose merge refuses to overflow
/// `cksum`: a user item with the observable behaviour of `Sum<i64>` (same tokens, same encoding, same Debug
/// rendering) whose merge panics instead of overflowing, in every build profile.  A query over a range some
/// contiguous part of which does not fit i64 may panic (caught by the runner, printed `p`); the tree must go on
/// answering like the plain array afterwards (the plugin takes the refused queries out of the history).
#[derive(Clone, Default)]
struct CkSum {
    v: i64,
}
impl Debug for CkSum {
    fn fmt(&self, f: &mut std::fmt::Formatter<'_>) -> std::fmt::Result {
        write!(f, "Sum {{ v: {} }}", self.v)
    }
}
impl SegtreeItem for CkSum {
    fn merge(left: &Self, right: &Self) -> Self {
        CkSum { v: left.v.checked_add(right.v).expect("CkSum overflow") }
    }
}
impl Kind for CkSum {
    type M = ();
    fn item(t: &mut Toks) -> Self {
        CkSum { v: t.int() }
    }
    fn modifier(t: &mut Toks) -> () {
        let _: i64 = t.int();
    }
    fn enc(&self) -> String {
        format!("{}", self.v)
    }
    fn eval(p: &Pred, x: &Self) -> bool {
        eval_z(p, x.v)
    }
}

// ---------------------------------------------------------------- Combinator<MinAdd / MaxAdd, user item> side by side
/// `Raise`: a lawful user item over the modifier type of MinAdd / MaxAdd (i64): merge = max, modify m: v = max(v, m),
/// pending modifiers composed by max - they do NOT cancel when the adds of the other half do (+5 then -5, 0).
#[derive(Clone, Debug)]
struct Raise {
    v: i64,
    pend: Option<i64>,
}
impl Default for Raise {
    fn default() -> Self {
        Raise { v: i64::MIN, pend: None }
    }
}
impl SegtreeItem<i64> for Raise {
    fn merge(left: &Self, right: &Self) -> Self {
        Raise { v: left.v.max(right.v), pend: None }
    }
    fn modify(&mut self, m: &i64) {
        self.v = self.v.max(*m);
        self.pend = Some(self.pend.map_or(*m, |p| p.max(*m)));
    }
    fn push(&mut self, left: &mut Self, right: &mut Self) {
        if let Some(p) = self.pend.take() {
            left.modify(&p);
            right.modify(&p);
        }
    }
}
/// One half of a pair: built from the item token `v` / `v:md`, shown by its VALUE (what the plain array holds;
/// the pending tag of an inner node returned by an exact-node query is the tree's own business).
trait Half: SegtreeItem<i64> + Clone + Default + Debug {
    fn mk(v: i64, md: i64) -> Self;
    fn val(&self) -> String;
}
impl Half for MinAdd<i64> {
    fn mk(v: i64, md: i64) -> Self {
        let mut x = MinAdd::new(v);
        x.md = md;
        x
    }
    fn val(&self) -> String {
        format!("{}", self.v)
    }
}
impl Half for MaxAdd<i64> {
    fn mk(v: i64, md: i64) -> Self {
        let mut x = MaxAdd::new(v);
        x.md = md;
        x
    }
    fn val(&self) -> String {
        format!("{}", self.v)
    }
}
impl Half for Raise {
    fn mk(v: i64, md: i64) -> Self {
        // another value than the add halves hold; a tagged input item carries a pending raise of its own
        Raise { v: v / 2 - 1, pend: if md != 0 { Some(md) } else { None } }
    }
    fn val(&self) -> String {
        format!("{}", self.v)
    }
}
impl<A: Half, B: Half> Half for Combinator<A, B> {
    fn mk(v: i64, md: i64) -> Self {
        Combinator(A::mk(v, md), B::mk(v, md))
    }
    fn val(&self) -> String {
        format!("{}|{}", self.0.val(), self.1.val())
    }
}
/// The plain array of the property text, for any item type: modify = `T::modify` on every element of the range,
/// query = left-to-right fold of `T::merge`.
fn plain_ask<T: Half>(a: &[T], l: usize, r: usize) -> T {
    let mut acc = a[l].clone();
    for x in &a[l + 1..=r] {
        acc = T::merge(&acc, x);
    }
    acc
}
/// `craise` (A = MinAdd, B = Raise) and `craise3` (A = MaxAdd, B = Combinator<MinAdd, Raise>): the history runs on
/// Segtree<Combinator<A, B>>, on Segtree<A> and Segtree<B> side by side and on a plain array.  The observation is that
/// of the FIRST half alone (all fields: the same line the kind minadd / maxadd prints, hence checked against the Coq
/// model of that item); every answer is also compared by value with the two separate trees and the plain array: a
/// difference prints the failure token `X ...` (an observation no model value equals and no specification accepts).
fn run_pair<A: Half, B: Half>(t: &mut Toks, enc: fn(&A) -> String) -> String {
    type P<A, B> = Combinator<A, B>;
    let mut tp: Option<Segtree<P<A, B>, i64>> = None;
    let mut ta: Option<Segtree<A, i64>> = None;
    let mut tb: Option<Segtree<B, i64>> = None;
    let mut plain: Vec<P<A, B>> = Vec::new();
    let mut out: Vec<String> = Vec::new();
    let rd = |t: &mut Toks| -> P<A, B> {
        let (v, md) = t.int_md();
        <P<A, B>>::mk(v, md)
    };
    while !t.done() {
        let op = t.next();
        let chunk: String = match op {
            "new" | "slice" | "iter" => {
                let xs: Vec<P<A, B>> = if op == "new" {
                    let n: usize = t.int();
                    let v = rd(t);
                    vec![v; n]
                } else {
                    let k: usize = t.int();
                    (0..k).map(|_| rd(t)).collect()
                };
                let n = xs.len();
                let uniform = op == "new";
                let r = vh::guarded(|| {
                    let p = if uniform { Segtree::new(n, xs[0].clone()) } else if op == "slice" { Segtree::from_slice(&xs) } else { Segtree::from_iter(xs.iter().cloned()) };
                    let a: Segtree<A, i64> = Segtree::from_iter(xs.iter().map(|x| x.0.clone()));
                    let b: Segtree<B, i64> = Segtree::from_iter(xs.iter().map(|x| x.1.clone()));
                    (p, a, b)
                });
                match r {
                    Some((p, a, b)) if n > 0 => {
                        tp = Some(p);
                        ta = Some(a);
                        tb = Some(b);
                        plain = xs;
                        "u".to_string()
                    }
                    _ => "p".to_string(),
                }
            }
            "set" => {
                let i: usize = t.int();
                let v = rd(t);
                match (tp.as_mut(), ta.as_mut(), tb.as_mut()) {
                    (Some(p), Some(a), Some(b)) => {
                        let ok = vh::guarded(|| p.set(i, v.clone())).is_some();
                        if ok {
                            a.set(i, v.0.clone());
                            b.set(i, v.1.clone());
                            plain[i] = v;
                            "u".to_string()
                        } else {
                            "p".to_string()
                        }
                    }
                    _ => "p".to_string(),
                }
            }
            "mod" => {
                let l: usize = t.int();
                let r: usize = t.int();
                let m: i64 = t.int();
                match (tp.as_mut(), ta.as_mut(), tb.as_mut()) {
                    (Some(p), Some(a), Some(b)) => {
                        let ok = vh::guarded(|| p.modify(l, r, &m)).is_some();
                        if ok {
                            a.modify(l, r, &m);
                            b.modify(l, r, &m);
                            for x in &mut plain[l..=r] {
                                x.modify(&m);
                            }
                            "u".to_string()
                        } else {
                            "p".to_string()
                        }
                    }
                    _ => "p".to_string(),
                }
            }
            "ask" => {
                let l: usize = t.int();
                let r: usize = t.int();
                match (tp.as_mut(), ta.as_mut(), tb.as_mut()) {
                    (Some(p), Some(a), Some(b)) => match vh::guarded(|| p.ask(l, r)) {
                        None => "p".to_string(),
                        Some(x) => {
                            let side = format!("{}|{}", a.ask(l, r).val(), b.ask(l, r).val());
                            let arr = plain_ask(&plain, l, r).val();
                            if x.val() != side || x.val() != arr {
                                format!("X pair={} side-by-side={} plain-array={}", x.val(), side, arr)
                            } else {
                                format!("i {}", enc(&x.0))
                            }
                        }
                    },
                    _ => "p".to_string(),
                }
            }
            other => {
                eprintln!("harness: unknown op {} for a pair kind", other);
                std::process::exit(3)
            }
        };
        out.push(chunk);
    }
    out.join("\t")
}

// ---------------------------------------------------------------- the history runner
/// How the tokens of a history are turned into items of one item type and back.  The hand-written kinds
/// implement `Kind` on the item type itself (`Own<T>` adapts them); the width kinds (`Wd<..>`, every built-in
/// item over every primitive number type) are codecs of their own, so that e.g. the shifted `Min<u64>` above
/// and the plain `Min<u64>` of the width family can coexist.
trait Codec {
    type M: Debug;
    type T: Clone + Default + Debug + SegtreeItem<Self::M>;
    fn item(t: &mut Toks) -> Self::T;
    fn modifier(t: &mut Toks) -> Self::M;
    fn enc(x: &Self::T) -> String;
    fn eval(p: &Pred, x: &Self::T) -> bool;
    /// constants the item type takes from a sibling crate that are not what std says (checked at every `dbg`)
    fn consts() -> Vec<String> {
        Vec::new()
    }
}
struct Own<T>(PhantomData<T>);
impl<T> Codec for Own<T>
where
    T: Kind + SegtreeItem<<T as Kind>::M>,
{
    type M = <T as Kind>::M;
    type T = T;
    fn item(t: &mut Toks) -> T {
        <T as Kind>::item(t)
    }
    fn modifier(t: &mut Toks) -> Self::M {
        <T as Kind>::modifier(t)
    }
    fn enc(x: &T) -> String {
        <T as Kind>::enc(x)
    }
    fn eval(p: &Pred, x: &T) -> bool {
        <T as Kind>::eval(p, x)
    }
}

fn items<C: Codec>(t: &mut Toks) -> Vec<C::T> {
    let k: usize = t.int();
    (0..k).map(|_| C::item(t)).collect()
}

/// After debug() every inner node has been pushed, so further queries change nothing.  Every range is
/// asked again and compared (all fields) with the left-to-right fold of `T::merge` over the single-element
/// answers: the values stored in inner nodes (written by `update`) must agree with query-time `merge`.
fn fold_check<C: Codec>(s: &mut Segtree<C::T, C::M>, n: usize) -> Option<String> {
    let leaves: Vec<C::T> = (0..n).map(|i| s.ask(i, i)).collect();
    let step = if n <= 48 { 1 } else { n / 24 };
    let mut l = 0;
    while l < n {
        let mut acc = leaves[l].clone();
        for r in l..n {
            if r > l {
                acc = <C::T as SegtreeItem<C::M>>::merge(&acc, &leaves[r]);
            }
            if step == 1 || r % step == step - 1 || r == n - 1 || r == l {
                let got = s.ask(l, r);
                if C::enc(&got) != C::enc(&acc) {
                    return Some(format!("FOLD-MISMATCH {} {} ask={} fold={}", l, r, C::enc(&got), C::enc(&acc)));
                }
            }
        }
        l += step;
    }
    None
}

fn run<C: Codec>(t: &mut Toks) -> String {
    let mut tree: Option<Segtree<C::T, C::M>> = None;
    let mut size: usize = 0;
    let mut out: Vec<String> = Vec::new();
    while !t.done() {
        let op = t.next();
        let chunk: Option<String> = match op {
            "new" => {
                let n: usize = t.int();
                let v = C::item(t);
                vh::guarded(|| Segtree::new(n, v)).map(|s| {
                    tree = Some(s);
                    size = n;
                    "u".to_string()
                })
            }
            "raw" => {
                let n: usize = t.int();
                let v = C::item(t);
                vh::guarded(|| Segtree::new_raw(n, v)).map(|s| {
                    tree = Some(s);
                    size = n;
                    "u".to_string()
                })
            }
            "slice" => {
                let xs: Vec<C::T> = items::<C>(t);
                let k = xs.len();
                vh::guarded(|| Segtree::from_slice(&xs)).map(|s| {
                    tree = Some(s);
                    size = k;
                    "u".to_string()
                })
            }
            "iter" => {
                let xs: Vec<C::T> = items::<C>(t);
                let k = xs.len();
                vh::guarded(|| match k % 3 {
                    0 => Segtree::from_iter(xs.into_iter()),
                    1 => Segtree::from_iter(xs.iter().cloned().map(|x| x)),
                    _ => {
                        let mut ys = xs.clone();
                        ys.reverse();
                        Segtree::from_iter(ys.into_iter().rev())
                    }
                })
                .map(|s| {
                    tree = Some(s);
                    size = k;
                    "u".to_string()
                })
            }
            "set" => {
                let i: usize = t.int();
                let v = C::item(t);
                match tree.as_mut() {
                    None => None,
                    Some(s) => vh::guarded(|| s.set(i, v)).map(|_| "u".to_string()),
                }
            }
            "mod" => {
                let l: usize = t.int();
                let r: usize = t.int();
                let m = C::modifier(t);
                match tree.as_mut() {
                    None => None,
                    Some(s) => vh::guarded(|| s.modify(l, r, &m)).map(|_| "u".to_string()),
                }
            }
            "ask" => {
                let l: usize = t.int();
                let r: usize = t.int();
                match tree.as_mut() {
                    None => None,
                    Some(s) => vh::guarded(|| s.ask(l, r)).map(|x| format!("i {}", C::enc(&x))),
                }
            }
            "lb" | "lbr" | "lbp" | "lbrp" => {
                let fwd = op == "lb" || op == "lbp";
                let pos: usize = t.int();
                let kth: usize = if op == "lbp" || op == "lbrp" { t.int() } else { 0 };
                let p = t.pred();
                match tree.as_mut() {
                    None => None,
                    Some(s) => {
                        if kth > 0 {
                            // the predicate panics on its kth call; the panic is caught, the tree must stay usable
                            let calls = Cell::new(0usize);
                            let f1 = |x: &C::T| {
                                calls.set(calls.get() + 1);
                                if calls.get() == kth {
                                    panic!("predicate");
                                }
                                C::eval(&p, x)
                            };
                            let _ = vh::guarded(|| if fwd { s.lower_bound(pos, f1) } else { s.lower_bound_rev(pos, f1) });
                        }
                        let seen: RefCell<Vec<C::T>> = RefCell::new(Vec::new());
                        let f = |x: &C::T| {
                            seen.borrow_mut().push(x.clone());
                            C::eval(&p, x)
                        };
                        let res = vh::guarded(|| if fwd { s.lower_bound(pos, f) } else { s.lower_bound_rev(pos, f) });
                        res.map(|r| {
                            let mut c = match r {
                                Some(k) => format!("b {}", k),
                                None => "b -".to_string(),
                            };
                            for x in seen.borrow().iter() {
                                c.push(' ');
                                c.push_str(&C::enc(x));
                            }
                            c
                        })
                    }
                }
            }
            "dbg" => match tree.as_mut() {
                None => None,
                Some(s) => vh::guarded(|| {
                    let d = s.debug();
                    if let Some(bad) = C::consts().first() {
                        return format!("CONST-MISMATCH {}", bad);
                    }
                    match fold_check::<C>(s, size) {
                        None => d,
                        Some(bad) => bad,
                    }
                })
                .map(|d| format!("d {}", d)),
            },
            other => {
                eprintln!("harness: unknown op {}", other);
                std::process::exit(3)
            }
        };
        out.push(chunk.unwrap_or_else(|| "p".to_string()));
    }
    out.join("\t")
}

fn main() {
    vh::serve(|toks| {
        let mut t = Toks { t: toks, i: 1 };
        match toks[0] {
            "min" => run::<Own<Min<i64>>>(&mut t),
            "max" => run::<Own<Max<i64>>>(&mut t),
            "sum" => run::<Own<Sum<i64>>>(&mut t),
            "minadd" => run::<Own<MinAdd<i64>>>(&mut t),
            "maxadd" => run::<Own<MaxAdd<i64>>>(&mut t),
            "sumadd" => run::<Own<SumAdd<i64>>>(&mut t),
            "comb2" => run::<Own<C2>>(&mut t),
            "comb3" => run::<Own<C3>>(&mut t),
            "concat" => run::<Own<Concat>>(&mut t),
            "affine" => run::<Own<Affine>>(&mut t),
            "flip" => run::<Own<Flip>>(&mut t),
            "minadd32" => run::<Own<MinAdd<i32>>>(&mut t),
            "sumaddu64" => run::<Own<SumAdd<u64>>>(&mut t),
            "minu64" => run::<Own<Min<u64>>>(&mut t),
            "maxu64" => run::<Own<Max<u64>>>(&mut t),
            "minkey" => run::<Own<Min<Keyed>>>(&mut t),
            "maxkey" => run::<Own<Max<Keyed>>>(&mut t),
            "minaddkey" => run::<Own<MinAdd<Keyed>>>(&mut t),
            "maxaddkey" => run::<Own<MaxAdd<Keyed>>>(&mut t),
            "minf" => run::<Own<Min<f64>>>(&mut t),
            "maxf" => run::<Own<Max<f64>>>(&mut t),
            "sumcat" => run::<Own<Sum<Cat>>>(&mut t),
            "combcat" => run::<Own<CCat>>(&mut t),
            "combunit" => run::<Own<CU>>(&mut t),
            "combflip" => run::<Own<CFl>>(&mut t),
            "cksum" => run::<Own<CkSum>>(&mut t),
            "craise" => run_pair::<MinAdd<i64>, Raise>(&mut t, |x| <MinAdd<i64> as Kind>::enc(x)),
            "craise3" => run_pair::<MaxAdd<i64>, Combinator<MinAdd<i64>, Raise>>(&mut t, |x| <MaxAdd<i64> as Kind>::enc(x)),
            w if w.starts_with("w.") => {
                let mut parts = w.splitn(3, '.');
                let (_, ty, kind) = (parts.next(), parts.next().unwrap_or(""), parts.next().unwrap_or(""));
                for_prim!(ty, run_width, kind, &mut t; i8, i16, i32, i64, i128, isize, u8, u16, u32, u64, u128, usize, f32, f64)
            }
            other => {
                eprintln!("harness: unknown kind {}", other);
                std::process::exit(3)
            }
        }
    });
}
