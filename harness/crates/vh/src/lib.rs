//! Shared helpers for the executor binaries: line protocol and panic capture.
use std::io::{BufRead, Write};
use std::panic::{catch_unwind, AssertUnwindSafe};

/// Run `f` on every stdin line; one output line per input line.  A panic inside `f`
/// becomes the output line "P" (the models use `Panic`/`None` for the same event).
pub fn serve<F: FnMut(&[&str]) -> String>(mut f: F) {
    std::panic::set_hook(Box::new(|_| {}));
    let stdin = std::io::stdin();
    let stdout = std::io::stdout();
    let mut out = std::io::BufWriter::new(stdout.lock());
    for line in stdin.lock().lines() {
        let line = line.unwrap();
        let toks: Vec<&str> = line.split_whitespace().collect();
        if toks.is_empty() {
            continue;
        }
        let res = catch_unwind(AssertUnwindSafe(|| f(&toks)));
        match res {
            Ok(s) => writeln!(out, "{}", s).unwrap(),
            Err(_) => writeln!(out, "P").unwrap(),
        }
    }
    out.flush().unwrap();
}

/// catch a panic of one operation inside a longer history
pub fn guarded<T, F: FnOnce() -> T>(f: F) -> Option<T> {
    catch_unwind(AssertUnwindSafe(f)).ok()
}

pub fn p<T: std::str::FromStr>(s: &str) -> T
where
    T::Err: std::fmt::Debug,
{
    s.parse::<T>().unwrap_or_else(|e| {
        eprintln!("harness: cannot parse token {:?}: {:?}", s, e);
        std::process::exit(3)
    })
}

/// splitmix64, for executors that need their own random choices (never the repo's generator)
pub struct Sm(pub u64);
impl Sm {
    pub fn next(&mut self) -> u64 {
        self.0 = self.0.wrapping_add(0x9E3779B97F4A7C15);
        let mut z = self.0;
        z = (z ^ (z >> 30)).wrapping_mul(0xBF58476D1CE4E5B9);
        z = (z ^ (z >> 27)).wrapping_mul(0x94D049BB133111EB);
        z ^ (z >> 31)
    }
}
