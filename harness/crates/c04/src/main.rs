//! C04 executor.
//!
//! `H <op>*` : a history of calls on FFT<f64> objects.  Ops (lists are `len x1 .. xlen`):
//!   F                       drop the object, take FFT::new()
//!   U n                     update_n(n)
//!   M a b                   multiply(a, b)
//!   MI a b res              multiply_into(a, b, res)
//!   T v n                   fft(v, n)
//!   TI v n dest             fft_into(v, n, dest)   (dest: `len x1 y1 .. xlen ylen`, small integers), then fft(v, n);
//!                           prints `<dest bits> ; <plain bits>`
//!   V a b n res             fft(a, n), fft(b, n), pointwise product, fft_inv_into(prod, res)
//! Output: one field per op separated by ` | ` (integers in decimal, floats as u64 bit patterns,
//! `-` for F/U, `P` if the call panicked), then ` | W <bits>*`: the twiddle table of the largest
//! object of the history (hook verif_tables).
//!
//! `E ty la lb mx pattern seed samples` : envelope probe, multiply on a fresh FFT<ty> against the
//! exact i128 schoolbook convolution on sampled coefficients.  Patterns: 0 all +mx, 1 alternating
//! sign in a (b all +mx), 2 alternating sign in both, 3 random sign |coef| = mx, 4 random in [-mx, mx].
//! Output: `E wrong checked maxerr first_bad_index`.
use rlib_fft::{Complex, FFT};
use rlib_num_traits::Float;
use vh::{guarded, p, Sm};

struct Tok<'a> {
    t: &'a [&'a str],
    i: usize,
}
impl<'a> Tok<'a> {
    fn next(&mut self) -> &'a str {
        let s = self.t[self.i];
        self.i += 1;
        s
    }
    fn done(&self) -> bool {
        self.i >= self.t.len()
    }
    fn usize(&mut self) -> usize {
        p(self.next())
    }
    fn i32s(&mut self) -> Vec<i32> {
        let n = self.usize();
        (0..n).map(|_| p(self.next())).collect()
    }
    fn i64s(&mut self) -> Vec<i64> {
        let n = self.usize();
        (0..n).map(|_| p(self.next())).collect()
    }
    fn cplx(&mut self) -> Vec<Complex<f64>> {
        let n = self.usize();
        (0..n)
            .map(|_| {
                let x: i32 = p(self.next());
                let y: i32 = p(self.next());
                Complex::new(x as f64, y as f64)
            })
            .collect()
    }
}

fn ints(v: &[i64]) -> String {
    v.iter().map(|x| x.to_string()).collect::<Vec<_>>().join(" ")
}
fn bits(v: &[Complex<f64>]) -> String {
    v.iter().map(|c| format!("{} {}", c.x.to_bits(), c.y.to_bits())).collect::<Vec<_>>().join(" ")
}

fn history(t: &[&str]) -> String {
    let mut tk = Tok { t, i: 1 };
    let mut fft = FFT::<f64>::new();
    let mut best: Vec<Complex<f64>> = fft.verif_tables().0.to_vec();
    let mut out: Vec<String> = vec![];
    while !tk.done() {
        let op = tk.next();
        let r: Option<String> = match op {
            "F" => {
                fft = FFT::<f64>::new();
                Some("-".to_string())
            }
            // the other public way to get an object: the Default impl (must be indistinguishable from new())
            "D" => {
                fft = FFT::<f64>::default();
                Some("-".to_string())
            }
            "U" => {
                let n = tk.usize();
                guarded(|| fft.update_n(n)).map(|_| "-".to_string())
            }
            "M" => {
                let a = tk.i32s();
                let b = tk.i32s();
                guarded(|| fft.multiply(&a, &b)).map(|c| ints(&c))
            }
            "MI" => {
                let a = tk.i32s();
                let b = tk.i32s();
                let mut res = tk.i64s();
                guarded(|| fft.multiply_into(&a, &b, &mut res)).map(|_| ints(&res))
            }
            "T" => {
                let v = tk.i32s();
                let n = tk.usize();
                guarded(|| fft.fft(&v, n)).map(|c| bits(&c))
            }
            "TI" => {
                let v = tk.i32s();
                let n = tk.usize();
                let mut dest = tk.cplx();
                // then the plain transform of the same input on the same object (additive contract: dest + fft(v, n))
                guarded(|| {
                    fft.fft_into(&v, n, &mut dest);
                    fft.fft(&v, n)
                })
                .map(|plain| format!("{} ; {}", bits(&dest), bits(&plain)))
            }
            "V" => {
                let a = tk.i32s();
                let b = tk.i32s();
                let n = tk.usize();
                let mut res = tk.i64s();
                guarded(|| {
                    let fa = fft.fft(&a, n);
                    let fb = fft.fft(&b, n);
                    let prod = fa.into_iter().zip(fb).map(|(x, y)| x * y).collect::<Vec<_>>();
                    if res.len() == prod.len() && res.iter().all(|x| *x == 0) {
                        // an all-zero destination of full length: the allocating variant must give the same
                        res = fft.fft_inv(&prod);
                    } else {
                        fft.fft_inv_into(&prod, &mut res);
                    }
                })
                .map(|_| ints(&res))
            }
            other => {
                eprintln!("harness: unknown op {}", other);
                std::process::exit(3)
            }
        };
        out.push(r.unwrap_or_else(|| "P".to_string()));
        let w = fft.verif_tables().0;
        if w.len() > best.len() {
            best = w.to_vec();
        }
    }
    out.push(format!("W {}", bits(&best)));
    out.join(" | ")
}

fn exact_coef(a: &[i32], b: &[i32], k: usize) -> i128 {
    let lo = if k + 1 > b.len() { k + 1 - b.len() } else { 0 };
    let hi = k.min(a.len() - 1);
    let mut s: i128 = 0;
    for i in lo..=hi {
        s += (a[i] as i128) * (b[k - i] as i128);
    }
    s
}

fn envelope<F: Float>(t: &[&str]) -> String {
    let la: usize = p(t[2]);
    let lb: usize = p(t[3]);
    let mx: i32 = p(t[4]);
    let pat: u32 = p(t[5]);
    let seed: u64 = p(t[6]);
    let samples: usize = p(t[7]);
    // route 0: multiply; route 1: fft(a), fft(b), pointwise product, fft_inv (the property promises the same coefficients)
    let route: u32 = if t.len() > 8 { p(t[8]) } else { 0 };
    let mut rng = Sm(seed);
    let mut gen = |len: usize, which: u32| -> Vec<i32> {
        (0..len)
            .map(|i| match pat {
                0 => mx,
                1 => {
                    if which == 0 && i % 2 == 1 {
                        -mx
                    } else {
                        mx
                    }
                }
                2 => {
                    if i % 2 == 1 {
                        -mx
                    } else {
                        mx
                    }
                }
                3 => {
                    if rng.next() & 1 == 1 {
                        -mx
                    } else {
                        mx
                    }
                }
                _ => ((rng.next() % (2 * mx as u64 + 1)) as i64 - mx as i64) as i32,
            })
            .collect()
    };
    let a = gen(la, 0);
    let b = gen(lb, 1);
    let mut fft = FFT::<F>::new();
    let total = la + lb - 1;
    let c = if route == 1 {
        let n = total.next_power_of_two();
        let fa = fft.fft(&a, n);
        let fb = fft.fft(&b, n);
        let prod = fa.into_iter().zip(fb).map(|(x, y)| x * y).collect::<Vec<_>>();
        let mut r = fft.fft_inv(&prod);
        r.truncate(total);
        r
    } else {
        fft.multiply(&a, &b)
    };
    if c.len() != total {
        return format!("E {} {} -1 0", total, total);
    }
    let mut idx: Vec<usize> = vec![];
    if total <= samples {
        idx.extend(0..total);
    } else {
        idx.extend([0, total - 1, total / 2, la.min(lb) - 1, la.max(lb) - 1, la.min(lb).min(total - 1), 1.min(total - 1)]);
        while idx.len() < samples {
            idx.push((rng.next() % total as u64) as usize);
        }
    }
    let (mut wrong, mut maxerr, mut first) = (0usize, 0i128, -1i64);
    for &k in idx.iter() {
        let e = exact_coef(&a, &b, k);
        let d = (c[k] as i128 - e).abs();
        if d != 0 {
            wrong += 1;
            if first < 0 {
                first = k as i64;
            }
            maxerr = maxerr.max(d);
        }
    }
    format!("E {} {} {} {}", wrong, idx.len(), maxerr, first)
}

fn main() {
    vh::serve(|t| match t[0] {
        "H" => history(t),
        "E" => match t[1] {
            "f64" => envelope::<f64>(t),
            "f32" => envelope::<f32>(t),
            other => {
                eprintln!("harness: unknown float type {}", other);
                std::process::exit(3)
            }
        },
        other => {
            eprintln!("harness: unknown mode {}", other);
            std::process::exit(3)
        }
    });
}
