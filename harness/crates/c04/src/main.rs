//! C04 executor.
//!
//! `H <op>*` : a history of calls on FFT<f64> objects.  Ops (lists are `len x1 .. xlen`):
//!   F                       drop the object, take FFT::new()
//!   U n                     update_n(n)
//!   M a b                   multiply(a, b)
//!   MI a b res              multiply_into(a, b, res)
//!   T v n                   fft(v, n)
//!   TI v n dest             fft_into(v, n, dest)   (dest: `len x1 y1 .. xlen ylen`, small integers), then fft(v, n);
//!                           prints `<dest bits> ; <plain bits>`
//!   V a b n res             fft(a, n), fft(b, n), pointwise product, fft_inv_into(prod, res)
//!   V2 a b n res            the same with the user-side product written `fa[i] *= fb[i]` (MulAssign<Complex>)
//! The executor keeps TWO live objects: the current one (every op above runs on it) and a second one:
//!   SW                      exchange the two objects
//!   C                       second = current.clone()
//!   CF                      second.clone_from(&current)
//!   X a b n res             fft(a, n), fft(b, n) on the CURRENT object, pointwise product, fft_inv / fft_inv_into
//!                           on the SECOND object (which may be fresh, smaller than n, a clone, ...)
//!   X2 a b n res            the same with `*=`
//!   RS v n sh res           fft(v, n), the spectrum scaled by 2^-sh (exact), fft_inv (all-zero destination of full
//!                           length) / fft_inv_into: the write-out must give the integers nearest to v[j] / 2^sh
//!   RX v n sh res           the same with the inverse transform on the SECOND object
//! Aliased operands (one allocation `p`, both operands are sub-slices of it):
//!   MA p i0 i1 j0 j1        multiply(&p[i0..i1], &p[j0..j1])
//!   MIA p i0 i1 j0 j1 res   multiply_into(&p[i0..i1], &p[j0..j1], res)
//!   VA p i0 i1 j0 j1 n res  as V on the two sub-slices
//! Output: one field per op separated by ` | ` (integers in decimal, floats as u64 bit patterns,
//! `-` for F/U, `P` if the call panicked), then ` | W <bits>*`: the twiddle table of the largest
//! object of the history (hook verif_tables).
//!
//! `E ty la lb mx pattern seed samples route` : envelope probe on a fresh FFT<ty> against the
//! exact i128 schoolbook convolution on sampled coefficients AND against a modular evaluation of ALL
//! coefficients (a(x) b(x) = c(x) at three points modulo 2^61-1).  Patterns: 0 all +mx, 1 alternating
//! sign in a (b all +mx), 2 alternating sign in both, 3 random sign |coef| = mx, 4 random in [-mx, mx],
//! 5 a all -mx, b all +mx, 6 a uniform in [0, mx], b all -mx (5, 6: every coefficient of the product negative).
//! Routes: 0 multiply; 1 fft, fft, product, fft_inv; 2 multiply_into on a pseudo-random non-zero destination
//! of length tot / tot+3 / tot-1; 3 fft, fft on one object, product (`*=`), fft_inv_into on a non-zero
//! destination on a FRESH second object; 4 one object: multiply(big), multiply(prefixes of 1/8 length),
//! multiply(big) again, all three checked, the first and the third compared; 5 multiply on an object that
//! was first grown to twice the size needed (stride 2); 6 multiply on a clone of an object that did a
//! small product first.
//! Output: `E wrong checked maxerr first_bad_index modfail`.
//!
//! `TW ty k pre` : the plan tables of an object grown to 2^k (pre 0: one update_n; 1: update_n(2^(k/2)) first; 2: through a
//! product of that size): every w[i] against (cos, sin)(2 pi i / 2^k) computed in f64 with the argument reduced to the first
//! octant, the fixed points w[0] = w[2^k] = (1, 0), and `reversed` against the bit-reversal permutation (exact).
//! Output: `TW max_abs_deviation fixed_points_ok reversed_ok len_w len_reversed`.
//!
//! `PT ty` : prints the crate's published table `rlib_fft::precision`: `PT v1 .. v20 | row1 | .. | row20`.
//! `P ty ai bi lmode swap sign aback bback route pre seed samples` : probe of the published cell
//! (VALS[ai], VALS[bi]) -> L = CORRECT_<ty>_BOUNDS[ai][bi], READ FROM THE CRATE.  a in [A-aback ..= A] of length la,
//! b in [B-bback ..= B] of length lb, (la, lb) by lmode: 0 (L,L) 1 (L-1,L) 2 (L,L-1) 3 (L-2,L) 4 (L-1,L-1)
//! 5 (L/2+1, L/2+1); swap 1: the call is made with the operands exchanged; sign: 0 non-negative (the
//! table's claim), 1 alternating, 2 random, 3 all negative (a non-negative product), 4 a negated, b as
//! in the claim, 5 a as in the claim, b negated (4, 5: every coefficient negative, magnitudes as in the claim); route 0 multiply, 1 multiply_into on a non-zero
//! destination (length tot or tot+3), 2 fft, fft, product, fft_inv; pre 0 fresh object, 1 after a small
//! product, 2 after update_n(2n).
//! Output: `P L la lb wrong checked maxerr first_bad_index modfail`.
use rlib_fft::precision::{CORRECT_F32_BOUNDS, CORRECT_F64_BOUNDS, VALS_TO_CHECK};
use rlib_fft::{Complex, FFT};
use rlib_num_traits::Float;
use vh::{guarded, p, Sm};

struct Tok<'a> {
    t: &'a [&'a str],
    i: usize,
}
impl<'a> Tok<'a> {
    fn next(&mut self) -> &'a str {
        let s = self.t[self.i];
        self.i += 1;
        s
    }
    fn done(&self) -> bool {
        self.i >= self.t.len()
    }
    fn usize(&mut self) -> usize {
        p(self.next())
    }
    fn i32s(&mut self) -> Vec<i32> {
        let n = self.usize();
        (0..n).map(|_| p(self.next())).collect()
    }
    fn i64s(&mut self) -> Vec<i64> {
        let n = self.usize();
        (0..n).map(|_| p(self.next())).collect()
    }
    fn cplx(&mut self) -> Vec<Complex<f64>> {
        let n = self.usize();
        (0..n)
            .map(|_| {
                let x: i32 = p(self.next());
                let y: i32 = p(self.next());
                Complex::new(x as f64, y as f64)
            })
            .collect()
    }
}

fn ints(v: &[i64]) -> String {
    v.iter().map(|x| x.to_string()).collect::<Vec<_>>().join(" ")
}
fn bits(v: &[Complex<f64>]) -> String {
    v.iter().map(|c| format!("{} {}", c.x.to_bits(), c.y.to_bits())).collect::<Vec<_>>().join(" ")
}

fn history(t: &[&str]) -> String {
    let mut tk = Tok { t, i: 1 };
    let mut fft = FFT::<f64>::new();
    let mut aux = FFT::<f64>::new();
    let mut best: Vec<Complex<f64>> = fft.verif_tables().0.to_vec();
    let mut out: Vec<String> = vec![];
    while !tk.done() {
        let op = tk.next();
        let r: Option<String> = match op {
            "F" => {
                fft = FFT::<f64>::new();
                Some("-".to_string())
            }
            // the other public way to get an object: the Default impl (must be indistinguishable from new())
            "D" => {
                fft = FFT::<f64>::default();
                Some("-".to_string())
            }
            "U" => {
                let n = tk.usize();
                guarded(|| fft.update_n(n)).map(|_| "-".to_string())
            }
            "M" => {
                let a = tk.i32s();
                let b = tk.i32s();
                guarded(|| fft.multiply(&a, &b)).map(|c| ints(&c))
            }
            "MI" => {
                let a = tk.i32s();
                let b = tk.i32s();
                let mut res = tk.i64s();
                guarded(|| fft.multiply_into(&a, &b, &mut res)).map(|_| ints(&res))
            }
            "T" => {
                let v = tk.i32s();
                let n = tk.usize();
                guarded(|| fft.fft(&v, n)).map(|c| bits(&c))
            }
            "TI" => {
                let v = tk.i32s();
                let n = tk.usize();
                let mut dest = tk.cplx();
                // then the plain transform of the same input on the same object (additive contract: dest + fft(v, n))
                guarded(|| {
                    fft.fft_into(&v, n, &mut dest);
                    fft.fft(&v, n)
                })
                .map(|plain| format!("{} ; {}", bits(&dest), bits(&plain)))
            }
            "V" | "V2" | "VA" | "X" | "X2" => {
                let a: Vec<i32>;
                let b: Vec<i32>;
                let pool: Vec<i32>;
                let (sa, sb): (&[i32], &[i32]) = if op == "VA" {
                    pool = tk.i32s();
                    let (i0, i1, j0, j1) = (tk.usize(), tk.usize(), tk.usize(), tk.usize());
                    (&pool[i0..i1], &pool[j0..j1])
                } else {
                    a = tk.i32s();
                    b = tk.i32s();
                    (&a, &b)
                };
                let n = tk.usize();
                let mut res = tk.i64s();
                let assign = op == "V2" || op == "X2";
                let second = op == "X" || op == "X2";
                guarded(|| {
                    let mut fa = fft.fft(sa, n);
                    let fb = fft.fft(sb, n);
                    let prod = if assign {
                        for (x, y) in fa.iter_mut().zip(fb.iter()) {
                            *x *= *y;
                        }
                        fa
                    } else {
                        fa.into_iter().zip(fb).map(|(x, y)| x * y).collect::<Vec<_>>()
                    };
                    let inv = if second { &mut aux } else { &mut fft };
                    if res.len() == prod.len() && res.iter().all(|x| *x == 0) {
                        // an all-zero destination of full length: the allocating variant must give the same
                        res = inv.fft_inv(&prod);
                    } else {
                        inv.fft_inv_into(&prod, &mut res);
                    }
                })
                .map(|_| ints(&res))
            }
            // fft(v, n), every entry of the spectrum multiplied by 2^-sh (exact), fft_inv / fft_inv_into: the inverse
            // transform is handed the spectrum of the real sequence v[j] / 2^sh and must write out the NEAREST integers
            "RS" | "RX" => {
                let v = tk.i32s();
                let n = tk.usize();
                let sh = tk.usize();
                let mut res = tk.i64s();
                let second = op == "RX";
                guarded(|| {
                    let fv = fft.fft(&v, n);
                    let k = 1.0f64 / (1u64 << sh) as f64;
                    let spec = fv.iter().map(|c| Complex::new(c.x * k, c.y * k)).collect::<Vec<_>>();
                    let inv = if second { &mut aux } else { &mut fft };
                    if res.len() == spec.len() && res.iter().all(|x| *x == 0) {
                        res = inv.fft_inv(&spec);
                    } else {
                        inv.fft_inv_into(&spec, &mut res);
                    }
                })
                .map(|_| ints(&res))
            }
            "SW" => {
                std::mem::swap(&mut fft, &mut aux);
                Some("-".to_string())
            }
            "C" => guarded(|| aux = fft.clone()).map(|_| "-".to_string()),
            "CF" => guarded(|| aux.clone_from(&fft)).map(|_| "-".to_string()),
            "MA" => {
                let pool = tk.i32s();
                let (i0, i1, j0, j1) = (tk.usize(), tk.usize(), tk.usize(), tk.usize());
                guarded(|| fft.multiply(&pool[i0..i1], &pool[j0..j1])).map(|c| ints(&c))
            }
            "MIA" => {
                let pool = tk.i32s();
                let (i0, i1, j0, j1) = (tk.usize(), tk.usize(), tk.usize(), tk.usize());
                let mut res = tk.i64s();
                guarded(|| fft.multiply_into(&pool[i0..i1], &pool[j0..j1], &mut res)).map(|_| ints(&res))
            }
            other => {
                eprintln!("harness: unknown op {}", other);
                std::process::exit(3)
            }
        };
        out.push(r.unwrap_or_else(|| "P".to_string()));
        for o in [&fft, &aux] {
            let w = o.verif_tables().0;
            if w.len() > best.len() {
                best = w.to_vec();
            }
        }
    }
    out.push(format!("W {}", bits(&best)));
    out.join(" | ")
}

fn exact_coef(a: &[i32], b: &[i32], k: usize) -> i128 {
    let lo = if k + 1 > b.len() { k + 1 - b.len() } else { 0 };
    let hi = k.min(a.len() - 1);
    let mut s: i128 = 0;
    for i in lo..=hi {
        s += (a[i] as i128) * (b[k - i] as i128);
    }
    s
}

const MP: u128 = (1u128 << 61) - 1;
fn mred(x: i128) -> u128 {
    x.rem_euclid(MP as i128) as u128
}
/// value of the polynomial with coefficients `it` (lowest first) at `x`, modulo 2^61-1
fn meval<I: DoubleEndedIterator<Item = i128>>(it: I, x: u128) -> u128 {
    let mut r: u128 = 0;
    for v in it.rev() {
        r = (r * x + mred(v)) % MP;
    }
    r
}

/// `c` (after subtracting `base`, the previous contents of the destination) against the exact product:
/// sampled coefficients by i128 schoolbook, ALL coefficients by evaluation at three points modulo 2^61-1.
/// `c` may be longer than the product: the excess must equal `base` there (resp. 0).
/// Returns (wrong, checked, maxerr, first_bad, modfail).
fn check_product(a: &[i32], b: &[i32], c: &[i64], base: &[i64], samples: usize, rng: &mut Sm) -> (usize, usize, i128, i64, u32) {
    let (la, lb) = (a.len(), b.len());
    let total = la + lb - 1;
    let basev = |k: usize| -> i64 { if k < base.len() { base[k] } else { 0 } };
    let upto = total.min(c.len());
    let mut idx: Vec<usize> = vec![];
    if upto <= samples {
        idx.extend(0..upto);
    } else {
        idx.extend([0, upto - 1, upto / 2, la.min(lb) - 1, (la.max(lb) - 1).min(upto - 1), la.min(lb).min(upto - 1), 1.min(upto - 1)]);
        while idx.len() < samples {
            idx.push((rng.next() % upto as u64) as usize);
        }
    }
    // one operand constant: the exact product is a sliding-window sum, so EVERY coefficient is compared exactly
    if let Some(exact) = exact_if_constant(a, b) {
        idx.clear();
        idx.extend(0..upto);
        let (mut wrong, mut maxerr, mut first) = (0usize, 0i128, -1i64);
        for k in 0..c.len() {
            let e = if k < total { exact[k] } else { 0 };
            let d = (c[k] as i128 - basev(k) as i128 - e).abs();
            if d != 0 {
                wrong += 1;
                if first < 0 {
                    first = k as i64;
                }
                maxerr = maxerr.max(d);
            }
        }
        return (wrong, c.len(), maxerr, first, if wrong > 0 && c.len() >= total { 1 } else { 0 });
    }
    let (mut wrong, mut maxerr, mut first) = (0usize, 0i128, -1i64);
    for &k in idx.iter() {
        let e = exact_coef(a, b, k);
        let d = (c[k] as i128 - basev(k) as i128 - e).abs();
        if d != 0 {
            wrong += 1;
            if first < 0 {
                first = k as i64;
            }
            maxerr = maxerr.max(d);
        }
    }
    let mut checked = idx.len();
    // cells beyond the product keep their previous contents
    for k in total..c.len() {
        checked += 1;
        if c[k] != basev(k) {
            wrong += 1;
            if first < 0 {
                first = k as i64;
            }
            maxerr = maxerr.max((c[k] as i128 - basev(k) as i128).abs());
        }
    }
    let mut modfail = 0u32;
    if c.len() >= total {
        for _ in 0..3 {
            let x = (rng.next() as u128) % MP;
            let va = meval(a.iter().map(|&v| v as i128), x);
            let vb = meval(b.iter().map(|&v| v as i128), x);
            let vc = meval((0..total).map(|k| c[k] as i128 - basev(k) as i128), x);
            if (va * vb) % MP != vc {
                modfail = 1;
            }
        }
    }
    (wrong, checked, maxerr, first, modfail)
}

/// exact product when `a` or `b` is a constant vector: c[k] = const * (sum of the other operand over a window)
fn exact_if_constant(a: &[i32], b: &[i32]) -> Option<Vec<i128>> {
    let (cst, other) = if a.iter().all(|&x| x == a[0]) {
        (a, b)
    } else if b.iter().all(|&x| x == b[0]) {
        (b, a)
    } else {
        return None;
    };
    let (lc, lo) = (cst.len(), other.len());
    let v = cst[0] as i128;
    let mut out = Vec::with_capacity(lc + lo - 1);
    let mut s: i128 = 0;
    for k in 0..lc + lo - 1 {
        if k < lo {
            s += other[k] as i128;
        }
        if k >= lc {
            s -= other[k - lc] as i128;
        }
        out.push(v * s);
    }
    Some(out)
}

fn pseudo_dest(rng: &mut Sm, len: usize) -> Vec<i64> {
    (0..len).map(|_| if rng.next() % 4 == 0 { 0 } else { (rng.next() % 2_000_001) as i64 - 1_000_000 }).collect()
}

fn fft_route<F: Float>(fwd: &mut FFT<F>, inv: Option<&mut FFT<F>>, a: &[i32], b: &[i32], assign: bool, dest: Option<Vec<i64>>) -> Vec<i64> {
    let total = a.len() + b.len() - 1;
    let n = total.next_power_of_two();
    let mut fa = fwd.fft(a, n);
    let fb = fwd.fft(b, n);
    let prod = if assign {
        for (x, y) in fa.iter_mut().zip(fb.iter()) {
            *x *= *y;
        }
        fa
    } else {
        fa.into_iter().zip(fb).map(|(x, y)| x * y).collect::<Vec<_>>()
    };
    let inv = match inv {
        Some(o) => o,
        None => fwd,
    };
    match dest {
        Some(mut d) => {
            inv.fft_inv_into(&prod, &mut d);
            d
        }
        None => inv.fft_inv(&prod),
    }
}

fn fmt_check(tag: &str, r: (usize, usize, i128, i64, u32)) -> String {
    format!("{} {} {} {} {} {}", tag, r.0, r.1, r.2, r.3, r.4)
}
fn merge(x: (usize, usize, i128, i64, u32), y: (usize, usize, i128, i64, u32)) -> (usize, usize, i128, i64, u32) {
    (x.0 + y.0, x.1 + y.1, x.2.max(y.2), if x.3 >= 0 { x.3 } else { y.3 }, x.4 | y.4)
}

fn envelope<F: Float>(t: &[&str]) -> String {
    let la: usize = p(t[2]);
    let lb: usize = p(t[3]);
    let mx: i32 = p(t[4]);
    let pat: u32 = p(t[5]);
    let seed: u64 = p(t[6]);
    let samples: usize = p(t[7]);
    let route: u32 = if t.len() > 8 { p(t[8]) } else { 0 };
    let mut rng = Sm(seed);
    let mut gen = |len: usize, which: u32| -> Vec<i32> {
        (0..len)
            .map(|i| match pat {
                0 => mx,
                1 => {
                    if which == 0 && i % 2 == 1 {
                        -mx
                    } else {
                        mx
                    }
                }
                2 => {
                    if i % 2 == 1 {
                        -mx
                    } else {
                        mx
                    }
                }
                3 => {
                    if rng.next() & 1 == 1 {
                        -mx
                    } else {
                        mx
                    }
                }
                // every coefficient of the product negative: a all -mx, b all +mx (5); a uniform in [0, mx], b all -mx (6)
                5 => {
                    if which == 0 {
                        -mx
                    } else {
                        mx
                    }
                }
                6 => {
                    if which == 0 {
                        (rng.next() % (mx as u64 + 1)) as i32
                    } else {
                        -mx
                    }
                }
                _ => ((rng.next() % (2 * mx as u64 + 1)) as i64 - mx as i64) as i32,
            })
            .collect()
    };
    let a = gen(la, 0);
    let b = gen(lb, 1);
    let mut fft = FFT::<F>::new();
    let total = la + lb - 1;
    let n = total.next_power_of_two();
    match route {
        1 => {
            let r = fft_route(&mut fft, None, &a, &b, false, None);
            if r.len() != n {
                return format!("E {} {} -1 0 1", total, total);
            }
            fmt_check("E", check_product(&a, &b, &r, &[], samples, &mut rng))
        }
        2 => {
            let dl = match seed % 3 {
                0 => total,
                1 => total + 3,
                _ => total.max(2) - 1,
            };
            let base = pseudo_dest(&mut rng, dl);
            let mut c = base.clone();
            fft.multiply_into(&a, &b, &mut c);
            fmt_check("E", check_product(&a, &b, &c, &base, samples, &mut rng))
        }
        3 => {
            let mut other = FFT::<F>::new();
            let base = pseudo_dest(&mut rng, if seed % 2 == 0 { n } else { total });
            let c = fft_route(&mut fft, Some(&mut other), &a, &b, true, Some(base.clone()));
            fmt_check("E", check_product(&a, &b, &c, &base, samples, &mut rng))
        }
        4 => {
            let c1 = fft.multiply(&a, &b);
            let (sa, sb) = (&a[..la / 8 + 1], &b[..lb / 8 + 1]);
            let c2 = fft.multiply(sa, sb);
            let c3 = fft.multiply(&a, &b);
            if c1.len() != total || c2.len() != sa.len() + sb.len() - 1 || c1 != c3 {
                return format!("E {} {} -1 0 1", total, total);
            }
            let r1 = check_product(&a, &b, &c1, &[], samples, &mut rng);
            let r2 = check_product(sa, sb, &c2, &[], samples, &mut rng);
            fmt_check("E", merge(r1, r2))
        }
        _ => {
            if route == 5 {
                fft.update_n(2 * n.max(2));
            }
            if route == 6 {
                let small = fft.multiply(&[1, -2, 3], &[4, 5]);
                if small != vec![4, -3, 2, 15] {
                    return format!("E {} {} -1 0 1", total, total);
                }
                let orig = fft;
                fft = orig.clone();
                drop(orig);
            }
            let c = fft.multiply(&a, &b);
            if c.len() != total {
                return format!("E {} {} -1 0 1", total, total);
            }
            fmt_check("E", check_product(&a, &b, &c, &[], samples, &mut rng))
        }
    }
}

/// `R ty n sh into pre len v1 .. vlen`: fft(v, n) on a fresh FFT<ty> (pre 1: after a small product, 2: after
/// update_n(4n)), spectrum scaled by 2^-sh, fft_inv (into 0) or fft_inv_into on a pseudo-random non-zero destination of
/// length n (into 1) / n+3 (into 2); prints `R <result minus the previous destination contents>`.
fn rounding<F: Float>(t: &[&str]) -> String {
    let n: usize = p(t[2]);
    let sh: usize = p(t[3]);
    let into: u32 = p(t[4]);
    let pre: u32 = p(t[5]);
    let len: usize = p(t[6]);
    let v: Vec<i32> = (0..len).map(|i| p(t[7 + i])).collect();
    let mut fft = FFT::<F>::new();
    if pre == 1 {
        let _ = fft.multiply(&[1, -2, 3], &[4, 5]);
    } else if pre == 2 {
        fft.update_n(4 * n.max(1));
    }
    let fv = fft.fft(&v, n);
    let k = F::ONE / F::from_usize(1usize << sh);
    let spec = fv.iter().map(|c| Complex::new(c.x * k, c.y * k)).collect::<Vec<_>>();
    let mut rng = Sm(0x5eed ^ (n as u64) << 8 ^ len as u64);
    let out: Vec<i64> = if into == 0 {
        fft.fft_inv(&spec)
    } else {
        let base = pseudo_dest(&mut rng, if into == 1 { spec.len() } else { spec.len() + 3 });
        let mut c = base.clone();
        fft.fft_inv_into(&spec, &mut c);
        c.iter().zip(base.iter()).map(|(x, y)| x - y).collect()
    };
    format!("R {}", ints(&out))
}

fn bounds_for(ty: &str) -> &'static [[f64; VALS_TO_CHECK.len()]; VALS_TO_CHECK.len()] {
    match ty {
        "f64" => &CORRECT_F64_BOUNDS,
        "f32" => &CORRECT_F32_BOUNDS,
        other => {
            eprintln!("harness: unknown float type {}", other);
            std::process::exit(3)
        }
    }
}

fn print_table(t: &[&str]) -> String {
    let bounds = bounds_for(t[1]);
    let mut out = vec![format!("PT {}", VALS_TO_CHECK.iter().map(|v| v.to_string()).collect::<Vec<_>>().join(" "))];
    for row in bounds.iter() {
        out.push(row.iter().map(|v| (*v as usize).to_string()).collect::<Vec<_>>().join(" "));
    }
    out.join(" | ")
}

fn published<F: Float>(t: &[&str]) -> String {
    let bounds = bounds_for(t[1]);
    let ai: usize = p(t[2]);
    let bi: usize = p(t[3]);
    let lmode: u32 = p(t[4]);
    let swap: u32 = p(t[5]);
    let sign: u32 = p(t[6]);
    let aback: i32 = p(t[7]);
    let bback: i32 = p(t[8]);
    let route: u32 = p(t[9]);
    let pre: u32 = p(t[10]);
    let seed: u64 = p(t[11]);
    let samples: usize = p(t[12]);
    let l = bounds[ai][bi] as usize;
    let (amax, bmax) = (VALS_TO_CHECK[ai], VALS_TO_CHECK[bi]);
    let (la, lb) = match lmode {
        0 => (l, l),
        1 => (l.saturating_sub(1), l),
        2 => (l, l.saturating_sub(1)),
        3 => (l.saturating_sub(2), l),
        4 => (l.saturating_sub(1), l.saturating_sub(1)),
        _ => (l / 2 + 1, l / 2 + 1),
    };
    if l == 0 || la == 0 || lb == 0 {
        return "P 0 0 0 0 0 0 -1 0".to_string();
    }
    let mut rng = Sm(seed);
    let mut gen = |len: usize, mx: i32, back: i32, which: u32| -> Vec<i32> {
        let lo = (mx - back).max(0);
        (0..len)
            .map(|i| {
                let v = lo + (rng.next() % ((mx - lo) as u64 + 1)) as i32;
                match sign {
                    0 => v,
                    // one operand negated as a whole: EVERY coefficient of the product is negative and as large as in the
                    // table's own claim (the mirror image of sign 0)
                    4 => {
                        if which == 0 {
                            -v
                        } else {
                            v
                        }
                    }
                    5 => {
                        if which == 1 {
                            -v
                        } else {
                            v
                        }
                    }
                    1 => {
                        if i % 2 == 1 {
                            -v
                        } else {
                            v
                        }
                    }
                    2 => {
                        if rng.next() & 1 == 1 {
                            -v
                        } else {
                            v
                        }
                    }
                    _ => -v,
                }
            })
            .collect()
    };
    let a = gen(la, amax, aback, 0);
    let b = gen(lb, bmax, bback, 1);
    let (x, y): (&[i32], &[i32]) = if swap == 1 { (&b, &a) } else { (&a, &b) };
    let total = la + lb - 1;
    let n = total.next_power_of_two().max(2);
    let mut fft = FFT::<F>::new();
    if pre == 1 {
        let small = fft.multiply(&[1, -2, 3], &[4, 5]);
        if small != vec![4, -3, 2, 15] {
            return format!("P {} {} {} {} {} -1 0 1", l, la, lb, total, total);
        }
    } else if pre == 2 {
        fft.update_n(2 * n);
    }
    let r = match route {
        1 => {
            let base = pseudo_dest(&mut rng, if seed % 2 == 0 { total } else { total + 3 });
            let mut c = base.clone();
            fft.multiply_into(x, y, &mut c);
            check_product(x, y, &c, &base, samples, &mut rng)
        }
        2 => {
            let c = fft_route(&mut fft, None, x, y, false, None);
            check_product(x, y, &c, &[], samples, &mut rng)
        }
        _ => {
            let c = fft.multiply(x, y);
            if c.len() != total {
                return format!("P {} {} {} {} {} -1 0 1", l, la, lb, total, total);
            }
            check_product(x, y, &c, &[], samples, &mut rng)
        }
    };
    format!("P {} {} {} {} {} {} {} {}", l, la, lb, r.0, r.1, r.2, r.3, r.4)
}

/// (cos, sin)(2 pi i / n) with the argument reduced exactly (integers) to [0, pi/4]
fn unit(i: usize, n: usize) -> (f64, f64) {
    let i = i % n;
    let (q, r) = (8 * i / n, 8 * i % n); // octant q, remainder r/n of an octant: angle = (q + r/n) * pi/4
    let fr = r as f64 / n as f64;
    let (k, t) = if q % 2 == 0 { (q / 2, fr) } else { (q / 2 + 1, fr - 1.0) }; // angle = k * pi/2 + t * pi/4, |t| <= 1
    let x = t * std::f64::consts::FRAC_PI_4;
    let (c, s) = (x.cos(), x.sin());
    match k % 4 {
        0 => (c, s),
        1 => (-s, c),
        2 => (-c, -s),
        _ => (s, -c),
    }
}

trait AsF64 {
    fn to_f64(&self) -> f64;
}
impl AsF64 for f64 {
    fn to_f64(&self) -> f64 {
        *self
    }
}
impl AsF64 for f32 {
    fn to_f64(&self) -> f64 {
        *self as f64
    }
}

fn tables<F: Float + AsF64>(t: &[&str]) -> String {
    let k: u32 = p(t[2]);
    let pre: u32 = p(t[3]);
    let n = 1usize << k;
    let mut fft = FFT::<F>::new();
    match pre {
        1 => {
            fft.update_n(1usize << (k / 2));
            fft.update_n(n);
        }
        2 => {
            let a = vec![1i32; n / 2];
            let _ = fft.multiply(&a, &a);
            fft.update_n(n);
        }
        _ => fft.update_n(n),
    }
    let (w, rev) = fft.verif_tables();
    let m = rev.len();
    let mut dev = 0f64;
    if w.len() == m + 1 {
        for i in 0..=m {
            let (c, s) = unit(i, m);
            dev = dev.max((w[i].x.to_f64() - c).abs()).max((w[i].y.to_f64() - s).abs());
        }
    } else {
        dev = f64::INFINITY;
    }
    let one = |c: &Complex<F>| c.x.to_f64() == 1.0 && c.y.to_f64() == 0.0;
    let fixed = w.len() == m + 1 && one(&w[0]) && one(&w[m]);
    let bits = m.trailing_zeros();
    let rev_ok = m.is_power_of_two()
        && m >= n.max(4)
        && rev.iter().enumerate().all(|(i, &r)| if bits == 0 { r == 0 } else { r == i.reverse_bits() >> (usize::BITS - bits) });
    format!("TW {:e} {} {} {} {}", dev, fixed as u8, rev_ok as u8, w.len(), m)
}

fn by_type(t: &[&str], f64f: fn(&[&str]) -> String, f32f: fn(&[&str]) -> String) -> String {
    match t[1] {
        "f64" => f64f(t),
        "f32" => f32f(t),
        other => {
            eprintln!("harness: unknown float type {}", other);
            std::process::exit(3)
        }
    }
}

fn main() {
    vh::serve(|t| match t[0] {
        "H" => history(t),
        "E" => by_type(t, envelope::<f64>, envelope::<f32>),
        "P" => by_type(t, published::<f64>, published::<f32>),
        "R" => by_type(t, rounding::<f64>, rounding::<f32>),
        "PT" => print_table(t),
        "TW" => by_type(t, tables::<f64>, tables::<f32>),
        other => {
            eprintln!("harness: unknown mode {}", other);
            std::process::exit(3)
        }
    });
}
