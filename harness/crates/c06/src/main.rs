//! C06 executor.  One line = `<modulus> <op> <operands...>`; operands of value type are i64
//! constructor arguments (the only public way to build a `Modular<M>`), exponents are u64.
//!   new v | read v | neg a | inv a | pow a d
//!   add a b | sub a b | mul a b | div a b          (operator form)
//!   adda a b | suba a b | mula a b | diva a b      (assigning form)
//!   eq a b
//! Output: `R <inner()> <Display> <Debug> <Writable>` for a value, `R <0|1> <0|1>` for eq
//! (`==` and `!(a != b)`), `P` if anything panicked.
use rlib_io::{Reader, Writer};
use rlib_mint::Modular;
use vh::p;

fn run<const M: u32>(t: &[&str]) -> String {
    let m = |s: &str| Modular::<M>::new(p::<i64>(s));
    let r: Modular<M> = match t[1] {
        "new" => m(t[2]),
        "read" => {
            // the token is handed over exactly as the generator wrote it (decimal i64)
            let text = format!(" {}\n", t[2]);
            let mut reader = Reader::new(Box::new(text.as_bytes()));
            reader.read::<Modular<M>>()
        }
        "readfar" => {
            // the same token, but starting d bytes before the 64 KiB boundary of what the Reader has fetched so
            // far: padding of earlier values ("7 " tokens, all read as Modular too) or of blanks (odd d)
            let d: usize = p(t[3]);
            let pad = 65536usize.saturating_sub(d);
            let mut text = String::with_capacity(pad + 40);
            let mut earlier = 0usize;
            if d % 2 == 0 {
                while text.len() + 2 <= pad {
                    text.push_str("7 ");
                    earlier += 1;
                }
            }
            while text.len() < pad {
                text.push(' ');
            }
            text.push_str(t[2]);
            text.push('\n');
            let mut reader = Reader::new(Box::new(std::io::Cursor::new(text.into_bytes())));
            for _ in 0..earlier {
                let x: Modular<M> = reader.read();
                assert!(x == Modular::<M>::new(7));
            }
            reader.read::<Modular<M>>()
        }
        "neg" => -m(t[2]),
        "inv" => m(t[2]).inv(),
        "pow" => m(t[2]).pow(p::<u64>(t[3])),
        "add" => m(t[2]) + m(t[3]),
        "sub" => m(t[2]) - m(t[3]),
        "mul" => m(t[2]) * m(t[3]),
        "div" => m(t[2]) / m(t[3]),
        "adda" => {
            let mut x = m(t[2]);
            x += m(t[3]);
            x
        }
        "suba" => {
            let mut x = m(t[2]);
            x -= m(t[3]);
            x
        }
        "mula" => {
            let mut x = m(t[2]);
            x *= m(t[3]);
            x
        }
        "diva" => {
            let mut x = m(t[2]);
            x /= m(t[3]);
            x
        }
        "eq" => {
            let (a, b) = (m(t[2]), m(t[3]));
            #[allow(clippy::nonminimal_bool)]
            return format!("R {} {}", (a == b) as u8, !(a != b) as u8);
        }
        other => {
            eprintln!("harness: unknown op {}", other);
            std::process::exit(3)
        }
    };
    let mut sink: Vec<u8> = Vec::new();
    {
        let mut w = Writer::new(Box::new(&mut sink));
        w.write(&r);
        w.flush();
    }
    assert_eq!(Modular::<M>::md(), M);
    format!("R {} {} {:?} {}", r.inner(), r, r, String::from_utf8(sink).unwrap())
}

macro_rules! dispatch {
    ($t:expr, $($m:literal),*) => {
        match $t[0] {
            $( stringify!($m) => run::<$m>($t), )*
            other => {
                eprintln!("harness: modulus {} is not instantiated", other);
                std::process::exit(3)
            }
        }
    };
}

fn main() {
    vh::serve(|t| {
        dispatch!(
            t, 2, 3, 4, 6, 7, 11, 12, 65536, 65537, 998244353, 1000000007, 2147483647, 2147483646,
            2147483629
        )
    });
}
