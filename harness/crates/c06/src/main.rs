//! C06 executor.  One line = `<modulus> <op> <operands...>`; operands of value type are i64
//! constructor arguments (the only public way to build a `Modular<M>`), exponents are u64.
//! `<modulus>` is a decimal literal of the dispatch list or one of the crate's alias names
//! `Mint998` / `Mint107` (the case then runs through the alias type, whatever modulus it denotes).
//!   new v | read v | readfar v d | neg a | inv a | pow a d
//!   add a b | sub a b | mul a b | div a b          (operator form)
//!   adda a b | suba a b | mula a b | diva a b      (assigning form)
//!   eq a b
//!   rpn tok...      multi-step expression on a stack: an integer literal pushes `new(v)`, `Z`/`O` push the
//!                   constants ZERO/ONE, `dup` copies the top, `+ - * /` operator forms, `+= -= *= /=` assigning
//!                   forms, `neg`, `inv`, `^d` = pow(d); a final `==` prints the comparison line, otherwise the
//!                   single remaining value is printed
//!   readv k v0..vn  `read_vec::<Modular<M>>(n+1)` of the tokens, element k is printed
//!   readt k a i b   `read::<(Modular<M>, i64, Modular<M>)>()`, component k (0 or 2) is printed (i must come back)
//!   tinv a | tdiv a b   the inverse / quotient computed on a freshly spawned thread that first inverts the same
//!                   number under other moduli, while this thread inverts under a third modulus
//!   reads S tok | readfars S tok d | readvs S k tok0..tokn | readts S k a i b
//!                   the read ops above, but the text reaches the Reader through a source that hands it out
//!                   according to the delivery schedule S (see `Sched`): short reads that split a token (once, twice in
//!                   a row, byte by byte), Interrupted errors between the pieces, std::io::Chain of the pieces, other
//!                   blank characters as delimiters, end of input right after the last digit.  `tok` is a decimal i64
//!                   numeral, possibly zero-padded.  Every other value of the text and the end of the input are
//!                   checked here (`!read-other`, `!read-not-eof`).
//!   writefar v d    `new(v)` written when the Writer's buffer already holds 65536-d bytes of earlier output
//!   writes S v      `new(v)` written into a sink that accepts the bytes according to the schedule S (short writes,
//!                   Interrupted errors; flag `d`: the Writer is dropped, not flushed)
//!   show a mm rat   `Show::show` with `ShowSettings { mint_max: mm, mint_rational: rat != 0, ..new() }`
//!   showd a         `Show::show` with `ShowSettings::new()`
//!                   (both: a Vec, an array and a tuple holding the value must show it the same way, else `!show-container`)
//! Output: `R <inner()> x<hex Display> x<hex Debug> x<hex Writable> [!check ...]` for a value (the renderings
//! byte-exact, hex-encoded; `!name` for every internal consistency check that failed), `R <0|1> <0|1>` for
//! a comparison (`==` and `!(a != b)`), `S x<hex>` for show, `P` if anything panicked.
use rlib_io::{Reader, Writer};
use rlib_mint::{Mint107, Mint998, Modular};
use rlib_show::{Show, ShowSettings};
use vh::p;

fn hex(b: &[u8]) -> String {
    let mut s = String::with_capacity(1 + 2 * b.len());
    s.push('x');
    for c in b {
        s.push_str(&format!("{:02x}", c));
    }
    s
}

fn written<T: rlib_io::Writable>(t: &T) -> Vec<u8> {
    let mut sink: Vec<u8> = Vec::new();
    {
        let mut w = Writer::new(Box::new(&mut sink));
        w.write(t);
        w.flush();
    }
    sink
}

/// the modulus an alias type denotes, as a constant usable as a const-generic argument
trait HasM {
    const MM: u32;
}
impl<const M: u32> HasM for Modular<M> {
    const MM: u32 = M;
}

fn is_literal(s: &str) -> bool {
    let b = s.as_bytes();
    b[0].is_ascii_digit() || (b.len() > 1 && b[0] == b'-' && b[1].is_ascii_digit())
}

/// Formatter flags, `to_string`, and the generic io containers must treat a value like its `inner()`.
fn consistency<const M: u32>(r: Modular<M>) -> Vec<&'static str> {
    let i: u32 = r.inner();
    let mut bad = Vec::new();
    if format!("{:>12}|{:<3}|{:012}|{:+}|{:^7}|{:*<5}", r, r, r, r, r, r)
        != format!("{:>12}|{:<3}|{:012}|{:+}|{:^7}|{:*<5}", i, i, i, i, i, i)
    {
        bad.push("!fmt-display-flags");
    }
    if format!("{:#?}|{:6?}|{:<4?}|{:08?}", r, r, r, r) != format!("{:#?}|{:6?}|{:<4?}|{:08?}", i, i, i, i) {
        bad.push("!fmt-debug-flags");
    }
    if r.to_string() != i.to_string() {
        bad.push("!to-string");
    }
    let zero = Modular::<M>::ZERO;
    let one = Modular::<M>::ONE;
    if written(&vec![r, zero, one, r]) != written(&vec![i, 0u32, 1u32, i]) {
        bad.push("!write-vec");
    }
    if written(&(r, -5i64, r)) != written(&(i, -5i64, i)) || written(&(one, r)) != written(&(1u32, i)) {
        bad.push("!write-tuple");
    }
    #[allow(clippy::nonminimal_bool)]
    if zero.inner() != 0
        || one.inner() != 1
        || !(zero == Modular::<M>::new(0))
        || !(one == Modular::<M>::new(1))
        || zero != Modular::<M>::new(M as i64)
        || one != Modular::<M>::new(M as i64 + 1)
        || zero == one
    {
        bad.push("!consts");
    }
    if !(r == Modular::<M>::new(i as i64)) || r != Modular::<M>::new(i as i64) {
        bad.push("!eq-new-inner");
    }
    bad
}

fn eq_line<const M: u32>(a: Modular<M>, b: Modular<M>) -> String {
    #[allow(clippy::nonminimal_bool)]
    let s = format!("R {} {}", (a == b) as u8, !(a != b) as u8);
    s
}

/// Delivery schedule `<head>/<cycle>[:<flags>]`: `head` and `cycle` are `.`-separated piece lengths (either may be
/// empty).  The pieces of `head` are handed out first, then `cycle` repeats; with an empty cycle the rest comes in
/// one piece.  Flags: `i` Interrupted errors between the pieces (also two in a row, also before the end of input),
/// `h` the pieces are `Cursor`s joined by `std::io::Chain` instead of the source below, `e` no delimiter after the
/// last token (the input ends there), `d` (sinks) drop the Writer instead of flushing it, `w<k>` blank style k.
struct Sched {
    head: Vec<usize>,
    cycle: Vec<usize>,
    intr: bool,
    chain: bool,
    eof_ends: bool,
    drop_only: bool,
    style: u8,
}

fn sched(s: &str) -> Sched {
    let (lens, flags) = match s.split_once(':') {
        Some((a, b)) => (a, b),
        None => (s, ""),
    };
    let (h, c) = match lens.split_once('/') {
        Some(x) => x,
        None => {
            eprintln!("harness: schedule {:?} has no '/'", s);
            std::process::exit(3)
        }
    };
    let list = |x: &str| -> Vec<usize> { x.split('.').filter(|y| !y.is_empty()).map(|y| p::<usize>(y).max(1)).collect() };
    let mut r = Sched { head: list(h), cycle: list(c), intr: false, chain: false, eof_ends: false, drop_only: false, style: 0 };
    let fb = flags.as_bytes();
    let mut i = 0;
    while i < fb.len() {
        match fb[i] {
            b'i' => r.intr = true,
            b'h' => r.chain = true,
            b'e' => r.eof_ends = true,
            b'd' => r.drop_only = true,
            b'w' if i + 1 < fb.len() && fb[i + 1].is_ascii_digit() => {
                i += 1;
                r.style = fb[i] - b'0';
            }
            other => {
                eprintln!("harness: unknown schedule flag {:?}", other as char);
                std::process::exit(3)
            }
        }
        i += 1;
    }
    r
}

impl Sched {
    /// length of piece number `idx` when `rem` bytes are left
    fn piece(&self, idx: usize, rem: usize) -> usize {
        let want = if idx < self.head.len() {
            self.head[idx]
        } else if !self.cycle.is_empty() {
            self.cycle[(idx - self.head.len()) % self.cycle.len()]
        } else {
            rem
        };
        want.max(1).min(rem)
    }

    /// (lead, separator, trail) of the blank style; all of them are ASCII whitespace for the Reader
    fn blanks(&self) -> (&'static str, &'static str, &'static str) {
        let (l, s, t) = match self.style {
            0 => (" ", " ", "\n"),
            1 => ("\t", "\t", "\t"),
            2 => ("\r\n", "\r\n", "\r\n"),
            3 => ("\x0c", "\x0c", "\x0c"),
            _ => ("", "  \n\t ", " \n\n"),
        };
        (l, s, if self.eof_ends { "" } else { t })
    }

    fn text(&self, toks: &[&str]) -> Vec<u8> {
        let (l, s, t) = self.blanks();
        format!("{}{}{}", l, toks.join(s), t).into_bytes()
    }

    fn source(&self, data: Vec<u8>) -> Box<dyn std::io::Read> {
        use std::io::Read;
        let base: Box<dyn Read> = if self.chain {
            let mut src: Box<dyn Read> = Box::new(std::io::empty());
            let (mut pos, mut idx) = (0usize, 0usize);
            while pos < data.len() {
                // a long cyclic schedule would nest too deeply: after 300 pieces the rest comes in one
                let n = if idx < 300 { self.piece(idx, data.len() - pos) } else { data.len() - pos };
                src = Box::new(src.chain(std::io::Cursor::new(data[pos..pos + n].to_vec())));
                pos += n;
                idx += 1;
            }
            src
        } else {
            Box::new(Pieces { data, pos: 0, idx: 0, head: self.head.clone(), cycle: self.cycle.clone() })
        };
        if self.intr {
            Box::new(Intr { inner: base, tick: 0 })
        } else {
            base
        }
    }
}

/// a `Read` whose every call returns the next piece of the schedule (never more, never an empty piece before the end)
struct Pieces {
    data: Vec<u8>,
    pos: usize,
    idx: usize,
    head: Vec<usize>,
    cycle: Vec<usize>,
}

impl std::io::Read for Pieces {
    fn read(&mut self, buf: &mut [u8]) -> std::io::Result<usize> {
        let rem = self.data.len() - self.pos;
        if rem == 0 || buf.is_empty() {
            return Ok(0);
        }
        let want = if self.idx < self.head.len() {
            self.head[self.idx]
        } else if !self.cycle.is_empty() {
            self.cycle[(self.idx - self.head.len()) % self.cycle.len()]
        } else {
            rem
        };
        self.idx += 1;
        let n = want.max(1).min(rem).min(buf.len());
        buf[..n].copy_from_slice(&self.data[self.pos..self.pos + n]);
        self.pos += n;
        Ok(n)
    }
}

/// Interrupted errors around the calls of the wrapped reader / writer: fail, pass, fail, fail, pass, ...
struct Intr<T> {
    inner: T,
    tick: u32,
}

impl<T> Intr<T> {
    fn fails_now(&mut self) -> bool {
        let k = self.tick % 5;
        self.tick += 1;
        k == 0 || k == 2 || k == 3
    }
}

impl<T: std::io::Read> std::io::Read for Intr<T> {
    fn read(&mut self, buf: &mut [u8]) -> std::io::Result<usize> {
        if self.fails_now() {
            return Err(std::io::Error::new(std::io::ErrorKind::Interrupted, "interrupted"));
        }
        self.inner.read(buf)
    }
}

impl<T: std::io::Write> std::io::Write for Intr<T> {
    fn write(&mut self, buf: &[u8]) -> std::io::Result<usize> {
        if self.fails_now() {
            return Err(std::io::Error::new(std::io::ErrorKind::Interrupted, "interrupted"));
        }
        self.inner.write(buf)
    }
    fn flush(&mut self) -> std::io::Result<()> {
        self.inner.flush()
    }
}

/// a `Write` that accepts at most the next piece of the schedule per call
struct ShortSink {
    out: Vec<u8>,
    idx: usize,
    head: Vec<usize>,
    cycle: Vec<usize>,
}

impl std::io::Write for ShortSink {
    fn write(&mut self, buf: &[u8]) -> std::io::Result<usize> {
        if buf.is_empty() {
            return Ok(0);
        }
        let want = if self.idx < self.head.len() {
            self.head[self.idx]
        } else if !self.cycle.is_empty() {
            self.cycle[(self.idx - self.head.len()) % self.cycle.len()]
        } else {
            buf.len()
        };
        self.idx += 1;
        let n = want.max(1).min(buf.len());
        self.out.extend_from_slice(&buf[..n]);
        Ok(n)
    }
    fn flush(&mut self) -> std::io::Result<()> {
        Ok(())
    }
}

/// shows as the text it holds
struct Verbatim(String);
impl Show for Verbatim {
    fn show(&self, _settings: &ShowSettings) -> String {
        self.0.clone()
    }
}

/// the text of `readfar`: the token starts d bytes before the 64 KiB boundary, after `earlier` tokens "7"
fn far_text(tok: &str, d: usize) -> (Vec<u8>, usize) {
    let pad = 65536usize.saturating_sub(d);
    let mut text = String::with_capacity(pad + 40);
    let mut earlier = 0usize;
    if d % 2 == 0 {
        while text.len() + 2 <= pad {
            text.push_str("7 ");
            earlier += 1;
        }
    }
    while text.len() < pad {
        text.push(' ');
    }
    text.push_str(tok);
    text.push('\n');
    (text.into_bytes(), earlier)
}

fn run<const M: u32>(t: &[&str]) -> String {
    let mut alt_sink: Option<Vec<u8>> = None;
    let mut more_bad: Vec<&'static str> = Vec::new();
    let m = |s: &str| Modular::<M>::new(p::<i64>(s));
    let r: Modular<M> = match t[1] {
        "new" => m(t[2]),
        "read" => {
            // the token is handed over exactly as the generator wrote it (decimal i64)
            let text = format!(" {}\n", t[2]);
            let mut reader = Reader::new(Box::new(text.as_bytes()));
            reader.read::<Modular<M>>()
        }
        "readfar" => {
            // the same token, but starting d bytes before the 64 KiB boundary of what the Reader has fetched so
            // far: padding of earlier values ("7 " tokens, all read as Modular too) or of blanks (odd d)
            let (text, earlier) = far_text(t[2], p(t[3]));
            let mut reader = Reader::new(Box::new(std::io::Cursor::new(text)));
            for _ in 0..earlier {
                let x: Modular<M> = reader.read();
                assert!(x == Modular::<M>::new(7));
            }
            reader.read::<Modular<M>>()
        }
        "readv" => {
            let k: usize = p(t[2]);
            let text = format!("{}\n", t[3..].join(" "));
            let mut reader = Reader::new(Box::new(text.as_bytes()));
            let v: Vec<Modular<M>> = reader.read_vec(t.len() - 3);
            assert_eq!(v.len(), t.len() - 3);
            v[k]
        }
        "readt" => {
            let k: usize = p(t[2]);
            let text = format!("{} {}\n{}\n", t[3], t[4], t[5]);
            let mut reader = Reader::new(Box::new(text.as_bytes()));
            let (a, i, b): (Modular<M>, i64, Modular<M>) = reader.read();
            assert_eq!(i, p::<i64>(t[4]));
            if k == 0 {
                a
            } else {
                b
            }
        }
        "reads" => {
            let sc = sched(t[2]);
            let mut reader = Reader::new(sc.source(sc.text(&t[3..4])));
            let x = reader.read::<Modular<M>>();
            if !reader.is_eof() {
                more_bad.push("!read-not-eof");
            }
            x
        }
        "readfars" => {
            let sc = sched(t[2]);
            let (text, earlier) = far_text(t[3], p(t[4]));
            let mut reader = Reader::new(sc.source(text));
            for _ in 0..earlier {
                let x: Modular<M> = reader.read();
                assert!(x == Modular::<M>::new(7));
            }
            let x = reader.read::<Modular<M>>();
            if !reader.is_eof() {
                more_bad.push("!read-not-eof");
            }
            x
        }
        "readvs" => {
            let sc = sched(t[2]);
            let k: usize = p(t[3]);
            let mut reader = Reader::new(sc.source(sc.text(&t[4..])));
            let v: Vec<Modular<M>> = reader.read_vec(t.len() - 4);
            assert_eq!(v.len(), t.len() - 4);
            for (j, x) in v.iter().enumerate() {
                if j != k && *x != m(t[4 + j]) {
                    more_bad.push("!read-other");
                    break;
                }
            }
            if !reader.is_eof() {
                more_bad.push("!read-not-eof");
            }
            v[k]
        }
        "readts" => {
            let sc = sched(t[2]);
            let k: usize = p(t[3]);
            let mut reader = Reader::new(sc.source(sc.text(&t[4..7])));
            let (a, i, b): (Modular<M>, i64, Modular<M>) = reader.read();
            if i != p::<i64>(t[5]) || (if k == 0 { b != m(t[6]) } else { a != m(t[4]) }) {
                more_bad.push("!read-other");
            }
            if !reader.is_eof() {
                more_bad.push("!read-not-eof");
            }
            if k == 0 {
                a
            } else {
                b
            }
        }
        "writefar" => {
            // 65536-d bytes are already in the Writer (written as one &str of "7 " tokens) when the value arrives
            let x = m(t[2]);
            let d: usize = p(t[3]);
            let pad = "7 ".repeat(32768);
            let pad = &pad[..65536usize.saturating_sub(d)];
            let mut sink: Vec<u8> = Vec::new();
            {
                let mut w = Writer::new(Box::new(&mut sink));
                w.write(&pad);
                w.write(&x);
                w.write_char('\n');
                w.flush();
            }
            if sink.len() > pad.len() && sink.starts_with(pad.as_bytes()) && sink.ends_with(b"\n") {
                alt_sink = Some(sink[pad.len()..sink.len() - 1].to_vec());
            } else {
                more_bad.push("!write-far-frame");
                alt_sink = Some(Vec::new());
            }
            x
        }
        "writes" => {
            // "1 <value>\n" into a sink that takes the bytes in pieces
            let sc = sched(t[2]);
            let x = m(t[3]);
            let mut sink = Intr { inner: ShortSink { out: Vec::new(), idx: 0, head: sc.head.clone(), cycle: sc.cycle.clone() }, tick: 0 };
            let mut plain = ShortSink { out: Vec::new(), idx: 0, head: sc.head.clone(), cycle: sc.cycle.clone() };
            {
                let target: Box<dyn std::io::Write + '_> = if sc.intr { Box::new(&mut sink) } else { Box::new(&mut plain) };
                let mut w = Writer::new(target);
                w.write(&Modular::<M>::ONE);
                w.write_char(' ');
                w.write(&x);
                w.write_char('\n');
                if !sc.drop_only {
                    w.flush();
                }
            }
            let out = if sc.intr { sink.inner.out } else { plain.out };
            if out.len() > 3 && out.starts_with(b"1 ") && out.ends_with(b"\n") {
                alt_sink = Some(out[2..out.len() - 1].to_vec());
            } else {
                more_bad.push("!write-short-frame");
                alt_sink = Some(Vec::new());
            }
            x
        }
        "neg" => -m(t[2]),
        "inv" => m(t[2]).inv(),
        "pow" => m(t[2]).pow(p::<u64>(t[3])),
        "add" => m(t[2]) + m(t[3]),
        "sub" => m(t[2]) - m(t[3]),
        "mul" => m(t[2]) * m(t[3]),
        "div" => m(t[2]) / m(t[3]),
        "adda" => {
            let mut x = m(t[2]);
            x += m(t[3]);
            x
        }
        "suba" => {
            let mut x = m(t[2]);
            x -= m(t[3]);
            x
        }
        "mula" => {
            let mut x = m(t[2]);
            x *= m(t[3]);
            x
        }
        "diva" => {
            let mut x = m(t[2]);
            x /= m(t[3]);
            x
        }
        "eq" => {
            return eq_line(m(t[2]), m(t[3]));
        }
        "rpn" => {
            let mut st: Vec<Modular<M>> = Vec::new();
            let n = t.len();
            for (idx, tok) in t[2..].iter().enumerate() {
                let tok = *tok;
                if is_literal(tok) {
                    st.push(m(tok));
                    continue;
                }
                match tok {
                    "Z" => st.push(Modular::<M>::ZERO),
                    "O" => st.push(Modular::<M>::ONE),
                    "dup" => {
                        let x = *st.last().unwrap();
                        st.push(x);
                    }
                    "neg" => {
                        let x = st.pop().unwrap();
                        st.push(-x);
                    }
                    "inv" => {
                        let x = st.pop().unwrap();
                        st.push(x.inv());
                    }
                    "==" => {
                        assert!(idx + 3 == n && st.len() == 2, "== must end the program");
                        return eq_line(st[0], st[1]);
                    }
                    _ if tok.starts_with('^') => {
                        let x = st.pop().unwrap();
                        st.push(x.pow(p::<u64>(&tok[1..])));
                    }
                    _ => {
                        let y = st.pop().unwrap();
                        let mut x = st.pop().unwrap();
                        let r = match tok {
                            "+" => x + y,
                            "-" => x - y,
                            "*" => x * y,
                            "/" => x / y,
                            "+=" => {
                                x += y;
                                x
                            }
                            "-=" => {
                                x -= y;
                                x
                            }
                            "*=" => {
                                x *= y;
                                x
                            }
                            "/=" => {
                                x /= y;
                                x
                            }
                            other => {
                                eprintln!("harness: unknown rpn token {}", other);
                                std::process::exit(3)
                            }
                        };
                        st.push(r);
                    }
                }
            }
            if st.len() != 1 {
                eprintln!("harness: rpn program leaves {} values", st.len());
                std::process::exit(3)
            }
            st[0]
        }
        "tinv" | "tdiv" => {
            // a fresh thread: first the same number under two other moduli (a per-thread table keyed by the value
            // alone would now hold their inverses), then under M; this thread inverts under a third modulus meanwhile
            let a: i64 = p(t[2]);
            let b: i64 = if t[1] == "tdiv" { p(t[3]) } else { 0 };
            let div = t[1] == "tdiv";
            let h = std::thread::spawn(move || {
                let d = if div { b } else { a };
                let w1 = Modular::<65537>::new(d).inv();
                let w2 = Modular::<1000000007>::new(d).inv();
                let r = if div { Modular::<M>::new(a) / Modular::<M>::new(b) } else { Modular::<M>::new(a).inv() };
                (r, w1.inner(), w2.inner())
            });
            let d = if div { b } else { a };
            let here = Modular::<998244353>::new(d).inv();
            let (r, w1, w2) = h.join().unwrap();
            assert_eq!(w1, Modular::<65537>::new(d).inv().inner());
            assert_eq!(w2, Modular::<1000000007>::new(d).inv().inner());
            assert_eq!(here.inner(), Modular::<998244353>::new(d).inv().inner());
            r
        }
        "show" | "showd" => {
            let a = m(t[2]);
            let s = if t[1] == "show" {
                let st = ShowSettings { mint_max: p::<i64>(t[3]), mint_rational: t[4] != "0", ..ShowSettings::new() };
                a.show(&st)
            } else {
                a.show(&ShowSettings::new())
            };
            // inside the containers of rlib_show the value must be shown with the same settings: compared with the
            // same containers holding the text verbatim
            let st = if t[1] == "show" {
                ShowSettings { mint_max: p::<i64>(t[3]), mint_rational: t[4] != "0", ..ShowSettings::new() }
            } else {
                ShowSettings::new()
            };
            if vec![a, a].show(&st) != vec![Verbatim(s.clone()), Verbatim(s.clone())].show(&st)
                || (a, 7i64, a).show(&st) != (Verbatim(s.clone()), 7i64, Verbatim(s.clone())).show(&st)
                || [a].show(&st) != [Verbatim(s.clone())].show(&st)
            {
                return format!("S {}", hex(format!("!show-container:{}", s).as_bytes()));
            }
            return format!("S {}", hex(s.as_bytes()));
        }
        other => {
            eprintln!("harness: unknown op {}", other);
            std::process::exit(3)
        }
    };
    let sink = match alt_sink {
        Some(x) => x,
        None => written(&r),
    };
    assert_eq!(Modular::<M>::md(), M);
    let mut line = format!(
        "R {} {} {} {}",
        r.inner(),
        hex(format!("{}", r).as_bytes()),
        hex(format!("{:?}", r).as_bytes()),
        hex(&sink)
    );
    for b in consistency(r).into_iter().chain(more_bad) {
        line.push(' ');
        line.push_str(b);
    }
    line
}

macro_rules! dispatch {
    ($t:expr, $($m:literal),*) => {
        match $t[0] {
            $( stringify!($m) => run::<$m>($t), )*
            "Mint998" => run::<{ <Mint998 as HasM>::MM }>($t),
            "Mint107" => run::<{ <Mint107 as HasM>::MM }>($t),
            other => {
                eprintln!("harness: modulus {} is not instantiated", other);
                std::process::exit(3)
            }
        }
    };
}

fn main() {
    vh::serve(|t| {
        dispatch!(
            t, 2, 3, 4, 5, 6, 7, 9, 10, 11, 12, 15, 21, 25, 341, 561, 46341, 65536, 65537, 1373653, 16777216,
            16777259, 998244353, 1000000000, 1000000007, 1073741823, 1073741824, 1073741827, 2147483645, 2147483646,
            2147483647, 2147483629
        )
    });
}
