//! C06 executor.  One line = `<modulus> <op> <operands...>`; operands of value type are i64
//! constructor arguments (the only public way to build a `Modular<M>`), exponents are u64.
//! `<modulus>` is a decimal literal of the dispatch list or one of the crate's alias names
//! `Mint998` / `Mint107` (the case then runs through the alias type, whatever modulus it denotes).
//!   new v | read v | readfar v d | neg a | inv a | pow a d
//!   add a b | sub a b | mul a b | div a b          (operator form)
//!   adda a b | suba a b | mula a b | diva a b      (assigning form)
//!   eq a b
//!   rpn tok...      multi-step expression on a stack: an integer literal pushes `new(v)`, `Z`/`O` push the
//!                   constants ZERO/ONE, `dup` copies the top, `+ - * /` operator forms, `+= -= *= /=` assigning
//!                   forms, `neg`, `inv`, `^d` = pow(d); a final `==` prints the comparison line, otherwise the
//!                   single remaining value is printed
//!   readv k v0..vn  `read_vec::<Modular<M>>(n+1)` of the tokens, element k is printed
//!   readt k a i b   `read::<(Modular<M>, i64, Modular<M>)>()`, component k (0 or 2) is printed (i must come back)
//!   tinv a | tdiv a b   the inverse / quotient computed on a freshly spawned thread that first inverts the same
//!                   number under other moduli, while this thread inverts under a third modulus
//!   show a mm rat   `Show::show` with `ShowSettings { mint_max: mm, mint_rational: rat != 0, ..new() }`
//!   showd a         `Show::show` with `ShowSettings::new()`
//! Output: `R <inner()> x<hex Display> x<hex Debug> x<hex Writable> [!check ...]` for a value (the renderings
//! byte-exact, hex-encoded; `!name` for every internal consistency check that failed), `R <0|1> <0|1>` for
//! a comparison (`==` and `!(a != b)`), `S x<hex>` for show, `P` if anything panicked.
use rlib_io::{Reader, Writer};
use rlib_mint::{Mint107, Mint998, Modular};
use rlib_show::{Show, ShowSettings};
use vh::p;

fn hex(b: &[u8]) -> String {
    let mut s = String::with_capacity(1 + 2 * b.len());
    s.push('x');
    for c in b {
        s.push_str(&format!("{:02x}", c));
    }
    s
}

fn written<T: rlib_io::Writable>(t: &T) -> Vec<u8> {
    let mut sink: Vec<u8> = Vec::new();
    {
        let mut w = Writer::new(Box::new(&mut sink));
        w.write(t);
        w.flush();
    }
    sink
}

/// the modulus an alias type denotes, as a constant usable as a const-generic argument
trait HasM {
    const MM: u32;
}
impl<const M: u32> HasM for Modular<M> {
    const MM: u32 = M;
}

fn is_literal(s: &str) -> bool {
    let b = s.as_bytes();
    b[0].is_ascii_digit() || (b.len() > 1 && b[0] == b'-' && b[1].is_ascii_digit())
}

/// Formatter flags, `to_string`, and the generic io containers must treat a value like its `inner()`.
fn consistency<const M: u32>(r: Modular<M>) -> Vec<&'static str> {
    let i: u32 = r.inner();
    let mut bad = Vec::new();
    if format!("{:>12}|{:<3}|{:012}|{:+}|{:^7}|{:*<5}", r, r, r, r, r, r)
        != format!("{:>12}|{:<3}|{:012}|{:+}|{:^7}|{:*<5}", i, i, i, i, i, i)
    {
        bad.push("!fmt-display-flags");
    }
    if format!("{:#?}|{:6?}|{:<4?}|{:08?}", r, r, r, r) != format!("{:#?}|{:6?}|{:<4?}|{:08?}", i, i, i, i) {
        bad.push("!fmt-debug-flags");
    }
    if r.to_string() != i.to_string() {
        bad.push("!to-string");
    }
    let zero = Modular::<M>::ZERO;
    let one = Modular::<M>::ONE;
    if written(&vec![r, zero, one, r]) != written(&vec![i, 0u32, 1u32, i]) {
        bad.push("!write-vec");
    }
    if written(&(r, -5i64, r)) != written(&(i, -5i64, i)) || written(&(one, r)) != written(&(1u32, i)) {
        bad.push("!write-tuple");
    }
    #[allow(clippy::nonminimal_bool)]
    if zero.inner() != 0
        || one.inner() != 1
        || !(zero == Modular::<M>::new(0))
        || !(one == Modular::<M>::new(1))
        || zero != Modular::<M>::new(M as i64)
        || one != Modular::<M>::new(M as i64 + 1)
        || zero == one
    {
        bad.push("!consts");
    }
    if !(r == Modular::<M>::new(i as i64)) || r != Modular::<M>::new(i as i64) {
        bad.push("!eq-new-inner");
    }
    bad
}

fn eq_line<const M: u32>(a: Modular<M>, b: Modular<M>) -> String {
    #[allow(clippy::nonminimal_bool)]
    let s = format!("R {} {}", (a == b) as u8, !(a != b) as u8);
    s
}

fn run<const M: u32>(t: &[&str]) -> String {
    let m = |s: &str| Modular::<M>::new(p::<i64>(s));
    let r: Modular<M> = match t[1] {
        "new" => m(t[2]),
        "read" => {
            // the token is handed over exactly as the generator wrote it (decimal i64)
            let text = format!(" {}\n", t[2]);
            let mut reader = Reader::new(Box::new(text.as_bytes()));
            reader.read::<Modular<M>>()
        }
        "readfar" => {
            // the same token, but starting d bytes before the 64 KiB boundary of what the Reader has fetched so
            // far: padding of earlier values ("7 " tokens, all read as Modular too) or of blanks (odd d)
            let d: usize = p(t[3]);
            let pad = 65536usize.saturating_sub(d);
            let mut text = String::with_capacity(pad + 40);
            let mut earlier = 0usize;
            if d % 2 == 0 {
                while text.len() + 2 <= pad {
                    text.push_str("7 ");
                    earlier += 1;
                }
            }
            while text.len() < pad {
                text.push(' ');
            }
            text.push_str(t[2]);
            text.push('\n');
            let mut reader = Reader::new(Box::new(std::io::Cursor::new(text.into_bytes())));
            for _ in 0..earlier {
                let x: Modular<M> = reader.read();
                assert!(x == Modular::<M>::new(7));
            }
            reader.read::<Modular<M>>()
        }
        "readv" => {
            let k: usize = p(t[2]);
            let text = format!("{}\n", t[3..].join(" "));
            let mut reader = Reader::new(Box::new(text.as_bytes()));
            let v: Vec<Modular<M>> = reader.read_vec(t.len() - 3);
            assert_eq!(v.len(), t.len() - 3);
            v[k]
        }
        "readt" => {
            let k: usize = p(t[2]);
            let text = format!("{} {}\n{}\n", t[3], t[4], t[5]);
            let mut reader = Reader::new(Box::new(text.as_bytes()));
            let (a, i, b): (Modular<M>, i64, Modular<M>) = reader.read();
            assert_eq!(i, p::<i64>(t[4]));
            if k == 0 {
                a
            } else {
                b
            }
        }
        "neg" => -m(t[2]),
        "inv" => m(t[2]).inv(),
        "pow" => m(t[2]).pow(p::<u64>(t[3])),
        "add" => m(t[2]) + m(t[3]),
        "sub" => m(t[2]) - m(t[3]),
        "mul" => m(t[2]) * m(t[3]),
        "div" => m(t[2]) / m(t[3]),
        "adda" => {
            let mut x = m(t[2]);
            x += m(t[3]);
            x
        }
        "suba" => {
            let mut x = m(t[2]);
            x -= m(t[3]);
            x
        }
        "mula" => {
            let mut x = m(t[2]);
            x *= m(t[3]);
            x
        }
        "diva" => {
            let mut x = m(t[2]);
            x /= m(t[3]);
            x
        }
        "eq" => {
            return eq_line(m(t[2]), m(t[3]));
        }
        "rpn" => {
            let mut st: Vec<Modular<M>> = Vec::new();
            let n = t.len();
            for (idx, tok) in t[2..].iter().enumerate() {
                let tok = *tok;
                if is_literal(tok) {
                    st.push(m(tok));
                    continue;
                }
                match tok {
                    "Z" => st.push(Modular::<M>::ZERO),
                    "O" => st.push(Modular::<M>::ONE),
                    "dup" => {
                        let x = *st.last().unwrap();
                        st.push(x);
                    }
                    "neg" => {
                        let x = st.pop().unwrap();
                        st.push(-x);
                    }
                    "inv" => {
                        let x = st.pop().unwrap();
                        st.push(x.inv());
                    }
                    "==" => {
                        assert!(idx + 3 == n && st.len() == 2, "== must end the program");
                        return eq_line(st[0], st[1]);
                    }
                    _ if tok.starts_with('^') => {
                        let x = st.pop().unwrap();
                        st.push(x.pow(p::<u64>(&tok[1..])));
                    }
                    _ => {
                        let y = st.pop().unwrap();
                        let mut x = st.pop().unwrap();
                        let r = match tok {
                            "+" => x + y,
                            "-" => x - y,
                            "*" => x * y,
                            "/" => x / y,
                            "+=" => {
                                x += y;
                                x
                            }
                            "-=" => {
                                x -= y;
                                x
                            }
                            "*=" => {
                                x *= y;
                                x
                            }
                            "/=" => {
                                x /= y;
                                x
                            }
                            other => {
                                eprintln!("harness: unknown rpn token {}", other);
                                std::process::exit(3)
                            }
                        };
                        st.push(r);
                    }
                }
            }
            if st.len() != 1 {
                eprintln!("harness: rpn program leaves {} values", st.len());
                std::process::exit(3)
            }
            st[0]
        }
        "tinv" | "tdiv" => {
            // a fresh thread: first the same number under two other moduli (a per-thread table keyed by the value
            // alone would now hold their inverses), then under M; this thread inverts under a third modulus meanwhile
            let a: i64 = p(t[2]);
            let b: i64 = if t[1] == "tdiv" { p(t[3]) } else { 0 };
            let div = t[1] == "tdiv";
            let h = std::thread::spawn(move || {
                let d = if div { b } else { a };
                let w1 = Modular::<65537>::new(d).inv();
                let w2 = Modular::<1000000007>::new(d).inv();
                let r = if div { Modular::<M>::new(a) / Modular::<M>::new(b) } else { Modular::<M>::new(a).inv() };
                (r, w1.inner(), w2.inner())
            });
            let d = if div { b } else { a };
            let here = Modular::<998244353>::new(d).inv();
            let (r, w1, w2) = h.join().unwrap();
            assert_eq!(w1, Modular::<65537>::new(d).inv().inner());
            assert_eq!(w2, Modular::<1000000007>::new(d).inv().inner());
            assert_eq!(here.inner(), Modular::<998244353>::new(d).inv().inner());
            r
        }
        "show" | "showd" => {
            let a = m(t[2]);
            let s = if t[1] == "show" {
                let st = ShowSettings { mint_max: p::<i64>(t[3]), mint_rational: t[4] != "0", ..ShowSettings::new() };
                a.show(&st)
            } else {
                a.show(&ShowSettings::new())
            };
            return format!("S {}", hex(s.as_bytes()));
        }
        other => {
            eprintln!("harness: unknown op {}", other);
            std::process::exit(3)
        }
    };
    let sink = written(&r);
    assert_eq!(Modular::<M>::md(), M);
    let mut line = format!(
        "R {} {} {} {}",
        r.inner(),
        hex(format!("{}", r).as_bytes()),
        hex(format!("{:?}", r).as_bytes()),
        hex(&sink)
    );
    for b in consistency(r) {
        line.push(' ');
        line.push_str(b);
    }
    line
}

macro_rules! dispatch {
    ($t:expr, $($m:literal),*) => {
        match $t[0] {
            $( stringify!($m) => run::<$m>($t), )*
            "Mint998" => run::<{ <Mint998 as HasM>::MM }>($t),
            "Mint107" => run::<{ <Mint107 as HasM>::MM }>($t),
            other => {
                eprintln!("harness: modulus {} is not instantiated", other);
                std::process::exit(3)
            }
        }
    };
}

fn main() {
    vh::serve(|t| {
        dispatch!(
            t, 2, 3, 4, 5, 6, 7, 9, 10, 11, 12, 15, 21, 25, 341, 561, 46341, 65536, 65537, 1373653, 16777216,
            16777259, 998244353, 1000000000, 1000000007, 1073741823, 1073741824, 1073741827, 2147483645, 2147483646,
            2147483647, 2147483629
        )
    });
}
