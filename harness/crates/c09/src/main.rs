//! C09 executor.  One case per line:
//!   Q                                   -> "B <Writer::VERIF_BUF_SIZE>"
//!   S <maxchunk> <intr_permille> <seed> <rt> <op>*
//!   D <maxchunk> <intr_permille> <seed> <rt> <which> <dropfirst> (<0|1> <op>)*
//!        two writers over two sinks alive at the same time, operations interleaved as listed; the answer
//!        describes writer <which>; the other writer's sink must equal ITS to_string rendering, otherwise
//!        the verdict is F!other
//!   M <rt> <out> <thr0> <op>*    the script runs in a child process (this binary, `--makeio <thr0> <op>*`) through
//!        the real `make_io!` (stdin/stdout locks) and ends by returning from the function; the parent reports what
//!        arrived on the child's stdout (no `f` lengths: the child cannot see its pipe).
//!        `nx` ops cut the script into SEVERAL make_io! invocations in the one child process, each in its own
//!        function scope (the Writer of the earlier one has been dropped when the next one is made); between two
//!        invocations the child may print a marker with plain `print!`; an invocation may run on a spawned thread
//!        (<thr0> for the first one).  `e` ops take their value from the child's stdin through the `reader` that
//!        make_io! made (the parent pipes the renderings in) and write it through `writer`.
//!        <out>: 0 the child's stdout is a pipe | 1 an empty regular file | 2 a regular file that already holds a
//!        line, the handle positioned behind it (the line must still be there afterwards)
//!   U <via> <entry> <bug> <mid> <maxchunk> <intr> <seed> <rt> <op>*
//!        like S, but the writer's life ends because the CALLER's code panics after the last piece while the sink is
//!        perfectly healthy: the Writer is dropped by UNWINDING (std::thread::panicking() is true inside its Drop).
//!        <via>: 0 the script runs in a closure under catch_unwind | 1 on a worker thread that panics (joined)
//!             | 2 the whole script (new .. normal drop) runs inside a destructor while the thread is unwinding
//!        <entry>: 0 public API | 1 `w` pieces through the trait method `Writable::write(&v, &mut writer)` directly
//!             (the entry point of user-defined impls: no flush per write in debug builds, so bytes are pending there too)
//!        <bug>: 0 index out of range in an argument of writer.write | 1 a user-defined Writable impl that panics after
//!             it has written the script's last `w` piece (falls back to 0 when the script does not end with `w`)
//!             | 2 panic_any
//!        <mid>: -1, or an op index before which the same bug happens once with the writer only borrowed (caught; the
//!             writer lives on and must behave as if nothing had happened)
//!        Same R line as S.  A panic that is not the caller's bug (the writer's own) is answered with P.
//!   D: <dropfirst> + 2: both writers are dropped by unwinding from a panic of the caller.
//!   M: a final `pn` op: the function that called make_io! panics there (caller's bug); the child's main catches it.
//! op  := w <val> | c <codepoint> | f | o <n> <val>*n | ol <n> <val>*n
//!      | mv  (the writer is moved: boxed, passed through a function, moved back; no output)
//!      | nw  (S only: the writer is dropped and a NEW Writer is made over the same sink; reported like an
//!             explicit flush: the sink's length right after the drop)
//!      | nx <hex|-> <0|1>  (M only: leave the function (drop), print the marker with print!, make_io! again,
//!             on a spawned thread if 1)
//!      | e <val>  (M only, <val> an integer or a whitespace-free string: read::<T>() from stdin, then write)
//! val := <ity> <num> | s <hex|-> (String) | r <hex|-> (&str) | fill <byte> <k> (String of k copies)
//!      | rfill <byte> <k> (the same as &str) | runs <n> (<byte> <k>)*n / rruns .. (ONE String / &str made of n runs)
//!      | fillu <codepoint> <k> <byte> <j> / rfillu .. (String / &str: j copies of an ASCII byte, then k copies of a char)
//!      | v <n> <val>*n (Vec<Val>) | t <n> <val>*n (tuple, arity 2..8) | nv <ity> <n> <num>*n (Vec<ity>)
//!      | nvrep <ity> <num> <k> (Vec<ity> of k copies)
//! rt  := 0 no read back | 1 element by element (read::<int>, read::<String> for whitespace-free ASCII strings)
//!      | 3 structured (read_vec for Vec<int>, the tuple impl for tuples of one integer type) | 2 read_lines
//! In a debug build every public write has to leave the buffer empty: after each operation the executor calls
//! flush() itself and the sink must not grow (otherwise the verdict is F!dbgflush<op index>).
//! The sink accepts 1..maxchunk bytes per `write` call and answers Interrupted with the given
//! probability (write_all of std has to cope).  Output:
//!   R <sink hex|-> <nflush> <sink length after each explicit flush>* <T|F hex: sink == concat of to_string()> <N|T|F: read back>
//! or P when the writer panicked.
//!   X <ity> <all|rand|vec> <seed> <count> <maxchunk> <intr_permille>   (implementation-level search)
//!       -> "X ok <values> <bytes>" | "X bad <what>": many values of one type through one writer,
//!          compared with to_string and read back through Reader; `vec`: the values as ONE Vec<ity>, as
//!          Vec<Vec<ity>> and as Vec<(ity, ity)>, read back with read_vec
// make_output_macro_! calls itself by its bare name, so it has to be in scope at the call site
use rlib_io::make_output_macro_;
use rlib_io::reader::Reader;
use rlib_io::writer::{Writable, Writer};
use std::cell::RefCell;
use std::io::Write;
use std::mem::ManuallyDrop;
use std::panic::{catch_unwind, AssertUnwindSafe};
use std::rc::Rc;
use std::sync::atomic::{AtomicBool, Ordering};
use vh::{p, Sm};

#[derive(Clone, Debug)]
enum Val {
    I8(i8),
    I16(i16),
    I32(i32),
    I64(i64),
    I128(i128),
    Isize(isize),
    U8(u8),
    U16(u16),
    U32(u32),
    U64(u64),
    U128(u128),
    Usize(usize),
    Str(String),
    StrRef(String),
    Vec(Vec<Val>),
    Tup(Vec<Val>),
    NV8(Vec<i8>),
    NV16(Vec<i16>),
    NV32(Vec<i32>),
    NV64(Vec<i64>),
    NV128(Vec<i128>),
    NVsize(Vec<isize>),
    NU8(Vec<u8>),
    NU16(Vec<u16>),
    NU32(Vec<u32>),
    NU64(Vec<u64>),
    NU128(Vec<u128>),
    NUsize(Vec<usize>),
}

/// `Val` only forwards to the library's own impls: `Writer::write(&val)` = `val.write(w)` + debug flush
/// = `inner.write(w)` + debug flush = `Writer::write(&inner)`.
impl Writable for Val {
    fn write(&self, w: &mut Writer) {
        use Val::*;
        match self {
            I8(x) => x.write(w),
            I16(x) => x.write(w),
            I32(x) => x.write(w),
            I64(x) => x.write(w),
            I128(x) => x.write(w),
            Isize(x) => x.write(w),
            U8(x) => x.write(w),
            U16(x) => x.write(w),
            U32(x) => x.write(w),
            U64(x) => x.write(w),
            U128(x) => x.write(w),
            Usize(x) => x.write(w),
            Str(s) => s.write(w),
            StrRef(s) => s.as_str().write(w),
            Vec(v) => v.write(w),
            Tup(v) => match v.len() {
                2 => (v[0].clone(), v[1].clone()).write(w),
                3 => (v[0].clone(), v[1].clone(), v[2].clone()).write(w),
                4 => (v[0].clone(), v[1].clone(), v[2].clone(), v[3].clone()).write(w),
                5 => (v[0].clone(), v[1].clone(), v[2].clone(), v[3].clone(), v[4].clone()).write(w),
                6 => (v[0].clone(), v[1].clone(), v[2].clone(), v[3].clone(), v[4].clone(), v[5].clone()).write(w),
                7 => (
                    v[0].clone(),
                    v[1].clone(),
                    v[2].clone(),
                    v[3].clone(),
                    v[4].clone(),
                    v[5].clone(),
                    v[6].clone(),
                )
                    .write(w),
                8 => (
                    v[0].clone(),
                    v[1].clone(),
                    v[2].clone(),
                    v[3].clone(),
                    v[4].clone(),
                    v[5].clone(),
                    v[6].clone(),
                    v[7].clone(),
                )
                    .write(w),
                n => {
                    eprintln!("harness: tuple arity {}", n);
                    std::process::exit(3)
                }
            },
            NV8(v) => v.write(w),
            NV16(v) => v.write(w),
            NV32(v) => v.write(w),
            NV64(v) => v.write(w),
            NV128(v) => v.write(w),
            NVsize(v) => v.write(w),
            NU8(v) => v.write(w),
            NU16(v) => v.write(w),
            NU32(v) => v.write(w),
            NU64(v) => v.write(w),
            NU128(v) => v.write(w),
            NUsize(v) => v.write(w),
        }
    }
}

fn join<T: ToString>(v: &[T]) -> String {
    v.iter().map(|x| x.to_string()).collect::<Vec<_>>().join(" ")
}

impl Val {
    /// second oracle: standard formatting
    fn render(&self) -> String {
        use Val::*;
        match self {
            I8(x) => x.to_string(),
            I16(x) => x.to_string(),
            I32(x) => x.to_string(),
            I64(x) => x.to_string(),
            I128(x) => x.to_string(),
            Isize(x) => x.to_string(),
            U8(x) => x.to_string(),
            U16(x) => x.to_string(),
            U32(x) => x.to_string(),
            U64(x) => x.to_string(),
            U128(x) => x.to_string(),
            Usize(x) => x.to_string(),
            Str(s) | StrRef(s) => s.clone(),
            Vec(v) | Tup(v) => v.iter().map(|x| x.render()).collect::<std::vec::Vec<_>>().join(" "),
            NV8(v) => join(v),
            NV16(v) => join(v),
            NV32(v) => join(v),
            NV64(v) => join(v),
            NV128(v) => join(v),
            NVsize(v) => join(v),
            NU8(v) => join(v),
            NU16(v) => join(v),
            NU32(v) => join(v),
            NU64(v) => join(v),
            NU128(v) => join(v),
            NUsize(v) => join(v),
        }
    }

    /// what a reader has to find, in writing order (false: not readable in this mode).
    /// structured = false: one `read::<T>()` per integer, `read::<String>()` per string token;
    /// structured = true: additionally `read_vec::<T>(n)` for Vec<int>, the tuple impl for tuples of one integer type
    fn reads(&self, structured: bool, out: &mut std::vec::Vec<Rd>) -> bool {
        use Val::*;
        macro_rules! one {
            ($n:expr, $x:expr) => {{
                out.push(Rd::Int($n, $x.to_string()));
                true
            }};
        }
        macro_rules! many {
            ($n:expr, $v:expr) => {{
                if structured {
                    out.push(Rd::VecOf($n, $v.iter().map(|x| x.to_string()).collect()));
                } else {
                    for x in $v.iter() {
                        out.push(Rd::Int($n, x.to_string()));
                    }
                }
                true
            }};
        }
        match self {
            I8(x) => one!("i8", x),
            I16(x) => one!("i16", x),
            I32(x) => one!("i32", x),
            I64(x) => one!("i64", x),
            I128(x) => one!("i128", x),
            Isize(x) => one!("isize", x),
            U8(x) => one!("u8", x),
            U16(x) => one!("u16", x),
            U32(x) => one!("u32", x),
            U64(x) => one!("u64", x),
            U128(x) => one!("u128", x),
            Usize(x) => one!("usize", x),
            Str(s) | StrRef(s) => {
                // a token for `read::<String>()`: not empty, printable ASCII without blanks
                if !s.is_empty() && s.bytes().all(|b| (33..127).contains(&b)) {
                    out.push(Rd::Str(s.clone()));
                    true
                } else {
                    false
                }
            }
            Tup(v) if structured && v.iter().all(|x| x.int_ty().is_some() && x.int_ty() == v[0].int_ty()) => {
                let mut tmp = std::vec::Vec::new();
                for x in v {
                    x.reads(false, &mut tmp);
                }
                let texts = tmp
                    .into_iter()
                    .map(|r| match r {
                        Rd::Int(_, s) => s,
                        _ => unreachable!(),
                    })
                    .collect();
                out.push(Rd::TupOf(v[0].int_ty().unwrap(), texts));
                true
            }
            Vec(v) | Tup(v) => v.iter().all(|x| x.reads(structured, out)),
            NV8(v) => many!("i8", v),
            NV16(v) => many!("i16", v),
            NV32(v) => many!("i32", v),
            NV64(v) => many!("i64", v),
            NV128(v) => many!("i128", v),
            NVsize(v) => many!("isize", v),
            NU8(v) => many!("u8", v),
            NU16(v) => many!("u16", v),
            NU32(v) => many!("u32", v),
            NU64(v) => many!("u64", v),
            NU128(v) => many!("u128", v),
            NUsize(v) => many!("usize", v),
        }
    }

    fn int_ty(&self) -> Option<&'static str> {
        use Val::*;
        Some(match self {
            I8(_) => "i8",
            I16(_) => "i16",
            I32(_) => "i32",
            I64(_) => "i64",
            I128(_) => "i128",
            Isize(_) => "isize",
            U8(_) => "u8",
            U16(_) => "u16",
            U32(_) => "u32",
            U64(_) => "u64",
            U128(_) => "u128",
            Usize(_) => "usize",
            _ => return None,
        })
    }
}

/// one item the reader has to return
enum Rd {
    Int(&'static str, String),
    Str(String),
    VecOf(&'static str, Vec<String>),
    TupOf(&'static str, Vec<String>),
}

fn unhex(s: &str) -> String {
    if s == "-" {
        return String::new();
    }
    let b = s.as_bytes();
    let mut v = Vec::with_capacity(b.len() / 2);
    for i in (0..b.len()).step_by(2) {
        v.push(u8::from_str_radix(&s[i..i + 2], 16).unwrap());
    }
    String::from_utf8(v).unwrap_or_else(|_| {
        eprintln!("harness: string is not UTF-8");
        std::process::exit(3)
    })
}

fn hex(b: &[u8]) -> String {
    if b.is_empty() {
        return "-".to_string();
    }
    let mut s = String::with_capacity(2 * b.len());
    for x in b {
        s.push_str(&format!("{:02x}", x));
    }
    s
}

fn parse_val(t: &[&str], i: &mut usize) -> Val {
    let k = t[*i];
    *i += 1;
    macro_rules! int {
        ($c:ident) => {{
            let x = p(t[*i]);
            *i += 1;
            Val::$c(x)
        }};
    }
    macro_rules! nv {
        ($c:ident, $n:expr) => {{
            let mut v = Vec::new();
            for _ in 0..$n {
                v.push(p(t[*i]));
                *i += 1;
            }
            Val::$c(v)
        }};
    }
    match k {
        "i8" => int!(I8),
        "i16" => int!(I16),
        "i32" => int!(I32),
        "i64" => int!(I64),
        "i128" => int!(I128),
        "isize" => int!(Isize),
        "u8" => int!(U8),
        "u16" => int!(U16),
        "u32" => int!(U32),
        "u64" => int!(U64),
        "u128" => int!(U128),
        "usize" => int!(Usize),
        "s" => {
            *i += 1;
            Val::Str(unhex(t[*i - 1]))
        }
        "r" => {
            *i += 1;
            Val::StrRef(unhex(t[*i - 1]))
        }
        "fill" | "rfill" => {
            let c: u8 = p(t[*i]);
            let n: usize = p(t[*i + 1]);
            *i += 2;
            let s = String::from_utf8(vec![c; n]).unwrap();
            if k == "fill" {
                Val::Str(s)
            } else {
                Val::StrRef(s)
            }
        }
        "runs" | "rruns" => {
            let n: usize = p(t[*i]);
            *i += 1;
            let mut b = Vec::new();
            for _ in 0..n {
                let c: u8 = p(t[*i]);
                let m: usize = p(t[*i + 1]);
                *i += 2;
                b.resize(b.len() + m, c);
            }
            let s = String::from_utf8(b).unwrap_or_else(|_| bad("runs: not UTF-8"));
            if k == "runs" {
                Val::Str(s)
            } else {
                Val::StrRef(s)
            }
        }
        "fillu" | "rfillu" => {
            let c = char::from_u32(p(t[*i])).unwrap_or_else(|| bad("fillu: code point"));
            let n: usize = p(t[*i + 1]);
            let pre: u8 = p(t[*i + 2]);
            let npre: usize = p(t[*i + 3]);
            *i += 4;
            let mut s = String::from_utf8(vec![pre; npre]).unwrap_or_else(|_| bad("fillu: prefix byte"));
            s.extend(std::iter::repeat(c).take(n));
            if k == "fillu" {
                Val::Str(s)
            } else {
                Val::StrRef(s)
            }
        }
        "v" | "t" => {
            let n: usize = p(t[*i]);
            *i += 1;
            let mut v = Vec::new();
            for _ in 0..n {
                v.push(parse_val(t, i));
            }
            if k == "v" {
                Val::Vec(v)
            } else {
                Val::Tup(v)
            }
        }
        "nvrep" => {
            let ty = t[*i];
            let n: usize = p(t[*i + 2]);
            macro_rules! rep {
                ($c:ident) => {
                    Val::$c(vec![p(t[*i + 1]); n])
                };
            }
            let v = match ty {
                "i8" => rep!(NV8),
                "i16" => rep!(NV16),
                "i32" => rep!(NV32),
                "i64" => rep!(NV64),
                "i128" => rep!(NV128),
                "isize" => rep!(NVsize),
                "u8" => rep!(NU8),
                "u16" => rep!(NU16),
                "u32" => rep!(NU32),
                "u64" => rep!(NU64),
                "u128" => rep!(NU128),
                "usize" => rep!(NUsize),
                _ => bad(ty),
            };
            *i += 3;
            v
        }
        "nv" => {
            let ty = t[*i];
            let n: usize = p(t[*i + 1]);
            *i += 2;
            match ty {
                "i8" => nv!(NV8, n),
                "i16" => nv!(NV16, n),
                "i32" => nv!(NV32, n),
                "i64" => nv!(NV64, n),
                "i128" => nv!(NV128, n),
                "isize" => nv!(NVsize, n),
                "u8" => nv!(NU8, n),
                "u16" => nv!(NU16, n),
                "u32" => nv!(NU32, n),
                "u64" => nv!(NU64, n),
                "u128" => nv!(NU128, n),
                "usize" => nv!(NUsize, n),
                _ => bad(ty),
            }
        }
        _ => bad(k),
    }
}

fn bad(k: &str) -> ! {
    eprintln!("harness: unknown token {:?}", k);
    std::process::exit(3)
}

enum Op {
    Write(Val),
    Char(char),
    Flush,
    Out(Vec<Val>),
    Outln(Vec<Val>),
    Mv,
    Renew,
    Next(String, bool),
    Echo(Val),
    Bug,
}

/// A sink with a scripted acceptance pattern.
struct Sink {
    data: Rc<RefCell<Vec<u8>>>,
    rng: Sm,
    maxchunk: usize,
    intr: u64,
}

impl Write for Sink {
    fn write(&mut self, buf: &[u8]) -> std::io::Result<usize> {
        if self.rng.next() % 1000 < self.intr {
            return Err(std::io::Error::new(std::io::ErrorKind::Interrupted, "scripted"));
        }
        if buf.is_empty() {
            return Ok(0);
        }
        let n = 1 + (self.rng.next() as usize) % self.maxchunk.min(buf.len());
        self.data.borrow_mut().extend_from_slice(&buf[..n]);
        Ok(n)
    }
    fn flush(&mut self) -> std::io::Result<()> {
        Ok(())
    }
}

/// The writer changes its address: onto the heap, through a call, back.  (A writer that keeps a pointer into its own
/// buffer, or whose buffer lives outside the struct, does not survive this or shares state with its neighbour.)
#[inline(never)]
fn relocate<'a>(w: Writer<'a>) -> Writer<'a> {
    let b = Box::new(w);
    let pad = vec![0x5au8; 1 << 17];
    std::hint::black_box(&pad);
    let b = std::hint::black_box(b);
    *b
}

/// One operation through the public API.  `out!` / `outln!` are the macros `make_output_macro!` (or `make_io!`)
/// defined at the place of use for `$writer`; `$on_flush` runs after an explicit flush, `$mv` moves the writer.
macro_rules! exec_op {
    ($op:expr, $writer:ident, $on_flush:block, $mv:block) => {
        match $op {
            Op::Write(v) => $writer.write(v),
            Op::Char(c) => $writer.write_char(*c),
            Op::Flush => {
                $writer.flush();
                $on_flush
            }
            Op::Mv => $mv,
            Op::Renew | Op::Next(..) | Op::Echo(_) | Op::Bug => bad("nw / nx / e / pn outside their mode"),
            Op::Out(v) => match v.len() {
                1 => {
                    out!(v[0]);
                }
                2 => {
                    out!(v[0], v[1]);
                }
                3 => {
                    out!(v[0], v[1], v[2]);
                }
                4 => {
                    out!(v[0], v[1], v[2], v[3]);
                }
                5 => {
                    out!(v[0], v[1], v[2], v[3], v[4]);
                }
                n => bad(&format!("out arity {}", n)),
            },
            Op::Outln(v) => match v.len() {
                0 => {
                    outln!();
                }
                1 => {
                    outln!(v[0]);
                }
                2 => {
                    outln!(v[0], v[1]);
                }
                3 => {
                    outln!(v[0], v[1], v[2]);
                }
                4 => {
                    outln!(v[0], v[1], v[2], v[3]);
                }
                5 => {
                    outln!(v[0], v[1], v[2], v[3], v[4]);
                }
                n => bad(&format!("outln arity {}", n)),
            },
        }
    };
}

/// debug builds: `write` / `write_char` end with a flush, so after any operation a further flush delivers nothing
macro_rules! debug_flush_check {
    ($op:expr, $idx:expr, $writer:ident, $data:expr, $fail:expr) => {
        #[cfg(debug_assertions)]
        {
            if !matches!($op, Op::Flush | Op::Mv | Op::Renew) {
                let before = $data.borrow().len();
                $writer.flush();
                if $data.borrow().len() != before && $fail.is_none() {
                    *$fail = Some($idx);
                }
            }
        }
        #[cfg(not(debug_assertions))]
        {
            let _ = ($idx, &$fail);
        }
    };
}

fn run_ops(ops: &[Op], sink: Sink, data: &Rc<RefCell<Vec<u8>>>, dbg_fail: &mut Option<usize>) -> Vec<usize> {
    let mut flushes = Vec::new();
    let reader = ();
    let (seed, maxchunk, intr) = (sink.rng.0, sink.maxchunk, sink.intr);
    let mut generation = 0u64;
    // ManuallyDrop: if an operation panics the unwinding must not run Drop (a second panic would abort)
    let writer = ManuallyDrop::new(Writer::new(Box::new(sink)));
    rlib_io::make_output_macro!(reader, writer);
    let _ = reader;
    for (idx, op) in ops.iter().enumerate() {
        if let Op::Renew = op {
            // the end of this writer's life; the sink goes on living and gets the next writer.  Everything written
            // so far has to be in the sink NOW (reported as a flush point), the new writer starts empty.
            drop(ManuallyDrop::into_inner(writer));
            flushes.push(data.borrow().len());
            generation += 1;
            let next = Sink { data: data.clone(), rng: Sm(seed ^ generation.wrapping_mul(0x9e37_79b9)), maxchunk, intr };
            writer = ManuallyDrop::new(Writer::new(Box::new(next)));
            continue;
        }
        exec_op!(op, writer, { flushes.push(data.borrow().len()) }, {
            writer = ManuallyDrop::new(relocate(ManuallyDrop::into_inner(writer)));
        });
        debug_flush_check!(op, idx, writer, data, dbg_fail);
    }
    // the end of the writer's life: impl Drop
    drop(ManuallyDrop::into_inner(writer));
    flushes
}

// ------------------------------------------------------------------ the writer's life ends by unwinding
/// payload of the caller's panic
struct CallerBug;

/// set right before the caller's bug fires: a panic with the flag down is the writer's own and is answered with P
static ARMED: AtomicBool = AtomicBool::new(false);

/// the bug in the caller's program; the sink and the writer are healthy
#[inline(never)]
fn callers_bug(kind: u32, writer: &mut Writer) -> ! {
    match kind {
        0 => {
            let answers: Vec<u32> = Vec::new();
            let k = std::hint::black_box(answers.len() + 3);
            writer.write(&answers[k]);
        }
        _ => {}
    }
    std::panic::panic_any(CallerBug)
}

/// a user-defined `Writable`: writes its content through the library's impls, then runs into its own bug
struct Bomb<'a>(&'a Val);
impl Writable for Bomb<'_> {
    fn write(&self, w: &mut Writer) {
        self.0.write(w);
        ARMED.store(true, Ordering::SeqCst);
        std::panic::panic_any(CallerBug)
    }
}

/// Owner of the writer while the script runs.  Unwinding from the caller's bug drops the writer (impl Drop for Writer
/// runs with std::thread::panicking() == true); unwinding from any other panic leaks it (a flush of a broken writer
/// during unwinding could panic again, and a panic that leaves a destructor during unwinding aborts the process).
struct Unwound {
    w: ManuallyDrop<Writer<'static>>,
    drop_panicked: Rc<RefCell<bool>>,
}
impl Drop for Unwound {
    fn drop(&mut self) {
        if ARMED.load(Ordering::SeqCst) {
            let w = &mut self.w;
            // SAFETY: dropped exactly once, nothing uses the writer afterwards
            if catch_unwind(AssertUnwindSafe(|| unsafe { ManuallyDrop::drop(w) })).is_err() {
                *self.drop_panicked.borrow_mut() = true;
            }
        }
    }
}

/// runs its closure when it is dropped
struct RunsInDrop<F: FnMut()>(F);
impl<F: FnMut()> Drop for RunsInDrop<F> {
    fn drop(&mut self) {
        (self.0)()
    }
}

/// moves a job to a worker thread.  The job holds `Rc`s whose other clones the spawning thread does not touch
/// before the worker has been joined.
struct Carry<F>(F);
unsafe impl<F> Send for Carry<F> {}
impl<F: FnOnce()> Carry<F> {
    fn call(self) {
        (self.0)()
    }
}

struct UnwindCfg {
    entry: u32,
    bug: u32,
    mid: i64,
}

/// the script, then the caller's bug; never returns normally
fn run_ops_then_bug(
    ops: &[Op],
    sink: Sink,
    data: &Rc<RefCell<Vec<u8>>>,
    cfg: &UnwindCfg,
    flushes: &mut Vec<usize>,
    dbg_fail: &mut Option<usize>,
    drop_panicked: &Rc<RefCell<bool>>,
) {
    let reader = ();
    let (seed, maxchunk, intr) = (sink.rng.0, sink.maxchunk, sink.intr);
    let mut generation = 0u64;
    let mut guard = Unwound { w: ManuallyDrop::new(Writer::new(Box::new(sink))), drop_panicked: drop_panicked.clone() };
    let writer: &mut Writer<'static> = &mut *guard.w;
    rlib_io::make_output_macro!(reader, writer);
    let _ = reader;
    let bomb_at = match (cfg.bug, ops.last()) {
        (1, Some(Op::Write(_))) => ops.len() - 1,
        _ => usize::MAX,
    };
    for (idx, op) in ops.iter().enumerate() {
        if idx as i64 == cfg.mid {
            // the caller's bug once in the middle, caught by the caller; the writer was only borrowed
            let w: &mut Writer<'static> = &mut *writer;
            let kind = cfg.bug;
            if catch_unwind(AssertUnwindSafe(move || callers_bug(kind, w))).is_ok() {
                bad("the caller's bug did not fire");
            }
        }
        match op {
            Op::Renew => {
                // SAFETY: the slot is refilled before anything else looks at it; if the drop panics the guard is not
                // armed and never touches the slot again
                unsafe { std::ptr::drop_in_place(&mut *writer as *mut Writer<'static>) };
                flushes.push(data.borrow().len());
                generation += 1;
                let next = Sink { data: data.clone(), rng: Sm(seed ^ generation.wrapping_mul(0x9e37_79b9)), maxchunk, intr };
                unsafe { std::ptr::write(&mut *writer as *mut Writer<'static>, Writer::new(Box::new(next))) };
                continue;
            }
            Op::Write(v) if idx == bomb_at => {
                writer.write(&Bomb(v));
                bad("the caller's bug did not fire");
            }
            Op::Write(v) if cfg.entry == 1 => Writable::write(v, &mut *writer),
            _ => {
                exec_op!(op, writer, { flushes.push(data.borrow().len()) }, {
                    // SAFETY: relocate does not unwind
                    unsafe {
                        let p = &mut *writer as *mut Writer<'static>;
                        std::ptr::write(p, relocate(std::ptr::read(p)));
                    }
                });
                if cfg.entry == 0 {
                    debug_flush_check!(op, idx, writer, data, dbg_fail);
                }
            }
        }
    }
    ARMED.store(true, Ordering::SeqCst);
    callers_bug(cfg.bug, writer)
}

/// U lines.  Err: a panic that was not the caller's bug.
fn run_unwinding(
    ops: &[Op],
    sink: Sink,
    data: &Rc<RefCell<Vec<u8>>>,
    via: u32,
    cfg: &UnwindCfg,
    dbg_fail: &mut Option<usize>,
) -> Result<Vec<usize>, ()> {
    ARMED.store(false, Ordering::SeqCst);
    let mut flushes = Vec::new();
    let drop_panicked = Rc::new(RefCell::new(false));
    let mut inner_panicked = false;
    let caught = match via {
        0 => catch_unwind(AssertUnwindSafe(|| run_ops_then_bug(ops, sink, data, cfg, &mut flushes, dbg_fail, &drop_panicked))).is_err(),
        1 => {
            let job = Carry(|| run_ops_then_bug(ops, sink, data, cfg, &mut flushes, dbg_fail, &drop_panicked));
            std::thread::scope(|s| {
                std::thread::Builder::new().stack_size(16 << 20).spawn_scoped(s, move || job.call()).unwrap().join().is_err()
            })
        }
        _ => {
            if cfg.entry != 0 || cfg.mid >= 0 {
                bad("U 2: public API, no mid-script bug");
            }
            let mut sink = Some(sink);
            let r = catch_unwind(AssertUnwindSafe(|| {
                let _g = RunsInDrop(|| {
                    // the thread is unwinding; the writer is made, used and dropped in the ordinary way
                    let sink = sink.take().unwrap();
                    match catch_unwind(AssertUnwindSafe(|| run_ops(ops, sink, data, dbg_fail))) {
                        Ok(f) => flushes = f,
                        Err(_) => inner_panicked = true,
                    }
                });
                ARMED.store(true, Ordering::SeqCst);
                std::panic::panic_any(CallerBug)
            }));
            r.is_err()
        }
    };
    let armed = ARMED.swap(false, Ordering::SeqCst);
    if !caught {
        bad("the caller's bug did not fire");
    }
    if !armed || inner_panicked || *drop_panicked.borrow() {
        return Err(());
    }
    Ok(flushes)
}

/// drops the two writers of a D case in the given order (used while unwinding)
struct DropBoth<'a>(&'a mut [ManuallyDrop<Writer<'static>>; 2], usize, &'a mut bool);
impl Drop for DropBoth<'_> {
    fn drop(&mut self) {
        for k in [self.1 & 1, 1 - (self.1 & 1)] {
            let w = &mut self.0[k];
            // SAFETY: each slot is dropped exactly once, nothing uses it afterwards
            if catch_unwind(AssertUnwindSafe(|| unsafe { ManuallyDrop::drop(w) })).is_err() {
                *self.2 = true;
            }
        }
    }
}

/// one operation on a writer that lives elsewhere (two writers alive at the same time)
fn apply(
    op: &Op,
    idx: usize,
    slot: &mut ManuallyDrop<Writer<'static>>,
    data: &Rc<RefCell<Vec<u8>>>,
    flushes: &mut Vec<usize>,
    dbg_fail: &mut Option<usize>,
) {
    if let Op::Mv = op {
        // SAFETY: the slot is refilled before anything else can look at it (relocate does not unwind)
        let w = unsafe { ManuallyDrop::take(slot) };
        *slot = ManuallyDrop::new(relocate(w));
        return;
    }
    let reader = ();
    let writer: &mut Writer<'static> = &mut *slot;
    rlib_io::make_output_macro!(reader, writer);
    let _ = reader;
    exec_op!(op, writer, { flushes.push(data.borrow().len()) }, {});
    debug_flush_check!(op, idx, writer, data, dbg_fail);
}

macro_rules! with_int_ty {
    ($ty:expr, $m:ident, $($a:tt)*) => {
        match $ty {
            "i8" => $m!(i8, $($a)*),
            "i16" => $m!(i16, $($a)*),
            "i32" => $m!(i32, $($a)*),
            "i64" => $m!(i64, $($a)*),
            "i128" => $m!(i128, $($a)*),
            "isize" => $m!(isize, $($a)*),
            "u8" => $m!(u8, $($a)*),
            "u16" => $m!(u16, $($a)*),
            "u32" => $m!(u32, $($a)*),
            "u64" => $m!(u64, $($a)*),
            "u128" => $m!(u128, $($a)*),
            _ => $m!(usize, $($a)*),
        }
    };
}
macro_rules! echo_one {
    ($t:ty, $r:ident, $w:ident) => {{
        let x: $t = $r.read();
        $w.write(&x);
    }};
}

/// the `--makeio` child, ONE invocation: a piece of the script through the real `make_io!`; reader and writer are
/// dropped by leaving the function
#[inline(never)]
fn makeio_once(ops: &[Op]) {
    rlib_io::make_io!(reader, writer);
    for op in ops {
        if let Op::Echo(v) = op {
            match v {
                Val::Str(_) => echo_one!(String, reader, writer),
                Val::StrRef(_) => {
                    let x: String = reader.read();
                    writer.write(&x.as_str());
                }
                v => match v.int_ty() {
                    Some(ty) => with_int_ty!(ty, echo_one, reader, writer),
                    None => bad("e: integer or string expected"),
                },
            }
            continue;
        }
        if let Op::Bug = op {
            // the caller's bug: this function is left by unwinding, `writer` (a local made by make_io!) with it
            ARMED.store(true, Ordering::SeqCst);
            callers_bug(0, &mut writer);
        }
        exec_op!(op, writer, {}, {
            writer = relocate(writer);
        });
    }
}

fn makeio_invoke(ops: &[Op], on_thread: bool) {
    if on_thread {
        // the usual `big stack` idiom: solve() runs on a thread of its own and is joined
        let ok = std::thread::scope(|s| {
            std::thread::Builder::new().stack_size(16 << 20).spawn_scoped(s, || makeio_once(ops)).unwrap().join().is_ok()
        });
        if !ok {
            if ARMED.swap(false, Ordering::SeqCst) {
                return; // the caller's bug, on the worker thread
            }
            std::process::exit(101);
        }
    } else if matches!(ops.last(), Some(Op::Bug)) {
        std::panic::set_hook(Box::new(|_| {}));
        let r = catch_unwind(|| makeio_once(ops));
        if r.is_err() && !ARMED.swap(false, Ordering::SeqCst) {
            std::process::exit(101);
        }
    } else {
        makeio_once(ops);
    }
}

/// the `--makeio` child: the script cut at the `nx` ops, one `make_io!` per part, all in this one process; a marker
/// goes to standard output with plain `print!` while no Writer is alive
fn makeio_child(ops: &[Op], thr0: bool) {
    let mut from = 0;
    let mut on_thread = thr0;
    for (i, op) in ops.iter().enumerate() {
        if let Op::Next(marker, thr) = op {
            makeio_invoke(&ops[from..i], on_thread);
            if !marker.is_empty() {
                print!("{}", marker);
            }
            from = i + 1;
            on_thread = *thr;
        }
    }
    makeio_invoke(&ops[from..], on_thread);
}

/// Runs the child.  Ok: the bytes on the child's standard output; Err(None): the child failed (panic, abort);
/// Err(Some(..)): the executor's own verdict about the file standard output was redirected to.
fn makeio_parent(child_args: &[&str], ops: &[Op], outkind: u32) -> Result<Vec<u8>, Option<(Vec<u8>, String)>> {
    use std::process::{Command, Stdio};
    use std::sync::atomic::{AtomicUsize, Ordering};
    static SERIAL: AtomicUsize = AtomicUsize::new(0);
    const PRE: &[u8] = b"<<earlier output of the job>>\n";
    // what the `e` ops will ask the reader for, separated by blanks and newlines
    let mut feed = String::new();
    let mut k = 0;
    for op in ops {
        if let Op::Echo(v) = op {
            feed.push_str(&v.render());
            feed.push_str(["\n", " ", "  \n", "\t"][k % 4]);
            k += 1;
        }
    }
    if feed.len() > 32768 {
        bad("e: more input than a pipe takes at once");
    }
    let mut cmd = Command::new(std::env::current_exe().unwrap());
    cmd.arg("--makeio").args(child_args).stderr(Stdio::null());
    cmd.stdin(if feed.is_empty() { Stdio::null() } else { Stdio::piped() });
    let path = std::env::temp_dir().join(format!("c09-out-{}-{}", std::process::id(), SERIAL.fetch_add(1, Ordering::Relaxed)));
    if outkind == 0 {
        cmd.stdout(Stdio::piped());
    } else {
        let mut f = std::fs::File::create(&path).unwrap();
        if outkind == 2 {
            f.write_all(PRE).unwrap();
        }
        cmd.stdout(f);
    }
    let mut child = cmd.spawn().unwrap();
    if let Some(mut si) = child.stdin.take() {
        let _ = si.write_all(feed.as_bytes());
    }
    let out = child.wait_with_output().unwrap();
    let mut got = out.stdout;
    if outkind != 0 {
        got = std::fs::read(&path).unwrap();
        let _ = std::fs::remove_file(&path);
    }
    if !out.status.success() {
        return Err(None);
    }
    if outkind == 2 {
        if got.starts_with(PRE) {
            got.drain(..PRE.len());
        } else {
            return Err(Some((got, "earlier-file-content".to_string())));
        }
    }
    Ok(got)
}

macro_rules! rd_one {
    ($t:ty, $r:expr) => {
        $r.read::<$t>().to_string()
    };
}
macro_rules! rd_vec {
    ($t:ty, $r:expr, $n:expr) => {
        $r.read_vec::<$t>($n).iter().map(|x| x.to_string()).collect::<Vec<String>>()
    };
}
macro_rules! rd_tup {
    ($t:ty, $r:expr, $n:expr) => {
        match $n {
            2 => {
                let x: ($t, $t) = $r.read();
                vec![x.0.to_string(), x.1.to_string()]
            }
            3 => {
                let x: ($t, $t, $t) = $r.read();
                vec![x.0.to_string(), x.1.to_string(), x.2.to_string()]
            }
            4 => {
                let x: ($t, $t, $t, $t) = $r.read();
                vec![x.0.to_string(), x.1.to_string(), x.2.to_string(), x.3.to_string()]
            }
            5 => {
                let x: ($t, $t, $t, $t, $t) = $r.read();
                vec![x.0.to_string(), x.1.to_string(), x.2.to_string(), x.3.to_string(), x.4.to_string()]
            }
            6 => {
                let x: ($t, $t, $t, $t, $t, $t) = $r.read();
                vec![x.0.to_string(), x.1.to_string(), x.2.to_string(), x.3.to_string(), x.4.to_string(), x.5.to_string()]
            }
            7 => {
                let x: ($t, $t, $t, $t, $t, $t, $t) = $r.read();
                vec![
                    x.0.to_string(),
                    x.1.to_string(),
                    x.2.to_string(),
                    x.3.to_string(),
                    x.4.to_string(),
                    x.5.to_string(),
                    x.6.to_string(),
                ]
            }
            _ => {
                let x: ($t, $t, $t, $t, $t, $t, $t, $t) = $r.read();
                vec![
                    x.0.to_string(),
                    x.1.to_string(),
                    x.2.to_string(),
                    x.3.to_string(),
                    x.4.to_string(),
                    x.5.to_string(),
                    x.6.to_string(),
                    x.7.to_string(),
                ]
            }
        }
    };
}

fn read_back(bytes: Vec<u8>, expect: &[Rd]) -> bool {
    vh::guarded(move || {
        let leaked: &'static [u8] = Box::leak(bytes.into_boxed_slice());
        let mut r = Reader::new(Box::new(leaked));
        for item in expect {
            let ok = match item {
                Rd::Int(ty, s) => &with_int_ty!(*ty, rd_one, r) == s,
                Rd::Str(s) => &r.read::<String>() == s,
                Rd::VecOf(ty, v) => &with_int_ty!(*ty, rd_vec, r, v.len()) == v,
                Rd::TupOf(ty, v) => &with_int_ty!(*ty, rd_tup, r, v.len()) == v,
            };
            if !ok {
                return false;
            }
        }
        r.is_eof()
    })
    .unwrap_or(false)
}

/// `read_lines` must return the lines of the text (no '\r' in it, ASCII)
fn read_back_lines(bytes: Vec<u8>, text: &str) -> bool {
    let mut want: Vec<&str> = text.split('\n').collect();
    if text.is_empty() || text.ends_with('\n') {
        want.pop();
    }
    let want: Vec<String> = want.into_iter().map(|x| x.to_string()).collect();
    vh::guarded(move || {
        let leaked: &'static [u8] = Box::leak(bytes.into_boxed_slice());
        let mut r = Reader::new(Box::new(leaked));
        r.read_lines() == want && r.read_line().is_none()
    })
    .unwrap_or(false)
}

/// Implementation-level search: `count` values of one type (or all of them) through one writer,
/// separated by '\n' / ' ', an explicit flush now and then; the sink's bytes must be the
/// to_string renderings and Reader must return the values.
macro_rules! xsearch {
    ($t:ty, $all:expr, $seed:expr, $count:expr, $maxchunk:expr, $intr:expr) => {{
        let mut rng = Sm($seed);
        let mut vals: Vec<$t> = Vec::new();
        if $all {
            let mut v = <$t>::MIN;
            loop {
                vals.push(v);
                if v == <$t>::MAX {
                    break;
                }
                v += 1;
            }
        } else {
            let bits = <$t>::BITS as u64;
            for _ in 0..$count {
                let raw = (rng.next() as u128) | ((rng.next() as u128) << 64);
                let k = 1 + rng.next() % bits;
                let m = if k >= 128 { raw } else { raw & ((1u128 << k) - 1) };
                let mut v = m as $t;
                if rng.next() % 2 == 0 {
                    v = v.wrapping_neg();
                }
                if rng.next() % 64 == 0 {
                    v = if rng.next() % 2 == 0 { <$t>::MIN } else { <$t>::MAX };
                }
                vals.push(v);
            }
        }
        let data = Rc::new(RefCell::new(Vec::new()));
        let sink = Sink { data: data.clone(), rng: Sm($seed ^ 0x5151), maxchunk: $maxchunk, intr: $intr };
        let mut expect = String::new();
        {
            let mut w = ManuallyDrop::new(Writer::new(Box::new(sink)));
            for (i, v) in vals.iter().enumerate() {
                w.write(v);
                let sep = if i % 5 == 4 { '\n' } else { ' ' };
                w.write_char(sep);
                expect.push_str(&v.to_string());
                expect.push(sep);
                if i % 4099 == 4098 {
                    w.flush();
                    if data.borrow().len() != expect.len() {
                        return format!("X bad after-flush-at-value-{}-sink-has-{}-expected-{}", i, data.borrow().len(), expect.len());
                    }
                }
            }
            drop(ManuallyDrop::into_inner(w));
        }
        let got = data.borrow().clone();
        if got != expect.as_bytes() {
            let pos = got.iter().zip(expect.as_bytes()).position(|(a, b)| a != b).unwrap_or(got.len().min(expect.len()));
            return format!("X bad first-difference-at-byte-{}-sink-{}-expected-{}", pos, got.len(), expect.len());
        }
        let n = got.len();
        let back = vh::guarded(move || {
            let leaked: &'static [u8] = Box::leak(got.into_boxed_slice());
            let mut r = Reader::new(Box::new(leaked));
            for (i, v) in vals.iter().enumerate() {
                let x: $t = r.read();
                if x != *v {
                    return Err(i);
                }
            }
            Ok(vals.len())
        });
        match back {
            Some(Ok(k)) => format!("X ok {} {}", k, n),
            Some(Err(i)) => format!("X bad read-back-differs-at-value-{}", i),
            None => "X bad reader-panicked".to_string(),
        }
    }};
}

/// `count` values of one type written as ONE `Vec<T>` (the usual `outln!(answer)`), then as `Vec<Vec<T>>` (rows of
/// 1..50 values) and as `Vec<(T, T)>`, one line each: far more elements than any counter narrower than usize holds
/// and renderings several times the buffer; compared with the joined to_string renderings, read back with read_vec.
macro_rules! xvec {
    ($t:ty, $seed:expr, $count:expr, $maxchunk:expr, $intr:expr) => {{
        let mut rng = Sm($seed);
        let mut vals: Vec<$t> = Vec::new();
        let bits = <$t>::BITS as u64;
        for i in 0..$count {
            // a long stretch of one-digit values first: the element index outruns the byte offset as far as possible
            let raw = (rng.next() as u128) | ((rng.next() as u128) << 64);
            let k = if i < $count / 2 { 1 + rng.next() % 3 } else { 1 + rng.next() % bits };
            let m = if k >= 128 { raw } else { raw & ((1u128 << k) - 1) };
            let mut v = m as $t;
            if i >= $count / 2 && rng.next() % 2 == 0 {
                v = v.wrapping_neg();
            }
            if rng.next() % 64 == 0 {
                v = if rng.next() % 2 == 0 { <$t>::MIN } else { <$t>::MAX };
            }
            vals.push(v);
        }
        let mut rows: Vec<Vec<$t>> = Vec::new();
        let mut at = 0;
        while at < vals.len() {
            let n = (1 + (rng.next() as usize) % 50).min(vals.len() - at);
            rows.push(vals[at..at + n].to_vec());
            at += n;
        }
        let pairs: Vec<($t, $t)> = vals.chunks(2).map(|c| (c[0], c[c.len() - 1])).collect();
        let data = Rc::new(RefCell::new(Vec::new()));
        let sink = Sink { data: data.clone(), rng: Sm($seed ^ 0x5151), maxchunk: $maxchunk, intr: $intr };
        let mut expect = String::new();
        {
            let mut w = ManuallyDrop::new(Writer::new(Box::new(sink)));
            w.write(&vals);
            w.write_char('\n');
            expect.push_str(&join(&vals));
            expect.push('\n');
            w.flush();
            if data.borrow().len() != expect.len() {
                return format!("X bad after-flush-1-sink-has-{}-expected-{}", data.borrow().len(), expect.len());
            }
            w.write(&rows);
            w.write_char('\n');
            expect.push_str(&rows.iter().map(|r| join(r)).collect::<Vec<_>>().join(" "));
            expect.push('\n');
            w.write(&pairs);
            w.write_char('\n');
            expect.push_str(&pairs.iter().map(|q| format!("{} {}", q.0, q.1)).collect::<Vec<_>>().join(" "));
            expect.push('\n');
            drop(ManuallyDrop::into_inner(w));
        }
        let got = data.borrow().clone();
        if got != expect.as_bytes() {
            let pos = got.iter().zip(expect.as_bytes()).position(|(a, b)| a != b).unwrap_or(got.len().min(expect.len()));
            return format!("X bad first-difference-at-byte-{}-sink-{}-expected-{}", pos, got.len(), expect.len());
        }
        let n = got.len();
        let back = vh::guarded(move || {
            let leaked: &'static [u8] = Box::leak(got.into_boxed_slice());
            let mut r = Reader::new(Box::new(leaked));
            if r.read_vec::<$t>(vals.len()) != vals {
                return Err(1);
            }
            for row in &rows {
                if &r.read_vec::<$t>(row.len()) != row {
                    return Err(2);
                }
            }
            if r.read_vec::<($t, $t)>(pairs.len()) != pairs {
                return Err(3);
            }
            if !r.is_eof() {
                return Err(4);
            }
            Ok(3 * vals.len())
        });
        match back {
            Some(Ok(k)) => format!("X ok {} {}", k, n),
            Some(Err(i)) => format!("X bad read-back-differs-in-part-{}", i),
            None => "X bad reader-panicked".to_string(),
        }
    }};
}

fn xrun(t: &[&str]) -> String {
    let all = t[2] == "all";
    let seed: u64 = p(t[3]);
    let count: usize = p(t[4]);
    let maxchunk: usize = p::<usize>(t[5]).max(1);
    let intr: u64 = p(t[6]);
    if t[2] == "vec" {
        return match t[1] {
            "i8" => (|| xvec!(i8, seed, count, maxchunk, intr))(),
            "i16" => (|| xvec!(i16, seed, count, maxchunk, intr))(),
            "i32" => (|| xvec!(i32, seed, count, maxchunk, intr))(),
            "i64" => (|| xvec!(i64, seed, count, maxchunk, intr))(),
            "i128" => (|| xvec!(i128, seed, count, maxchunk, intr))(),
            "isize" => (|| xvec!(isize, seed, count, maxchunk, intr))(),
            "u8" => (|| xvec!(u8, seed, count, maxchunk, intr))(),
            "u16" => (|| xvec!(u16, seed, count, maxchunk, intr))(),
            "u32" => (|| xvec!(u32, seed, count, maxchunk, intr))(),
            "u64" => (|| xvec!(u64, seed, count, maxchunk, intr))(),
            "u128" => (|| xvec!(u128, seed, count, maxchunk, intr))(),
            "usize" => (|| xvec!(usize, seed, count, maxchunk, intr))(),
            k => bad(k),
        };
    }
    match t[1] {
        "i8" => (|| xsearch!(i8, all, seed, count, maxchunk, intr))(),
        "i16" => (|| xsearch!(i16, all, seed, count, maxchunk, intr))(),
        "i32" => (|| xsearch!(i32, all, seed, count, maxchunk, intr))(),
        "i64" => (|| xsearch!(i64, all, seed, count, maxchunk, intr))(),
        "i128" => (|| xsearch!(i128, all, seed, count, maxchunk, intr))(),
        "isize" => (|| xsearch!(isize, all, seed, count, maxchunk, intr))(),
        "u8" => (|| xsearch!(u8, all, seed, count, maxchunk, intr))(),
        "u16" => (|| xsearch!(u16, all, seed, count, maxchunk, intr))(),
        "u32" => (|| xsearch!(u32, all, seed, count, maxchunk, intr))(),
        "u64" => (|| xsearch!(u64, all, seed, count, maxchunk, intr))(),
        "u128" => (|| xsearch!(u128, all, seed, count, maxchunk, intr))(),
        "usize" => (|| xsearch!(usize, all, seed, count, maxchunk, intr))(),
        k => bad(k),
    }
}

fn parse_ops(t: &[&str], i: &mut usize, tagged: bool) -> (Vec<Op>, Vec<usize>) {
    let mut ops = Vec::new();
    let mut tags = Vec::new();
    while *i < t.len() {
        if tagged {
            tags.push(p(t[*i]));
            *i += 1;
        }
        let k = t[*i];
        *i += 1;
        match k {
            "w" => ops.push(Op::Write(parse_val(t, i))),
            "c" => {
                let c: u32 = p(t[*i]);
                *i += 1;
                ops.push(Op::Char(char::from_u32(c).unwrap()));
            }
            "f" => ops.push(Op::Flush),
            "mv" => ops.push(Op::Mv),
            "nw" => ops.push(Op::Renew),
            "pn" => ops.push(Op::Bug),
            "nx" => {
                let m = unhex(t[*i]);
                let thr: u32 = p(t[*i + 1]);
                *i += 2;
                ops.push(Op::Next(m, thr != 0));
            }
            "e" => {
                let v = parse_val(t, i);
                if !(v.int_ty().is_some() || matches!(v, Val::Str(_) | Val::StrRef(_))) {
                    bad("e: integer or string expected");
                }
                ops.push(Op::Echo(v));
            }
            "o" | "ol" => {
                let n: usize = p(t[*i]);
                *i += 1;
                let mut v = Vec::new();
                for _ in 0..n {
                    v.push(parse_val(t, i));
                }
                ops.push(if k == "o" { Op::Out(v) } else { Op::Outln(v) });
            }
            _ => bad(k),
        }
    }
    (ops, tags)
}

/// oracle on the Rust side: concatenation of the standard renderings, and what a reader has to find
struct Oracle {
    text: String,
    expect: Vec<Rd>,
    readable: bool,
}

fn oracle_of<'a>(ops: impl Iterator<Item = &'a Op>, rt: u32) -> Oracle {
    let mut text = String::new();
    let mut expect = Vec::new();
    let mut readable = rt == 1 || rt == 3;
    let structured = rt == 3;
    for op in ops {
        match op {
            Op::Write(v) | Op::Echo(v) => {
                text.push_str(&v.render());
                readable = readable && v.reads(structured, &mut expect);
            }
            Op::Next(m, _) => {
                // printed with print! between two writers: part of what standard output has to show.  A reader finds
                // its words as tokens, provided the marker does not touch its neighbours
                if !m.is_empty() {
                    let free = |c: Option<char>| c.map_or(true, |c| c.is_ascii_whitespace());
                    readable = readable && free(text.chars().last()) && free(m.chars().last()) && m.is_ascii();
                    text.push_str(m);
                    for tok in m.split_ascii_whitespace() {
                        expect.push(Rd::Str(tok.to_string()));
                    }
                }
            }
            Op::Char(c) => {
                text.push(*c);
                // a separator; anything else would glue to the neighbouring tokens
                readable = readable && c.is_ascii_whitespace();
            }
            Op::Flush | Op::Mv | Op::Renew | Op::Bug => {}
            Op::Out(v) | Op::Outln(v) => {
                text.push_str(&v.iter().map(|x| x.render()).collect::<Vec<_>>().join(" "));
                for x in v {
                    readable = readable && x.reads(structured, &mut expect);
                }
                if let Op::Outln(_) = op {
                    text.push('\n');
                }
            }
        }
    }
    Oracle { text, expect, readable }
}

fn answer(got: Vec<u8>, flushes: &[usize], or: &Oracle, rt: u32, fail: Option<String>) -> String {
    let mut s = format!("R {} {}", hex(&got), flushes.len());
    for f in flushes {
        s.push_str(&format!(" {}", f));
    }
    if let Some(why) = fail {
        s.push_str(&format!(" F!{}", why));
    } else if got == or.text.as_bytes() {
        s.push_str(" T");
    } else {
        s.push_str(&format!(" F{}", hex(or.text.as_bytes())));
    }
    let verdict = if rt == 2 {
        if or.text.is_ascii() && !or.text.contains('\r') {
            Some(read_back_lines(got, &or.text))
        } else {
            None
        }
    } else if or.readable {
        Some(read_back(got, &or.expect))
    } else {
        None
    };
    s.push_str(match verdict {
        None => " N",
        Some(true) => " T",
        Some(false) => " F",
    });
    s
}

fn main() {
    let args: Vec<String> = std::env::args().collect();
    if args.len() >= 2 && args[1] == "--makeio" {
        let t: Vec<&str> = args[2..].iter().map(|x| x.as_str()).collect();
        let mut i = 0;
        let thr0: u32 = p(t[0]);
        i += 1;
        let (ops, _) = parse_ops(&t, &mut i, false);
        makeio_child(&ops, thr0 != 0);
        return;
    }
    vh::serve(|t| {
        if t[0] == "Q" {
            return format!("B {}", Writer::VERIF_BUF_SIZE);
        }
        if t[0] == "X" {
            return xrun(t);
        }
        if t[0] == "M" {
            let rt: u32 = p(t[1]);
            let outkind: u32 = p(t[2]);
            let mut i = 4;
            let (ops, _) = parse_ops(t, &mut i, false);
            let or = oracle_of(ops.iter(), rt);
            return match makeio_parent(&t[3..], &ops, outkind) {
                Ok(got) => answer(got, &[], &or, rt, None),
                Err(None) => "P".to_string(),
                Err(Some((got, why))) => answer(got, &[], &or, rt, Some(why)),
            };
        }
        if t[0] == "U" {
            let via: u32 = p(t[1]);
            let cfg = UnwindCfg { entry: p(t[2]), bug: p(t[3]), mid: p(t[4]) };
            let maxchunk: usize = p(t[5]);
            let intr: u64 = p(t[6]);
            let seed: u64 = p(t[7]);
            let rt: u32 = p(t[8]);
            let mut i = 9;
            let (ops, _) = parse_ops(t, &mut i, false);
            let or = oracle_of(ops.iter(), rt);
            let data = Rc::new(RefCell::new(Vec::new()));
            let sink = Sink { data: data.clone(), rng: Sm(seed), maxchunk: maxchunk.max(1), intr };
            let mut dbg_fail = None;
            return match run_unwinding(&ops, sink, &data, via, &cfg, &mut dbg_fail) {
                Ok(flushes) => {
                    let got = data.borrow().clone();
                    answer(got, &flushes, &or, rt, dbg_fail.map(|i| format!("dbgflush{}", i)))
                }
                Err(()) => "P".to_string(),
            };
        }
        let dual = t[0] == "D";
        let maxchunk: usize = p(t[1]);
        let intr: u64 = p(t[2]);
        let seed: u64 = p(t[3]);
        let rt: u32 = p(t[4]);
        if !dual {
            let mut i = 5;
            let (ops, _) = parse_ops(t, &mut i, false);
            let or = oracle_of(ops.iter(), rt);
            let data = Rc::new(RefCell::new(Vec::new()));
            let sink = Sink { data: data.clone(), rng: Sm(seed), maxchunk: maxchunk.max(1), intr };
            let mut dbg_fail = None;
            let flushes = run_ops(&ops, sink, &data, &mut dbg_fail);
            let got = data.borrow().clone();
            return answer(got, &flushes, &or, rt, dbg_fail.map(|i| format!("dbgflush{}", i)));
        }
        // two writers alive at the same time
        let which: usize = p(t[5]);
        let dropfirst: usize = p(t[6]);
        let mut i = 7;
        let (ops, tags) = parse_ops(t, &mut i, true);
        let ors = [
            oracle_of(ops.iter().zip(&tags).filter(|x| *x.1 == 0).map(|x| x.0), rt),
            oracle_of(ops.iter().zip(&tags).filter(|x| *x.1 == 1).map(|x| x.0), rt),
        ];
        let datas = [Rc::new(RefCell::new(Vec::new())), Rc::new(RefCell::new(Vec::new()))];
        let mut flushes = [Vec::new(), Vec::new()];
        let mut fails = [None, None];
        let mut ws = [
            ManuallyDrop::new(Writer::new(Box::new(Sink { data: datas[0].clone(), rng: Sm(seed), maxchunk: maxchunk.max(1), intr }))),
            ManuallyDrop::new(Writer::new(Box::new(Sink {
                data: datas[1].clone(),
                rng: Sm(seed ^ 0xabcdef),
                maxchunk: maxchunk.max(1),
                intr,
            }))),
        ];
        for (idx, (op, &w)) in ops.iter().zip(&tags).enumerate() {
            apply(op, idx, &mut ws[w], &datas[w], &mut flushes[w], &mut fails[w]);
        }
        if dropfirst & 2 != 0 {
            // both writers go out of scope because the caller's code panics
            let mut drop_panicked = false;
            let r = catch_unwind(AssertUnwindSafe(|| {
                let _g = DropBoth(&mut ws, dropfirst, &mut drop_panicked);
                std::panic::panic_any(CallerBug)
            }));
            if r.is_ok() {
                bad("the caller's bug did not fire");
            }
            if drop_panicked {
                return "P".to_string();
            }
        } else {
            for k in [dropfirst & 1, 1 - (dropfirst & 1)] {
                // SAFETY: each slot is taken exactly once, nothing uses it afterwards
                drop(unsafe { ManuallyDrop::take(&mut ws[k]) });
            }
        }
        let other = 1 - which;
        let fail = if let Some(i) = fails[which] {
            Some(format!("dbgflush{}", i))
        } else if let Some(i) = fails[other] {
            Some(format!("other-dbgflush{}", i))
        } else if datas[other].borrow().as_slice() != ors[other].text.as_bytes() {
            Some("other".to_string())
        } else {
            None
        };
        let got = datas[which].borrow().clone();
        answer(got, &flushes[which], &ors[which], rt, fail)
    });
}
