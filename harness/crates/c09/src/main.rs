//! C09 executor.  One case per line:
//!   Q                                   -> "B <Writer::VERIF_BUF_SIZE>"
//!   S <maxchunk> <intr_permille> <seed> <rt> <op>*
//! op  := w <val> | c <codepoint> | f | o <n> <val>*n | ol <n> <val>*n
//! val := <ity> <num> | s <hex|-> (String) | r <hex|-> (&str) | fill <byte> <k> (String of k copies)
//!      | v <n> <val>*n (Vec<Val>) | t <n> <val>*n (tuple, arity 2..8) | nv <ity> <n> <num>*n (Vec<ity>)
//! The sink accepts 1..maxchunk bytes per `write` call and answers Interrupted with the given
//! probability (write_all of std has to cope).  Output:
//!   R <sink hex|-> <nflush> <sink length after each explicit flush>* <T|F hex: sink == concat of to_string()> <N|T|F: read back>
//! or P when the writer panicked.
//!   X <ity> <all|rand> <seed> <count> <maxchunk> <intr_permille>   (implementation-level search)
//!       -> "X ok <values> <bytes>" | "X bad <what>": many values of one type through one writer,
//!          compared with to_string and read back through Reader
// make_output_macro_! calls itself by its bare name, so it has to be in scope at the call site
use rlib_io::make_output_macro_;
use rlib_io::reader::Reader;
use rlib_io::writer::{Writable, Writer};
use std::cell::RefCell;
use std::io::Write;
use std::mem::ManuallyDrop;
use std::rc::Rc;
use vh::{p, Sm};

#[derive(Clone, Debug)]
enum Val {
    I8(i8),
    I16(i16),
    I32(i32),
    I64(i64),
    I128(i128),
    Isize(isize),
    U8(u8),
    U16(u16),
    U32(u32),
    U64(u64),
    U128(u128),
    Usize(usize),
    Str(String),
    StrRef(String),
    Vec(Vec<Val>),
    Tup(Vec<Val>),
    NV8(Vec<i8>),
    NV16(Vec<i16>),
    NV32(Vec<i32>),
    NV64(Vec<i64>),
    NV128(Vec<i128>),
    NVsize(Vec<isize>),
    NU8(Vec<u8>),
    NU16(Vec<u16>),
    NU32(Vec<u32>),
    NU64(Vec<u64>),
    NU128(Vec<u128>),
    NUsize(Vec<usize>),
}

/// `Val` only forwards to the library's own impls: `Writer::write(&val)` = `val.write(w)` + debug flush
/// = `inner.write(w)` + debug flush = `Writer::write(&inner)`.
impl Writable for Val {
    fn write(&self, w: &mut Writer) {
        use Val::*;
        match self {
            I8(x) => x.write(w),
            I16(x) => x.write(w),
            I32(x) => x.write(w),
            I64(x) => x.write(w),
            I128(x) => x.write(w),
            Isize(x) => x.write(w),
            U8(x) => x.write(w),
            U16(x) => x.write(w),
            U32(x) => x.write(w),
            U64(x) => x.write(w),
            U128(x) => x.write(w),
            Usize(x) => x.write(w),
            Str(s) => s.write(w),
            StrRef(s) => s.as_str().write(w),
            Vec(v) => v.write(w),
            Tup(v) => match v.len() {
                2 => (v[0].clone(), v[1].clone()).write(w),
                3 => (v[0].clone(), v[1].clone(), v[2].clone()).write(w),
                4 => (v[0].clone(), v[1].clone(), v[2].clone(), v[3].clone()).write(w),
                5 => (v[0].clone(), v[1].clone(), v[2].clone(), v[3].clone(), v[4].clone()).write(w),
                6 => (v[0].clone(), v[1].clone(), v[2].clone(), v[3].clone(), v[4].clone(), v[5].clone()).write(w),
                7 => (
                    v[0].clone(),
                    v[1].clone(),
                    v[2].clone(),
                    v[3].clone(),
                    v[4].clone(),
                    v[5].clone(),
                    v[6].clone(),
                )
                    .write(w),
                8 => (
                    v[0].clone(),
                    v[1].clone(),
                    v[2].clone(),
                    v[3].clone(),
                    v[4].clone(),
                    v[5].clone(),
                    v[6].clone(),
                    v[7].clone(),
                )
                    .write(w),
                n => {
                    eprintln!("harness: tuple arity {}", n);
                    std::process::exit(3)
                }
            },
            NV8(v) => v.write(w),
            NV16(v) => v.write(w),
            NV32(v) => v.write(w),
            NV64(v) => v.write(w),
            NV128(v) => v.write(w),
            NVsize(v) => v.write(w),
            NU8(v) => v.write(w),
            NU16(v) => v.write(w),
            NU32(v) => v.write(w),
            NU64(v) => v.write(w),
            NU128(v) => v.write(w),
            NUsize(v) => v.write(w),
        }
    }
}

fn join<T: ToString>(v: &[T]) -> String {
    v.iter().map(|x| x.to_string()).collect::<Vec<_>>().join(" ")
}

impl Val {
    /// second oracle: standard formatting
    fn render(&self) -> String {
        use Val::*;
        match self {
            I8(x) => x.to_string(),
            I16(x) => x.to_string(),
            I32(x) => x.to_string(),
            I64(x) => x.to_string(),
            I128(x) => x.to_string(),
            Isize(x) => x.to_string(),
            U8(x) => x.to_string(),
            U16(x) => x.to_string(),
            U32(x) => x.to_string(),
            U64(x) => x.to_string(),
            U128(x) => x.to_string(),
            Usize(x) => x.to_string(),
            Str(s) | StrRef(s) => s.clone(),
            Vec(v) | Tup(v) => v.iter().map(|x| x.render()).collect::<std::vec::Vec<_>>().join(" "),
            NV8(v) => join(v),
            NV16(v) => join(v),
            NV32(v) => join(v),
            NV64(v) => join(v),
            NV128(v) => join(v),
            NVsize(v) => join(v),
            NU8(v) => join(v),
            NU16(v) => join(v),
            NU32(v) => join(v),
            NU64(v) => join(v),
            NU128(v) => join(v),
            NUsize(v) => join(v),
        }
    }

    /// the integers inside, with their types, in writing order (None if a string occurs)
    fn ints(&self, out: &mut std::vec::Vec<(&'static str, String)>) -> bool {
        use Val::*;
        macro_rules! one {
            ($n:expr, $x:expr) => {{
                out.push(($n, $x.to_string()));
                true
            }};
        }
        macro_rules! many {
            ($n:expr, $v:expr) => {{
                for x in $v.iter() {
                    out.push(($n, x.to_string()));
                }
                true
            }};
        }
        match self {
            I8(x) => one!("i8", x),
            I16(x) => one!("i16", x),
            I32(x) => one!("i32", x),
            I64(x) => one!("i64", x),
            I128(x) => one!("i128", x),
            Isize(x) => one!("isize", x),
            U8(x) => one!("u8", x),
            U16(x) => one!("u16", x),
            U32(x) => one!("u32", x),
            U64(x) => one!("u64", x),
            U128(x) => one!("u128", x),
            Usize(x) => one!("usize", x),
            Str(_) | StrRef(_) => false,
            Vec(v) | Tup(v) => v.iter().all(|x| x.ints(out)),
            NV8(v) => many!("i8", v),
            NV16(v) => many!("i16", v),
            NV32(v) => many!("i32", v),
            NV64(v) => many!("i64", v),
            NV128(v) => many!("i128", v),
            NVsize(v) => many!("isize", v),
            NU8(v) => many!("u8", v),
            NU16(v) => many!("u16", v),
            NU32(v) => many!("u32", v),
            NU64(v) => many!("u64", v),
            NU128(v) => many!("u128", v),
            NUsize(v) => many!("usize", v),
        }
    }
}

fn unhex(s: &str) -> String {
    if s == "-" {
        return String::new();
    }
    let b = s.as_bytes();
    let mut v = Vec::with_capacity(b.len() / 2);
    for i in (0..b.len()).step_by(2) {
        v.push(u8::from_str_radix(&s[i..i + 2], 16).unwrap());
    }
    String::from_utf8(v).unwrap_or_else(|_| {
        eprintln!("harness: string is not UTF-8");
        std::process::exit(3)
    })
}

fn hex(b: &[u8]) -> String {
    if b.is_empty() {
        return "-".to_string();
    }
    let mut s = String::with_capacity(2 * b.len());
    for x in b {
        s.push_str(&format!("{:02x}", x));
    }
    s
}

fn parse_val(t: &[&str], i: &mut usize) -> Val {
    let k = t[*i];
    *i += 1;
    macro_rules! int {
        ($c:ident) => {{
            let x = p(t[*i]);
            *i += 1;
            Val::$c(x)
        }};
    }
    macro_rules! nv {
        ($c:ident, $n:expr) => {{
            let mut v = Vec::new();
            for _ in 0..$n {
                v.push(p(t[*i]));
                *i += 1;
            }
            Val::$c(v)
        }};
    }
    match k {
        "i8" => int!(I8),
        "i16" => int!(I16),
        "i32" => int!(I32),
        "i64" => int!(I64),
        "i128" => int!(I128),
        "isize" => int!(Isize),
        "u8" => int!(U8),
        "u16" => int!(U16),
        "u32" => int!(U32),
        "u64" => int!(U64),
        "u128" => int!(U128),
        "usize" => int!(Usize),
        "s" => {
            *i += 1;
            Val::Str(unhex(t[*i - 1]))
        }
        "r" => {
            *i += 1;
            Val::StrRef(unhex(t[*i - 1]))
        }
        "fill" => {
            let c: u8 = p(t[*i]);
            let n: usize = p(t[*i + 1]);
            *i += 2;
            Val::Str(String::from_utf8(vec![c; n]).unwrap())
        }
        "v" | "t" => {
            let n: usize = p(t[*i]);
            *i += 1;
            let mut v = Vec::new();
            for _ in 0..n {
                v.push(parse_val(t, i));
            }
            if k == "v" {
                Val::Vec(v)
            } else {
                Val::Tup(v)
            }
        }
        "nv" => {
            let ty = t[*i];
            let n: usize = p(t[*i + 1]);
            *i += 2;
            match ty {
                "i8" => nv!(NV8, n),
                "i16" => nv!(NV16, n),
                "i32" => nv!(NV32, n),
                "i64" => nv!(NV64, n),
                "i128" => nv!(NV128, n),
                "isize" => nv!(NVsize, n),
                "u8" => nv!(NU8, n),
                "u16" => nv!(NU16, n),
                "u32" => nv!(NU32, n),
                "u64" => nv!(NU64, n),
                "u128" => nv!(NU128, n),
                "usize" => nv!(NUsize, n),
                _ => bad(ty),
            }
        }
        _ => bad(k),
    }
}

fn bad(k: &str) -> ! {
    eprintln!("harness: unknown token {:?}", k);
    std::process::exit(3)
}

enum Op {
    Write(Val),
    Char(char),
    Flush,
    Out(Vec<Val>),
    Outln(Vec<Val>),
}

/// A sink with a scripted acceptance pattern.
struct Sink {
    data: Rc<RefCell<Vec<u8>>>,
    rng: Sm,
    maxchunk: usize,
    intr: u64,
}

impl Write for Sink {
    fn write(&mut self, buf: &[u8]) -> std::io::Result<usize> {
        if self.rng.next() % 1000 < self.intr {
            return Err(std::io::Error::new(std::io::ErrorKind::Interrupted, "scripted"));
        }
        if buf.is_empty() {
            return Ok(0);
        }
        let n = 1 + (self.rng.next() as usize) % self.maxchunk.min(buf.len());
        self.data.borrow_mut().extend_from_slice(&buf[..n]);
        Ok(n)
    }
    fn flush(&mut self) -> std::io::Result<()> {
        Ok(())
    }
}

fn run_ops(ops: &[Op], sink: Sink, data: &Rc<RefCell<Vec<u8>>>) -> Vec<usize> {
    let mut flushes = Vec::new();
    let reader = ();
    // ManuallyDrop: if an operation panics the unwinding must not run Drop (a second panic would abort)
    let writer = ManuallyDrop::new(Writer::new(Box::new(sink)));
    rlib_io::make_output_macro!(reader, writer);
    let _ = reader;
    for op in ops {
        match op {
            Op::Write(v) => writer.write(v),
            Op::Char(c) => writer.write_char(*c),
            Op::Flush => {
                writer.flush();
                flushes.push(data.borrow().len());
            }
            Op::Out(v) => match v.len() {
                1 => {
                    out!(v[0]);
                }
                2 => {
                    out!(v[0], v[1]);
                }
                3 => {
                    out!(v[0], v[1], v[2]);
                }
                4 => {
                    out!(v[0], v[1], v[2], v[3]);
                }
                5 => {
                    out!(v[0], v[1], v[2], v[3], v[4]);
                }
                n => bad(&format!("out arity {}", n)),
            },
            Op::Outln(v) => match v.len() {
                0 => {
                    outln!();
                }
                1 => {
                    outln!(v[0]);
                }
                2 => {
                    outln!(v[0], v[1]);
                }
                3 => {
                    outln!(v[0], v[1], v[2]);
                }
                4 => {
                    outln!(v[0], v[1], v[2], v[3]);
                }
                5 => {
                    outln!(v[0], v[1], v[2], v[3], v[4]);
                }
                n => bad(&format!("outln arity {}", n)),
            },
        }
    }
    // the end of the writer's life: impl Drop
    drop(ManuallyDrop::into_inner(writer));
    flushes
}

fn read_back(bytes: Vec<u8>, expect: &[(&'static str, String)]) -> bool {
    vh::guarded(move || {
        let leaked: &'static [u8] = Box::leak(bytes.into_boxed_slice());
        let mut r = Reader::new(Box::new(leaked));
        for (ty, s) in expect {
            let got = match *ty {
                "i8" => r.read::<i8>().to_string(),
                "i16" => r.read::<i16>().to_string(),
                "i32" => r.read::<i32>().to_string(),
                "i64" => r.read::<i64>().to_string(),
                "i128" => r.read::<i128>().to_string(),
                "isize" => r.read::<isize>().to_string(),
                "u8" => r.read::<u8>().to_string(),
                "u16" => r.read::<u16>().to_string(),
                "u32" => r.read::<u32>().to_string(),
                "u64" => r.read::<u64>().to_string(),
                "u128" => r.read::<u128>().to_string(),
                _ => r.read::<usize>().to_string(),
            };
            if &got != s {
                return false;
            }
        }
        r.is_eof()
    })
    .unwrap_or(false)
}

/// Implementation-level search: `count` values of one type (or all of them) through one writer,
/// separated by '\n' / ' ', an explicit flush now and then; the sink's bytes must be the
/// to_string renderings and Reader must return the values.
macro_rules! xsearch {
    ($t:ty, $all:expr, $seed:expr, $count:expr, $maxchunk:expr, $intr:expr) => {{
        let mut rng = Sm($seed);
        let mut vals: Vec<$t> = Vec::new();
        if $all {
            let mut v = <$t>::MIN;
            loop {
                vals.push(v);
                if v == <$t>::MAX {
                    break;
                }
                v += 1;
            }
        } else {
            let bits = <$t>::BITS as u64;
            for _ in 0..$count {
                let raw = (rng.next() as u128) | ((rng.next() as u128) << 64);
                let k = 1 + rng.next() % bits;
                let m = if k >= 128 { raw } else { raw & ((1u128 << k) - 1) };
                let mut v = m as $t;
                if rng.next() % 2 == 0 {
                    v = v.wrapping_neg();
                }
                if rng.next() % 64 == 0 {
                    v = if rng.next() % 2 == 0 { <$t>::MIN } else { <$t>::MAX };
                }
                vals.push(v);
            }
        }
        let data = Rc::new(RefCell::new(Vec::new()));
        let sink = Sink { data: data.clone(), rng: Sm($seed ^ 0x5151), maxchunk: $maxchunk, intr: $intr };
        let mut expect = String::new();
        {
            let mut w = ManuallyDrop::new(Writer::new(Box::new(sink)));
            for (i, v) in vals.iter().enumerate() {
                w.write(v);
                let sep = if i % 5 == 4 { '\n' } else { ' ' };
                w.write_char(sep);
                expect.push_str(&v.to_string());
                expect.push(sep);
                if i % 4099 == 4098 {
                    w.flush();
                    if data.borrow().len() != expect.len() {
                        return format!("X bad after-flush-at-value-{}-sink-has-{}-expected-{}", i, data.borrow().len(), expect.len());
                    }
                }
            }
            drop(ManuallyDrop::into_inner(w));
        }
        let got = data.borrow().clone();
        if got != expect.as_bytes() {
            let pos = got.iter().zip(expect.as_bytes()).position(|(a, b)| a != b).unwrap_or(got.len().min(expect.len()));
            return format!("X bad first-difference-at-byte-{}-sink-{}-expected-{}", pos, got.len(), expect.len());
        }
        let n = got.len();
        let back = vh::guarded(move || {
            let leaked: &'static [u8] = Box::leak(got.into_boxed_slice());
            let mut r = Reader::new(Box::new(leaked));
            for (i, v) in vals.iter().enumerate() {
                let x: $t = r.read();
                if x != *v {
                    return Err(i);
                }
            }
            Ok(vals.len())
        });
        match back {
            Some(Ok(k)) => format!("X ok {} {}", k, n),
            Some(Err(i)) => format!("X bad read-back-differs-at-value-{}", i),
            None => "X bad reader-panicked".to_string(),
        }
    }};
}

fn xrun(t: &[&str]) -> String {
    let all = t[2] == "all";
    let seed: u64 = p(t[3]);
    let count: usize = p(t[4]);
    let maxchunk: usize = p::<usize>(t[5]).max(1);
    let intr: u64 = p(t[6]);
    match t[1] {
        "i8" => xsearch!(i8, all, seed, count, maxchunk, intr),
        "i16" => xsearch!(i16, all, seed, count, maxchunk, intr),
        "i32" => xsearch!(i32, all, seed, count, maxchunk, intr),
        "i64" => xsearch!(i64, all, seed, count, maxchunk, intr),
        "i128" => xsearch!(i128, all, seed, count, maxchunk, intr),
        "isize" => xsearch!(isize, all, seed, count, maxchunk, intr),
        "u8" => xsearch!(u8, all, seed, count, maxchunk, intr),
        "u16" => xsearch!(u16, all, seed, count, maxchunk, intr),
        "u32" => xsearch!(u32, all, seed, count, maxchunk, intr),
        "u64" => xsearch!(u64, all, seed, count, maxchunk, intr),
        "u128" => xsearch!(u128, all, seed, count, maxchunk, intr),
        "usize" => xsearch!(usize, all, seed, count, maxchunk, intr),
        k => bad(k),
    }
}

fn main() {
    vh::serve(|t| {
        if t[0] == "Q" {
            return format!("B {}", Writer::VERIF_BUF_SIZE);
        }
        if t[0] == "X" {
            return xrun(t);
        }
        let maxchunk: usize = p(t[1]);
        let intr: u64 = p(t[2]);
        let seed: u64 = p(t[3]);
        let rt = t[4] == "1";
        let mut ops = Vec::new();
        let mut i = 5;
        while i < t.len() {
            let k = t[i];
            i += 1;
            match k {
                "w" => ops.push(Op::Write(parse_val(t, &mut i))),
                "c" => {
                    let c: u32 = p(t[i]);
                    i += 1;
                    ops.push(Op::Char(char::from_u32(c).unwrap()));
                }
                "f" => ops.push(Op::Flush),
                "o" | "ol" => {
                    let n: usize = p(t[i]);
                    i += 1;
                    let mut v = Vec::new();
                    for _ in 0..n {
                        v.push(parse_val(t, &mut i));
                    }
                    ops.push(if k == "o" { Op::Out(v) } else { Op::Outln(v) });
                }
                _ => bad(k),
            }
        }
        // oracle on the Rust side: concatenation of the standard renderings
        let mut oracle = String::new();
        let mut expect = Vec::new();
        let mut readable = rt;
        for op in &ops {
            match op {
                Op::Write(v) => {
                    oracle.push_str(&v.render());
                    readable &= v.ints(&mut expect);
                }
                Op::Char(c) => oracle.push(*c),
                Op::Flush => {}
                Op::Out(v) | Op::Outln(v) => {
                    oracle.push_str(&v.iter().map(|x| x.render()).collect::<Vec<_>>().join(" "));
                    for x in v {
                        readable &= x.ints(&mut expect);
                    }
                    if let Op::Outln(_) = op {
                        oracle.push('\n');
                    }
                }
            }
        }
        let data = Rc::new(RefCell::new(Vec::new()));
        let sink = Sink { data: data.clone(), rng: Sm(seed), maxchunk: maxchunk.max(1), intr };
        let flushes = run_ops(&ops, sink, &data);
        let got = data.borrow().clone();
        let mut s = format!("R {} {}", hex(&got), flushes.len());
        for f in &flushes {
            s.push_str(&format!(" {}", f));
        }
        if got == oracle.as_bytes() {
            s.push_str(" T");
        } else {
            s.push_str(&format!(" F{}", hex(oracle.as_bytes())));
        }
        s.push_str(if !readable {
            " N"
        } else if read_back(got, &expect) {
            " T"
        } else {
            " F"
        });
        s
    });
}
