(** C04 — property theorems (statements only; proofs by [exact]). *)
From Coq Require Import ZArith List.
From RlibV Require Import C04.Model.
