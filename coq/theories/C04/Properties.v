(** C04 — property theorems (statements only; proofs by [exact]). *)
From Coq Require Import ZArith List.
Import ListNotations.
From RlibV Require Import C04.Model C04.ProofsBasic C04.ProofsState C04.ProofsHist.

(** Shape, for every scalar type, every oracle and every object state (so also for binary64):
    an empty operand gives the empty product and leaves the object untouched; the product has
    |a|+|b|-1 coefficients; multiply_into adds to the destination, elementwise over the zip, exactly
    what multiply returns (and leaves the object in the same state); fft_into adds one and the same
    vector X of fft_size entries to any destination, fft being the case of the zero destination;
    fft_inv_into adds what fft_inv returns. *)
Theorem c04_shape : forall (F : Type) (ops : Ops F) (tw : nat -> nat -> F * F) (s : st (F := F)) (a b : list Z),
  (a = [] \/ b = [] -> multiply ops tw s a b = (s, [])) /\
  (a <> [] -> b <> [] -> length (snd (multiply ops tw s a b)) = length a + length b - 1) /\
  (forall res, snd (multiply_into ops tw s a b res) = zip_acc Z.add res (snd (multiply ops tw s a b)) /\
               fst (multiply_into ops tw s a b res) = fst (multiply ops tw s a b)) /\
  (forall v n, exists X, length X = fft_size (length v) n /\
       snd (fft ops tw s v n) = zip_acc (cadd ops) (repeat (czero ops) (fft_size (length v) n)) X /\
       forall dest, snd (fft_into ops tw s v n dest) = zip_acc (cadd ops) dest X) /\
  (forall (v : list (F * F)) k dest, length v = 2 ^ k ->
       snd (fft_inv_into ops tw s v dest) = zip_acc Z.add dest (snd (fft_inv ops tw s v))).
Proof. exact shape_all. Qed.

(** History independence (plan-table reuse through a stride), for every scalar type and every
    oracle, hence for the binary64 instance itself, bit for bit: two objects in any reachable
    states ([reach]: FFT::new() followed by any sequence of update_n to powers of two, which is
    what every call does to the object, see [c04_reach_closed]) return the same product, add the
    same product, add the same transform.  fft_inv_into reads max_n WITHOUT growing the object, so
    there both objects must already be at least as large as the input. *)
Theorem c04_history_independent : forall (F : Type) (ops : Ops F) (tw : nat -> nat -> F * F) (s s' : st (F := F)),
  reach ops tw s -> reach ops tw s' ->
  (forall a b, snd (multiply ops tw s a b) = snd (multiply ops tw s' a b)) /\
  (forall a b res, snd (multiply_into ops tw s a b res) = snd (multiply_into ops tw s' a b res)) /\
  (forall v n dest, (n = 0 \/ exists m, n = 2 ^ m) ->
     snd (fft_into ops tw s v n dest) = snd (fft_into ops tw s' v n dest)) /\
  (forall (v : list (F * F)) m dest, length v = 2 ^ m -> length v <= length (R s) -> length v <= length (R s') ->
     snd (fft_inv_into ops tw s v dest) = snd (fft_inv_into ops tw s' v dest)).
Proof. exact history_independent_all. Qed.

(** every call leaves the object in a reachable state *)
Theorem c04_reach_closed : forall (F : Type) (ops : Ops F) (tw : nat -> nat -> F * F) (s : st (F := F)),
  reach ops tw s ->
  (forall a b, reach ops tw (fst (multiply ops tw s a b))) /\
  (forall a b res, reach ops tw (fst (multiply_into ops tw s a b res))) /\
  (forall v n dest, (n = 0 \/ exists m, n = 2 ^ m) -> reach ops tw (fst (fft_into ops tw s v n dest))) /\
  (forall (v : list (F * F)) m dest, length v = 2 ^ m -> reach ops tw (fst (fft_inv_into ops tw s v dest))).
Proof. exact reach_closed_all. Qed.
