(** C04 — property theorems (statements only; proofs by [exact]). *)
From Coq Require Import ZArith List.
Import ListNotations.
From RlibV Require Import C04.Model C04.ProofsBasic C04.ProofsState C04.ProofsHist C04.AlgRing C04.AlgDFT
  C04.ProofsTable C04.ProofsLevels C04.ProofsMain C04.Examples.
(* Examples.v opens Z_scope; the statements below are about [nat] sizes *)
Local Open Scope nat_scope.

(** Shape, for every scalar type, every oracle and every object state (so also for binary64):
    an empty operand gives the empty product and leaves the object untouched; the product has
    |a|+|b|-1 coefficients; multiply_into adds to the destination, elementwise over the zip, exactly
    what multiply returns (and leaves the object in the same state); fft_into adds one and the same
    vector X of fft_size entries to any destination, fft being the case of the zero destination;
    fft_inv_into adds what fft_inv returns. *)
Theorem c04_shape : forall (F : Type) (ops : Ops F) (tw : nat -> nat -> F * F) (s : st (F := F)) (a b : list Z),
  (a = [] \/ b = [] -> multiply ops tw s a b = (s, [])) /\
  (a <> [] -> b <> [] -> length (snd (multiply ops tw s a b)) = length a + length b - 1) /\
  (forall res, snd (multiply_into ops tw s a b res) = zip_acc Z.add res (snd (multiply ops tw s a b)) /\
               fst (multiply_into ops tw s a b res) = fst (multiply ops tw s a b)) /\
  (forall v n, exists X, length X = fft_size (length v) n /\
       snd (fft ops tw s v n) = zip_acc (cadd ops) (repeat (czero ops) (fft_size (length v) n)) X /\
       forall dest, snd (fft_into ops tw s v n dest) = zip_acc (cadd ops) dest X) /\
  (forall (v : list (F * F)) k dest, length v = 2 ^ k ->
       snd (fft_inv_into ops tw s v dest) = zip_acc Z.add dest (snd (fft_inv ops tw s v))).
Proof. exact shape_all. Qed.

(** History independence (plan-table reuse through a stride), for every scalar type and every
    oracle, hence for the binary64 instance itself, bit for bit: two objects in any reachable
    states ([reach]: FFT::new() followed by any sequence of update_n to powers of two, which is
    what every call does to the object, see [c04_reach_closed]) return the same product, add the
    same product, add the same transform, add the same inverse transform.  No size hypothesis on the
    objects: since /repo 23bca24 fft_inv_into grows the object to the size of the spectrum before it
    reads max_n, so the spectrum may come from any other object ([c04_inv_old_refuted] records what the
    code did before). *)
Theorem c04_history_independent : forall (F : Type) (ops : Ops F) (tw : nat -> nat -> F * F) (s s' : st (F := F)),
  reach ops tw s -> reach ops tw s' ->
  (forall a b, snd (multiply ops tw s a b) = snd (multiply ops tw s' a b)) /\
  (forall a b res, snd (multiply_into ops tw s a b res) = snd (multiply_into ops tw s' a b res)) /\
  (forall v n dest, (n = 0 \/ exists m, n = 2 ^ m) ->
     snd (fft_into ops tw s v n dest) = snd (fft_into ops tw s' v n dest)) /\
  (forall (v : list (F * F)) m dest, length v = 2 ^ m ->
     snd (fft_inv_into ops tw s v dest) = snd (fft_inv_into ops tw s' v dest)).
Proof. exact history_independent_all. Qed.

(** The code before /repo 23bca24 ([fft_inv_into_old]: the twiddle stride max_n / n read before anything
    had made the tables cover n) was history dependent: there are an instance of the model (the exact one
    over Z/998244353 of Examples.v), two reachable object states (a fresh object and one of size 8) and a
    spectrum of size 8 (of [1,2,3,4,5] * [6,7,8,9]) on which it returned different coefficients. *)
Theorem c04_inv_old_refuted :
  exists (F : Type) (ops : Ops F) (tw : nat -> nat -> F * F) (s s' : st (F := F)) (v : list (F * F)) (dest : list Z),
    reach ops tw s /\ reach ops tw s' /\ length v = 2 ^ 3 /\
    snd (fft_inv_into_old ops tw s v dest) <> snd (fft_inv_into_old ops tw s' v dest).
Proof. exact inv_old_history_dependent. Qed.

(** every call leaves the object in a reachable state *)
Theorem c04_reach_closed : forall (F : Type) (ops : Ops F) (tw : nat -> nat -> F * F) (s : st (F := F)),
  reach ops tw s ->
  (forall a b, reach ops tw (fst (multiply ops tw s a b))) /\
  (forall a b res, reach ops tw (fst (multiply_into ops tw s a b res))) /\
  (forall v n dest, (n = 0 \/ exists m, n = 2 ^ m) -> reach ops tw (fst (fft_into ops tw s v n dest))) /\
  (forall (v : list (F * F)) m dest, length v = 2 ^ m -> reach ops tw (fst (fft_inv_into ops tw s v dest))).
Proof. exact reach_closed_all. Qed.

(** Exactness over a lawful scalar ring.  Hypotheses: [Lawful ops inr] — the scalars form a commutative
    ring, [of_Z] is the ring morphism from Z, 2 is invertible, division by 2^k is exact, and the rounding
    step recovers every integer in [inr] ([to_int (of_Z z) = z]); and, for every table size N = 2^k the
    object can reach (2 <= k <= Kmax), the table hypotheses [table_ok]: w[0] = 1,
    w[a] * w[b] = w[(a+b) mod N], w[N/2] = -1, w[N/4] = i, conj w[a] = w[N-a]
    (w = the table update_n builds from the oracle; [root K m false] = w_K[2^(K-m)], the principal
    2^m-th root read off the table of an object of size 2^K, [root K m true] its inverse).
    Then, for every reachable object state of size <= 2^Kmax:
    (1) fft_internal computes the discrete Fourier transform (forward), resp. the inverse transform
        scaled by 1/n;
    (2) the inverse transform undoes the forward transform, whatever reachable states the two calls use;
    (3) multiply returns exactly the integer convolution (negative coefficients included) whenever the
        coefficients of the product lie in [inr];
    (4) fft(a, n), fft(b, n), pointwise product, fft_inv_into add exactly the convolution, padded with
        zeros to n, to the destination (n = 2^(j+1) >= |a|+|b|-1; the special case n = 1 of fft_inv_into
        is not covered by this clause);
    (5) the same with the two forward transforms on this object and the inverse transform on ANY other
        reachable object s' (fresh, smaller than the spectrum, larger: no bound on its size).
    multiply_into is covered through [c04_shape] (it adds what multiply returns).
    NOT proved (c04_rounding_partial, no theorem): that binary64 rounding keeps the error below 1/2
    inside the published envelope; that part is examined by search only (checks/c04.py, [extra]). *)
Theorem c04_exact_algebra : forall (F : Type) (ops : Ops F) (inr : Z -> Prop) (tw : nat -> nat -> F * F) (Kmax : nat),
  Lawful ops inr -> (forall k, 2 <= k <= Kmax -> table_ok ops tw k) ->
  forall s : st (F := F), reach ops tw s -> length (R s) <= 2 ^ Kmax ->
  (forall m (v : list (F * F)) k, m <= Kmax -> length v = 2 ^ m -> k < 2 ^ m ->
     nth k (snd (fft_internal ops tw s v false)) (czero ops) =
       dft ops (2 ^ m) (root ops tw (Nat.max (Nat.log2 (length (R s))) m) m false) (vec ops v) k /\
     nth k (snd (fft_internal ops tw s v true)) (czero ops) =
       cscale ops (dft ops (2 ^ m) (root ops tw (Nat.max (Nat.log2 (length (R s))) m) m true) (vec ops v) k)
                  (fdiv ops (fone ops) (of_Z ops (Z.of_nat (2 ^ m))))) /\
  (forall (s' : st (F := F)) m (v : list (F * F)), reach ops tw s' -> length (R s') <= 2 ^ Kmax -> m <= Kmax ->
     length v = 2 ^ m -> snd (fft_internal ops tw s' (snd (fft_internal ops tw s v false)) true) = v) /\
  (forall a b, a <> [] -> b <> [] -> next_pow2 2 (length a + length b - 1) <= 2 ^ Kmax ->
     (forall l, l < length a + length b - 1 -> inr (conv_coef a b l)) ->
     snd (multiply ops tw s a b) = conv a b) /\
  (forall a b j res, a <> [] -> b <> [] -> S j <= Kmax -> length a + length b - 1 <= 2 ^ S j ->
     (forall l, l < length a + length b - 1 -> inr (conv_coef a b l)) -> inr 0%Z ->
     snd (inv_prod_into ops tw s a b (2 ^ S j) res) =
     zip_acc Z.add res (conv a b ++ repeat 0%Z (2 ^ S j - (length a + length b - 1)))) /\
  (forall (s' : st (F := F)) a b j res, reach ops tw s' -> a <> [] -> b <> [] -> S j <= Kmax ->
     length a + length b - 1 <= 2 ^ S j ->
     (forall l, l < length a + length b - 1 -> inr (conv_coef a b l)) -> inr 0%Z ->
     snd (inv_prod_x ops tw s s' a b (2 ^ S j) res) =
     zip_acc Z.add res (conv a b ++ repeat 0%Z (2 ^ S j - (length a + length b - 1)))).
Proof. exact exact_algebra_all. Qed.
