(** C04 — correspondence cases.  One case = one history of calls on FFT<f64> objects (two live objects:
    the current one, on which every call runs, and a second one that [OSwap] exchanges with it, [OClone]
    overwrites with a clone of it, and on which [OInvX] runs the inverse transform), the
    observation of every call, and the twiddle table [w] of the largest object of the history
    (hook [verif_tables]), as IEEE-754 binary64 bit patterns.

    [model_check]: the binary64 instance of the model (primitive floats; the oracle [tw cur i] is
    read off the implementation's own table: [w[i * (max_n / (2 cur))]]), threaded through the
    history, reproduces every observation — complex outputs bit for bit (after -0 |-> +0), integer
    outputs exactly.
    [spec_check]: the integer outputs are the integer convolution, computed directly
    ([Model.conv], independent of the FFT model); for [OInvS] (the inverse transform handed the exactly
    scaled spectrum of v[j] / 2^sh) the integers nearest to v[j] / 2^sh. *)
From Coq Require Import List ZArith Bool Floats Uint63.
From RlibV Require Import Common.Batch C04.Model.
Import ListNotations.
Open Scope Z_scope.

(** ** binary64 instance *)
Definition f_of_Z (z : Z) : float :=
  match z with
  | Z0 => 0%float
  | Zpos _ => PrimFloat.of_uint63 (Uint63.of_Z z)
  | Zneg p => PrimFloat.opp (PrimFloat.of_uint63 (Uint63.of_Z (Zpos p)))
  end.
Definition i64_min : Z := - 2 ^ 63.
Definition i64_max : Z := 2 ^ 63 - 1.
(** [x.round().round() as i64]: half away from zero, saturating cast, NaN |-> 0 *)
Definition f_to_int (x : float) : Z :=
  match Prim2SF x with
  | S754_zero _ => 0
  | S754_nan => 0
  | S754_infinity s => if s then i64_min else i64_max
  | S754_finite s m e =>
      let v := if 0 <=? e then Zpos m * 2 ^ e else (Zpos m * 2 + 2 ^ (- e)) / 2 ^ (- e + 1) in
      let v := if s then - v else v in
      Z.max i64_min (Z.min i64_max v)
  end.
Definition fops : Ops float :=
  mkOps float PrimFloat.add PrimFloat.sub PrimFloat.mul PrimFloat.div PrimFloat.opp 0%float 1%float f_of_Z f_to_int.

Definition sf_of_bits (b : Z) : spec_float :=
  let s := Z.testbit b 63 in
  let e := Z.land (Z.shiftr b 52) 2047 in
  let m := Z.land b (2 ^ 52 - 1) in
  if e =? 2047 then (if m =? 0 then S754_infinity s else S754_nan)
  else if e =? 0 then match m with Zpos p => S754_finite s p (-1074) | _ => S754_zero s end
  else match m + 2 ^ 52 with Zpos p => S754_finite s p (e - 1075) | _ => S754_nan end.
Definition f_of_bits (b : Z) : float := SF2Prim (sf_of_bits b).
Definition c_of_bits (p : Z * Z) : float * float := (f_of_bits (fst p), f_of_bits (snd p)).

(** equality of observations: numeric equality identifies -0 and +0; all NaNs are identified *)
Definition feqb (x y : float) : bool :=
  PrimFloat.eqb x y || (PrimFloat.is_nan x && PrimFloat.is_nan y).
Definition ceqb (x y : float * float) : bool := feqb (fst x) (fst y) && feqb (snd x) (snd y).

(** the oracle read off a table of size max_n + 1 *)
Definition tw_of_table (tab : list (float * float)) (cur i : nat) : float * float :=
  nth (i * ((length tab - 1) / (2 * cur)))%nat tab (0%float, 0%float).

(** integer literals of the generated case files: Coq's decimal parser for [Z] costs ~1 ms per
    19-digit number, primitive 63-bit integers parse natively.  [zp x] = x, [zn x] = -x,
    [zh x] = x + 2^63 (a 64-bit pattern with the sign bit set). *)
Definition zp (x : int) : Z := Uint63.to_Z x.
Definition zn (x : int) : Z := - Uint63.to_Z x.
Definition zh (x : int) : Z := Uint63.to_Z x + 2 ^ 63.
Arguments zp x%uint63. Arguments zn x%uint63. Arguments zh x%uint63.

(** ** cases *)
Inductive op :=
| OFresh                                                     (* drop the object, take FFT::new() *)
| OUpd (n : Z)                                               (* update_n(n) *)
| OMul (a b : list Z) (r : list Z)                           (* multiply *)
| OMulInto (a b res0 : list Z) (r : list Z)                  (* multiply_into on destination res0 *)
| OFft (v : list Z) (n : Z) (r : list (Z * Z))               (* fft(v, n): bit patterns *)
| OFftInto (v : list Z) (n : Z) (res0 : list (Z * Z)) (r plain : list (Z * Z))
                                                             (* fft_into on destination res0 (small integers), then
                                                                fft of the same input on the same object *)
| OInv (a b : list Z) (n : Z) (res0 : list Z) (r : list Z)   (* fft a n, fft b n, product, fft_inv_into res0 *)
| OSwap                                                      (* exchange the current and the second object *)
| OClone                                                     (* second object := clone of the current one *)
| OInvX (a b : list Z) (n : Z) (res0 : list Z) (r : list Z)  (* fft a n, fft b n on the current object, product,
                                                                fft_inv_into res0 on the SECOND object *)
| OInvS (v : list Z) (n sh : Z) (res0 : list Z) (r : list Z) (* fft v n, every entry times 2^-sh (exact), fft_inv_into res0:
                                                                the inverse transform of the spectrum of v[j] / 2^sh *)
| OInvSX (v : list Z) (n sh : Z) (res0 : list Z) (r : list Z) (* the same, inverse transform on the SECOND object *)
| OPanic.                                                    (* the call panicked *)
Record case := mkcase { table : list (Z * Z); ops : list op }.

Definition cstate := st (F := float).
Definition dest_of (p : Z * Z) : float * float := (f_of_Z (fst p), f_of_Z (snd p)).

Section Run.
Variable tw : nat -> nat -> float * float.
Definition m_new : cstate := new_st fops tw.
(** the user's side of [OInvS]: [Complex::new(c.x * k, c.y * k)] with [k = 1.0 / 2^sh] *)
Definition f_pow2_inv (sh : Z) : float := PrimFloat.div 1%float (f_of_Z (2 ^ sh)).
Definition inv_scaled_x (s s' : cstate) (v : list Z) (n : nat) (sh : Z) (res : list Z) : (cstate * cstate) * list Z :=
  let '(s, fv) := fft fops tw s v n in
  let k := f_pow2_inv sh in
  let '(s', r) := fft_inv_into fops tw s' (map (fun c => cscale fops c k) fv) res in
  ((s, s'), r).
Definition inv_scaled (s : cstate) (v : list Z) (n : nat) (sh : Z) (res : list Z) : cstate * list Z :=
  let '(s, fv) := fft fops tw s v n in
  fft_inv_into fops tw s (map (fun c => cscale fops c (f_pow2_inv sh)) fv) res.
(** model of one call: new states of the two objects (current, second), and whether the observation is reproduced *)
Definition step_model (ss : cstate * cstate) (o : op) : (cstate * cstate) * bool :=
  let '(s, t) := ss in
  match o with
  | OFresh => ((m_new, t), true)
  | OUpd n => ((update_n fops tw s (Z.to_nat n), t), true)
  | OMul a b r => let '(s', x) := multiply fops tw s a b in ((s', t), leqb Z.eqb x r)
  | OMulInto a b res0 r => let '(s', x) := multiply_into fops tw s a b res0 in ((s', t), leqb Z.eqb x r)
  | OFft v n r => let '(s', x) := fft fops tw s v (Z.to_nat n) in ((s', t), leqb ceqb x (map c_of_bits r))
  | OFftInto v n res0 r plain =>
      let '(s1, x) := fft_into fops tw s v (Z.to_nat n) (map dest_of res0) in
      let '(s', y) := fft fops tw s1 v (Z.to_nat n) in
      ((s', t), leqb ceqb x (map c_of_bits r) && leqb ceqb y (map c_of_bits plain))
  | OInv a b n res0 r => let '(s', x) := inv_prod_into fops tw s a b (Z.to_nat n) res0 in ((s', t), leqb Z.eqb x r)
  | OSwap => ((t, s), true)
  | OClone => ((s, s), true)
  | OInvX a b n res0 r => let '(ss', x) := inv_prod_x fops tw s t a b (Z.to_nat n) res0 in (ss', leqb Z.eqb x r)
  | OInvS v n sh res0 r => let '(s', x) := inv_scaled s v (Z.to_nat n) sh res0 in ((s', t), leqb Z.eqb x r)
  | OInvSX v n sh res0 r => let '(ss', x) := inv_scaled_x s t v (Z.to_nat n) sh res0 in (ss', leqb Z.eqb x r)
  | OPanic => (ss, false)
  end.
Fixpoint run_model (ss : cstate * cstate) (l : list op) : bool :=
  match l with
  | [] => true
  | o :: l' => let '(ss', ok) := step_model ss o in ok && run_model ss' l'
  end.
End Run.

Definition model_check (c : case) : bool :=
  let tw := tw_of_table (map c_of_bits (table c)) in
  run_model tw (m_new tw, m_new tw) (ops c).

(** ** the specification on the integer observations *)
Definition zip_add_Z (res ys : list Z) : list Z := zip_acc Z.add res ys.
Definition pad (l : list Z) (n : nat) : list Z := l ++ repeat 0 (n - length l).
(** the integer nearest to x / 2^sh; [None] when x / 2^sh is within 3/64 of a tie (never generated: the property
    promises recovery of the integers while the float error stays below 1/2, it says nothing about exact ties) *)
Definition nearest_shift (sh x : Z) : option Z :=
  let q := 2 ^ sh in
  let m := x mod q in
  if 64 * m <=? 29 * q then Some (x / q)
  else if 35 * q <=? 64 * m then Some (x / q + 1)
  else None.
Fixpoint nearest_all (sh : Z) (v : list Z) : option (list Z) :=
  match v with
  | [] => Some []
  | x :: t => match nearest_shift sh x, nearest_all sh t with Some y, Some r => Some (y :: r) | _, _ => None end
  end.
(** the inverse transform of the spectrum of the real sequence v[j] / 2^sh ADDS the nearest integers to the destination
    (for sh = 0 this is the ordinary round trip) *)
Definition spec_scaled (v : list Z) (n sh : Z) (res0 r : list Z) : bool :=
  if (Z.of_nat (length v) <=? n) && (0 <? n) && (0 <=? sh)
  then match nearest_all sh v with
       | Some w => leqb Z.eqb r (zip_add_Z res0 (pad w (Z.to_nat n)))
       | None => true
       end
  else true.
Definition spec_op (o : op) : bool :=
  match o with
  | OMul a b r => leqb Z.eqb r (conv a b)
  | OMulInto a b res0 r => leqb Z.eqb r (zip_add_Z res0 (conv a b))
  | OInv a b n res0 r =>
      (* meaningful when the transform size holds the whole product *)
      if (Z.of_nat (length a + length b) - 1 <=? n) && negb (length a =? 0)%nat && negb (length b =? 0)%nat
      then leqb Z.eqb r (zip_add_Z res0 (pad (conv a b) (Z.to_nat n)))
      else true
  | OInvX a b n res0 r =>
      (* the same specification: on which object the inverse transform ran must not matter *)
      if (Z.of_nat (length a + length b) - 1 <=? n) && negb (length a =? 0)%nat && negb (length b =? 0)%nat
      then leqb Z.eqb r (zip_add_Z res0 (pad (conv a b) (Z.to_nat n)))
      else true
  | OInvS v n sh res0 r => spec_scaled v n sh res0 r
  | OInvSX v n sh res0 r => spec_scaled v n sh res0 r
  | OFft v n r => (length r =? fft_size (length v) (Z.to_nat n))%nat
  | OFftInto v n res0 r plain =>
      (* additive contract, in binary64: destination + fft(v, n), elementwise over the zip *)
      leqb ceqb (map c_of_bits r) (zip_acc (cadd fops) (map dest_of res0) (map c_of_bits plain))
  | OPanic => false
  | _ => true
  end.
Definition spec_check (c : case) : bool := forallb spec_op (ops c).

(** for replay files: what the model computes for every call of the history *)
Inductive shown := SInts (l : list Z) | SCplx (l : list (spec_float * spec_float)) | SNone.
Definition show_c (l : list (float * float)) := SCplx (map (fun c => (Prim2SF (fst c), Prim2SF (snd c))) l).
Fixpoint explain_from (tw : nat -> nat -> float * float) (ss : cstate * cstate) (l : list op) : list shown :=
  match l with
  | [] => []
  | o :: l' =>
      let '(s, t) := ss in
      let '(ss', x) :=
        match o with
        | OFresh => ((m_new tw, t), SNone)
        | OUpd n => ((update_n fops tw s (Z.to_nat n), t), SNone)
        | OMul a b _ => let '(s', x) := multiply fops tw s a b in ((s', t), SInts x)
        | OMulInto a b res0 _ => let '(s', x) := multiply_into fops tw s a b res0 in ((s', t), SInts x)
        | OFft v n _ => let '(s', x) := fft fops tw s v (Z.to_nat n) in ((s', t), show_c x)
        | OFftInto v n res0 _ _ =>
            let '(s1, x) := fft_into fops tw s v (Z.to_nat n) (map dest_of res0) in
            ((fst (fft fops tw s1 v (Z.to_nat n)), t), show_c x)
        | OInv a b n res0 _ => let '(s', x) := inv_prod_into fops tw s a b (Z.to_nat n) res0 in ((s', t), SInts x)
        | OSwap => ((t, s), SNone)
        | OClone => ((s, s), SNone)
        | OInvX a b n res0 _ => let '(ss', x) := inv_prod_x fops tw s t a b (Z.to_nat n) res0 in (ss', SInts x)
        | OInvS v n sh res0 _ => let '(s', x) := inv_scaled tw s v (Z.to_nat n) sh res0 in ((s', t), SInts x)
        | OInvSX v n sh res0 _ => let '(ss', x) := inv_scaled_x tw s t v (Z.to_nat n) sh res0 in (ss', SInts x)
        | OPanic => (ss, SNone)
        end in
      x :: explain_from tw ss' l'
  end.
Definition explain (c : case) : list shown :=
  let tw := tw_of_table (map c_of_bits (table c)) in explain_from tw (m_new tw, m_new tw) (ops c).
