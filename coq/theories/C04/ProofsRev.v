(** C04 — the bit-reversal table is an involution and the conditional-swap loop realises it. *)
From Coq Require Import List ZArith Lia Bool PeanoNat.
From RlibV Require Import C04.Model C04.ProofsBasic C04.ProofsState.
Import ListNotations.
Open Scope nat_scope.

Section Rev.
Context {F : Type} (ops : Ops F) (tw : nat -> nat -> C (F := F)).
Open Scope nat_scope.

Lemma lxor_even_1 x : Nat.lxor (2 * x) 1 = 2 * x + 1.
Proof.
  apply Nat.bits_inj. intros [|n]; rewrite Nat.lxor_spec.
  - rewrite Nat.testbit_even_0, Nat.testbit_odd_0. reflexivity.
  - rewrite Nat.testbit_even_succ', Nat.testbit_odd_succ'.
    change 1 with (2 * 0 + 1). rewrite Nat.testbit_odd_succ', Nat.bits_0.
    apply xorb_false_r.
Qed.

Lemma rf_S k i : rf (S k) i = if i <? 2 ^ k then 2 * rf k i else 2 * rf k (i - 2 ^ k) + 1.
Proof. cbn [rf]. destruct (i <? 2 ^ k); [reflexivity|apply lxor_even_1]. Qed.

Lemma rf_lt k i : i < 2 ^ k -> rf k i < 2 ^ k.
Proof.
  revert i; induction k as [|k IH]; intros i Hi.
  - cbn. lia.
  - rewrite rf_S. rewrite Nat.pow_succ_r' in *.
    destruct (i <? 2 ^ k) eqn:E; [apply Nat.ltb_lt in E | apply Nat.ltb_ge in E].
    + pose proof (IH i E). lia.
    + pose proof (IH (i - 2 ^ k) ltac:(lia)). lia.
Qed.

Lemma rf_dual k s q : s < 2 ^ k -> q < 2 -> rf (S k) (2 * s + q) = rf k s + q * 2 ^ k.
Proof.
  revert s; induction k as [|k IH]; intros s Hs Hq.
  - cbn [Nat.pow] in Hs. assert (s = 0) by lia. subst s.
    destruct q as [|[|q]]; [reflexivity|reflexivity|lia].
  - rewrite (rf_S (S k)). rewrite (rf_S k s).
    pose proof (pow2_pos k) as Hp.
    rewrite Nat.pow_succ_r' in *.
    destruct (s <? 2 ^ k) eqn:E; [apply Nat.ltb_lt in E | apply Nat.ltb_ge in E].
    + destruct (2 * s + q <? 2 * 2 ^ k) eqn:E2; [|apply Nat.ltb_ge in E2; lia].
      rewrite (IH s E Hq). lia.
    + destruct (2 * s + q <? 2 * 2 ^ k) eqn:E2; [apply Nat.ltb_lt in E2; lia|].
      replace (2 * s + q - 2 * 2 ^ k) with (2 * (s - 2 ^ k) + q) by lia.
      rewrite (IH (s - 2 ^ k) ltac:(lia) Hq). lia.
Qed.

Lemma rf_invol k i : i < 2 ^ k -> rf k (rf k i) = i.
Proof.
  revert i; induction k as [|k IH]; intros i Hi.
  - cbn in *. lia.
  - rewrite (rf_S k i). rewrite Nat.pow_succ_r' in Hi.
    destruct (i <? 2 ^ k) eqn:E; [apply Nat.ltb_lt in E | apply Nat.ltb_ge in E].
    + replace (2 * rf k i) with (2 * rf k i + 0) by lia.
      rewrite rf_dual by (try apply rf_lt; lia). rewrite IH by exact E. lia.
    + rewrite rf_dual by (try apply rf_lt; lia). rewrite IH by lia. lia.
Qed.

Lemma rf_0 k : rf k 0 = 0.
Proof.
  induction k as [|k IH]; [reflexivity|]. rewrite rf_S.
  pose proof (pow2_pos k). destruct (0 <? 2 ^ k) eqn:E; [lia|apply Nat.ltb_ge in E; lia].
Qed.
Ltac ltb_cases :=
  repeat match goal with
  | |- context [?x <? ?y] => destruct (Nat.ltb_spec x y)
  | |- context [?x =? ?y] => destruct (Nat.eqb_spec x y)
  end; cbn [orb andb].

Lemma swaps_fold_inv (r : nat -> nat) n (rl : list nat) (v : list C) :
  length v = n -> length rl = n -> (forall i, i < n -> nth i rl 0 = r i) ->
  (forall i, i < n -> r i < n) -> (forall i, i < n -> r (r i) = i) ->
  forall len a (u : list C), a + len <= n -> length u = n ->
  (forall j, j < n -> nth j u (czero ops) =
     if (j <? a) || (r j <? a) then nth (r j) v (czero ops) else nth j v (czero ops)) ->
  forall j, j < n -> nth j (fold_left (swap_step ops rl 0) (seq a len) u) (czero ops) =
     if (j <? a + len) || (r j <? a + len) then nth (r j) v (czero ops) else nth j v (czero ops).
Proof.
  intros Hv Hrl Hnth Hlt Hinv.
  induction len as [|len IH]; intros a u Hal Hu Hu_inv j Hj.
  - cbn [seq fold_left]. rewrite Nat.add_0_r. apply Hu_inv. exact Hj.
  - cbn [seq fold_left]. replace (a + S len) with (S a + len) by lia.
    apply IH; [lia|now rewrite swap_step_length| |exact Hj].
    clear j Hj. intros j Hj.
    assert (Ha : a < n) by lia.
    unfold swap_step. change (Nat.shiftr (nth a rl 0) 0) with (nth a rl 0).
    rewrite (Hnth a Ha).
    pose proof (Hlt a Ha) as Hra. pose proof (Hinv a Ha) as Hrra.
    pose proof (Hlt j Hj) as Hrj. pose proof (Hinv j Hj) as Hrrj.
    destruct (a <? r a) eqn:E; [apply Nat.ltb_lt in E | apply Nat.ltb_ge in E].
    + rewrite !nth_upd, upd_length, Hu.
      destruct (Nat.eqb_spec j (r a)) as [Hj1|Hj1].
      * apply Nat.ltb_lt in Hra. rewrite Hra. cbn [andb].
        rewrite (Hu_inv a Ha). subst j. rewrite Hrra.
        ltb_cases; try lia; reflexivity.
      * cbn [andb]. destruct (Nat.eqb_spec j a) as [Hj2|Hj2].
        -- apply Nat.ltb_lt in Ha. rewrite Ha. cbn [andb].
           rewrite (Hu_inv (r a) Hra). subst j. rewrite Hrra.
           ltb_cases; try lia; reflexivity.
        -- cbn [andb]. rewrite (Hu_inv j Hj).
           assert (r j <> a) by (intros Hc; rewrite Hc in Hrrj; congruence).
           ltb_cases; try lia; reflexivity.
    + rewrite (Hu_inv j Hj).
      destruct (Nat.eq_dec j a) as [->|Hja].
      * ltb_cases; try lia; try reflexivity. f_equal. lia.
      * destruct (Nat.eq_dec (r j) a) as [Hc|Hc].
        -- assert (j = r a) by (rewrite <- Hc; symmetry; exact Hrrj).
           ltb_cases; try lia; reflexivity.
        -- ltb_cases; try lia; reflexivity.
Qed.

Lemma swaps_perm_gen (r : nat -> nat) n (rl : list nat) (v : list C) :
  length v = n -> length rl = n -> (forall i, i < n -> nth i rl 0 = r i) ->
  (forall i, i < n -> r i < n) -> (forall i, i < n -> r (r i) = i) -> r 0 = 0 ->
  forall i, i < n -> nth i (bitrev_swaps ops rl 0 n v) (czero ops) = nth (r i) v (czero ops).
Proof.
  intros Hv Hrl Hnth Hlt Hinv H0 i Hi. unfold bitrev_swaps.
  rewrite (swaps_fold_inv r n rl v Hv Hrl Hnth Hlt Hinv (n - 1) 1 v); [|lia|exact Hv| |exact Hi].
  - replace (1 + (n - 1)) with n by lia. apply Nat.ltb_lt in Hi. rewrite Hi. reflexivity.
  - intros j Hj. pose proof (Hinv j Hj) as Hrrj.
    assert (Hz : j < 1 \/ r j < 1 -> j = 0).
    { intros [Hc|Hc]; [lia|]. assert (r j = 0) by lia. congruence. }
    ltb_cases; try reflexivity; rewrite Hz by lia; now rewrite H0.
Qed.

Lemma swaps_perm m (v : list C) i : length v = 2 ^ m -> i < 2 ^ m ->
  nth i (bitrev_swaps ops (map (rf m) (seq 0 (2 ^ m))) 0 (2 ^ m) v) (czero ops) = nth (rf m i) v (czero ops).
Proof.
  intros Hv Hi. apply (swaps_perm_gen (rf m)); try assumption.
  - apply map_seq_length.
  - intros j Hj. apply nth_map_seq. exact Hj.
  - intros j Hj. apply rf_lt. exact Hj.
  - intros j Hj. apply rf_invol. exact Hj.
  - apply rf_0.
Qed.
End Rev.
