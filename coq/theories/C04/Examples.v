(** C04 — non-vacuity of the algebra theorem: an exact executable instance over Z/p,
    p = 998244353, which satisfies every hypothesis of [exact_algebra_all], executed in Coq. *)
From Coq Require Import List ZArith Lia Bool PeanoNat Ring Zdiv Zpow_facts Eqdep_dec.
From RlibV Require Import C04.Model C04.AlgRing C04.ProofsState C04.ProofsTable C04.ProofsMain.
Import ListNotations.
Open Scope Z_scope.

(** * 1. Scalars: Z/p as a sigma type with a boolean range proof *)
Definition p : Z := 998244353.
Lemma p_pos : 0 < p. Proof. reflexivity. Qed.
Lemma p_gt1 : 1 < p. Proof. reflexivity. Qed.
Lemma half_val : (p - 1) / 2 = 499122176. Proof. reflexivity. Qed.
Lemma p_val : p = 2 * 499122176 + 1. Proof. reflexivity. Qed.

Definition Fp : Type := { x : Z | ((0 <=? x) && (x <? p))%bool = true }.
Definition val (a : Fp) : Z := proj1_sig a.

Lemma Fp_eq : forall a b : Fp, val a = val b -> a = b.
Proof.
  intros [a Ha] [b Hb]. unfold val. cbn [proj1_sig]. intros E. subst b. f_equal.
  apply UIP_dec. apply bool_dec.
Qed.

Lemma val_range (a : Fp) : 0 <= val a < p.
Proof.
  destruct a as [a Ha]. unfold val. cbn [proj1_sig].
  apply andb_prop in Ha. destruct Ha as [H1 H2].
  apply Z.leb_le in H1. apply Z.ltb_lt in H2. split; assumption.
Qed.

Lemma mkFp_ok (z : Z) : ((0 <=? z mod p) && (z mod p <? p))%bool = true.
Proof.
  pose proof (Z.mod_pos_bound z p p_pos) as [H1 H2].
  apply andb_true_intro. split; [apply Z.leb_le | apply Z.ltb_lt]; assumption.
Qed.
Definition mkFp (z : Z) : Fp := exist _ (z mod p) (mkFp_ok z).
Lemma val_mkFp z : val (mkFp z) = z mod p.
Proof. reflexivity. Qed.

(** binary exponentiation mod p *)
Fixpoint powmod_pos (b : Z) (e : positive) : Z :=
  match e with
  | xH => b mod p
  | xO e' => let t := powmod_pos b e' in (t * t) mod p
  | xI e' => let t := powmod_pos b e' in ((t * t) mod p * b) mod p
  end.
Definition powmod (b e : Z) : Z :=
  match e with Zpos q => powmod_pos b q | _ => 1 mod p end.

Definition zp_add (a b : Fp) : Fp := mkFp (val a + val b).
Definition zp_sub (a b : Fp) : Fp := mkFp (val a - val b).
Definition zp_mul (a b : Fp) : Fp := mkFp (val a * val b).
Definition zp_neg (a : Fp) : Fp := mkFp (- val a).
Definition zp_zero : Fp := mkFp 0.
Definition zp_one : Fp := mkFp 1.
Definition zp_of_Z (z : Z) : Fp := mkFp z.
Definition zp_div (a b : Fp) : Fp := mkFp (val a * powmod (val b) (p - 2)).
(** the symmetric residue *)
Definition zp_to_int (a : Fp) : Z := if val a <=? (p - 1) / 2 then val a else val a - p.

Definition zp_ops : Ops Fp :=
  mkOps Fp zp_add zp_sub zp_mul zp_div zp_neg zp_zero zp_one zp_of_Z zp_to_int.

Definition inr (z : Z) : Prop := - ((p - 1) / 2) <= z <= (p - 1) / 2.

(** * 2. The laws *)
Lemma zp_ring : ring_theory zp_zero zp_one zp_add zp_mul zp_sub zp_neg eq.
Proof.
  constructor.
  - intros x. apply Fp_eq. unfold zp_add, zp_zero. rewrite !val_mkFp.
    rewrite Zmod_0_l, Z.add_0_l. apply Z.mod_small. apply val_range.
  - intros x y. apply Fp_eq. unfold zp_add. rewrite !val_mkFp. f_equal. apply Z.add_comm.
  - intros x y z. apply Fp_eq. unfold zp_add. rewrite !val_mkFp.
    rewrite Zplus_mod_idemp_r, Zplus_mod_idemp_l. f_equal. apply Z.add_assoc.
  - intros x. apply Fp_eq. unfold zp_mul, zp_one. rewrite !val_mkFp.
    rewrite Zmult_mod_idemp_l, Z.mul_1_l. apply Z.mod_small. apply val_range.
  - intros x y. apply Fp_eq. unfold zp_mul. rewrite !val_mkFp. f_equal. apply Z.mul_comm.
  - intros x y z. apply Fp_eq. unfold zp_mul. rewrite !val_mkFp.
    rewrite Zmult_mod_idemp_r, Zmult_mod_idemp_l. f_equal. apply Z.mul_assoc.
  - intros x y z. apply Fp_eq. unfold zp_mul, zp_add. rewrite !val_mkFp.
    rewrite Zmult_mod_idemp_l, <- Zplus_mod. f_equal. apply Z.mul_add_distr_r.
  - intros x y. apply Fp_eq. unfold zp_sub, zp_add, zp_neg. rewrite !val_mkFp.
    rewrite Zplus_mod_idemp_r. f_equal.
  - intros x. apply Fp_eq. unfold zp_add, zp_neg, zp_zero. rewrite !val_mkFp.
    rewrite Zplus_mod_idemp_r, Z.add_opp_diag_r. reflexivity.
Qed.

Lemma zp_of_Z_add a b : zp_of_Z (a + b) = zp_add (zp_of_Z a) (zp_of_Z b).
Proof. apply Fp_eq. unfold zp_add, zp_of_Z. rewrite !val_mkFp. apply Zplus_mod. Qed.
Lemma zp_of_Z_mul a b : zp_of_Z (a * b) = zp_mul (zp_of_Z a) (zp_of_Z b).
Proof. apply Fp_eq. unfold zp_mul, zp_of_Z. rewrite !val_mkFp. apply Zmult_mod. Qed.

Lemma zp_half : exists h, zp_mul (zp_of_Z 2) h = zp_one.
Proof. exists (mkFp ((p + 1) / 2)). apply Fp_eq. vm_compute. reflexivity. Qed.

Lemma powmod_pos_spec b e : powmod_pos b e = (b ^ Zpos e) mod p.
Proof.
  induction e as [e IH|e IH|]; cbn [powmod_pos].
  - rewrite IH, Pos2Z.inj_xI.
    replace (2 * Z.pos e + 1) with (Z.pos e + Z.pos e + 1) by lia.
    rewrite !Z.pow_add_r, Z.pow_1_r by lia.
    rewrite <- Zmult_mod, Zmult_mod_idemp_l. reflexivity.
  - rewrite IH, Pos2Z.inj_xO.
    replace (2 * Z.pos e) with (Z.pos e + Z.pos e) by lia.
    rewrite Z.pow_add_r by lia. rewrite <- Zmult_mod. reflexivity.
  - rewrite Z.pow_1_r. reflexivity.
Qed.
Lemma powmod_spec b e : 0 <= e -> powmod b e = (b ^ e) mod p.
Proof.
  intros He. destruct e as [|q|q]; unfold powmod.
  - rewrite Z.pow_0_r. reflexivity.
  - apply powmod_pos_spec.
  - lia.
Qed.

Lemma pm1_eq : p - 1 = Zpos 998244352. Proof. reflexivity. Qed.
Lemma pm2_nonneg : 0 <= p - 2. Proof. intro H. discriminate H. Qed.

Lemma two_fermat : (2 ^ (p - 1)) mod p = 1.
Proof. rewrite pm1_eq, <- powmod_pos_spec. vm_compute. reflexivity. Qed.

Lemma pow2_fermat (k : nat) : ((2 ^ Z.of_nat k) ^ (p - 1)) mod p = 1.
Proof.
  rewrite <- Z.pow_mul_r by (try apply Nat2Z.is_nonneg; rewrite pm1_eq; lia).
  rewrite Z.mul_comm, Z.pow_mul_r by (try apply Nat2Z.is_nonneg; rewrite pm1_eq; lia).
  rewrite Zpower_mod by exact p_pos. rewrite two_fermat.
  rewrite Z.pow_1_l by apply Nat2Z.is_nonneg. apply Z.mod_1_l. exact p_gt1.
Qed.

Lemma zp_div_pow2 a k :
  zp_mul (zp_div a (zp_of_Z (2 ^ Z.of_nat k))) (zp_of_Z (2 ^ Z.of_nat k)) = a.
Proof.
  apply Fp_eq. unfold zp_mul, zp_div, zp_of_Z. rewrite !val_mkFp.
  set (x := 2 ^ Z.of_nat k).
  rewrite powmod_spec by exact pm2_nonneg.
  rewrite <- Zpower_mod by exact p_pos.
  assert (E : ((x ^ (p - 2)) mod p * (x mod p)) mod p = 1).
  { rewrite <- Zmult_mod. rewrite Z.mul_comm, <- Z.pow_succ_r by exact pm2_nonneg.
    replace (Z.succ (p - 2)) with (p - 1) by lia. apply pow2_fermat. }
  rewrite Zmult_mod_idemp_l, <- Z.mul_assoc, <- Zmult_mod_idemp_r, E, Z.mul_1_r.
  apply Z.mod_small. apply val_range.
Qed.

Lemma zp_to_int_of_Z z : inr z -> zp_to_int (zp_of_Z z) = z.
Proof.
  unfold inr. rewrite half_val. intros Hz.
  unfold zp_to_int, zp_of_Z. rewrite val_mkFp, half_val.
  destruct (Z_lt_le_dec z 0) as [Hneg|Hpos].
  - assert (E : z mod p = z + p).
    { symmetry. apply (Z.mod_unique_pos z p (-1) (z + p)); rewrite p_val; lia. }
    rewrite E. destruct (Z.leb_spec (z + p) 499122176) as [H|H]; rewrite p_val in *; lia.
  - rewrite Z.mod_small by (rewrite p_val; lia).
    destruct (Z.leb_spec z 499122176) as [H|H]; lia.
Qed.

Lemma zp_lawful : Lawful zp_ops inr.
Proof.
  constructor.
  - exact zp_ring.
  - reflexivity.
  - exact zp_of_Z_add.
  - exact zp_of_Z_mul.
  - exact zp_half.
  - exact zp_div_pow2.
  - exact zp_to_int_of_Z.
Qed.

(** * 3. Twiddles: powers of an element of order 128 on the unit circle *)
Notation CF := (Fp * Fp)%type.
Definition Kmax : nat := 7%nat.
Definition w128 : CF := (mkFp 957596490, mkFp 294356950).
Fixpoint pows (n : nat) (acc : CF) : list CF :=
  match n with
  | O => []
  | S n' => acc :: pows n' (cmul zp_ops acc w128)
  end.
Definition T128 : list CF := Eval vm_compute in pows 129 (cone zp_ops).
(** [tw cur i] = e^(i*pi*i/cur) = w128^(i * 64 / cur) for cur | 64 *)
Definition zp_tw (cur i : nat) : CF := nth (i * (64 / cur))%nat T128 (zp_zero, zp_zero).

Definition ceqb (a b : CF) : bool :=
  (val (fst a) =? val (fst b)) && (val (snd a) =? val (snd b)).
Lemma ceqb_eq a b : ceqb a b = true -> a = b.
Proof.
  destruct a as [a1 a2], b as [b1 b2]. unfold ceqb. cbn [fst snd]. intros H.
  apply andb_prop in H. destruct H as [H1 H2]. apply Z.eqb_eq in H1, H2.
  f_equal; apply Fp_eq; assumption.
Qed.

Notation wtz := (wt zp_ops zp_tw).
Definition table_okb (k : nat) : bool :=
  let N := (2 ^ k)%nat in
  let idx := seq 0 (N + 1) in
  ceqb (wtz k 0%nat) (cone zp_ops) &&
  forallb (fun a => forallb (fun b =>
     ceqb (cmul zp_ops (wtz k a) (wtz k b)) (wtz k ((a + b) mod N)%nat)) idx) idx &&
  ceqb (wtz k (N / 2)%nat) (cneg zp_ops (cone zp_ops)) &&
  ceqb (wtz k (N / 4)%nat) (ci zp_ops) &&
  forallb (fun a => ceqb (conj zp_ops (wtz k a)) (wtz k (N - a)%nat)) idx.

Lemma in_idx N a : (a <= N)%nat -> In a (seq 0 (N + 1)).
Proof. intros H. apply in_seq. lia. Qed.

Lemma table_okb_ok k : table_okb k = true -> table_ok zp_ops zp_tw k.
Proof.
  unfold table_okb. cbv zeta. intros H.
  apply andb_prop in H. destruct H as [H H5].
  apply andb_prop in H. destruct H as [H H4].
  apply andb_prop in H. destruct H as [H H3].
  apply andb_prop in H. destruct H as [H1 H2].
  constructor.
  - apply ceqb_eq. exact H1.
  - intros a b Ha Hb. apply ceqb_eq.
    rewrite forallb_forall in H2. specialize (H2 a (in_idx _ a Ha)).
    rewrite forallb_forall in H2. exact (H2 b (in_idx _ b Hb)).
  - apply ceqb_eq. exact H3.
  - apply ceqb_eq. exact H4.
  - intros a Ha. apply ceqb_eq. rewrite forallb_forall in H5. exact (H5 a (in_idx _ a Ha)).
Qed.

Lemma zp_tables : forall k, (2 <= k <= Kmax)%nat -> table_ok zp_ops zp_tw k.
Proof.
  intros k [H2 H7]. unfold Kmax in H7.
  destruct k as [|[|[|[|[|[|[|[|k]]]]]]]]; try lia; apply table_okb_ok; vm_compute; reflexivity.
Qed.

(** * 5. The theorem instantiated: its hypotheses are satisfiable *)
Definition s0 : st (F := Fp) := new_st zp_ops zp_tw.

Lemma s0_len : (length (R s0) <= 2 ^ Kmax)%nat.
Proof.
  unfold s0. rewrite (good_len_R zp_ops zp_tw 2 _ (new_good zp_ops zp_tw)).
  apply Nat.pow_le_mono_r; unfold Kmax; lia.
Qed.

Definition zp_exact_algebra :=
  exact_algebra_all Fp zp_ops inr zp_tw Kmax zp_lawful zp_tables s0 (reach_new zp_ops zp_tw) s0_len.

Theorem zp_multiply_exact : forall a b, a <> [] -> b <> [] ->
  (next_pow2 2 (length a + length b - 1) <= 2 ^ Kmax)%nat ->
  (forall l, (l < length a + length b - 1)%nat -> inr (conv_coef a b l)) ->
  snd (multiply zp_ops zp_tw s0 a b) = conv a b.
Proof. exact (proj1 (proj2 (proj2 zp_exact_algebra))). Qed.

Theorem zp_inv_prod_exact : forall a b j res, a <> [] -> b <> [] -> (S j <= Kmax)%nat ->
  (length a + length b - 1 <= 2 ^ S j)%nat ->
  (forall l, (l < length a + length b - 1)%nat -> inr (conv_coef a b l)) ->
  snd (inv_prod_into zp_ops zp_tw s0 a b (2 ^ S j) res) =
  zip_acc Z.add res (conv a b ++ repeat 0 (2 ^ S j - (length a + length b - 1))).
Proof.
  intros a b j res Ha Hb Hj Htot Hin.
  apply (proj1 (proj2 (proj2 (proj2 zp_exact_algebra)))); try assumption.
  unfold inr. rewrite half_val. lia.
Qed.

(** the two forward transforms on [s0], the inverse transform on any other reachable object *)
Theorem zp_inv_prod_x_exact : forall (s' : st (F := Fp)) a b j res, reach zp_ops zp_tw s' ->
  a <> [] -> b <> [] -> (S j <= Kmax)%nat ->
  (length a + length b - 1 <= 2 ^ S j)%nat ->
  (forall l, (l < length a + length b - 1)%nat -> inr (conv_coef a b l)) ->
  snd (inv_prod_x zp_ops zp_tw s0 s' a b (2 ^ S j) res) =
  zip_acc Z.add res (conv a b ++ repeat 0 (2 ^ S j - (length a + length b - 1))).
Proof.
  intros s' a b j res Hr' Ha Hb Hj Htot Hin.
  apply (proj2 (proj2 (proj2 (proj2 zp_exact_algebra)))); try assumption.
  unfold inr. rewrite half_val. lia.
Qed.

Theorem zp_roundtrip : forall m (v : list CF), (m <= Kmax)%nat -> length v = (2 ^ m)%nat ->
  snd (fft_internal zp_ops zp_tw s0 (snd (fft_internal zp_ops zp_tw s0 v false)) true) = v.
Proof.
  intros m v Hm Hv.
  exact (proj1 (proj2 zp_exact_algebra) s0 m v (reach_new zp_ops zp_tw) s0_len Hm Hv).
Qed.

(** * 4. Executed examples *)
Example zp_run_1 : snd (multiply zp_ops zp_tw s0 [1;2;3] [4;5]) = conv [1;2;3] [4;5].
Proof. vm_compute. reflexivity. Qed.
Example zp_run_1_val : snd (multiply zp_ops zp_tw s0 [1;2;3] [4;5]) = [4;13;22;15].
Proof. vm_compute. reflexivity. Qed.

Example zp_run_neg : snd (multiply zp_ops zp_tw s0 [-1;2;-3] [4;-5]) = conv [-1;2;-3] [4;-5].
Proof. vm_compute. reflexivity. Qed.
Example zp_run_neg_val : snd (multiply zp_ops zp_tw s0 [-1;2;-3] [4;-5]) = [-4;13;-22;15].
Proof. vm_compute. reflexivity. Qed.

(** coefficients (-1)^i * (base + i) *)
Definition alt (base : Z) (n : nat) : list Z :=
  map (fun i => (if Nat.even i then 1 else -1) * (base + Z.of_nat i)) (seq 0 n).

(** lengths (5,4): transform size 8 *)
Example zp_run_8 : snd (multiply zp_ops zp_tw s0 (alt 1000 5) (alt 7 4)) = conv (alt 1000 5) (alt 7 4).
Proof. vm_compute. reflexivity. Qed.
(** lengths (9,8): transform size 16 *)
Example zp_run_16 : snd (multiply zp_ops zp_tw s0 (alt 1000 9) (alt 2000 8)) = conv (alt 1000 9) (alt 2000 8).
Proof. vm_compute. reflexivity. Qed.
(** lengths (33,32): transform size 64 *)
Example zp_run_64 : snd (multiply zp_ops zp_tw s0 (alt 1000 33) (alt 2000 32)) = conv (alt 1000 33) (alt 2000 32).
Proof. vm_compute. reflexivity. Qed.
(** magnitude 20000 x 20000, lengths (1,1) .. : |conv| <= 4e8 + ... stays below (p-1)/2 *)
Example zp_run_big : snd (multiply zp_ops zp_tw s0 [20000; -20000] [20000]) = [400000000; -400000000].
Proof. vm_compute. reflexivity. Qed.
(** magnitudes <= 3032 at length 33: |conv| <= 33 * 3032^2 < (p-1)/2 *)
Example zp_run_64_big : snd (multiply zp_ops zp_tw s0 (alt 3000 33) (alt 3000 32)) = conv (alt 3000 33) (alt 3000 32).
Proof. vm_compute. reflexivity. Qed.
(** the symmetric-residue range is sharp: one more and the result wraps (the hypothesis [inr] is needed) *)
Example zp_run_edge : snd (multiply zp_ops zp_tw s0 [499122176] [1; -1]) = [499122176; -499122176].
Proof. vm_compute. reflexivity. Qed.
Example zp_run_wrap : snd (multiply zp_ops zp_tw s0 [499122177] [1]) = [-499122176].
Proof. vm_compute. reflexivity. Qed.

(** a reused larger state gives the same result *)
Definition s64 : st (F := Fp) := update_n zp_ops zp_tw s0 64.
Example zp_run_reuse : snd (multiply zp_ops zp_tw s64 (alt 1000 5) (alt 7 4)) = conv (alt 1000 5) (alt 7 4).
Proof. vm_compute. reflexivity. Qed.
Example zp_run_reuse_len : (length (R s64), length (W s64)) = (64%nat, 65%nat).
Proof. vm_compute. reflexivity. Qed.
(** the state after a size-64 multiply on [s0] has grown to 64 *)
Example zp_run_grow : length (R (fst (multiply zp_ops zp_tw s0 (alt 1000 33) (alt 2000 32)))) = 64%nat.
Proof. vm_compute. reflexivity. Qed.

(** multiply_into accumulates into a non-zero destination *)
Example zp_run_into :
  snd (multiply_into zp_ops zp_tw s0 [1;2;3] [4;5] [100;-200;300;-400]) =
  zip_acc Z.add [100;-200;300;-400] (conv [1;2;3] [4;5]).
Proof. vm_compute. reflexivity. Qed.

(** fft, fft, pointwise product, fft_inv_into *)
Example zp_run_inv_prod :
  snd (inv_prod_into zp_ops zp_tw s0 [1;2;3] [4;-5] 8 (repeat 0 8)) = conv [1;2;3] [4;-5] ++ repeat 0 4.
Proof. vm_compute. reflexivity. Qed.
Example zp_run_inv_prod_acc :
  snd (inv_prod_into zp_ops zp_tw s0 (alt 10 5) (alt 7 4) 8 [1;1;1;1;1;1;1;1]) =
  zip_acc Z.add [1;1;1;1;1;1;1;1] (conv (alt 10 5) (alt 7 4)).
Proof. vm_compute. reflexivity. Qed.

(** forward transforms on an object that has grown to 64, inverse transform on a FRESH object (size 4) and on
    an object of size 8: the repaired fft_inv_into grows the inverting object first *)
Definition s8 : st (F := Fp) := update_n zp_ops zp_tw s0 (2 ^ 3).
Example zp_run_inv_x_fresh :
  snd (inv_prod_x zp_ops zp_tw s64 s0 [1;2;3;4;5] [6;7;8;9] 8 (repeat 0 8)) = [6;19;40;70;100;94;76;45].
Proof. vm_compute. reflexivity. Qed.
Example zp_run_inv_x_fresh_16 :
  snd (inv_prod_x zp_ops zp_tw s0 s8 (alt 10 5) (alt 7 4) 16 (repeat 1 16)) =
  zip_acc Z.add (repeat 1 16) (conv (alt 10 5) (alt 7 4)).
Proof. vm_compute. reflexivity. Qed.
Example zp_run_inv_x_state :
  let st2 := fst (inv_prod_x zp_ops zp_tw s0 s0 [1;2;3;4;5] [6;7;8;9] 8 (repeat 0 8)) in
  (length (R (fst st2)), length (R (snd st2))) = (8%nat, 8%nat).
Proof. vm_compute. reflexivity. Qed.

(** the code BEFORE /repo 23bca24 ([fft_inv_into_old]: max_n read without growing the object): the same
    spectrum inverted on a fresh object (size 4 < 8: stride 0) and on an object of size 8 gives different
    coefficients, i.e. the result depended on the history of the inverting object.  Exact instance, so the
    difference is not a rounding effect. *)
Definition spec8 : list CF :=
  cprod zp_ops (snd (fft zp_ops zp_tw s0 [1;2;3;4;5] 8)) (snd (fft zp_ops zp_tw s0 [6;7;8;9] 8)).
Example zp_old_on_size8 : snd (fft_inv_into_old zp_ops zp_tw s8 spec8 (repeat 0 8)) = [6;19;40;70;100;94;76;45].
Proof. vm_compute. reflexivity. Qed.
Example zp_old_on_fresh : snd (fft_inv_into_old zp_ops zp_tw s0 spec8 (repeat 0 8)) <> [6;19;40;70;100;94;76;45].
Proof. vm_compute. discriminate. Qed.
Example zp_new_on_fresh : snd (fft_inv_into zp_ops zp_tw s0 spec8 (repeat 0 8)) = [6;19;40;70;100;94;76;45].
Proof. vm_compute. reflexivity. Qed.
Lemma inv_old_history_dependent :
  exists (F : Type) (ops : Ops F) (tw : nat -> nat -> F * F) (s s' : st (F := F)) (v : list (F * F)) (dest : list Z),
    reach ops tw s /\ reach ops tw s' /\ length v = (2 ^ 3)%nat /\
    snd (fft_inv_into_old ops tw s v dest) <> snd (fft_inv_into_old ops tw s' v dest).
Proof.
  exists Fp, zp_ops, zp_tw, s0, s8, spec8, (repeat 0 8).
  split; [apply reach_new|]. split; [apply reach_upd, reach_new|]. split; [vm_compute; reflexivity|].
  rewrite zp_old_on_size8. exact zp_old_on_fresh.
Qed.

(** the instantiated theorem applied to a concrete input (hypotheses discharged by computation) *)
Lemma forall_lt_dec (P : nat -> Prop) n : Forall P (seq 0 n) -> forall l, (l < n)%nat -> P l.
Proof. intros H l Hl. rewrite Forall_forall in H. apply H. apply in_seq. lia. Qed.
Definition inrb (z : Z) : bool := (- ((p - 1) / 2) <=? z) && (z <=? (p - 1) / 2).
Lemma inrb_ok z : inrb z = true -> inr z.
Proof. unfold inrb, inr. intros H. apply andb_prop in H. destruct H as [H1 H2]. apply Z.leb_le in H1, H2. lia. Qed.
Lemma inr_all a b : forallb (fun l => inrb (conv_coef a b l)) (seq 0 (length a + length b - 1)) = true ->
  forall l, (l < length a + length b - 1)%nat -> inr (conv_coef a b l).
Proof.
  intros H l Hl. rewrite forallb_forall in H. apply inrb_ok. apply H. apply in_seq. lia.
Qed.
Example zp_thm_applied :
  snd (multiply zp_ops zp_tw s0 (alt 3000 33) (alt 3000 32)) = conv (alt 3000 33) (alt 3000 32).
Proof.
  apply zp_multiply_exact.
  - discriminate.
  - discriminate.
  - vm_compute. lia.
  - apply inr_all. vm_compute. reflexivity.
Qed.

Print Assumptions zp_lawful.
Print Assumptions zp_tables.
Print Assumptions zp_inv_prod_exact.
Print Assumptions zp_inv_prod_x_exact.
Print Assumptions inv_old_history_dependent.
Print Assumptions zp_roundtrip.
Print Assumptions zp_thm_applied.
Print Assumptions zp_multiply_exact.

(** ** The binary64 instance on literals: the 4-point twiddle table as computed by Rust (IEEE-754 bit
    patterns, hook verif_tables), a product, a forward transform (bit patterns of the four complex
    outputs of [fft(&[1,2,3], 0)]) and the fft / pointwise product / fft_inv_into route. *)
From RlibV Require Import C04.Corr.
Definition rust_table4 : list (Z * Z) :=
  [(4607182418800017408, 0); (4364452196894661639, 4607182418800017408); (13830554455654793216, 4368955796522032135);
   (13594811712176818698, 13830554455654793216); (4607182418800017408, 0)]%Z.
Example f64_run :
  model_check (mkcase rust_table4
    [OMul [2; 3]%Z [4; 5]%Z [8; 22; 15]%Z;
     OFft [1; 2; 3]%Z 0 [(4618441417868443648, 0); (13835058055282163711, 4611686018427387904);
                         (4611686018427387904, 0); (13835058055282163712, 13835058055282163712)]%Z;
     OInv [1; 2]%Z [3; 4]%Z 4 [0; 0; 0; 0]%Z [3; 10; 8; 0]%Z;
     OMulInto [1; -2]%Z [3]%Z [10; 20; 30]%Z [13; 14; 30]%Z]) = true.
Proof. vm_compute. reflexivity. Qed.
Example f64_run_spec :
  spec_check (mkcase rust_table4
    [OMul [2; 3]%Z [4; 5]%Z [8; 22; 15]%Z; OInv [1; 2]%Z [3; 4]%Z 4 [0; 0; 0; 0]%Z [3; 10; 8; 0]%Z;
     OMulInto [1; -2]%Z [3]%Z [10; 20; 30]%Z [13; 14; 30]%Z]) = true.
Proof. vm_compute. reflexivity. Qed.

(** The 8-point table as computed by Rust, and the defect recorded in known_findings.txt (fixed: 23bca24):
    the model of the code BEFORE the repair reproduces the wrong coefficients that
    [FFT::<f64>::new().fft_inv(spectrum of [1,2,3,4,5]*[6,7,8,9] at n = 8)] returned, digit for digit; the model of the
    repaired code returns the product; the correspondence case with the inverse transform on a second,
    fresh object ([OInvX]) is accepted by [model_check] and [spec_check]. *)
Definition rust_table8 : list (Z * Z) :=
  [(4607182418800017408,0); (4604544271217802189,4604544271217802188); (4364452196894661639,4607182418800017408);
   (13827916308072577996,4604544271217802189); (13830554455654793216,4368955796522032135);
   (13827916308072577998,13827916308072577996); (13594811712176818698,13830554455654793216);
   (4604544271217802187,13827916308072577998); (4607182418800017408,0)]%Z.
Definition tw8 := tw_of_table (map c_of_bits rust_table8).
Example f64_old_defect :
  snd (inv_prod_x_old fops tw8 (m_new tw8) (m_new tw8) [1;2;3;4;5]%Z [6;7;8;9]%Z 8 (repeat 0%Z 8)) =
  [24;57;4;57;83;57;111;57]%Z.
Proof. vm_compute. reflexivity. Qed.
Example f64_repaired :
  snd (inv_prod_x fops tw8 (m_new tw8) (m_new tw8) [1;2;3;4;5]%Z [6;7;8;9]%Z 8 (repeat 0%Z 8)) =
  [6;19;40;70;100;94;76;45]%Z.
Proof. vm_compute. reflexivity. Qed.
Example f64_run_x :
  let c := mkcase rust_table8
    [OInvX [1;2;3;4;5]%Z [6;7;8;9]%Z 8 [0;0;0;0;0;0;0;0]%Z [6;19;40;70;100;94;76;45]%Z; OSwap; OFresh; OClone; OSwap;
     OInvX [1;2]%Z [3;4]%Z 4 [1;1;1;1]%Z [4;11;9;1]%Z; OMul [1;2;3;4;5]%Z [6;7;8;9]%Z [6;19;40;70;100;94;76;45]%Z] in
  (model_check c, spec_check c) = (true, true).
Proof. vm_compute. reflexivity. Qed.

(** The write-out of the inverse transform on its own ([OInvS] / [OInvSX]): the spectrum of [-15981; 640; 29] scaled by
    2^-6 is the spectrum of [-249.70..; 10; 0.45..]; Rust returned [-250; 10; 0; 0], on the second object
    [5;5;5] + [-3; -1] for [-164; -41] / 64, and through the n = 1 branch 7 + (-3).  A write-out that truncated, or
    rounded -2.5625 to -2, is rejected by [spec_check]. *)
Example f64_run_round :
  let c := mkcase rust_table8
    [OUpd 8; OInvS [-15981; 640; 29]%Z 4 6 [0; 0; 0; 0]%Z [-250; 10; 0; 0]%Z; OSwap;
     OInvSX [-164; -41]%Z 2 6 [5; 5; 5]%Z [2; 4; 5]%Z; OInvS [-164]%Z 1 6 [7]%Z [4]%Z] in
  (model_check c, spec_check c) = (true, true).
Proof. vm_compute. reflexivity. Qed.
Example f64_round_rejected :
  spec_check (mkcase rust_table8 [OInvS [-164]%Z 1 6 [7]%Z [5]%Z]) = false /\
  spec_check (mkcase rust_table8 [OInvS [-15981; 640; 29]%Z 4 6 [0; 0; 0; 0]%Z [-249; 10; 0; 0]%Z]) = false.
Proof. split; vm_compute; reflexivity. Qed.

(** instances of the hypotheses of c04_shape / c04_history_independent: reachable states of both
    instances, a power-of-two size *)
Example reach_f64 : reach fops (tw_of_table (map c_of_bits rust_table4))
                      (update_n fops (tw_of_table (map c_of_bits rust_table4)) (m_new (tw_of_table (map c_of_bits rust_table4))) (2 ^ 1)).
Proof. apply reach_upd, reach_new. Qed.
Example reach_zp : reach zp_ops zp_tw (update_n zp_ops zp_tw s0 (2 ^ 6)).
Proof. apply reach_upd, reach_new. Qed.
Example size_ok : (4 = 0 \/ exists m, 4 = 2 ^ m)%nat.
Proof. right. exists 2%nat. reflexivity. Qed.
