(** C04 — the table hypotheses of the algebra theorem and what they give: the table of an
    object of size N = 2^k is the list of powers of one N-th root of unity [om k] lying on the unit
    circle, with om^(N/2) = -1 and om^(N/4) = i. *)
From Coq Require Import List ZArith Lia Bool PeanoNat Ring.
From RlibV Require Import C04.Model C04.ProofsBasic C04.ProofsState C04.AlgRing.
Import ListNotations.
Open Scope nat_scope.

Section Table.
Context {F : Type} (ops : Ops F) (inr : Z -> Prop) (L : Lawful ops inr) (tw : nat -> nat -> C (F := F)).
Add Ring FringR : (Fring ops inr L).
Add Ring CringR : (C_ring ops inr L).
Notation C := (C (F := F)).
Notation wt := (wt ops tw).
Notation cone := (cone ops). Notation cmul := (cmul ops). Notation cpow := (cpow ops). Notation cneg := (cneg ops).

(** the hypotheses on the table [w] (N+1 entries, N = 2^k) of an object of size N *)
Record table_ok (k : nat) : Prop := mk_table_ok {
  t_zero : wt k 0 = cone;
  t_mul : forall a b, a <= 2 ^ k -> b <= 2 ^ k -> cmul (wt k a) (wt k b) = wt k ((a + b) mod 2 ^ k);
  t_half : wt k (2 ^ k / 2) = cneg cone;
  t_quarter : wt k (2 ^ k / 4) = ci ops;
  t_conj : forall a, a <= 2 ^ k -> conj ops (wt k a) = wt k (2 ^ k - a)
}.

Definition om (k : nat) : C := wt k 1.

Section One.
Variable k : nat.
Hypothesis Hk : 1 <= k.
Hypothesis T : table_ok k.

Lemma two_le_pow : 2 <= 2 ^ k.
Proof. destruct k as [|k']; [lia|]. rewrite Nat.pow_succ_r'. pose proof (pow2_pos k'). lia. Qed.

Lemma wt_last : wt k (2 ^ k) = cone.
Proof. unfold ProofsState.wt. now rewrite Nat.eqb_refl. Qed.

Lemma wt_pow i : i <= 2 ^ k -> wt k i = cpow (om k) i.
Proof.
  pose proof two_le_pow as H2.
  induction i as [|i IH]; intros Hi; [cbn [AlgRing.cpow]; apply (t_zero k T)|].
  cbn [AlgRing.cpow]. rewrite <- IH by lia. unfold om.
  rewrite (t_mul k T 1 i) by lia.
  destruct (Nat.eq_dec (S i) (2 ^ k)) as [E|E].
  - replace (1 + i) with (2 ^ k) by lia. rewrite Nat.mod_same by lia. rewrite E, wt_last. symmetry. apply (t_zero k T).
  - rewrite Nat.mod_small by lia. reflexivity.
Qed.

Lemma om_N : cpow (om k) (2 ^ k) = cone.
Proof. rewrite <- wt_pow by lia. apply wt_last. Qed.

Lemma om_half : cpow (om k) (2 ^ k / 2) = cneg cone.
Proof.
  rewrite <- wt_pow; [apply (t_half k T)|]. apply Nat.div_le_upper_bound; lia.
Qed.

Lemma om_half' : cpow (om k) (2 ^ (k - 1)) = cneg cone.
Proof.
  replace (2 ^ (k - 1)) with (2 ^ k / 2); [apply om_half|].
  replace k with (S (k - 1)) at 1 by lia. rewrite Nat.pow_succ_r', (Nat.mul_comm 2), Nat.div_mul; lia.
Qed.

Definition omi : C := cpow (om k) (2 ^ k - 1).

Lemma om_omi : cmul (om k) omi = cone.
Proof.
  unfold omi. pose proof two_le_pow.
  change (cmul (om k) (cpow (om k) (2 ^ k - 1))) with (cpow (om k) (S (2 ^ k - 1))).
  replace (S (2 ^ k - 1)) with (2 ^ k) by lia. apply om_N.
Qed.

Lemma om_conj : conj ops (om k) = omi.
Proof.
  pose proof two_le_pow. unfold om at 1. rewrite (t_conj k T 1) by lia. unfold omi. apply wt_pow. lia.
Qed.

Lemma omi_pow i : i <= 2 ^ k -> cpow (om k) (2 ^ k - i) = cpow omi i.
Proof.
  intros Hi.
  assert (E : cmul (cpow (om k) i) (cpow (om k) (2 ^ k - i)) = cone).
  { rewrite <- (cpow_add ops inr L). replace (i + (2 ^ k - i)) with (2 ^ k) by lia. apply om_N. }
  assert (E' : cmul (cpow (om k) i) (cpow omi i) = cone).
  { rewrite <- (cpow_mul_base ops inr L). rewrite om_omi. apply (cpow_one ops inr L). }
  transitivity (cmul (cmul (cpow (om k) i) (cpow omi i)) (cpow (om k) (2 ^ k - i))); [rewrite E'; ring|].
  transitivity (cmul (cmul (cpow (om k) i) (cpow (om k) (2 ^ k - i))) (cpow omi i)); [ring|rewrite E; ring].
Qed.

Lemma omi_half' : cpow omi (2 ^ (k - 1)) = cneg cone.
Proof.
  pose proof two_le_pow.
  assert (Hle : 2 ^ (k - 1) <= 2 ^ k) by (apply pow2_le; lia).
  rewrite <- omi_pow by exact Hle.
  replace (2 ^ k - 2 ^ (k - 1)) with (2 ^ (k - 1)); [apply om_half'|].
  replace k with (S (k - 1)) at 2 by lia. rewrite Nat.pow_succ_r'. lia.
Qed.

Lemma omi_N : cpow omi (2 ^ k) = cone.
Proof. rewrite <- omi_pow by lia. rewrite Nat.sub_diag. reflexivity. Qed.

Lemma om_quarter : 2 <= k -> cpow (om k) (2 ^ (k - 2)) = ci ops.
Proof.
  intros H2. replace (2 ^ (k - 2)) with (2 ^ k / 4).
  - rewrite <- wt_pow; [apply (t_quarter k T)|]. apply Nat.div_le_upper_bound; lia.
  - rewrite (pow2_split 2 k) by lia. change (2 ^ 2) with 4. rewrite (Nat.mul_comm 4), Nat.div_mul; lia.
Qed.
End One.

(** reading the table of a good state *)
Lemma good_nth K (s : st (F := F)) i : good ops tw K s -> 1 <= K -> table_ok K -> i <= 2 ^ K ->
  nth i (W s) (czero ops) = cpow (om K) i.
Proof.
  intros (_ & _ & Hw) HK T Hi. rewrite Hw by exact Hi. now apply wt_pow.
Qed.
End Table.
