(** C04 — the algebra theorem, stated for reachable object states. *)
From Coq Require Import List ZArith Lia Bool PeanoNat.
From RlibV Require Import C04.Model C04.ProofsBasic C04.ProofsState C04.ProofsHist C04.AlgRing C04.AlgDFT
  C04.ProofsTable C04.ProofsLevels C04.ProofsMul C04.ProofsInv.
Import ListNotations.
Open Scope nat_scope.

Section Main.
Context {F : Type} (ops : Ops F) (inr : Z -> Prop) (tw : nat -> nat -> C (F := F)) (Kmax : nat).
Hypothesis L : Lawful ops inr.
Hypothesis Tabs : forall k, 2 <= k <= Kmax -> table_ok ops tw k.

Lemma reach_good_bounded (s : st (F := F)) : reach ops tw s -> length (R s) <= 2 ^ Kmax ->
  exists K, 2 <= K <= Kmax /\ good ops tw K s /\ Nat.log2 (length (R s)) = K.
Proof.
  intros Hr Hlen. destruct (reach_good ops tw s Hr) as (K & H2 & Hg). exists K.
  rewrite (good_len_R ops tw K s Hg) in *. apply pow2_le_inv in Hlen.
  split; [lia|]. split; [exact Hg|]. apply Nat.log2_pow2. lia.
Qed.

Lemma main_dft (s : st (F := F)) m (v : list C) k : reach ops tw s -> length (R s) <= 2 ^ Kmax ->
  m <= Kmax -> length v = 2 ^ m -> k < 2 ^ m ->
  nth k (snd (fft_internal ops tw s v false)) (czero ops) =
    dft ops (2 ^ m) (root ops tw (Nat.max (Nat.log2 (length (R s))) m) m false) (vec ops v) k /\
  nth k (snd (fft_internal ops tw s v true)) (czero ops) =
    cscale ops (dft ops (2 ^ m) (root ops tw (Nat.max (Nat.log2 (length (R s))) m) m true) (vec ops v) k)
               (fdiv ops (fone ops) (of_Z ops (Z.of_nat (2 ^ m)))).
Proof.
  intros Hr Hlen Hm Hv Hk. destruct (reach_good_bounded s Hr Hlen) as (K & HK & Hg & ->).
  assert (T : table_ok ops tw (Nat.max K m)) by (apply Tabs; lia).
  split.
  - exact (fft_internal_dft ops inr L tw K s m v false k Hg ltac:(lia) T Hv Hk).
  - exact (fft_internal_dft ops inr L tw K s m v true k Hg ltac:(lia) T Hv Hk).
Qed.

Lemma main_roundtrip (s s' : st (F := F)) m (v : list C) : reach ops tw s -> length (R s) <= 2 ^ Kmax ->
  reach ops tw s' -> length (R s') <= 2 ^ Kmax -> m <= Kmax -> length v = 2 ^ m ->
  snd (fft_internal ops tw s' (snd (fft_internal ops tw s v false)) true) = v.
Proof.
  intros Hr Hlen Hr' Hlen' Hm Hv.
  destruct (reach_good_bounded s Hr Hlen) as (K & HK & Hg & _).
  destruct (reach_good_bounded s' Hr' Hlen') as (K' & HK' & Hg' & _).
  exact (fft_roundtrip ops inr L tw Kmax K K' s s' m v Tabs Hg Hg' HK HK' Hm Hv).
Qed.

Lemma main_multiply (s : st (F := F)) a b : reach ops tw s -> length (R s) <= 2 ^ Kmax ->
  a <> [] -> b <> [] -> next_pow2 2 (length a + length b - 1) <= 2 ^ Kmax ->
  (forall l, l < length a + length b - 1 -> inr (conv_coef a b l)) ->
  snd (multiply ops tw s a b) = conv a b.
Proof.
  intros Hr Hlen Ha Hb Hn Hin. destruct (reach_good_bounded s Hr Hlen) as (K & HK & Hg & _).
  exact (multiply_exact ops inr L tw Kmax K s a b Tabs Hg HK Ha Hb Hn Hin).
Qed.

Lemma main_inv_prod (s : st (F := F)) a b j res : reach ops tw s -> length (R s) <= 2 ^ Kmax ->
  a <> [] -> b <> [] -> S j <= Kmax -> length a + length b - 1 <= 2 ^ S j ->
  (forall l, l < length a + length b - 1 -> inr (conv_coef a b l)) -> inr 0%Z ->
  snd (inv_prod_into ops tw s a b (2 ^ S j) res) =
  zip_acc Z.add res (conv a b ++ repeat 0%Z (2 ^ S j - (length a + length b - 1))).
Proof.
  intros Hr Hlen Ha Hb Hj Htot Hin Hin0. destruct (reach_good_bounded s Hr Hlen) as (K & HK & Hg & _).
  exact (inv_prod_exact ops inr L tw Kmax K s a b j res Tabs Hg HK Ha Hb Hj Htot Hin Hin0).
Qed.

(** the same route with the inverse transform on ANY other reachable object [s'] (no size bound on [s']) *)
Lemma main_inv_prod_x (s s' : st (F := F)) a b j res : reach ops tw s -> length (R s) <= 2 ^ Kmax ->
  reach ops tw s' ->
  a <> [] -> b <> [] -> S j <= Kmax -> length a + length b - 1 <= 2 ^ S j ->
  (forall l, l < length a + length b - 1 -> inr (conv_coef a b l)) -> inr 0%Z ->
  snd (inv_prod_x ops tw s s' a b (2 ^ S j) res) =
  zip_acc Z.add res (conv a b ++ repeat 0%Z (2 ^ S j - (length a + length b - 1))).
Proof.
  intros Hr Hlen Hr' Ha Hb Hj Htot Hin Hin0.
  rewrite (inv_prod_x_as_into ops tw s s' a b (S j) res Hr Hr').
  now apply main_inv_prod.
Qed.
End Main.

Lemma exact_algebra_all : forall (F : Type) (ops : Ops F) (inr : Z -> Prop) (tw : nat -> nat -> F * F) (Kmax : nat),
  Lawful ops inr -> (forall k, 2 <= k <= Kmax -> table_ok ops tw k) ->
  forall s : st (F := F), reach ops tw s -> length (R s) <= 2 ^ Kmax ->
  (forall m (v : list (F * F)) k, m <= Kmax -> length v = 2 ^ m -> k < 2 ^ m ->
     nth k (snd (fft_internal ops tw s v false)) (czero ops) =
       dft ops (2 ^ m) (root ops tw (Nat.max (Nat.log2 (length (R s))) m) m false) (vec ops v) k /\
     nth k (snd (fft_internal ops tw s v true)) (czero ops) =
       cscale ops (dft ops (2 ^ m) (root ops tw (Nat.max (Nat.log2 (length (R s))) m) m true) (vec ops v) k)
                  (fdiv ops (fone ops) (of_Z ops (Z.of_nat (2 ^ m))))) /\
  (forall (s' : st (F := F)) m (v : list (F * F)), reach ops tw s' -> length (R s') <= 2 ^ Kmax -> m <= Kmax ->
     length v = 2 ^ m -> snd (fft_internal ops tw s' (snd (fft_internal ops tw s v false)) true) = v) /\
  (forall a b, a <> [] -> b <> [] -> next_pow2 2 (length a + length b - 1) <= 2 ^ Kmax ->
     (forall l, l < length a + length b - 1 -> inr (conv_coef a b l)) ->
     snd (multiply ops tw s a b) = conv a b) /\
  (forall a b j res, a <> [] -> b <> [] -> S j <= Kmax -> length a + length b - 1 <= 2 ^ S j ->
     (forall l, l < length a + length b - 1 -> inr (conv_coef a b l)) -> inr 0%Z ->
     snd (inv_prod_into ops tw s a b (2 ^ S j) res) =
     zip_acc Z.add res (conv a b ++ repeat 0%Z (2 ^ S j - (length a + length b - 1)))) /\
  (forall (s' : st (F := F)) a b j res, reach ops tw s' -> a <> [] -> b <> [] -> S j <= Kmax ->
     length a + length b - 1 <= 2 ^ S j ->
     (forall l, l < length a + length b - 1 -> inr (conv_coef a b l)) -> inr 0%Z ->
     snd (inv_prod_x ops tw s s' a b (2 ^ S j) res) =
     zip_acc Z.add res (conv a b ++ repeat 0%Z (2 ^ S j - (length a + length b - 1)))).
Proof.
  intros F ops inr tw Kmax L Tabs s Hr Hlen. split; [|split; [|split; [|split]]].
  - intros m v k Hm Hv Hk. exact (main_dft ops inr tw Kmax L Tabs s m v k Hr Hlen Hm Hv Hk).
  - intros s' m v Hr' Hlen' Hm Hv. exact (main_roundtrip ops inr tw Kmax L Tabs s s' m v Hr Hlen Hr' Hlen' Hm Hv).
  - intros a b Ha Hb Hn Hin. exact (main_multiply ops inr tw Kmax L Tabs s a b Hr Hlen Ha Hb Hn Hin).
  - intros a b j res Ha Hb Hj Htot Hin Hin0.
    exact (main_inv_prod ops inr tw Kmax L Tabs s a b j res Hr Hlen Ha Hb Hj Htot Hin Hin0).
  - intros s' a b j res Hr' Ha Hb Hj Htot Hin Hin0.
    exact (main_inv_prod_x ops inr tw Kmax L Tabs s s' a b j res Hr Hlen Hr' Ha Hb Hj Htot Hin Hin0).
Qed.
