(** C04 — list lemmas and the shape part of the property. *)
From Coq Require Import List ZArith Lia Bool PeanoNat.
From RlibV Require Import C04.Model.
Import ListNotations.
Open Scope nat_scope.

Lemma upd_length {A} (l : list A) i x : length (upd l i x) = length l.
Proof.
  revert i; induction l as [|h t IH]; intros [|i]; cbn [upd length]; try reflexivity.
  now rewrite IH.
Qed.

Lemma nth_upd {A} (l : list A) i j x d :
  nth j (upd l i x) d = if (j =? i) && (i <? length l) then x else nth j l d.
Proof.
  revert i j; induction l as [|h t IH]; intros [|i] [|j]; cbn [upd nth length]; try reflexivity.
  - now rewrite andb_false_r.
  - rewrite IH. cbn [Nat.eqb]. replace (S i <? S (length t)) with (i <? length t); [reflexivity|].
    apply Bool.eq_iff_eq_true; rewrite !Nat.ltb_lt; lia.
Qed.

Lemma nth_upd_same {A} (l : list A) i x d : i < length l -> nth i (upd l i x) d = x.
Proof.
  intros H. rewrite nth_upd, Nat.eqb_refl. apply Nat.ltb_lt in H. now rewrite H.
Qed.

Lemma nth_upd_other {A} (l : list A) i j x d : j <> i -> nth j (upd l i x) d = nth j l d.
Proof.
  intros H. rewrite nth_upd. apply Nat.eqb_neq in H. now rewrite H.
Qed.

Lemma nth_map_seq {A} (f : nat -> A) n i d : i < n -> nth i (map f (seq 0 n)) d = f i.
Proof.
  intros H. rewrite (nth_indep _ d (f 0)) by now rewrite map_length, seq_length.
  rewrite (map_nth f (seq 0 n) 0 i), seq_nth by exact H. reflexivity.
Qed.

Lemma map_seq_length {A} (f : nat -> A) a n : length (map f (seq a n)) = n.
Proof. now rewrite map_length, seq_length. Qed.

Lemma map_seq_ext {A} (f g : nat -> A) n :
  (forall i, i < n -> f i = g i) -> map f (seq 0 n) = map g (seq 0 n).
Proof.
  intros H. apply map_ext_in. intros i Hi. apply in_seq in Hi. apply H. lia.
Qed.

Lemma list_eq_nth {A} (l l' : list A) d :
  length l = length l' -> (forall i, i < length l -> nth i l d = nth i l' d) -> l = l'.
Proof.
  revert l'; induction l as [|h t IH]; intros [|h' t'] Hl Hn; cbn [length] in *; try discriminate; [reflexivity|].
  f_equal.
  - apply (Hn 0). lia.
  - apply IH; [lia|]. intros i Hi. apply (Hn (S i)). lia.
Qed.

Lemma zip_acc_length {A B} (f : A -> B -> A) res ys : length (zip_acc f res ys) = length res.
Proof.
  revert ys; induction res as [|x r IH]; intros [|y ys]; cbn [zip_acc length]; try reflexivity.
  now rewrite IH.
Qed.

Lemma zip_acc_nil {A B} (f : A -> B -> A) res : zip_acc f res [] = res.
Proof. destruct res; reflexivity. Qed.

Lemma zip_acc_zero (ys : list Z) : zip_acc Z.add (repeat 0%Z (length ys)) ys = ys.
Proof.
  induction ys as [|y ys IH]; cbn [length repeat zip_acc]; [reflexivity|]. now rewrite IH.
Qed.

Lemma fold_left_length {A B} (f : list A -> B -> list A) (l : list B) (v : list A) :
  (forall v i, length (f v i) = length v) -> length (fold_left f l v) = length v.
Proof.
  intros H. revert v; induction l as [|i l IH]; intros v; cbn [fold_left]; [reflexivity|].
  now rewrite IH, H.
Qed.

(** powers of two *)
Lemma pow2_ge_spec fuel n k : 1 <= n -> k <= n * 2 ^ fuel ->
  exists j, pow2_ge fuel n k = n * 2 ^ j /\ k <= n * 2 ^ j /\ (j = 0 \/ n * 2 ^ (j - 1) < k).
Proof.
  revert n; induction fuel as [|f IH]; intros n Hn Hk; cbn [pow2_ge].
  - exists 0. cbn [Nat.pow] in *. split; [lia|]. split; [lia|now left].
  - destruct (n <? k) eqn:E.
    + apply Nat.ltb_lt in E.
      destruct (IH (2 * n)) as (j & Hj & Hle & Hmin); [lia| |].
      { rewrite Nat.pow_succ_r' in Hk. nia. }
      exists (S j). rewrite Hj, Nat.pow_succ_r'. split; [nia|]. split; [nia|]. right.
      replace (S j - 1) with j by lia.
      destruct Hmin as [->|Hmin]; [cbn [Nat.pow]; lia|].
      destruct j as [|j]; [cbn [Nat.pow] in *; lia|]. replace (S j - 1) with j in Hmin by lia.
      rewrite Nat.pow_succ_r'. nia.
    + apply Nat.ltb_ge in E. exists 0. cbn [Nat.pow]. split; [lia|]. split; [lia|now left].
Qed.

Lemma log2_fuel_enough k : k <= 2 ^ S (Nat.log2 k).
Proof.
  destruct k as [|k]; [lia|]. pose proof (Nat.log2_spec (S k) ltac:(lia)). lia.
Qed.

Lemma next_pow2_spec start k : 1 <= start ->
  exists j, next_pow2 start k = start * 2 ^ j /\ k <= start * 2 ^ j /\ (j = 0 \/ start * 2 ^ (j - 1) < k).
Proof.
  intros Hs. unfold next_pow2. apply pow2_ge_spec; [exact Hs|].
  pose proof (log2_fuel_enough k). nia.
Qed.

Section Shape.
Context {F : Type} (ops : Ops F) (tw : nat -> nat -> C (F := F)).
Notation st := (st (F := F)).

Lemma swap_step_length r d (v : list C) i : length (swap_step ops r d v i) = length v.
Proof. unfold swap_step. destruct (i <? _); [now rewrite !upd_length|reflexivity]. Qed.

Lemma bitrev_swaps_length r d n (v : list C) : length (bitrev_swaps ops r d n v) = length v.
Proof. unfold bitrev_swaps. apply fold_left_length. intros; apply swap_step_length. Qed.

Lemma level_length w inv max_n n ln (v : list C) : length (level ops w inv max_n n ln v) = n.
Proof. unfold level. apply map_seq_length. Qed.

Lemma levels_length fuel w inv max_n n ln (v : list C) :
  length v = n -> length (levels ops fuel w inv max_n n ln v) = n.
Proof.
  revert ln v; induction fuel as [|f IH]; intros ln v Hv; cbn [levels]; [exact Hv|].
  destruct (ln <? n); [|exact Hv]. apply IH. apply level_length.
Qed.

Lemma fft_internal_length (s : st) v inv : length (snd (fft_internal ops tw s v inv)) = length v.
Proof.
  unfold fft_internal. cbn [snd].
  assert (H : length (levels ops (S (Nat.log2 (length v))) (W (update_n ops tw s (length v))) inv
                        (length (R (update_n ops tw s (length v)))) (length v) 1
                        (bitrev_swaps ops (R (update_n ops tw s (length v)))
                           (Nat.log2 (length (R (update_n ops tw s (length v)))) - Nat.log2 (length v)) (length v) v))
              = length v).
  { apply levels_length. apply bitrev_swaps_length. }
  destruct inv; [rewrite map_length|]; exact H.
Qed.

Lemma round_pairs_length (buf : list C) : length (round_pairs ops buf) = 2 * length buf.
Proof.
  unfold round_pairs. induction buf as [|c buf IH]; cbn [flat_map length app]; [reflexivity|].
  rewrite IH. lia.
Qed.

(** what multiply_into adds to the destination *)
Definition product_part (s : st) (a b : list Z) : list Z := snd (multiply ops tw s a b).

Lemma multiply_empty_l (s : st) b : multiply ops tw s [] b = (s, []).
Proof. reflexivity. Qed.
Lemma multiply_empty_r (s : st) a : multiply ops tw s a [] = (s, []).
Proof. unfold multiply. cbn [length]. now rewrite Nat.eqb_refl, orb_true_r. Qed.

Lemma multiply_into_shape (s : st) a b : a <> [] -> b <> [] ->
  exists X, length X = length a + length b - 1 /\
            (forall res, snd (multiply_into ops tw s a b res) = zip_acc Z.add res X).
Proof.
  intros Ha Hb.
  assert (Hla : (length a =? 0) = false) by (destruct a; [congruence|reflexivity]).
  assert (Hlb : (length b =? 0) = false) by (destruct b; [congruence|reflexivity]).
  unfold multiply_into. rewrite Hla, Hlb. cbn [orb].
  set (n := next_pow2 2 (length a + length b - 1)).
  set (buf0 := map _ (seq 0 n)).
  destruct (fft_internal ops tw s buf0 false) as [s1 buf1] eqn:E1.
  set (buf2 := map _ (seq 0 (n / 2))).
  destruct (fft_internal ops tw s1 buf2 true) as [s2 buf3] eqn:E2.
  exists (firstn (length a + length b - 1) (round_pairs ops buf3)). split; [|intros; reflexivity].
  rewrite firstn_length, round_pairs_length.
  assert (H3 : length buf3 = n / 2).
  { change buf3 with (snd (s2, buf3)). rewrite <- E2, fft_internal_length. subst buf2. apply map_seq_length. }
  rewrite H3. destruct (next_pow2_spec 2 (length a + length b - 1) ltac:(lia)) as (j & Hj & Hle & _).
  fold n in Hj. fold n in Hle. rewrite <- Hj in Hle.
  assert (Hh : 2 * (n / 2) = n).
  { rewrite Hj, (Nat.mul_comm 2 (2 ^ j)), Nat.div_mul by lia. lia. }
  rewrite Hh. lia.
Qed.

Lemma multiply_length (s : st) a b : a <> [] -> b <> [] ->
  length (snd (multiply ops tw s a b)) = length a + length b - 1.
Proof.
  intros Ha Hb. destruct (multiply_into_shape s a b Ha Hb) as (X & HX & Hinto).
  unfold multiply.
  assert (Hla : (length a =? 0) = false) by (destruct a; [congruence|reflexivity]).
  assert (Hlb : (length b =? 0) = false) by (destruct b; [congruence|reflexivity]).
  rewrite Hla, Hlb. cbn [orb]. rewrite Hinto, zip_acc_length, repeat_length. reflexivity.
Qed.

Lemma multiply_into_adds (s : st) a b res :
  snd (multiply_into ops tw s a b res) = zip_acc Z.add res (snd (multiply ops tw s a b)).
Proof.
  destruct a as [|a0 a'].
  { cbn. now rewrite zip_acc_nil. }
  destruct b as [|b0 b'].
  { rewrite multiply_empty_r. unfold multiply_into. cbn [length]. rewrite Nat.eqb_refl, orb_true_r.
    cbn [snd]. now rewrite zip_acc_nil. }
  destruct (multiply_into_shape s (a0 :: a') (b0 :: b') ltac:(discriminate) ltac:(discriminate)) as (X & HX & Hinto).
  unfold multiply. cbn [length Nat.eqb orb]. rewrite !Hinto. f_equal.
  change (S (length a') + S (length b') - 1) with (length (a0 :: a') + length (b0 :: b') - 1).
  rewrite <- HX. symmetry. apply zip_acc_zero.
Qed.

Lemma multiply_into_state (s : st) a b res :
  fst (multiply_into ops tw s a b res) = fst (multiply ops tw s a b).
Proof.
  unfold multiply. destruct ((length a =? 0) || (length b =? 0)) eqn:E.
  - unfold multiply_into. now rewrite E.
  - unfold multiply_into. rewrite E.
    destruct (fft_internal ops tw s _ false) as [s1 buf1].
    destruct (fft_internal ops tw s1 _ true) as [s2 buf3]. reflexivity.
Qed.

(** fft_into adds the transform to the destination; fft is fft_into on a zero destination *)
Definition transform_part (s : st) (v : list Z) (n : nat) : list C :=
  snd (fft_internal ops tw s (real_buf ops v (fft_size (length v) n)) false).

Lemma transform_part_length s v n : length (transform_part s v n) = fft_size (length v) n.
Proof. unfold transform_part. rewrite fft_internal_length. unfold real_buf. apply map_seq_length. Qed.

Lemma fft_into_adds (s : st) v n res :
  snd (fft_into ops tw s v n res) = zip_acc (cadd ops) res (transform_part s v n).
Proof.
  unfold fft_into, transform_part.
  destruct (fft_internal ops tw s _ false) as [s1 buf]. reflexivity.
Qed.

Lemma fft_is_fft_into_zero (s : st) v n :
  fft ops tw s v n = fft_into ops tw s v n (repeat (czero ops) (fft_size (length v) n)).
Proof. reflexivity. Qed.

Lemma fft_length (s : st) v n : length (snd (fft ops tw s v n)) = fft_size (length v) n.
Proof. rewrite fft_is_fft_into_zero, fft_into_adds, zip_acc_length, repeat_length. reflexivity. Qed.

(** fft_inv_into adds what fft_inv returns (sizes: a power of two, as the code asserts) *)
Lemma fft_inv_body_adds (s : st) (v : list C) res k : length v = 2 ^ S k ->
  snd (fft_inv_body ops tw s v res) = zip_acc Z.add res (snd (fft_inv_body ops tw s v (repeat 0%Z (length v)))).
Proof.
  intros Hv. unfold fft_inv_body.
  destruct (fft_internal ops tw s _ true) as [s1 buf] eqn:E. cbn [snd]. f_equal.
  assert (Hb : length buf = length v / 2).
  { change buf with (snd (s1, buf)). rewrite <- E, fft_internal_length. apply map_seq_length. }
  replace (length v) with (length (round_pairs ops buf)); [symmetry; apply zip_acc_zero|].
  rewrite round_pairs_length, Hb, Hv.
  rewrite Nat.pow_succ_r', (Nat.mul_comm 2 (2 ^ k)), Nat.div_mul by lia. lia.
Qed.

Lemma fft_inv_into_adds (s : st) (v : list C) res k : length v = 2 ^ k ->
  snd (fft_inv_into ops tw s v res) = zip_acc Z.add res (snd (fft_inv ops tw s v)).
Proof.
  intros Hv. unfold fft_inv, fft_inv_into. destruct (length v =? 1) eqn:E1.
  - apply Nat.eqb_eq in E1. rewrite E1. cbn [repeat snd fft_inv_one]. destruct res as [|x t]; [reflexivity|].
    cbn [zip_acc]. now rewrite zip_acc_nil, Z.add_0_l.
  - destruct k as [|k]; [rewrite Hv in E1; discriminate|]. now apply (fft_inv_body_adds _ v res k).
Qed.
End Shape.

Lemma shape_all : forall (F : Type) (ops : Ops F) (tw : nat -> nat -> F * F) (s : st (F := F)) (a b : list Z),
  (a = [] \/ b = [] -> multiply ops tw s a b = (s, [])) /\
  (a <> [] -> b <> [] -> length (snd (multiply ops tw s a b)) = length a + length b - 1) /\
  (forall res, snd (multiply_into ops tw s a b res) = zip_acc Z.add res (snd (multiply ops tw s a b)) /\
               fst (multiply_into ops tw s a b res) = fst (multiply ops tw s a b)) /\
  (forall v n, exists X, length X = fft_size (length v) n /\
       snd (fft ops tw s v n) = zip_acc (cadd ops) (repeat (czero ops) (fft_size (length v) n)) X /\
       forall dest, snd (fft_into ops tw s v n dest) = zip_acc (cadd ops) dest X) /\
  (forall (v : list (F * F)) k dest, length v = 2 ^ k ->
       snd (fft_inv_into ops tw s v dest) = zip_acc Z.add dest (snd (fft_inv ops tw s v))).
Proof.
  intros F ops tw s a b. repeat split.
  - intros [->| ->]; [apply multiply_empty_l|apply multiply_empty_r].
  - apply multiply_length.
  - apply multiply_into_adds.
  - apply multiply_into_state.
  - intros v n. exists (transform_part ops tw s v n). split; [apply transform_part_length|]. split.
    + rewrite fft_is_fft_into_zero. apply fft_into_adds.
    + intros dest. apply fft_into_adds.
  - intros v k dest Hv. eapply fft_inv_into_adds; exact Hv.
Qed.
