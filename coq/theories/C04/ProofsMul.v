(** C04 — exactness of multiply over a lawful scalar ring with a lawful table: roots read off the
    table, inverse of the forward transform, the packing trick, the half-size inverse, rounding. *)
From Coq Require Import List ZArith Lia Bool PeanoNat Ring.
From RlibV Require Import C04.Model C04.ProofsBasic C04.ProofsState C04.ProofsHist C04.ProofsRev C04.AlgRing C04.AlgDFT C04.AlgPack
  C04.ProofsTable C04.ProofsLevels C04.ProofsUnpack.
Import ListNotations.
Open Scope nat_scope.

Section Roots.
Context {F : Type} (ops : Ops F) (inr : Z -> Prop) (L : Lawful ops inr) (tw : nat -> nat -> C (F := F)).
Add Ring FringR : (Fring ops inr L).
Add Ring CringR : (C_ring ops inr L).
Notation C := (C (F := F)).
Notation czero := (czero ops). Notation cone := (cone ops).
Notation cadd := (cadd ops). Notation csub := (csub ops). Notation cmul := (cmul ops).
Notation cpow := (cpow ops). Notation cneg := (cneg ops). Notation dft := (dft ops).
Notation good := (good ops tw). Notation table_ok := (table_ok ops tw).
Notation om := (om ops tw). Notation omi := (omi ops tw). Notation root := (root ops tw).

Variable K : nat.
Hypothesis HK : 2 <= K.
Hypothesis T : table_ok K.
Let HK1 : 1 <= K. Proof. lia. Qed.

Lemma root_inv m : cmul (root K m false) (root K m true) = cone.
Proof.
  unfold ProofsLevels.root. rewrite <- (cpow_mul_base ops inr L), (om_omi ops tw K HK1 T).
  apply (cpow_one ops inr L).
Qed.

Lemma root_pow m e : m <= K -> cpow (root K m false) e = cpow (om K) (2 ^ (K - m) * e).
Proof. intros Hm. unfold ProofsLevels.root. now rewrite <- (cpow_mul ops inr L). Qed.

Lemma root_half m : 1 <= m -> m <= K -> cpow (root K m false) (2 ^ (m - 1)) = cneg cone.
Proof.
  intros H1 Hm. rewrite root_pow by exact Hm. rewrite <- Nat.pow_add_r.
  replace (K - m + (m - 1)) with (K - 1) by lia. apply (om_half' ops tw K HK1 T).
Qed.

Lemma root_N m : m <= K -> cpow (root K m false) (2 ^ m) = cone.
Proof.
  intros Hm. rewrite root_pow by exact Hm. rewrite <- Nat.pow_add_r.
  replace (K - m + m) with K by lia. apply (om_N ops tw K HK1 T).
Qed.

Lemma root_sq m : 1 <= m -> m <= K -> cmul (root K m false) (root K m false) = root K (m - 1) false.
Proof.
  intros H1 Hm. unfold ProofsLevels.root. rewrite <- (cpow_add ops inr L). f_equal.
  replace (K - (m - 1)) with (S (K - m)) by lia. rewrite Nat.pow_succ_r'. lia.
Qed.

Lemma root_sq_inv m : 1 <= m -> m <= K -> cmul (root K m true) (root K m true) = root K (m - 1) true.
Proof.
  intros H1 Hm. unfold ProofsLevels.root. rewrite <- (cpow_add ops inr L). f_equal.
  replace (K - (m - 1)) with (S (K - m)) by lia. rewrite Nat.pow_succ_r'. lia.
Qed.

Lemma root_conj m : conj ops (root K m false) = root K m true.
Proof. unfold ProofsLevels.root. now rewrite (conj_cpow ops inr L), (om_conj ops tw K HK1 T). Qed.

(** inverse transform of a forward transform, both read off one table *)
Lemma dft_roundtrip m (x : nat -> C) l : m <= K -> l < 2 ^ m ->
  cscale ops (dft (2 ^ m) (root K m true) (dft (2 ^ m) (root K m false) x) l)
             (fdiv ops (fone ops) (of_Z ops (Z.of_nat (2 ^ m)))) = x l.
Proof.
  intros Hm Hl. destruct m as [|m0].
  - cbn [Nat.pow] in *. assert (l = 0) by lia. subst l.
    rewrite !(dft_one ops inr L). change 1 with (2 ^ 0) at 1.
    rewrite <- (scale_inv ops inr L 0 (x 0)) at 2. f_equal.
    unfold cnat. cbn [Nat.pow Z.of_nat]. change (Z.pos (Pos.of_succ_nat 0)) with 1%Z.
    rewrite (law_of_Z_1 ops inr L). unfold cre. change (fone ops, fzero ops) with cone. ring.
  - rewrite (dft_inverse ops inr L m0 (root K (S m0) false) (root K (S m0) true) x l (root_inv (S m0))).
    + apply (scale_inv ops inr L).
    + replace m0 with (S m0 - 1) at 2 by lia. apply root_half; lia.
    + exact Hl.
Qed.
End Roots.

Section Mul.
Context {F : Type} (ops : Ops F) (inr : Z -> Prop) (L : Lawful ops inr) (tw : nat -> nat -> C (F := F)).
Add Ring FringR2 : (Fring ops inr L).
Add Ring CringR2 : (C_ring ops inr L).
Notation C := (C (F := F)).
Notation czero := (czero ops). Notation cone := (cone ops). Notation ci := (ci ops).
Notation cadd := (cadd ops). Notation csub := (csub ops). Notation cmul := (cmul ops).
Notation cpow := (cpow ops). Notation cneg := (cneg ops). Notation dft := (dft ops).
Notation cre := (cre ops). Notation cnat := (cnat ops). Notation zvec := (zvec ops).
Notation good := (good ops tw). Notation table_ok := (table_ok ops tw).
Notation om := (om ops tw). Notation root := (root ops tw). Notation vec := (vec ops).

(** the integer sequence the transform size holds: the product coefficients, then zeros *)
Definition cc (a b : list Z) (l : nat) : Z := if l <? length a + length b - 1 then conv_coef a b l else 0%Z.
Definition cseq (a b : list Z) (l : nat) : C := cre (of_Z ops (cc a b l)).
Definition cpair (a b : list Z) (s : nat) : C := cadd (cseq a b (2 * s)) (cmul ci (cseq a b (2 * s + 1))).

Lemma round_pairs_nth (buf : list C) s : s < length buf ->
  nth (2 * s) (round_pairs ops buf) 0%Z = to_int ops (fst (nth s buf czero)) /\
  nth (2 * s + 1) (round_pairs ops buf) 0%Z = to_int ops (snd (nth s buf czero)).
Proof.
  revert s; induction buf as [|c buf IH]; intros s Hs; cbn [length] in Hs; [lia|].
  unfold round_pairs. cbn [flat_map app]. destruct s as [|s].
  - cbn [Nat.mul Nat.add nth]. split; reflexivity.
  - replace (2 * S s) with (S (S (2 * s))) by lia. replace (S (S (2 * s)) + 1) with (S (S (2 * s + 1))) by lia.
    cbn [nth]. apply IH. lia.
Qed.

Lemma nth_firstn {A} (l : list A) k i d : i < k -> nth i (firstn k l) d = nth i l d.
Proof.
  revert k i; induction l as [|x l IH]; intros k i Hi; [now rewrite firstn_nil|].
  destruct k as [|k]; [lia|]. cbn [firstn]. destruct i as [|i]; [reflexivity|]. cbn [nth]. apply IH. lia.
Qed.

Lemma zip_acc_nth {A B} (f : A -> B -> A) res ys i da db : i < length res -> i < length ys ->
  nth i (zip_acc f res ys) da = f (nth i res da) (nth i ys db).
Proof.
  revert ys i; induction res as [|x res IH]; intros [|y ys] i Hr Hy; cbn [length] in *; try lia.
  cbn [zip_acc]. destruct i as [|i]; [reflexivity|]. cbn [nth]. apply IH; lia.
Qed.

Lemma conv_nth a b l : a <> [] -> b <> [] -> l < length a + length b - 1 -> nth l (conv a b) 0%Z = conv_coef a b l.
Proof.
  intros Ha Hb Hl. unfold conv. destruct a as [|a0 a']; [congruence|]. destruct b as [|b0 b']; [congruence|].
  now rewrite nth_map_seq.
Qed.
Lemma conv_length a b : a <> [] -> b <> [] -> length (conv a b) = length a + length b - 1.
Proof.
  intros Ha Hb. unfold conv. destruct a as [|a0 a']; [congruence|]. destruct b as [|b0 b']; [congruence|].
  apply map_seq_length.
Qed.

(** the last stage shared by multiply_into and fft_inv_into: the inverse transform of half the size
    applied to the transform of the packed sequence, then rounding *)
Lemma finish K (s1 : st (F := F)) j (buf2 : list C) a b : good K s1 -> 2 <= K -> table_ok K -> S j <= K ->
  length buf2 = 2 ^ j ->
  (forall i, i < 2 ^ j -> nth i buf2 czero = dft (2 ^ j) (root K j false) (cpair a b) i) ->
  forall l, l < 2 ^ S j -> inr (cc a b l) ->
  nth l (round_pairs ops (snd (fft_internal ops tw s1 buf2 true))) 0%Z = cc a b l.
Proof.
  intros Hg HK T Hj Hlen Hbuf l Hl Hin.
  set (buf3 := snd (fft_internal ops tw s1 buf2 true)).
  assert (H3len : length buf3 = 2 ^ j) by (unfold buf3; now rewrite fft_internal_length).
  assert (H3 : forall s, s < 2 ^ j -> nth s buf3 czero = (of_Z ops (cc a b (2 * s)), of_Z ops (cc a b (2 * s + 1)))).
  { intros s Hs. unfold buf3.
    rewrite (fft_internal_dft ops inr L tw K s1 j buf2 true s Hg) by (try replace (Nat.max K j) with K by lia; assumption || lia).
    replace (Nat.max K j) with K by lia.
    rewrite (dft_ext ops (2 ^ j) (root K j true) (vec buf2) (dft (2 ^ j) (root K j false) (cpair a b)) s)
      by (intros i Hi; unfold ProofsLevels.vec; now apply Hbuf).
    rewrite (dft_roundtrip ops inr L tw K HK T j (cpair a b) s) by lia.
    unfold cpair, cseq. apply (cre_pair ops inr L). }
  pose proof (Nat.div_mod l 2 ltac:(lia)) as Hdm.
  pose proof (Nat.mod_upper_bound l 2 ltac:(lia)) as Hmod.
  assert (Hs : l / 2 < 2 ^ j).
  { rewrite Nat.pow_succ_r' in Hl. apply Nat.div_lt_upper_bound; lia. }
  destruct (round_pairs_nth buf3 (l / 2) ltac:(lia)) as [R0 R1].
  rewrite (H3 _ Hs) in R0, R1. cbn [fst snd] in R0, R1.
  destruct (l mod 2) as [|[|r]] eqn:E; [| |lia].
  - replace l with (2 * (l / 2)) at 1 by lia. rewrite R0.
    replace (2 * (l / 2)) with l by lia. now apply (law_to_int ops inr L).
  - replace l with (2 * (l / 2) + 1) at 1 by lia. rewrite R1.
    replace (2 * (l / 2) + 1) with l by lia. now apply (law_to_int ops inr L).
Qed.

Lemma ci_cube : cpow ci 3 = cneg ci.
Proof.
  cbn [AlgRing.cpow]. replace (cmul ci (cmul ci (cmul ci cone))) with (cmul ci (cmul ci ci)) by ring.
  rewrite (ci_sq ops inr L). ring.
Qed.

(** the twiddle cell read by the half-size step *)
Lemma tau_identity K (s1 : st (F := F)) m i : good K s1 -> 2 <= K -> table_ok K -> 1 <= m -> m <= K -> i < 2 ^ (m - 1) ->
  cmul (nth (2 ^ K - Nat.shiftr (2 ^ K) 2 - 2 ^ K / 2 ^ m * i) (W s1) czero) (cpow (root K m false) i) = cneg ci.
Proof.
  intros Hg HK T H1 Hm Hi. rewrite Nat.shiftr_div_pow2. rewrite !div_pow2 by lia.
  assert (H4 : 2 ^ K = 4 * 2 ^ (K - 2)) by (change 4 with (2 ^ 2); apply pow2_split; lia).
  assert (Hq : 2 ^ (K - 1) = 2 ^ (K - m) * 2 ^ (m - 1)) by (rewrite <- Nat.pow_add_r; f_equal; lia).
  assert (H2 : 2 ^ (K - 1) = 2 * 2 ^ (K - 2)) by (rewrite <- Nat.pow_succ_r'; f_equal; lia).
  set (a := 2 ^ (K - 2)) in *. set (q := 2 ^ (K - m)) in *.
  assert (Hqi : q * i <= 2 * a) by nia.
  rewrite (good_nth ops tw K s1 _ Hg ltac:(lia) T) by lia.
  rewrite (root_pow ops inr L tw K m i Hm). fold q. rewrite <- (cpow_add ops inr L).
  replace (2 ^ K - a - q * i + q * i) with (a * 3) by lia.
  rewrite (cpow_mul ops inr L). unfold a. rewrite (om_quarter ops tw K ltac:(lia) T HK). apply ci_cube.
Qed.

Lemma half_alg (Xi Xj Pi Pj tau g : C) : cmul g Xi = Pi -> cmul g Xj = Pj ->
  cmul g (csub (cadd Xi Xj) (cmul (csub Xi Xj) tau)) = csub (cadd Pi Pj) (cmul (csub Pi Pj) tau).
Proof. intros <- <-. ring. Qed.

(** transform of the integer sequence [cseq a b] *)
Definition Ptr (K m : nat) (a b : list Z) (k : nat) : C := dft (2 ^ m) (root K m false) (cseq a b) k.

Lemma half_step_P K (s1 : st (F := F)) j a b i : good K s1 -> 2 <= K -> table_ok K -> S j <= K -> i < 2 ^ j ->
  csub (cadd (Ptr K (S j) a b i) (Ptr K (S j) a b (i + 2 ^ j)))
       (cmul (csub (Ptr K (S j) a b i) (Ptr K (S j) a b (i + 2 ^ j)))
             (nth (2 ^ K - Nat.shiftr (2 ^ K) 2 - 2 ^ K / 2 ^ S j * i) (W s1) czero)) =
  cmul (cnat 2) (dft (2 ^ j) (root K j false) (cpair a b) i).
Proof.
  intros Hg HK T Hj Hi. unfold Ptr. rewrite Nat.pow_succ_r'.
  pose proof (half_step ops inr L (2 ^ j) (root K (S j) false) (cseq a b) i
                (nth (2 ^ K - Nat.shiftr (2 ^ K) 2 - 2 ^ K / (2 * 2 ^ j) * i) (W s1) czero)) as HS.
  cbv zeta in HS. rewrite HS.
  - rewrite (root_sq ops inr L tw K HK (S j)) by lia. replace (S j - 1) with j by lia. reflexivity.
  - replace j with (S j - 1) at 2 by lia. apply (root_half ops inr L tw K HK T); lia.
  - rewrite <- Nat.pow_succ_r'. apply tau_identity; try assumption; try lia. now replace (S j - 1) with j by lia.
Qed.

Lemma map_ofZ_nth (a : list Z) i : nth i (map (of_Z ops) a) (fzero ops) = of_Z ops (nth i a 0%Z).
Proof.
  destruct (Nat.lt_ge_cases i (length a)) as [H|H].
  - rewrite (nth_indep _ (fzero ops) (of_Z ops 0%Z)) by now rewrite map_length. apply map_nth.
  - rewrite !nth_overflow by (try rewrite map_length; exact H). symmetry. apply (of_Z_0 ops inr L).
Qed.

Definition Atr (K m : nat) (a : list Z) (k : nat) : C := dft (2 ^ m) (root K m false) (zvec a) k.

Section Core.
Variables (K : nat) (a b : list Z) (j : nat).
Hypothesis HK : 2 <= K.
Hypothesis T : table_ok K.
Hypothesis Hj : S j <= K.
Hypothesis Ha : a <> [].
Hypothesis Hb : b <> [].
Hypothesis Htot : length a + length b - 1 <= 2 ^ S j.
Let n := 2 ^ S j.
Let w := root K (S j) false.
Let winv := root K (S j) true.
Let Hinv : cmul w winv = cone := root_inv ops inr L tw K HK T (S j).
Let Hconj : conj ops w = winv := root_conj ops inr L tw K HK T (S j).
Let HN : cpow w n = cone := root_N ops inr L tw K HK T (S j) Hj.

Lemma AB_is_P i : cmul (Atr K (S j) a i) (Atr K (S j) b i) = Ptr K (S j) a b i.
Proof.
  unfold Atr, Ptr. fold n w. pose proof (pow2_pos (S j)) as Hn. fold n in Hn.
  rewrite (dft_convolution ops inr L n w (zvec a) (zvec b) i ltac:(lia) HN).
  apply dft_ext. intros l Hl. rewrite (cyc_conv ops inr L a b n l Ha Hb Htot Hl). reflexivity.
Qed.

Lemma Atr_conj (c : list Z) k e : k + e = n \/ k = 0 /\ e = 0 -> conj ops (Atr K (S j) c k) = Atr K (S j) c e.
Proof.
  intros Hke. unfold Atr. fold n w.
  apply (dft_conj_sym ops inr L n w winv (fun i => of_Z ops (nth i c 0%Z)) k e Hinv Hconj HN Hke).
Qed.

Lemma Ptr_conj k e : k + e = n \/ k = 0 /\ e = 0 -> conj ops (Ptr K (S j) a b k) = Ptr K (S j) a b e.
Proof.
  intros Hke. unfold Ptr. fold n w.
  apply (dft_conj_sym ops inr L n w winv (fun l => of_Z ops (cc a b l)) k e Hinv Hconj HN Hke).
Qed.

Lemma conj_cnat2 : conj ops (cnat 2) = cnat 2.
Proof. apply (conj_cre ops inr L). Qed.

Variable buf1 : list C.
Hypothesis Hlen1 : length buf1 = n.
Hypothesis Hbuf1 : forall k, k < n -> nth k buf1 czero = cadd (Atr K (S j) a k) (cmul ci (Atr K (S j) b k)).

Lemma unpack_val_P i : i < n ->
  cmul (cnat 2) (unpack_val ops n (cdivr ops ci (of_Z ops 8%Z)) buf1 i) = Ptr K (S j) a b i.
Proof.
  intros Hi. unfold unpack_val. pose proof (pow2_pos (S j)) as Hn. fold n in Hn.
  set (e := (n - i) mod n).
  assert (He : e < n) by (apply Nat.mod_upper_bound; lia).
  assert (Hke : e + i = n \/ e = 0 /\ i = 0).
  { unfold e. destruct (Nat.eq_dec i 0) as [->|Hi0].
    - right. rewrite Nat.sub_0_r, Nat.mod_same by lia. split; reflexivity.
    - left. rewrite Nat.mod_small by lia. lia. }
  rewrite (Hbuf1 i Hi), (Hbuf1 e He).
  rewrite (conj_packed ops inr L (Atr K (S j) a i) (Atr K (S j) b i) (Atr K (S j) a e) (Atr K (S j) b e)
             (Atr_conj a e i Hke) (Atr_conj b e i Hke)).
  pose proof (unpack_identity ops inr L (Atr K (S j) a i) (Atr K (S j) b i)) as U. cbv zeta in U.
  rewrite U. apply AB_is_P.
Qed.

Lemma unpack_conj_P i e : i < n -> i + e = n \/ i = 0 /\ e = 0 ->
  cmul (cnat 2) (conj ops (unpack_val ops n (cdivr ops ci (of_Z ops 8%Z)) buf1 i)) = Ptr K (S j) a b e.
Proof.
  intros Hi Hie. rewrite <- conj_cnat2, <- (conj_mul ops inr L), (unpack_val_P i Hi). now apply Ptr_conj.
Qed.

Lemma unpacked_is_P p : p < n ->
  cmul (cnat 2) (nth p (fold_left (unpack_step ops n (cdivr ops ci (of_Z ops 8%Z))) (seq 0 (n / 2 + 1)) buf1) czero)
  = Ptr K (S j) a b p.
Proof.
  intros Hp. unfold n in *. rewrite (unpack_closed ops (S j) _ buf1 p ltac:(lia) Hlen1 Hp).
  assert (Hh : 2 ^ S j / 2 = 2 ^ j) by (rewrite Nat.pow_succ_r', (Nat.mul_comm 2), Nat.div_mul; lia).
  rewrite Hh. pose proof (pow2_pos j) as Hpj. assert (Hn2 : 2 ^ S j = 2 * 2 ^ j) by apply Nat.pow_succ_r'.
  destruct ((p =? 0) || (p =? 2 ^ j)) eqn:E.
  - apply unpack_conj_P; [exact Hp|]. apply orb_true_iff in E. destruct E as [E|E]; apply Nat.eqb_eq in E.
    + right. split; [exact E|exact E].
    + left. lia.
  - apply orb_false_iff in E. destruct E as [E0 Eh]. apply Nat.eqb_neq in E0, Eh.
    destruct (p <? 2 ^ j) eqn:El.
    + apply unpack_val_P. exact Hp.
    + apply Nat.ltb_ge in El. apply unpack_conj_P; [lia|]. left. lia.
Qed.
End Core.

Lemma forward_packed K (s : st (F := F)) a b j k : good K s -> 2 <= Nat.max K (S j) -> table_ok (Nat.max K (S j)) ->
  k < 2 ^ S j ->
  nth k (snd (fft_internal ops tw s
         (map (fun i => (nth i (map (of_Z ops) a) (fzero ops), nth i (map (of_Z ops) b) (fzero ops))) (seq 0 (2 ^ S j))) false)) czero
  = cadd (Atr (Nat.max K (S j)) (S j) a k) (cmul ci (Atr (Nat.max K (S j)) (S j) b k)).
Proof.
  intros Hg HK T Hk.
  rewrite (fft_internal_dft ops inr L tw K s (S j) _ false k Hg ltac:(lia) T (map_seq_length _ 0 (2 ^ S j)) Hk).
  unfold Atr. rewrite <- (dft_lin ops inr L). apply dft_ext. intros i Hi.
  unfold ProofsLevels.vec. rewrite nth_map_seq by exact Hi. rewrite !map_ofZ_nth.
  apply (pack_pair ops inr L).
Qed.

Lemma multiply_into_exact Kmax K (s : st (F := F)) a b res :
  (forall k, 2 <= k <= Kmax -> table_ok k) -> good K s -> 2 <= K <= Kmax -> a <> [] -> b <> [] ->
  next_pow2 2 (length a + length b - 1) <= 2 ^ Kmax ->
  (forall l, l < length a + length b - 1 -> inr (conv_coef a b l)) ->
  snd (multiply_into ops tw s a b res) = zip_acc Z.add res (conv a b).
Proof.
  intros Tabs Hg HK Ha Hb Hmax Hin.
  assert (Hla : (length a =? 0) = false) by (destruct a; [congruence|reflexivity]).
  assert (Hlb : (length b =? 0) = false) by (destruct b; [congruence|reflexivity]).
  unfold multiply_into. rewrite Hla, Hlb. cbn [orb].
  destruct (next_pow2_spec 2 (length a + length b - 1) ltac:(lia)) as (j & Hn & Htot & _).
  rewrite <- Nat.pow_succ_r' in Hn, Htot. rewrite Hn in *.
  apply pow2_le_inv in Hmax.
  set (tot := length a + length b - 1) in *.
  set (buf0 := map _ (seq 0 (2 ^ S j))).
  assert (Hb0 : @length C buf0 = 2 ^ S j) by apply map_seq_length.
  rewrite (fft_internal_eta ops tw s buf0 false). cbv iota beta. rewrite Hb0.
  pose proof (update_n_good ops tw K (S j) s Hg) as Hg1.
  set (s1 := update_n ops tw s (2 ^ S j)) in *. set (K1 := Nat.max K (S j)) in *.
  assert (HK1 : 2 <= K1) by lia.
  assert (T1 : table_ok K1) by (apply Tabs; lia).
  assert (Hj1 : S j <= K1) by lia.
  rewrite (good_len_R ops tw _ _ Hg1).
  set (buf1 := snd (fft_internal ops tw s buf0 false)).
  assert (Hlen1 : length buf1 = 2 ^ S j) by (unfold buf1; now rewrite fft_internal_length).
  assert (Hbuf1 : forall k, k < 2 ^ S j -> nth k buf1 czero = cadd (Atr K1 (S j) a k) (cmul ci (Atr K1 (S j) b k))).
  { intros k Hk. unfold buf1, buf0. now apply forward_packed. }
  pose proof (unpacked_is_P K1 a b j HK1 T1 Hj1 Ha Hb Htot buf1 Hlen1 Hbuf1) as HU.
  set (buf1' := fold_left _ _ buf1) in *.
  assert (Hh : 2 ^ S j / 2 = 2 ^ j) by (rewrite Nat.pow_succ_r', (Nat.mul_comm 2), Nat.div_mul; lia).
  rewrite Hh.
  set (buf2 := map _ (seq 0 (2 ^ j))).
  assert (Hlen2 : @length C buf2 = 2 ^ j) by apply map_seq_length.
  assert (Hbuf2 : forall i, i < 2 ^ j -> nth i buf2 czero = dft (2 ^ j) (root K1 j false) (cpair a b) i).
  { intros i Hi. unfold buf2. rewrite nth_map_seq by exact Hi.
    apply (cnat2_cancel ops inr L).
    assert (Hn2 : 2 ^ S j = 2 * 2 ^ j) by apply Nat.pow_succ_r'.
    rewrite (half_alg _ _ _ _ _ (cnat 2) (HU i ltac:(lia)) (HU (i + 2 ^ j) ltac:(lia))).
    now apply half_step_P. }
  rewrite (fft_internal_eta ops tw s1 buf2 true). cbv iota beta. cbn [snd]. f_equal.
  apply (list_eq_nth _ _ 0%Z).
  - rewrite firstn_length, round_pairs_length, fft_internal_length, Hlen2, conv_length by assumption.
    fold tot. rewrite Nat.pow_succ_r' in Htot. lia.
  - rewrite firstn_length, round_pairs_length, fft_internal_length, Hlen2. intros l Hl.
    assert (Hlt : l < tot) by lia.
    rewrite nth_firstn by exact Hlt. rewrite conv_nth by assumption.
    rewrite (finish K1 s1 j buf2 a b Hg1 HK1 T1 Hj1 Hlen2 Hbuf2 l ltac:(lia)).
    + unfold cc. fold tot. apply Nat.ltb_lt in Hlt. now rewrite Hlt.
    + unfold cc. fold tot. pose proof Hlt as Hlt'. apply Nat.ltb_lt in Hlt'. rewrite Hlt'. now apply Hin.
Qed.

Lemma multiply_exact Kmax K (s : st (F := F)) a b :
  (forall k, 2 <= k <= Kmax -> table_ok k) -> good K s -> 2 <= K <= Kmax -> a <> [] -> b <> [] ->
  next_pow2 2 (length a + length b - 1) <= 2 ^ Kmax ->
  (forall l, l < length a + length b - 1 -> inr (conv_coef a b l)) ->
  snd (multiply ops tw s a b) = conv a b.
Proof.
  intros Tabs Hg HK Ha Hb Hmax Hin. unfold multiply.
  assert (Hla : (length a =? 0) = false) by (destruct a; [congruence|reflexivity]).
  assert (Hlb : (length b =? 0) = false) by (destruct b; [congruence|reflexivity]).
  rewrite Hla, Hlb. cbn [orb]. rewrite (multiply_into_exact Kmax K s a b _ Tabs Hg HK Ha Hb Hmax Hin).
  rewrite <- (conv_length a b Ha Hb). apply zip_acc_zero.
Qed.
End Mul.
