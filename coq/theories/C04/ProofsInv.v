(** C04 — inverse after forward = identity; fft, pointwise product, fft_inv_into = convolution. *)
From Coq Require Import List ZArith Lia Bool PeanoNat Ring.
From RlibV Require Import C04.Model C04.ProofsBasic C04.ProofsState C04.ProofsHist C04.ProofsRev C04.AlgRing C04.AlgDFT C04.AlgPack
  C04.ProofsTable C04.ProofsLevels C04.ProofsUnpack C04.ProofsMul.
Import ListNotations.
Open Scope nat_scope.

Section Inv.
Context {F : Type} (ops : Ops F) (inr : Z -> Prop) (L : Lawful ops inr) (tw : nat -> nat -> C (F := F)).
Add Ring FringR3 : (Fring ops inr L).
Add Ring CringR3 : (C_ring ops inr L).
Notation C := (C (F := F)).
Notation czero := (czero ops). Notation cone := (cone ops). Notation ci := (ci ops).
Notation cadd := (cadd ops). Notation csub := (csub ops). Notation cmul := (cmul ops).
Notation cpow := (cpow ops). Notation cneg := (cneg ops). Notation dft := (dft ops).
Notation cre := (cre ops). Notation cnat := (cnat ops). Notation zvec := (zvec ops).
Notation good := (good ops tw). Notation table_ok := (table_ok ops tw).
Notation root := (root ops tw). Notation vec := (vec ops).
Notation Atr := (Atr ops tw). Notation Ptr := (Ptr ops tw). Notation cc := ProofsMul.cc.
Notation cpair := (cpair ops).

(** inverse after forward is the identity, whatever reachable states the two calls run on *)
Lemma fft_roundtrip Kmax K K' (s s' : st (F := F)) m (v : list C) :
  (forall k, 2 <= k <= Kmax -> table_ok k) -> good K s -> good K' s' -> 2 <= K <= Kmax -> 2 <= K' <= Kmax -> m <= Kmax ->
  length v = 2 ^ m ->
  snd (fft_internal ops tw s' (snd (fft_internal ops tw s v false)) true) = v.
Proof.
  intros Tabs Hg Hg' HK HK' Hm Hv.
  set (y := snd (fft_internal ops tw s v false)).
  assert (Hy : length y = 2 ^ m) by (unfold y; now rewrite fft_internal_length).
  pose proof (update_n_good ops tw K m s Hg) as Hg1.
  set (s1 := update_n ops tw s (2 ^ m)) in *. set (K1 := Nat.max K m) in *.
  rewrite (fft_internal_indep ops tw K' K1 s' s1 m y true Hg' Hg1 Hy).
  assert (T1 : table_ok K1) by (apply Tabs; lia).
  apply (list_eq_nth _ _ czero); [now rewrite fft_internal_length, Hy|].
  rewrite fft_internal_length, Hy. intros l Hl.
  rewrite (fft_internal_dft ops inr L tw K1 s1 m y true l Hg1) by (try replace (Nat.max K1 m) with K1 by lia; assumption || lia).
  replace (Nat.max K1 m) with K1 by lia.
  rewrite (dft_ext ops (2 ^ m) (root K1 m true) (vec y) (dft (2 ^ m) (root K1 m false) (vec v)) l).
  - apply (dft_roundtrip ops inr L tw K1 ltac:(lia) T1 m (vec v) l); lia.
  - intros i Hi. unfold ProofsLevels.vec at 1. unfold y.
    now rewrite (fft_internal_dft ops inr L tw K s m v false i Hg ltac:(lia) T1 Hv Hi).
Qed.

Lemma nth_repeat' {A} (x : A) n i : nth i (repeat x n) x = x.
Proof. revert i; induction n as [|n IH]; intros [|i]; cbn [repeat nth]; auto. Qed.

Lemma nth_map_combine (fa fb : list C) k : k < length fa -> k < length fb ->
  nth k (map (fun p => cmul (fst p) (snd p)) (combine fa fb)) czero = cmul (nth k fa czero) (nth k fb czero).
Proof.
  revert fb k; induction fa as [|x fa IH]; intros [|y fb] k Ha Hb; cbn [length] in *; try lia.
  cbn [combine map]. destruct k as [|k]; [reflexivity|]. cbn [nth]. apply IH; lia.
Qed.

Lemma fft_eta (s : st (F := F)) a n :
  fft ops tw s a n = (update_n ops tw s (fft_size (length a) n),
                      zip_acc cadd (repeat czero (fft_size (length a) n))
                        (snd (fft_internal ops tw s (real_buf ops a (fft_size (length a) n)) false))).
Proof.
  unfold fft, fft_into. rewrite (fft_internal_eta ops tw s _ false). cbv iota beta.
  unfold real_buf at 1. now rewrite map_seq_length.
Qed.

Lemma fft_nth K (s : st (F := F)) a m k : good K s -> 2 <= Nat.max K (S m) -> table_ok (Nat.max K (S m)) -> k < 2 ^ S m ->
  nth k (snd (fft ops tw s a (2 ^ S m))) czero = Atr (Nat.max K (S m)) (S m) a k.
Proof.
  intros Hg HK T Hk. rewrite fft_eta. cbn [snd].
  assert (Hsz : fft_size (length a) (2 ^ S m) = 2 ^ S m).
  { unfold fft_size. destruct (2 ^ S m =? 0) eqn:E; [|reflexivity]. apply Nat.eqb_eq in E. pose proof (pow2_pos (S m)). lia. }
  rewrite Hsz.
  rewrite (zip_acc_nth cadd _ _ k czero czero) by (rewrite ?repeat_length, ?fft_internal_length; unfold real_buf; rewrite ?map_seq_length; exact Hk).
  rewrite nth_repeat'.
  rewrite (fft_internal_dft ops inr L tw K s (S m) _ false k Hg ltac:(lia) T) by (unfold real_buf; rewrite ?map_seq_length; auto).
  unfold ProofsMul.Atr.
  transitivity (dft (2 ^ S m) (root (Nat.max K (S m)) (S m) false) (vec (real_buf ops a (2 ^ S m))) k); [ring|].
  apply dft_ext. intros i Hi. unfold ProofsLevels.vec, real_buf. rewrite nth_map_seq by exact Hi.
  rewrite (map_ofZ_nth ops inr L). reflexivity.
Qed.

Lemma inv_prod_exact Kmax K (s : st (F := F)) a b j res :
  (forall k, 2 <= k <= Kmax -> table_ok k) -> good K s -> 2 <= K <= Kmax -> a <> [] -> b <> [] ->
  S j <= Kmax -> length a + length b - 1 <= 2 ^ S j ->
  (forall l, l < length a + length b - 1 -> inr (conv_coef a b l)) -> inr 0%Z ->
  snd (inv_prod_into ops tw s a b (2 ^ S j) res) =
  zip_acc Z.add res (conv a b ++ repeat 0%Z (2 ^ S j - (length a + length b - 1))).
Proof.
  intros Tabs Hg HK Ha Hb Hj Htot Hin Hin0.
  set (tot := length a + length b - 1) in *. set (n := 2 ^ S j) in *.
  assert (Hsz : forall len, fft_size len n = n).
  { intros len. unfold fft_size. destruct (n =? 0) eqn:E; [|reflexivity]. apply Nat.eqb_eq in E. pose proof (pow2_pos (S j)). unfold n in E. lia. }
  unfold inv_prod_into. rewrite (fft_eta s a n). cbv iota beta. rewrite Hsz.
  pose proof (update_n_good ops tw K (S j) s Hg) as Hg1.
  set (s1 := update_n ops tw s n) in *. set (K1 := Nat.max K (S j)) in *.
  rewrite (fft_eta s1 b n). cbv iota beta. rewrite Hsz.
  pose proof (update_n_good ops tw K1 (S j) s1 Hg1) as Hg2. replace (Nat.max K1 (S j)) with K1 in Hg2 by lia.
  set (s2 := update_n ops tw s1 n) in *.
  assert (HK1 : 2 <= K1) by lia. assert (T1 : table_ok K1) by (apply Tabs; lia). assert (Hj1 : S j <= K1) by lia.
  set (fa := zip_acc cadd (repeat czero n) (snd (fft_internal ops tw s (real_buf ops a n) false))).
  set (fb := zip_acc cadd (repeat czero n) (snd (fft_internal ops tw s1 (real_buf ops b n) false))).
  assert (Hfa : forall k, k < n -> nth k fa czero = Atr K1 (S j) a k).
  { intros k Hk. pose proof (fft_nth K s a j k Hg HK1 T1 Hk) as H. rewrite fft_eta in H. cbn [snd] in H. fold n in H.
    rewrite Hsz in H. exact H. }
  assert (Hfb : forall k, k < n -> nth k fb czero = Atr K1 (S j) b k).
  { intros k Hk. pose proof (fft_nth K1 s1 b j k Hg1) as H. replace (Nat.max K1 (S j)) with K1 in H by lia.
    specialize (H HK1 T1 Hk). rewrite fft_eta in H. cbn [snd] in H. fold n in H. rewrite Hsz in H. exact H. }
  assert (Hlfa : length fa = n) by (unfold fa; now rewrite zip_acc_length, repeat_length).
  assert (Hlfb : length fb = n) by (unfold fb; now rewrite zip_acc_length, repeat_length).
  set (prod := cprod ops fa fb).
  assert (Hlp : length prod = n) by (unfold prod, cprod; rewrite map_length, combine_length; lia).
  assert (Hprod : forall k, k < n -> nth k prod czero = Ptr K1 (S j) a b k).
  { intros k Hk. unfold prod, cprod. rewrite nth_map_combine by lia. rewrite Hfa, Hfb by exact Hk.
    apply (AB_is_P ops inr L tw K1 a b j HK1 T1 Hj1 Ha Hb Htot). }
  unfold fft_inv_into. rewrite Hlp.
  assert (Hn1 : (n =? 1) = false).
  { apply Nat.eqb_neq. unfold n. rewrite Nat.pow_succ_r'. pose proof (pow2_pos j). lia. }
  rewrite Hn1.
  assert (HR2 : length (R s2) = 2 ^ K1) by apply (good_len_R ops tw K1 s2 Hg2).
  rewrite (update_n_id ops tw s2 n) by (rewrite HR2; unfold n; now apply pow2_le).
  unfold fft_inv_body. rewrite Hlp, HR2.
  assert (Hh : n / 2 = 2 ^ j) by (unfold n; rewrite Nat.pow_succ_r', (Nat.mul_comm 2), Nat.div_mul; lia).
  rewrite Hh.
  set (buf := map _ (seq 0 (2 ^ j))).
  assert (Hlb : @length C buf = 2 ^ j) by apply map_seq_length.
  assert (Hbuf : forall i, i < 2 ^ j -> nth i buf czero = dft (2 ^ j) (root K1 j false) (cpair a b) i).
  { intros i Hi. unfold buf. rewrite nth_map_seq by exact Hi.
    assert (Hn2 : n = 2 * 2 ^ j) by apply Nat.pow_succ_r'.
    rewrite !Hprod by lia. unfold n.
    rewrite (half_step_P ops inr L tw K1 s2 j a b i Hg2 HK1 T1 Hj1 Hi).
    apply (scale_half ops inr L). }
  rewrite (fft_internal_eta ops tw s2 buf true). cbv iota beta. cbn [snd]. f_equal.
  apply (list_eq_nth _ _ 0%Z).
  - rewrite round_pairs_length, fft_internal_length, Hlb, app_length, repeat_length, conv_length by assumption.
    fold tot. unfold n in *. rewrite Nat.pow_succ_r' in *. lia.
  - rewrite round_pairs_length, fft_internal_length, Hlb. intros l Hl.
    assert (Hln : l < 2 ^ S j) by (rewrite Nat.pow_succ_r'; lia).
    rewrite (finish ops inr L tw K1 s2 j buf a b Hg2 HK1 T1 Hj1 Hlb Hbuf l Hln).
    + unfold ProofsMul.cc. fold tot. destruct (l <? tot) eqn:E.
      * apply Nat.ltb_lt in E. rewrite app_nth1 by (rewrite conv_length by assumption; exact E).
        symmetry. now apply conv_nth.
      * apply Nat.ltb_ge in E. rewrite app_nth2 by (rewrite conv_length by assumption; exact E).
        symmetry. apply nth_repeat'.
    + unfold ProofsMul.cc. fold tot. destruct (l <? tot) eqn:E; [apply Nat.ltb_lt in E; now apply Hin|exact Hin0].
Qed.
End Inv.
