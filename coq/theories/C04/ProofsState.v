(** C04 — the object state: what update_n builds, reachable states, and the stride relation
    between the tables of two objects of different sizes.  No algebraic law is used. *)
From Coq Require Import List ZArith Lia Bool PeanoNat.
From RlibV Require Import C04.Model C04.ProofsBasic.
Import ListNotations.
Open Scope nat_scope.

Lemma pow2_pos k : 1 <= 2 ^ k.
Proof. induction k; cbn [Nat.pow]; lia. Qed.
Lemma pow2_le a b : a <= b -> 2 ^ a <= 2 ^ b.
Proof. intros H. apply Nat.pow_le_mono_r; lia. Qed.
Lemma pow2_split a b : a <= b -> 2 ^ b = 2 ^ a * 2 ^ (b - a).
Proof. intros H. rewrite <- Nat.pow_add_r. f_equal. lia. Qed.
Lemma pow2_lt_inv a b : 2 ^ a < 2 ^ b -> a < b.
Proof. intros H. apply Nat.pow_lt_mono_r_iff in H; lia. Qed.
Lemma pow2_le_inv a b : 2 ^ a <= 2 ^ b -> a <= b.
Proof. intros H. apply Nat.pow_le_mono_r_iff in H; lia. Qed.
Lemma shiftl1 x : Nat.shiftl x 1 = 2 * x.
Proof. cbn. unfold Nat.double. lia. Qed.
Lemma even_double_half i : Nat.even i = true -> 2 * (i / 2) = i.
Proof.
  intros H. apply Nat.even_spec in H. destruct H as [q ->].
  rewrite (Nat.mul_comm 2 q), Nat.div_mul by lia. lia.
Qed.
Lemma seq_shift_add a n : seq a n = map (fun i => a + i) (seq 0 n).
Proof.
  revert a; induction n as [|n IH]; intros a; cbn [seq map]; [reflexivity|].
  f_equal; [lia|]. rewrite (IH (S a)), (IH 1), map_map. apply map_ext. intros; lia.
Qed.
Lemma fold_left_ext_in {A B} (f g : A -> B -> A) l a :
  (forall a i, In i l -> f a i = g a i) -> fold_left f l a = fold_left g l a.
Proof.
  revert a; induction l as [|i l IH]; intros a H; cbn [fold_left]; [reflexivity|].
  rewrite H by now left. apply IH. intros a' j Hj. apply H. now right.
Qed.

Section State.
Context {F : Type} (ops : Ops F) (tw : nat -> nat -> C (F := F)).
Notation st := (st (F := F)).
Notation czero := (czero ops).
Notation cone := (cone ops).

(** closed forms of the two tables of an object with max_n = 2^k *)
Fixpoint wf (k i : nat) : C :=
  match k with
  | O => cone
  | S k' => if Nat.even i then wf k' (i / 2) else tw (2 ^ k') i
  end.
Definition wt (k i : nat) : C := if i =? 2 ^ k then cone else wf k i.
Fixpoint rf (k i : nat) : nat :=
  match k with
  | O => 0
  | S k' => if i <? 2 ^ k' then 2 * rf k' i else Nat.lxor (2 * rf k' (i - 2 ^ k')) 1
  end.

Definition good (k : nat) (s : st) : Prop :=
  R s = map (rf k) (seq 0 (2 ^ k)) /\
  length (W s) = 2 ^ k + 1 /\
  forall i, i <= 2 ^ k -> nth i (W s) czero = wt k i.

Lemma good_unique k s s' : good k s -> good k s' -> s = s'.
Proof.
  intros (Hr & Hl & Hw) (Hr' & Hl' & Hw'). destruct s as [w r], s' as [w' r']; cbn [W R] in *.
  f_equal; [|congruence]. apply (list_eq_nth _ _ czero); [congruence|].
  intros i Hi. rewrite Hw, Hw' by lia. reflexivity.
Qed.

Lemma good_len_R k s : good k s -> length (R s) = 2 ^ k.
Proof. intros (Hr & _). now rewrite Hr, map_seq_length. Qed.

(** *** one doubling *)
Lemma grow_rev_rf k : grow_rev (map (rf k) (seq 0 (2 ^ k))) = map (rf (S k)) (seq 0 (2 ^ S k)).
Proof.
  unfold grow_rev. rewrite Nat.pow_succ_r'. replace (2 * 2 ^ k) with (2 ^ k + 2 ^ k) by lia.
  rewrite seq_app, map_app. f_equal.
  - rewrite map_map. apply map_ext_in. intros i Hi. apply in_seq in Hi.
    rewrite shiftl1. cbn [rf]. destruct (i <? 2 ^ k) eqn:E; [reflexivity|]. apply Nat.ltb_ge in E. lia.
  - rewrite (seq_shift_add (0 + 2 ^ k)), !map_map. apply map_ext_in. intros i Hi. apply in_seq in Hi.
    rewrite shiftl1. cbn [rf]. destruct (0 + 2 ^ k + i <? 2 ^ k) eqn:E; [apply Nat.ltb_lt in E; lia|].
    do 3 f_equal. lia.
Qed.

Definition wpre (k : nat) (w : list C) : Prop :=
  length w = 2 ^ k + 1 /\ forall i, i < 2 ^ k -> nth i w czero = wf k i.

Lemma grow_w_pre k w : wpre k w -> wpre (S k) (grow_w ops tw w (2 ^ k)).
Proof.
  intros (Hl & Hw). split.
  - unfold grow_w. rewrite map_seq_length, Nat.pow_succ_r'. reflexivity.
  - intros i Hi. unfold grow_w. rewrite Nat.pow_succ_r' in Hi. rewrite nth_map_seq by lia.
    destruct (i =? 2 * 2 ^ k) eqn:E; [apply Nat.eqb_eq in E; lia|].
    cbn [wf]. destruct (Nat.even i) eqn:Ev; [|reflexivity].
    apply Hw. pose proof (even_double_half i Ev). lia.
Qed.

Lemma grow_spec fuel : forall k m w, wpre k w -> m - k <= fuel ->
  exists w', grow ops tw fuel w (map (rf k) (seq 0 (2 ^ k))) (2 ^ m) = (w', map (rf (Nat.max k m)) (seq 0 (2 ^ Nat.max k m)))
             /\ wpre (Nat.max k m) w'.
Proof.
  induction fuel as [|f IH]; intros k m w Hw Hf.
  - cbn [grow]. exists w. replace (Nat.max k m) with k by lia. split; [reflexivity|exact Hw].
  - cbn [grow]. rewrite map_seq_length. destruct (2 ^ k <? 2 ^ m) eqn:E.
    + apply Nat.ltb_lt in E. apply pow2_lt_inv in E.
      rewrite grow_rev_rf. destruct (IH (S k) m _ (grow_w_pre k w Hw) ltac:(lia)) as (w' & Hg & Hw').
      exists w'. replace (Nat.max k m) with (Nat.max (S k) m) by lia. split; assumption.
    + apply Nat.ltb_ge in E. apply pow2_le_inv in E.
      exists w. replace (Nat.max k m) with k by lia. split; [reflexivity|exact Hw].
Qed.

Lemma good_wpre k s : good k s -> wpre k (W s).
Proof.
  intros (_ & Hl & Hw). split; [exact Hl|]. intros i Hi. rewrite Hw by lia. unfold wt.
  destruct (i =? 2 ^ k) eqn:E; [apply Nat.eqb_eq in E; lia|reflexivity].
Qed.

Lemma update_n_good k m s : good k s -> good (Nat.max k m) (update_n ops tw s (2 ^ m)).
Proof.
  intros Hg. pose proof (good_len_R k s Hg) as HR. unfold update_n. rewrite HR.
  destruct (2 ^ m <=? 2 ^ k) eqn:E.
  - apply Nat.leb_le, pow2_le_inv in E. replace (Nat.max k m) with k by lia. exact Hg.
  - apply Nat.leb_gt in E. apply pow2_lt_inv in E.
    pose proof (good_wpre k s Hg) as Hpre.
    destruct Hg as (Hr & Hl & Hw). rewrite Hr.
    destruct (grow_spec (S (Nat.log2 (2 ^ m))) k m (W s) Hpre)
      as (w' & Hgr & Hl' & Hw').
    { rewrite Nat.log2_pow2 by lia. lia. }
    rewrite Hgr. unfold good; cbn [W R]. split; [reflexivity|]. unfold set_last.
    split; [now rewrite upd_length|].
    intros i Hi. rewrite nth_upd, Hl'. replace (2 ^ Nat.max k m + 1 - 1) with (2 ^ Nat.max k m) by lia.
    unfold wt. destruct (i =? 2 ^ Nat.max k m) eqn:Ei.
    + replace (2 ^ Nat.max k m <? 2 ^ Nat.max k m + 1) with true by (symmetry; apply Nat.ltb_lt; lia).
      reflexivity.
    + cbn [andb]. apply Nat.eqb_neq in Ei. apply Hw'. lia.
Qed.

Definition init_st : st := mkst [cone; cone] [0].
Lemma init_good : good 0 init_st.
Proof.
  unfold good, init_st; cbn [W R Nat.pow seq map length]. repeat split.
  intros [|[|i]] Hi; try lia; reflexivity.
Qed.
Lemma new_good : good 2 (new_st ops tw).
Proof. unfold new_st. change 4 with (2 ^ 2). apply (update_n_good 0 2 init_st init_good). Qed.

(** states an object can be in: FFT::new() followed by any number of (implicit or explicit) update_n *)
Inductive reach : st -> Prop :=
| reach_new : reach (new_st ops tw)
| reach_upd s m : reach s -> reach (update_n ops tw s (2 ^ m)).

Lemma reach_good s : reach s -> exists k, 2 <= k /\ good k s.
Proof.
  induction 1 as [|s m _ (k & Hk & Hg)].
  - exists 2. split; [lia|apply new_good].
  - exists (Nat.max k m). split; [lia|now apply update_n_good].
Qed.

(** *** stride: the table of a larger object restricted to a smaller size *)
Lemma wf_stride k j i : wf (k + j) (i * 2 ^ j) = wf k i.
Proof.
  induction j as [|j IH].
  - rewrite Nat.add_0_r. cbn [Nat.pow]. now rewrite Nat.mul_1_r.
  - rewrite Nat.add_succ_r. cbn [wf]. rewrite Nat.pow_succ_r'.
    replace (i * (2 * 2 ^ j)) with (2 * (i * 2 ^ j)) by lia.
    rewrite Nat.even_mul. cbn [Nat.even orb].
    rewrite (Nat.mul_comm 2), Nat.div_mul by lia. exact IH.
Qed.

Lemma wt_stride k j i : wt (k + j) (i * 2 ^ j) = wt k i.
Proof.
  unfold wt. rewrite wf_stride, Nat.pow_add_r.
  destruct (i =? 2 ^ k) eqn:E.
  - apply Nat.eqb_eq in E. subst i. now rewrite Nat.eqb_refl.
  - apply Nat.eqb_neq in E. pose proof (pow2_pos j).
    destruct (i * 2 ^ j =? 2 ^ k * 2 ^ j) eqn:E'; [|reflexivity].
    apply Nat.eqb_eq in E'. apply Nat.mul_cancel_r in E'; lia.
Qed.

Lemma rf_stride k j i : i < 2 ^ k -> rf (k + j) i / 2 ^ j = rf k i.
Proof.
  intros Hi. induction j as [|j IH].
  - rewrite Nat.add_0_r. cbn [Nat.pow]. apply Nat.div_1_r.
  - rewrite Nat.add_succ_r. cbn [rf].
    assert (H : i < 2 ^ (k + j)).
    { pose proof (pow2_le k (k + j) ltac:(lia)). lia. }
    apply Nat.ltb_lt in H. rewrite H. rewrite Nat.pow_succ_r'.
    rewrite Nat.div_mul_cancel_l; [exact IH| pose proof (pow2_pos j); lia | lia].
Qed.

Lemma table_stride K K' s s' i : good K s -> good K' s' -> K <= K' -> i <= 2 ^ K ->
  nth (i * 2 ^ (K' - K)) (W s') czero = nth i (W s) czero.
Proof.
  intros (_ & _ & Hw) (_ & _ & Hw') HK Hi.
  rewrite Hw by exact Hi. rewrite Hw'.
  - replace K' with (K + (K' - K)) at 1 by lia. apply wt_stride.
  - rewrite (pow2_split K K') by exact HK. apply Nat.mul_le_mono_r. exact Hi.
Qed.

Lemma rev_stride K K' s s' i : good K s -> good K' s' -> K <= K' -> i < 2 ^ K ->
  nth i (R s') 0 / 2 ^ (K' - K) = nth i (R s) 0.
Proof.
  intros (Hr & _) (Hr' & _) HK Hi. rewrite Hr, Hr'.
  rewrite !nth_map_seq; [| exact Hi | pose proof (pow2_le K K' HK); lia].
  replace K' with (K + (K' - K)) at 1 by lia. now apply rf_stride.
Qed.
End State.
