(** C04 — executable model of rlib/fft/src/fft.rs (struct FFT<F>), polymorphic in the scalar
    operations [Ops F] and in the twiddle oracle [tw cur i] (the code's
    [Complex::new(x.cos(), x.sin())], [x = PI * i * (1/cur)]).

    Object state = (w, reversed).  The two scratch buffers are cleared by the code before each
    use, so they are not state.  Conventions:
    - indices (usize) are [nat]; every executed size is <= 256;
    - loops whose iterations are independent of each other (each iteration reads only cells no
      iteration writes, or only its own cell) are written as [map _ (seq 0 n)];
      loops with cross-iteration effects (bit-reversal swaps, the unpacking loop of
      [multiply_into]) are [fold_left] over the index sequence with in-place updates [upd];
    - [while] loops whose trip count is logarithmic use a [nat] fuel of [S (log2 n)], which is
      always enough (the fuel counts doublings), so no result is an out-of-fuel value;
    - definitions only, no proofs. *)
From Coq Require Import List ZArith Bool.
Import ListNotations.
Open Scope nat_scope.

Record Ops (F : Type) := mkOps {
  fadd : F -> F -> F; fsub : F -> F -> F; fmul : F -> F -> F; fdiv : F -> F -> F;
  fneg : F -> F; fzero : F; fone : F;
  of_Z : Z -> F;        (* F::from_i32 / F::from_usize *)
  to_int : F -> Z       (* x.round().to_i64(): round half away from zero *)
}.
Arguments fadd {F}. Arguments fsub {F}. Arguments fmul {F}. Arguments fdiv {F}. Arguments fneg {F}.
Arguments fzero {F}. Arguments fone {F}. Arguments of_Z {F}. Arguments to_int {F}.

(** in-place write [l[i] = x] (length preserving) *)
Fixpoint upd {A} (l : list A) (i : nat) (x : A) : list A :=
  match l, i with
  | [], _ => []
  | _ :: t, O => x :: t
  | h :: t, S i' => h :: upd t i' x
  end.

(** [res.iter_mut().zip(ys).for_each(|(x, y)| *x = f x y)] *)
Fixpoint zip_acc {A B} (f : A -> B -> A) (res : list A) (ys : list B) : list A :=
  match res, ys with
  | x :: res', y :: ys' => f x y :: zip_acc f res' ys'
  | _, _ => res
  end.

(** [n = start; while n < k { n *= 2 }] *)
Fixpoint pow2_ge (fuel n k : nat) : nat :=
  match fuel with
  | O => n
  | S f => if n <? k then pow2_ge f (2 * n) k else n
  end.
Definition next_pow2 (start k : nat) : nat := pow2_ge (S (Nat.log2 k)) start k.

Section Model.
Context {F : Type} (ops : Ops F).

(** complex.rs *)
Definition C := (F * F)%type.
Definition cadd (a b : C) : C := (fadd ops (fst a) (fst b), fadd ops (snd a) (snd b)).
Definition csub (a b : C) : C := (fsub ops (fst a) (fst b), fsub ops (snd a) (snd b)).
Definition cmul (a b : C) : C :=
  (fsub ops (fmul ops (fst a) (fst b)) (fmul ops (snd a) (snd b)),
   fadd ops (fmul ops (fst a) (snd b)) (fmul ops (snd a) (fst b))).
Definition cscale (a : C) (r : F) : C := (fmul ops (fst a) r, fmul ops (snd a) r).   (* Mul<F> *)
Definition cdivr (a : C) (r : F) : C := (fdiv ops (fst a) r, fdiv ops (snd a) r).    (* Div<F> *)
Definition conj (a : C) : C := (fst a, fneg ops (snd a)).
Definition czero : C := (fzero ops, fzero ops).
Definition cone : C := (fone ops, fzero ops).
Definition ci : C := (fzero ops, fone ops).

Variable tw : nat -> nat -> C.

Record st := mkst { W : list C; R : list nat }.

(** ** update_n *)
(** one pass of the [while cur < n] body, on the prefix of length 2cur (resp. 2cur+1) of the
    already resized vectors; [w[2cur]] is the ZERO written by [resize] (never read before it is
    overwritten: the next pass reads [w[i/2]] for [i/2 <= 2cur-1] only) *)
Definition grow_rev (r : list nat) : list nat :=
  let r1 := map (fun x => Nat.shiftl x 1) r in
  r1 ++ map (fun x => Nat.lxor x 1) r1.
Definition grow_w (w : list C) (cur : nat) : list C :=
  map (fun i => if i =? 2 * cur then czero
                else if Nat.even i then nth (i / 2) w czero   (* descending even pass: reads old cells *)
                else tw cur i)
      (seq 0 (2 * cur + 1)).
Fixpoint grow (fuel : nat) (w : list C) (r : list nat) (n : nat) : list C * list nat :=
  match fuel with
  | O => (w, r)
  | S f => let cur := length r in
           if cur <? n then grow f (grow_w w cur) (grow_rev r) n else (w, r)
  end.
Definition set_last (w : list C) (x : C) : list C := upd w (length w - 1) x.
(** [n] is a power of two (the code asserts it) *)
Definition update_n (s : st) (n : nat) : st :=
  if n <=? length (R s) then s
  else let '(w, r) := grow (S (Nat.log2 n)) (W s) (R s) n in
       mkst (set_last w cone) r.
Definition new_st : st := update_n (mkst [cone; cone] [0]) 4.

(** ** fft_internal *)
Definition swap_step (r : list nat) (d : nat) (v : list C) (i : nat) : list C :=
  let j := Nat.shiftr (nth i r 0) d in
  if i <? j then upd (upd v i (nth j v czero)) j (nth i v czero) else v.
Definition bitrev_swaps (r : list nat) (d n : nat) (v : list C) : list C :=
  fold_left (swap_step r d) (seq 1 (n - 1)) v.

(** one level [ln]: position [k] lies in the block starting at [k - k mod 2ln]; [j = k mod 2ln] *)
Definition widx (inv : bool) (max_n step j : nat) : nat :=
  if inv then max_n - j * step else j * step.
Definition level (w : list C) (inv : bool) (max_n n ln : nat) (v : list C) : list C :=
  let step := max_n / (2 * ln) in
  map (fun k =>
         let j := k mod (2 * ln) in
         if j <? ln
         then cadd (nth k v czero) (cmul (nth (k + ln) v czero) (nth (widx inv max_n step j) w czero))
         else csub (nth (k - ln) v czero) (cmul (nth k v czero) (nth (widx inv max_n step (j - ln)) w czero)))
      (seq 0 n).
Fixpoint levels (fuel : nat) (w : list C) (inv : bool) (max_n n ln : nat) (v : list C) : list C :=
  match fuel with
  | O => v
  | S f => if ln <? n then levels f w inv max_n n (2 * ln) (level w inv max_n n ln v) else v
  end.

(** [v] is the slice [bufs[B][0..n]], [n = length v] a power of two *)
Definition fft_internal (s : st) (v : list C) (inv : bool) : st * list C :=
  let n := length v in
  let s := update_n s n in
  let max_n := length (R s) in
  let d := Nat.log2 max_n - Nat.log2 n in
  let v := bitrev_swaps (R s) d n v in
  let v := levels (S (Nat.log2 n)) (W s) inv max_n n 1 v in
  let v := if inv then let invn := fdiv ops (fone ops) (of_Z ops (Z.of_nat n)) in
                       map (fun x => cscale x invn) v
           else v in
  (s, v).

(** ** fft / fft_into *)
Definition fft_size (len n : nat) : nat := if n =? 0 then next_pow2 1 len else n.
Definition real_buf (v : list Z) (n : nat) : list C :=
  map (fun i => (nth i (map (of_Z ops) v) (fzero ops), fzero ops)) (seq 0 n).
Definition fft_into (s : st) (v : list Z) (n : nat) (res : list C) : st * list C :=
  let n := fft_size (length v) n in
  let '(s, buf) := fft_internal s (real_buf v n) false in
  (s, zip_acc cadd res buf).
Definition fft (s : st) (v : list Z) (n : nat) : st * list C :=
  fft_into s v n (repeat czero (fft_size (length v) n)).

(** ** fft_inv / fft_inv_into *)
Definition round_pairs (buf : list C) : list Z :=
  flat_map (fun c => [to_int ops (fst c); to_int ops (snd c)]) buf.
(** the code of [fft_inv_into] below its [n == 1] special case and below the [update_n(n)] call: copy into
    the scratch buffer, folding step with the twiddle stride [max_n / n], inverse transform of half the size,
    rounded write-out *)
Definition fft_inv_body (s : st) (v : list C) (res : list Z) : st * list Z :=
  let n := length v in
  let i2 := fdiv ops (fone ops) (of_Z ops 2) in
  let max_n := length (R s) in
  let step := max_n / n in
  let start := max_n - Nat.shiftr max_n 2 in
  let buf := map (fun i => let bi := nth i v czero in let bj := nth (i + n / 2) v czero in
                           cscale (csub (cadd bi bj) (cmul (csub bi bj) (nth (start - step * i) (W s) czero))) i2)
                 (seq 0 (n / 2)) in
  let '(s, buf) := fft_internal s buf true in
  (s, zip_acc Z.add res (round_pairs buf)).
Definition fft_inv_one (v : list C) (res : list Z) : list Z :=
  match res with [] => [] | x :: t => (x + to_int ops (fst (nth 0 v czero)))%Z :: t end.
(** the code as of /repo 23bca24: [self.update_n(n)] right after the [n == 1] case, BEFORE [max_n] is read *)
Definition fft_inv_into (s : st) (v : list C) (res : list Z) : st * list Z :=
  let n := length v in
  if n =? 1 then (s, fft_inv_one v res)
  else fft_inv_body (update_n s n) v res.
Definition fft_inv (s : st) (v : list C) : st * list Z :=
  fft_inv_into s v (repeat 0%Z (length v)).
(** the code BEFORE 23bca24 (kept for the record, see [c04_inv_old_refuted]): [max_n] was read without a
    preceding [update_n], so on an object smaller than the spectrum the stride [max_n / n] was 0 *)
Definition fft_inv_into_old (s : st) (v : list C) (res : list Z) : st * list Z :=
  let n := length v in
  if n =? 1 then (s, fft_inv_one v res)
  else fft_inv_body s v res.

(** ** multiply / multiply_into *)
Definition unpack_step (n : nat) (i8 : C) (buf : list C) (i : nat) : list C :=
  let j := Nat.land (n - i) (n - 1) in
  let bi := nth i buf czero in
  let bj := conj (nth j buf czero) in
  let v := cmul (cmul (cadd bi bj) (csub bj bi)) i8 in
  upd (upd buf i v) j (conj v).
Definition multiply_into (s : st) (a b : list Z) (res : list Z) : st * list Z :=
  let la := length a in let lb := length b in
  if (la =? 0) || (lb =? 0) then (s, res)
  else
    let n := next_pow2 2 (la + lb - 1) in
    let buf := map (fun i => (nth i (map (of_Z ops) a) (fzero ops), nth i (map (of_Z ops) b) (fzero ops))) (seq 0 n) in
    let '(s, buf) := fft_internal s buf false in
    let i8 := cdivr ci (of_Z ops 8) in
    let buf := fold_left (unpack_step n i8) (seq 0 (n / 2 + 1)) buf in
    let max_n := length (R s) in
    let step := max_n / n in
    let start := max_n - Nat.shiftr max_n 2 in
    let buf := map (fun i => let bi := nth i buf czero in let bj := nth (i + n / 2) buf czero in
                             csub (cadd bi bj) (cmul (csub bi bj) (nth (start - step * i) (W s) czero)))
                   (seq 0 (n / 2)) in
    let '(s, buf) := fft_internal s buf true in
    (s, zip_acc Z.add res (firstn (la + lb - 1) (round_pairs buf))).
Definition multiply (s : st) (a b : list Z) : st * list Z :=
  if (length a =? 0) || (length b =? 0) then (s, [])
  else multiply_into s a b (repeat 0%Z (length a + length b - 1)).

(** fft(a, n), fft(b, n), pointwise complex product, fft_inv_into — the route of clause (iv) *)
Definition cprod (fa fb : list C) : list C := map (fun p => cmul (fst p) (snd p)) (combine fa fb).
Definition inv_prod_into (s : st) (a b : list Z) (n : nat) (res : list Z) : st * list Z :=
  let '(s, fa) := fft s a n in
  let '(s, fb) := fft s b n in
  fft_inv_into s (cprod fa fb) res.
(** the same route on TWO objects: both forward transforms on [s], the inverse transform on [s'] *)
Definition inv_prod_x (s s' : st) (a b : list Z) (n : nat) (res : list Z) : (st * st) * list Z :=
  let '(s, fa) := fft s a n in
  let '(s, fb) := fft s b n in
  let '(s', r) := fft_inv_into s' (cprod fa fb) res in
  ((s, s'), r).
Definition inv_prod_x_old (s s' : st) (a b : list Z) (n : nat) (res : list Z) : (st * st) * list Z :=
  let '(s, fa) := fft s a n in
  let '(s, fb) := fft s b n in
  let '(s', r) := fft_inv_into_old s' (cprod fa fb) res in
  ((s, s'), r).
End Model.

Arguments W {F}. Arguments R {F}. Arguments mkst {F}.

(** ** Specification: the integer convolution *)
Definition conv_coef (a b : list Z) (k : nat) : Z :=
  fold_right Z.add 0%Z
    (map (fun i => if (i <=? k) && (k - i <? length b) then (nth i a 0 * nth (k - i) b 0)%Z else 0%Z)
         (seq 0 (length a))).
Definition conv (a b : list Z) : list Z :=
  match a, b with
  | [], _ => []
  | _, [] => []
  | _, _ => map (conv_coef a b) (seq 0 (length a + length b - 1))
  end.
