(** C04 — the levels of fft_internal compute the transform: butterfly identity, block invariant
    (after the levels up to block size 2^t, block b holds the DFT of the stride-2^(m-t) subsequence of
    the input starting at the bit-reversed block index), and the composite statement. *)
From Coq Require Import List ZArith Lia Bool PeanoNat Ring.
From RlibV Require Import C04.Model C04.ProofsBasic C04.ProofsState C04.ProofsHist C04.ProofsRev C04.AlgRing C04.ProofsTable.
Import ListNotations.
Open Scope nat_scope.

Section Levels.
Context {F : Type} (ops : Ops F) (inr : Z -> Prop) (L : Lawful ops inr) (tw : nat -> nat -> C (F := F)).
Add Ring FringR : (Fring ops inr L).
Add Ring CringR : (C_ring ops inr L).
Notation C := (C (F := F)).
Notation czero := (czero ops). Notation cone := (cone ops).
Notation cadd := (cadd ops). Notation csub := (csub ops). Notation cmul := (cmul ops).
Notation cpow := (cpow ops). Notation cneg := (cneg ops). Notation csum := (csum ops). Notation dft := (dft ops).

Lemma level_nth w inv M n ln (v : list C) p : p < n ->
  nth p (level ops w inv M n ln v) czero =
  (if p mod (2 * ln) <? ln
   then cadd (nth p v czero) (cmul (nth (p + ln) v czero) (nth (widx inv M (M / (2 * ln)) (p mod (2 * ln))) w czero))
   else csub (nth (p - ln) v czero) (cmul (nth p v czero) (nth (widx inv M (M / (2 * ln)) (p mod (2 * ln) - ln)) w czero))).
Proof. intros Hp. unfold level. now rewrite nth_map_seq. Qed.

Lemma cpow_neg1_even s : cpow (cneg cone) (2 * s) = cone.
Proof.
  induction s as [|s IH]; [reflexivity|]. replace (2 * S s) with (S (S (2 * s))) by lia.
  cbn [AlgRing.cpow]. rewrite IH. ring.
Qed.
Lemma cpow_neg1_odd s : cpow (cneg cone) (2 * s + 1) = cneg cone.
Proof. replace (2 * s + 1) with (S (2 * s)) by lia. cbn [AlgRing.cpow]. rewrite cpow_neg1_even. ring. Qed.
Lemma cpow_sq r n : cpow (cmul r r) n = cpow r (2 * n).
Proof. rewrite (cpow_mul_base ops inr L), <- (cpow_add ops inr L). f_equal. lia. Qed.

Lemma butterfly h r X k : cpow r h = cneg cone ->
  dft (2 * h) r X k = cadd (dft h (cmul r r) (fun s => X (2 * s)) k)
                           (cmul (cpow r k) (dft h (cmul r r) (fun s => X (2 * s + 1)) k)) /\
  dft (2 * h) r X (k + h) = csub (dft h (cmul r r) (fun s => X (2 * s)) k)
                                 (cmul (cpow r k) (dft h (cmul r r) (fun s => X (2 * s + 1)) k)).
Proof.
  intros Hh. unfold AlgRing.dft. rewrite !(csum_even_odd ops inr L). split.
  - f_equal.
    + apply (csum_ext ops). intros s _. rewrite cpow_sq. do 2 f_equal. lia.
    + rewrite <- (csum_mul_l ops inr L). apply (csum_ext ops). intros s _.
      rewrite cpow_sq. replace ((2 * s + 1) * k) with (k + 2 * (s * k)) by lia.
      rewrite (cpow_add ops inr L). ring.
  - rewrite <- (csum_mul_l ops inr L), <- (csum_sub ops inr L), <- (csum_add ops inr L).
    apply (csum_ext ops). intros s _. rewrite !cpow_sq.
    replace (2 * s * (k + h)) with (2 * (s * k) + h * (2 * s)) by lia.
    replace ((2 * s + 1) * (k + h)) with (k + 2 * (s * k) + h * (2 * s + 1)) by lia.
    rewrite !(cpow_add ops inr L), (cpow_mul ops inr L r h (2 * s)), (cpow_mul ops inr L r h (2 * s + 1)), Hh, cpow_neg1_even, cpow_neg1_odd. ring.
Qed.

Lemma dft_ext n r X Y k : (forall j, j < n -> X j = Y j) -> dft n r X k = dft n r Y k.
Proof. intros H. unfold AlgRing.dft. apply (csum_ext ops). intros j Hj. now rewrite H. Qed.

Section Inv.
Variable m : nat.
Variable v : list C.
Variable r : nat -> C.
Hypothesis r_sq : forall t, t < m -> cmul (r (S t)) (r (S t)) = r t.
Hypothesis r_half : forall t, t < m -> cpow (r (S t)) (2 ^ t) = cneg cone.
Variable w : list C.
Variable inv : bool.
Variable M : nat.
Hypothesis Htw : forall t j, t < m -> j < 2 ^ t -> nth (widx inv M (M / (2 * 2 ^ t)) j) w czero = cpow (r (S t)) j.

Definition blockdft (t b k : nat) : C :=
  dft (2 ^ t) (r t) (fun j => nth (rf (m - t) b + j * 2 ^ (m - t)) v czero) k.
Definition inv_t (t : nat) (x : list C) : Prop :=
  forall b k, b < 2 ^ (m - t) -> k < 2 ^ t -> nth (b * 2 ^ t + k) x czero = blockdft t b k.

Lemma blockdft_split t b' k : t < m -> b' < 2 ^ (m - S t) ->
  blockdft (S t) b' k = cadd (blockdft t (2 * b') k) (cmul (cpow (r (S t)) k) (blockdft t (2 * b' + 1) k)) /\
  blockdft (S t) b' (k + 2 ^ t) = csub (blockdft t (2 * b') k) (cmul (cpow (r (S t)) k) (blockdft t (2 * b' + 1) k)).
Proof.
  intros Ht Hb. unfold blockdft. rewrite Nat.pow_succ_r'.
  destruct (butterfly (2 ^ t) (r (S t)) (fun j => nth (rf (m - S t) b' + j * 2 ^ (m - S t)) v czero) k (r_half t Ht)) as [B1 B2].
  rewrite B1, B2, (r_sq t Ht).
  assert (Hmt : m - t = S (m - S t)) by lia. rewrite Hmt.
  pose proof (rf_dual (m - S t) b' 0 Hb ltac:(lia)) as D0.
  pose proof (rf_dual (m - S t) b' 1 Hb ltac:(lia)) as D1.
  rewrite Nat.add_0_r in D0. rewrite D0, D1, Nat.pow_succ_r'.
  assert (E0 : forall j, rf (m - S t) b' + 0 * 2 ^ (m - S t) + j * (2 * 2 ^ (m - S t)) = rf (m - S t) b' + 2 * j * 2 ^ (m - S t)) by (intros; lia).
  assert (E1 : forall j, rf (m - S t) b' + 1 * 2 ^ (m - S t) + j * (2 * 2 ^ (m - S t)) = rf (m - S t) b' + (2 * j + 1) * 2 ^ (m - S t)) by (intros; lia).
  split; (f_equal; [|f_equal]); apply dft_ext; intros j _; rewrite ?E0, ?E1; reflexivity.
Qed.

Lemma level_step t (x : list C) : t < m -> inv_t t x -> inv_t (S t) (level ops w inv M (2 ^ m) (2 ^ t) x).
Proof.
  intros Ht Hx b' k' Hb Hk.
  assert (Hmt : 2 ^ (m - t) = 2 * 2 ^ (m - S t)).
  { rewrite <- Nat.pow_succ_r'. f_equal. lia. }
  assert (Hm : 2 ^ m = 2 ^ (m - S t) * 2 ^ S t).
  { rewrite <- Nat.pow_add_r. f_equal. lia. }
  pose proof (pow2_pos t) as Hpt. rewrite Nat.pow_succ_r' in *.
  set (B := 2 * 2 ^ t) in *.
  assert (Hp : b' * B + k' < 2 ^ m) by (rewrite Hm; nia).
  rewrite level_nth by exact Hp. fold B.
  assert (Hmod : (b' * B + k') mod B = k').
  { rewrite Nat.add_comm, Nat.mod_add by (unfold B; lia). apply Nat.mod_small. exact Hk. }
  rewrite Hmod. subst B.
  destruct (blockdft_split t b' k' Ht Hb) as [S1 _].
  destruct (k' <? 2 ^ t) eqn:E.
  - apply Nat.ltb_lt in E.
    replace (b' * (2 * 2 ^ t) + k') with (2 * b' * 2 ^ t + k') by lia.
    replace (2 * b' * 2 ^ t + k' + 2 ^ t) with ((2 * b' + 1) * 2 ^ t + k') by lia.
    rewrite !Hx by (rewrite ?Hmt; lia). rewrite (Htw t k' Ht E). rewrite S1. ring.
  - apply Nat.ltb_ge in E.
    destruct (blockdft_split t b' (k' - 2 ^ t) Ht Hb) as [_ S2].
    replace (k' - 2 ^ t + 2 ^ t) with k' in S2 by lia.
    replace (b' * (2 * 2 ^ t) + k' - 2 ^ t) with (2 * b' * 2 ^ t + (k' - 2 ^ t)) by lia.
    replace (b' * (2 * 2 ^ t) + k') with ((2 * b' + 1) * 2 ^ t + (k' - 2 ^ t)) by lia.
    rewrite !Hx by (rewrite ?Hmt; lia). rewrite (Htw t (k' - 2 ^ t) Ht) by lia.
    rewrite S2. ring.
Qed.

Lemma levels_inv fuel : forall t (x : list C), t <= m -> m - t <= fuel -> inv_t t x ->
  inv_t m (levels ops fuel w inv M (2 ^ m) (2 ^ t) x).
Proof.
  induction fuel as [|f IH]; intros t x Ht Hf Hx; cbn [levels].
  - replace m with t by lia. exact Hx.
  - destruct (2 ^ t <? 2 ^ m) eqn:E.
    + apply Nat.ltb_lt, pow2_lt_inv in E. rewrite <- Nat.pow_succ_r'. apply IH; [lia|lia|].
      now apply level_step.
    + apply Nat.ltb_ge, pow2_le_inv in E. replace m with t by lia. exact Hx.
Qed.
End Inv.

(** ** fft_internal computes the transform *)
Notation good := (good ops tw).
Notation table_ok := (table_ok ops tw).
Notation om := (om ops tw).
Notation omi := (omi ops tw).

Definition root (K m : nat) (inv : bool) : C :=
  cpow (if inv then omi K else om K) (2 ^ (K - m)).
Definition vec (v : list C) (j : nat) : C := nth j v czero.

Lemma dft_one r X : dft 1 r X 0 = X 0.
Proof. unfold AlgRing.dft. cbn [AlgRing.csum AlgRing.cpow Nat.mul]. ring. Qed.

Lemma levels_dft K (s1 : st (F := F)) m (v u : list C) inv : good K s1 -> 1 <= K -> table_ok K -> m <= K ->
  length v = 2 ^ m -> length u = 2 ^ m -> (forall i, i < 2 ^ m -> nth i u czero = nth (rf m i) v czero) ->
  forall k, k < 2 ^ m ->
  nth k (levels ops (S m) (W s1) inv (2 ^ K) (2 ^ m) 1 u) czero = dft (2 ^ m) (root K m inv) (vec v) k.
Proof.
  intros Hg HK T Hm Hv Hu Hperm k Hk.
  set (rho := if inv then omi K else om K).
  set (r := fun t => cpow rho (2 ^ (K - t))).
  assert (Hhalf : cpow rho (2 ^ (K - 1)) = cneg cone).
  { unfold rho. destruct inv; [apply (omi_half' ops inr L tw K HK T)|apply (om_half' ops tw K HK T)]. }
  assert (r_sq : forall t, t < m -> cmul (r (S t)) (r (S t)) = r t).
  { intros t Ht. unfold r. rewrite <- (cpow_add ops inr L). f_equal.
    replace (K - t) with (S (K - S t)) by lia. rewrite Nat.pow_succ_r'. lia. }
  assert (r_half : forall t, t < m -> cpow (r (S t)) (2 ^ t) = cneg cone).
  { intros t Ht. unfold r. rewrite <- (cpow_mul ops inr L), <- Nat.pow_add_r.
    replace (K - S t + t) with (K - 1) by lia. exact Hhalf. }
  assert (Htw : forall t j, t < m -> j < 2 ^ t ->
            nth (widx inv (2 ^ K) (2 ^ K / (2 * 2 ^ t)) j) (W s1) czero = cpow (r (S t)) j).
  { intros t j Ht Hj. rewrite <- Nat.pow_succ_r', div_pow2 by lia.
    assert (Hq : 2 ^ K = 2 ^ S t * 2 ^ (K - S t)) by (apply pow2_split; lia).
    assert (Hjq : j * 2 ^ (K - S t) <= 2 ^ K).
    { rewrite Hq, Nat.pow_succ_r'. pose proof (pow2_pos (K - S t)). nia. }
    unfold widx, r. rewrite <- (cpow_mul ops inr L), (Nat.mul_comm (2 ^ (K - S t)) j).
    unfold rho. destruct inv.
    - rewrite (good_nth ops tw K s1 _ Hg HK T) by lia.
      apply (omi_pow ops inr L tw K HK T). exact Hjq.
    - apply (good_nth ops tw K s1 _ Hg HK T). exact Hjq. }
  assert (H0 : inv_t m v r 0 u).
  { intros b k0 Hb Hk0. cbn [Nat.pow] in Hk0. assert (k0 = 0) by lia. subst k0.
    rewrite Nat.sub_0_r in *. cbn [Nat.pow]. rewrite Nat.mul_1_r, Nat.add_0_r.
    unfold blockdft. cbn [Nat.pow]. rewrite dft_one, Hperm by exact Hb.
    rewrite Nat.sub_0_r. f_equal. lia. }
  pose proof (levels_inv m v r r_sq r_half (W s1) inv (2 ^ K) Htw (S m) 0 u ltac:(lia) ltac:(lia) H0) as Hfin.
  cbn [Nat.pow] in Hfin. specialize (Hfin 0 k). rewrite Nat.sub_diag in Hfin. cbn [Nat.pow] in Hfin.
  specialize (Hfin ltac:(lia) Hk). cbn [Nat.mul Nat.add] in Hfin. rewrite Hfin.
  unfold blockdft. rewrite Nat.sub_diag. cbn [rf Nat.pow Nat.add]. unfold root. fold rho. unfold r.
  apply dft_ext. intros j _. unfold vec. f_equal. lia.
Qed.

Lemma fft_internal_dft K (s : st (F := F)) m (v : list C) inv k :
  good K s -> 1 <= Nat.max K m -> table_ok (Nat.max K m) -> length v = 2 ^ m -> k < 2 ^ m ->
  nth k (snd (fft_internal ops tw s v inv)) czero =
  (if inv then cscale ops (dft (2 ^ m) (root (Nat.max K m) m true) (vec v) k)
                          (fdiv ops (fone ops) (of_Z ops (Z.of_nat (2 ^ m))))
   else dft (2 ^ m) (root (Nat.max K m) m false) (vec v) k).
Proof.
  intros Hg HK T Hv Hk. unfold fft_internal. cbn [snd]. rewrite Hv.
  pose proof (update_n_good ops tw K m s Hg) as H1.
  set (s1 := update_n ops tw s (2 ^ m)) in *. set (K1 := Nat.max K m) in *.
  rewrite (good_len_R ops tw _ _ H1), !Nat.log2_pow2 by lia.
  pose proof (update_n_good ops tw 0 m (init_st ops) (init_good ops tw)) as Hgm.
  replace (Nat.max 0 m) with m in Hgm by lia.
  set (sm := update_n ops tw (init_st ops) (2 ^ m)) in *.
  rewrite <- (swaps_stride ops tw m K1 sm s1 m v Hgm H1 ltac:(lia) ltac:(lia)), Nat.sub_diag.
  destruct Hgm as (HRm & _). rewrite HRm.
  set (u := bitrev_swaps ops (map (rf m) (seq 0 (2 ^ m))) 0 (2 ^ m) v).
  assert (Hu : length u = 2 ^ m) by (unfold u; now rewrite bitrev_swaps_length).
  assert (Hperm : forall i, i < 2 ^ m -> nth i u czero = nth (rf m i) v czero).
  { intros i Hi. unfold u. now apply swaps_perm. }
  pose proof (levels_dft K1 s1 m v u inv H1 HK T ltac:(lia) Hv Hu Hperm k Hk) as HL.
  destruct inv; [|exact HL].
  set (x := levels ops (S m) (W s1) true (2 ^ K1) (2 ^ m) 1 u) in *.
  assert (Hx : length x = 2 ^ m) by (unfold x; now apply levels_length).
  rewrite (nth_indep _ czero (cscale ops czero (fdiv ops (fone ops) (of_Z ops (Z.of_nat (2 ^ m)))))) by (now rewrite map_length, Hx).
  rewrite (map_nth (fun c => cscale ops c (fdiv ops (fone ops) (of_Z ops (Z.of_nat (2 ^ m)))))), HL. reflexivity.
Qed.
End Levels.
