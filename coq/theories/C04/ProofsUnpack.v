(** C04 — closed form of the unpacking loop of [multiply_into]. *)
From Coq Require Import List ZArith Lia Bool PeanoNat.
From RlibV Require Import C04.Model C04.ProofsBasic C04.ProofsState.
Import ListNotations.
Open Scope nat_scope.

Section Unpack.
Context {F : Type} (ops : Ops F).
Open Scope nat_scope.

Ltac ltb_cases :=
  repeat match goal with
  | |- context [?x <? ?y] => destruct (Nat.ltb_spec x y)
  | |- context [?x =? ?y] => destruct (Nat.eqb_spec x y)
  end; cbn [orb andb].

Definition unpack_val (n : nat) (i8 : C) (buf : list C) (i : nat) : C :=
  let bi := nth i buf (czero ops) in
  let bj := conj ops (nth ((n - i) mod n) buf (czero ops)) in
  cmul ops (cmul ops (cadd ops bi bj) (csub ops bj bi)) i8.

Lemma land_mask m i : i <= 2 ^ m -> Nat.land (2 ^ m - i) (2 ^ m - 1) = (2 ^ m - i) mod 2 ^ m.
Proof.
  intros _. rewrite <- Nat.land_ones. f_equal. rewrite Nat.ones_equiv. lia.
Qed.

Lemma unpack_step_length n (i8 : C) (buf : list C) i : length (unpack_step ops n i8 buf i) = length buf.
Proof. unfold unpack_step. now rewrite !upd_length. Qed.

Lemma unpack_length n (i8 : C) (buf : list C) l : length (fold_left (unpack_step ops n i8) l buf) = length buf.
Proof. apply fold_left_length. intros; apply unpack_step_length. Qed.

(** the invariant after processing [i = 0 .. k-1] *)
Definition unpack_inv (n h : nat) (i8 : C) (buf : list C) (k : nat) (u : list C) : Prop :=
  length u = n /\
  forall p, p < n -> nth p u (czero ops) =
    if p <? k then (if (p =? 0) || (p =? h) then conj ops (unpack_val n i8 buf p) else unpack_val n i8 buf p)
    else if n - k <? p then conj ops (unpack_val n i8 buf (n - p))
    else nth p buf (czero ops).

Lemma unpack_inv_step n h (i8 : C) (buf : list C) k u : 1 <= h -> n = 2 * h -> k <= h ->
  Nat.land (n - k) (n - 1) = (n - k) mod n ->
  unpack_inv n h i8 buf k u -> unpack_inv n h i8 buf (S k) (unpack_step ops n i8 u k).
Proof.
  intros Hh Hn Hk Hland [Hlen Hinv]. split; [now rewrite unpack_step_length|].
  intros p Hp. unfold unpack_step. rewrite Hland.
  assert (Hj : (n - k) mod n = if k =? 0 then 0 else n - k).
  { destruct (Nat.eqb_spec k 0) as [->|Hk0].
    - rewrite Nat.sub_0_r. apply Nat.mod_same. lia.
    - apply Nat.mod_small. lia. }
  assert (Hjn : (n - k) mod n < n) by (apply Nat.mod_upper_bound; lia).
  assert (Hrk : nth k u (czero ops) = nth k buf (czero ops)).
  { rewrite Hinv by lia. ltb_cases; try lia; reflexivity. }
  assert (Hrj : nth ((n - k) mod n) u (czero ops) = nth ((n - k) mod n) buf (czero ops)).
  { rewrite Hinv by exact Hjn. rewrite Hj. ltb_cases; try lia; reflexivity. }
  rewrite Hrk, Hrj.
  change (cmul ops (cmul ops (cadd ops (nth k buf (czero ops)) (conj ops (nth ((n - k) mod n) buf (czero ops))))
                            (csub ops (conj ops (nth ((n - k) mod n) buf (czero ops))) (nth k buf (czero ops)))) i8)
    with (unpack_val n i8 buf k).
  rewrite !nth_upd, upd_length, Hlen.
  destruct (Nat.eqb_spec p ((n - k) mod n)) as [Hpj|Hpj].
  - apply Nat.ltb_lt in Hjn. rewrite Hjn. cbn [andb].
    rewrite Hj in Hpj. destruct (Nat.eqb_spec k 0) as [Hk0|Hk0].
    + subst k p. ltb_cases; try lia; reflexivity.
    + destruct (Nat.eq_dec k h) as [Hkh|Hkh].
      * assert (Hpk : p = k) by lia. clear Hpj. subst p. ltb_cases; try lia; reflexivity.
      * replace k with (n - p) at 1 by lia.
        ltb_cases; try lia; reflexivity.
  - cbn [andb]. destruct (Nat.eqb_spec p k) as [Hpk|Hpk].
    + assert (Hkn : k <? n = true) by (apply Nat.ltb_lt; lia). rewrite Hkn. cbn [andb].
      subst p. rewrite Hj in Hpj. revert Hpj.
      ltb_cases; intros Hpj; try lia; reflexivity.
    + cbn [andb]. rewrite Hinv by exact Hp. rewrite Hj in Hpj. revert Hpj.
      ltb_cases; intros Hpj; try lia; reflexivity.
Qed.

Lemma unpack_inv_fold n h (i8 : C) (buf : list C) : 1 <= h -> n = 2 * h -> length buf = n ->
  (forall k, k <= h -> Nat.land (n - k) (n - 1) = (n - k) mod n) ->
  forall k, k <= h + 1 ->
  unpack_inv n h i8 buf k (fold_left (unpack_step ops n i8) (seq 0 k) buf).
Proof.
  intros Hh Hn Hlen Hland. induction k as [|k IH]; intros Hk.
  - cbn [seq fold_left]. split; [exact Hlen|]. intros p Hp.
    ltb_cases; try lia; reflexivity.
  - rewrite seq_S, fold_left_app. cbn [fold_left Nat.add].
    apply unpack_inv_step; try assumption; try lia.
    + apply Hland. lia.
    + apply IH. lia.
Qed.

Lemma unpack_closed m (i8 : C) (buf : list C) p : 1 <= m -> length buf = 2 ^ m -> p < 2 ^ m ->
  nth p (fold_left (unpack_step ops (2 ^ m) i8) (seq 0 (2 ^ m / 2 + 1)) buf) (czero ops) =
  if (p =? 0) || (p =? 2 ^ m / 2) then conj ops (unpack_val (2 ^ m) i8 buf p)
  else if p <? 2 ^ m / 2 then unpack_val (2 ^ m) i8 buf p
  else conj ops (unpack_val (2 ^ m) i8 buf (2 ^ m - p)).
Proof.
  intros Hm Hlen Hp.
  destruct m as [|m]; [lia|].
  pose proof (pow2_pos m) as Hpos.
  assert (Hn : 2 ^ S m = 2 * 2 ^ m) by apply Nat.pow_succ_r'.
  assert (Hhalf : 2 ^ S m / 2 = 2 ^ m).
  { rewrite Hn, Nat.mul_comm. apply Nat.div_mul. lia. }
  rewrite Hhalf.
  destruct (unpack_inv_fold (2 ^ S m) (2 ^ m) i8 buf Hpos Hn Hlen) with (k := 2 ^ m + 1) as [_ Hinv].
  - intros k Hk. apply land_mask. lia.
  - lia.
  - rewrite Hinv by exact Hp.
    ltb_cases; try lia; reflexivity.
Qed.

End Unpack.
