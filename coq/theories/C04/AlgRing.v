(** C04 — the lawful (exact) instance: scalars form a commutative ring in which 2 is invertible,
    complex numbers over it (the model's own [cadd]/[cmul]/...) form a commutative ring; finite
    sums, powers and the discrete Fourier transform as functions on indices. *)
From Coq Require Import List ZArith Lia Bool PeanoNat Ring.
From RlibV Require Import C04.Model.
Import ListNotations.
Open Scope nat_scope.

(** what the algebra theorem assumes about the scalar operations; [inr] = the integers the
    rounding step recovers exactly (all of Z for an exact field of characteristic 0, the symmetric
    residues for Z/p) *)
Record Lawful {F : Type} (ops : Ops F) (inr : Z -> Prop) : Prop := mkLawful {
  law_ring : ring_theory (fzero ops) (fone ops) (fadd ops) (fmul ops) (fsub ops) (fneg ops) eq;
  law_of_Z_1 : of_Z ops 1%Z = fone ops;
  law_of_Z_add : forall a b, of_Z ops (a + b)%Z = fadd ops (of_Z ops a) (of_Z ops b);
  law_of_Z_mul : forall a b, of_Z ops (a * b)%Z = fmul ops (of_Z ops a) (of_Z ops b);
  law_half : exists h, fmul ops (of_Z ops 2%Z) h = fone ops;
  (* division by a power of two is exact *)
  law_div : forall a k, fmul ops (fdiv ops a (of_Z ops (2 ^ Z.of_nat k)%Z)) (of_Z ops (2 ^ Z.of_nat k)%Z) = a;
  law_to_int : forall z, inr z -> to_int ops (of_Z ops z) = z
}.

Section Alg.
Context {F : Type} (ops : Ops F) (inr : Z -> Prop) (L : Lawful ops inr).

Declare Scope F_scope.
Delimit Scope F_scope with F.
Local Notation "0" := (fzero ops) : F_scope. Local Notation "1" := (fone ops) : F_scope.
Local Infix "+" := (fadd ops) : F_scope. Local Infix "*" := (fmul ops) : F_scope.
Local Infix "-" := (fsub ops) : F_scope. Local Notation "- x" := (fneg ops x) : F_scope.

Definition Fring := law_ring ops inr L.
Add Ring FringR : Fring.

Lemma of_Z_0 : (of_Z ops 0%Z = 0)%F.
Proof.
  pose proof (law_of_Z_add ops inr L 0 0) as H. cbn [Z.add] in H.
  assert (E : (of_Z ops 0%Z + 0 = of_Z ops 0%Z + of_Z ops 0%Z)%F) by (rewrite <- H; ring).
  assert (E' : (- of_Z ops 0%Z + (of_Z ops 0%Z + 0) = - of_Z ops 0%Z + (of_Z ops 0%Z + of_Z ops 0%Z))%F) by now rewrite E.
  ring_simplify in E'. now symmetry.
Qed.

Lemma of_Z_opp a : (of_Z ops (- a)%Z = - of_Z ops a)%F.
Proof.
  pose proof (law_of_Z_add ops inr L a (- a)) as H. rewrite Z.add_opp_diag_r, of_Z_0 in H.
  assert (E : (- of_Z ops a + 0 = - of_Z ops a + (of_Z ops a + of_Z ops (- a)%Z))%F) by now rewrite H.
  ring_simplify in E. now symmetry.
Qed.

(** ** complex numbers *)
Notation C := (C (F := F)).
Definition cneg (a : C) : C := (fneg ops (fst a), fneg ops (snd a)).
Definition cre (r : F) : C := (r, fzero ops).

Lemma C_ring : ring_theory (czero ops) (cone ops) (cadd ops) (cmul ops) (csub ops) cneg eq.
Proof.
  constructor; intros; try destruct x as [x1 x2]; try destruct y as [y1 y2]; try destruct z as [z1 z2];
    unfold cadd, cmul, csub, cneg, czero, cone; cbn [fst snd]; f_equal; ring.
Qed.
Add Ring CringR : C_ring.

Lemma conj_add a b : conj ops (cadd ops a b) = cadd ops (conj ops a) (conj ops b).
Proof. destruct a, b; unfold conj, cadd; cbn [fst snd]; f_equal; ring. Qed.
Lemma conj_sub a b : conj ops (csub ops a b) = csub ops (conj ops a) (conj ops b).
Proof. destruct a, b; unfold conj, csub; cbn [fst snd]; f_equal; ring. Qed.
Lemma conj_mul a b : conj ops (cmul ops a b) = cmul ops (conj ops a) (conj ops b).
Proof. destruct a, b; unfold conj, cmul; cbn [fst snd]; f_equal; ring. Qed.
Lemma conj_conj a : conj ops (conj ops a) = a.
Proof. destruct a; unfold conj; cbn [fst snd]; f_equal; ring. Qed.
Lemma conj_cre r : conj ops (cre r) = cre r.
Proof. unfold conj, cre; cbn [fst snd]; f_equal; ring. Qed.
Lemma conj_zero : conj ops (czero ops) = czero ops.
Proof. unfold conj, czero; cbn [fst snd]; f_equal; ring. Qed.
Lemma conj_one : conj ops (cone ops) = cone ops.
Proof. unfold conj, cone; cbn [fst snd]; f_equal; ring. Qed.
Lemma cscale_cre a r : cscale ops a r = cmul ops a (cre r).
Proof. destruct a; unfold cscale, cmul, cre; cbn [fst snd]; f_equal; ring. Qed.
Lemma ci_sq : cmul ops (ci ops) (ci ops) = cneg (cone ops).
Proof. unfold cmul, ci, cneg, cone; cbn [fst snd]; f_equal; ring. Qed.

(** ** powers and finite sums *)
Fixpoint cpow (a : C) (n : nat) : C :=
  match n with O => cone ops | S n' => cmul ops a (cpow a n') end.
Fixpoint csum (n : nat) (f : nat -> C) : C :=
  match n with O => czero ops | S n' => cadd ops (csum n' f) (f n') end.

(** the transform of the index function [x] of size [n] with root [w] *)
Definition dft (n : nat) (w : C) (x : nat -> C) (k : nat) : C :=
  csum n (fun j => cmul ops (x j) (cpow w (j * k))).

Lemma cpow_add a n m : cpow a (n + m) = cmul ops (cpow a n) (cpow a m).
Proof. induction n as [|n IH]; cbn [cpow Nat.add]; [ring|]. rewrite IH. ring. Qed.
Lemma cpow_mul a n m : cpow a (n * m) = cpow (cpow a n) m.
Proof.
  induction m as [|m IH]; [now rewrite Nat.mul_0_r|].
  rewrite Nat.mul_succ_r, Nat.add_comm, cpow_add, IH. reflexivity.
Qed.
Lemma cpow_one n : cpow (cone ops) n = cone ops.
Proof. induction n as [|n IH]; cbn [cpow]; [reflexivity|]. rewrite IH. ring. Qed.
Lemma cpow_mul_base a b n : cpow (cmul ops a b) n = cmul ops (cpow a n) (cpow b n).
Proof. induction n as [|n IH]; cbn [cpow]; [ring|]. rewrite IH. ring. Qed.
Lemma conj_cpow a n : conj ops (cpow a n) = cpow (conj ops a) n.
Proof. induction n as [|n IH]; cbn [cpow]; [apply conj_one|]. now rewrite conj_mul, IH. Qed.

Lemma csum_ext n f g : (forall i, i < n -> f i = g i) -> csum n f = csum n g.
Proof.
  induction n as [|n IH]; intros H; cbn [csum]; [reflexivity|].
  rewrite IH, H by (intros; auto with arith). reflexivity.
Qed.
Lemma csum_zero n : csum n (fun _ => czero ops) = czero ops.
Proof. induction n as [|n IH]; cbn [csum]; [reflexivity|]. rewrite IH. ring. Qed.
Lemma csum_add n f g : csum n (fun i => cadd ops (f i) (g i)) = cadd ops (csum n f) (csum n g).
Proof. induction n as [|n IH]; cbn [csum]; [ring|]. rewrite IH. ring. Qed.
Lemma csum_sub n f g : csum n (fun i => csub ops (f i) (g i)) = csub ops (csum n f) (csum n g).
Proof. induction n as [|n IH]; cbn [csum]; [ring|]. rewrite IH. ring. Qed.
Lemma csum_mul_l n c f : csum n (fun i => cmul ops c (f i)) = cmul ops c (csum n f).
Proof. induction n as [|n IH]; cbn [csum]; [ring|]. rewrite IH. ring. Qed.
Lemma csum_mul_r n c f : csum n (fun i => cmul ops (f i) c) = cmul ops (csum n f) c.
Proof. induction n as [|n IH]; cbn [csum]; [ring|]. rewrite IH. ring. Qed.
Lemma csum_app n m f : csum (n + m) f = cadd ops (csum n f) (csum m (fun i => f (n + i))).
Proof.
  induction m as [|m IH]; [rewrite Nat.add_0_r; cbn [csum]; ring|].
  rewrite Nat.add_succ_r. cbn [csum]. rewrite IH. ring.
Qed.
Lemma csum_swap n m (f : nat -> nat -> C) :
  csum n (fun i => csum m (fun j => f i j)) = csum m (fun j => csum n (fun i => f i j)).
Proof.
  induction n as [|n IH]; cbn [csum]; [now rewrite csum_zero|].
  rewrite IH, <- csum_add. reflexivity.
Qed.
Lemma csum_conj n f : conj ops (csum n f) = csum n (fun i => conj ops (f i)).
Proof. induction n as [|n IH]; cbn [csum]; [apply conj_zero|]. now rewrite conj_add, IH. Qed.
(** the even and the odd half of a sum of even length *)
Lemma csum_even_odd h f : csum (2 * h) f = cadd ops (csum h (fun s => f (2 * s))) (csum h (fun s => f (2 * s + 1))).
Proof.
  induction h as [|h IH]; [cbn [csum Nat.mul Nat.add]; ring|].
  replace (2 * S h) with (S (S (2 * h))) by lia. cbn [csum]. rewrite IH.
  replace (2 * h + 1) with (S (2 * h)) by lia. ring.
Qed.
(** a sum with a single non-zero term *)
Lemma csum_single n f k : k < n -> (forall i, i < n -> i <> k -> f i = czero ops) -> csum n f = f k.
Proof.
  induction n as [|n IH]; intros Hk H; [lia|]. cbn [csum].
  destruct (Nat.eq_dec k n) as [->|Hne].
  - rewrite (csum_ext n f (fun _ => czero ops)) by (intros i Hi; apply H; lia). rewrite csum_zero. ring.
  - rewrite IH by (try lia; intros i Hi Hik; apply H; lia). rewrite (H n) by lia. ring.
Qed.
End Alg.
