(** C04 — algebra of the discrete Fourier transform over a lawful scalar ring. *)
From Coq Require Import List ZArith Lia Bool PeanoNat Ring.
From RlibV Require Import C04.Model C04.AlgRing.
Import ListNotations.
Open Scope nat_scope.

Section DFT.
Context {F : Type} (ops : Ops F) (inr : Z -> Prop) (L : Lawful ops inr).

Add Ring FringR : (Fring ops inr L).
Add Ring CringR : (C_ring ops inr L).

Definition cnat (n : nat) : C := cre ops (of_Z ops (Z.of_nat n)).
Definition cyc (n : nat) (x y : nat -> C) (l : nat) : C :=
  csum ops n (fun i => cmul ops (x i) (y ((l + n - i) mod n))).
Definition zvec (a : list Z) (i : nat) : C := cre ops (of_Z ops (nth i a 0%Z)).

(** ** [cre] is a ring morphism *)
Lemma cre_add a b : cre ops (fadd ops a b) = cadd ops (cre ops a) (cre ops b).
Proof. unfold cre, cadd; cbn [fst snd]; f_equal; ring. Qed.
Lemma cre_mul a b : cre ops (fmul ops a b) = cmul ops (cre ops a) (cre ops b).
Proof. unfold cre, cmul; cbn [fst snd]; f_equal; ring. Qed.
Lemma cre_zero : cre ops (fzero ops) = czero ops.
Proof. reflexivity. Qed.
Lemma cre_one : cre ops (fone ops) = cone ops.
Proof. reflexivity. Qed.
Lemma cre_ofZ_add a b : cre ops (of_Z ops (a + b)%Z) = cadd ops (cre ops (of_Z ops a)) (cre ops (of_Z ops b)).
Proof. now rewrite (law_of_Z_add ops inr L), cre_add. Qed.
Lemma cre_ofZ_mul a b : cre ops (of_Z ops (a * b)%Z) = cmul ops (cre ops (of_Z ops a)) (cre ops (of_Z ops b)).
Proof. now rewrite (law_of_Z_mul ops inr L), cre_mul. Qed.
Lemma cre_ofZ_0 : cre ops (of_Z ops 0%Z) = czero ops.
Proof. now rewrite (of_Z_0 ops inr L). Qed.
Lemma cre_ofZ_1 : cre ops (of_Z ops 1%Z) = cone ops.
Proof. now rewrite (law_of_Z_1 ops inr L). Qed.

Lemma cnat_S n : cnat (S n) = cadd ops (cnat n) (cone ops).
Proof. unfold cnat. rewrite Nat2Z.inj_succ, <- Z.add_1_r, cre_ofZ_add, cre_ofZ_1. reflexivity. Qed.
Lemma cnat_0 : cnat 0 = czero ops.
Proof. apply cre_ofZ_0. Qed.
Lemma cnat_2 : cnat 2 = cadd ops (cone ops) (cone ops).
Proof. rewrite !cnat_S, cnat_0. ring. Qed.

Lemma csum_const_one n : csum ops n (fun _ => cone ops) = cnat n.
Proof.
  induction n as [|n IH]; cbn [csum]; [now rewrite cnat_0|].
  now rewrite IH, cnat_S.
Qed.

(** ** powers of -1 *)
Lemma cpow_2 w : cpow ops w 2 = cmul ops w w.
Proof. cbn [cpow]. ring. Qed.
Lemma cpow_neg_one_even d : cpow ops (cneg ops (cone ops)) (2 * d) = cone ops.
Proof.
  rewrite (cpow_mul ops inr L), cpow_2.
  replace (cmul ops (cneg ops (cone ops)) (cneg ops (cone ops))) with (cone ops) by ring.
  apply (cpow_one ops inr L).
Qed.
Lemma cpow_neg_one_odd d : cpow ops (cneg ops (cone ops)) (2 * d + 1) = cneg ops (cone ops).
Proof.
  rewrite (cpow_add ops inr L), cpow_neg_one_even. cbn [cpow]. ring.
Qed.

(** a geometric sum of even length in terms of its first half *)
Lemma csum_geom_half w d h :
  csum ops (h + h) (fun k => cpow ops w (d * k)) =
  cmul ops (cadd ops (cone ops) (cpow ops w (d * h))) (csum ops h (fun k => cpow ops w (d * k))).
Proof.
  rewrite (csum_app ops inr L).
  rewrite (csum_ext ops h (fun i => cpow ops w (d * (h + i)))
             (fun i => cmul ops (cpow ops w (d * h)) (cpow ops w (d * i)))).
  2:{ intros i _. rewrite Nat.mul_add_distr_l. apply (cpow_add ops inr L). }
  rewrite (csum_mul_l ops inr L). ring.
Qed.

Lemma orthogonality m w d :
  cpow ops w (2 ^ m) = cneg ops (cone ops) -> 0 < d < 2 ^ S m ->
  csum ops (2 ^ S m) (fun k => cpow ops w (d * k)) = czero ops.
Proof.
  revert w d. induction m as [|m IH]; intros w d Hw Hd.
  - assert (d = 1) by (cbn in Hd; lia). subst d.
    change (2 ^ 1) with (1 + 1). rewrite csum_geom_half.
    change (2 ^ 0) with 1 in Hw. rewrite Nat.mul_1_l, Hw. ring.
  - replace (2 ^ S (S m)) with (2 ^ S m + 2 ^ S m) by (cbn [Nat.pow]; lia).
    destruct (Nat.even d) eqn:Ev.
    + apply Nat.even_spec in Ev. destruct Ev as [d' ->].
      assert (Hd' : 0 < d' < 2 ^ S m) by (cbn [Nat.pow] in *; lia).
      assert (Hww : cpow ops (cmul ops w w) (2 ^ m) = cneg ops (cone ops)).
      { rewrite <- cpow_2, <- (cpow_mul ops inr L).
        replace (2 * 2 ^ m) with (2 ^ S m) by (cbn [Nat.pow]; lia). exact Hw. }
      rewrite (csum_ext ops _ (fun k => cpow ops w (2 * d' * k))
                 (fun k => cpow ops (cmul ops w w) (d' * k))).
      2:{ intros k _. rewrite <- cpow_2, <- (cpow_mul ops inr L). f_equal. lia. }
      rewrite csum_geom_half, (IH _ _ Hww Hd'). ring.
    + assert (Od : Nat.odd d = true) by (unfold Nat.odd; now rewrite Ev).
      apply Nat.odd_spec in Od. destruct Od as [d' ->].
      rewrite csum_geom_half.
      replace ((2 * d' + 1) * 2 ^ S m) with (2 ^ S m * (2 * d' + 1)) by lia.
      rewrite (cpow_mul ops inr L), Hw, cpow_neg_one_odd. ring.
Qed.

(** ** inverse transform *)
Lemma cpow_inv_neg_one w winv h :
  cmul ops w winv = cone ops -> cpow ops w h = cneg ops (cone ops) -> cpow ops winv h = cneg ops (cone ops).
Proof.
  intros Hi Hw.
  assert (E : cmul ops (cpow ops w h) (cpow ops winv h) = cone ops).
  { rewrite <- (cpow_mul_base ops inr L), Hi. apply (cpow_one ops inr L). }
  rewrite Hw in E.
  replace (cpow ops winv h) with
    (cmul ops (cneg ops (cone ops)) (cmul ops (cneg ops (cone ops)) (cpow ops winv h))) by ring.
  rewrite E. ring.
Qed.

Lemma cpow_inv_cancel w winv n : cmul ops w winv = cone ops -> cmul ops (cpow ops w n) (cpow ops winv n) = cone ops.
Proof. intros Hi. rewrite <- (cpow_mul_base ops inr L), Hi. apply (cpow_one ops inr L). Qed.

Lemma dft_inverse m w winv x l :
  cmul ops w winv = cone ops -> cpow ops w (2 ^ m) = cneg ops (cone ops) -> l < 2 ^ S m ->
  dft ops (2 ^ S m) winv (dft ops (2 ^ S m) w x) l = cmul ops (cnat (2 ^ S m)) (x l).
Proof.
  intros Hi Hw Hl.
  pose proof (cpow_inv_neg_one w winv _ Hi Hw) as Hwi.
  set (n := 2 ^ S m) in *.
  unfold dft.
  rewrite (csum_ext ops n _ (fun j => csum ops n (fun i =>
             cmul ops (cmul ops (x i) (cpow ops w (i * j))) (cpow ops winv (j * l))))).
  2:{ intros j _. now rewrite (csum_mul_r ops inr L). }
  rewrite (csum_swap ops inr L).
  rewrite (csum_ext ops n _ (fun i => cmul ops (x i)
             (csum ops n (fun j => cmul ops (cpow ops w (i * j)) (cpow ops winv (j * l)))))).
  2:{ intros i _. rewrite <- (csum_mul_l ops inr L). apply (csum_ext ops). intros j _. ring. }
  rewrite (csum_single ops inr L n _ l Hl).
  - rewrite (csum_ext ops n _ (fun _ => cone ops)).
    2:{ intros j _. rewrite (Nat.mul_comm j l). now apply cpow_inv_cancel. }
    rewrite csum_const_one. ring.
  - intros i Hin Hil.
    assert (Hz : csum ops n (fun j => cmul ops (cpow ops w (i * j)) (cpow ops winv (j * l))) = czero ops).
    { destruct (Nat.lt_ge_cases l i) as [Hlt|Hge].
      - rewrite (csum_ext ops n _ (fun j => cpow ops w ((i - l) * j))).
        2:{ intros j _. replace (i * j) with ((i - l) * j + l * j) by nia.
            rewrite (cpow_add ops inr L), (Nat.mul_comm j l).
            pose proof (cpow_inv_cancel w winv (l * j) Hi) as E.
            transitivity (cmul ops (cpow ops w ((i - l) * j))
                            (cmul ops (cpow ops w (l * j)) (cpow ops winv (l * j)))); [ring|].
            rewrite E. ring. }
        apply orthogonality; [exact Hw|]. fold n. lia.
      - rewrite (csum_ext ops n _ (fun j => cpow ops winv ((l - i) * j))).
        2:{ intros j _. replace (j * l) with ((l - i) * j + i * j) by nia.
            rewrite (cpow_add ops inr L).
            pose proof (cpow_inv_cancel w winv (i * j) Hi) as E.
            transitivity (cmul ops (cpow ops winv ((l - i) * j))
                            (cmul ops (cpow ops w (i * j)) (cpow ops winv (i * j)))); [ring|].
            rewrite E. ring. }
        apply orthogonality; [exact Hwi|]. fold n. lia. }
    rewrite Hz. ring.
Qed.

(** ** cyclic convolution theorem *)
Lemma csum_shift1 n (f : nat -> C) :
  cadd ops (csum ops n (fun l => f (S l))) (f 0) = cadd ops (csum ops n f) (f n).
Proof.
  induction n as [|n IH]; cbn [csum]; [ring|].
  transitivity (cadd ops (cadd ops (csum ops n (fun l => f (S l))) (f 0)) (f (S n))); [ring|].
  rewrite IH. ring.
Qed.
Lemma csum_shift_periodic n (f : nat -> C) s :
  (forall j, f (j + n) = f j) -> csum ops n (fun l => f (l + s)) = csum ops n f.
Proof.
  intros Hp. induction s as [|s IH].
  - apply (csum_ext ops). intros l _. now rewrite Nat.add_0_r.
  - rewrite <- IH.
    pose proof (csum_shift1 n (fun l => f (l + s))) as E. cbn beta in E.
    rewrite (Nat.add_comm n s), Hp, Nat.add_0_l in E.
    rewrite (csum_ext ops n (fun l => f (l + S s)) (fun l => f (S l + s))).
    2:{ intros l _. f_equal. lia. }
    set (A := csum ops n (fun l => f (S l + s))) in *.
    set (B := csum ops n (fun l => f (l + s))) in *.
    transitivity (csub ops (cadd ops A (f s)) (f s)); [ring|]. rewrite E. ring.
Qed.

Lemma cpow_period w n a : cpow ops w n = cone ops -> cpow ops w (n * a) = cone ops.
Proof. intros H. rewrite (cpow_mul ops inr L), H. apply (cpow_one ops inr L). Qed.

Lemma csum_reindex n w (g : nat -> C) i k :
  0 < n -> cpow ops w n = cone ops -> i < n ->
  csum ops n (fun l => cmul ops (g ((l + n - i) mod n)) (cpow ops w (l * k))) =
  cmul ops (cpow ops w (i * k)) (csum ops n (fun j => cmul ops (g j) (cpow ops w (j * k)))).
Proof.
  intros Hn Hw Hi.
  set (f := fun j => cmul ops (g (j mod n)) (cpow ops w (j * k))).
  assert (Hp : forall j, f (j + n) = f j).
  { intros j. unfold f. replace (j + n) with (j + 1 * n) at 1 by lia.
    rewrite Nat.mod_add by lia. rewrite Nat.mul_add_distr_r, (cpow_add ops inr L), (cpow_period w n k Hw). ring. }
  rewrite <- (csum_mul_l ops inr L).
  rewrite (csum_ext ops n (fun j => cmul ops (cpow ops w (i * k)) (cmul ops (g j) (cpow ops w (j * k))))
             (fun j => cmul ops (cpow ops w (i * k)) (f j))).
  2:{ intros j Hj. unfold f. now rewrite Nat.mod_small. }
  rewrite (csum_mul_l ops inr L), <- (csum_shift_periodic n f (n - i) Hp), <- (csum_mul_l ops inr L).
  apply (csum_ext ops). intros l Hl. unfold f.
  replace (l + (n - i)) with (l + n - i) by lia.
  transitivity (cmul ops (g ((l + n - i) mod n)) (cmul ops (cpow ops w (i * k)) (cpow ops w ((l + n - i) * k)))); [|ring].
  rewrite <- (cpow_add ops inr L).
  replace (i * k + (l + n - i) * k) with (l * k + n * k) by nia.
  rewrite (cpow_add ops inr L), (cpow_period w n k Hw). ring.
Qed.

Lemma dft_convolution n w x y k :
  0 < n -> cpow ops w n = cone ops ->
  cmul ops (dft ops n w x k) (dft ops n w y k) = dft ops n w (cyc n x y) k.
Proof.
  intros Hn Hw. unfold dft, cyc.
  rewrite (csum_ext ops n (fun j => cmul ops (csum ops n (fun i => cmul ops (x i) (y ((j + n - i) mod n)))) (cpow ops w (j * k)))
             (fun j => csum ops n (fun i => cmul ops (x i) (cmul ops (y ((j + n - i) mod n)) (cpow ops w (j * k)))))).
  2:{ intros j _. rewrite <- (csum_mul_r ops inr L). apply (csum_ext ops). intros i _. ring. }
  rewrite (csum_swap ops inr L).
  rewrite (csum_ext ops n (fun i => csum ops n (fun j => cmul ops (x i) (cmul ops (y ((j + n - i) mod n)) (cpow ops w (j * k)))))
             (fun i => cmul ops (cmul ops (x i) (cpow ops w (i * k)))
                                        (csum ops n (fun j => cmul ops (y j) (cpow ops w (j * k)))))).
  2:{ intros i Hi. rewrite (csum_mul_l ops inr L), (csum_reindex n w y i k Hn Hw Hi). ring. }
  now rewrite (csum_mul_r ops inr L).
Qed.

(** ** conjugate symmetry of the transform of a real vector *)
Lemma dft_conj_sym n w winv (r : nat -> F) k e :
  cmul ops w winv = cone ops -> conj ops w = winv -> cpow ops w n = cone ops ->
  (k + e = n \/ (k = 0 /\ e = 0)) ->
  conj ops (dft ops n w (fun j => cre ops (r j)) k) = dft ops n w (fun j => cre ops (r j)) e.
Proof.
  intros Hi Hc Hw Hke. unfold dft. rewrite (csum_conj ops inr L).
  apply (csum_ext ops). intros j _.
  rewrite (conj_mul ops inr L), (conj_cre ops inr L), (conj_cpow ops inr L), Hc. f_equal.
  destruct Hke as [Hke|[-> ->]]; [|now rewrite Nat.mul_0_r].
  pose proof (cpow_inv_cancel w winv (j * k) Hi) as E.
  assert (E2 : cmul ops (cpow ops w (j * e)) (cpow ops w (j * k)) = cone ops).
  { rewrite <- (cpow_add ops inr L). replace (j * e + j * k) with (n * j) by nia. now apply cpow_period. }
  transitivity (cmul ops (cpow ops winv (j * k)) (cmul ops (cpow ops w (j * e)) (cpow ops w (j * k)))).
  - rewrite E2. ring.
  - transitivity (cmul ops (cpow ops w (j * e)) (cmul ops (cpow ops w (j * k)) (cpow ops winv (j * k)))); [ring|].
    rewrite E. ring.
Qed.

(** ** one radix-2 splitting step *)
Lemma dft_even_odd h w c i :
  cpow ops w h = cneg ops (cone ops) ->
  cadd ops (dft ops (2 * h) w c i) (dft ops (2 * h) w c (i + h)) =
    cmul ops (cnat 2) (dft ops h (cmul ops w w) (fun s => c (2 * s)) i) /\
  csub ops (dft ops (2 * h) w c i) (dft ops (2 * h) w c (i + h)) =
    cmul ops (cnat 2) (cmul ops (cpow ops w i) (dft ops h (cmul ops w w) (fun s => c (2 * s + 1)) i)).
Proof.
  intros Hw. unfold dft. rewrite !(csum_even_odd ops inr L), cnat_2.
  set (E := csum ops h (fun s => cmul ops (c (2 * s)) (cpow ops w (2 * s * i)))).
  set (O := csum ops h (fun s => cmul ops (c (2 * s + 1)) (cpow ops w ((2 * s + 1) * i)))).
  assert (HE : csum ops h (fun s => cmul ops (c (2 * s)) (cpow ops w (2 * s * (i + h)))) = E).
  { apply (csum_ext ops). intros s _. f_equal.
    replace (2 * s * (i + h)) with (2 * s * i + h * (2 * s)) by nia.
    rewrite (cpow_add ops inr L), (cpow_mul ops inr L _ h), Hw, cpow_neg_one_even. ring. }
  assert (HO : csum ops h (fun s => cmul ops (c (2 * s + 1)) (cpow ops w ((2 * s + 1) * (i + h)))) = cneg ops O).
  { transitivity (cmul ops (cneg ops (cone ops)) O); [|ring]. unfold O.
    rewrite <- (csum_mul_l ops inr L). apply (csum_ext ops). intros s _.
    replace ((2 * s + 1) * (i + h)) with ((2 * s + 1) * i + h * (2 * s + 1)) by nia.
    rewrite (cpow_add ops inr L), (cpow_mul ops inr L _ h), Hw, cpow_neg_one_odd. ring. }
  assert (HE' : csum ops h (fun j => cmul ops (c (2 * j)) (cpow ops (cmul ops w w) (j * i))) = E).
  { apply (csum_ext ops). intros s _. f_equal.
    rewrite <- cpow_2, <- (cpow_mul ops inr L). f_equal. lia. }
  assert (HO' : cmul ops (cpow ops w i) (csum ops h (fun j => cmul ops (c (2 * j + 1)) (cpow ops (cmul ops w w) (j * i)))) = O).
  { rewrite <- (csum_mul_l ops inr L). apply (csum_ext ops). intros s _.
    rewrite <- cpow_2, <- (cpow_mul ops inr L).
    replace ((2 * s + 1) * i) with (i + 2 * (s * i)) by nia.
    rewrite (cpow_add ops inr L). ring. }
  rewrite HE, HO, HE', HO'. split; ring.
Qed.

(** ** the cyclic convolution of zero-padded integer vectors is the integer convolution *)
Lemma fold_add_acc (l : list Z) c : (fold_right Z.add c l = fold_right Z.add 0 l + c)%Z.
Proof. induction l as [|a l IH]; cbn [fold_right]; [lia|]. rewrite IH. lia. Qed.
Lemma fold_add_zero (t : nat -> Z) l : (forall i, In i l -> t i = 0%Z) -> fold_right Z.add 0%Z (map t l) = 0%Z.
Proof.
  induction l as [|a l IH]; intros H; cbn [map fold_right]; [reflexivity|].
  rewrite IH by (intros; apply H; cbn; auto). rewrite (H a) by (cbn; auto). reflexivity.
Qed.
Lemma csum_cre_ofZ k (t : nat -> Z) :
  csum ops k (fun i => cre ops (of_Z ops (t i))) = cre ops (of_Z ops (fold_right Z.add 0%Z (map t (seq 0 k)))).
Proof.
  induction k as [|k IH]; cbn [csum]; [cbn; now rewrite cre_ofZ_0|].
  rewrite seq_S, map_app, fold_right_app. cbn [map fold_right Nat.add].
  rewrite fold_add_acc, Z.add_0_r, cre_ofZ_add, IH. reflexivity.
Qed.
Lemma zvec_overflow a i : length a <= i -> zvec a i = czero ops.
Proof. intros H. unfold zvec. rewrite nth_overflow by exact H. apply cre_ofZ_0. Qed.

Lemma cyc_conv a b n l :
  a <> [] -> b <> [] -> length a + length b - 1 <= n -> l < n ->
  cyc n (zvec a) (zvec b) l =
  cre ops (of_Z ops (if l <? length a + length b - 1 then conv_coef a b l else 0%Z)).
Proof.
  intros Ha Hb Hn Hl.
  assert (Hla : 0 < length a) by (destruct a; [congruence|cbn; lia]).
  assert (Hlb : 0 < length b) by (destruct b; [congruence|cbn; lia]).
  set (t := fun i => if (i <=? l) && (l - i <? length b) then (nth i a 0 * nth (l - i) b 0)%Z else 0%Z).
  assert (Hc : cyc n (zvec a) (zvec b) l = cre ops (of_Z ops (conv_coef a b l))).
  { unfold cyc, conv_coef. fold t.
    replace n with (length a + (n - length a)) at 1 by lia.
    rewrite (csum_app ops inr L).
    rewrite (csum_ext ops (n - length a) _ (fun _ => czero ops)).
    2:{ intros i _. rewrite zvec_overflow by lia. ring. }
    rewrite (csum_zero ops inr L), <- csum_cre_ofZ.
    transitivity (csum ops (length a) (fun i => cmul ops (zvec a i) (zvec b ((l + n - i) mod n)))); [ring|].
    apply (csum_ext ops). intros i Hi. unfold t.
    destruct (Nat.leb_spec i l) as [Hil|Hil]; cbn [andb].
    - replace ((l + n - i) mod n) with (l - i).
      2:{ replace (l + n - i) with (l - i + 1 * n) by lia. rewrite Nat.mod_add by lia.
          symmetry. apply Nat.mod_small. lia. }
      destruct (Nat.ltb_spec (l - i) (length b)) as [Hb'|Hb'].
      + unfold zvec. now rewrite cre_ofZ_mul.
      + rewrite (zvec_overflow b) by exact Hb'. rewrite cre_ofZ_0. ring.
    - rewrite Nat.mod_small by lia. rewrite (zvec_overflow b) by lia. rewrite cre_ofZ_0. ring. }
  rewrite Hc. destruct (Nat.ltb_spec l (length a + length b - 1)) as [Hlt|Hge]; [reflexivity|].
  do 2 f_equal. unfold conv_coef. apply fold_add_zero. intros i Hin. apply in_seq in Hin.
  destruct (Nat.leb_spec i l) as [Hil|Hil]; cbn [andb]; [|reflexivity].
  destruct (Nat.ltb_spec (l - i) (length b)) as [Hb'|Hb']; [lia|reflexivity].
Qed.
End DFT.
