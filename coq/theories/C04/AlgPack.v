(** C04 — algebra of the two-real-vectors-in-one-complex-transform packing used by
    [multiply_into]: cancellation of 2, the eighth, the unpacking identity, scaling by 1/n,
    linearity of the transform and the half-size step. *)
From Coq Require Import List ZArith Lia Bool PeanoNat Ring.
From RlibV Require Import C04.Model C04.AlgRing C04.AlgDFT.
Import ListNotations.
Open Scope nat_scope.

Section Pack.
Context {F : Type} (ops : Ops F) (inr : Z -> Prop) (L : Lawful ops inr).

Add Ring FringR : (Fring ops inr L).
Add Ring CringR : (C_ring ops inr L).

(** ** cancellation of 2 *)
Lemma cre_inv_l e d z : fmul ops e d = fone ops -> cmul ops (cre ops d) (cmul ops (cre ops e) z) = z.
Proof.
  intros H. destruct z as [z1 z2]. unfold cre, cmul; cbn [fst snd]. f_equal.
  - transitivity (fmul ops (fmul ops e d) z1); [ring|]. rewrite H. ring.
  - transitivity (fmul ops (fmul ops e d) z2); [ring|]. rewrite H. ring.
Qed.

Lemma cnat2_cancel x y : cmul ops (cnat ops 2) x = cmul ops (cnat ops 2) y -> x = y.
Proof.
  intros E. destruct (law_half ops inr L) as [h Hh].
  unfold cnat in E. change (Z.of_nat 2) with 2%Z in E.
  rewrite <- (cre_inv_l _ h x Hh), <- (cre_inv_l _ h y Hh). now rewrite E.
Qed.

(** ** the eighth *)
Lemma cnat_8 : cnat ops 8 = cmul ops (cnat ops 2) (cmul ops (cnat ops 2) (cnat ops 2)).
Proof.
  unfold cnat. change (Z.of_nat 8) with (2 * (2 * 2))%Z. change (Z.of_nat 2) with 2%Z.
  now rewrite !(cre_ofZ_mul ops inr L).
Qed.

Lemma i8_times_8 : cmul ops (cdivr ops (ci ops) (of_Z ops 8%Z)) (cnat ops 8) = ci ops.
Proof.
  pose proof (law_div ops inr L (fzero ops) 3) as H0.
  pose proof (law_div ops inr L (fone ops) 3) as H1.
  change (2 ^ Z.of_nat 3)%Z with 8%Z in H0, H1.
  unfold cdivr, ci, cnat, cre, cmul; cbn [fst snd]. change (Z.of_nat 8) with 8%Z.
  set (e := of_Z ops 8%Z) in *. set (d0 := fdiv ops (fzero ops) e) in *. set (d1 := fdiv ops (fone ops) e) in *.
  f_equal.
  - transitivity (fmul ops d0 e); [ring|exact H0].
  - transitivity (fmul ops d1 e); [ring|exact H1].
Qed.

(** ** the unpacking identity *)
Lemma unpack_identity A B :
  let Zk := cadd ops A (cmul ops (ci ops) B) in
  let cZj := csub ops A (cmul ops (ci ops) B) in
  cmul ops (cnat ops 2) (cmul ops (cmul ops (cadd ops Zk cZj) (csub ops cZj Zk)) (cdivr ops (ci ops) (of_Z ops 8%Z)))
  = cmul ops A B.
Proof.
  intros Zk cZj. apply cnat2_cancel, cnat2_cancel.
  pose proof i8_times_8 as H8. rewrite cnat_8 in H8.
  pose proof (ci_sq ops inr L) as Hi.
  subst Zk cZj.
  set (I8 := cdivr ops (ci ops) (of_Z ops 8%Z)) in *. set (i := ci ops) in *. set (two := cnat ops 2) in *.
  transitivity (cmul ops (cmul ops (cadd ops (cadd ops A (cmul ops i B)) (csub ops A (cmul ops i B)))
                                   (csub ops (csub ops A (cmul ops i B)) (cadd ops A (cmul ops i B))))
                         (cmul ops I8 (cmul ops two (cmul ops two two)))); [ring|].
  rewrite H8.
  transitivity (cmul ops (cneg ops (cmul ops (cadd ops (cone ops) (cone ops)) (cmul ops (cadd ops (cone ops) (cone ops)) (cmul ops A B))))
                         (cmul ops i i)); [ring|].
  rewrite Hi. subst two. rewrite (cnat_2 ops inr L). ring.
Qed.

(** ** scaling by 1/n *)
Lemma scale_inv m x :
  cscale ops (cmul ops (cnat ops (2 ^ m)) x) (fdiv ops (fone ops) (of_Z ops (Z.of_nat (2 ^ m)))) = x.
Proof.
  rewrite (cscale_cre ops inr L). unfold cnat. rewrite Nat2Z.inj_pow. change (Z.of_nat 2) with 2%Z.
  pose proof (law_div ops inr L (fone ops) m) as H.
  set (e := of_Z ops (2 ^ Z.of_nat m)%Z) in *. set (d := fdiv ops (fone ops) e) in *.
  destruct x as [x1 x2]. unfold cre, cmul; cbn [fst snd]. f_equal.
  - transitivity (fmul ops (fmul ops d e) x1); [ring|]. rewrite H. ring.
  - transitivity (fmul ops (fmul ops d e) x2); [ring|]. rewrite H. ring.
Qed.

Lemma scale_half x : cscale ops (cmul ops (cnat ops 2) x) (fdiv ops (fone ops) (of_Z ops 2%Z)) = x.
Proof. exact (scale_inv 1 x). Qed.

(** ** linearity of the transform *)
Lemma dft_lin n w x y c k :
  dft ops n w (fun j => cadd ops (x j) (cmul ops c (y j))) k
  = cadd ops (dft ops n w x k) (cmul ops c (dft ops n w y k)).
Proof.
  unfold dft. rewrite <- (csum_mul_l ops inr L), <- (csum_add ops inr L).
  apply (csum_ext ops). intros j _. ring.
Qed.

(** ** the half-size step *)
Lemma half_step h w c i tau :
  cpow ops w h = cneg ops (cone ops) ->
  cmul ops tau (cpow ops w i) = cneg ops (ci ops) ->
  let P := dft ops (2 * h) w c in
  csub ops (cadd ops (P i) (P (i + h))) (cmul ops (csub ops (P i) (P (i + h))) tau)
  = cmul ops (cnat ops 2)
      (dft ops h (cmul ops w w) (fun s => cadd ops (c (2 * s)) (cmul ops (ci ops) (c (2 * s + 1)))) i).
Proof.
  intros Hw Ht P. subst P.
  destruct (dft_even_odd ops inr L h w c i Hw) as [H1 H2].
  rewrite H1, H2, dft_lin.
  set (E := dft ops h (cmul ops w w) (fun s => c (2 * s)) i).
  set (O := dft ops h (cmul ops w w) (fun s => c (2 * s + 1)) i).
  set (two := cnat ops 2). set (wi := cpow ops w i) in *.
  transitivity (csub ops (cmul ops two E) (cmul ops two (cmul ops (cmul ops tau wi) O))); [ring|].
  rewrite Ht. ring.
Qed.

(** ** complex numbers with integer parts *)
Lemma cre_pair x y :
  cadd ops (cre ops (of_Z ops x)) (cmul ops (ci ops) (cre ops (of_Z ops y))) = (of_Z ops x, of_Z ops y).
Proof. unfold cadd, cmul, cre, ci; cbn [fst snd]. f_equal; ring. Qed.

Lemma pack_pair x y :
  (of_Z ops x, of_Z ops y) = cadd ops (cre ops (of_Z ops x)) (cmul ops (ci ops) (cre ops (of_Z ops y))).
Proof. symmetry. apply cre_pair. Qed.

Lemma conj_ci : conj ops (ci ops) = cneg ops (ci ops).
Proof. unfold conj, ci, cneg; cbn [fst snd]. f_equal; ring. Qed.

Lemma conj_packed A B A' B' :
  conj ops A' = A -> conj ops B' = B ->
  conj ops (cadd ops A' (cmul ops (ci ops) B')) = csub ops A (cmul ops (ci ops) B).
Proof.
  intros <- <-. rewrite (conj_add ops inr L), (conj_mul ops inr L), conj_ci. ring.
Qed.

End Pack.
