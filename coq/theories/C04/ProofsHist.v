(** C04 — history independence: the outputs do not depend on which reachable state the object
    is in (plan-table reuse through a stride).  Holds for every [Ops] and oracle. *)
From Coq Require Import List ZArith Lia Bool PeanoNat.
From RlibV Require Import C04.Model C04.ProofsBasic C04.ProofsState.
Import ListNotations.
Open Scope nat_scope.

Lemma div_pow2 a b : a <= b -> 2 ^ b / 2 ^ a = 2 ^ (b - a).
Proof.
  intros H. rewrite (pow2_split a b H), Nat.mul_comm, Nat.div_mul; [reflexivity|].
  pose proof (pow2_pos a). lia.
Qed.

Section Hist.
Context {F : Type} (ops : Ops F) (tw : nat -> nat -> C (F := F)).
Notation st := (st (F := F)).
Notation czero := (czero ops).
Notation good := (good ops tw).

Lemma fft_internal_eta (s : st) v inv :
  fft_internal ops tw s v inv = (update_n ops tw s (length v), snd (fft_internal ops tw s v inv)).
Proof. reflexivity. Qed.

Lemma level_ext w w' inv M M' n ln (v : list C) : 0 < ln ->
  (forall j, j < ln -> nth (widx inv M (M / (2 * ln)) j) w czero = nth (widx inv M' (M' / (2 * ln)) j) w' czero) ->
  level ops w inv M n ln v = level ops w' inv M' n ln v.
Proof.
  intros Hln H. unfold level. apply map_ext_in. intros k _.
  pose proof (Nat.mod_upper_bound k (2 * ln) ltac:(lia)) as Hm.
  destruct (k mod (2 * ln) <? ln) eqn:E.
  - apply Nat.ltb_lt in E. now rewrite H.
  - apply Nat.ltb_ge in E. rewrite H by lia. reflexivity.
Qed.

Lemma levels_ext w w' inv M M' m fuel : forall t (v : list C),
  (forall t', t <= t' < m -> forall j, j < 2 ^ t' ->
     nth (widx inv M (M / (2 * 2 ^ t')) j) w czero = nth (widx inv M' (M' / (2 * 2 ^ t')) j) w' czero) ->
  levels ops fuel w inv M (2 ^ m) (2 ^ t) v = levels ops fuel w' inv M' (2 ^ m) (2 ^ t) v.
Proof.
  induction fuel as [|f IH]; intros t v H; cbn [levels]; [reflexivity|].
  destruct (2 ^ t <? 2 ^ m) eqn:E; [|reflexivity].
  apply Nat.ltb_lt, pow2_lt_inv in E.
  rewrite (level_ext w w' inv M M' (2 ^ m) (2 ^ t) v); [| pose proof (pow2_pos t); lia | apply H; lia].
  rewrite <- Nat.pow_succ_r'. apply IH. intros t' Ht'. apply H. lia.
Qed.

(** the twiddle cells read by a transform of size 2^m, seen from two objects of sizes 2^K <= 2^K' *)
Lemma widx_stride K K' (s s' : st) inv m t j :
  good K s -> good K' s' -> K <= K' -> m <= K -> t < m -> j < 2 ^ t ->
  nth (widx inv (2 ^ K) (2 ^ K / (2 * 2 ^ t)) j) (W s) czero =
  nth (widx inv (2 ^ K') (2 ^ K' / (2 * 2 ^ t)) j) (W s') czero.
Proof.
  intros Hg Hg' HK Hm Ht Hj. rewrite <- !Nat.pow_succ_r', !div_pow2 by lia.
  set (q := 2 ^ (K - S t)).
  assert (Hq' : 2 ^ (K' - S t) = q * 2 ^ (K' - K)).
  { unfold q. rewrite <- Nat.pow_add_r. f_equal. lia. }
  assert (HKq : 2 ^ K = 2 ^ S t * q) by (unfold q; apply pow2_split; lia).
  assert (HK' : 2 ^ K' = 2 ^ K * 2 ^ (K' - K)) by (apply pow2_split; lia).
  assert (Hjq : j * q <= 2 ^ K).
  { rewrite HKq, Nat.pow_succ_r'. pose proof (pow2_pos t). nia. }
  symmetry. unfold widx. destruct inv.
  - rewrite Hq', HK'. replace (2 ^ K * 2 ^ (K' - K) - j * (q * 2 ^ (K' - K))) with ((2 ^ K - j * q) * 2 ^ (K' - K))
      by (rewrite Nat.mul_sub_distr_r; lia).
    apply (table_stride ops tw K K' s s'); try assumption. lia.
  - rewrite Hq'. replace (j * (q * 2 ^ (K' - K))) with (j * q * 2 ^ (K' - K)) by lia.
    apply (table_stride ops tw K K' s s'); assumption.
Qed.

Lemma swaps_stride K K' (s s' : st) m (v : list C) :
  good K s -> good K' s' -> K <= K' -> m <= K ->
  bitrev_swaps ops (R s) (K - m) (2 ^ m) v = bitrev_swaps ops (R s') (K' - m) (2 ^ m) v.
Proof.
  intros Hg Hg' HK Hm. unfold bitrev_swaps. apply fold_left_ext_in. intros u i Hi. apply in_seq in Hi.
  pose proof (pow2_le m K Hm). pose proof (pow2_pos m).
  unfold swap_step. rewrite !Nat.shiftr_div_pow2.
  rewrite <- (rev_stride ops tw K K' s s' i Hg Hg' HK) by lia.
  rewrite Nat.div_div; try (pose proof (pow2_pos (K' - K)); pose proof (pow2_pos (K - m)); lia).
  rewrite <- Nat.pow_add_r. replace (K' - K + (K - m)) with (K' - m) by lia. reflexivity.
Qed.

(** Lemma A: a transform of size 2^m gives the same vector on any two good states *)
Lemma fft_internal_indep_le K K' (s s' : st) m (v : list C) inv :
  good K s -> good K' s' -> K <= K' -> length v = 2 ^ m ->
  snd (fft_internal ops tw s v inv) = snd (fft_internal ops tw s' v inv).
Proof.
  intros Hg Hg' HK Hv. unfold fft_internal. cbn [snd]. rewrite Hv.
  pose proof (update_n_good ops tw K m s Hg) as H1.
  pose proof (update_n_good ops tw K' m s' Hg') as H1'.
  set (s1 := update_n ops tw s (2 ^ m)) in *. set (s1' := update_n ops tw s' (2 ^ m)) in *.
  rewrite (good_len_R ops tw _ _ H1), (good_len_R ops tw _ _ H1'), !Nat.log2_pow2 by lia.
  set (K1 := Nat.max K m) in *. set (K1' := Nat.max K' m) in *.
  assert (HK1 : K1 <= K1') by lia. assert (Hm1 : m <= K1) by lia.
  rewrite (swaps_stride K1 K1' s1 s1' m v H1 H1' HK1 Hm1).
  set (u := bitrev_swaps ops (R s1') (K1' - m) (2 ^ m) v).
  assert (HL : levels ops (S m) (W s1) inv (2 ^ K1) (2 ^ m) 1 u = levels ops (S m) (W s1') inv (2 ^ K1') (2 ^ m) 1 u).
  { change 1 with (2 ^ 0). apply levels_ext. intros t' Ht' j Hj.
    apply (widx_stride K1 K1' s1 s1' inv m t' j); try assumption; lia. }
  rewrite HL. reflexivity.
Qed.

Lemma fft_internal_indep K K' (s s' : st) m (v : list C) inv :
  good K s -> good K' s' -> length v = 2 ^ m ->
  snd (fft_internal ops tw s v inv) = snd (fft_internal ops tw s' v inv).
Proof.
  intros Hg Hg' Hv. destruct (Nat.le_ge_cases K K') as [H|H].
  - now apply (fft_internal_indep_le K K' s s' m).
  - symmetry. now apply (fft_internal_indep_le K' K s' s m).
Qed.

(** the cell [w[start - step * i]] of the half-size step *)
Lemma half_idx_stride K K' (s s' : st) m i : good K s -> good K' s' -> 2 <= K -> K <= K' -> m <= K ->
  nth (2 ^ K' - Nat.shiftr (2 ^ K') 2 - 2 ^ K' / 2 ^ m * i) (W s') czero =
  nth (2 ^ K - Nat.shiftr (2 ^ K) 2 - 2 ^ K / 2 ^ m * i) (W s) czero.
Proof.
  intros Hg Hg' H2 HK Hm. rewrite !Nat.shiftr_div_pow2. change (2 ^ 2) with 4.
  rewrite !div_pow2 by lia.
  assert (HK' : 2 ^ K' = 2 ^ K * 2 ^ (K' - K)) by (apply pow2_split; lia).
  assert (Hq' : 2 ^ (K' - m) = 2 ^ (K - m) * 2 ^ (K' - K)).
  { rewrite <- Nat.pow_add_r. f_equal. lia. }
  assert (H4 : 2 ^ K = 4 * 2 ^ (K - 2)) by (change 4 with (2 ^ 2); apply pow2_split; lia).
  set (a := 2 ^ (K - 2)) in *. set (D := 2 ^ (K' - K)) in *. set (q := 2 ^ (K - m)) in *.
  rewrite HK', Hq', H4.
  replace (4 * a * D / 4) with (a * D) by (rewrite <- Nat.mul_assoc, (Nat.mul_comm 4), Nat.div_mul; lia).
  replace (4 * a / 4) with a by (rewrite (Nat.mul_comm 4), Nat.div_mul; lia).
  replace (4 * a * D - a * D - q * D * i) with ((4 * a - a - q * i) * D) by (rewrite !Nat.mul_sub_distr_r; lia).
  unfold D. apply (table_stride ops tw K K' s s'); try assumption. lia.
Qed.

Lemma next_pow2_2 k : exists j, next_pow2 2 k = 2 ^ S j.
Proof.
  destruct (next_pow2_spec 2 k ltac:(lia)) as (j & Hj & _). exists j. now rewrite Nat.pow_succ_r'.
Qed.

Lemma multiply_into_indep_le K K' (s s' : st) a b res : good K s -> good K' s' -> 2 <= K -> K <= K' ->
  snd (multiply_into ops tw s a b res) = snd (multiply_into ops tw s' a b res).
Proof.
  intros Hg Hg' H2 HK. unfold multiply_into.
  destruct ((length a =? 0) || (length b =? 0)); [reflexivity|].
  destruct (next_pow2_2 (length a + length b - 1)) as (j & Hn). rewrite Hn.
  set (n := 2 ^ S j) in *.
  set (buf0 := map _ (seq 0 n)).
  assert (Hb0 : @length (@C F) buf0 = 2 ^ S j) by apply map_seq_length.
  rewrite (fft_internal_eta s buf0 false), (fft_internal_eta s' buf0 false). cbv iota beta.
  rewrite (fft_internal_indep_le K K' s s' (S j) buf0 false Hg Hg' HK Hb0).
  set (buf1 := fold_left _ _ (snd (fft_internal ops tw s' buf0 false))).
  rewrite Hb0.
  pose proof (update_n_good ops tw K (S j) s Hg) as H1.
  pose proof (update_n_good ops tw K' (S j) s' Hg') as H1'.
  set (s1 := update_n ops tw s (2 ^ S j)) in *. set (s1' := update_n ops tw s' (2 ^ S j)) in *.
  rewrite (good_len_R ops tw _ _ H1), (good_len_R ops tw _ _ H1').
  set (K1 := Nat.max K (S j)) in *. set (K1' := Nat.max K' (S j)) in *.
  assert (Hmap : map (fun i => csub ops (cadd ops (nth i buf1 czero) (nth (i + n / 2) buf1 czero))
                     (cmul ops (csub ops (nth i buf1 czero) (nth (i + n / 2) buf1 czero))
                        (nth (2 ^ K1 - Nat.shiftr (2 ^ K1) 2 - 2 ^ K1 / n * i) (W s1) czero))) (seq 0 (n / 2))
              = map (fun i => csub ops (cadd ops (nth i buf1 czero) (nth (i + n / 2) buf1 czero))
                     (cmul ops (csub ops (nth i buf1 czero) (nth (i + n / 2) buf1 czero))
                        (nth (2 ^ K1' - Nat.shiftr (2 ^ K1') 2 - 2 ^ K1' / n * i) (W s1') czero))) (seq 0 (n / 2))).
  { apply map_ext. intros i. do 2 f_equal. symmetry.
    apply (half_idx_stride K1 K1' s1 s1' (S j) i H1 H1'); lia. }
  rewrite Hmap. set (buf2 := map _ (seq 0 (n / 2))).
  assert (Hb2 : @length (@C F) buf2 = 2 ^ j).
  { unfold buf2. rewrite map_seq_length. unfold n. rewrite Nat.pow_succ_r', (Nat.mul_comm 2), Nat.div_mul; lia. }
  rewrite (fft_internal_eta s1 buf2 true), (fft_internal_eta s1' buf2 true). cbv iota beta. cbn [snd].
  rewrite (fft_internal_indep_le K1 K1' s1 s1' j buf2 true H1 H1' ltac:(lia) Hb2). reflexivity.
Qed.

Lemma multiply_into_indep (s s' : st) a b res : reach ops tw s -> reach ops tw s' ->
  snd (multiply_into ops tw s a b res) = snd (multiply_into ops tw s' a b res).
Proof.
  intros Hr Hr'. destruct (reach_good ops tw s Hr) as (K & H2 & Hg).
  destruct (reach_good ops tw s' Hr') as (K' & H2' & Hg').
  destruct (Nat.le_ge_cases K K') as [H|H].
  - now apply (multiply_into_indep_le K K').
  - symmetry. now apply (multiply_into_indep_le K' K).
Qed.

Lemma multiply_indep (s s' : st) a b : reach ops tw s -> reach ops tw s' ->
  snd (multiply ops tw s a b) = snd (multiply ops tw s' a b).
Proof.
  intros Hr Hr'. unfold multiply. destruct ((length a =? 0) || (length b =? 0)); [reflexivity|].
  now apply multiply_into_indep.
Qed.

(** fft / fft_into *)
Lemma fft_size_pow2 len n : (n = 0 \/ exists m, n = 2 ^ m) -> exists m, fft_size len n = 2 ^ m.
Proof.
  unfold fft_size. intros [->|(m & ->)].
  - cbn [Nat.eqb]. destruct (next_pow2_spec 1 len ltac:(lia)) as (j & Hj & _). exists j. rewrite Hj. lia.
  - destruct (2 ^ m =? 0) eqn:E; [apply Nat.eqb_eq in E; pose proof (pow2_pos m); lia|]. now exists m.
Qed.

Lemma fft_into_indep (s s' : st) v n dest : reach ops tw s -> reach ops tw s' -> (n = 0 \/ exists m, n = 2 ^ m) ->
  snd (fft_into ops tw s v n dest) = snd (fft_into ops tw s' v n dest).
Proof.
  intros Hr Hr' Hn. destruct (reach_good ops tw s Hr) as (K & _ & Hg).
  destruct (reach_good ops tw s' Hr') as (K' & _ & Hg').
  destruct (fft_size_pow2 (length v) n Hn) as (m & Hm).
  rewrite !fft_into_adds. f_equal. unfold transform_part.
  apply (fft_internal_indep K K' s s' m); try assumption.
  unfold real_buf. now rewrite map_seq_length.
Qed.

(** the body of fft_inv_into below its update_n reads max_n and the table: the same result on any two
    objects that are both at least as large as the input *)
Lemma fft_inv_body_indep_le K K' (s s' : st) j (v : list C) dest :
  good K s -> good K' s' -> 2 <= K -> K <= K' -> length v = 2 ^ S j -> S j <= K ->
  snd (fft_inv_body ops tw s v dest) = snd (fft_inv_body ops tw s' v dest).
Proof.
  intros Hg Hg' H2 HK Hv Hm. unfold fft_inv_body.
  rewrite (good_len_R ops tw _ _ Hg), (good_len_R ops tw _ _ Hg'), Hv.
  assert (Hmap : map (fun i => cscale ops (csub ops (cadd ops (nth i v czero) (nth (i + 2 ^ S j / 2) v czero))
                     (cmul ops (csub ops (nth i v czero) (nth (i + 2 ^ S j / 2) v czero))
                        (nth (2 ^ K - Nat.shiftr (2 ^ K) 2 - 2 ^ K / 2 ^ S j * i) (W s) czero))) (fdiv ops (fone ops) (of_Z ops 2)))
                   (seq 0 (2 ^ S j / 2))
              = map (fun i => cscale ops (csub ops (cadd ops (nth i v czero) (nth (i + 2 ^ S j / 2) v czero))
                     (cmul ops (csub ops (nth i v czero) (nth (i + 2 ^ S j / 2) v czero))
                        (nth (2 ^ K' - Nat.shiftr (2 ^ K') 2 - 2 ^ K' / 2 ^ S j * i) (W s') czero))) (fdiv ops (fone ops) (of_Z ops 2)))
                   (seq 0 (2 ^ S j / 2))).
  { apply map_ext. intros i. do 3 f_equal. symmetry.
    apply (half_idx_stride K K' s s' (S j) i Hg Hg'); lia. }
  rewrite Hmap. set (buf := map _ (seq 0 (2 ^ S j / 2))).
  assert (Hb : @length (@C F) buf = 2 ^ j).
  { unfold buf. rewrite map_seq_length, Nat.pow_succ_r', (Nat.mul_comm 2), Nat.div_mul; lia. }
  rewrite (fft_internal_eta s buf true), (fft_internal_eta s' buf true). cbv iota beta. cbn [snd].
  rewrite (fft_internal_indep_le K K' s s' j buf true Hg Hg' HK Hb). reflexivity.
Qed.

Lemma fft_inv_body_indep K K' (s s' : st) j (v : list C) dest :
  good K s -> good K' s' -> 2 <= K -> 2 <= K' -> length v = 2 ^ S j -> S j <= K -> S j <= K' ->
  snd (fft_inv_body ops tw s v dest) = snd (fft_inv_body ops tw s' v dest).
Proof.
  intros Hg Hg' H2 H2' Hv Hm Hm'. destruct (Nat.le_ge_cases K K') as [H|H].
  - now apply (fft_inv_body_indep_le K K' s s' j).
  - symmetry. now apply (fft_inv_body_indep_le K' K s' s j).
Qed.

(** the code before /repo 23bca24 read max_n WITHOUT growing the object first: there both objects had to be
    large enough already (and the statement is false without that, see Examples.v) *)
Lemma fft_inv_into_old_indep K K' (s s' : st) m (v : list C) dest :
  good K s -> good K' s' -> 2 <= K -> 2 <= K' -> length v = 2 ^ m -> m <= K -> m <= K' ->
  snd (fft_inv_into_old ops tw s v dest) = snd (fft_inv_into_old ops tw s' v dest).
Proof.
  intros Hg Hg' H2 H2' Hv Hm Hm'. unfold fft_inv_into_old. destruct (length v =? 1) eqn:E1; [reflexivity|].
  destruct m as [|j]; [rewrite Hv in E1; discriminate|].
  now apply (fft_inv_body_indep K K' s s' j).
Qed.

(** the repaired code grows the object to the size of the spectrum first: no size hypothesis is left *)
Lemma fft_inv_into_good (s : st) (v : list C) dest K j : good K s -> length v = 2 ^ S j ->
  fft_inv_into ops tw s v dest = fft_inv_body ops tw (update_n ops tw s (2 ^ S j)) v dest /\
  good (Nat.max K (S j)) (update_n ops tw s (2 ^ S j)).
Proof.
  intros Hg Hv. split; [|now apply update_n_good]. unfold fft_inv_into. rewrite Hv.
  destruct (2 ^ S j =? 1) eqn:E1; [|reflexivity].
  apply Nat.eqb_eq in E1. rewrite Nat.pow_succ_r' in E1. pose proof (pow2_pos j). lia.
Qed.

Lemma fft_inv_into_indep (s s' : st) m (v : list C) dest : reach ops tw s -> reach ops tw s' -> length v = 2 ^ m ->
  snd (fft_inv_into ops tw s v dest) = snd (fft_inv_into ops tw s' v dest).
Proof.
  intros Hr Hr' Hv. destruct m as [|j].
  - unfold fft_inv_into. rewrite Hv. reflexivity.
  - destruct (reach_good ops tw s Hr) as (K & H2 & Hg). destruct (reach_good ops tw s' Hr') as (K' & H2' & Hg').
    destruct (fft_inv_into_good s v dest K j Hg Hv) as (-> & Hg1).
    destruct (fft_inv_into_good s' v dest K' j Hg' Hv) as (-> & Hg1').
    apply (fft_inv_body_indep _ _ _ _ j v dest Hg1 Hg1'); try assumption; lia.
Qed.

(** every call leaves the object in a reachable state *)
Lemma multiply_into_reach (s : st) a b res : reach ops tw s -> reach ops tw (fst (multiply_into ops tw s a b res)).
Proof.
  intros Hr. unfold multiply_into. destruct ((length a =? 0) || (length b =? 0)); [exact Hr|].
  destruct (next_pow2_2 (length a + length b - 1)) as (j & Hn). rewrite Hn.
  set (buf0 := map _ (seq 0 (2 ^ S j))).
  assert (Hb0 : @length (@C F) buf0 = 2 ^ S j) by apply map_seq_length.
  rewrite (fft_internal_eta s buf0 false). cbv iota beta.
  set (buf2 := map _ (seq 0 (2 ^ S j / 2))).
  assert (Hb2 : @length (@C F) buf2 = 2 ^ j).
  { unfold buf2. rewrite map_seq_length, Nat.pow_succ_r', (Nat.mul_comm 2), Nat.div_mul; lia. }
  rewrite (fft_internal_eta _ buf2 true). cbv iota beta. cbn [fst]. rewrite Hb0, Hb2.
  apply reach_upd, reach_upd, Hr.
Qed.

Lemma multiply_reach (s : st) a b : reach ops tw s -> reach ops tw (fst (multiply ops tw s a b)).
Proof.
  intros Hr. unfold multiply. destruct ((length a =? 0) || (length b =? 0)); [exact Hr|].
  now apply multiply_into_reach.
Qed.

Lemma fft_into_reach (s : st) v n dest : reach ops tw s -> (n = 0 \/ exists m, n = 2 ^ m) ->
  reach ops tw (fst (fft_into ops tw s v n dest)).
Proof.
  intros Hr Hn. destruct (fft_size_pow2 (length v) n Hn) as (m & Hm). unfold fft_into.
  rewrite (fft_internal_eta s _ false). cbv iota beta. cbn [fst]. unfold real_buf.
  rewrite map_seq_length, Hm. apply reach_upd, Hr.
Qed.

Lemma fft_inv_into_reach (s : st) (v : list C) dest m : reach ops tw s -> length v = 2 ^ m ->
  reach ops tw (fst (fft_inv_into ops tw s v dest)).
Proof.
  intros Hr Hv. unfold fft_inv_into. destruct (length v =? 1) eqn:E1; [exact Hr|].
  destruct m as [|j]; [rewrite Hv in E1; discriminate|].
  unfold fft_inv_body. set (buf := map _ (seq 0 (length v / 2))).
  assert (Hb : @length (@C F) buf = 2 ^ j).
  { unfold buf. rewrite map_seq_length, Hv, Nat.pow_succ_r', (Nat.mul_comm 2), Nat.div_mul; lia. }
  rewrite (fft_internal_eta _ buf true). cbv iota beta. cbn [fst]. rewrite Hb, Hv. apply reach_upd, reach_upd, Hr.
Qed.

Lemma update_n_id (s : st) n : n <= length (R s) -> update_n ops tw s n = s.
Proof. intros H. unfold update_n. apply Nat.leb_le in H. now rewrite H. Qed.

Lemma fft_size_self len m : fft_size len (2 ^ m) = 2 ^ m.
Proof.
  unfold fft_size. destruct (2 ^ m =? 0) eqn:E; [|reflexivity]. apply Nat.eqb_eq in E. pose proof (pow2_pos m). lia.
Qed.

Lemma cprod_length (fa fb : list C) : length (cprod ops fa fb) = Nat.min (length fa) (length fb).
Proof. unfold cprod. now rewrite map_length, combine_length. Qed.

(** the two forward transforms on one object, the inverse on ANY other reachable object: the same
    coefficients as with all three calls on one object *)
Lemma inv_prod_x_as_into (s s' : st) a b m res : reach ops tw s -> reach ops tw s' ->
  snd (inv_prod_x ops tw s s' a b (2 ^ m) res) = snd (inv_prod_into ops tw s a b (2 ^ m) res).
Proof.
  intros Hr Hr'. unfold inv_prod_x, inv_prod_into.
  assert (Hp : exists k, 2 ^ m = 2 ^ k) by now exists m.
  pose proof (fft_into_reach s a (2 ^ m) (repeat czero (fft_size (length a) (2 ^ m))) Hr (or_intror Hp)) as Hr1.
  pose proof (fft_length ops tw s a (2 ^ m)) as Hla.
  change (fft_into ops tw s a (2 ^ m) (repeat czero (fft_size (length a) (2 ^ m)))) with (fft ops tw s a (2 ^ m)) in Hr1.
  destruct (fft ops tw s a (2 ^ m)) as [s1 fa]. cbn [fst snd] in Hr1, Hla.
  pose proof (fft_into_reach s1 b (2 ^ m) (repeat czero (fft_size (length b) (2 ^ m))) Hr1 (or_intror Hp)) as Hr2.
  pose proof (fft_length ops tw s1 b (2 ^ m)) as Hlb.
  change (fft_into ops tw s1 b (2 ^ m) (repeat czero (fft_size (length b) (2 ^ m)))) with (fft ops tw s1 b (2 ^ m)) in Hr2.
  destruct (fft ops tw s1 b (2 ^ m)) as [s2 fb]. cbn [fst snd] in Hr2, Hlb.
  rewrite fft_size_self in Hla, Hlb.
  destruct (fft_inv_into ops tw s' (cprod ops fa fb) res) as [s3 r] eqn:Ei. cbn [snd].
  change r with (snd (s3, r)). rewrite <- Ei.
  apply (fft_inv_into_indep s' s2 m); try assumption. rewrite cprod_length. lia.
Qed.
End Hist.

Lemma history_independent_all : forall (F : Type) (ops : Ops F) (tw : nat -> nat -> F * F) (s s' : st (F := F)),
  reach ops tw s -> reach ops tw s' ->
  (forall a b, snd (multiply ops tw s a b) = snd (multiply ops tw s' a b)) /\
  (forall a b res, snd (multiply_into ops tw s a b res) = snd (multiply_into ops tw s' a b res)) /\
  (forall v n dest, (n = 0 \/ exists m, n = 2 ^ m) ->
     snd (fft_into ops tw s v n dest) = snd (fft_into ops tw s' v n dest)) /\
  (forall (v : list (F * F)) m dest, length v = 2 ^ m ->
     snd (fft_inv_into ops tw s v dest) = snd (fft_inv_into ops tw s' v dest)).
Proof.
  intros F ops tw s s' Hr Hr'. repeat split.
  - intros. now apply multiply_indep.
  - intros. now apply multiply_into_indep.
  - intros. now apply fft_into_indep.
  - intros v m dest Hv. now apply (fft_inv_into_indep ops tw s s' m).
Qed.

Lemma reach_closed_all : forall (F : Type) (ops : Ops F) (tw : nat -> nat -> F * F) (s : st (F := F)),
  reach ops tw s ->
  (forall a b, reach ops tw (fst (multiply ops tw s a b))) /\
  (forall a b res, reach ops tw (fst (multiply_into ops tw s a b res))) /\
  (forall v n dest, (n = 0 \/ exists m, n = 2 ^ m) -> reach ops tw (fst (fft_into ops tw s v n dest))) /\
  (forall (v : list (F * F)) m dest, length v = 2 ^ m -> reach ops tw (fst (fft_inv_into ops tw s v dest))).
Proof.
  intros F ops tw s Hr. repeat split; intros.
  - now apply multiply_reach.
  - now apply multiply_into_reach.
  - now apply fft_into_reach.
  - now apply (fft_inv_into_reach ops tw s v dest m).
Qed.
