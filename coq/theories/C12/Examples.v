(** C12 — non-vacuity: the model runs on literals; every hypothesis of every property theorem has an instance. *)
From Coq Require Import String Ascii NArith List Bool.
From RlibV Require Import C12.Model C12.Corr C12.Properties.
Import ListNotations.
Open Scope N_scope.

Example ex_set_run : set [0; 0] 64 = Some [0; 1].
Proof. vm_compute. reflexivity. Qed.
Example ex_set_oob : set [0; 0] 128 = None.
Proof. vm_compute. reflexivity. Qed.
Example ex_iter_run : iter_bits [9223372036854775809; 0; 2] = Some (192, [0; 63; 129]).
Proof. vm_compute. reflexivity. Qed.
Example ex_count_run : count [9223372036854775809; 0; 2] = 3.
Proof. vm_compute. reflexivity. Qed.
Example ex_not_run : bnot [1; ones64] = [18446744073709551614; 0].
Proof. vm_compute. reflexivity. Qed.
