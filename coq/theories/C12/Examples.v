(** C12 — non-vacuity: the model runs on literals; every hypothesis of every property theorem has an instance. *)
From Coq Require Import String Ascii NArith List Bool Sorted Lia.
From RlibV Require Import C12.Model C12.Corr C12.ProofsBase C12.ProofsHist C12.Properties.
Import ListNotations.
Local Open Scope N_scope.

Definition s3 : bitset := [9223372036854775809; 0; 2].     (* {0, 63, 129} in a 3-word bitset *)
Definition t3 : bitset := [1; ones64; 0].

Example ex_wf : wfb s3 = true /\ wfb t3 = true /\ length s3 = length t3 /\ cap s3 = 192 /\ cap s3 < 2 ^ 64.
Proof. vm_compute. repeat split; reflexivity. Qed.

(** the model runs *)
Example ex_set_run : set [0; 0] 64 = Some [0; 1].
Proof. vm_compute. reflexivity. Qed.
Example ex_set_oob : set [0; 0] 128 = None.
Proof. vm_compute. reflexivity. Qed.
Example ex_remove_run : remove s3 63 = Some [1; 0; 2].
Proof. vm_compute. reflexivity. Qed.
Example ex_flip_run : flip s3 191 = Some [9223372036854775809; 0; 9223372036854775810].
Proof. vm_compute. reflexivity. Qed.
Example ex_iter_run : iter_bits s3 = Some (192, [0; 63; 129]).
Proof. vm_compute. reflexivity. Qed.
Example ex_iter_full_run : iter_obs (bnot [0]) = Some (map N.of_nat (seq 0 64), true).
Proof. vm_compute. reflexivity. Qed.
Example ex_count_run : count s3 = 3.
Proof. vm_compute. reflexivity. Qed.
Example ex_not_run : bnot [1; ones64] = [18446744073709551614; 0].
Proof. vm_compute. reflexivity. Qed.
Example ex_and_run : bin_ref N.land s3 t3 = Some [1; 0; 0] /\ bin_assign N.lxor s3 t3 = [9223372036854775808; ones64; 2].
Proof. vm_compute. split; reflexivity. Qed.
Example ex_display_run : display [5] = Some "1010000000000000000000000000000000000000000000000000000000000000"%string.
Proof. vm_compute. reflexivity. Qed.
Example ex_from_run : from_u64 2 7 = Some [7; 0] /\ from_u64 0 7 = None.
Proof. vm_compute. split; reflexivity. Qed.

(** every hypothesis of every theorem is satisfiable: the theorems applied to the literals *)
Example ex_set : exists s', set s3 64 = Some s' /\ wfb s' = true /\ length s' = length s3 /\
                   forall i, mem s' i = if i =? 64 then true else mem s3 i.
Proof. apply (c12_set s3 64); reflexivity. Qed.
Example ex_set_none : set s3 192 = None.
Proof. apply (c12_set s3 192); [reflexivity|]. vm_compute. discriminate. Qed.
Example ex_remove : exists s', remove s3 63 = Some s' /\ wfb s' = true /\ length s' = length s3 /\
                   forall i, mem s' i = if i =? 63 then false else mem s3 i.
Proof. apply (c12_remove s3 63); reflexivity. Qed.
Example ex_flip : exists s', flip s3 0 = Some s' /\ wfb s' = true /\ length s' = length s3 /\
                   forall i, mem s' i = if i =? 0 then negb (mem s3 i) else mem s3 i.
Proof. apply (c12_flip s3 0); reflexivity. Qed.
Example ex_from : exists s, from_u64 3 5 = Some s /\ wfb s = true /\ length s = 3%nat /\
                   forall i, mem s i = if i <? 64 then N.testbit 5 i else false.
Proof. apply c12_from_u64; [lia|reflexivity]. Qed.
Example ex_and : forall i, mem (bin_assign N.land s3 t3) i = mem s3 i && mem t3 i.
Proof. apply (c12_and s3 t3); reflexivity. Qed.
Example ex_or : forall i, mem (bin_assign N.lor s3 t3) i = mem s3 i || mem t3 i.
Proof. apply (c12_or s3 t3); reflexivity. Qed.
Example ex_xor : forall i, mem (bin_assign N.lxor s3 t3) i = xorb (mem s3 i) (mem t3 i).
Proof. apply (c12_xor s3 t3); reflexivity. Qed.
Example ex_bin_ref : bin_ref N.lor s3 t3 = Some (bin_assign N.lor s3 t3).
Proof. apply c12_bin_ref. reflexivity. Qed.
Example ex_not : forall i, i < cap s3 -> mem (bnot s3) i = negb (mem s3 i).
Proof. apply (c12_not s3). reflexivity. Qed.
Example ex_count : count s3 = N.of_nat (length (filter (mem s3) (indices s3))).
Proof. apply c12_count. reflexivity. Qed.
Example ex_iter : exists l, iter_bits s3 = Some (cap s3, l) /\ StronglySorted N.lt l /\
            (forall i, In i l <-> i < cap s3 /\ mem s3 i = true) /\ next s3 (cap s3) = Some (None, cap s3).
Proof. apply c12_iter_bits; reflexivity. Qed.
Example ex_iter_once : NoDup [0; 63; 129].
Proof. apply (c12_iter_bits_each_once s3 _ 192); reflexivity. Qed.
Example ex_next : next s3 1 = Some (Some 63, 64) /\ next s3 130 = Some (None, 192).
Proof. vm_compute. split; reflexivity. Qed.
Example ex_eq : (beq s3 t3 = true <-> s3 = t3) /\ (s3 = t3 <-> forall i, i < cap s3 -> mem s3 i = mem t3 i).
Proof. apply c12_eq; reflexivity. Qed.

Definition h1 : list op :=
  [OSet 0 63; OFrom 1 ones64; OBinRef BXor 2 0 1; ONot 3 2; OIter 3; OCount 2; OSet 0 128; OEq 0 1; ODisplay 0;
   OBinAssign BAnd 1 0; OTest 1 63; OFlip 1 64; OIter 1].
Example ex_history_hyp : N.of_nat 2 < 2 ^ 58 /\ Forall op_ok h1.
Proof. split; [reflexivity|]. repeat constructor. Qed.
Example ex_history : run (word_impl 2) (init (word_impl 2)) h1 = run (naive_impl 2) (init (naive_impl 2)) h1.
Proof. apply c12_history; apply ex_history_hyp. Qed.
Example ex_history_run : run (word_impl 2) (init (word_impl 2)) [OSet 0 63; OSet 0 128; OFrom 1 5; OBinRef BOr 2 0 1; OIter 2; OCount 2]
  = [VUnit; VPanic; VUnit; VUnit; VList [0; 2; 63] true; VNum 3].
Proof. vm_compute. reflexivity. Qed.
Example ex_case_ok : case_ok (Case 2 [(OSet 0 63, VUnit); (OFrom 1 5, VUnit); (OCount 0, VNum 1)]).
Proof. split; [reflexivity|]. repeat constructor. Qed.

Example ex_enc_run : bits_str [5] = "1010000000000000000000000000000000000000000000000000000000000000"%string
  /\ idx_list 0 [5; 1; 9223372036854775808] = [0; 2; 64; 191].
Proof. vm_compute. split; reflexivity. Qed.
