(** C12 — executable model of rlib/bitset/src/{bitset.rs, bits_iter.rs}.

    A [Bitset<N>] is its array [data : [u64; N]]: a list of [N] words, each below
    2^64 (well-formedness [wfb]), of length NW >= 1.  Indices are [usize] values,
    modelled as unbounded [N]; an out-of-bounds array access panics: [None].
    Definitions only; proofs are in Proofs*.v. *)
From Coq Require Import String Ascii NArith List Bool.
From RlibV Require Import Common.Iter.
Import ListNotations.
Local Open Scope N_scope.

Definition bitset := list N.

(** u64::MAX, the mask that [!x] flips *)
Definition ones64 : N := 18446744073709551615.
Definition wfw (w : N) : bool := w <? 18446744073709551616.
Definition wfb (s : bitset) : bool := forallb wfw s.

(** number of words as an [N]; capacity 64 * N *)
Fixpoint nlen (s : bitset) : N := match s with [] => 0 | _ :: r => N.succ (nlen r) end.
Definition cap (s : bitset) : N := 64 * nlen s.

(** [data[i]] (panics when out of bounds) and [data[i] = f(data[i])] *)
Fixpoint get (s : bitset) (i : N) : option N :=
  match s with
  | [] => None
  | w :: r => if i =? 0 then Some w else get r (N.pred i)
  end.
Fixpoint upd (s : bitset) (i : N) (f : N -> N) : option bitset :=
  match s with
  | [] => None
  | w :: r => if i =? 0 then Some (f w :: r)
              else match upd r (N.pred i) f with Some r' => Some (w :: r') | None => None end
  end.
(** a word read under a bounds guard established by the caller *)
Definition word (s : bitset) (i : N) : N := match get s i with Some w => w | None => 0 end.

(** [Bitset::new()]: [[0; N]] *)
Definition new (nw : nat) : bitset := repeat 0 nw.

(** [from_u64]: [data[0] = x] panics for N = 0 *)
Definition from_u64 (nw : nat) (x : N) : option bitset := upd (new nw) 0 (fun _ => x).

(** [1u64 << (x % 64)]: the shift amount is below 64, nothing is lost *)
Definition bit (x : N) : N := N.shiftl 1 (x mod 64).

(** self.data[x / 64] |= 1u64 << (x % 64) *)
Definition set (s : bitset) (x : N) : option bitset := upd s (x / 64) (fun w => N.lor w (bit x)).
(** self.data[x / 64] &= !(1u64 << (x % 64)) *)
Definition remove (s : bitset) (x : N) : option bitset :=
  upd s (x / 64) (fun w => N.land w (N.lxor (bit x) ones64)).
(** self.data[x / 64] ^= 1u64 << (x % 64) *)
Definition flip (s : bitset) (x : N) : option bitset := upd s (x / 64) (fun w => N.lxor w (bit x)).
(** ((self.data[x / 64] >> (x % 64)) & 1) > 0 *)
Definition test (s : bitset) (x : N) : option bool :=
  match get s (x / 64) with
  | Some w => Some (0 <? N.land (N.shiftr w (x mod 64)) 1)
  | None => None
  end.
(** self.data.fill(0) *)
Definition clear (s : bitset) : bitset := map (fun _ => 0) s.

(** u64::count_ones *)
Fixpoint ppop (p : positive) : N :=
  match p with xH => 1 | xO q => ppop q | xI q => N.succ (ppop q) end.
Definition popcount (w : N) : N := match w with N0 => 0 | Npos p => ppop p end.
(** self.data.iter().map(|x| x.count_ones() as usize).sum() *)
Definition count (s : bitset) : N := fold_left N.add (map popcount s) 0.

(** [x op= y] for (x, y) in self.data.iter_mut().zip(rhs.data.iter()) *)
Fixpoint bin_assign (f : N -> N -> N) (s t : bitset) : bitset :=
  match s, t with
  | x :: s', y :: t' => f x y :: bin_assign f s' t'
  | _, _ => s
  end.
(** by-reference form: result = new(); for (i, (x, y)) in zip.enumerate() { result.data[i] = x op y } *)
Fixpoint bin_ref_loop (f : N -> N -> N) (i : N) (s t : bitset) (res : bitset) : option bitset :=
  match s, t with
  | x :: s', y :: t' =>
      match upd res i (fun _ => f x y) with
      | Some res' => bin_ref_loop f (N.succ i) s' t' res'
      | None => None
      end
  | _, _ => Some res
  end.
Definition bin_ref (f : N -> N -> N) (s t : bitset) : option bitset :=
  bin_ref_loop f 0 s t (new (length s)).

(** [!*x] on every word *)
Definition bnot (s : bitset) : bitset := map (fun w => N.lxor w ones64) s.

(** derived PartialEq on [u64; N] *)
Fixpoint beq (s t : bitset) : bool :=
  match s, t with
  | [], [] => true
  | x :: s', y :: t' => (x =? y) && beq s' t'
  | _, _ => false
  end.

(** Display / Debug: (0..N*64).map(|i| (self.test(i) as i32).to_string()).join("") *)
Fixpoint render (s : bitset) (idx : list N) : option string :=
  match idx with
  | [] => Some EmptyString
  | i :: r =>
      match test s i, render s r with
      | Some b, Some t => Some (String (if b then "1"%char else "0"%char) t)
      | _, _ => None
      end
  end.
Definition indices (s : bitset) : list N := map N.of_nat (seq 0 (64 * length s)).
Definition display (s : bitset) : option string := render s (indices s).

(** ** BitsIter (bits_iter.rs) *)

(** u64::trailing_zeros *)
Fixpoint pctz (p : positive) : N :=
  match p with xH => 0 | xO q => N.succ (pctz q) | xI _ => 0 end.
Definition ctz (w : N) : N := match w with N0 => 64 | Npos p => pctz p end.

(** while idx < len*64 && (data[idx/64] >> (idx%64)) == 0 { idx = (idx + 64) & !63 }
    [data[idx/64]] is in bounds by the first conjunct; [& !63usize] clears the six low bits *)
Definition skip_step (s : bitset) (idx : N) : N + N :=
  if (idx <? cap s) && (N.shiftr (word s (idx / 64)) (idx mod 64) =? 0)
  then inl (N.ldiff (idx + 64) 63)
  else inr idx.

(** one call of [next]: result and the new value of [self.idx]; outer [None] = out of fuel *)
Definition next (s : bitset) (idx : N) : option (option N * N) :=
  match iter_pos (skip_step s) big_fuel idx with
  | inl _ => None
  | inr idx1 =>
      if cap s <=? idx1 then Some (None, idx1)
      else
        let idx2 := idx1 + ctz (N.shiftr (word s (idx1 / 64)) (idx1 mod 64)) in
        let idx3 := idx2 + 1 in
        Some (Some (idx3 - 1), idx3)
  end.

(** [iter_bits().collect()]: call [next] until it returns [None] *)
Definition collect_step (s : bitset) (st : N * list N) : (N * list N) + option (N * list N) :=
  let '(idx, acc) := st in
  match next s idx with
  | None => inr None
  | Some (Some v, idx') => inl (idx', v :: acc)
  | Some (None, idx') => inr (Some (idx', rev acc))
  end.
(** the collected items and the iterator state after the first [None] *)
Definition iter_bits (s : bitset) : option (N * list N) :=
  match iter_pos (collect_step s) big_fuel (0, []) with
  | inr r => r
  | inl _ => None
  end.
