(** C12 — property theorems (statements only; proofs by [exact]).

    A bitset is a list of words; [wfb s = true] says every word is below 2^64 (what a
    [u64; N] always satisfies); [cap s = 64 * number of words]; the set it denotes is
    [mem s i = N.testbit (word s (i / 64)) (i mod 64)] ([word] = the [i/64]-th word, see [c12_mem_nth]).
    Every statement holds for every number of words NW (in particular every NW >= 1). *)
From Coq Require Import String Ascii NArith List Bool Sorted.
From RlibV Require Import C12.Model C12.Corr C12.ProofsBase C12.ProofsOps C12.ProofsAbs C12.ProofsIter C12.ProofsHist C12.ProofsEnc.
Import ListNotations.
Local Open Scope N_scope.

(** membership read with the standard [nth] *)
Theorem c12_mem_nth : forall (s : bitset) (i : N),
  mem s i = N.testbit (nth (N.to_nat (i / 64)) s 0) (i mod 64).
Proof. exact mem_nth. Qed.

(** set: in range, membership changes exactly at x (to true), the result is well formed and has the
    same number of words; out of range, the call panics *)
Theorem c12_set : forall (s : bitset) (x : N), wfb s = true ->
  (x < cap s -> exists s', set s x = Some s' /\ wfb s' = true /\ length s' = length s /\
                 forall i, mem s' i = if i =? x then true else mem s i)
  /\ (cap s <= x -> set s x = None).
Proof. exact set_correct. Qed.

Theorem c12_remove : forall (s : bitset) (x : N), wfb s = true ->
  (x < cap s -> exists s', remove s x = Some s' /\ wfb s' = true /\ length s' = length s /\
                 forall i, mem s' i = if i =? x then false else mem s i)
  /\ (cap s <= x -> remove s x = None).
Proof. exact remove_correct. Qed.

Theorem c12_flip : forall (s : bitset) (x : N), wfb s = true ->
  (x < cap s -> exists s', flip s x = Some s' /\ wfb s' = true /\ length s' = length s /\
                 forall i, mem s' i = if i =? x then negb (mem s i) else mem s i)
  /\ (cap s <= x -> flip s x = None).
Proof. exact flip_correct. Qed.

(** test = membership; out of range it panics *)
Theorem c12_test : forall (s : bitset) (x : N),
  test s x = if x <? cap s then Some (mem s x) else None.
Proof. exact test_correct. Qed.

Theorem c12_clear : forall s : bitset,
  wfb (clear s) = true /\ length (clear s) = length s /\ forall i, mem (clear s) i = false.
Proof. exact clear_correct. Qed.

Theorem c12_new : forall n : nat,
  wfb (new n) = true /\ length (new n) = n /\ forall i, mem (new n) i = false.
Proof. exact new_correct. Qed.

(** from_u64: the members are the set bits of x (all below 64) *)
Theorem c12_from_u64 : forall (n : nat) (x : N), (1 <= n)%nat -> x < 2 ^ 64 ->
  exists s, from_u64 n x = Some s /\ wfb s = true /\ length s = n /\
            forall i, mem s i = if i <? 64 then N.testbit x i else false.
Proof. exact from_u64_correct. Qed.
Theorem c12_from_u64_zero_words_panics : forall x : N, from_u64 0 x = None.
Proof. exact from_u64_zero. Qed.

(** the by-reference operator form computes what the assigning form computes *)
Theorem c12_bin_ref : forall (f : N -> N -> N) (s t : bitset), length s = length t ->
  bin_ref f s t = Some (bin_assign f s t).
Proof. exact bin_ref_assign_len. Qed.

Theorem c12_and : forall s t : bitset, wfb s = true -> wfb t = true -> length s = length t ->
  wfb (bin_assign N.land s t) = true /\ length (bin_assign N.land s t) = length s /\
  forall i, mem (bin_assign N.land s t) i = mem s i && mem t i.
Proof. exact (fun s t => bin_assign_correct N.land andb s t land_ok). Qed.
Theorem c12_or : forall s t : bitset, wfb s = true -> wfb t = true -> length s = length t ->
  wfb (bin_assign N.lor s t) = true /\ length (bin_assign N.lor s t) = length s /\
  forall i, mem (bin_assign N.lor s t) i = mem s i || mem t i.
Proof. exact (fun s t => bin_assign_correct N.lor orb s t lor_ok). Qed.
Theorem c12_xor : forall s t : bitset, wfb s = true -> wfb t = true -> length s = length t ->
  wfb (bin_assign N.lxor s t) = true /\ length (bin_assign N.lxor s t) = length s /\
  forall i, mem (bin_assign N.lxor s t) i = xorb (mem s i) (mem t i).
Proof. exact (fun s t => bin_assign_correct N.lxor xorb s t lxor_ok). Qed.

(** complement: inside the capacity membership is negated, and every word stays below 2^64 *)
Theorem c12_not : forall s : bitset, wfb s = true ->
  wfb (bnot s) = true /\ length (bnot s) = length s /\
  forall i, i < cap s -> mem (bnot s) i = negb (mem s i).
Proof. exact bnot_correct. Qed.

(** count = number of members *)
Theorem c12_count : forall s : bitset, wfb s = true ->
  count s = N.of_nat (length (filter (mem s) (indices s))).
Proof. exact count_correct. Qed.
Theorem c12_indices : forall (s : bitset) (i : N), In i (indices s) <-> i < cap s.
Proof. exact in_indices. Qed.

(** iter_bits terminates (the result is not the out-of-fuel value) and yields a strictly ascending
    list containing exactly the members; the cursor ends at the capacity, where next returns None
    and leaves the cursor in place: None forever *)
Theorem c12_iter_bits : forall s : bitset, wfb s = true -> cap s < 2 ^ 64 ->
  exists l, iter_bits s = Some (cap s, l) /\ StronglySorted N.lt l /\
            (forall i, In i l <-> i < cap s /\ mem s i = true) /\
            next s (cap s) = Some (None, cap s).
Proof. exact iter_bits_full. Qed.
Theorem c12_iter_bits_each_once : forall (s : bitset) (l : list N) (idx : N), wfb s = true -> cap s < 2 ^ 64 ->
  iter_bits s = Some (idx, l) -> NoDup l.
Proof. exact iter_bits_nodup. Qed.
(** one call of next from any cursor position: the least member at or after the cursor *)
Theorem c12_next : forall (s : bitset) (idx : N), wfb s = true -> cap s < 2 ^ 64 -> idx <= cap s ->
  (exists m, next s idx = Some (Some m, m + 1) /\ idx <= m /\ m < cap s /\ mem s m = true /\
             forall i, idx <= i -> i < m -> mem s i = false)
  \/ (next s idx = Some (None, cap s) /\ forall i, idx <= i -> i < cap s -> mem s i = false).
Proof. exact next_full. Qed.

(** derived equality = same set *)
Theorem c12_eq : forall s t : bitset, wfb s = true -> wfb t = true -> length s = length t ->
  (beq s t = true <-> s = t) /\ (s = t <-> forall i, i < cap s -> mem s i = mem t i).
Proof. exact eq_full. Qed.

(** Display / Debug: 64*NW characters, the i-th is '1' iff i is a member *)
Theorem c12_display : forall s : bitset,
  exists str, display s = Some str /\ String.length str = (64 * length s)%nat /\
    forall i, i < cap s -> String.get (N.to_nat i) str = Some (if mem s i then "1"%char else "0"%char).
Proof. exact display_correct. Qed.

(** any history (any registers, any operations, from_u64 arguments being u64 values) shows the same
    observations on the word model and on the naive list-of-booleans set *)
Theorem c12_history : forall nw : nat, N.of_nat nw < 2 ^ 58 -> forall ops : list op, Forall op_ok ops ->
  run (word_impl nw) (init (word_impl nw)) ops = run (naive_impl nw) (init (naive_impl nw)) ops.
Proof. exact history_correct. Qed.

(** hence a correspondence case that matches the model satisfies the specification *)
Theorem c12_model_check_spec_check : forall c : case, case_ok c -> model_check c = true -> spec_check c = true.
Proof. exact model_check_spec_check. Qed.

(** the two compact notations the case printer uses for observed values denote what they should:
    [bits_str ws] is the rendering, [idx_list 0 ws] the member list, of the bitset with words [ws] *)
Theorem c12_enc_display : forall ws : bitset, display ws = Some (bits_str ws).
Proof. exact bits_str_display. Qed.
Theorem c12_enc_members : forall ws : bitset, idx_list 0 ws = filter (mem ws) (indices ws).
Proof. exact idx_list_members. Qed.
