(** C12 — property theorems (statements only; proofs by [exact]). *)
From Coq Require Import String Ascii NArith List Bool.
From RlibV Require Import C12.Model C12.Corr.
Import ListNotations.
Open Scope N_scope.
