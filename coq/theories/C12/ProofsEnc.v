(** C12 — the compact notations of the case printer ([bits_str], [idx_list]) denote the rendering
    and the member list of the bitset whose words they list. *)
From Coq Require Import String Ascii NArith List Bool Lia Arith.
From RlibV Require Import C12.Model C12.Corr C12.ProofsBase C12.ProofsOps C12.ProofsAbs C12.ProofsIter.
Import ListNotations.
Local Open Scope N_scope.

Lemma nstr_app a : forall b, nstr (a ++ b) = String.append (nstr a) (nstr b).
Proof. induction a as [|x a IH]; intros b; cbn [app nstr String.append]; [reflexivity|]. rewrite IH. reflexivity. Qed.

Lemma chars_bitsn n : forall w tail, chars n w tail = String.append (nstr (bitsn n w)) tail.
Proof.
  induction n as [|n IH]; intros w tail; [reflexivity|].
  rewrite bitsn_succ. cbn [chars nstr String.append]. rewrite IH. reflexivity.
Qed.

Lemma bits_str_abs ws : bits_str ws = nstr (abs ws).
Proof.
  induction ws as [|w r IH]; [reflexivity|].
  cbn [bits_str fold_right]. fold (bits_str r). rewrite chars_bitsn, IH, abs_cons, nstr_app. reflexivity.
Qed.
(** [VStr (bits_str ws)] is exactly what Display shows for the bitset with words [ws] *)
Lemma bits_str_display ws : display ws = Some (bits_str ws).
Proof. rewrite bits_str_abs. apply display_abs. Qed.

Lemma nmembers_app a : forall i b,
  nmembers i (a ++ b) = nmembers i a ++ nmembers (i + N.of_nat (length a)) b.
Proof.
  induction a as [|x a IH]; intros i b; cbn [app nmembers length].
  - rewrite N.add_0_r. reflexivity.
  - rewrite IH. replace (N.succ i + N.of_nat (length a)) with (i + N.of_nat (S (length a))) by lia.
    destruct x; reflexivity.
Qed.

Lemma wbits_bitsn n : forall i w tail, wbits n i w tail = nmembers i (bitsn n w) ++ tail.
Proof.
  induction n as [|n IH]; intros i w tail; [reflexivity|].
  rewrite bitsn_succ. cbn [wbits nmembers]. rewrite IH. destruct (N.odd w); reflexivity.
Qed.

Lemma bitsn_length n w : length (bitsn n w) = n.
Proof. unfold bitsn. rewrite map_length, seq_length. reflexivity. Qed.

Lemma idx_list_abs ws : forall base, idx_list base ws = nmembers base (abs ws).
Proof.
  induction ws as [|w r IH]; intros base; [reflexivity|].
  cbn [idx_list]. rewrite wbits_bitsn, IH, abs_cons, nmembers_app, bitsn_length. reflexivity.
Qed.
(** [idx_list 0 ws] is the list of members of the bitset with words [ws] *)
Lemma idx_list_members ws : idx_list 0 ws = members ws.
Proof. rewrite idx_list_abs. apply nmembers_abs. Qed.
