(** C12 — correspondence cases.  One case = one history on four registers
    (bitset variables, all starting as [Bitset::new()]) with the observation the
    implementation produced for every operation.

    The history interpreter [run] is parametric in the representation of a
    bitset ([impl]): [model_check] instantiates it with the word-level model
    (Model.v), [spec_check] with the specification object, a plain [list bool]
    of length 64*NW that knows nothing about words ([naive]). *)
From Coq Require Import String Ascii NArith List Bool.
From RlibV Require Import Common.Batch C12.Model.
Import ListNotations.
Local Open Scope N_scope.

Inductive binop := BAnd | BOr | BXor.

Inductive op :=
| ONew (d : nat)                       (* d = Bitset::new() *)
| OFrom (d : nat) (x : N)              (* d = Bitset::from_u64(x) *)
| OSet (d : nat) (x : N)
| ORemove (d : nat) (x : N)
| OFlip (d : nat) (x : N)
| OTest (a : nat) (x : N)
| OClear (d : nat)
| OCount (a : nat)
| OIter (a : nat)                      (* a.iter_bits(): all items, then two more calls of next *)
| OBinRef (k : binop) (d a b : nat)    (* d = &a op &b *)
| OBinAssign (k : binop) (a b : nat)   (* a op= &b *)
| ONot (d a : nat)                     (* d = !a.clone() *)
| OEq (a b : nat)
| OClone (d a : nat)
| ODisplay (a : nat)                   (* format!("{}", a) *)
| ODebug (a : nat).                    (* format!("{:?}", a) *)

(** what one operation showed *)
Inductive obs :=
| VUnit                                (* completed, nothing returned *)
| VPanic
| VBool (b : bool)
| VNum (n : N)
| VList (l : list N) (ended : bool)    (* items; [ended]: the two calls after the end returned None *)
| VStr (s : string).

Definition obs_eqb (x y : obs) : bool :=
  match x, y with
  | VUnit, VUnit => true
  | VPanic, VPanic => true
  | VBool a, VBool b => Bool.eqb a b
  | VNum a, VNum b => a =? b
  | VList a ea, VList b eb => leqb N.eqb a b && Bool.eqb ea eb
  | VStr a, VStr b => String.eqb a b
  | _, _ => false
  end.

(** compact notation for an observed 0/1 string whose length is a multiple of 64 (used by the case
    printer; a 640-character literal costs 30 ms to type-check): character [64*k + j] is bit [j] of
    the [k]-th number.  It denotes the string itself: [VStr (bits_str [5])] is [VStr "1010...0"]. *)
Fixpoint chars (n : nat) (w : N) (tail : string) : string :=
  match n with
  | O => tail
  | S n' => String (if N.odd w then "1"%char else "0"%char) (chars n' (N.div2 w) tail)
  end.
Definition bits_str (ws : list N) : string := fold_right (chars 64) EmptyString ws.

(** compact notation for an observed strictly ascending index list: the indices [base + 64*k + j]
    such that bit [j] of the [k]-th number is set.  [idx_list 0 [5; 1]] is [[0; 2; 64]]. *)
Fixpoint wbits (n : nat) (i : N) (w : N) (tail : list N) : list N :=
  match n with
  | O => tail
  | S n' => if N.odd w then i :: wbits n' (N.succ i) (N.div2 w) tail
            else wbits n' (N.succ i) (N.div2 w) tail
  end.
Fixpoint idx_list (base : N) (ws : list N) : list N :=
  match ws with
  | [] => []
  | w :: r => wbits 64 base w (idx_list (base + 64) r)
  end.

(** the operations of a bitset representation; [None] = panic *)
Record impl (T : Type) := {
  i_new : T;
  i_from : N -> option T;
  i_set : T -> N -> option T;
  i_remove : T -> N -> option T;
  i_flip : T -> N -> option T;
  i_test : T -> N -> option bool;
  i_clear : T -> T;
  i_count : T -> N;
  i_iter : T -> option (list N * bool);
  i_bin_ref : binop -> T -> T -> option T;
  i_bin_assign : binop -> T -> T -> T;
  i_not : T -> T;
  i_eq : T -> T -> bool;
  i_display : T -> option string;
  i_debug : T -> option string
}.
Arguments i_new {T}. Arguments i_from {T}. Arguments i_set {T}. Arguments i_remove {T}.
Arguments i_flip {T}. Arguments i_test {T}. Arguments i_clear {T}. Arguments i_count {T}.
Arguments i_iter {T}. Arguments i_bin_ref {T}. Arguments i_bin_assign {T}. Arguments i_not {T}.
Arguments i_eq {T}. Arguments i_display {T}. Arguments i_debug {T}.

Section Run.
Context {T : Type} (I : impl T).

Fixpoint setr (st : list T) (r : nat) (v : T) : list T :=
  match st, r with
  | [], _ => []
  | _ :: st', O => v :: st'
  | x :: st', S r' => x :: setr st' r' v
  end.
Definition getr (st : list T) (r : nat) : T := nth r st (i_new I).

(** a panicking operation leaves every register as it was (the panic is the bounds check, before any write) *)
Definition assign (st : list T) (d : nat) (o : option T) : list T * obs :=
  match o with Some v => (setr st d v, VUnit) | None => (st, VPanic) end.

Definition step (st : list T) (o : op) : list T * obs :=
  match o with
  | ONew d => (setr st d (i_new I), VUnit)
  | OFrom d x => assign st d (i_from I x)
  | OSet d x => assign st d (i_set I (getr st d) x)
  | ORemove d x => assign st d (i_remove I (getr st d) x)
  | OFlip d x => assign st d (i_flip I (getr st d) x)
  | OTest a x => (st, match i_test I (getr st a) x with Some b => VBool b | None => VPanic end)
  | OClear d => (setr st d (i_clear I (getr st d)), VUnit)
  | OCount a => (st, VNum (i_count I (getr st a)))
  | OIter a => (st, match i_iter I (getr st a) with Some (l, e) => VList l e | None => VPanic end)
  | OBinRef k d a b => assign st d (i_bin_ref I k (getr st a) (getr st b))
  | OBinAssign k a b => (setr st a (i_bin_assign I k (getr st a) (getr st b)), VUnit)
  | ONot d a => (setr st d (i_not I (getr st a)), VUnit)
  | OEq a b => (st, VBool (i_eq I (getr st a) (getr st b)))
  | OClone d a => (setr st d (getr st a), VUnit)
  | ODisplay a => (st, match i_display I (getr st a) with Some s => VStr s | None => VPanic end)
  | ODebug a => (st, match i_debug I (getr st a) with Some s => VStr s | None => VPanic end)
  end.

Fixpoint run (st : list T) (ops : list op) : list obs :=
  match ops with
  | [] => []
  | o :: r => let '(st', v) := step st o in v :: run st' r
  end.

Definition init : list T := repeat (i_new I) 4.
End Run.

(** ** instance 1: the word-level model *)
Definition wordop (k : binop) : N -> N -> N :=
  match k with BAnd => N.land | BOr => N.lor | BXor => N.lxor end.
Definition is_none {A} (o : option A) : bool := match o with None => true | Some _ => false end.

(** items of [iter_bits], then two more calls of [next] *)
Definition iter_obs (s : bitset) : option (list N * bool) :=
  match iter_bits s with
  | None => None
  | Some (idx, l) =>
      match next s idx with
      | None => None
      | Some (r1, idx1) =>
          match next s idx1 with
          | None => None
          | Some (r2, _) => Some (l, is_none r1 && is_none r2)
          end
      end
  end.

Definition word_impl (nw : nat) : impl bitset := {|
  i_new := new nw;
  i_from := from_u64 nw;
  i_set := set; i_remove := remove; i_flip := flip; i_test := test;
  i_clear := clear; i_count := count; i_iter := iter_obs;
  i_bin_ref := fun k => bin_ref (wordop k);
  i_bin_assign := fun k => bin_assign (wordop k);
  i_not := bnot; i_eq := beq; i_display := display; i_debug := display
|}.

(** ** instance 2: the specification — the set as its characteristic list of booleans *)
Definition nset := list bool.

Fixpoint lupd (l : nset) (i : nat) (f : bool -> bool) : nset :=
  match l, i with
  | [], _ => []
  | b :: r, O => f b :: r
  | b :: r, S j => b :: lupd r j f
  end.
Definition npoint (f : bool -> bool) (l : nset) (x : N) : option nset :=
  if x <? N.of_nat (length l) then Some (lupd l (N.to_nat x) f) else None.
Definition ntest (l : nset) (x : N) : option bool :=
  if x <? N.of_nat (length l) then Some (nth (N.to_nat x) l false) else None.
(** the members in ascending order *)
Fixpoint nmembers (i : N) (l : nset) : list N :=
  match l with
  | [] => []
  | b :: r => if b then i :: nmembers (N.succ i) r else nmembers (N.succ i) r
  end.
Fixpoint ncount (l : nset) : N :=
  match l with [] => 0 | b :: r => if b then N.succ (ncount r) else ncount r end.
Fixpoint nzip (f : bool -> bool -> bool) (a b : nset) : nset :=
  match a, b with
  | x :: a', y :: b' => f x y :: nzip f a' b'
  | _, _ => []
  end.
Definition boolop (k : binop) : bool -> bool -> bool :=
  match k with BAnd => andb | BOr => orb | BXor => xorb end.
Fixpoint nstr (l : nset) : string :=
  match l with [] => EmptyString | b :: r => String (if b then "1"%char else "0"%char) (nstr r) end.
Fixpoint neq (a b : nset) : bool :=
  match a, b with
  | [], [] => true
  | x :: a', y :: b' => Bool.eqb x y && neq a' b'
  | _, _ => false
  end.
(** {i < 64 : bit i of x} extended by absent indices up to the capacity *)
Definition nfrom (nw : nat) (x : N) : option nset :=
  match nw with
  | O => None
  | S m => Some (map (fun i => N.testbit x (N.of_nat i)) (seq 0 64) ++ repeat false (64 * m))
  end.

Definition naive_impl (nw : nat) : impl nset := {|
  i_new := repeat false (64 * nw);
  i_from := nfrom nw;
  i_set := npoint (fun _ => true);
  i_remove := npoint (fun _ => false);
  i_flip := npoint negb;
  i_test := ntest;
  i_clear := fun l => map (fun _ => false) l;
  i_count := ncount;
  i_iter := fun l => Some (nmembers 0 l, true);
  i_bin_ref := fun k a b => Some (nzip (boolop k) a b);
  i_bin_assign := fun k a b => nzip (boolop k) a b;
  i_not := map negb;
  i_eq := neq;
  i_display := fun l => Some (nstr l);
  i_debug := fun l => Some (nstr l)
|}.

(** ** cases *)
Inductive case := Case (nw : nat) (h : list (op * obs)).

Definition check {T} (I : impl T) (h : list (op * obs)) : bool :=
  leqb obs_eqb (run I (init I) (map fst h)) (map snd h).

Definition model_check (c : case) : bool :=
  match c with Case nw h => check (word_impl nw) h end.
Definition spec_check (c : case) : bool :=
  match c with Case nw h => check (naive_impl nw) h end.

(** what the model and the specification compute on the history of a case (for replay files) *)
Definition explain (c : case) : list obs * list obs :=
  match c with Case nw h => (run (word_impl nw) (init (word_impl nw)) (map fst h),
                              run (naive_impl nw) (init (naive_impl nw)) (map fst h)) end.
