(** C12 — the characteristic list of a bitset ([abs]), population count, rendering. *)
From Coq Require Import String Ascii NArith List Bool Lia Arith.
From RlibV Require Import C12.Model C12.Corr C12.ProofsBase C12.ProofsOps.
Import ListNotations.
Local Open Scope N_scope.

Definition upto (n : nat) : list N := map N.of_nat (seq 0 n).
(** the specification object: the list of membership bits of the indices 0 .. 64*NW-1 *)
Definition abs (s : bitset) : nset := map (mem s) (indices s).
Definition bitsn (n : nat) (w : N) : nset := map (fun i => N.testbit w (N.of_nat i)) (seq 0 n).

Lemma indices_upto s : indices s = upto (64 * length s).
Proof. reflexivity. Qed.
Lemma abs_length s : length (abs s) = (64 * length s)%nat.
Proof. unfold abs, indices. rewrite !map_length, seq_length. reflexivity. Qed.

Lemma seq_add k : forall n a, seq (k + a) n = map (Nat.add k) (seq a n).
Proof.
  induction n as [|n IH]; intros a; [reflexivity|]. cbn [seq map]. f_equal.
  rewrite <- IH. f_equal. lia.
Qed.

Lemma nth_map_seq {A} (f : nat -> A) n i d : (i < n)%nat -> nth i (map f (seq 0 n)) d = f i.
Proof.
  intros Hi. rewrite (nth_indep _ _ (f 0%nat)) by (rewrite map_length, seq_length; exact Hi).
  rewrite map_nth, seq_nth by exact Hi. reflexivity.
Qed.

Lemma abs_nth s i : (i < 64 * length s)%nat -> nth i (abs s) false = mem s (N.of_nat i).
Proof.
  intros Hi. unfold abs, indices. rewrite map_map. apply (nth_map_seq (fun k => mem s (N.of_nat k))). exact Hi.
Qed.

Lemma in_indices s i : In i (indices s) <-> i < cap s.
Proof.
  unfold indices, cap. rewrite nlen_length, in_map_iff. split.
  - intros (k & <- & Hk). apply in_seq in Hk. lia.
  - intros Hi. exists (N.to_nat i). split; [lia|]. apply in_seq. lia.
Qed.

(** two sets with the same bits are the same list *)
Lemma nset_ext (a b : nset) : length a = length b ->
  (forall i, (i < length a)%nat -> nth i a false = nth i b false) -> a = b.
Proof. intros Hl H. apply (nth_ext a b false false Hl H). Qed.

Lemma mem_cons_low w r i : i < 64 -> mem (w :: r) i = N.testbit w i.
Proof.
  intros Hi. unfold mem. rewrite N.div_small, N.mod_small by exact Hi. rewrite word_cons. reflexivity.
Qed.
Lemma mem_cons_high w r i : mem (w :: r) (64 + i) = mem r i.
Proof.
  unfold mem. replace (64 + i) with (i + 1 * 64) by lia.
  rewrite N.div_add, N.mod_add by lia. rewrite word_cons. generalize (i / 64) as q. intros q.
  destruct (N.eqb_spec (q + 1) 0) as [E|_]; [lia|].
  replace (N.pred (q + 1)) with q by lia. reflexivity.
Qed.

Lemma abs_cons w r : abs (w :: r) = bitsn 64 w ++ abs r.
Proof.
  unfold abs, indices, bitsn. cbn [length].
  replace (64 * S (length r))%nat with (64 + 64 * length r)%nat by lia.
  rewrite seq_app, !map_app. apply (f_equal2 (@app bool)).
  - rewrite map_map. apply map_ext_in. intros i Hi. apply in_seq in Hi.
    apply mem_cons_low. lia.
  - pose proof (seq_add 64 (64 * length r) 0) as E. change (64 + 0)%nat with 64%nat in E.
    change (0 + 64)%nat with 64%nat. rewrite E. rewrite !map_map.
    apply map_ext. intros i. rewrite Nat2N.inj_add. apply mem_cons_high.
Qed.
Lemma abs_nil : abs [] = [].
Proof. reflexivity. Qed.

(** ** count *)
Lemma fold_add l : forall a, fold_left N.add l a = a + fold_left N.add l 0.
Proof.
  induction l as [|x l IH]; intros a; cbn [fold_left]; [lia|].
  rewrite (IH (a + x)), (IH (0 + x)). lia.
Qed.
Lemma count_cons w r : count (w :: r) = popcount w + count r.
Proof. unfold count. cbn [map fold_left]. rewrite fold_add. lia. Qed.

Lemma ncount_app a : forall b, ncount (a ++ b) = ncount a + ncount b.
Proof.
  induction a as [|x a IH]; intros b; cbn [app ncount]; [lia|].
  rewrite IH. destruct x; lia.
Qed.

Lemma popcount_div2 w : popcount w = N.b2n (N.odd w) + popcount (N.div2 w).
Proof. destruct w as [|[p|p|]]; try reflexivity. change (N.succ (ppop p) = 1 + ppop p). lia. Qed.

Lemma bitsn_succ n w : bitsn (S n) w = N.odd w :: bitsn n (N.div2 w).
Proof.
  unfold bitsn. cbn [seq map]. rewrite N.bit0_odd. f_equal.
  rewrite <- seq_shift, map_map. apply map_ext. intros i.
  rewrite Nat2N.inj_succ. apply N.testbit_succ_r_div2. lia.
Qed.

Lemma ncount_bitsn n : forall w, w < 2 ^ N.of_nat n -> ncount (bitsn n w) = popcount w.
Proof.
  induction n as [|n IH]; intros w Hw.
  - cbn in Hw. assert (w = 0) as -> by lia. reflexivity.
  - rewrite bitsn_succ. cbn [ncount]. rewrite popcount_div2.
    rewrite Nat2N.inj_succ, N.pow_succ_r' in Hw.
    rewrite IH.
    + destruct (N.odd w); cbn [N.b2n]; lia.
    + rewrite N.div2_div. apply N.div_lt_upper_bound; lia.
Qed.

Lemma count_abs s : wfb s = true -> count s = ncount (abs s).
Proof.
  induction s as [|w r IH]; intros Hwf; [reflexivity|].
  cbn [wfb forallb] in Hwf. apply andb_true_iff in Hwf. destruct Hwf as [Hw Hr].
  rewrite count_cons, abs_cons, ncount_app, IH by exact Hr.
  rewrite ncount_bitsn; [reflexivity|]. apply wfw_spec in Hw. exact Hw.
Qed.

Lemma ncount_filter {A} (f : A -> bool) l : ncount (map f l) = N.of_nat (length (filter f l)).
Proof.
  induction l as [|x l IH]; [reflexivity|]. cbn [map ncount filter].
  destruct (f x); cbn [length]; rewrite IH; lia.
Qed.

Lemma count_correct s : wfb s = true -> count s = N.of_nat (length (filter (mem s) (indices s))).
Proof. intros H. rewrite count_abs by exact H. apply ncount_filter. Qed.

(** ** Display / Debug *)
Lemma render_abs s idx : (forall i, In i idx -> i < cap s) ->
  render s idx = Some (nstr (map (mem s) idx)).
Proof.
  induction idx as [|i r IH]; intros H; [reflexivity|].
  cbn [render map nstr]. rewrite test_correct.
  assert (Hi : i < cap s) by (apply H; left; reflexivity). apply N.ltb_lt in Hi. rewrite Hi.
  rewrite IH by (intros j Hj; apply H; right; exact Hj). reflexivity.
Qed.
Lemma display_abs s : display s = Some (nstr (abs s)).
Proof. unfold display. apply render_abs. intros i Hi. apply in_indices. exact Hi. Qed.

Lemma nstr_length l : String.length (nstr l) = length l.
Proof. induction l as [|b r IH]; [reflexivity|]. cbn [nstr String.length length]. rewrite IH. reflexivity. Qed.
Lemma nstr_get l : forall i, (i < length l)%nat ->
  String.get i (nstr l) = Some (if nth i l false then "1"%char else "0"%char).
Proof.
  induction l as [|b r IH]; intros i Hi; cbn [length] in Hi; [lia|].
  cbn [nstr]. destruct i as [|i]; [reflexivity|]. cbn [String.get nth]. apply IH. lia.
Qed.

Lemma display_correct s :
  exists str, display s = Some str /\ String.length str = (64 * length s)%nat /\
    forall i, i < cap s ->
      String.get (N.to_nat i) str = Some (if mem s i then "1"%char else "0"%char).
Proof.
  exists (nstr (abs s)). split; [apply display_abs|]. split.
  - rewrite nstr_length. apply abs_length.
  - intros i Hi. unfold cap in Hi. rewrite nlen_length in Hi.
    rewrite nstr_get by (rewrite abs_length; lia). rewrite abs_nth by lia.
    rewrite N2Nat.id. reflexivity.
Qed.
