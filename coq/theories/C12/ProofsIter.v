(** C12 — BitsIter: [next] finds the least member at or after the cursor; collecting all
    items gives the members in ascending order; afterwards [next] keeps returning [None]. *)
From Coq Require Import String Ascii NArith ZArith List Bool Lia Arith Sorted.
From RlibV Require Import Common.Iter C12.Model C12.Corr C12.ProofsBase C12.ProofsOps C12.ProofsAbs.
Import ListNotations.
Local Open Scope N_scope.

Definition no_mem (s : bitset) (a b : N) : Prop := forall i, a <= i -> i < b -> mem s i = false.

(** ** trailing zeros *)
Lemma pctz_spec p : N.testbit (Npos p) (pctz p) = true /\ forall j, j < pctz p -> N.testbit (Npos p) j = false.
Proof.
  induction p as [q IH|q IH|]; cbn [pctz].
  - split; [reflexivity|]. intros j Hj. lia.
  - destruct IH as [A B]. split.
    + rewrite N.testbit_succ_r_div2 by lia. exact A.
    + intros j Hj. destruct (N.eq_dec j 0) as [->|Hne]; [reflexivity|].
      replace j with (N.succ (N.pred j)) by lia. rewrite N.testbit_succ_r_div2 by lia.
      apply B. lia.
  - split; [reflexivity|]. intros j Hj. lia.
Qed.
Lemma ctz_spec w : w <> 0 -> N.testbit w (ctz w) = true /\ forall j, j < ctz w -> N.testbit w j = false.
Proof. destruct w as [|p]; [congruence|]. intros _. apply pctz_spec. Qed.

(** ** index arithmetic for the cursor *)
Lemma ldiff_63 a : N.ldiff a 63 = 64 * (a / 64).
Proof.
  change 63 with (N.ones 6). rewrite N.ldiff_ones_r, N.shiftr_div_pow2, N.shiftl_mul_pow2.
  change (2 ^ 6) with 64. lia.
Qed.

Lemma idx_split i : exists q r, i = 64 * q + r /\ r < 64 /\ i / 64 = q /\ i mod 64 = r.
Proof.
  exists (i / 64), (i mod 64). pose proof (N.div_mod i 64 ltac:(lia)). pose proof (mod64_lt i). auto.
Qed.
Lemma idx_join q r : r < 64 -> (64 * q + r) / 64 = q /\ (64 * q + r) mod 64 = r.
Proof.
  intros Hr. split.
  - rewrite N.mul_comm, N.div_add_l by lia. rewrite N.div_small by exact Hr. lia.
  - rewrite N.mul_comm, N.add_comm, N.mod_add by lia. apply N.mod_small. exact Hr.
Qed.

Section Iter.
Variable s : bitset.
Hypothesis Hwf : wf s.
Hypothesis Hcap : cap s < 2 ^ 64.

(** ** the skip loop *)
Definition skip_inv (a idx : N) : Prop := a <= idx /\ idx <= cap s /\ no_mem s a idx.
Definition skip_post (a idx : N) : Prop :=
  skip_inv a idx /\ (idx < cap s -> N.shiftr (word s (idx / 64)) (idx mod 64) <> 0).

Lemma skip_step_ok a idx : skip_inv a idx ->
  match skip_step s idx with
  | inl idx' => skip_inv a idx' /\ (0 <= Z.of_N (cap s - idx') < Z.of_N (cap s - idx))%Z
  | inr r => skip_post a r
  end.
Proof.
  intros (Ha & Hb & Hn). unfold skip_step.
  destruct (N.ltb_spec idx (cap s)) as [Hlt|Hge]; cbn [andb].
  - destruct (N.eqb_spec (N.shiftr (word s (idx / 64)) (idx mod 64)) 0) as [E|E].
    + rewrite ldiff_63. destruct (idx_split idx) as (q & r & Ei & Hr & Eq & Er).
      rewrite Eq, Er in E. clear Eq Er. assert (Hq : q < nlen s) by (unfold cap in Hlt; lia).
      assert (E64 : (idx + 64) / 64 = q + 1).
      { rewrite Ei. replace (64 * q + r + 64) with (64 * (q + 1) + r) by lia. apply idx_join. exact Hr. }
      rewrite E64. clear E64. unfold skip_inv, cap in *. split; [split; [lia|split; [lia|]]|lia].
      intros i Hi1 Hi2. destruct (N.lt_ge_cases i idx) as [Hlo|Hhi]; [apply Hn; assumption|].
      destruct (idx_split i) as (qi & ri & Eii & Hri & Eqi & Eri).
      unfold mem. rewrite Eqi, Eri. clear Eqi Eri. assert (qi = q) as -> by lia.
      replace ri with ((ri - r) + r) by lia. rewrite <- N.shiftr_spec', E. apply N.bits_0.
    + split; [split; [exact Ha|split; [exact Hb|exact Hn]]|]. intros _. exact E.
  - split; [split; [exact Ha|split; [exact Hb|exact Hn]]|]. intros H. lia.
Qed.

Lemma skip_spec idx : idx <= cap s ->
  exists idx1, iter_pos (skip_step s) big_fuel idx = inr idx1 /\ skip_post idx idx1.
Proof.
  intros Hidx.
  apply (iter_pos_spec (skip_step s) (skip_inv idx) (skip_post idx) (fun i => Z.of_N (cap s - i))).
  - intros i Hi. apply skip_step_ok. exact Hi.
  - split; [lia|split; [exact Hidx|]]. intros i H1 H2. lia.
  - rewrite big_fuel_val. split; [lia|].
    assert (H : (Z.of_N (cap s - idx) < 2 ^ 64)%Z).
    { change (2 ^ 64)%Z with (Z.of_N (2 ^ 64)). lia. }
    assert ((2 ^ 64 < 2 ^ 130)%Z) by reflexivity. lia.
Qed.

(** ** one call of next *)
Lemma next_spec idx : idx <= cap s ->
  (exists m, next s idx = Some (Some m, m + 1) /\ idx <= m /\ m < cap s /\ mem s m = true /\ no_mem s idx m)
  \/ (next s idx = Some (None, cap s) /\ no_mem s idx (cap s)).
Proof.
  intros Hidx. destruct (skip_spec idx Hidx) as (idx1 & E & (Ha & Hb & Hn) & Hnz).
  unfold next. rewrite E. destruct (N.leb_spec (cap s) idx1) as [Hge|Hlt].
  - right. assert (idx1 = cap s) as -> by lia. split; [reflexivity|exact Hn].
  - left. specialize (Hnz Hlt). destruct (idx_split idx1) as (q & r & Ei & Hr & Eq & Er).
    rewrite Eq, Er in *. clear Eq Er. set (w' := N.shiftr (word s q) r) in *.
    destruct (ctz_spec w' Hnz) as [Hbit Hlow]. set (c := ctz w') in *.
    unfold w' in Hbit. rewrite N.shiftr_spec' in Hbit.
    assert (Hc : c + r < 64).
    { destruct (N.lt_ge_cases (c + r) 64) as [H|H]; [exact H|].
      pose proof (proj1 (lt_pow2_bits _ 64) (Hwf q) (c + r) H) as F. congruence. }
    exists (idx1 + c). replace (idx1 + c + 1 - 1) with (idx1 + c) by lia.
    split; [reflexivity|]. split; [lia|].
    assert (Hq : q < nlen s) by (unfold cap in Hlt; lia).
    split; [unfold cap; lia|]. split.
    + unfold mem. replace (idx1 + c) with (64 * q + (c + r)) by lia.
      destruct (idx_join q (c + r) Hc) as [-> ->]. exact Hbit.
    + intros i Hi1 Hi2. destruct (N.lt_ge_cases i idx1) as [Hlo|Hhi]; [apply Hn; assumption|].
      destruct (idx_split i) as (qi & ri & Eii & Hri & Eqi & Eri).
      unfold mem. rewrite Eqi, Eri. clear Eqi Eri. assert (qi = q) as -> by lia.
      replace ri with ((ri - r) + r) by lia. rewrite <- N.shiftr_spec'. apply Hlow. lia.
Qed.

(** ** collecting *)
Lemma upto_S n : upto (S n) = upto n ++ [N.of_nat n].
Proof. unfold upto. rewrite seq_S, map_app. reflexivity. Qed.

Lemma filter_upto_nomem (f : N -> bool) a : forall b, (a <= b)%nat ->
  (forall i, N.of_nat a <= i -> i < N.of_nat b -> f i = false) ->
  filter f (upto b) = filter f (upto a).
Proof.
  induction b as [|b IH]; intros Hab H.
  - assert (a = 0%nat) as -> by lia. reflexivity.
  - destruct (Nat.eq_dec a (S b)) as [->|Hne]; [reflexivity|].
    rewrite upto_S, filter_app. cbn [filter]. rewrite (H (N.of_nat b)) by lia.
    rewrite app_nil_r. apply IH; [lia|]. intros i H1 H2. apply H; lia.
Qed.

Definition members : list N := filter (mem s) (indices s).

Definition coll_inv (st : N * list N) : Prop :=
  let '(idx, acc) := st in idx <= cap s /\ rev acc = filter (mem s) (upto (N.to_nat idx)).
Definition coll_post (r : option (N * list N)) : Prop := r = Some (cap s, members).

Lemma cap_nat : N.to_nat (cap s) = (64 * length s)%nat.
Proof. unfold cap. rewrite nlen_length. lia. Qed.

Lemma coll_step_ok st : coll_inv st ->
  match collect_step s st with
  | inl st' => coll_inv st' /\ (0 <= Z.of_N (cap s - fst st') < Z.of_N (cap s - fst st))%Z
  | inr r => coll_post r
  end.
Proof.
  destruct st as [idx acc]. intros [Hidx Hacc]. unfold collect_step.
  destruct (next_spec idx Hidx) as [(m & E & H1 & H2 & Hm & Hn)|[E Hn]]; rewrite E.
  - cbn [fst]. split; [|lia]. split; [lia|]. cbn [rev]. rewrite Hacc.
    replace (N.to_nat (m + 1)) with (S (N.to_nat m)) by lia.
    rewrite upto_S, filter_app. cbn [filter]. rewrite N2Nat.id, Hm. f_equal.
    symmetry. apply filter_upto_nomem; [lia|]. intros i Hi1 Hi2. apply Hn; lia.
  - unfold coll_post. f_equal. f_equal. rewrite Hacc. unfold members. rewrite indices_upto, <- cap_nat.
    symmetry. apply filter_upto_nomem; [lia|]. intros i Hi1 Hi2. apply Hn; lia.
Qed.

Lemma iter_bits_correct : iter_bits s = Some (cap s, members).
Proof.
  unfold iter_bits.
  destruct (iter_pos_spec (collect_step s) coll_inv coll_post (fun st => Z.of_N (cap s - fst st))
              coll_step_ok big_fuel (0, [])) as (r & E & P).
  - split; [lia|reflexivity].
  - rewrite big_fuel_val. cbn [fst]. split; [lia|].
    assert (H : (Z.of_N (cap s - 0) < 2 ^ 64)%Z).
    { change (2 ^ 64)%Z with (Z.of_N (2 ^ 64)). lia. }
    assert ((2 ^ 64 < 2 ^ 130)%Z) by reflexivity. lia.
  - rewrite E. exact P.
Qed.

Lemma next_end : next s (cap s) = Some (None, cap s).
Proof.
  destruct (next_spec (cap s) (N.le_refl _)) as [(m & _ & H1 & H2 & _)|[E _]]; [lia|exact E].
Qed.

Lemma iter_obs_correct : iter_obs s = Some (members, true).
Proof. unfold iter_obs. rewrite iter_bits_correct, next_end, next_end. reflexivity. Qed.
End Iter.

(** ** the members list: ascending, exactly the members *)
Lemma filter_upto_sorted (f : N -> bool) n : StronglySorted N.lt (filter f (upto n)).
Proof.
  induction n as [|n IH]; [constructor|].
  rewrite upto_S, filter_app. cbn [filter].
  assert (Hlt : forall x, In x (filter f (upto n)) -> x < N.of_nat n).
  { intros x Hx. apply filter_In in Hx. destruct Hx as [Hx _]. unfold upto in Hx.
    apply in_map_iff in Hx. destruct Hx as (k & <- & Hk). apply in_seq in Hk. lia. }
  revert IH Hlt. generalize (filter f (upto n)) as l. intros l IH Hlt.
  induction IH as [|x l Hs IHs Hf].
  - destruct (f (N.of_nat n)); cbn [app]; repeat constructor.
  - cbn [app]. constructor.
    + apply IHs. intros y Hy. apply Hlt. right. exact Hy.
    + apply Forall_app. split; [exact Hf|].
      destruct (f (N.of_nat n)); constructor; [|constructor]. apply Hlt. left. reflexivity.
Qed.

Lemma members_sorted s : StronglySorted N.lt (members s).
Proof. unfold members. rewrite indices_upto. apply filter_upto_sorted. Qed.
Lemma members_in s i : In i (members s) <-> i < cap s /\ mem s i = true.
Proof. unfold members. rewrite filter_In, in_indices. reflexivity. Qed.

Lemma nmembers_map (f : N -> bool) : forall l k,
  nmembers (N.of_nat k) (map f (map N.of_nat (seq k l))) = filter f (map N.of_nat (seq k l)).
Proof.
  induction l as [|l IH]; intros k; [reflexivity|]. cbn [seq map nmembers filter].
  rewrite <- Nat2N.inj_succ. rewrite IH. reflexivity.
Qed.
Lemma nmembers_abs s : nmembers 0 (abs s) = members s.
Proof. unfold abs, members, indices. apply (nmembers_map (mem s) _ 0%nat). Qed.

Lemma iter_bits_full s : wfb s = true -> cap s < 2 ^ 64 ->
  exists l, iter_bits s = Some (cap s, l) /\ StronglySorted N.lt l /\
            (forall i, In i l <-> i < cap s /\ mem s i = true) /\
            next s (cap s) = Some (None, cap s).
Proof.
  intros W C. apply wfb_wf in W. exists (members s). split; [apply iter_bits_correct; assumption|].
  split; [apply members_sorted|]. split; [apply members_in|]. apply next_end; assumption.
Qed.
Lemma next_full s idx : wfb s = true -> cap s < 2 ^ 64 -> idx <= cap s ->
  (exists m, next s idx = Some (Some m, m + 1) /\ idx <= m /\ m < cap s /\ mem s m = true /\
             forall i, idx <= i -> i < m -> mem s i = false)
  \/ (next s idx = Some (None, cap s) /\ forall i, idx <= i -> i < cap s -> mem s i = false).
Proof. intros W C H. apply wfb_wf in W. apply next_spec; assumption. Qed.

(** strictly ascending implies: no index is yielded twice *)
Lemma sorted_nodup (l : list N) : StronglySorted N.lt l -> NoDup l.
Proof.
  induction 1 as [|x l Hs IH Hf]; constructor; [|exact IH].
  intros Hin. rewrite Forall_forall in Hf. specialize (Hf x Hin). lia.
Qed.
Lemma iter_bits_nodup s l idx : wfb s = true -> cap s < 2 ^ 64 -> iter_bits s = Some (idx, l) -> NoDup l.
Proof.
  intros W C E. destruct (iter_bits_full s W C) as (l' & E' & S & _). rewrite E in E'.
  injection E' as _ ->. apply sorted_nodup. exact S.
Qed.
