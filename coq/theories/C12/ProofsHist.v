(** C12 — histories: the word-level model and the list-of-booleans specification
    produce the same observations on every history. *)
From Coq Require Import String Ascii NArith List Bool Lia Arith.
From RlibV Require Import C12.Model C12.Corr C12.ProofsBase C12.ProofsOps C12.ProofsAbs C12.ProofsIter.
Import ListNotations.
Local Open Scope N_scope.

Definition orel {A B} (R : A -> B -> Prop) (x : option A) (y : option B) : Prop :=
  match x, y with Some a, Some b => R a b | None, None => True | _, _ => False end.

Definition op_ok (o : op) : Prop := match o with OFrom _ x => x < 2 ^ 64 | _ => True end.

(** ** generic simulation *)
Section Sim.
Context {T1 T2 : Type} (I1 : impl T1) (I2 : impl T2) (R : T1 -> T2 -> Prop).
Hypothesis H_new : R (i_new I1) (i_new I2).
Hypothesis H_from : forall x, x < 2 ^ 64 -> orel R (i_from I1 x) (i_from I2 x).
Hypothesis H_set : forall a b x, R a b -> orel R (i_set I1 a x) (i_set I2 b x).
Hypothesis H_remove : forall a b x, R a b -> orel R (i_remove I1 a x) (i_remove I2 b x).
Hypothesis H_flip : forall a b x, R a b -> orel R (i_flip I1 a x) (i_flip I2 b x).
Hypothesis H_test : forall a b x, R a b -> i_test I1 a x = i_test I2 b x.
Hypothesis H_clear : forall a b, R a b -> R (i_clear I1 a) (i_clear I2 b).
Hypothesis H_count : forall a b, R a b -> i_count I1 a = i_count I2 b.
Hypothesis H_iter : forall a b, R a b -> i_iter I1 a = i_iter I2 b.
Hypothesis H_bin_ref : forall k a b a' b', R a b -> R a' b' ->
  orel R (i_bin_ref I1 k a a') (i_bin_ref I2 k b b').
Hypothesis H_bin_assign : forall k a b a' b', R a b -> R a' b' ->
  R (i_bin_assign I1 k a a') (i_bin_assign I2 k b b').
Hypothesis H_not : forall a b, R a b -> R (i_not I1 a) (i_not I2 b).
Hypothesis H_eq : forall a b a' b', R a b -> R a' b' -> i_eq I1 a a' = i_eq I2 b b'.
Hypothesis H_display : forall a b, R a b -> i_display I1 a = i_display I2 b.
Hypothesis H_debug : forall a b, R a b -> i_debug I1 a = i_debug I2 b.

Lemma getr_rel st1 st2 : Forall2 R st1 st2 -> forall r, R (getr I1 st1 r) (getr I2 st2 r).
Proof.
  unfold getr. induction 1 as [|a b l1 l2 Hab Hl IH]; intros r; destruct r; cbn [nth]; auto.
Qed.
Lemma setr_rel st1 st2 : Forall2 R st1 st2 -> forall r a b, R a b -> Forall2 R (setr st1 r a) (setr st2 r b).
Proof.
  induction 1 as [|x y l1 l2 Hxy Hl IH]; intros r a b Hab; destruct r; cbn [setr]; constructor; auto.
Qed.

Lemma assign_rel st1 st2 d o1 o2 : Forall2 R st1 st2 -> orel R o1 o2 ->
  Forall2 R (fst (assign st1 d o1)) (fst (assign st2 d o2)) /\ snd (assign st1 d o1) = snd (assign st2 d o2).
Proof.
  intros Hst Ho. destruct o1 as [a|], o2 as [b|]; cbn in Ho; try contradiction; cbn [assign fst snd].
  - split; [apply setr_rel; assumption|reflexivity].
  - split; [assumption|reflexivity].
Qed.

Lemma step_rel st1 st2 o : Forall2 R st1 st2 -> op_ok o ->
  Forall2 R (fst (step I1 st1 o)) (fst (step I2 st2 o)) /\ snd (step I1 st1 o) = snd (step I2 st2 o).
Proof.
  intros Hst Hok. pose proof (getr_rel st1 st2 Hst) as G.
  destruct o; cbn [step fst snd]; cbn [op_ok] in Hok.
  - split; [apply setr_rel; assumption|reflexivity].
  - apply assign_rel; [assumption|apply H_from; assumption].
  - apply assign_rel; [assumption|apply H_set; apply G].
  - apply assign_rel; [assumption|apply H_remove; apply G].
  - apply assign_rel; [assumption|apply H_flip; apply G].
  - split; [assumption|]. rewrite (H_test _ _ x (G a)). reflexivity.
  - split; [|reflexivity]. apply setr_rel; [assumption|]. apply H_clear, G.
  - split; [assumption|]. rewrite (H_count _ _ (G a)). reflexivity.
  - split; [assumption|]. rewrite (H_iter _ _ (G a)). reflexivity.
  - apply assign_rel; [assumption|]. apply H_bin_ref; apply G.
  - split; [|reflexivity]. apply setr_rel; [assumption|]. apply H_bin_assign; apply G.
  - split; [|reflexivity]. apply setr_rel; [assumption|]. apply H_not, G.
  - split; [assumption|]. rewrite (H_eq _ _ _ _ (G a) (G b)). reflexivity.
  - split; [|reflexivity]. apply setr_rel; [assumption|]. apply G.
  - split; [assumption|]. rewrite (H_display _ _ (G a)). reflexivity.
  - split; [assumption|]. rewrite (H_debug _ _ (G a)). reflexivity.
Qed.

Lemma run_rel ops : forall st1 st2, Forall2 R st1 st2 -> Forall op_ok ops ->
  run I1 st1 ops = run I2 st2 ops.
Proof.
  induction ops as [|o r IH]; intros st1 st2 Hst Hok; [reflexivity|].
  inversion Hok as [|? ? Ho Hr]; subst. cbn [run].
  destruct (step_rel st1 st2 o Hst Ho) as [A B].
  destruct (step I1 st1 o) as [st1' v1], (step I2 st2 o) as [st2' v2]. cbn [fst snd] in A, B.
  rewrite B. f_equal. apply IH; assumption.
Qed.

Lemma init_rel : Forall2 R (init I1) (init I2).
Proof. unfold init. cbn [repeat]. repeat constructor; exact H_new. Qed.
End Sim.

(** ** list helpers for the specification side *)
Lemma lupd_length l : forall k f, length (lupd l k f) = length l.
Proof. induction l as [|b r IH]; intros [|k] f; cbn [lupd length]; auto. Qed.
Lemma lupd_nth l : forall k f i, (k < length l)%nat ->
  nth i (lupd l k f) false = if (i =? k)%nat then f (nth k l false) else nth i l false.
Proof.
  induction l as [|b r IH]; intros k f i Hk; cbn [length] in Hk; [lia|].
  destruct k as [|k]; cbn [lupd].
  - destruct i; reflexivity.
  - destruct i as [|i]; [reflexivity|]. cbn [nth]. rewrite IH by lia. reflexivity.
Qed.
Lemma nth_map_lt {A B} (f : A -> B) l i d d' : (i < length l)%nat -> nth i (map f l) d' = f (nth i l d).
Proof.
  intros Hi. rewrite (nth_indep _ _ (f d)) by (rewrite map_length; exact Hi). apply map_nth.
Qed.
Lemma nzip_length f a : forall b, length a = length b -> length (nzip f a b) = length a.
Proof. induction a as [|x a IH]; intros [|y b] H; cbn [nzip length] in *; try lia. rewrite IH; lia. Qed.
Lemma nzip_nth f a : forall b i, length a = length b -> (i < length a)%nat ->
  nth i (nzip f a b) false = f (nth i a false) (nth i b false).
Proof.
  induction a as [|x a IH]; intros [|y b] i H Hi; cbn [length] in *; try lia.
  cbn [nzip]. destruct i as [|i]; [reflexivity|]. cbn [nth]. apply IH; lia.
Qed.
Lemma neq_eq a : forall b, neq a b = true <-> a = b.
Proof.
  induction a as [|x a IH]; intros [|y b]; cbn [neq]; split; try discriminate; try reflexivity.
  - rewrite andb_true_iff, IH. intros [E ->]. apply eqb_prop in E. subst. reflexivity.
  - intros E. injection E as -> ->. rewrite eqb_reflx. apply IH. reflexivity.
Qed.

(** a list with the right length and the right bits is [abs] *)
Lemma abs_intro s (l : nset) : length l = (64 * length s)%nat ->
  (forall i, (i < 64 * length s)%nat -> nth i l false = mem s (N.of_nat i)) -> l = abs s.
Proof.
  intros Hl H. apply nset_ext; [rewrite abs_length; exact Hl|].
  intros i Hi. rewrite Hl in Hi. rewrite abs_nth by exact Hi. apply H. exact Hi.
Qed.
Lemma cap_length s : cap s = N.of_nat (64 * length s).
Proof. unfold cap. rewrite nlen_length. lia. Qed.

(** ** the two instances are related by [abs] *)
Definition Rel (nw : nat) (s : bitset) (l : nset) : Prop :=
  wfb s = true /\ length s = nw /\ l = abs s.

Section Inst.
Variable nw : nat.
Hypothesis Hnw : N.of_nat nw < 2 ^ 58.

Lemma rel_new : Rel nw (new nw) (repeat false (64 * nw)).
Proof.
  destruct (new_correct nw) as (W & L & M). split; [exact W|split; [exact L|]].
  apply abs_intro; rewrite L; [apply repeat_length|]. intros i Hi. rewrite M. apply nth_repeat.
Qed.

Lemma rel_from x : x < 2 ^ 64 -> orel (Rel nw) (from_u64 nw x) (nfrom nw x).
Proof.
  intros Hx. destruct nw as [|m] eqn:En; [exact I|].
  destruct (from_u64_correct (S m) x ltac:(lia) Hx) as (s & E & W & L & M). rewrite E. cbn [orel nfrom].
  split; [exact W|split; [exact L|]]. apply abs_intro; rewrite L.
  - rewrite app_length, map_length, seq_length, repeat_length. lia.
  - intros i Hi. rewrite M. destruct (N.ltb_spec (N.of_nat i) 64) as [H|H].
    + rewrite app_nth1 by (rewrite map_length, seq_length; lia).
      apply (nth_map_seq (fun k => N.testbit x (N.of_nat k))). lia.
    + rewrite app_nth2 by (rewrite map_length, seq_length; lia). apply nth_repeat.
Qed.

Lemma rel_point (opw : bitset -> N -> option bitset) (h : bool -> bool) :
  (forall s x, wfb s = true ->
     (x < cap s -> exists s', opw s x = Some s' /\ wfb s' = true /\ length s' = length s /\
                    forall i, mem s' i = if i =? x then h (mem s i) else mem s i)
     /\ (cap s <= x -> opw s x = None)) ->
  forall a b x, Rel nw a b -> orel (Rel nw) (opw a x) (npoint h b x).
Proof.
  intros Hop a b x (W & L & ->). destruct (Hop a x W) as [A B]. unfold npoint.
  rewrite abs_length, <- cap_length.
  destruct (N.ltb_spec x (cap a)) as [Hx|Hx].
  - destruct (A Hx) as (s' & E & W' & L' & M). rewrite E. cbn [orel].
    split; [exact W'|split; [lia|]]. rewrite cap_length in Hx.
    apply abs_intro; rewrite L'; [rewrite lupd_length; apply abs_length|].
    intros i Hi. rewrite lupd_nth by (rewrite abs_length; lia). rewrite M.
    rewrite !abs_nth by lia. rewrite N2Nat.id.
    destruct (Nat.eqb_spec i (N.to_nat x)) as [Ei|Ei]; destruct (N.eqb_spec (N.of_nat i) x) as [Ex|Ex];
      try lia; try reflexivity. rewrite Ex. reflexivity.
  - rewrite (B Hx). exact I.
Qed.

Lemma rel_test a b x : Rel nw a b -> test a x = ntest b x.
Proof.
  intros (W & L & ->). rewrite test_correct. unfold ntest. rewrite abs_length, <- cap_length.
  destruct (N.ltb_spec x (cap a)) as [Hx|Hx]; [|reflexivity].
  rewrite cap_length in Hx. rewrite abs_nth by lia. rewrite N2Nat.id. reflexivity.
Qed.

Lemma rel_clear a b : Rel nw a b -> Rel nw (clear a) (map (fun _ => false) b).
Proof.
  intros (W & L & ->). destruct (clear_correct a) as (W' & L' & M).
  split; [exact W'|split; [lia|]]. apply abs_intro; rewrite L'.
  - rewrite map_length. apply abs_length.
  - intros i Hi. rewrite M. rewrite (nth_map_lt _ _ _ false) by (rewrite abs_length; exact Hi). reflexivity.
Qed.

Lemma rel_count a b : Rel nw a b -> count a = ncount b.
Proof. intros (W & L & ->). apply count_abs. exact W. Qed.

Lemma rel_iter a b : Rel nw a b -> iter_obs a = Some (nmembers 0 b, true).
Proof.
  intros (W & L & ->). rewrite nmembers_abs. apply iter_obs_correct.
  - apply wfb_wf. exact W.
  - unfold cap. rewrite nlen_length, L. change (2 ^ 64) with (64 * 2 ^ 58). lia.
Qed.

Lemma rel_bin k a b a' b' : Rel nw a b -> Rel nw a' b' ->
  Rel nw (bin_assign (wordop k) a a') (nzip (boolop k) b b').
Proof.
  intros (W & L & ->) (W' & L' & ->).
  assert (Hok : wordop_ok (wordop k) (boolop k)) by (destruct k; [apply land_ok|apply lor_ok|apply lxor_ok]).
  destruct (bin_assign_correct _ _ a a' Hok W W' ltac:(lia)) as (Wr & Lr & M).
  split; [exact Wr|split; [lia|]]. apply abs_intro; rewrite Lr.
  - rewrite nzip_length; rewrite !abs_length; lia.
  - intros i Hi. rewrite nzip_nth by (rewrite !abs_length; lia). rewrite M, !abs_nth by lia. reflexivity.
Qed.

Lemma rel_bin_ref k a b a' b' : Rel nw a b -> Rel nw a' b' ->
  orel (Rel nw) (bin_ref (wordop k) a a') (Some (nzip (boolop k) b b')).
Proof.
  intros H H'. rewrite bin_ref_assign.
  - cbn [orel]. apply rel_bin; assumption.
  - destruct H as (_ & L & _), H' as (_ & L' & _). rewrite !nlen_length. lia.
Qed.

Lemma rel_not a b : Rel nw a b -> Rel nw (bnot a) (map negb b).
Proof.
  intros (W & L & ->). destruct (bnot_correct a W) as (W' & L' & M).
  split; [exact W'|split; [lia|]]. apply abs_intro; rewrite L'.
  - rewrite map_length. apply abs_length.
  - intros i Hi. rewrite M by (rewrite cap_length; lia).
    rewrite (nth_map_lt _ _ _ false) by (rewrite abs_length; exact Hi). rewrite abs_nth by exact Hi. reflexivity.
Qed.

Lemma abs_inj s t : wfb s = true -> wfb t = true -> length s = length t -> abs s = abs t -> s = t.
Proof.
  intros Ws Wt L E. apply (eq_mem s t Ws Wt L). intros i Hi. rewrite cap_length in Hi.
  rewrite <- (N2Nat.id i), <- !abs_nth by lia. rewrite E. reflexivity.
Qed.

Lemma rel_eq a b a' b' : Rel nw a b -> Rel nw a' b' -> beq a a' = neq b b'.
Proof.
  intros (W & L & ->) (W' & L' & ->). apply eq_iff_eq_true. rewrite beq_eq, neq_eq. split.
  - intros ->. reflexivity.
  - apply abs_inj; [exact W|exact W'|lia].
Qed.

Lemma rel_display a b : Rel nw a b -> display a = Some (nstr b).
Proof. intros (W & L & ->). apply display_abs. Qed.

Theorem history_correct ops : Forall op_ok ops ->
  run (word_impl nw) (init (word_impl nw)) ops = run (naive_impl nw) (init (naive_impl nw)) ops.
Proof.
  intros Hok. apply (run_rel (word_impl nw) (naive_impl nw) (Rel nw)); cbn [word_impl naive_impl i_new i_from i_set
    i_remove i_flip i_test i_clear i_count i_iter i_bin_ref i_bin_assign i_not i_eq i_display i_debug].
  - apply rel_new.
  - apply rel_from.
  - apply (rel_point set (fun _ => true)). apply set_correct.
  - apply (rel_point remove (fun _ => false)). apply remove_correct.
  - apply (rel_point flip negb). apply flip_correct.
  - apply rel_test.
  - apply rel_clear.
  - apply rel_count.
  - apply rel_iter.
  - intros k a b a' b'. apply rel_bin_ref.
  - intros k a b a' b'. apply rel_bin.
  - apply rel_not.
  - apply rel_eq.
  - apply rel_display.
  - apply rel_display.
  - apply init_rel. apply rel_new.
  - exact Hok.
Qed.
End Inst.

(** a case whose history the model reproduces also satisfies the specification *)
Definition case_ok (c : case) : Prop :=
  match c with Case nw h => N.of_nat nw < 2 ^ 58 /\ Forall op_ok (map fst h) end.

Lemma model_check_spec_check c : case_ok c -> model_check c = true -> spec_check c = true.
Proof.
  destruct c as [nw h]. intros [Hnw Hok]. unfold model_check, spec_check, check.
  rewrite (history_correct nw Hnw _ Hok). exact (fun H => H).
Qed.
