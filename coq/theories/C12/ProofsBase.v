(** C12 — basic lemmas: words of a list, single-word bit facts, index arithmetic. *)
From Coq Require Import String Ascii NArith List Bool Lia.
From RlibV Require Import C12.Model.
Import ListNotations.
Local Open Scope N_scope.

(** the specification's view of a bitset: membership of an index *)
Definition mem (s : bitset) (i : N) : bool := N.testbit (word s (i / 64)) (i mod 64).

(** ** lists of words *)
Lemma nlen_length s : nlen s = N.of_nat (length s).
Proof. induction s as [|w r IH]; cbn [nlen length]; [reflexivity|]. rewrite IH. lia. Qed.

Lemma word_nil i : word [] i = 0.
Proof. reflexivity. Qed.
Lemma word_cons w r i : word (w :: r) i = if i =? 0 then w else word r (N.pred i).
Proof. unfold word. cbn [get]. destruct (i =? 0); reflexivity. Qed.

Lemma word_oob s : forall i, nlen s <= i -> word s i = 0.
Proof.
  induction s as [|w r IH]; intros i Hi; [reflexivity|].
  rewrite word_cons. cbn [nlen] in Hi. destruct (N.eqb_spec i 0) as [->|Hne]; [lia|].
  apply IH. lia.
Qed.

Lemma word_nth s : forall i, word s i = nth (N.to_nat i) s 0.
Proof.
  induction s as [|w r IH]; intros i.
  - rewrite word_nil. destruct (N.to_nat i); reflexivity.
  - rewrite word_cons. destruct (N.eqb_spec i 0) as [->|Hne]; [reflexivity|].
    replace (N.to_nat i) with (S (N.to_nat (N.pred i))) by lia. cbn [nth]. apply IH.
Qed.

Lemma get_word s : forall i, i < nlen s -> get s i = Some (word s i).
Proof.
  induction s as [|w r IH]; intros i Hi; cbn [nlen] in Hi; [lia|].
  unfold word. cbn [get]. destruct (N.eqb_spec i 0) as [->|Hne]; [reflexivity|].
  assert (Hp : N.pred i < nlen r) by lia. specialize (IH _ Hp). unfold word in IH.
  destruct (get r (N.pred i)); [reflexivity|discriminate IH].
Qed.
Lemma get_oob s : forall i, nlen s <= i -> get s i = None.
Proof.
  induction s as [|w r IH]; intros i Hi; [reflexivity|]. cbn [nlen] in Hi. cbn [get].
  destruct (N.eqb_spec i 0) as [->|Hne]; [lia|]. apply IH. lia.
Qed.

Lemma word_ext s : forall t, nlen s = nlen t -> (forall i, i < nlen s -> word s i = word t i) -> s = t.
Proof.
  induction s as [|w r IH]; intros [|v t] Hl H; cbn [nlen] in *; try lia; [reflexivity|].
  f_equal.
  - specialize (H 0). rewrite !word_cons in H. cbn in H. apply H. lia.
  - apply IH; [lia|]. intros i Hi. specialize (H (N.succ i)). rewrite !word_cons in H.
    destruct (N.eqb_spec (N.succ i) 0) as [E|_]; [lia|]. rewrite N.pred_succ in H. apply H. lia.
Qed.

Lemma upd_some s : forall i f, i < nlen s ->
  exists s', upd s i f = Some s' /\ nlen s' = nlen s /\
             forall j, word s' j = if j =? i then f (word s i) else word s j.
Proof.
  induction s as [|w r IH]; intros i f Hi; cbn [nlen] in Hi; [lia|].
  cbn [upd]. destruct (N.eqb_spec i 0) as [->|Hne].
  - exists (f w :: r). split; [reflexivity|]. split; [reflexivity|].
    intros j. rewrite !word_cons. destruct (N.eqb_spec j 0); reflexivity.
  - assert (Hp : N.pred i < nlen r) by lia.
    destruct (IH _ f Hp) as (r' & E & L & W). rewrite E.
    exists (w :: r'). split; [reflexivity|]. split; [cbn [nlen]; lia|].
    intros j. rewrite !word_cons. destruct (N.eqb_spec i 0) as [|_]; [lia|].
    destruct (N.eqb_spec j 0) as [->|Hj].
    + destruct (N.eqb_spec 0 i); [lia|reflexivity].
    + rewrite W. destruct (N.eqb_spec (N.pred j) (N.pred i)); destruct (N.eqb_spec j i); try lia; reflexivity.
Qed.
Lemma upd_none s : forall i f, nlen s <= i -> upd s i f = None.
Proof.
  induction s as [|w r IH]; intros i f Hi; [reflexivity|]. cbn [nlen] in Hi. cbn [upd].
  destruct (N.eqb_spec i 0) as [->|Hne]; [lia|]. rewrite IH by lia. reflexivity.
Qed.

Lemma nlen_new n : nlen (new n) = N.of_nat n.
Proof. unfold new. rewrite nlen_length, repeat_length. reflexivity. Qed.
Lemma word_new n i : word (new n) i = 0.
Proof.
  unfold new. revert i. induction n as [|n IH]; intros i; cbn [repeat]; [reflexivity|].
  rewrite word_cons. destruct (i =? 0); [reflexivity|apply IH].
Qed.

(** ** well-formedness: every word below 2^64 *)
Definition wf (s : bitset) : Prop := forall i, word s i < 2 ^ 64.

Lemma wfw_spec w : wfw w = true <-> w < 2 ^ 64.
Proof. unfold wfw. rewrite N.ltb_lt. reflexivity. Qed.

Lemma wfb_wf s : wfb s = true <-> wf s.
Proof.
  unfold wf. induction s as [|w r IH].
  - split; [intros _ i; rewrite word_nil; reflexivity|reflexivity].
  - cbn [wfb forallb]. rewrite andb_true_iff, wfw_spec. fold (wfb r). rewrite IH. split.
    + intros [Hw Hr] i. rewrite word_cons. destruct (i =? 0); [exact Hw|apply Hr].
    + intros H. split.
      * specialize (H 0). rewrite word_cons in H. exact H.
      * intros i. specialize (H (N.succ i)). rewrite word_cons in H.
        destruct (N.eqb_spec (N.succ i) 0); [lia|]. rewrite N.pred_succ in H. exact H.
Qed.

(** ** bits of one word *)
Lemma lt_pow2_bits w n : w < 2 ^ n <-> forall j, n <= j -> N.testbit w j = false.
Proof.
  split.
  - intros H j Hj. rewrite <- (N.mod_small w (2 ^ n)) by exact H. apply N.mod_pow2_bits_high. exact Hj.
  - intros H. assert (E : w = w mod 2 ^ n).
    { apply N.bits_inj. intros j. destruct (N.lt_ge_cases j n) as [Hlt|Hge].
      - rewrite N.mod_pow2_bits_low by exact Hlt. reflexivity.
      - rewrite N.mod_pow2_bits_high by exact Hge. apply H. exact Hge. }
    rewrite E. apply N.mod_lt. apply N.pow_nonzero. lia.
Qed.

Lemma ones64_ones : ones64 = N.ones 64.
Proof. reflexivity. Qed.
Lemma ones64_bits j : N.testbit ones64 j = (j <? 64).
Proof.
  rewrite ones64_ones. destruct (N.ltb_spec j 64) as [H|H].
  - apply N.ones_spec_low. exact H.
  - apply N.ones_spec_high. exact H.
Qed.

Lemma bit_pow x : bit x = 2 ^ (x mod 64).
Proof. unfold bit. apply N.shiftl_1_l. Qed.
Lemma bit_bits x j : N.testbit (bit x) j = (x mod 64 =? j).
Proof. rewrite bit_pow. apply N.pow2_bits_eqb. Qed.
Lemma mod64_lt x : x mod 64 < 64.
Proof. apply N.mod_lt. lia. Qed.
Lemma bit_lt x : bit x < 2 ^ 64.
Proof. rewrite bit_pow. apply N.pow_lt_mono_r; [lia|apply mod64_lt]. Qed.

Lemma lor_lt a b n : a < 2 ^ n -> b < 2 ^ n -> N.lor a b < 2 ^ n.
Proof.
  rewrite !lt_pow2_bits. intros Ha Hb j Hj. rewrite N.lor_spec, Ha, Hb by exact Hj. reflexivity.
Qed.
Lemma land_lt a b n : a < 2 ^ n -> N.land a b < 2 ^ n.
Proof.
  rewrite !lt_pow2_bits. intros Ha j Hj. rewrite N.land_spec, Ha by exact Hj. reflexivity.
Qed.
Lemma lxor_lt a b n : a < 2 ^ n -> b < 2 ^ n -> N.lxor a b < 2 ^ n.
Proof.
  rewrite !lt_pow2_bits. intros Ha Hb j Hj. rewrite N.lxor_spec, Ha, Hb by exact Hj. reflexivity.
Qed.
Lemma ones64_lt : ones64 < 2 ^ 64.
Proof. reflexivity. Qed.

(** [(w >> k) & 1 > 0] reads bit [k] *)
Lemma test_bit w k : (0 <? N.land (N.shiftr w k) 1) = N.testbit w k.
Proof.
  change 1 with (N.ones 1) at 1. rewrite N.land_ones. change (2 ^ 1) with 2.
  assert (E0 : N.testbit w k = N.testbit (N.shiftr w k) 0) by (rewrite N.shiftr_spec'; reflexivity).
  rewrite E0, N.bit0_eqb.
  pose proof (N.mod_lt (N.shiftr w k) 2 ltac:(lia)) as H.
  destruct (N.eqb_spec (N.shiftr w k mod 2) 1) as [E|E]; destruct (N.ltb_spec 0 (N.shiftr w k mod 2)); try lia; reflexivity.
Qed.

(** ** index arithmetic *)
Lemma divmod_eq i x : ((i / 64 =? x / 64) && (x mod 64 =? i mod 64)) = (i =? x).
Proof.
  pose proof (N.div_mod i 64 ltac:(lia)) as Hi. pose proof (N.div_mod x 64 ltac:(lia)) as Hx.
  destruct (N.eqb_spec i x) as [->|Hne].
  - rewrite !N.eqb_refl. reflexivity.
  - destruct (N.eqb_spec (i / 64) (x / 64)) as [E1|E1]; [|reflexivity].
    destruct (N.eqb_spec (x mod 64) (i mod 64)) as [E2|E2]; [|reflexivity]. exfalso. apply Hne.
    rewrite Hi, Hx, E1, E2. reflexivity.
Qed.
Lemma div64_lt x n : x < 64 * n <-> x / 64 < n.
Proof.
  pose proof (N.div_mod x 64 ltac:(lia)) as Hx. pose proof (mod64_lt x) as Hm.
  set (q := x / 64) in *. set (r := x mod 64) in *. clearbody q r. lia.
Qed.
Lemma mem_oob s i : cap s <= i -> mem s i = false.
Proof.
  intros H. unfold mem. rewrite word_oob; [apply N.bits_0|].
  unfold cap in H. pose proof (div64_lt i (nlen s)). lia.
Qed.
Lemma mem_nth s i : mem s i = N.testbit (nth (N.to_nat (i / 64)) s 0) (i mod 64).
Proof. unfold mem. rewrite word_nth. reflexivity. Qed.
