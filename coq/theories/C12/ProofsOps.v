(** C12 — the operations of bitset.rs against membership. *)
From Coq Require Import String Ascii NArith List Bool Lia.
From RlibV Require Import C12.Model C12.ProofsBase.
Import ListNotations.
Local Open Scope N_scope.

(** ** point operations *)
Section Point.
Variable g : N -> N -> N.          (* word -> mask -> word *)
Variable h : bool -> bool.         (* what happens to the addressed bit *)
Hypothesis g_bits : forall w x j, j < 64 ->
  N.testbit (g w (bit x)) j = if x mod 64 =? j then h (N.testbit w j) else N.testbit w j.
Hypothesis g_lt : forall w x, w < 2 ^ 64 -> g w (bit x) < 2 ^ 64.

Lemma point_op s x : wf s ->
  (x < cap s -> exists s', upd s (x / 64) (fun w => g w (bit x)) = Some s' /\ wf s' /\ nlen s' = nlen s /\
                 forall i, mem s' i = if i =? x then h (mem s i) else mem s i)
  /\ (cap s <= x -> upd s (x / 64) (fun w => g w (bit x)) = None).
Proof.
  intros Hwf. unfold cap. split; intros Hx.
  - apply div64_lt in Hx. destruct (upd_some s (x / 64) (fun w => g w (bit x)) Hx) as (s' & E & L & W).
    exists s'. split; [exact E|]. split; [|split; [exact L|]].
    + intros i. rewrite W. destruct (i =? x / 64); [apply g_lt|]; apply Hwf.
    + intros i. unfold mem. rewrite W. rewrite <- (divmod_eq i x).
      destruct (N.eqb_spec (i / 64) (x / 64)) as [E1|E1]; cbn [andb]; [|reflexivity].
      rewrite g_bits by apply mod64_lt. rewrite E1. reflexivity.
  - apply upd_none. pose proof (div64_lt x (nlen s)). lia.
Qed.
End Point.

Lemma set_bits w x j : j < 64 ->
  N.testbit (N.lor w (bit x)) j = if x mod 64 =? j then (fun _ => true) (N.testbit w j) else N.testbit w j.
Proof.
  intros _. rewrite N.lor_spec, bit_bits. destruct (x mod 64 =? j); [apply orb_true_r|apply orb_false_r].
Qed.
Lemma remove_bits w x j : j < 64 ->
  N.testbit (N.land w (N.lxor (bit x) ones64)) j =
  if x mod 64 =? j then (fun _ => false) (N.testbit w j) else N.testbit w j.
Proof.
  intros Hj. rewrite N.land_spec, N.lxor_spec, bit_bits, ones64_bits.
  apply N.ltb_lt in Hj. rewrite Hj. destruct (x mod 64 =? j); cbn; [apply andb_false_r|apply andb_true_r].
Qed.
Lemma flip_bits w x j : j < 64 ->
  N.testbit (N.lxor w (bit x)) j = if x mod 64 =? j then negb (N.testbit w j) else N.testbit w j.
Proof.
  intros _. rewrite N.lxor_spec, bit_bits. destruct (x mod 64 =? j); [apply xorb_true_r|apply xorb_false_r].
Qed.

Lemma set_correct s x : wfb s = true ->
  (x < cap s -> exists s', set s x = Some s' /\ wfb s' = true /\ length s' = length s /\
                 forall i, mem s' i = if i =? x then true else mem s i)
  /\ (cap s <= x -> set s x = None).
Proof.
  intros Hwf. apply wfb_wf in Hwf.
  destruct (point_op (fun w m => N.lor w m) (fun _ => true) set_bits
              (fun w x Hw => lor_lt _ _ _ Hw (bit_lt x)) s x Hwf) as [A B].
  split; [|exact B]. intros Hx. destruct (A Hx) as (s' & E & W & L & M).
  exists s'. rewrite wfb_wf. rewrite !nlen_length in L. repeat split; try assumption. lia.
Qed.
Lemma remove_correct s x : wfb s = true ->
  (x < cap s -> exists s', remove s x = Some s' /\ wfb s' = true /\ length s' = length s /\
                 forall i, mem s' i = if i =? x then false else mem s i)
  /\ (cap s <= x -> remove s x = None).
Proof.
  intros Hwf. apply wfb_wf in Hwf.
  destruct (point_op (fun w m => N.land w (N.lxor m ones64)) (fun _ => false) remove_bits
              (fun w x Hw => land_lt _ _ _ Hw) s x Hwf) as [A B].
  split; [|exact B]. intros Hx. destruct (A Hx) as (s' & E & W & L & M).
  exists s'. rewrite wfb_wf. rewrite !nlen_length in L. repeat split; try assumption. lia.
Qed.
Lemma flip_correct s x : wfb s = true ->
  (x < cap s -> exists s', flip s x = Some s' /\ wfb s' = true /\ length s' = length s /\
                 forall i, mem s' i = if i =? x then negb (mem s i) else mem s i)
  /\ (cap s <= x -> flip s x = None).
Proof.
  intros Hwf. apply wfb_wf in Hwf.
  destruct (point_op (fun w m => N.lxor w m) negb flip_bits
              (fun w x Hw => lxor_lt _ _ _ Hw (bit_lt x)) s x Hwf) as [A B].
  split; [|exact B]. intros Hx. destruct (A Hx) as (s' & E & W & L & M).
  exists s'. rewrite wfb_wf. rewrite !nlen_length in L. repeat split; try assumption. lia.
Qed.

Lemma test_correct s x : test s x = if x <? cap s then Some (mem s x) else None.
Proof.
  unfold test, cap. destruct (N.ltb_spec x (64 * nlen s)) as [H|H].
  - apply div64_lt in H. rewrite get_word by exact H. rewrite test_bit. reflexivity.
  - rewrite get_oob; [reflexivity|]. pose proof (div64_lt x (nlen s)). lia.
Qed.

(** ** clear, new, from_u64 *)
Lemma nlen_map (f : N -> N) s : nlen (map f s) = nlen s.
Proof. rewrite !nlen_length, map_length. reflexivity. Qed.
Lemma word_map (f : N -> N) s : forall i, i < nlen s -> word (map f s) i = f (word s i).
Proof.
  induction s as [|w r IH]; intros i Hi; cbn [nlen] in Hi; [lia|].
  cbn [map]. rewrite !word_cons. destruct (N.eqb_spec i 0); [reflexivity|]. apply IH. lia.
Qed.
Lemma word_map' (f : N -> N) s i : word (map f s) i = if i <? nlen s then f (word s i) else 0.
Proof.
  destruct (N.ltb_spec i (nlen s)) as [H|H]; [apply word_map; exact H|].
  apply word_oob. rewrite nlen_map. exact H.
Qed.

Lemma clear_correct s :
  wfb (clear s) = true /\ length (clear s) = length s /\ forall i, mem (clear s) i = false.
Proof.
  unfold clear. split; [|split].
  - apply wfb_wf. intros i. rewrite word_map'. destruct (i <? nlen s); reflexivity.
  - apply map_length.
  - intros i. unfold mem. rewrite word_map'. destruct (_ <? _); apply N.bits_0.
Qed.
Lemma new_correct n : wfb (new n) = true /\ length (new n) = n /\ forall i, mem (new n) i = false.
Proof.
  split; [|split].
  - apply wfb_wf. intros i. rewrite word_new. reflexivity.
  - apply repeat_length.
  - intros i. unfold mem. rewrite word_new. apply N.bits_0.
Qed.
Lemma from_u64_correct n x : (1 <= n)%nat -> x < 2 ^ 64 ->
  exists s, from_u64 n x = Some s /\ wfb s = true /\ length s = n /\
            forall i, mem s i = if i <? 64 then N.testbit x i else false.
Proof.
  intros Hn Hx. unfold from_u64.
  assert (H0 : 0 < nlen (new n)) by (rewrite nlen_new; lia).
  destruct (upd_some (new n) 0 (fun _ => x) H0) as (s & E & L & W).
  exists s. split; [exact E|]. split; [|split].
  - apply wfb_wf. intros i. rewrite W. destruct (i =? 0); [exact Hx|]. rewrite word_new. reflexivity.
  - rewrite nlen_new, nlen_length in L. lia.
  - intros i. unfold mem. rewrite W, word_new.
    destruct (N.ltb_spec i 64) as [H|H].
    + rewrite N.div_small, N.mod_small by exact H. reflexivity.
    + destruct (N.eqb_spec (i / 64) 0) as [E0|E0]; [|apply N.bits_0].
      exfalso. pose proof (div64_lt i 1). lia.
Qed.
Lemma from_u64_zero x : from_u64 0 x = None.
Proof. reflexivity. Qed.

(** ** binary operators *)
Lemma bin_assign_spec f s : forall t, nlen s = nlen t ->
  nlen (bin_assign f s t) = nlen s /\
  forall i, i < nlen s -> word (bin_assign f s t) i = f (word s i) (word t i).
Proof.
  induction s as [|x s' IH]; intros [|y t'] Hl; cbn [nlen] in Hl; try lia.
  - split; [reflexivity|]. intros i Hi. cbn [nlen] in Hi. lia.
  - cbn [bin_assign nlen]. destruct (IH t' ltac:(lia)) as [L W]. split; [lia|].
    intros i Hi. rewrite !word_cons. destruct (N.eqb_spec i 0); [reflexivity|]. apply W. lia.
Qed.

Lemma bin_ref_loop_spec f s : forall t i res, nlen s = nlen t -> i + nlen s <= nlen res ->
  exists r, bin_ref_loop f i s t res = Some r /\ nlen r = nlen res /\
    forall j, word r j = if (i <=? j) && (j <? i + nlen s) then f (word s (j - i)) (word t (j - i)) else word res j.
Proof.
  induction s as [|x s' IH]; intros [|y t'] i res Hl Hb; cbn [nlen] in Hl, Hb; try lia.
  - exists res. split; [reflexivity|]. split; [reflexivity|]. intros j. cbn [nlen].
    destruct (N.leb_spec i j); destruct (N.ltb_spec j (i + 0)); try lia; reflexivity.
  - cbn [bin_ref_loop]. assert (Hi : i < nlen res) by lia.
    destruct (upd_some res i (fun _ => f x y) Hi) as (res' & E & L & W). rewrite E.
    destruct (IH t' (N.succ i) res' ltac:(lia) ltac:(lia)) as (r & E' & L' & W').
    exists r. split; [exact E'|]. split; [lia|]. intros j. rewrite W', W. cbn [nlen].
    rewrite !word_cons.
    destruct (N.leb_spec (N.succ i) j); destruct (N.ltb_spec j (N.succ i + nlen s'));
      destruct (N.leb_spec i j); destruct (N.ltb_spec j (i + N.succ (nlen s')));
      destruct (N.eqb_spec j i); destruct (N.eqb_spec (j - i) 0); cbn [andb]; try lia; try reflexivity.
    replace (N.pred (j - i)) with (j - N.succ i) by lia. reflexivity.
Qed.

Lemma bin_ref_assign f s t : nlen s = nlen t -> bin_ref f s t = Some (bin_assign f s t).
Proof.
  intros Hl. unfold bin_ref.
  destruct (bin_ref_loop_spec f s t 0 (new (length s)) Hl) as (r & E & L & W).
  { rewrite nlen_new, nlen_length. lia. }
  rewrite E. f_equal. destruct (bin_assign_spec f s t Hl) as [L2 W2].
  rewrite nlen_new, <- nlen_length in L.
  apply word_ext; [lia|]. intros i Hi. rewrite W, W2 by lia. rewrite N.sub_0_r.
  destruct (N.leb_spec 0 i); destruct (N.ltb_spec i (0 + nlen s)); try lia. reflexivity.
Qed.

Lemma bin_ref_assign_len f s t : length s = length t -> bin_ref f s t = Some (bin_assign f s t).
Proof. intros H. apply bin_ref_assign. rewrite !nlen_length, H. reflexivity. Qed.

Definition wordop_ok (f : N -> N -> N) (b : bool -> bool -> bool) : Prop :=
  (forall x y j, N.testbit (f x y) j = b (N.testbit x j) (N.testbit y j)) /\ b false false = false.

Lemma wordop_lt f b : wordop_ok f b -> forall x y, x < 2 ^ 64 -> y < 2 ^ 64 -> f x y < 2 ^ 64.
Proof.
  intros [Hf H0] x y. rewrite !lt_pow2_bits. intros Hx Hy j Hj. rewrite Hf, Hx, Hy by exact Hj. exact H0.
Qed.

Lemma bin_assign_correct f b s t : wordop_ok f b -> wfb s = true -> wfb t = true -> length s = length t ->
  wfb (bin_assign f s t) = true /\ length (bin_assign f s t) = length s /\
  forall i, mem (bin_assign f s t) i = b (mem s i) (mem t i).
Proof.
  intros Hok Hs Ht Hl. apply wfb_wf in Hs. apply wfb_wf in Ht.
  assert (Hn : nlen s = nlen t) by (rewrite !nlen_length; lia).
  destruct (bin_assign_spec f s t Hn) as [L W]. split; [|split].
  - apply wfb_wf. intros i. destruct (N.lt_ge_cases i (nlen s)) as [H|H].
    + rewrite W by exact H. apply (wordop_lt f b Hok); [apply Hs|apply Ht].
    + rewrite word_oob by lia. reflexivity.
  - rewrite !nlen_length in L. lia.
  - intros i. unfold mem. destruct (N.lt_ge_cases (i / 64) (nlen s)) as [H|H].
    + rewrite W by exact H. apply Hok.
    + rewrite !word_oob by lia. rewrite N.bits_0. symmetry. apply Hok.
Qed.

Lemma land_ok : wordop_ok N.land andb.
Proof. split; [intros; apply N.land_spec|reflexivity]. Qed.
Lemma lor_ok : wordop_ok N.lor orb.
Proof. split; [intros; apply N.lor_spec|reflexivity]. Qed.
Lemma lxor_ok : wordop_ok N.lxor xorb.
Proof. split; [intros; apply N.lxor_spec|reflexivity]. Qed.

(** ** complement *)
Lemma bnot_correct s : wfb s = true ->
  wfb (bnot s) = true /\ length (bnot s) = length s /\
  forall i, i < cap s -> mem (bnot s) i = negb (mem s i).
Proof.
  intros Hs. apply wfb_wf in Hs. unfold bnot. split; [|split].
  - apply wfb_wf. intros i. rewrite word_map'. destruct (i <? nlen s); [|reflexivity].
    apply lxor_lt; [apply Hs|apply ones64_lt].
  - apply map_length.
  - intros i Hi. unfold mem. unfold cap in Hi. apply div64_lt in Hi. rewrite word_map by exact Hi.
    rewrite N.lxor_spec, ones64_bits. pose proof (mod64_lt i) as Hm. apply N.ltb_lt in Hm. rewrite Hm.
    apply xorb_true_r.
Qed.

(** ** equality *)
Lemma beq_eq s : forall t, beq s t = true <-> s = t.
Proof.
  induction s as [|x s' IH]; intros [|y t']; cbn [beq]; split; try discriminate; try reflexivity.
  - rewrite andb_true_iff, N.eqb_eq, IH. intros [-> ->]. reflexivity.
  - intros E. injection E as -> ->. rewrite N.eqb_refl. cbn. apply IH. reflexivity.
Qed.

Lemma eq_mem s t : wfb s = true -> wfb t = true -> length s = length t ->
  (s = t <-> forall i, i < cap s -> mem s i = mem t i).
Proof.
  intros Hs Ht Hl. apply wfb_wf in Hs. apply wfb_wf in Ht. split; [intros ->; reflexivity|].
  intros H. apply word_ext; [rewrite !nlen_length; lia|].
  intros k Hk. apply N.bits_inj. intros j. destruct (N.lt_ge_cases j 64) as [Hj|Hj].
  - specialize (H (64 * k + j)). unfold mem in H.
    assert (E1 : (64 * k + j) / 64 = k).
    { rewrite N.mul_comm, N.div_add_l by lia. rewrite N.div_small by exact Hj. lia. }
    assert (E2 : (64 * k + j) mod 64 = j).
    { rewrite N.mul_comm, N.add_comm, N.mod_add by lia. apply N.mod_small. exact Hj. }
    rewrite E1, E2 in H. apply H. unfold cap. lia.
  - pose proof (proj1 (lt_pow2_bits _ 64) (Hs k) j Hj) as A.
    pose proof (proj1 (lt_pow2_bits _ 64) (Ht k) j Hj) as B. unfold N.eqf. rewrite A, B. reflexivity.
Qed.

Lemma eq_full s t : wfb s = true -> wfb t = true -> length s = length t ->
  (beq s t = true <-> s = t) /\ (s = t <-> forall i, i < cap s -> mem s i = mem t i).
Proof. intros Ws Wt L. split; [apply beq_eq|apply eq_mem; assumption]. Qed.
