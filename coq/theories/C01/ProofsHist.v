(** C01 — whole histories: the tree model and the plain-array specification produce
    matching outputs, step by step, from any related pair of states. *)
From Coq Require Import List Arith Lia Bool.
From RlibV Require Import C01.Model C01.Spec C01.Laws C01.ProofsCore C01.ProofsBound C01.ProofsTree.
Import ListNotations.
Arguments Nat.div : simpl never.
Arguments Nat.modulo : simpl never.

(** ---- candidates lists ---- *)
Section Cands.
Context {V P : Type}.
Variable pv : P -> V -> bool.
Variable p : P.

Lemma monotone_seq (W : nat -> V) c : forall l,
  monotone (map (fun i => pv p (W i)) (seq l c)) = true ->
  forall j k, l <= j -> j <= k -> k < l + c -> pv p (W j) = true -> pv p (W k) = true.
Proof.
  induction c as [|c IH]; intros l Hm j k Hj Hjk Hk Hg; [lia|].
  cbn [seq map monotone] in Hm.
  destruct (pv p (W l)) eqn:El.
  - destruct (Nat.eq_dec k l) as [->|Hne]; [exact El|].
    rewrite forallb_forall in Hm. apply Hm.
    apply in_map_iff. exists k. split; [reflexivity|]. apply in_seq. lia.
  - destruct (Nat.eq_dec j l) as [->|Hne]; [congruence|].
    apply (IH (S l) Hm j k); [lia|lia|lia|exact Hg].
Qed.

Lemma first_sat_some (h : nat -> nat) (W : nat -> V) c : forall l i,
  l <= i -> i < l + c -> pv p (W i) = true -> (forall j, l <= j -> j < i -> pv p (W j) = false) ->
  first_sat pv p (map (fun i => (h i, W i)) (seq l c)) = Some (h i).
Proof.
  unfold first_sat.
  induction c as [|c IH]; intros l i Hl Hi Hg Hmin; [lia|].
  cbn [seq map find snd].
  destruct (Nat.eq_dec i l) as [->|Hne].
  - rewrite Hg. reflexivity.
  - rewrite (Hmin l) by lia. apply IH; try lia; auto. intros j ? ?. apply Hmin; lia.
Qed.

Lemma first_sat_none (h : nat -> nat) (W : nat -> V) c : forall l,
  (forall j, l <= j -> j < l + c -> pv p (W j) = false) ->
  first_sat pv p (map (fun i => (h i, W i)) (seq l c)) = None.
Proof.
  unfold first_sat.
  induction c as [|c IH]; intros l Hall; [reflexivity|].
  cbn [seq map find snd]. rewrite (Hall l) by lia. apply IH. intros j ? ?. apply Hall; lia.
Qed.
End Cands.

Lemma rev_seq_0 r : rev (seq 0 (S r)) = map (fun i => r - i) (seq 0 (S r)).
Proof.
  induction r as [|r IH]; [reflexivity|].
  replace (rev (seq 0 (S (S r)))) with (S r :: rev (seq 0 (S r))).
  2:{ rewrite (seq_S (S r) 0), rev_app_distr. reflexivity. }
  rewrite IH.
  change (seq 0 (S (S r))) with (0 :: seq 1 (S r)). rewrite <- seq_shift.
  cbn [map]. rewrite map_map. reflexivity.
Qed.

Section Hist.
Context {T M V P : Type}.
Variable merge : T -> T -> T.
Variable update : T -> T -> T -> T.
Variable modify : T -> M -> T.
Variable push : T -> T -> T -> T * T * T.
Variable obs : T -> V.
Variable vmerge : V -> V -> V.
Variable act : M -> V -> V.
Variable Pending : T -> list M -> Prop.
Hypothesis LAW : lawful merge update modify push obs vmerge act Pending.
Variable dflt : T.
Variable pv : P -> V -> bool.

Definition interp_of (p : P) (x : T) : bool := pv p (obs x).

Local Notation RepT := (RepT obs vmerge act Pending).
Local Notation range := (range vmerge (obs dflt)).
Local Notation step := (step merge update modify push interp_of dflt).
Local Notation run := (run merge update modify push interp_of dflt).
Local Notation spec_step := (spec_step obs vmerge act (obs dflt)).
Local Notation spec_run := (spec_run obs vmerge act (obs dflt)).
Local Notation out_match := (out_match obs vmerge pv (obs dflt)).

(** the model state and the specification state denote the same array *)
Definition StRel (st : option (tree T)) (a : option (list V)) : Prop :=
  match st, a with
  | None, None => True
  | Some t, Some vs => RepT t vs
  | _, _ => False
  end.

Lemma step_ok st a o : StRel st a ->
  StRel (fst (step st o)) (fst (spec_step a o)) /\ out_match (snd (step st o)) (snd (spec_step a o)).
Proof.
  intros HS.
  destruct o as [n v|xs|xs|i v|l r m|l r|l p|r p|].
  - (* new *) cbn [step spec_step Model.step Spec.spec_step].
    destruct (n =? 0) eqn:E.
    + apply Nat.eqb_eq in E. subst. cbn. split; [exact HS|exact I].
    + apply Nat.eqb_neq in E.
      destruct (new_correct _ _ _ _ _ _ _ _ LAW n v E) as (t & -> & _ & HR). cbn. split; [exact HR|exact I].
  - (* from_slice *) cbn [step spec_step Model.step Spec.spec_step].
    destruct xs as [|x0 xs]; [cbn; split; [exact HS|exact I]|].
    destruct (from_slice_correct _ _ _ _ _ _ _ _ LAW (x0 :: xs) ltac:(discriminate)) as (t & -> & _ & HR).
    cbn. split; [exact HR|exact I].
  - (* from_iter *) cbn [step spec_step Model.step Spec.spec_step].
    destruct xs as [|x0 xs]; [cbn; split; [exact HS|exact I]|].
    destruct (from_iter_correct _ _ _ _ _ _ _ _ LAW dflt (x0 :: xs) ltac:(discriminate)) as (t & -> & _ & HR).
    cbn. split; [exact HR|exact I].
  - (* set *) destruct st as [t|], a as [vs|]; try (cbn in HS; contradiction); [|cbn; split; [exact I|exact I]]; cbn in HS.
    cbn [step spec_step Model.step Spec.spec_step]. rewrite (RepT_length _ _ _ _ _ _ HS).
    destruct (i <? tn t) eqn:E.
    + apply Nat.ltb_lt in E.
      destruct (set_tree_correct _ _ _ _ _ _ _ _ LAW t vs i v HS E) as (t' & -> & _ & HR). cbn. split; [exact HR|exact I].
    + unfold set. rewrite E. cbn. split; [exact HS|exact I].
  - (* modify *) destruct st as [t|], a as [vs|]; try (cbn in HS; contradiction); [|cbn; split; [exact I|exact I]]; cbn in HS.
    cbn [step spec_step Model.step Spec.spec_step]. rewrite (RepT_length _ _ _ _ _ _ HS).
    destruct ((l <=? r) && (r <? tn t)) eqn:E.
    + apply andb_true_iff in E. destruct E as [E1 E2]. apply Nat.leb_le in E1. apply Nat.ltb_lt in E2.
      destruct (modify_tree_correct _ _ _ _ _ _ _ _ LAW t vs l r m HS E1 E2) as (t' & -> & _ & HR). cbn. split; [exact HR|exact I].
    + unfold modify_range. rewrite E. cbn. split; [exact HS|exact I].
  - (* ask *) destruct st as [t|], a as [vs|]; try (cbn in HS; contradiction); [|cbn; split; [exact I|exact I]]; cbn in HS.
    cbn [step spec_step Model.step Spec.spec_step]. rewrite (RepT_length _ _ _ _ _ _ HS).
    destruct ((l <=? r) && (r <? tn t)) eqn:E.
    + apply andb_true_iff in E. destruct E as [E1 E2]. apply Nat.leb_le in E1. apply Nat.ltb_lt in E2.
      destruct (ask_tree_correct _ _ _ _ _ _ _ _ LAW dflt t vs l r HS E1 E2) as (t' & x & -> & _ & HR & Hx).
      cbn. split; [exact HR|exact Hx].
    + unfold ask. rewrite E. cbn. split; [exact HS|exact I].
  - (* lower_bound *) destruct st as [t|], a as [vs|]; try (cbn in HS; contradiction); [|cbn; split; [exact I|exact I]]; cbn in HS.
    cbn [step spec_step Model.step Spec.spec_step]. pose proof (RepT_length _ _ _ _ _ _ HS) as Hlen. rewrite Hlen.
    destruct (l <? tn t) eqn:E.
    2:{ unfold lower_bound. rewrite E. cbn. split; [exact HS|exact I]. }
    apply Nat.ltb_lt in E.
    assert (Hin : forall k, l <= k -> k < tn t -> In (k, range vs l k) (cands_fwd vmerge (obs dflt) vs l)).
    { intros k H1 H2. unfold cands_fwd. apply in_map_iff. exists k. split; [reflexivity|]. apply in_seq. lia. }
    assert (Hstate : exists t' res tr, lower_bound merge push dflt t l (interp_of p) = Some (t', res, tr) /\ RepT t' vs).
    { unfold lower_bound. apply Nat.ltb_lt in E. rewrite E.
      destruct (lb_t merge push (interp_of p) dflt (troot t) (tshape t) l (tn t - 1) 0 (tn t - 1))
        as [[[x' s'] [item' res]] tr] eqn:Eb.
      destruct HS as [Hn HR]. assert (Hb : l <= tn t - 1) by (apply Nat.ltb_lt in E; lia).
      destruct (lb_correct _ _ _ _ _ _ _ _ LAW (interp_of p) (pv p) (fun x => eq_refl) (obs dflt)
                  _ _ _ _ _ _ _ (fun k => vmerge (obs dflt) (Spec.vfold vmerge (obs dflt) (seg vs 0 l k))) _ _ _ _ _
                  HR (Nat.le_0_l _) Hb (fun k _ _ => eq_refl) Eb) as (HR' & _).
      eexists _, _, _. split; [reflexivity|]. split; [simpl; lia|exact HR']. }
    destruct Hstate as (t' & res & tr & Elb & HR'). rewrite Elb. cbn [fst snd].
    split; [exact HR'|]. cbn [Spec.out_match]. intros Hid.
    assert (Hid' : forall k, l <= k -> k < tn t -> vmerge (obs dflt) (range vs l k) = range vs l k).
    { intros k H1 H2. apply (Hid (k, range vs l k)). apply Hin; auto. }
    destruct (lower_bound_correct _ _ _ _ _ _ _ _ LAW dflt (interp_of p) (pv p) (fun x => eq_refl) t vs l HS E Hid')
      as (t2 & res2 & tr2 & Elb2 & _ & _ & Htr & Hres & Hmin).
    rewrite Elb in Elb2. injection Elb2 as <- <- <-.
    split.
    { intros x Hx. destruct (Htr x Hx) as (k & H1 & H2 & H3). exists (k, range vs l k). split; [apply Hin; auto|exact H3]. }
    intros Hmono. unfold cands_fwd in Hmono |- *. rewrite map_map in Hmono. cbn [snd] in Hmono.
    pose proof (monotone_seq pv p (fun k => range vs l k) _ _ Hmono) as Hm.
    assert (Hm' : forall j k, l <= j -> j <= k -> k < tn t -> pv p (range vs l j) = true -> pv p (range vs l k) = true).
    { intros j k ? ? ?. apply Hm; lia. }
    specialize (Hmin Hm').
    destruct res as [k|].
    + destruct Hres as (? & ? & ?).
      symmetry. apply (first_sat_some pv p (fun k => k) (fun k => range vs l k)); auto; lia.
    + symmetry. apply (first_sat_none pv p (fun k => k) (fun k => range vs l k)).
      intros j ? ?. apply Hmin; lia.
  - (* lower_bound_rev *) destruct st as [t|], a as [vs|]; try (cbn in HS; contradiction); [|cbn; split; [exact I|exact I]]; cbn in HS.
    cbn [step spec_step Model.step Spec.spec_step]. pose proof (RepT_length _ _ _ _ _ _ HS) as Hlen. rewrite Hlen.
    destruct (r <? tn t) eqn:E.
    2:{ unfold lower_bound_rev. rewrite E. cbn. split; [exact HS|exact I]. }
    apply Nat.ltb_lt in E.
    assert (Hcs : cands_rev vmerge (obs dflt) vs r = map (fun i => (r - i, range vs (r - i) r)) (seq 0 (S r))).
    { unfold cands_rev. rewrite Nat.add_1_r, rev_seq_0, map_map. reflexivity. }
    assert (Hin : forall k, k <= r -> In (k, range vs k r) (cands_rev vmerge (obs dflt) vs r)).
    { intros k H1. rewrite Hcs. apply in_map_iff. exists (r - k). split.
      - replace (r - (r - k)) with k by lia. reflexivity.
      - apply in_seq. lia. }
    assert (Hstate : exists t' res tr, lower_bound_rev merge push dflt t r (interp_of p) = Some (t', res, tr) /\ RepT t' vs).
    { unfold lower_bound_rev. apply Nat.ltb_lt in E. rewrite E.
      destruct (lbr_t merge push (interp_of p) dflt (troot t) (tshape t) 0 r 0 (tn t - 1))
        as [[[x' s'] [item' res]] tr] eqn:Eb.
      destruct HS as [Hn HR]. assert (Hb : r <= tn t - 1) by (apply Nat.ltb_lt in E; lia).
      destruct (lbr_correct _ _ _ _ _ _ _ _ LAW (interp_of p) (pv p) (fun x => eq_refl) (obs dflt)
                  _ _ _ _ _ _ _ (fun k => vmerge (Spec.vfold vmerge (obs dflt) (seg vs 0 k r)) (obs dflt)) _ _ _ _ _
                  HR (Nat.le_0_l _) Hb (fun k _ _ => eq_refl) Eb) as (HR' & _).
      eexists _, _, _. split; [reflexivity|]. split; [simpl; lia|exact HR']. }
    destruct Hstate as (t' & res & tr & Elb & HR'). rewrite Elb. cbn [fst snd].
    split; [exact HR'|]. cbn [Spec.out_match]. intros Hid.
    assert (Hid' : forall k, k <= r -> vmerge (range vs k r) (obs dflt) = range vs k r).
    { intros k H1. apply (Hid (k, range vs k r)). apply Hin; auto. }
    destruct (lower_bound_rev_correct _ _ _ _ _ _ _ _ LAW dflt (interp_of p) (pv p) (fun x => eq_refl) t vs r HS E Hid')
      as (t2 & res2 & tr2 & Elb2 & _ & _ & Htr & Hres & Hmin).
    rewrite Elb in Elb2. injection Elb2 as <- <- <-.
    split.
    { intros x Hx. destruct (Htr x Hx) as (k & H1 & H3). exists (k, range vs k r). split; [apply Hin; auto|exact H3]. }
    intros Hmono. rewrite Hcs in Hmono |- *. rewrite map_map in Hmono. cbn [snd] in Hmono.
    pose proof (monotone_seq pv p (fun i => range vs (r - i) r) _ _ Hmono) as Hm.
    assert (Hm' : forall j k, j <= k -> k <= r -> pv p (range vs k r) = true -> pv p (range vs j r) = true).
    { intros j k ? ? Hg. specialize (Hm (r - k) (r - j)). cbn beta in Hm.
      replace (r - (r - k)) with k in Hm by lia. replace (r - (r - j)) with j in Hm by lia.
      apply Hm; auto; lia. }
    specialize (Hmin Hm').
    destruct res as [k|].
    + destruct Hres as (? & ?).
      pose proof (first_sat_some pv p (fun i => r - i) (fun i => range vs (r - i) r) (S r) 0 (r - k)) as Hfs.
      cbn beta in Hfs. replace (r - (r - k)) with k in Hfs by lia.
      symmetry. apply Hfs; auto; try lia.
      intros j ? ?. apply Hmin; lia.
    + symmetry. apply (first_sat_none pv p (fun i => r - i) (fun i => range vs (r - i) r)).
      intros j ? ?. apply Hmin; lia.
  - (* debug *) destruct st as [t|], a as [vs|]; try (cbn in HS; contradiction); [|cbn; split; [exact I|exact I]]; cbn in HS.
    cbn [step spec_step Model.step Spec.spec_step].
    destruct (debug merge push t) as [t' xs] eqn:Ed.
    destruct (debug_correct _ _ _ _ _ _ _ _ LAW dflt t vs t' xs HS Ed) as (_ & HR & Hxs).
    cbn. split; [exact HR|exact Hxs].
Qed.

Theorem history_ok : forall ops st a, StRel st a ->
  Forall2 out_match (run st ops) (spec_run a ops).
Proof.
  induction ops as [|o ops IH]; intros st a HS; cbn [Model.run Spec.spec_run]; [constructor|].
  pose proof (step_ok st a o HS) as [HS' Hout].
  destruct (step st o) as [st' r]. destruct (spec_step a o) as [a' s]. cbn [fst snd] in *.
  constructor; [exact Hout|apply IH; exact HS'].
Qed.

End Hist.
