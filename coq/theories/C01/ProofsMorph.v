(** C01 — item morphisms commute with the whole segment tree; the two projections of the
    pair combinator are morphisms, so a Combinator tree is its two component trees run
    side by side.  Purely structural: no law of the interface is used. *)
From Coq Require Import List Arith Bool.
From RlibV Require Import C01.Model C01.Items.
Import ListNotations.
Arguments Nat.div : simpl never.

Section Morph.
Context {T T' M P : Type}.
Variable phi : T -> T'.
Variables (merge : T -> T -> T) (update : T -> T -> T -> T) (modify : T -> M -> T) (push : T -> T -> T -> T * T * T).
Variables (merge' : T' -> T' -> T') (update' : T' -> T' -> T' -> T') (modify' : T' -> M -> T')
          (push' : T' -> T' -> T' -> T' * T' * T').
Hypothesis Hm : forall a b, phi (merge a b) = merge' (phi a) (phi b).
Hypothesis Hu : forall x a b, phi (update x a b) = update' (phi x) (phi a) (phi b).
Hypothesis Hd : forall a m, phi (modify a m) = modify' (phi a) m.
Hypothesis Hp : forall x a b, push' (phi x) (phi a) (phi b) =
  (phi (fst (fst (push x a b))), phi (snd (fst (push x a b))), phi (snd (push x a b))).

Fixpoint smap (s : shape T) : shape T' :=
  match s with L => L | N l xl xr r => N (smap l) (phi xl) (phi xr) (smap r) end.
Definition tmap (t : tree T) : tree T' := @Tree T' (tn t) (phi (troot t)) (smap (tshape t)).

Lemma rebuild_morph fuel : forall x vl vr data,
  rebuild update' fuel (phi x) vl vr (map phi data) =
  match rebuild update fuel x vl vr data with
  | Some (y, s, rest) => Some (phi y, smap s, map phi rest)
  | None => None
  end.
Proof.
  induction fuel as [|fuel IH]; intros x vl vr data; cbn [rebuild].
  - destruct (vl =? vr); [|reflexivity]. destruct data; reflexivity.
  - destruct (vl =? vr); [destruct data; reflexivity|].
    rewrite IH. destruct (rebuild update fuel x vl ((vl + vr) / 2) data) as [[[xl lt] d1]|]; [|reflexivity].
    rewrite IH. destruct (rebuild update fuel x ((vl + vr) / 2 + 1) vr d1) as [[[xr rt] d2]|]; [|reflexivity].
    rewrite Hu. reflexivity.
Qed.

Lemma rebuild_empty_morph fuel : forall x vl vr,
  rebuild_empty update' fuel (phi x) vl vr =
  match rebuild_empty update fuel x vl vr with
  | Some (y, s) => Some (phi y, smap s)
  | None => None
  end.
Proof.
  induction fuel as [|fuel IH]; intros x vl vr; cbn [rebuild_empty].
  - destruct (vl =? vr); reflexivity.
  - destruct (vl =? vr); [reflexivity|].
    rewrite IH. destruct (rebuild_empty update fuel x vl ((vl + vr) / 2)) as [[xl lt]|]; [|reflexivity].
    rewrite IH. destruct (rebuild_empty update fuel x ((vl + vr) / 2 + 1) vr) as [[xr rt]|]; [|reflexivity].
    rewrite Hu. reflexivity.
Qed.

Ltac pushit x xl xr :=
  rewrite (Hp x xl xr); destruct (push x xl xr) as [[?x1 ?xl1] ?xr1]; cbn [fst snd].

Lemma set_morph s : forall x i v vl vr,
  set_t update' push' (phi x) (smap s) i (phi v) vl vr =
  let '(y, s') := set_t update push x s i v vl vr in (phi y, smap s').
Proof.
  induction s as [|lt IHl xl xr rt IHr]; intros x i v vl vr; cbn [set_t smap]; [reflexivity|].
  pushit x xl xr.
  destruct (i <=? (vl + vr) / 2).
  - rewrite IHl. destruct (set_t update push xl1 lt i v vl ((vl + vr) / 2)) as [y s']. rewrite Hu. reflexivity.
  - rewrite IHr. destruct (set_t update push xr1 rt i v ((vl + vr) / 2 + 1) vr) as [y s']. rewrite Hu. reflexivity.
Qed.

Lemma ask_morph s : forall x l r vl vr,
  ask_t merge' push' (phi x) (smap s) l r vl vr =
  let '(y, s', res) := ask_t merge push x s l r vl vr in (phi y, smap s', phi res).
Proof.
  induction s as [|lt IHl xl xr rt IHr]; intros x l r vl vr; cbn [ask_t smap]; [reflexivity|].
  destruct ((l =? vl) && (r =? vr)); [reflexivity|].
  pushit x xl xr.
  destruct (r <=? (vl + vr) / 2); [|destruct ((vl + vr) / 2 <? l)].
  - rewrite IHl. destruct (ask_t merge push xl1 lt l r vl ((vl + vr) / 2)) as [[y s'] res]. reflexivity.
  - rewrite IHr. destruct (ask_t merge push xr1 rt l r ((vl + vr) / 2 + 1) vr) as [[y s'] res]. reflexivity.
  - rewrite IHl. destruct (ask_t merge push xl1 lt l ((vl + vr) / 2) vl ((vl + vr) / 2)) as [[y s'] a].
    rewrite IHr. destruct (ask_t merge push xr1 rt ((vl + vr) / 2 + 1) r ((vl + vr) / 2 + 1) vr) as [[y2 s2] b].
    rewrite Hm. reflexivity.
Qed.

Lemma modify_morph s : forall x md l r vl vr,
  modify_t update' modify' push' (phi x) (smap s) md l r vl vr =
  let '(y, s') := modify_t update modify push x s md l r vl vr in (phi y, smap s').
Proof.
  induction s as [|lt IHl xl xr rt IHr]; intros x md l r vl vr; cbn [modify_t smap].
  - rewrite Hd. reflexivity.
  - destruct ((l =? vl) && (r =? vr)); [rewrite Hd; reflexivity|].
    pushit x xl xr.
    destruct (r <=? (vl + vr) / 2); [|destruct ((vl + vr) / 2 <? l)].
    + rewrite IHl. destruct (modify_t update modify push xl1 lt md l r vl ((vl + vr) / 2)) as [y s']. rewrite Hu. reflexivity.
    + rewrite IHr. destruct (modify_t update modify push xr1 rt md l r ((vl + vr) / 2 + 1) vr) as [y s']. rewrite Hu. reflexivity.
    + rewrite IHl. destruct (modify_t update modify push xl1 lt md l ((vl + vr) / 2) vl ((vl + vr) / 2)) as [y s'].
      rewrite IHr. destruct (modify_t update modify push xr1 rt md ((vl + vr) / 2 + 1) r ((vl + vr) / 2 + 1) vr) as [y2 s2].
      rewrite Hu. reflexivity.
Qed.

Section SearchMorph.
Variables (f : T -> bool) (f' : T' -> bool).
Hypothesis Hf : forall x, f x = f' (phi x).

Lemma lb_morph s : forall item x l r vl vr,
  lb_t merge' push' f' (phi item) (phi x) (smap s) l r vl vr =
  let '((y, s'), (it, res), tr) := lb_t merge push f item x s l r vl vr in
  ((phi y, smap s'), (phi it, res), map phi tr).
Proof.
  induction s as [|lt IHl xl xr rt IHr]; intros item x l r vl vr; cbn [lb_t smap].
  - rewrite <- Hm, <- Hf. destruct (negb (f (merge item x))); reflexivity.
  - rewrite <- Hm, <- Hf.
    destruct ((l =? vl) && (r =? vr) && negb (f (merge item x))); [reflexivity|].
    pushit x xl xr.
    destruct (l <=? (vl + vr) / 2).
    + rewrite IHl. destruct (lb_t merge push f item xl1 lt l ((vl + vr) / 2) vl ((vl + vr) / 2)) as [[[y s'] [li lres]] tr1].
      destruct lres as [k|].
      * destruct ((l =? vl) && (r =? vr)); cbn [app map]; rewrite ?map_app; reflexivity.
      * rewrite IHr. destruct (lb_t merge push f li xr1 rt (Nat.max l ((vl + vr) / 2 + 1)) r ((vl + vr) / 2 + 1) vr) as [[[y2 s2] res2] tr2].
        destruct res2 as [ri rres].
        destruct ((l =? vl) && (r =? vr)); cbn [app map]; rewrite ?map_app; reflexivity.
    + rewrite IHr. destruct (lb_t merge push f item xr1 rt (Nat.max l ((vl + vr) / 2 + 1)) r ((vl + vr) / 2 + 1) vr) as [[[y2 s2] res2] tr2].
      destruct res2 as [ri rres].
      destruct ((l =? vl) && (r =? vr)); cbn [app map]; rewrite ?map_app; reflexivity.
Qed.

Lemma lbr_morph s : forall item x l r vl vr,
  lbr_t merge' push' f' (phi item) (phi x) (smap s) l r vl vr =
  let '((y, s'), (it, res), tr) := lbr_t merge push f item x s l r vl vr in
  ((phi y, smap s'), (phi it, res), map phi tr).
Proof.
  induction s as [|lt IHl xl xr rt IHr]; intros item x l r vl vr; cbn [lbr_t smap].
  - rewrite <- Hm, <- Hf. destruct (negb (f (merge x item))); reflexivity.
  - rewrite <- Hm, <- Hf.
    destruct ((l =? vl) && (r =? vr) && negb (f (merge x item))); [reflexivity|].
    pushit x xl xr.
    destruct ((vl + vr) / 2 <? r).
    + rewrite IHr. destruct (lbr_t merge push f item xr1 rt ((vl + vr) / 2 + 1) r ((vl + vr) / 2 + 1) vr) as [[[y s'] [ri rres]] tr1].
      destruct rres as [k|].
      * destruct ((l =? vl) && (r =? vr)); cbn [app map]; rewrite ?map_app; reflexivity.
      * rewrite IHl. destruct (lbr_t merge push f ri xl1 lt l (Nat.min r ((vl + vr) / 2)) vl ((vl + vr) / 2)) as [[[y2 s2] res2] tr2].
        destruct res2 as [li lres].
        destruct ((l =? vl) && (r =? vr)); cbn [app map]; rewrite ?map_app; reflexivity.
    + rewrite IHl. destruct (lbr_t merge push f item xl1 lt l (Nat.min r ((vl + vr) / 2)) vl ((vl + vr) / 2)) as [[[y2 s2] res2] tr2].
      destruct res2 as [li lres].
      destruct ((l =? vl) && (r =? vr)); cbn [app map]; rewrite ?map_app; reflexivity.
Qed.
End SearchMorph.

(** ---- the public interface and histories ---- *)
Definition omap (o : op T M P) : op T' M P :=
  match o with
  | ONew n v => ONew n (phi v)
  | OFromSlice xs => OFromSlice (map phi xs)
  | OFromIter xs => OFromIter (map phi xs)
  | OSet i v => OSet i (phi v)
  | OModify l r m => OModify l r m
  | OAsk l r => OAsk l r
  | OLowerBound l p => OLowerBound l p
  | OLowerBoundRev r p => OLowerBoundRev r p
  | ODebug => ODebug
  end.
Definition rmap (r : out T) : out T' :=
  match r with
  | OUnit => OUnit
  | OPanic => OPanic
  | OItem x => OItem (phi x)
  | OItems xs => OItems (map phi xs)
  | OBound res tr => OBound res (map phi tr)
  end.

Variables (interp : P -> T -> bool) (interp' : P -> T' -> bool).
Variables (dflt : T).

(** the predicates of the searches in [ops] only look at the image under [phi] *)
Definition search_ok (o : op T M P) : Prop :=
  match o with
  | OLowerBound _ p | OLowerBoundRev _ p => forall x, interp p x = interp' p (phi x)
  | _ => True
  end.

Lemma ask_tree_morph t l r :
  ask merge' push' (tmap t) l r =
  match ask merge push t l r with Some (t', x) => Some (tmap t', phi x) | None => None end.
Proof.
  unfold ask. cbn [tmap tn troot tshape]. destruct ((l <=? r) && (r <? tn t)); [|reflexivity].
  rewrite ask_morph. destruct (ask_t merge push (troot t) (tshape t) l r 0 (tn t - 1)) as [[y s'] res]. reflexivity.
Qed.

Lemma debug_from_morph k : forall t i,
  debug_from merge' push' (tmap t) i k =
  let '(t', xs) := debug_from merge push t i k in (tmap t', map phi xs).
Proof.
  induction k as [|k IH]; intros t i; cbn [debug_from]; [reflexivity|].
  rewrite ask_tree_morph. destruct (ask merge push t i i) as [[t1 x]|]; [|reflexivity].
  rewrite IH. destruct (debug_from merge push t1 (S i) k) as [t2 xs]. reflexivity.
Qed.

Definition stmap (st : option (tree T)) : option (tree T') :=
  match st with Some t => Some (tmap t) | None => None end.

Lemma lift_morph st (r : option (tree T)) :
  lift (stmap st) (stmap r) = (stmap (fst (lift st r)), rmap (snd (lift st r))).
Proof. destruct r; reflexivity. Qed.

Lemma step_morph st o : search_ok o ->
  step merge' update' modify' push' interp' (phi dflt) (stmap st) (omap o) =
  (stmap (fst (step merge update modify push interp dflt st o)),
   rmap (snd (step merge update modify push interp dflt st o))).
Proof.
  intros Hs. destruct o as [n v|xs|xs|i v|l r m|l r|l p|r p|]; cbn [step omap].
  - rewrite <- lift_morph. f_equal. unfold new. destruct (n =? 0); [reflexivity|].
    rewrite rebuild_empty_morph. destruct (rebuild_empty update n v 0 (n - 1)) as [[y s]|]; reflexivity.
  - rewrite <- lift_morph. f_equal. unfold from_slice. destruct xs as [|d0 xs]; [reflexivity|].
    cbn [map].
    replace (length (phi d0 :: map phi xs)) with (length (d0 :: xs)) by (cbn [length]; now rewrite map_length).
    change (phi d0 :: map phi xs) with (map phi (d0 :: xs)).
    rewrite rebuild_morph. destruct (rebuild update (length (d0 :: xs)) d0 0 (length (d0 :: xs) - 1) (d0 :: xs)) as [[[y s] rest]|]; reflexivity.
  - rewrite <- lift_morph. f_equal. unfold from_iter. rewrite map_length. destruct (length xs =? 0); [reflexivity|].
    rewrite rebuild_morph. destruct (rebuild update (length xs) dflt 0 (length xs - 1) xs) as [[[y s] rest]|]; reflexivity.
  - destruct st as [t|]; [|reflexivity]. cbn [stmap]. rewrite <- (lift_morph (Some t)). f_equal.
    unfold set. cbn [tmap tn troot tshape]. destruct (i <? tn t); [|reflexivity].
    rewrite set_morph. destruct (set_t update push (troot t) (tshape t) i v 0 (tn t - 1)) as [y s']. reflexivity.
  - destruct st as [t|]; [|reflexivity]. cbn [stmap]. rewrite <- (lift_morph (Some t)). f_equal.
    unfold modify_range. cbn [tmap tn troot tshape]. destruct ((l <=? r) && (r <? tn t)); [|reflexivity].
    rewrite modify_morph. destruct (modify_t update modify push (troot t) (tshape t) m l r 0 (tn t - 1)) as [y s']. reflexivity.
  - destruct st as [t|]; [|reflexivity]. cbn [stmap]. rewrite ask_tree_morph.
    destruct (ask merge push t l r) as [[t' x]|]; reflexivity.
  - destruct st as [t|]; [|reflexivity]. cbn [stmap]. cbn [search_ok] in Hs.
    unfold lower_bound. cbn [tmap tn troot tshape]. destruct (l <? tn t); [|reflexivity].
    rewrite (lb_morph (interp p) (interp' p) Hs).
    destruct (lb_t merge push (interp p) dflt (troot t) (tshape t) l (tn t - 1) 0 (tn t - 1)) as [[[y s'] [it res]] tr].
    reflexivity.
  - destruct st as [t|]; [|reflexivity]. cbn [stmap]. cbn [search_ok] in Hs.
    unfold lower_bound_rev. cbn [tmap tn troot tshape]. destruct (r <? tn t); [|reflexivity].
    rewrite (lbr_morph (interp p) (interp' p) Hs).
    destruct (lbr_t merge push (interp p) dflt (troot t) (tshape t) 0 r 0 (tn t - 1)) as [[[y s'] [it res]] tr].
    reflexivity.
  - destruct st as [t|]; [|reflexivity]. cbn [stmap]. unfold debug. cbn [tmap tn].
    change (@Tree T' (tn t) (phi (troot t)) (smap (tshape t))) with (tmap t).
    rewrite debug_from_morph. destruct (debug_from merge push t 0 (tn t)) as [t' xs]. reflexivity.
Qed.

Theorem run_morph ops : forall st, Forall search_ok ops ->
  run merge' update' modify' push' interp' (phi dflt) (stmap st) (map omap ops) =
  map rmap (run merge update modify push interp dflt st ops).
Proof.
  induction ops as [|o ops IH]; intros st Hall; cbn [run map]; [reflexivity|].
  inversion Hall as [|? ? Ho Hrest]; subst.
  rewrite (step_morph st o Ho).
  destruct (step merge update modify push interp dflt st o) as [st' r]. cbn [fst snd map].
  f_equal. apply IH. exact Hrest.
Qed.
End Morph.

(** ---- the pair combinator: both projections are morphisms ---- *)
Section SideBySide.
Context {U W M P : Type}.
Variables (mu : U -> U -> U) (du : U -> M -> U) (pu : U -> U -> U -> U * U * U).
Variables (mw : W -> W -> W) (dw : W -> M -> W) (pw : W -> W -> W -> W * W * W).
Variables (interp : P -> U * W -> bool) (iu : P -> U -> bool) (iw : P -> W -> bool).
Variables (d0 : U) (d1 : W).

Local Notation cm := (comb_merge mu mw).
Local Notation crun := (run cm (upd_of cm) (comb_modify du dw) (comb_push pu pw) interp (d0, d1) None).

Lemma comb_push_fst x a b :
  pu (fst x) (fst a) (fst b) =
  (fst (fst (fst (comb_push pu pw x a b))), fst (snd (fst (comb_push pu pw x a b))), fst (snd (comb_push pu pw x a b))).
Proof.
  unfold comb_push. destruct (pu (fst x) (fst a) (fst b)) as [[x0 l0] r0].
  destruct (pw (snd x) (snd a) (snd b)) as [[x1 l1] r1]. reflexivity.
Qed.
Lemma comb_push_snd x a b :
  pw (snd x) (snd a) (snd b) =
  (snd (fst (fst (comb_push pu pw x a b))), snd (snd (fst (comb_push pu pw x a b))), snd (snd (comb_push pu pw x a b))).
Proof.
  unfold comb_push. destruct (pu (fst x) (fst a) (fst b)) as [[x0 l0] r0].
  destruct (pw (snd x) (snd a) (snd b)) as [[x1 l1] r1]. reflexivity.
Qed.

(** Running [Combinator U W] and projecting every output on a component = running that
    component alone on the projected inputs (searches included whenever their predicate
    looks at that component only; histories without searches: unconditionally). *)
Theorem combinator_side_by_side (ops : list (op (U * W) M P)) :
  (Forall (search_ok fst interp iu) ops ->
   map (rmap fst) (crun ops) = run mu (upd_of mu) du pu iu d0 None (map (omap fst) ops)) /\
  (Forall (search_ok snd interp iw) ops ->
   map (rmap snd) (crun ops) = run mw (upd_of mw) dw pw iw d1 None (map (omap snd) ops)).
Proof.
  split; intros Hall.
  - symmetry.
    exact (run_morph fst cm (upd_of cm) (comb_modify du dw) (comb_push pu pw) mu (upd_of mu) du pu
             (fun a b => eq_refl) (fun x a b => eq_refl) (fun a m => eq_refl) comb_push_fst
             interp iu (d0, d1) ops None Hall).
  - symmetry.
    exact (run_morph snd cm (upd_of cm) (comb_modify du dw) (comb_push pu pw) mw (upd_of mw) dw pw
             (fun a b => eq_refl) (fun x a b => eq_refl) (fun a m => eq_refl) comb_push_snd
             interp iw (d0, d1) ops None Hall).
Qed.
End SideBySide.
