(** C01 — correspondence cases.  One case = one history on one item type: the operations
    fed to the real [Segtree] and everything it returned (every [ask] result with all its
    fields, the [debug()] items, every boundary-search result together with the arguments
    the closure received).
    [model_check]: the tree model reproduces every observation exactly (lazy tags included).
    [spec_check]:  the observations agree with the plain-array specification (Spec.v),
                   which knows nothing about the tree. *)
From Coq Require Import ZArith List Bool Arith.
From RlibV Require Import C01.Model C01.Items C01.Spec.
Import ListNotations.
Open Scope Z_scope.

(** predicates handed to lower_bound / lower_bound_rev, as data *)
Inductive pred :=
| PTrue | PFalse
| PGe (k : Z) | PLe (k : Z)
| PFst (p : pred) | PSnd (p : pred)
| PNotPrefix (w : str) | PLenGe (k : Z).

Definition pz (p : pred) (v : Z) : bool :=
  match p with PTrue => true | PFalse => false | PGe k => k <=? v | PLe k => v <=? k | _ => false end.
Definition ppair {A B} (pa : pred -> A -> bool) (pb : pred -> B -> bool) (p : pred) (v : A * B) : bool :=
  match p with
  | PTrue => true | PFalse => false
  | PFst q => pa q (fst v) | PSnd q => pb q (snd v)
  | _ => false
  end.
Fixpoint is_prefix (s w : str) : bool :=
  match s, w with
  | [], _ => true
  | a :: s', b :: w' => (a =? b) && is_prefix s' w'
  | _ :: _, [] => false
  end.
Definition pcat (p : pred) (v : list str) : bool :=
  match p with
  | PTrue => true | PFalse => false
  | PNotPrefix w => negb (is_prefix (List.concat v) w)
  | PLenGe k => k <=? Z.of_nat (length (List.concat v))
  | _ => false
  end.

(** Sum<Cat>: the observable value is one string *)
Definition pstr (p : pred) (v : str) : bool :=
  match p with
  | PTrue => true | PFalse => false
  | PNotPrefix w => negb (is_prefix v w)
  | PLenGe k => k <=? Z.of_nat (length v)
  | _ => false
  end.

(** everything that defines one item type *)
Record kit (T M V : Type) := Kit {
  k_merge : T -> T -> T;
  k_update : T -> T -> T -> T;
  k_modify : T -> M -> T;
  k_push : T -> T -> T -> T * T * T;
  k_dflt : T;
  k_teqb : T -> T -> bool;
  k_obs : T -> V;
  k_vmerge : V -> V -> V;
  k_act : M -> V -> V;
  k_veqb : V -> V -> bool;
  k_pv : pred -> V -> bool }.
Arguments Kit {T M V}.
Arguments k_merge {T M V}. Arguments k_update {T M V}. Arguments k_modify {T M V}. Arguments k_push {T M V}.
Arguments k_dflt {T M V}. Arguments k_teqb {T M V}. Arguments k_obs {T M V}. Arguments k_vmerge {T M V}.
Arguments k_act {T M V}. Arguments k_veqb {T M V}. Arguments k_pv {T M V}.

Definition idZ (z : Z) : Z := z.
Definition kit_min : kit Z unit Z :=
  Kit min_merge (upd_of min_merge) nomodify nopush i64_max Z.eqb idZ min_merge noact Z.eqb pz.
Definition kit_max : kit Z unit Z :=
  Kit max_merge (upd_of max_merge) nomodify nopush i64_min Z.eqb idZ max_merge noact Z.eqb pz.
Definition kit_sum : kit Z unit Z :=
  Kit sum_merge (upd_of sum_merge) nomodify nopush 0 Z.eqb idZ sum_merge noact Z.eqb pz.
Definition kit_minadd : kit vadd Z Z :=
  Kit minadd_merge (upd_of minadd_merge) va_modify va_push (VA i64_max 0) va_eqb va_v min_merge add_act Z.eqb pz.
Definition kit_maxadd : kit vadd Z Z :=
  Kit maxadd_merge (upd_of maxadd_merge) va_modify va_push (VA i64_min 0) va_eqb va_v max_merge add_act Z.eqb pz.
Definition kit_sumadd : kit sumadd Z (Z * Z) :=
  Kit sa_merge (upd_of sa_merge) sa_modify sa_push (SA 0 0 0) sa_eqb sa_obs sa_vmerge sa_act zz_eqb (ppair pz pz).
Definition kit_comb {T1 T2 M V1 V2} (a : kit T1 M V1) (b : kit T2 M V2) : kit (T1 * T2) M (V1 * V2) :=
  let mg := comb_merge (k_merge a) (k_merge b) in
  Kit mg (upd_of mg)
      (comb_modify (k_modify a) (k_modify b)) (comb_push (k_push a) (k_push b))
      (k_dflt a, k_dflt b) (pair_eqb (k_teqb a) (k_teqb b))
      (pair_obs (k_obs a) (k_obs b)) (pair_vmerge (k_vmerge a) (k_vmerge b))
      (pair_act (k_act a) (k_act b)) (pair_eqb (k_veqb a) (k_veqb b))
      (ppair (k_pv a) (k_pv b)).
Definition kit_comb2 := kit_comb kit_minadd kit_maxadd.
Definition kit_comb3 := kit_comb kit_comb2 kit_sumadd.
Definition kit_concat : kit concat cmod (list str) :=
  Kit cc_merge (upd_of cc_merge) cc_modify cc_push cc_default cc_eqb cc_obs cc_vmerge cc_act
      (list_eqb str_eqb) pcat.
Definition kit_affine : kit affine (Z * Z) (Z * Z) :=
  Kit af_merge (upd_of af_merge) af_modify af_push af_default af_eqb af_obs af_vmerge af_act zz_eqb (ppair pz pz).
(** observable value (ones, len); the value algebra of the merge is that of SumAdd's (componentwise +) *)
Definition kit_flip : kit flip unit (Z * Z) :=
  Kit fl_merge (upd_of fl_merge) fl_modify fl_push fl_default fl_eqb fl_obs sa_vmerge fl_act zz_eqb (ppair pz pz).

(** element types where equal-comparing values are distinguishable: (key, id), predicates [PFst] on the key, [PSnd] on the id *)
Definition kit_minkey : kit (Z * Z) unit (Z * Z) :=
  Kit kmin_merge (upd_of kmin_merge) nomodify nopush keyed_max zz_eqb (fun v => v) kmin_merge noact zz_eqb (ppair pz pz).
Definition kit_maxkey : kit (Z * Z) unit (Z * Z) :=
  Kit kmax_merge (upd_of kmax_merge) nomodify nopush keyed_min zz_eqb (fun v => v) kmax_merge noact zz_eqb (ppair pz pz).
Definition kit_minf : kit (Z * Z) unit (Z * Z) :=
  Kit kmin_merge (upd_of kmin_merge) nomodify nopush f64k_max zz_eqb (fun v => v) kmin_merge noact zz_eqb (ppair pz pz).
Definition kit_maxf : kit (Z * Z) unit (Z * Z) :=
  Kit kmax_merge (upd_of kmax_merge) nomodify nopush f64k_min zz_eqb (fun v => v) kmax_merge noact zz_eqb (ppair pz pz).
Definition kit_minaddkey : kit kvadd (Z * Z) (Z * Z) :=
  Kit kminadd_merge (upd_of kminadd_merge) kva_modify kva_push (KVA keyed_max (0, 0)) kva_eqb kva_v kmin_merge kadd_act zz_eqb (ppair pz pz).
Definition kit_maxaddkey : kit kvadd (Z * Z) (Z * Z) :=
  Kit kmaxadd_merge (upd_of kmaxadd_merge) kva_modify kva_push (KVA keyed_min (0, 0)) kva_eqb kva_v kmax_merge kadd_act zz_eqb (ppair pz pz).
Definition kit_sumcat : kit str unit str :=
  Kit cat_merge (upd_of cat_merge) nomodify nopush [] str_eqb (fun v => v) cat_merge noact str_eqb pstr.
(** Combinator<Concat, Concat>: both components non-commutative and lazy *)
Definition kit_combcat := kit_comb kit_concat kit_concat.
(** Combinator<Min, Combinator<Max, Sum>>: right-nested, M = () *)
Definition kit_combunit := kit_comb kit_min (kit_comb kit_max kit_sum).
(** Combinator<Flip, Sum>: a lazy and a non-lazy component under M = () *)
Definition kit_combflip := kit_comb kit_flip kit_sum.

Definition hist (T M : Type) : Type := list (op T M pred) * list (out T).

Section Check.
Context {T M V : Type}.
Variable k : kit T M V.

Definition k_interp (p : pred) (x : T) : bool := k_pv k p (k_obs k x).

Definition out_eqb (a b : out T) : bool :=
  match a, b with
  | OUnit, OUnit => true
  | OPanic, OPanic => true
  | OItem x, OItem y => k_teqb k x y
  | OItems xs, OItems ys => list_eqb (k_teqb k) xs ys
  | OBound r tr, OBound r' tr' => onat_eqb r r' && list_eqb (k_teqb k) tr tr'
  | _, _ => false
  end.

Definition model_outs (ops : list (op T M pred)) : list (out T) :=
  run (k_merge k) (k_update k) (k_modify k) (k_push k) k_interp (k_dflt k) None ops.
Definition spec_outs (ops : list (op T M pred)) : list (sout V pred) :=
  spec_run (k_obs k) (k_vmerge k) (k_act k) (k_obs k (k_dflt k)) None ops.

Definition model_check_k (h : hist T M) : bool := all2 out_eqb (model_outs (fst h)) (snd h).
Definition spec_check_k (chk_ask chk_bound : bool) (h : hist T M) : bool :=
  all2 (out_matchb (k_obs k) (k_vmerge k) (k_pv k) (k_obs k (k_dflt k)) (k_veqb k) chk_ask chk_bound)
       (snd h) (spec_outs (fst h)).
End Check.

Inductive case :=
| CMin (h : hist Z unit)
| CMax (h : hist Z unit)
| CSum (h : hist Z unit)
| CMinAdd (h : hist vadd Z)
| CMaxAdd (h : hist vadd Z)
| CSumAdd (h : hist sumadd Z)
| CComb2 (h : hist (vadd * vadd) Z)
| CComb3 (h : hist ((vadd * vadd) * sumadd) Z)
| CConcat (h : hist concat cmod)
| CAffine (h : hist affine (Z * Z))
| CFlip (h : hist flip unit)
| CMinKey (h : hist (Z * Z) unit)
| CMaxKey (h : hist (Z * Z) unit)
| CMinF (h : hist (Z * Z) unit)
| CMaxF (h : hist (Z * Z) unit)
| CMinAddKey (h : hist kvadd (Z * Z))
| CMaxAddKey (h : hist kvadd (Z * Z))
| CSumCat (h : hist str unit)
| CCombCat (h : hist (concat * concat) cmod)
| CCombUnit (h : hist (Z * (Z * Z)) unit)
| CCombFlip (h : hist (flip * Z) unit).

Definition model_check (c : case) : bool :=
  match c with
  | CMin h => model_check_k kit_min h
  | CMax h => model_check_k kit_max h
  | CSum h => model_check_k kit_sum h
  | CMinAdd h => model_check_k kit_minadd h
  | CMaxAdd h => model_check_k kit_maxadd h
  | CSumAdd h => model_check_k kit_sumadd h
  | CComb2 h => model_check_k kit_comb2 h
  | CComb3 h => model_check_k kit_comb3 h
  | CConcat h => model_check_k kit_concat h
  | CAffine h => model_check_k kit_affine h
  | CFlip h => model_check_k kit_flip h
  | CMinKey h => model_check_k kit_minkey h
  | CMaxKey h => model_check_k kit_maxkey h
  | CMinF h => model_check_k kit_minf h
  | CMaxF h => model_check_k kit_maxf h
  | CMinAddKey h => model_check_k kit_minaddkey h
  | CMaxAddKey h => model_check_k kit_maxaddkey h
  | CSumCat h => model_check_k kit_sumcat h
  | CCombCat h => model_check_k kit_combcat h
  | CCombUnit h => model_check_k kit_combunit h
  | CCombFlip h => model_check_k kit_combflip h
  end.

Definition spec_check_gen (ca cb : bool) (c : case) : bool :=
  match c with
  | CMin h => spec_check_k kit_min ca cb h
  | CMax h => spec_check_k kit_max ca cb h
  | CSum h => spec_check_k kit_sum ca cb h
  | CMinAdd h => spec_check_k kit_minadd ca cb h
  | CMaxAdd h => spec_check_k kit_maxadd ca cb h
  | CSumAdd h => spec_check_k kit_sumadd ca cb h
  | CComb2 h => spec_check_k kit_comb2 ca cb h
  | CComb3 h => spec_check_k kit_comb3 ca cb h
  | CConcat h => spec_check_k kit_concat ca cb h
  | CAffine h => spec_check_k kit_affine ca cb h
  | CFlip h => spec_check_k kit_flip ca cb h
  | CMinKey h => spec_check_k kit_minkey ca cb h
  | CMaxKey h => spec_check_k kit_maxkey ca cb h
  | CMinF h => spec_check_k kit_minf ca cb h
  | CMaxF h => spec_check_k kit_maxf ca cb h
  | CMinAddKey h => spec_check_k kit_minaddkey ca cb h
  | CMaxAddKey h => spec_check_k kit_maxaddkey ca cb h
  | CSumCat h => spec_check_k kit_sumcat ca cb h
  | CCombCat h => spec_check_k kit_combcat ca cb h
  | CCombUnit h => spec_check_k kit_combunit ca cb h
  | CCombFlip h => spec_check_k kit_combflip ca cb h
  end.

(** C01: every query answer and every debug() listing equals the plain array's *)
Definition spec_check (c : case) : bool := spec_check_gen true false c.

(** for replay files: the model's outputs, then the specification's *)
Definition explain_k {T M V} (k : kit T M V) (h : hist T M) :=
  (model_outs k (fst h), spec_outs k (fst h)).
Inductive explained :=
| EZ (x : list (out Z) * list (sout Z pred))
| EVA (x : list (out vadd) * list (sout Z pred))
| ESA (x : list (out sumadd) * list (sout (Z * Z) pred))
| EC2 (x : list (out (vadd * vadd)) * list (sout (Z * Z) pred))
| EC3 (x : list (out ((vadd * vadd) * sumadd)) * list (sout ((Z * Z) * (Z * Z)) pred))
| ECC (x : list (out concat) * list (sout (list str) pred))
| EAF (x : list (out affine) * list (sout (Z * Z) pred))
| EFL (x : list (out flip) * list (sout (Z * Z) pred))
| EKZ (x : list (out (Z * Z)) * list (sout (Z * Z) pred))
| EKA (x : list (out kvadd) * list (sout (Z * Z) pred))
| ESC (x : list (out str) * list (sout str pred))
| ECT (x : list (out (concat * concat)) * list (sout (list str * list str) pred))
| ECU (x : list (out (Z * (Z * Z))) * list (sout (Z * (Z * Z)) pred))
| ECF (x : list (out (flip * Z)) * list (sout ((Z * Z) * Z) pred)).
Definition explain (c : case) : explained :=
  match c with
  | CMin h => EZ (explain_k kit_min h)
  | CMax h => EZ (explain_k kit_max h)
  | CSum h => EZ (explain_k kit_sum h)
  | CMinAdd h => EVA (explain_k kit_minadd h)
  | CMaxAdd h => EVA (explain_k kit_maxadd h)
  | CSumAdd h => ESA (explain_k kit_sumadd h)
  | CComb2 h => EC2 (explain_k kit_comb2 h)
  | CComb3 h => EC3 (explain_k kit_comb3 h)
  | CConcat h => ECC (explain_k kit_concat h)
  | CAffine h => EAF (explain_k kit_affine h)
  | CFlip h => EFL (explain_k kit_flip h)
  | CMinKey h => EKZ (explain_k kit_minkey h)
  | CMaxKey h => EKZ (explain_k kit_maxkey h)
  | CMinF h => EKZ (explain_k kit_minf h)
  | CMaxF h => EKZ (explain_k kit_maxf h)
  | CMinAddKey h => EKA (explain_k kit_minaddkey h)
  | CMaxAddKey h => EKA (explain_k kit_maxaddkey h)
  | CSumCat h => ESC (explain_k kit_sumcat h)
  | CCombCat h => ECT (explain_k kit_combcat h)
  | CCombUnit h => ECU (explain_k kit_combunit h)
  | CCombFlip h => ECF (explain_k kit_combflip h)
  end.
