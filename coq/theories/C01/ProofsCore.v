(** C01 — the representation invariant and the per-operation refinement lemmas,
    for every lawful item. *)
From Coq Require Import List Arith Lia Bool.
From RlibV Require Import C01.Model C01.Spec C01.Laws.
Import ListNotations.
Arguments Nat.div : simpl never.
Arguments Nat.modulo : simpl never.

Section Core.
Context {T M V : Type}.
Variable merge : T -> T -> T.
Variable update : T -> T -> T -> T.
Variable modify : T -> M -> T.
Variable push : T -> T -> T -> T * T * T.
Variable obs : T -> V.
Variable vmerge : V -> V -> V.
Variable act : M -> V -> V.
Variable Pending : T -> list M -> Prop.
Hypothesis LAW : lawful merge update modify push obs vmerge act Pending.

Local Notation acts := (acts act).
Local Notation vfold1 := (vfold1 vmerge).
Local Notation vfold := (vfold vmerge).
Local Notation shape := (shape T).

Let vmerge_assoc := vmerge_assoc _ _ _ _ _ _ _ _ LAW.
Let obs_merge := obs_merge _ _ _ _ _ _ _ _ LAW.
Let obs_update := obs_update _ _ _ _ _ _ _ _ LAW.
Let obs_modify := obs_modify _ _ _ _ _ _ _ _ LAW.
Let act_vmerge := act_vmerge _ _ _ _ _ _ _ _ LAW.
Let pend_update := pend_update _ _ _ _ _ _ _ _ LAW.
Let pend_modify := pend_modify _ _ _ _ _ _ _ _ LAW.
Let push_law := push_law _ _ _ _ _ _ _ _ LAW.

(** [Rep x s vl vr vs]: the node item [x] with the shape [s] below it covers the positions
    [vl..vr] and denotes the logical values [vs]; an inner node's item observes the merge
    of its range, and what its children denote still has to receive the pending modifiers. *)
Inductive Rep : T -> shape -> nat -> nat -> list V -> Prop :=
| RepL x vl : Rep x L vl vl [obs x]
| RepN x lt xl xr rt vl vr ms ls rs :
    vl < vr ->
    Pending x ms ->
    Rep xl lt vl ((vl + vr) / 2) ls ->
    Rep xr rt ((vl + vr) / 2 + 1) vr rs ->
    (forall d, obs x = vfold d (map (acts ms) (ls ++ rs))) ->
    Rep x (N lt xl xr rt) vl vr (map (acts ms) (ls ++ rs)).

Lemma mid_bounds vl vr : vl < vr -> vl <= (vl + vr) / 2 /\ (vl + vr) / 2 < vr.
Proof. intros. split. apply Nat.div_le_lower_bound; lia. apply Nat.div_lt_upper_bound; lia. Qed.

Lemma Rep_length x s vl vr vs : Rep x s vl vr vs -> length vs = vr - vl + 1 /\ vl <= vr.
Proof.
  induction 1 as [|x lt xl xr rt vl vr ms ls rs Hlt Hp H1 [IH1 IH1'] H2 [IH2 IH2'] Ho].
  - simpl. lia.
  - rewrite map_length, app_length. pose proof (mid_bounds _ _ Hlt). lia.
Qed.

(** the shape is a leaf exactly when the code's test [vl == vr] succeeds *)
Lemma Rep_leaf_iff x s vl vr vs : Rep x s vl vr vs -> (s = L <-> vl = vr).
Proof. destruct 1; split; intro; try discriminate; try reflexivity; lia. Qed.

Lemma Rep_top x s vl vr vs : Rep x s vl vr vs -> forall d, obs x = vfold d vs.
Proof. destruct 1; simpl; auto. Qed.

Lemma acts_app ms ps v : acts (ps ++ ms) v = acts ms (acts ps v).
Proof. unfold Laws.acts. now rewrite fold_left_app. Qed.

Lemma acts_vmerge ms a b : acts ms (vmerge a b) = vmerge (acts ms a) (acts ms b).
Proof.
  revert a b; induction ms as [|m ms IH]; intros a b; simpl; auto.
  unfold Laws.acts in *. simpl. rewrite act_vmerge. apply IH.
Qed.

Lemma acts_vfold1 ms v vs : acts ms (vfold1 v vs) = vfold1 (acts ms v) (map (acts ms) vs).
Proof. revert v; induction vs as [|w ws IH]; intros v; simpl; auto. rewrite acts_vmerge, IH. reflexivity. Qed.

Lemma vfold1_app v xs w ys : vfold1 v (xs ++ w :: ys) = vmerge (vfold1 v xs) (vfold1 w ys).
Proof. revert v; induction xs as [|x xs IH]; intros v; simpl; auto. rewrite IH. apply vmerge_assoc. Qed.

Lemma Rep_push_child x s vl vr vs ms a' :
  Rep x s vl vr vs ->
  obs a' = acts ms (obs x) ->
  (forall ps, Pending x ps -> Pending a' (ps ++ ms)) ->
  Rep a' s vl vr (map (acts ms) vs).
Proof.
  intros H Ho Hp. destruct H as [x vl|x lt xl xr rt vl vr ps ls rs Hlt Hpx H1 H2 Hox]; simpl in *.
  - rewrite <- Ho. constructor.
  - rewrite map_map.
    rewrite (map_ext _ (acts (ps ++ ms))) by (intros; now rewrite acts_app).
    econstructor; eauto.
    intros d. rewrite Ho. rewrite (Hox d).
    destruct (ls ++ rs) as [|v vs] eqn:E.
    + apply Rep_length in H1. destruct ls; simpl in *; [lia|discriminate].
    + simpl. rewrite acts_vfold1. rewrite map_map.
      rewrite (map_ext _ (acts (ps ++ ms))) by (intros; now rewrite acts_app).
      now rewrite acts_app.
Qed.

Lemma map_acts_nil (vs : list V) : map (acts []) vs = vs.
Proof. induction vs; simpl; congruence. Qed.

(** ---- list lemmas about [seg] / [upd_seg] / [upd_at] ---- *)
Lemma seg_left (ls rs : list V) vl m l r : length ls = m - vl + 1 -> vl <= l -> l <= r -> r <= m ->
  seg (ls ++ rs) vl l r = seg ls vl l r.
Proof.
  intros. unfold seg. rewrite skipn_app. rewrite firstn_app.
  rewrite skipn_length.
  replace (r - l + 1 - (length ls - (l - vl))) with 0 by lia. simpl. now rewrite app_nil_r.
Qed.

Lemma seg_right (ls rs : list V) vl m l r : length ls = m - vl + 1 -> vl <= m -> m < l -> l <= r ->
  seg (ls ++ rs) vl l r = seg rs (m + 1) l r.
Proof.
  intros. unfold seg. rewrite skipn_app.
  rewrite (skipn_all2 ls) by lia. simpl. f_equal. f_equal. lia.
Qed.

Lemma seg_split (ls rs : list V) vl m vr l r :
  length ls = m - vl + 1 -> length rs = vr - m -> vl <= l -> l <= m -> m < r -> r <= vr ->
  seg (ls ++ rs) vl l r = seg ls vl l m ++ seg rs (m + 1) (m + 1) r.
Proof.
  intros. unfold seg. rewrite skipn_app. rewrite firstn_app. rewrite skipn_length.
  f_equal.
  - rewrite !firstn_all2; auto; rewrite skipn_length; lia.
  - replace (l - vl - length ls) with 0 by lia. rewrite Nat.sub_diag. simpl. f_equal. lia.
Qed.

Lemma vfold_app d xs ys : xs <> [] -> ys <> [] -> vfold d (xs ++ ys) = vmerge (vfold d xs) (vfold d ys).
Proof.
  destruct xs as [|x xs]; [congruence|]. destruct ys as [|y ys]; [congruence|]. intros _ _.
  simpl. apply vfold1_app.
Qed.

Lemma seg_nonempty (vs : list V) vl l r : vl <= l -> l <= r -> r - vl < length vs -> seg vs vl l r <> [].
Proof.
  intros. unfold seg. intro E. apply (f_equal (@length V)) in E.
  rewrite firstn_length, skipn_length in E. simpl in E. lia.
Qed.

Lemma seg_full (vs : list V) vl vr : length vs = vr - vl + 1 -> seg vs vl vl vr = vs.
Proof. intros. unfold seg. rewrite Nat.sub_diag. simpl. apply firstn_all2. lia. Qed.

Lemma upd_seg_full f (vs : list V) vl vr : length vs = vr - vl + 1 -> upd_seg f vs vl vl vr = map f vs.
Proof.
  intros H. unfold upd_seg, seg. rewrite Nat.sub_diag. simpl.
  rewrite firstn_all2 by lia. rewrite skipn_all2 by lia. now rewrite app_nil_r.
Qed.

Lemma upd_seg_left f (ls rs : list V) vl m l r : length ls = m - vl + 1 -> vl <= l -> l <= r -> r <= m ->
  upd_seg f (ls ++ rs) vl l r = upd_seg f ls vl l r ++ rs.
Proof.
  intros. unfold upd_seg. rewrite (seg_left _ _ vl m) by auto.
  rewrite firstn_app. replace (l - vl - length ls) with 0 by lia. simpl. rewrite app_nil_r.
  rewrite skipn_app. replace (r - vl + 1 - length ls) with 0 by lia. simpl.
  now rewrite <- !app_assoc.
Qed.

Lemma upd_seg_right f (ls rs : list V) vl m l r : length ls = m - vl + 1 -> vl <= m -> m < l -> l <= r ->
  upd_seg f (ls ++ rs) vl l r = ls ++ upd_seg f rs (m + 1) l r.
Proof.
  intros. unfold upd_seg. rewrite (seg_right _ _ vl m) by auto.
  rewrite firstn_app. rewrite (firstn_all2 ls) by lia.
  rewrite skipn_app. rewrite (skipn_all2 ls) by lia. simpl.
  replace (l - vl - length ls) with (l - (m + 1)) by lia.
  replace (r - vl + 1 - length ls) with (r - (m + 1) + 1) by lia.
  now rewrite <- !app_assoc.
Qed.

Lemma upd_seg_split f (ls rs : list V) vl m vr l r :
  length ls = m - vl + 1 -> length rs = vr - m -> vl <= l -> l <= m -> m < r -> r <= vr ->
  upd_seg f (ls ++ rs) vl l r = upd_seg f ls vl l m ++ upd_seg f rs (m + 1) (m + 1) r.
Proof.
  intros. unfold upd_seg. rewrite (seg_split _ _ vl m vr) by auto.
  rewrite firstn_app. replace (l - vl - length ls) with 0 by lia. simpl. rewrite app_nil_r.
  rewrite skipn_app. rewrite (skipn_all2 ls) by lia. simpl.
  rewrite (skipn_all2 ls) by lia. rewrite Nat.sub_diag. simpl.
  replace (r - vl + 1 - length ls) with (r - (m + 1) + 1) by lia.
  rewrite map_app. now rewrite <- !app_assoc.
Qed.

Lemma upd_at_left (ls rs : list V) i v : i < length ls -> upd_at (ls ++ rs) i v = upd_at ls i v ++ rs.
Proof.
  intros. unfold upd_at. rewrite firstn_app, skipn_app.
  replace (i - length ls) with 0 by lia. replace (S i - length ls) with 0 by lia. simpl.
  rewrite app_nil_r. rewrite <- app_assoc. reflexivity.
Qed.

Lemma upd_at_right (ls rs : list V) i v : length ls <= i -> upd_at (ls ++ rs) i v = ls ++ upd_at rs (i - length ls) v.
Proof.
  intros. unfold upd_at. rewrite firstn_app, skipn_app.
  rewrite (firstn_all2 ls) by lia. rewrite (skipn_all2 ls) by lia.
  replace (S i - length ls) with (S (i - length ls)) by lia. rewrite <- app_assoc. reflexivity.
Qed.

(** ---- node reconstruction lemmas ---- *)
Lemma Rep_modify_top x s vl vr vs md :
  Rep x s vl vr vs -> Rep (modify x md) s vl vr (map (act md) vs).
Proof.
  intros H. replace (map (act md) vs) with (map (acts [md]) vs) by (apply map_ext; reflexivity).
  eapply Rep_push_child; [exact H | rewrite obs_modify; reflexivity | intros ps Hp; now apply pend_modify].
Qed.

Lemma Rep_update_node x0 xl lt xr rt vl vr ls rs :
  vl < vr -> Rep xl lt vl ((vl + vr) / 2) ls -> Rep xr rt ((vl + vr) / 2 + 1) vr rs ->
  Rep (update x0 xl xr) (N lt xl xr rt) vl vr (ls ++ rs).
Proof.
  intros Hlt H1 H2. rewrite <- (map_acts_nil (ls ++ rs)).
  econstructor; eauto. intros d. rewrite map_acts_nil, obs_update.
  rewrite (Rep_top _ _ _ _ _ H1 d), (Rep_top _ _ _ _ _ H2 d).
  pose proof (Rep_length _ _ _ _ _ H1) as [? ?]. pose proof (Rep_length _ _ _ _ _ H2) as [? ?].
  symmetry. apply vfold_app; intro E; subst; simpl in *; lia.
Qed.

(** what [push_at] does to a node satisfying the invariant: the item keeps its
    observation and has nothing pending, both children denote the pushed values *)
Lemma Rep_push x lt xl xr rt vl vr vs x1 xl1 xr1 :
  Rep x (N lt xl xr rt) vl vr vs -> push x xl xr = (x1, xl1, xr1) ->
  exists ls rs, vs = ls ++ rs /\ vl < vr /\
    Rep xl1 lt vl ((vl + vr) / 2) ls /\ Rep xr1 rt ((vl + vr) / 2 + 1) vr rs /\
    Pending x1 [] /\ obs x1 = obs x /\
    (forall xl' lt' xr' rt', Rep xl' lt' vl ((vl + vr) / 2) ls -> Rep xr' rt' ((vl + vr) / 2 + 1) vr rs ->
        Rep x1 (N lt' xl' xr' rt') vl vr (ls ++ rs)).
Proof.
  intros HR Epush.
  inversion HR as [|x0 lt0 xl0 xr0 rt0 vl0 vr0 ms ls rs Hlt Hp H1 H2 Hox]; subst.
  destruct (push_law _ _ _ _ _ _ _ Hp Epush) as (Ho1 & Hp1 & Ha & Hb & Hpa & Hpb).
  pose proof (Rep_push_child _ _ _ _ _ ms xl1 H1 Ha Hpa) as HR1.
  pose proof (Rep_push_child _ _ _ _ _ ms xr1 H2 Hb Hpb) as HR2.
  exists (map (acts ms) ls), (map (acts ms) rs).
  split; [apply map_app|]. split; [exact Hlt|]. split; [exact HR1|]. split; [exact HR2|].
  split; [exact Hp1|]. split; [exact Ho1|].
  intros xl' lt' xr' rt' A B.
  rewrite <- (map_acts_nil (map (acts ms) ls ++ map (acts ms) rs)).
  econstructor; eauto.
  intros d. rewrite Ho1. rewrite map_acts_nil. rewrite <- map_app. apply Hox.
Qed.

(** ---- ask ---- *)
Theorem ask_correct s : forall x vl vr vs l r x' s' res,
  Rep x s vl vr vs -> vl <= l -> l <= r -> r <= vr ->
  ask_t merge push x s l r vl vr = (x', s', res) ->
  Rep x' s' vl vr vs /\ forall d, obs res = vfold d (seg vs vl l r).
Proof.
  induction s as [|lt IHl xl xr rt IHr]; intros x vl vr vs l r x' s' res HR Hl Hlr Hr Hask.
  - simpl in Hask. injection Hask as <- <- <-. split; auto.
    inversion HR; subst. assert (l = vr) by lia. assert (r = vr) by lia. subst.
    unfold seg. rewrite Nat.sub_diag. simpl. reflexivity.
  - simpl in Hask.
    destruct ((l =? vl) && (r =? vr)) eqn:Efull.
    + injection Hask as <- <- <-. split; auto.
      apply andb_true_iff in Efull. destruct Efull as [E1 E2].
      apply Nat.eqb_eq in E1, E2. subst.
      intros d. pose proof (Rep_length _ _ _ _ _ HR) as [Hlen _].
      rewrite seg_full by lia. apply (Rep_top _ _ _ _ _ HR).
    + destruct (push x xl xr) as [[x1 xl1] xr1] eqn:Epush.
      destruct (Rep_push _ _ _ _ _ _ _ _ _ _ _ HR Epush) as (ls & rs & -> & Hlt & HR1 & HR2 & _ & _ & Hnode).
      set (m := (vl + vr) / 2) in *.
      pose proof (mid_bounds _ _ Hlt) as [Hm1 Hm2]. fold m in Hm1, Hm2.
      pose proof (Rep_length _ _ _ _ _ HR1) as [Hlen1 Hle1].
      pose proof (Rep_length _ _ _ _ _ HR2) as [Hlen2 Hle2].
      destruct (r <=? m) eqn:E1; [|destruct (m <? l) eqn:E2].
      * apply Nat.leb_le in E1.
        destruct (ask_t merge push xl1 lt l r vl m) as [[xl' lt'] res'] eqn:Ea. injection Hask as <- <- <-.
        destruct (IHl _ _ _ _ _ _ _ _ _ HR1 Hl Hlr E1 Ea) as [HRl Hres].
        split. { apply Hnode; auto. }
        intros d. rewrite (seg_left _ _ vl m) by (auto; lia). apply Hres.
      * apply Nat.ltb_lt in E2.
        destruct (ask_t merge push xr1 rt l r (m + 1) vr) as [[xr' rt'] res'] eqn:Ea. injection Hask as <- <- <-.
        assert (Hml : m + 1 <= l) by lia.
        destruct (IHr _ _ _ _ _ _ _ _ _ HR2 Hml Hlr Hr Ea) as [HRr Hres].
        split. { apply Hnode; auto. }
        intros d. rewrite (seg_right _ _ vl m) by (auto; lia). apply Hres.
      * apply Nat.leb_gt in E1. apply Nat.ltb_ge in E2.
        destruct (ask_t merge push xl1 lt l m vl m) as [[xl' lt'] a] eqn:Ea.
        destruct (ask_t merge push xr1 rt (m + 1) r (m + 1) vr) as [[xr' rt'] b] eqn:Eb.
        injection Hask as <- <- <-.
        destruct (IHl _ _ _ _ _ _ _ _ _ HR1 Hl E2 (le_n _) Ea) as [HRl Hresa].
        assert (Hmr : m + 1 <= r) by lia.
        destruct (IHr _ _ _ _ _ _ _ _ _ HR2 (le_n _) Hmr Hr Eb) as [HRr Hresb].
        split. { apply Hnode; auto. }
        intros d. rewrite (seg_split _ _ vl m vr) by (auto; lia).
        rewrite vfold_app by (apply seg_nonempty; lia).
        rewrite obs_merge. now rewrite <- Hresa, <- Hresb.
Qed.

(** ---- modify ---- *)
Theorem modify_correct s : forall x vl vr vs l r md x' s',
  Rep x s vl vr vs -> vl <= l -> l <= r -> r <= vr ->
  modify_t update modify push x s md l r vl vr = (x', s') ->
  Rep x' s' vl vr (upd_seg (act md) vs vl l r).
Proof.
  induction s as [|lt IHl xl xr rt IHr]; intros x vl vr vs l r md x' s' HR Hl Hlr Hr Hm.
  - simpl in Hm. injection Hm as <- <-. inversion HR; subst.
    assert (l = vr) by lia. assert (r = vr) by lia. subst.
    unfold upd_seg, seg. rewrite Nat.sub_diag. simpl.
    rewrite <- obs_modify. constructor.
  - simpl in Hm.
    destruct ((l =? vl) && (r =? vr)) eqn:Efull.
    + injection Hm as <- <-. apply andb_true_iff in Efull. destruct Efull as [E1 E2].
      apply Nat.eqb_eq in E1, E2. subst.
      pose proof (Rep_length _ _ _ _ _ HR) as [Hlen _].
      rewrite upd_seg_full by auto. now apply Rep_modify_top.
    + destruct (push x xl xr) as [[x1 xl1] xr1] eqn:Epush.
      destruct (Rep_push _ _ _ _ _ _ _ _ _ _ _ HR Epush) as (ls & rs & -> & Hlt & HR1 & HR2 & _ & _ & _).
      set (m := (vl + vr) / 2) in *.
      pose proof (mid_bounds _ _ Hlt) as [Hm1 Hm2]. fold m in Hm1, Hm2.
      pose proof (Rep_length _ _ _ _ _ HR1) as [Hlen1 Hle1].
      pose proof (Rep_length _ _ _ _ _ HR2) as [Hlen2 Hle2].
      destruct (r <=? m) eqn:E1; [|destruct (m <? l) eqn:E2].
      * apply Nat.leb_le in E1.
        destruct (modify_t update modify push xl1 lt md l r vl m) as [xl' lt'] eqn:Ea. injection Hm as <- <-.
        pose proof (IHl _ _ _ _ _ _ _ _ _ HR1 Hl Hlr E1 Ea) as HRl.
        rewrite (upd_seg_left _ _ _ vl m) by (auto; lia).
        apply Rep_update_node; auto.
      * apply Nat.ltb_lt in E2.
        destruct (modify_t update modify push xr1 rt md l r (m + 1) vr) as [xr' rt'] eqn:Ea. injection Hm as <- <-.
        assert (Hml : m + 1 <= l) by lia.
        pose proof (IHr _ _ _ _ _ _ _ _ _ HR2 Hml Hlr Hr Ea) as HRr.
        rewrite (upd_seg_right _ _ _ vl m) by (auto; lia).
        apply Rep_update_node; auto.
      * apply Nat.leb_gt in E1. apply Nat.ltb_ge in E2.
        destruct (modify_t update modify push xl1 lt md l m vl m) as [xl' lt'] eqn:Ea.
        destruct (modify_t update modify push xr1 rt md (m + 1) r (m + 1) vr) as [xr' rt'] eqn:Eb.
        injection Hm as <- <-.
        pose proof (IHl _ _ _ _ _ _ _ _ _ HR1 Hl E2 (le_n _) Ea) as HRl.
        assert (Hmr : m + 1 <= r) by lia.
        pose proof (IHr _ _ _ _ _ _ _ _ _ HR2 (le_n _) Hmr Hr Eb) as HRr.
        rewrite (upd_seg_split _ _ _ vl m vr) by (auto; lia).
        apply Rep_update_node; auto.
Qed.

(** ---- set ---- *)
Theorem set_correct s : forall x vl vr vs i v x' s',
  Rep x s vl vr vs -> vl <= i -> i <= vr ->
  set_t update push x s i v vl vr = (x', s') ->
  Rep x' s' vl vr (upd_at vs (i - vl) (obs v)).
Proof.
  induction s as [|lt IHl xl xr rt IHr]; intros x vl vr vs i v x' s' HR Hl Hr Hs.
  - simpl in Hs. injection Hs as <- <-. inversion HR; subst.
    replace (i - vr) with 0 by lia. unfold upd_at. simpl. constructor.
  - simpl in Hs.
    destruct (push x xl xr) as [[x1 xl1] xr1] eqn:Epush.
    destruct (Rep_push _ _ _ _ _ _ _ _ _ _ _ HR Epush) as (ls & rs & -> & Hlt & HR1 & HR2 & _ & _ & _).
    set (m := (vl + vr) / 2) in *.
    pose proof (mid_bounds _ _ Hlt) as [Hm1 Hm2]. fold m in Hm1, Hm2.
    pose proof (Rep_length _ _ _ _ _ HR1) as [Hlen1 Hle1].
    pose proof (Rep_length _ _ _ _ _ HR2) as [Hlen2 Hle2].
    destruct (i <=? m) eqn:E1.
    + apply Nat.leb_le in E1.
      destruct (set_t update push xl1 lt i v vl m) as [xl' lt'] eqn:Ea. injection Hs as <- <-.
      pose proof (IHl _ _ _ _ _ _ _ _ HR1 Hl E1 Ea) as HRl.
      rewrite upd_at_left by lia. apply Rep_update_node; auto.
    + apply Nat.leb_gt in E1.
      destruct (set_t update push xr1 rt i v (m + 1) vr) as [xr' rt'] eqn:Ea. injection Hs as <- <-.
      assert (Hmi : m + 1 <= i) by lia.
      pose proof (IHr _ _ _ _ _ _ _ _ HR2 Hmi Hr Ea) as HRr.
      rewrite upd_at_right by lia. replace (i - vl - length ls) with (i - (m + 1)) by lia.
      apply Rep_update_node; auto.
Qed.

(** ---- build ---- *)
Lemma skipn_skipn' {A} (a b : nat) (l : list A) : skipn a (skipn b l) = skipn (b + a) l.
Proof.
  revert l; induction b as [|b IH]; intros l; [reflexivity|].
  destruct l as [|y l]; [now rewrite !skipn_nil|]. simpl. apply IH.
Qed.
Lemma rebuild_correct fuel : forall x0 vl vr data,
  vl <= vr -> vr - vl <= fuel -> vr - vl + 1 <= length data ->
  exists x s, rebuild update fuel x0 vl vr data = Some (x, s, skipn (vr - vl + 1) data)
              /\ Rep x s vl vr (map obs (firstn (vr - vl + 1) data)).
Proof.
  induction fuel as [|fuel IH]; intros x0 vl vr data Hle Hf Hlen.
  - assert (vl = vr) by lia. subst. cbn [rebuild]. rewrite Nat.eqb_refl.
    destruct data as [|d data]; [simpl in Hlen; lia|].
    exists d, L. rewrite Nat.sub_diag. simpl. split; [reflexivity|constructor].
  - cbn [rebuild]. destruct (vl =? vr) eqn:E.
    + apply Nat.eqb_eq in E. subst.
      destruct data as [|d data]; [simpl in Hlen; lia|].
      exists d, L. rewrite Nat.sub_diag. simpl. split; [reflexivity|constructor].
    + apply Nat.eqb_neq in E. assert (Hlt : vl < vr) by lia.
      pose proof (mid_bounds _ _ Hlt) as [Hm1 Hm2].
      set (m := (vl + vr) / 2) in *.
      destruct (IH x0 vl m data) as (xl & lt & El & HRl); try lia.
      rewrite El.
      destruct (IH x0 (m + 1) vr (skipn (m - vl + 1) data)) as (xr & rt & Er & HRr); try lia.
      { rewrite skipn_length. lia. }
      rewrite Er. exists (update x0 xl xr), (N lt xl xr rt). split.
      * rewrite skipn_skipn'. replace (m - vl + 1 + (vr - (m + 1) + 1)) with (vr - vl + 1) by lia. reflexivity.
      * replace (map obs (firstn (vr - vl + 1) data))
          with (map obs (firstn (m - vl + 1) data) ++ map obs (firstn (vr - (m + 1) + 1) (skipn (m - vl + 1) data))).
        { apply Rep_update_node; auto. }
        rewrite <- map_app. f_equal.
        rewrite <- (firstn_skipn (m - vl + 1) (firstn (vr - vl + 1) data)).
        f_equal.
        -- rewrite firstn_firstn. f_equal. lia.
        -- rewrite skipn_firstn_comm. f_equal. lia.
Qed.

Lemma rebuild_empty_correct fuel : forall x0 vl vr,
  vl <= vr -> vr - vl <= fuel ->
  exists x s, rebuild_empty update fuel x0 vl vr = Some (x, s)
              /\ Rep x s vl vr (repeat (obs x0) (vr - vl + 1)).
Proof.
  induction fuel as [|fuel IH]; intros x0 vl vr Hle Hf.
  - assert (vl = vr) by lia. subst. cbn [rebuild_empty]. rewrite Nat.eqb_refl.
    exists x0, L. rewrite Nat.sub_diag. simpl. split; [reflexivity|constructor].
  - cbn [rebuild_empty]. destruct (vl =? vr) eqn:E.
    + apply Nat.eqb_eq in E. subst.
      exists x0, L. rewrite Nat.sub_diag. simpl. split; [reflexivity|constructor].
    + apply Nat.eqb_neq in E. assert (Hlt : vl < vr) by lia.
      pose proof (mid_bounds _ _ Hlt) as [Hm1 Hm2].
      set (m := (vl + vr) / 2) in *.
      destruct (IH x0 vl m) as (xl & lt & El & HRl); try lia.
      rewrite El.
      destruct (IH x0 (m + 1) vr) as (xr & rt & Er & HRr); try lia.
      rewrite Er. exists (update x0 xl xr), (N lt xl xr rt). split; [reflexivity|].
      replace (repeat (obs x0) (vr - vl + 1))
        with (repeat (obs x0) (m - vl + 1) ++ repeat (obs x0) (vr - (m + 1) + 1)).
      { apply Rep_update_node; auto. }
      rewrite <- repeat_app. f_equal. lia.
Qed.

End Core.
