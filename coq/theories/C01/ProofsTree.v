(** C01 / C02 — the public operations ([new], [from_slice], [from_iter], [set], [ask],
    [modify], [lower_bound], [lower_bound_rev], [debug]) against the plain array. *)
From Coq Require Import List Arith Lia Bool.
From RlibV Require Import C01.Model C01.Spec C01.Laws C01.ProofsCore C01.ProofsBound.
Import ListNotations.
Arguments Nat.div : simpl never.
Arguments Nat.modulo : simpl never.

Section TreeOps.
Context {T M V : Type}.
Variable merge : T -> T -> T.
Variable update : T -> T -> T -> T.
Variable modify : T -> M -> T.
Variable push : T -> T -> T -> T * T * T.
Variable obs : T -> V.
Variable vmerge : V -> V -> V.
Variable act : M -> V -> V.
Variable Pending : T -> list M -> Prop.
Hypothesis LAW : lawful merge update modify push obs vmerge act Pending.
Variable dflt : T.

Local Notation vfold := (vfold vmerge).
Local Notation Rep := (Rep obs vmerge act Pending).
Local Notation range := (range vmerge (obs dflt)).

(** the tree [t] denotes the logical array [vs] (whatever its pending tags are) *)
Definition RepT (t : tree T) (vs : list V) : Prop :=
  1 <= tn t /\ Rep (troot t) (tshape t) 0 (tn t - 1) vs.

Lemma RepT_length t vs : RepT t vs -> length vs = tn t.
Proof. intros [H1 H2]. apply Rep_length in H2. lia. Qed.

Theorem new_correct n v : n <> 0 ->
  exists t, new update n v = Some t /\ tn t = n /\ RepT t (repeat (obs v) n).
Proof.
  intros Hn. unfold new. destruct (n =? 0) eqn:E; [apply Nat.eqb_eq in E; lia|].
  destruct (rebuild_empty_correct _ _ _ _ _ _ _ _ LAW n v 0 (n - 1)) as (x & s & Er & HR); try lia.
  rewrite Er. eexists; split; [reflexivity|]. split; [reflexivity|].
  split; simpl; [lia|]. replace (n - 1 - 0 + 1) with n in HR by lia. exact HR.
Qed.

Lemma rebuild_top x0 (xs : list T) : xs <> [] ->
  exists x s rest, rebuild update (length xs) x0 0 (length xs - 1) xs = Some (x, s, rest)
                   /\ Rep x s 0 (length xs - 1) (map obs xs).
Proof.
  intros Hne. assert (1 <= length xs) by (destruct xs; simpl; [congruence|lia]).
  destruct (rebuild_correct _ _ _ _ _ _ _ _ LAW (length xs) x0 0 (length xs - 1) xs) as (x & s & Er & HR); try lia.
  exists x, s, (skipn (length xs - 1 - 0 + 1) xs). split; [exact Er|].
  rewrite firstn_all2 in HR by lia. exact HR.
Qed.

Theorem from_slice_correct xs : xs <> [] ->
  exists t, from_slice update xs = Some t /\ tn t = length xs /\ RepT t (map obs xs).
Proof.
  intros Hne. unfold from_slice. destruct xs as [|d0 xs']; [congruence|].
  set (xs := d0 :: xs') in *.
  destruct (rebuild_top d0 xs Hne) as (x & s & rest & Er & HR). rewrite Er.
  eexists; split; [reflexivity|]. split; [reflexivity|]. split; simpl; [lia|exact HR].
Qed.

Theorem from_iter_correct xs : xs <> [] ->
  exists t, from_iter update dflt xs = Some t /\ tn t = length xs /\ RepT t (map obs xs).
Proof.
  intros Hne. unfold from_iter.
  destruct (length xs =? 0) eqn:E.
  { apply Nat.eqb_eq in E. destruct xs; simpl in E; [congruence|lia]. }
  destruct (rebuild_top dflt xs Hne) as (x & s & rest & Er & HR). rewrite Er.
  eexists; split; [reflexivity|]. split; [reflexivity|]. split; simpl; [|exact HR].
  apply Nat.eqb_neq in E. lia.
Qed.

Theorem set_tree_correct t vs i v : RepT t vs -> i < tn t ->
  exists t', set update push t i v = Some t' /\ tn t' = tn t /\ RepT t' (upd_at vs i (obs v)).
Proof.
  intros [Hn HR] Hi. unfold set. destruct (i <? tn t) eqn:E; [|apply Nat.ltb_ge in E; lia].
  destruct (set_t update push (troot t) (tshape t) i v 0 (tn t - 1)) as [x' s'] eqn:Es.
  eexists; split; [reflexivity|]. split; [reflexivity|]. split; simpl; [lia|].
  assert (Hb : i <= tn t - 1) by lia.
  pose proof (set_correct _ _ _ _ _ _ _ _ LAW _ _ _ _ _ _ _ _ _ HR (Nat.le_0_l _) Hb Es) as H.
  rewrite Nat.sub_0_r in H. exact H.
Qed.

Theorem ask_tree_correct t vs l r : RepT t vs -> l <= r -> r < tn t ->
  exists t' x, ask merge push t l r = Some (t', x) /\ tn t' = tn t /\ RepT t' vs /\ obs x = range vs l r.
Proof.
  intros [Hn HR] Hlr Hr. unfold ask.
  destruct ((l <=? r) && (r <? tn t)) eqn:E.
  2:{ apply andb_false_iff in E. destruct E as [E|E]; [apply Nat.leb_gt in E|apply Nat.ltb_ge in E]; lia. }
  destruct (ask_t merge push (troot t) (tshape t) l r 0 (tn t - 1)) as [[x' s'] res] eqn:Ea.
  assert (Hb : r <= tn t - 1) by lia.
  destruct (ask_correct _ _ _ _ _ _ _ _ LAW _ _ _ _ _ _ _ _ _ _ HR (Nat.le_0_l _) Hlr Hb Ea) as [HR' Hres].
  eexists _, _; split; [reflexivity|]. split; [reflexivity|]. split; [split; simpl; [lia|exact HR']|].
  apply Hres.
Qed.

Theorem modify_tree_correct t vs l r md : RepT t vs -> l <= r -> r < tn t ->
  exists t', modify_range update modify push t l r md = Some t' /\ tn t' = tn t
             /\ RepT t' (upd_seg (act md) vs 0 l r).
Proof.
  intros [Hn HR] Hlr Hr. unfold modify_range.
  destruct ((l <=? r) && (r <? tn t)) eqn:E.
  2:{ apply andb_false_iff in E. destruct E as [E|E]; [apply Nat.leb_gt in E|apply Nat.ltb_ge in E]; lia. }
  destruct (modify_t update modify push (troot t) (tshape t) md l r 0 (tn t - 1)) as [x' s'] eqn:Ea.
  eexists; split; [reflexivity|]. split; [reflexivity|]. split; simpl; [lia|].
  assert (Hb : r <= tn t - 1) by lia.
  exact (modify_correct _ _ _ _ _ _ _ _ LAW _ _ _ _ _ _ _ _ _ _ HR (Nat.le_0_l _) Hlr Hb Ea).
Qed.

(** ---- debug ---- *)
Lemma skipn_cons_nth (vs : list V) i : i < length vs ->
  exists v, skipn i vs = v :: skipn (S i) vs.
Proof.
  revert vs; induction i as [|i IH]; intros [|w vs] H; simpl in H; try lia.
  - exists w. reflexivity.
  - destruct (IH vs ltac:(lia)) as [v Hv]. exists v. exact Hv.
Qed.

Lemma debug_from_correct k : forall t vs i t' xs, RepT t vs -> i + k = tn t ->
  debug_from merge push t i k = (t', xs) ->
  tn t' = tn t /\ RepT t' vs /\ map obs xs = skipn i vs.
Proof.
  induction k as [|k IH]; intros t vs i t' xs HR Hik Hd.
  - simpl in Hd. injection Hd as <- <-. split; [reflexivity|]. split; [exact HR|].
    rewrite skipn_all2; [reflexivity|]. rewrite (RepT_length _ _ HR). lia.
  - cbn [debug_from] in Hd.
    assert (Hb : i < tn t) by lia.
    destruct (ask_tree_correct t vs i i HR (le_n _) Hb) as (t1 & x & Ea & Hn1 & HR1 & Hx).
    rewrite Ea in Hd.
    destruct (debug_from merge push t1 (S i) k) as [t2 ys] eqn:Ed. injection Hd as <- <-.
    assert (Hb2 : S i + k = tn t1) by lia.
    destruct (IH t1 vs (S i) t2 ys HR1 Hb2 Ed) as (Hn2 & HR2 & Hys).
    split; [lia|]. split; [exact HR2|].
    destruct (skipn_cons_nth vs i) as [v Hv]. { rewrite (RepT_length _ _ HR). lia. }
    simpl. rewrite Hys, Hv. f_equal.
    rewrite Hx. unfold Spec.range, seg. rewrite Nat.sub_0_r, Nat.sub_diag, Hv. reflexivity.
Qed.

Theorem debug_correct t vs t' xs : RepT t vs -> debug merge push t = (t', xs) ->
  tn t' = tn t /\ RepT t' vs /\ map obs xs = vs.
Proof.
  intros HR Hd. unfold debug in Hd.
  destruct (debug_from_correct _ _ _ _ _ _ HR (Nat.add_0_l _) Hd) as (? & ? & ?). auto.
Qed.

(** ---- lower_bound / lower_bound_rev ---- *)
Section Search.
Variable f : T -> bool.
Variable g : V -> bool.
Hypothesis Hfg : forall x, f x = g (obs x).

Theorem lower_bound_correct t vs l : RepT t vs -> l < tn t ->
  (forall k, l <= k -> k < tn t -> vmerge (obs dflt) (range vs l k) = range vs l k) ->
  exists t' res tr, lower_bound merge push dflt t l f = Some (t', res, tr) /\ tn t' = tn t /\ RepT t' vs /\
    (forall x, In x tr -> exists k, l <= k /\ k < tn t /\ obs x = range vs l k) /\
    match res with
    | Some k => l <= k /\ k < tn t /\ g (range vs l k) = true
    | None => g (range vs l (tn t - 1)) = false
    end /\
    ((forall j k, l <= j -> j <= k -> k < tn t -> g (range vs l j) = true -> g (range vs l k) = true) ->
     match res with
     | Some k => forall j, l <= j -> j < k -> g (range vs l j) = false
     | None => forall j, l <= j -> j < tn t -> g (range vs l j) = false
     end).
Proof.
  intros [Hn HR] Hl Hid. unfold lower_bound.
  destruct (l <? tn t) eqn:E; [|apply Nat.ltb_ge in E; lia].
  destruct (lb_t merge push f dflt (troot t) (tshape t) l (tn t - 1) 0 (tn t - 1))
    as [[[x' s'] [item' res]] tr] eqn:Eb.
  assert (HF : forall k, l <= k -> k <= tn t - 1 ->
            vmerge (obs dflt) (vfold (obs dflt) (seg vs 0 l k)) = range vs l k).
  { intros k H1 H2. apply Hid; lia. }
  assert (Hb : l <= tn t - 1) by lia.
  destruct (lb_correct _ _ _ _ _ _ _ _ LAW f g Hfg (obs dflt) _ _ _ _ _ _ _ (fun k => range vs l k) _ _ _ _ _
              HR (Nat.le_0_l _) Hb HF Eb) as (HR' & Htr & Hres & Hmin).
  eexists _, _, _; split; [reflexivity|]. split; [reflexivity|].
  split; [split; simpl; [lia|exact HR']|].
  split. { intros x Hx. destruct (Htr x Hx) as (k & ? & ? & ?). exists k. repeat split; auto; lia. }
  split.
  { destruct res as [k|]; [destruct Hres as (? & ? & ? & ?); repeat split; auto; lia|apply Hres]. }
  intros Hmono.
  assert (Hmono' : forall j k, l <= j -> j <= k -> k <= tn t - 1 ->
             g (range vs l j) = true -> g (range vs l k) = true).
  { intros j k ? ? ?. apply Hmono; lia. }
  destruct res as [k|].
  - intros j Hj1 Hj2. exact (Hmin Hmono' k eq_refl j Hj1 Hj2).
  - intros j Hj1 Hj2. destruct Hres as [_ Hg].
    destruct (g (range vs l j)) eqn:Egj; [|reflexivity].
    rewrite (Hmono j (tn t - 1)) in Hg by (auto; lia). discriminate.
Qed.

Theorem lower_bound_rev_correct t vs r : RepT t vs -> r < tn t ->
  (forall k, k <= r -> vmerge (range vs k r) (obs dflt) = range vs k r) ->
  exists t' res tr, lower_bound_rev merge push dflt t r f = Some (t', res, tr) /\ tn t' = tn t /\ RepT t' vs /\
    (forall x, In x tr -> exists k, k <= r /\ obs x = range vs k r) /\
    match res with
    | Some k => k <= r /\ g (range vs k r) = true
    | None => g (range vs 0 r) = false
    end /\
    ((forall j k, j <= k -> k <= r -> g (range vs k r) = true -> g (range vs j r) = true) ->
     match res with
     | Some k => forall j, k < j -> j <= r -> g (range vs j r) = false
     | None => forall j, j <= r -> g (range vs j r) = false
     end).
Proof.
  intros [Hn HR] Hr Hid. unfold lower_bound_rev.
  destruct (r <? tn t) eqn:E; [|apply Nat.ltb_ge in E; lia].
  destruct (lbr_t merge push f dflt (troot t) (tshape t) 0 r 0 (tn t - 1))
    as [[[x' s'] [item' res]] tr] eqn:Eb.
  assert (HF : forall k, 0 <= k -> k <= r ->
            vmerge (vfold (obs dflt) (seg vs 0 k r)) (obs dflt) = range vs k r).
  { intros k H1 H2. apply Hid; lia. }
  assert (Hb : r <= tn t - 1) by lia.
  destruct (lbr_correct _ _ _ _ _ _ _ _ LAW f g Hfg (obs dflt) _ _ _ _ _ _ _ (fun k => range vs k r) _ _ _ _ _
              HR (Nat.le_0_l _) Hb HF Eb) as (HR' & Htr & Hres & Hmin).
  eexists _, _, _; split; [reflexivity|]. split; [reflexivity|].
  split; [split; simpl; [lia|exact HR']|].
  split. { intros x Hx. destruct (Htr x Hx) as (k & ? & ? & ?). exists k. auto. }
  split.
  { destruct res as [k|]; [destruct Hres as (? & ? & ? & ?); auto|apply Hres]. }
  intros Hmono.
  assert (Hmono' : forall j k, 0 <= j -> j <= k -> k <= r ->
             g (range vs k r) = true -> g (range vs j r) = true).
  { intros j k ? ? ?. apply Hmono; lia. }
  destruct res as [k|].
  - intros j Hj1 Hj2. exact (Hmin Hmono' k eq_refl j Hj1 Hj2).
  - intros j Hj. destruct Hres as [_ Hg].
    destruct (g (range vs j r)) eqn:Egj; [|reflexivity].
    rewrite (Hmono 0 j) in Hg by (auto; lia). discriminate.
Qed.
End Search.

End TreeOps.
