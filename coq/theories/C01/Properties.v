(** C01 — property theorems (statements only; proofs by [exact]).
    [Rep]/[RepT] (the representation invariant) are defined in ProofsCore.v / ProofsTree.v,
    [lawful] in Laws.v, the plain-array specification in Spec.v, the kits in Corr.v. *)
From Coq Require Import ZArith List Bool Arith.
From RlibV Require Import C01.Model C01.Items C01.Spec C01.Laws C01.Corr
  C01.ProofsCore C01.ProofsBound C01.ProofsTree C01.ProofsHist C01.ProofsItems C01.ProofsTop C01.ProofsMorph C01.ProofsCheck.
Import ListNotations.
Local Open Scope nat_scope.

(** the invariant fixes the length of the denoted array and the range is non-empty *)
Theorem c01_rep_length : forall (T M V : Type) (obs : T -> V) (vmerge : V -> V -> V) (act : M -> V -> V) (Pending : T -> list M -> Prop) (x : T) (s : shape T) (vl vr : nat) (vs : list V), Rep obs vmerge act Pending x s vl vr vs -> length vs = vr - vl + 1 /\ vl <= vr.
Proof. exact (@Rep_length). Qed.

(** the item of a node observes the in-order merge of everything below it *)
Theorem c01_rep_top : forall (T M V : Type) (obs : T -> V) (vmerge : V -> V -> V) (act : M -> V -> V) (Pending : T -> list M -> Prop) (x : T) (s : shape T) (vl vr : nat) (vs : list V), Rep obs vmerge act Pending x s vl vr vs -> forall d : V, obs x = vfold vmerge d vs.
Proof. exact (@Rep_top). Qed.

(** the model's leaf test (shape) coincides with the code's leaf test (vl == vr) *)
Theorem c01_rep_leaf_iff : forall (T M V : Type) (obs : T -> V) (vmerge : V -> V -> V) (act : M -> V -> V) (Pending : T -> list M -> Prop) (x : T) (s : shape T) (vl vr : nat) (vs : list V), Rep obs vmerge act Pending x s vl vr vs -> (s = L <-> vl = vr).
Proof. exact (@Rep_leaf_iff). Qed.

(** push_at on a node satisfying the invariant: observation kept, nothing pending, children denote the pushed values *)
Theorem c01_rep_push : forall (T M V : Type) (merge : T -> T -> T) (update : T -> T -> T -> T) (modify : T -> M -> T) (push : T -> T -> T -> T * T * T) (obs : T -> V) (vmerge : V -> V -> V) (act : M -> V -> V) (Pending : T -> list M -> Prop), lawful merge update modify push obs vmerge act Pending -> forall (x : T) (lt : shape T) (xl xr : T) (rt : shape T) (vl vr : nat) (vs : list V) (x1 xl1 xr1 : T), Rep obs vmerge act Pending x (N lt xl xr rt) vl vr vs -> push x xl xr = (x1, xl1, xr1) -> exists ls rs, vs = ls ++ rs /\ vl < vr /\ Rep obs vmerge act Pending xl1 lt vl ((vl + vr) / 2) ls /\ Rep obs vmerge act Pending xr1 rt ((vl + vr) / 2 + 1) vr rs /\ Pending x1 [] /\ obs x1 = obs x /\ (forall xl' lt' xr' rt', Rep obs vmerge act Pending xl' lt' vl ((vl + vr) / 2) ls -> Rep obs vmerge act Pending xr' rt' ((vl + vr) / 2 + 1) vr rs -> Rep obs vmerge act Pending x1 (N lt' xl' xr' rt') vl vr (ls ++ rs)).
Proof. exact (@Rep_push). Qed.

(** ask_internal preserves the invariant (same array) and returns the in-order merge of [l..r] *)
Theorem c01_ask_correct : forall (T M V : Type) (merge : T -> T -> T) (update : T -> T -> T -> T) (modify : T -> M -> T) (push : T -> T -> T -> T * T * T) (obs : T -> V) (vmerge : V -> V -> V) (act : M -> V -> V) (Pending : T -> list M -> Prop), lawful merge update modify push obs vmerge act Pending -> forall (s : shape T) (x : T) (vl vr : nat) (vs : list V) (l r : nat) (x' : T) (s' : shape T) (res : T), Rep obs vmerge act Pending x s vl vr vs -> vl <= l -> l <= r -> r <= vr -> ask_t merge push x s l r vl vr = (x', s', res) -> Rep obs vmerge act Pending x' s' vl vr vs /\ (forall d : V, obs res = vfold vmerge d (seg vs vl l r)).
Proof. exact (@ask_correct). Qed.

(** modify_internal: the modifier is applied to the positions [l..r] individually, every other position is unchanged *)
Theorem c01_modify_correct : forall (T M V : Type) (merge : T -> T -> T) (update : T -> T -> T -> T) (modify : T -> M -> T) (push : T -> T -> T -> T * T * T) (obs : T -> V) (vmerge : V -> V -> V) (act : M -> V -> V) (Pending : T -> list M -> Prop), lawful merge update modify push obs vmerge act Pending -> forall (s : shape T) (x : T) (vl vr : nat) (vs : list V) (l r : nat) (md : M) (x' : T) (s' : shape T), Rep obs vmerge act Pending x s vl vr vs -> vl <= l -> l <= r -> r <= vr -> modify_t update modify push x s md l r vl vr = (x', s') -> Rep obs vmerge act Pending x' s' vl vr (upd_seg (act md) vs vl l r).
Proof. exact (@modify_correct). Qed.

(** set_internal replaces exactly position i *)
Theorem c01_set_correct : forall (T M V : Type) (merge : T -> T -> T) (update : T -> T -> T -> T) (modify : T -> M -> T) (push : T -> T -> T -> T * T * T) (obs : T -> V) (vmerge : V -> V -> V) (act : M -> V -> V) (Pending : T -> list M -> Prop), lawful merge update modify push obs vmerge act Pending -> forall (s : shape T) (x : T) (vl vr : nat) (vs : list V) (i : nat) (v x' : T) (s' : shape T), Rep obs vmerge act Pending x s vl vr vs -> vl <= i -> i <= vr -> set_t update push x s i v vl vr = (x', s') -> Rep obs vmerge act Pending x' s' vl vr (upd_at vs (i - vl) (obs v)).
Proof. exact (@set_correct). Qed.

(** new / from_slice / from_iter succeed for n >= 1 (the fuel suffices) and denote the fill value / the given elements in order *)
Theorem c01_build_correct : forall (T M V : Type) (merge : T -> T -> T) (update : T -> T -> T -> T) (modify : T -> M -> T) (push : T -> T -> T -> T * T * T) (obs : T -> V) (vmerge : V -> V -> V) (act : M -> V -> V) (Pending : T -> list M -> Prop), lawful merge update modify push obs vmerge act Pending -> forall dflt : T, (forall (n : nat) (v : T), n <> 0 -> exists t, new update n v = Some t /\ tn t = n /\ RepT obs vmerge act Pending t (repeat (obs v) n)) /\ (forall xs : list T, xs <> [] -> exists t, from_slice update xs = Some t /\ tn t = length xs /\ RepT obs vmerge act Pending t (map obs xs)) /\ (forall xs : list T, xs <> [] -> exists t, from_iter update dflt xs = Some t /\ tn t = length xs /\ RepT obs vmerge act Pending t (map obs xs)).
Proof. exact (@build_correct). Qed.

(** public ask(l, r) on any tree denoting vs (any pending tags): answer = merge of vs[l..r], array unchanged *)
Theorem c01_ask_tree_correct : forall (T M V : Type) (merge : T -> T -> T) (update : T -> T -> T -> T) (modify : T -> M -> T) (push : T -> T -> T -> T * T * T) (obs : T -> V) (vmerge : V -> V -> V) (act : M -> V -> V) (Pending : T -> list M -> Prop), lawful merge update modify push obs vmerge act Pending -> forall (dflt : T) (t : tree T) (vs : list V) (l r : nat), RepT obs vmerge act Pending t vs -> l <= r -> r < tn t -> exists t' x, ask merge push t l r = Some (t', x) /\ tn t' = tn t /\ RepT obs vmerge act Pending t' vs /\ obs x = range vmerge (obs dflt) vs l r.
Proof. exact (@ask_tree_correct). Qed.

(** debug() lists the logical array and leaves it unchanged *)
Theorem c01_debug_correct : forall (T M V : Type) (merge : T -> T -> T) (update : T -> T -> T -> T) (modify : T -> M -> T) (push : T -> T -> T -> T * T * T) (obs : T -> V) (vmerge : V -> V -> V) (act : M -> V -> V) (Pending : T -> list M -> Prop), lawful merge update modify push obs vmerge act Pending -> forall (dflt : T) (t : tree T) (vs : list V) (t' : tree T) (xs : list T), RepT obs vmerge act Pending t vs -> debug merge push t = (t', xs) -> tn t' = tn t /\ RepT obs vmerge act Pending t' vs /\ map obs xs = vs.
Proof. exact (@debug_correct). Qed.

(** every finite history (constructions, set, modify, ask, searches, debug, precondition violations) produces outputs matching the plain-array specification *)
Theorem c01_history : forall (T M V : Type) (merge : T -> T -> T) (update : T -> T -> T -> T) (modify : T -> M -> T) (push : T -> T -> T -> T * T * T) (obs : T -> V) (vmerge : V -> V -> V) (act : M -> V -> V) (Pending : T -> list M -> Prop), lawful merge update modify push obs vmerge act Pending -> forall (P : Type) (dflt : T) (pv : P -> V -> bool) (ops : list (op T M P)), Forall2 (out_match obs vmerge pv (obs dflt)) (run merge update modify push (fun p x => pv p (obs x)) dflt None ops) (spec_run obs vmerge act (obs dflt) None ops).
Proof. exact (fun T M V merge update modify push obs vmerge act Pending LAW P dflt pv ops => history_ok merge update modify push obs vmerge act Pending LAW dflt pv ops None None I). Qed.

(** the same for the executed item kits: model_outs (what model_check compares with the implementation) matches spec_outs *)
Theorem c01_kit_history : forall (T M V : Type) (k : kit T M V) (Pending : T -> list M -> Prop), kit_lawful k Pending -> forall ops : list (op T M pred), Forall2 (out_match (k_obs k) (k_vmerge k) (k_pv k) (k_obs k (k_dflt k))) (model_outs k ops) (spec_outs k ops).
Proof. exact (@kit_history). Qed.

(** Min over Z is lawful *)
Theorem c01_min_lawful : kit_lawful kit_min no_pending.
Proof. exact (kit_min_lawful). Qed.

(** Max over Z is lawful *)
Theorem c01_max_lawful : kit_lawful kit_max no_pending.
Proof. exact (kit_max_lawful). Qed.

(** Sum over Z is lawful *)
Theorem c01_sum_lawful : kit_lawful kit_sum no_pending.
Proof. exact (kit_sum_lawful). Qed.

(** MinAdd over Z is lawful (pending = md is the sum of the unpushed modifiers) *)
Theorem c01_minadd_lawful : kit_lawful kit_minadd va_pending.
Proof. exact (kit_minadd_lawful). Qed.

(** MaxAdd over Z is lawful *)
Theorem c01_maxadd_lawful : kit_lawful kit_maxadd va_pending.
Proof. exact (kit_maxadd_lawful). Qed.

(** SumAdd over Z is lawful *)
Theorem c01_sumadd_lawful : kit_lawful kit_sumadd sa_pending.
Proof. exact (kit_sumadd_lawful). Qed.

(** Combinator of two lawful items (default update) is lawful, hence every nesting *)
Theorem c01_combinator_lawful : forall (T1 T2 M V1 V2 : Type) (a : kit T1 M V1) (b : kit T2 M V2) (PA : T1 -> list M -> Prop) (PB : T2 -> list M -> Prop), k_update a = upd_of (k_merge a) -> k_update b = upd_of (k_merge b) -> kit_lawful a PA -> kit_lawful b PB -> kit_lawful (kit_comb a b) (comb_pending PA PB).
Proof. exact (@kit_comb_lawful). Qed.

(** Combinator<MinAdd, MaxAdd> *)
Theorem c01_comb2_lawful : kit_lawful kit_comb2 (comb_pending va_pending va_pending).
Proof. exact (kit_comb2_lawful). Qed.

(** Combinator<Combinator<MinAdd, MaxAdd>, SumAdd> *)
Theorem c01_comb3_lawful : kit_lawful kit_comb3 (comb_pending (comb_pending va_pending va_pending) sa_pending).
Proof. exact (kit_comb3_lawful). Qed.

(** a Combinator tree projected on a component = that component's tree run alone on the projected inputs (searches included when their predicate looks at that component only) *)
Theorem c01_combinator_side_by_side : forall (U W M P : Type) (mu : U -> U -> U) (du : U -> M -> U) (pu : U -> U -> U -> U * U * U) (mw : W -> W -> W) (dw : W -> M -> W) (pw : W -> W -> W -> W * W * W) (interp : P -> U * W -> bool) (iu : P -> U -> bool) (iw : P -> W -> bool) (d0 : U) (d1 : W) (ops : list (op (U * W) M P)), (Forall (search_ok fst interp iu) ops -> map (rmap fst) (run (comb_merge mu mw) (upd_of (comb_merge mu mw)) (comb_modify du dw) (comb_push pu pw) interp (d0, d1) None ops) = run mu (upd_of mu) du pu iu d0 None (map (omap fst) ops)) /\ (Forall (search_ok snd interp iw) ops -> map (rmap snd) (run (comb_merge mu mw) (upd_of (comb_merge mu mw)) (comb_modify du dw) (comb_push pu pw) interp (d0, d1) None ops) = run mw (upd_of mw) dw pw iw d1 None (map (omap snd) ops)).
Proof. exact (@combinator_side_by_side). Qed.

(** string-list concatenation with Assign|Append (non-commutative merge and modifiers) is lawful *)
Theorem c01_concat_lawful : kit_lawful kit_concat cc_pending.
Proof. exact (kit_concat_lawful). Qed.

(** range sum with affine tags mod 998244353 (non-commuting modifiers) is lawful *)
Theorem c01_affine_lawful : kit_lawful kit_affine af_pending.
Proof. exact (kit_affine_lawful). Qed.

(** range bit-flip with the zero-sized modifier type () (a lazy item although M = ()) is lawful; pending = parity of the unpushed flips *)
Theorem c01_flip_lawful : kit_lawful kit_flip fl_pending.
Proof. exact (kit_flip_lawful). Qed.

(** Min over an element type ordered by a key only, elements (key, id): merge keeps the RIGHT operand on ties (rightmost minimum) - lawful *)
Theorem c01_minkey_lawful : kit_lawful kit_minkey no_pending.
Proof. exact (kit_minkey_lawful). Qed.

(** Max over (key, id): rightmost maximum - lawful *)
Theorem c01_maxkey_lawful : kit_lawful kit_maxkey no_pending.
Proof. exact (kit_maxkey_lawful). Qed.

(** the tie rule of Min / Max merge: equal keys give the right operand, whatever the ids *)
Theorem c01_key_tie_right : forall a b : Z * Z, fst a = fst b -> kmin_merge a b = b /\ kmax_merge a b = b.
Proof. exact (fun a b H => conj (kmin_merge_tie a b H) (kmax_merge_tie a b H)). Qed.

(** Min / Max over f64 restricted to integral values and the two zeros ((value, sign bit of a zero)): same algebra, default f64::MAX / f64::MIN *)
Theorem c01_minf_lawful : kit_lawful kit_minf no_pending.
Proof. exact (kit_minf_lawful). Qed.
Theorem c01_maxf_lawful : kit_lawful kit_maxf no_pending.
Proof. exact (kit_maxf_lawful). Qed.

(** MinAdd / MaxAdd over (key, id) (modifiers add to the key): lawful, pending = sum of the keys of the unpushed modifiers *)
Theorem c01_minaddkey_lawful : kit_lawful kit_minaddkey kva_pending.
Proof. exact (kit_minaddkey_lawful). Qed.
Theorem c01_maxaddkey_lawful : kit_lawful kit_maxaddkey kva_pending.
Proof. exact (kit_maxaddkey_lawful). Qed.

(** Sum over strings with + = concatenation (non-commutative +) is lawful *)
Theorem c01_sumcat_lawful : kit_lawful kit_sumcat no_pending.
Proof. exact (kit_sumcat_lawful). Qed.

(** Combinator<Concat, Concat>, Combinator<Min, Combinator<Max, Sum>> (right-nested, M = ()), Combinator<Flip, Sum> *)
Theorem c01_combcat_lawful : kit_lawful kit_combcat (comb_pending cc_pending cc_pending).
Proof. exact (kit_combcat_lawful). Qed.
Theorem c01_combunit_lawful : kit_lawful kit_combunit (comb_pending no_pending (comb_pending no_pending no_pending)).
Proof. exact (kit_combunit_lawful). Qed.
Theorem c01_combflip_lawful : kit_lawful kit_combflip (comb_pending fl_pending no_pending).
Proof. exact (kit_combflip_lawful). Qed.

(** on every case where the implementation agrees with the model, its observations satisfy the plain-array specification *)
Theorem c01_model_check_spec_check : forall c : C01.Corr.case, C01.Corr.model_check c = true -> C01.Corr.spec_check c = true.
Proof. exact (fun c => model_check_spec_check_gen true false c). Qed.
