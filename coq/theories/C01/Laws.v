(** C01 — the lawful-item interface: what the proofs assume about an item type.

    [obs] reads the observable value a node item denotes, [vmerge]/[act] are the value
    algebra, [Pending x ms] is the ghost reading of "the lazy tag stored in [x] stands
    for the modifiers [ms], applied left to right".  No commutativity of [vmerge] and
    none between modifiers is assumed. *)
From Coq Require Import List.
Import ListNotations.

Section Laws.
Context {T M V : Type}.
Variable merge : T -> T -> T.
Variable update : T -> T -> T -> T.
Variable modify : T -> M -> T.
Variable push : T -> T -> T -> T * T * T.
Variable obs : T -> V.
Variable vmerge : V -> V -> V.
Variable act : M -> V -> V.
Variable Pending : T -> list M -> Prop.

Definition acts (ms : list M) (v : V) : V := fold_left (fun v m => act m v) ms v.

Record lawful : Prop := {
  vmerge_assoc : forall a b c, vmerge a (vmerge b c) = vmerge (vmerge a b) c;
  obs_merge : forall a b, obs (merge a b) = vmerge (obs a) (obs b);
  obs_update : forall x a b, obs (update x a b) = vmerge (obs a) (obs b);
  obs_modify : forall a m, obs (modify a m) = act m (obs a);
  act_vmerge : forall m a b, act m (vmerge a b) = vmerge (act m a) (act m b);
  pend_update : forall x a b, Pending (update x a b) [];
  pend_modify : forall a ms m, Pending a ms -> Pending (modify a m) (ms ++ [m]);
  push_law : forall x a b x' a' b' ms,
    Pending x ms -> push x a b = (x', a', b') ->
    obs x' = obs x /\ Pending x' [] /\
    obs a' = acts ms (obs a) /\ obs b' = acts ms (obs b) /\
    (forall ps, Pending a ps -> Pending a' (ps ++ ms)) /\
    (forall ps, Pending b ps -> Pending b' (ps ++ ms))
}.
End Laws.
