(** C01 — the item instances (definitions only; still "model").

    Built-ins of rlib/segtree/src/segtree_items.rs over [Z] (the harness uses i64 with
    values far from overflow): Min, Max, Sum (M = unit: modify and push are the trait
    defaults = no-ops), MinAdd, MaxAdd, SumAdd (M = Z), Combinator U V.
    None of them overrides [update], so [update self l r = merge l r].
    The same built-ins over element types where the choice of operand matters:
      Min / Max / MinAdd / MaxAdd over [Keyed { key, id }] (defined in the executor:
                ordered and compared by [key] only, [+=] adds the keys and keeps the
                left id) — elements that compare equal are still distinguishable, so the
                tie rule of [merge] ("the RIGHT operand unless the left one is strictly
                smaller / larger") is observable; modelled as pairs (key, id);
      Min / Max over f64 restricted to integral values and the two zeros: -0.0 and 0.0
                compare equal and differ in their bits: (key, id) = (value, sign bit of a zero);
      Sum over [Cat] (a string with [+] = concatenation: operand order of [Sum::merge]).
    Three user items defined in the executor (harness/crates/c01/src/main.rs):
      Concat  — parts : Vec<String>, merge = concatenation of the part lists (not
                commutative), modifier Assign s | Append s acting on every part,
                lazy tag = composed modifier;
      Affine  — sum, len mod 998244353 with a lazy affine tag (a, b): x -> a*x + b
                per element (Assign c = (0, c), Add c = (1, c); tags do not commute);
      Flip    — ones, len, flip : bool with the ZERO-SIZED modifier type [()]:
                [modify(&())] flips every bit of the range (ones = len - ones) and
                toggles the pending flag, [push] hands a pending flip to both children.
                A lazy item although [M = ()].
    For every item: [*_obs] (the observable value a query answer denotes), the value
    algebra [*_vmerge], [*_act], and [*_eqb] on full items (used by [model_check],
    which compares every field the implementation returned, lazy tags included). *)
From Coq Require Import ZArith List Bool.
Import ListNotations.
Open Scope Z_scope.

Definition i64_max : Z := 9223372036854775807.
Definition i64_min : Z := -9223372036854775808.

(** ---- Min / Max / Sum: struct { v } ---- *)
Definition min_merge (l r : Z) : Z := if l <? r then l else r.
Definition max_merge (l r : Z) : Z := if l >? r then l else r.
Definition sum_merge (l r : Z) : Z := l + r.
Definition upd_of {T} (merge : T -> T -> T) (_ l r : T) : T := merge l r.
Definition nomodify {T} (x : T) (_ : unit) : T := x.
Definition nopush {T} (x l r : T) : T * T * T := (x, l, r).
Definition noact {V} (_ : unit) (v : V) : V := v.

(** ---- MinAdd / MaxAdd: struct { v, md } ---- *)
Record vadd := VA { va_v : Z; va_md : Z }.
Definition va_new (v : Z) := VA v 0.
Definition minadd_merge (l r : vadd) := va_new (if va_v l <? va_v r then va_v l else va_v r).
Definition maxadd_merge (l r : vadd) := va_new (if va_v l >? va_v r then va_v l else va_v r).
Definition va_modify (x : vadd) (m : Z) := VA (va_v x + m) (va_md x + m).
Definition va_push (x l r : vadd) := (VA (va_v x) 0, va_modify l (va_md x), va_modify r (va_md x)).
Definition va_eqb (a b : vadd) := (va_v a =? va_v b) && (va_md a =? va_md b).
Definition add_act (m : Z) (v : Z) : Z := v + m.

(** ---- SumAdd: struct { v, len, md } ---- *)
Record sumadd := SA { sa_v : Z; sa_len : Z; sa_md : Z }.
Definition sa_new (v : Z) := SA v 1 0.
Definition sa_merge (l r : sumadd) := SA (sa_v l + sa_v r) (sa_len l + sa_len r) 0.
Definition sa_modify (x : sumadd) (m : Z) := SA (sa_v x + m * sa_len x) (sa_len x) (sa_md x + m).
Definition sa_push (x l r : sumadd) := (SA (sa_v x) (sa_len x) 0, sa_modify l (sa_md x), sa_modify r (sa_md x)).
Definition sa_eqb (a b : sumadd) := (sa_v a =? sa_v b) && (sa_len a =? sa_len b) && (sa_md a =? sa_md b).
Definition sa_obs (a : sumadd) : Z * Z := (sa_v a, sa_len a).
Definition sa_vmerge (a b : Z * Z) := (fst a + fst b, snd a + snd b).
Definition sa_act (m : Z) (a : Z * Z) := (fst a + m * snd a, snd a).
Definition zz_eqb (a b : Z * Z) := (fst a =? fst b) && (snd a =? snd b).

(** ---- Combinator U V: tuple struct, every operation forwarded to both components ---- *)
Section Comb.
Context {U V M : Type}.
Variables (mu : U -> U -> U) (mv : V -> V -> V).
Variables (du : U -> M -> U) (dv : V -> M -> V).
Variables (pu : U -> U -> U -> U * U * U) (pv : V -> V -> V -> V * V * V).
Definition comb_merge (l r : U * V) : U * V := (mu (fst l) (fst r), mv (snd l) (snd r)).
Definition comb_modify (x : U * V) (m : M) : U * V := (du (fst x) m, dv (snd x) m).
Definition comb_push (x l r : U * V) : (U * V) * (U * V) * (U * V) :=
  let '(x0, l0, r0) := pu (fst x) (fst l) (fst r) in
  let '(x1, l1, r1) := pv (snd x) (snd l) (snd r) in
  ((x0, x1), (l0, l1), (r0, r1)).
End Comb.
Definition pair_eqb {A B} (ea : A -> A -> bool) (eb : B -> B -> bool) (x y : A * B) : bool :=
  ea (fst x) (fst y) && eb (snd x) (snd y).
Definition pair_vmerge {A B} (ma : A -> A -> A) (mb : B -> B -> B) (x y : A * B) : A * B :=
  (ma (fst x) (fst y), mb (snd x) (snd y)).
Definition pair_act {M A B} (aa : M -> A -> A) (ab : M -> B -> B) (m : M) (x : A * B) : A * B :=
  (aa m (fst x), ab m (snd x)).
Definition pair_obs {T1 T2 A B} (oa : T1 -> A) (ob : T2 -> B) (x : T1 * T2) : A * B :=
  (oa (fst x), ob (snd x)).

(** ---- Concat (user item): strings are lists of character codes ---- *)
Definition str := list Z.
Inductive cmod := CAssign (s : str) | CAppend (s : str).
Record concat := CC { cc_parts : list str; cc_tag : option cmod }.
Definition cm_apply (m : cmod) (s : str) : str :=
  match m with CAssign t => t | CAppend t => s ++ t end.
(** tag composition: first [t], then [m] *)
Definition cm_then (t : option cmod) (m : cmod) : option cmod :=
  match m, t with
  | CAssign s, _ => Some (CAssign s)
  | CAppend s, None => Some (CAppend s)
  | CAppend s, Some (CAssign a) => Some (CAssign (a ++ s))
  | CAppend s, Some (CAppend a) => Some (CAppend (a ++ s))
  end.
Definition cc_new (s : str) := CC [s] None.
Definition cc_default := CC [] None.
Definition cc_merge (l r : concat) := CC (cc_parts l ++ cc_parts r) None.
Definition cc_modify (x : concat) (m : cmod) := CC (map (cm_apply m) (cc_parts x)) (cm_then (cc_tag x) m).
Definition cc_push (x l r : concat) : concat * concat * concat :=
  match cc_tag x with
  | Some t => (CC (cc_parts x) None, cc_modify l t, cc_modify r t)
  | None => (x, l, r)
  end.
Definition cc_obs (x : concat) : list str := cc_parts x.
Definition cc_vmerge (a b : list str) := a ++ b.
Definition cc_act (m : cmod) (a : list str) := map (cm_apply m) a.
Fixpoint list_eqb {A} (e : A -> A -> bool) (x y : list A) : bool :=
  match x, y with
  | [], [] => true
  | a :: x', b :: y' => e a b && list_eqb e x' y'
  | _, _ => false
  end.
Definition str_eqb : str -> str -> bool := list_eqb Z.eqb.
Definition cmod_eqb (a b : cmod) : bool :=
  match a, b with
  | CAssign s, CAssign t => str_eqb s t
  | CAppend s, CAppend t => str_eqb s t
  | _, _ => false
  end.
Definition opt_eqb {A} (e : A -> A -> bool) (x y : option A) : bool :=
  match x, y with Some a, Some b => e a b | None, None => true | _, _ => false end.
Definition cc_eqb (a b : concat) :=
  list_eqb str_eqb (cc_parts a) (cc_parts b) && opt_eqb cmod_eqb (cc_tag a) (cc_tag b).

(** ---- Affine (user item), u64 arithmetic mod 998244353 ---- *)
Definition PM : Z := 998244353.
Record affine := AF { af_sum : Z; af_len : Z; af_a : Z; af_b : Z }.
Definition af_new (v : Z) := AF (v mod PM) 1 1 0.
Definition af_default := AF 0 0 1 0.
Definition af_merge (l r : affine) := AF ((af_sum l + af_sum r) mod PM) (af_len l + af_len r) 1 0.
(** modifier (ma, mb): every element x becomes ma*x + mb *)
Definition af_modify (x : affine) (m : Z * Z) :=
  AF ((fst m * af_sum x + snd m * af_len x) mod PM) (af_len x)
     ((fst m * af_a x) mod PM) ((fst m * af_b x + snd m) mod PM).
Definition af_push (x l r : affine) :=
  (AF (af_sum x) (af_len x) 1 0, af_modify l (af_a x, af_b x), af_modify r (af_a x, af_b x)).
Definition af_obs (x : affine) : Z * Z := (af_sum x mod PM, af_len x).
Definition af_vmerge (a b : Z * Z) := ((fst a + fst b) mod PM, snd a + snd b).
Definition af_act (m : Z * Z) (a : Z * Z) := ((fst m * fst a + snd m * snd a) mod PM, snd a).
Definition af_eqb (a b : affine) :=
  (af_sum a =? af_sum b) && (af_len a =? af_len b) && (af_a a =? af_a b) && (af_b a =? af_b b).

(** ---- Flip (user item): range bit-flip, modifier type [unit] but lazy ---- *)
Record flip := FL { fl_ones : Z; fl_len : Z; fl_flip : bool }.
Definition fl_new (b : Z) := FL b 1 false.
Definition fl_default := FL 0 0 false.
Definition fl_merge (l r : flip) := FL (fl_ones l + fl_ones r) (fl_len l + fl_len r) false.
Definition fl_modify (x : flip) (_ : unit) := FL (fl_len x - fl_ones x) (fl_len x) (negb (fl_flip x)).
Definition fl_push (x l r : flip) : flip * flip * flip :=
  if fl_flip x then (FL (fl_ones x) (fl_len x) false, fl_modify l tt, fl_modify r tt) else (x, l, r).
Definition fl_obs (x : flip) : Z * Z := (fl_ones x, fl_len x).
Definition fl_act (_ : unit) (a : Z * Z) : Z * Z := (snd a - fst a, snd a).
Definition fl_eqb (a b : flip) :=
  (fl_ones a =? fl_ones b) && (fl_len a =? fl_len b) && Bool.eqb (fl_flip a) (fl_flip b).

(** ---- Min / Max over an element type ordered by a key only: pairs (key, id) ----
    [Min<T>::merge]: [if left.v < right.v { left } else { right }]: on a tie the RIGHT operand. *)
Definition kmin_merge (l r : Z * Z) : Z * Z := if fst l <? fst r then l else r.
Definition kmax_merge (l r : Z * Z) : Z * Z := if fst l >? fst r then l else r.
(** [Keyed::MAX = { key: i64::MAX, id: -1 }], [Keyed::MIN = { key: i64::MIN, id: -1 }] (executor) *)
Definition keyed_max : Z * Z := (i64_max, -1).
Definition keyed_min : Z * Z := (i64_min, -1).
(** f64: [MinMax::MAX = f64::MAX = (2^53 - 1) * 2^971], [MIN = -MAX]; never a zero, so id 0 *)
Definition f64_max : Z := (2 ^ 53 - 1) * 2 ^ 971.
Definition f64k_max : Z * Z := (f64_max, 0).
Definition f64k_min : Z * Z := (- f64_max, 0).

(** ---- MinAdd / MaxAdd over Keyed: struct { v : Keyed, md : Keyed }, modifier type Keyed ----
    [Keyed += m]: key += m.key, the id stays. *)
Definition k_add (a m : Z * Z) : Z * Z := (fst a + fst m, snd a).
Record kvadd := KVA { kva_v : Z * Z; kva_md : Z * Z }.
Definition kva_new (v : Z * Z) := KVA v (0, 0).
Definition kminadd_merge (l r : kvadd) := kva_new (kmin_merge (kva_v l) (kva_v r)).
Definition kmaxadd_merge (l r : kvadd) := kva_new (kmax_merge (kva_v l) (kva_v r)).
Definition kva_modify (x : kvadd) (m : Z * Z) := KVA (k_add (kva_v x) m) (k_add (kva_md x) m).
Definition kva_push (x l r : kvadd) := (KVA (kva_v x) (0, 0), kva_modify l (kva_md x), kva_modify r (kva_md x)).
Definition kva_eqb (a b : kvadd) := zz_eqb (kva_v a) (kva_v b) && zz_eqb (kva_md a) (kva_md b).
Definition kadd_act (m : Z * Z) (v : Z * Z) : Z * Z := k_add v m.

(** ---- Sum over Cat (string, + = concatenation, default = empty) ---- *)
Definition cat_merge (l r : str) : str := l ++ r.
