(** C01 — every item instance satisfies the lawful-item interface. *)
From Coq Require Import ZArith List Lia Bool Morphisms Setoid.
From RlibV Require Import C01.Model C01.Items C01.Spec C01.Laws.
Import ListNotations.
Open Scope Z_scope.

Ltac split6 := split; [|split; [|split; [|split; [|split]]]].

(** ---- non-lazy items: Min, Max, Sum ---- *)
Lemma acts_noact {V} (ms : list unit) (v : V) : acts noact ms v = v.
Proof. unfold acts. induction ms as [|m ms IH]; simpl; auto. Qed.

Lemma min_merge_min a b : min_merge a b = Z.min a b.
Proof. unfold min_merge. destruct (a <? b) eqn:E; [apply Z.ltb_lt in E|apply Z.ltb_ge in E]; lia. Qed.
Lemma max_merge_max a b : max_merge a b = Z.max a b.
Proof. unfold max_merge. rewrite Z.gtb_ltb. destruct (b <? a) eqn:E; [apply Z.ltb_lt in E|apply Z.ltb_ge in E]; lia. Qed.

Definition no_pending {T M} (_ : T) (_ : list M) : Prop := True.

Lemma plain_lawful (mg : Z -> Z -> Z) :
  (forall a b c, mg a (mg b c) = mg (mg a b) c) ->
  lawful mg (upd_of mg) nomodify nopush (fun z : Z => z) mg noact no_pending.
Proof.
  intros Hassoc. constructor; unfold no_pending.
  - exact Hassoc.
  - reflexivity.
  - reflexivity.
  - reflexivity.
  - reflexivity.
  - intros; exact I.
  - intros; exact I.
  - intros x a b x' a' b' ms _ E. injection E as <- <- <-. rewrite !acts_noact. repeat split; auto.
Qed.

Lemma min_lawful : lawful min_merge (upd_of min_merge) nomodify nopush (fun z : Z => z) min_merge noact no_pending.
Proof. apply plain_lawful. intros. rewrite !min_merge_min. apply Z.min_assoc. Qed.
Lemma max_lawful : lawful max_merge (upd_of max_merge) nomodify nopush (fun z : Z => z) max_merge noact no_pending.
Proof. apply plain_lawful. intros. rewrite !max_merge_max. apply Z.max_assoc. Qed.
Lemma sum_lawful : lawful sum_merge (upd_of sum_merge) nomodify nopush (fun z : Z => z) sum_merge noact no_pending.
Proof. apply plain_lawful. intros. unfold sum_merge. lia. Qed.

(** non-lazy items over any element type *)
Lemma plain_lawful_gen {T} (mg : T -> T -> T) :
  (forall a b c, mg a (mg b c) = mg (mg a b) c) ->
  lawful mg (upd_of mg) nomodify nopush (fun z : T => z) mg noact no_pending.
Proof.
  intros Hassoc. constructor; unfold no_pending.
  - exact Hassoc.
  - reflexivity.
  - reflexivity.
  - reflexivity.
  - reflexivity.
  - intros; exact I.
  - intros; exact I.
  - intros x a b x' a' b' ms _ E. injection E as <- <- <-. rewrite !acts_noact. repeat split; auto.
Qed.

(** Min / Max over (key, id): "the right operand wins ties" is associative (rightmost minimum / maximum) *)
Lemma kmin_merge_assoc a b c : kmin_merge a (kmin_merge b c) = kmin_merge (kmin_merge a b) c.
Proof.
  unfold kmin_merge.
  destruct (fst b <? fst c) eqn:E1; destruct (fst a <? fst b) eqn:E2; rewrite ?E1, ?E2; try reflexivity;
    destruct (fst a <? fst c) eqn:E3; try reflexivity;
    rewrite ?Z.ltb_lt, ?Z.ltb_ge in *; lia.
Qed.
Lemma kmax_merge_assoc a b c : kmax_merge a (kmax_merge b c) = kmax_merge (kmax_merge a b) c.
Proof.
  unfold kmax_merge. rewrite !Z.gtb_ltb.
  destruct (fst c <? fst b) eqn:E1; destruct (fst b <? fst a) eqn:E2; rewrite ?Z.gtb_ltb, ?E1, ?E2; try reflexivity;
    destruct (fst c <? fst a) eqn:E3; try reflexivity;
    rewrite ?Z.ltb_lt, ?Z.ltb_ge in *; lia.
Qed.
Lemma minkey_lawful : lawful kmin_merge (upd_of kmin_merge) nomodify nopush (fun z : Z * Z => z) kmin_merge noact no_pending.
Proof. apply plain_lawful_gen. apply kmin_merge_assoc. Qed.
Lemma maxkey_lawful : lawful kmax_merge (upd_of kmax_merge) nomodify nopush (fun z : Z * Z => z) kmax_merge noact no_pending.
Proof. apply plain_lawful_gen. apply kmax_merge_assoc. Qed.
Lemma sumcat_lawful : lawful cat_merge (upd_of cat_merge) nomodify nopush (fun z : str => z) cat_merge noact no_pending.
Proof. apply plain_lawful_gen. intros a b c. unfold cat_merge. apply app_assoc. Qed.
(** the tie rule itself: equal keys -> the right operand, whatever the ids *)
Lemma kmin_merge_tie a b : fst a = fst b -> kmin_merge a b = b.
Proof. intros H. unfold kmin_merge. rewrite H, Z.ltb_irrefl. reflexivity. Qed.
Lemma kmax_merge_tie a b : fst a = fst b -> kmax_merge a b = b.
Proof. intros H. unfold kmax_merge. rewrite H, Z.gtb_ltb, Z.ltb_irrefl. reflexivity. Qed.

(** ---- MinAdd / MaxAdd ---- *)
Definition zsum (ms : list Z) : Z := fold_left Z.add ms 0.
Lemma fold_add_shift ms a : fold_left Z.add ms a = a + zsum ms.
Proof. unfold zsum. revert a; induction ms as [|m ms IH]; intros a; simpl; [lia|]. rewrite IH, (IH m). lia. Qed.
Lemma zsum_app ms ps : zsum (ps ++ ms) = zsum ps + zsum ms.
Proof. unfold zsum at 1. rewrite fold_left_app. rewrite fold_add_shift. reflexivity. Qed.
Lemma acts_add ms v : acts add_act ms v = v + zsum ms.
Proof.
  unfold acts. revert v; induction ms as [|m ms IH]; intros v; simpl; [unfold zsum; simpl; lia|].
  rewrite IH. unfold add_act, zsum. simpl. rewrite (fold_add_shift ms m). unfold zsum. lia.
Qed.
Definition va_pending (x : vadd) (ms : list Z) : Prop := va_md x = zsum ms.

Lemma vadd_lawful (mg : vadd -> vadd -> vadd) (vm : Z -> Z -> Z) :
  (forall a b c, vm a (vm b c) = vm (vm a b) c) ->
  (forall a b, va_v (mg a b) = vm (va_v a) (va_v b)) ->
  (forall a b, va_md (mg a b) = 0) ->
  (forall m a b, vm a b + m = vm (a + m) (b + m)) ->
  lawful mg (upd_of mg) va_modify va_push va_v vm add_act va_pending.
Proof.
  intros Hassoc Hv Hmd Hdist. constructor.
  - exact Hassoc.
  - exact Hv.
  - intros x a b. apply Hv.
  - reflexivity.
  - intros m a b. unfold add_act. apply Hdist.
  - intros x a b. unfold va_pending, upd_of. rewrite Hmd. reflexivity.
  - intros a ms m H. unfold va_pending in *. simpl. rewrite zsum_app, H. unfold zsum. simpl. lia.
  - intros x a b x' a' b' ms Hp E. injection E as <- <- <-. unfold va_pending in *. simpl.
    rewrite !acts_add, Hp. repeat split; auto.
    + intros ps ->. rewrite zsum_app. reflexivity.
    + intros ps ->. rewrite zsum_app. reflexivity.
Qed.

Lemma minadd_lawful : lawful minadd_merge (upd_of minadd_merge) va_modify va_push va_v min_merge add_act va_pending.
Proof.
  apply vadd_lawful; auto.
  - intros. rewrite !min_merge_min. apply Z.min_assoc.
  - intros. rewrite !min_merge_min. lia.
Qed.
Lemma maxadd_lawful : lawful maxadd_merge (upd_of maxadd_merge) va_modify va_push va_v max_merge add_act va_pending.
Proof.
  apply vadd_lawful; auto.
  - intros. rewrite !max_merge_max. apply Z.max_assoc.
  - intros. rewrite !max_merge_max. lia.
Qed.

(** ---- MinAdd / MaxAdd over (key, id): the modifiers add to the key, the pending tag is the sum of their keys ---- *)
Definition kva_pending (x : kvadd) (ms : list (Z * Z)) : Prop := fst (kva_md x) = zsum (map fst ms).
Lemma acts_kadd ms v : acts kadd_act ms v = (fst v + zsum (map fst ms), snd v).
Proof.
  unfold acts. revert v; induction ms as [|m ms IH]; intros [a i]; simpl.
  - unfold zsum. simpl. f_equal. lia.
  - rewrite IH. unfold kadd_act, k_add, zsum. simpl. f_equal. rewrite (fold_add_shift (map fst ms) (fst m)). unfold zsum. lia.
Qed.
Lemma kvadd_lawful (mg : kvadd -> kvadd -> kvadd) (vm : Z * Z -> Z * Z -> Z * Z) :
  (forall a b c, vm a (vm b c) = vm (vm a b) c) ->
  (forall a b, kva_v (mg a b) = vm (kva_v a) (kva_v b)) ->
  (forall a b, kva_md (mg a b) = (0, 0)) ->
  (forall m a b, k_add (vm a b) m = vm (k_add a m) (k_add b m)) ->
  lawful mg (upd_of mg) kva_modify kva_push kva_v vm kadd_act kva_pending.
Proof.
  intros Hassoc Hv Hmd Hdist. constructor.
  - exact Hassoc.
  - exact Hv.
  - intros x a b. apply Hv.
  - reflexivity.
  - intros m a b. unfold kadd_act. apply Hdist.
  - intros x a b. unfold kva_pending, upd_of. rewrite Hmd. reflexivity.
  - intros a ms m H. unfold kva_pending in *. simpl. rewrite map_app, zsum_app, H. unfold zsum. simpl. lia.
  - intros x a b x' a' b' ms Hp E. injection E as <- <- <-. unfold kva_pending in *. simpl.
    rewrite !acts_kadd, <- Hp. repeat split; auto.
    + intros ps ->. rewrite map_app, zsum_app, Hp. reflexivity.
    + intros ps ->. rewrite map_app, zsum_app, Hp. reflexivity.
Qed.
Lemma kminaddkey_lawful : lawful kminadd_merge (upd_of kminadd_merge) kva_modify kva_push kva_v kmin_merge kadd_act kva_pending.
Proof.
  apply kvadd_lawful; auto.
  - apply kmin_merge_assoc.
  - intros m a b. unfold kmin_merge, k_add. simpl.
    destruct (fst a <? fst b) eqn:E1; destruct (fst a + fst m <? fst b + fst m) eqn:E2; try reflexivity;
      rewrite ?Z.ltb_lt, ?Z.ltb_ge in *; lia.
Qed.
Lemma kmaxaddkey_lawful : lawful kmaxadd_merge (upd_of kmaxadd_merge) kva_modify kva_push kva_v kmax_merge kadd_act kva_pending.
Proof.
  apply kvadd_lawful; auto.
  - apply kmax_merge_assoc.
  - intros m a b. unfold kmax_merge, k_add. simpl. rewrite !Z.gtb_ltb.
    destruct (fst b <? fst a) eqn:E1; destruct (fst b + fst m <? fst a + fst m) eqn:E2; try reflexivity;
      rewrite ?Z.ltb_lt, ?Z.ltb_ge in *; lia.
Qed.

(** ---- SumAdd ---- *)
Definition sa_pending (a : sumadd) (ms : list Z) : Prop := sa_md a = zsum ms.
Lemma sa_acts ms v : acts sa_act ms v = (fst v + zsum ms * snd v, snd v).
Proof.
  unfold acts. revert v; induction ms as [|m ms IH]; intros [a l]; simpl.
  - unfold zsum. simpl. f_equal. lia.
  - rewrite IH. unfold sa_act, zsum. simpl. f_equal. rewrite (fold_add_shift ms m). unfold zsum. lia.
Qed.
Lemma sumadd_lawful : lawful sa_merge (upd_of sa_merge) sa_modify sa_push sa_obs sa_vmerge sa_act sa_pending.
Proof.
  constructor.
  - intros [? ?] [? ?] [? ?]. unfold sa_vmerge; simpl. f_equal; lia.
  - reflexivity.
  - reflexivity.
  - reflexivity.
  - intros. unfold sa_act, sa_vmerge; simpl. f_equal; lia.
  - reflexivity.
  - intros a ms m H. unfold sa_pending in *. simpl. rewrite zsum_app, H. unfold zsum. simpl. lia.
  - intros x a b x' a' b' ms Hp E. injection E as <- <- <-. unfold sa_pending in *.
    rewrite !sa_acts. unfold sa_obs, sa_modify. simpl. rewrite Hp. repeat split; auto.
    + intros ps ->. rewrite zsum_app. reflexivity.
    + intros ps ->. rewrite zsum_app. reflexivity.
Qed.

(** ---- Combinator ---- *)
Section CombLaw.
Context {U W M VU VW : Type}.
Variables (mu : U -> U -> U) (uu : U -> U -> U -> U) (du : U -> M -> U) (pu : U -> U -> U -> U * U * U).
Variables (ou : U -> VU) (vmu : VU -> VU -> VU) (au : M -> VU -> VU) (PU : U -> list M -> Prop).
Variables (mw : W -> W -> W) (uw : W -> W -> W -> W) (dw : W -> M -> W) (pw : W -> W -> W -> W * W * W).
Variables (ow : W -> VW) (vmw : VW -> VW -> VW) (aw : M -> VW -> VW) (PW : W -> list M -> Prop).
Hypothesis LU : lawful mu uu du pu ou vmu au PU.
Hypothesis LW : lawful mw uw dw pw ow vmw aw PW.

Definition comb_pending (x : U * W) (ms : list M) : Prop := PU (fst x) ms /\ PW (snd x) ms.
(** [update] forwarded to both components (the trait default on the pair: merge of the pair) *)
Definition comb_update (x l r : U * W) : U * W := (uu (fst x) (fst l) (fst r), uw (snd x) (snd l) (snd r)).

Lemma acts_pair ms v : acts (pair_act au aw) ms v = (acts au ms (fst v), acts aw ms (snd v)).
Proof.
  unfold acts. revert v; induction ms as [|m ms IH]; intros [a b]; simpl; [reflexivity|].
  rewrite IH. reflexivity.
Qed.

Lemma comb_lawful_gen :
  lawful (comb_merge mu mw) comb_update (comb_modify du dw) (comb_push pu pw)
         (pair_obs ou ow) (pair_vmerge vmu vmw) (pair_act au aw) comb_pending.
Proof.
  destruct LU as [Ua Um Uu Ud Uv Upu Upm Upush]. destruct LW as [Wa Wm Wu Wd Wv Wpu Wpm Wpush].
  constructor.
  - intros [? ?] [? ?] [? ?]. unfold pair_vmerge; simpl. now rewrite Ua, Wa.
  - intros [? ?] [? ?]. unfold pair_obs, pair_vmerge, comb_merge; simpl. now rewrite Um, Wm.
  - intros [? ?] [? ?] [? ?]. unfold pair_obs, pair_vmerge, comb_update; simpl. now rewrite Uu, Wu.
  - intros [? ?] m. unfold pair_obs, pair_act, comb_modify; simpl. now rewrite Ud, Wd.
  - intros m [? ?] [? ?]. unfold pair_act, pair_vmerge; simpl. now rewrite Uv, Wv.
  - intros [? ?] [? ?] [? ?]. split; simpl; auto.
  - intros [? ?] ms m [H1 H2]. split; simpl in *; auto.
  - intros [x0 x1] [a0 a1] [b0 b1] x' a' b' ms [Hp0 Hp1] E. unfold comb_push in E. simpl in E.
    destruct (pu x0 a0 b0) as [[y0 c0] e0] eqn:E0. destruct (pw x1 a1 b1) as [[y1 c1] e1] eqn:E1.
    injection E as <- <- <-.
    destruct (Upush _ _ _ _ _ _ _ Hp0 E0) as (A1 & A2 & A3 & A4 & A5 & A6).
    destruct (Wpush _ _ _ _ _ _ _ Hp1 E1) as (B1 & B2 & B3 & B4 & B5 & B6).
    rewrite !acts_pair. unfold pair_obs, comb_pending; simpl.
    rewrite A1, B1, A3, B3, A4, B4. repeat split; auto.
    + apply A5. apply H.
    + apply B5. apply H.
    + apply A6. apply H.
    + apply B6. apply H.
Qed.
End CombLaw.

(** the Combinator of the crate does not override [update]: it is [merge] of the pair,
    which coincides with the forwarded update whenever both components use the default too *)
Lemma comb_lawful {U W M VU VW}
  (mu : U -> U -> U) (du : U -> M -> U) (pu : U -> U -> U -> U * U * U)
  (ou : U -> VU) (vmu : VU -> VU -> VU) (au : M -> VU -> VU) (PU : U -> list M -> Prop)
  (mw : W -> W -> W) (dw : W -> M -> W) (pw : W -> W -> W -> W * W * W)
  (ow : W -> VW) (vmw : VW -> VW -> VW) (aw : M -> VW -> VW) (PW : W -> list M -> Prop) :
  lawful mu (upd_of mu) du pu ou vmu au PU ->
  lawful mw (upd_of mw) dw pw ow vmw aw PW ->
  lawful (comb_merge mu mw) (upd_of (comb_merge mu mw)) (comb_modify du dw) (comb_push pu pw)
         (pair_obs ou ow) (pair_vmerge vmu vmw) (pair_act au aw) (comb_pending PU PW).
Proof. intros LU LW. exact (comb_lawful_gen _ _ _ _ _ _ _ _ _ _ _ _ _ _ _ _ LU LW). Qed.

(** ---- Concat: non-commutative merge, non-commuting modifiers ---- *)
Definition cc_tagact (t : option cmod) (v : list str) : list str :=
  match t with None => v | Some m => cc_act m v end.
Definition cc_pending (x : concat) (ms : list cmod) : Prop :=
  forall v, cc_tagact (cc_tag x) v = acts cc_act ms v.

Lemma map_id' {A} (l : list A) : map (fun x => x) l = l.
Proof. induction l; simpl; congruence. Qed.

Lemma cm_then_act t m v : cc_tagact (cm_then t m) v = cc_act m (cc_tagact t v).
Proof.
  unfold cc_act. destruct m as [s|s], t as [[a|a]|]; simpl; unfold cc_act; rewrite ?map_map; try reflexivity;
    apply map_ext; intros x; simpl; try reflexivity.
  now rewrite app_assoc.
Qed.

Lemma acts_snoc {M V} (act : M -> V -> V) ms m v : acts act (ms ++ [m]) v = act m (acts act ms v).
Proof. unfold acts. rewrite fold_left_app. reflexivity. Qed.
Lemma acts_app' {M V} (act : M -> V -> V) ps ms v : acts act (ps ++ ms) v = acts act ms (acts act ps v).
Proof. unfold acts. now rewrite fold_left_app. Qed.

Lemma concat_lawful : lawful cc_merge (upd_of cc_merge) cc_modify cc_push cc_obs cc_vmerge cc_act cc_pending.
Proof.
  constructor.
  - intros a b c. unfold cc_vmerge. apply app_assoc.
  - reflexivity.
  - reflexivity.
  - reflexivity.
  - intros m a b. unfold cc_act, cc_vmerge. apply map_app.
  - intros x a b v. reflexivity.
  - intros a ms m H v. unfold cc_modify. simpl. rewrite cm_then_act, H, acts_snoc. reflexivity.
  - intros x a b x' a' b' ms Hp E. unfold cc_push in E. unfold cc_pending in Hp.
    destruct (cc_tag x) as [t|] eqn:Et; injection E as <- <- <-.
    + split6.
      * reflexivity.
      * intros v. reflexivity.
      * apply (Hp (cc_obs a)).
      * apply (Hp (cc_obs b)).
      * intros ps Ha v. unfold cc_modify. simpl. rewrite cm_then_act, Ha, acts_app'. apply Hp.
      * intros ps Hb v. unfold cc_modify. simpl. rewrite cm_then_act, Hb, acts_app'. apply Hp.
    + split6.
      * reflexivity.
      * intros v. rewrite Et. reflexivity.
      * apply (Hp (cc_obs a)).
      * apply (Hp (cc_obs b)).
      * intros ps Ha v. rewrite acts_app', <- Hp. apply Ha.
      * intros ps Hb v. rewrite acts_app', <- Hp. apply Hb.
Qed.

(** ---- Affine: arithmetic mod PM ---- *)
Definition eqP (a b : Z) : Prop := a mod PM = b mod PM.
Lemma PM_nz : PM <> 0. Proof. unfold PM. lia. Qed.
#[local] Instance eqP_equiv : Equivalence eqP.
Proof. unfold eqP. split; [intros x; reflexivity|intros x y H; now symmetry|intros x y z H1 H2; now rewrite H1]. Qed.
#[local] Instance add_eqP : Proper (eqP ==> eqP ==> eqP) Z.add.
Proof. intros a b H c e H'. unfold eqP in *. rewrite (Z.add_mod a c), (Z.add_mod b e) by apply PM_nz. now rewrite H, H'. Qed.
#[local] Instance mul_eqP : Proper (eqP ==> eqP ==> eqP) Z.mul.
Proof. intros a b H c e H'. unfold eqP in *. rewrite (Z.mul_mod a c), (Z.mul_mod b e) by apply PM_nz. now rewrite H, H'. Qed.
Lemma mod_eqP a : eqP (a mod PM) a.
Proof. unfold eqP. apply Z.mod_mod. apply PM_nz. Qed.

Ltac modring :=
  match goal with |- ?a mod PM = ?b mod PM => change (eqP a b) end;
  rewrite ?mod_eqP; unfold eqP; f_equal; ring.

Definition af_normal (v : Z * Z) : Prop := fst v mod PM = fst v.
Definition af_pending (x : affine) (ms : list (Z * Z)) : Prop :=
  forall v, af_normal v -> af_act (af_a x, af_b x) v = acts af_act ms v.

Lemma af_act_normal m v : af_normal (af_act m v).
Proof. unfold af_normal, af_act. simpl. apply Z.mod_mod. apply PM_nz. Qed.
Lemma af_acts_normal ms v : af_normal v -> af_normal (acts af_act ms v).
Proof.
  revert v; induction ms as [|m ms IH]; intros v Hv; [exact Hv|].
  unfold acts in *. simpl. apply IH. apply af_act_normal.
Qed.
Lemma af_obs_normal x : af_normal (af_obs x).
Proof. unfold af_normal, af_obs. simpl. apply Z.mod_mod. apply PM_nz. Qed.

Lemma af_obs_modify a m : af_obs (af_modify a m) = af_act m (af_obs a).
Proof. unfold af_obs, af_act, af_modify. simpl. f_equal. rewrite Z.mod_mod by apply PM_nz. modring. Qed.

(** the tag of [modify x m] acts like the tag of [x] followed by [m] *)
Lemma af_tag_then x m v :
  af_act (af_a (af_modify x m), af_b (af_modify x m)) v = af_act m (af_act (af_a x, af_b x) v).
Proof. unfold af_act, af_modify. simpl. f_equal. modring. Qed.

Lemma affine_lawful : lawful af_merge (upd_of af_merge) af_modify af_push af_obs af_vmerge af_act af_pending.
Proof.
  constructor.
  - intros [a1 l1] [a2 l2] [a3 l3]. unfold af_vmerge. simpl. f_equal; [modring|lia].
  - intros a b. unfold af_obs, af_vmerge, af_merge. simpl. f_equal.
    rewrite Z.mod_mod by apply PM_nz. modring.
  - intros x a b. unfold upd_of, af_obs, af_vmerge, af_merge. simpl. f_equal.
    rewrite Z.mod_mod by apply PM_nz. modring.
  - apply af_obs_modify.
  - intros m [a1 l1] [a2 l2]. unfold af_act, af_vmerge. simpl. f_equal. modring.
  - intros x a b v Hv. destruct v as [s l]. unfold af_normal in Hv. cbn [fst snd] in Hv.
    unfold upd_of, af_merge, af_act, acts. cbn [af_a af_b fst snd fold_left]. f_equal.
    transitivity (s mod PM); [f_equal; ring|exact Hv].
  - intros a ms m H v Hv. rewrite af_tag_then, (H v Hv), acts_snoc. reflexivity.
  - intros x a b x' a' b' ms Hp E. unfold af_push in E. injection E as <- <- <-.
    split6.
    + unfold af_obs. reflexivity.
    + intros v Hv. destruct v as [s l]. unfold af_normal in Hv. cbn [fst snd] in Hv.
      unfold af_act, acts. cbn [af_a af_b fst snd fold_left]. f_equal.
      transitivity (s mod PM); [f_equal; ring|exact Hv].
    + rewrite af_obs_modify. apply Hp. apply af_obs_normal.
    + rewrite af_obs_modify. apply Hp. apply af_obs_normal.
    + intros ps Ha v Hv. rewrite af_tag_then, (Ha v Hv), acts_app'. apply Hp. now apply af_acts_normal.
    + intros ps Hb v Hv. rewrite af_tag_then, (Hb v Hv), acts_app'. apply Hp. now apply af_acts_normal.
Qed.

(** ---- Flip: modifier type [unit], yet lazy; pending = parity of the unpushed flips ---- *)
Definition fl_pending (x : flip) (ms : list unit) : Prop := fl_flip x = Nat.odd (length ms).

Lemma fl_act_invol m v : fl_act m (fl_act m v) = v.
Proof. destruct v as [a l]. unfold fl_act. simpl. f_equal. lia. Qed.
Lemma fl_acts ms v : acts fl_act ms v = if Nat.odd (length ms) then fl_act tt v else v.
Proof.
  induction ms as [|m ms IH] using rev_ind; [reflexivity|].
  rewrite acts_snoc, IH, app_length. simpl length. rewrite Nat.add_1_r, Nat.odd_succ, <- Nat.negb_odd.
  destruct m. destruct (Nat.odd (length ms)); simpl; [apply fl_act_invol|reflexivity].
Qed.
Lemma odd_length_app {A} (ps ms : list A) : Nat.odd (length (ps ++ ms)) = xorb (Nat.odd (length ps)) (Nat.odd (length ms)).
Proof. rewrite app_length. apply Nat.odd_add. Qed.

Lemma flip_lawful : lawful fl_merge (upd_of fl_merge) fl_modify fl_push fl_obs sa_vmerge fl_act fl_pending.
Proof.
  constructor.
  - intros [? ?] [? ?] [? ?]. unfold sa_vmerge; simpl. f_equal; lia.
  - reflexivity.
  - reflexivity.
  - reflexivity.
  - intros m [a1 l1] [a2 l2]. unfold fl_act, sa_vmerge; simpl. f_equal; lia.
  - reflexivity.
  - intros a ms m H. unfold fl_pending in *. simpl. rewrite odd_length_app, H. simpl. now rewrite xorb_true_r.
  - intros x a b x' a' b' ms Hp E. unfold fl_pending in Hp. unfold fl_push in E. rewrite !fl_acts, <- Hp.
    destruct (fl_flip x) eqn:Ef; injection E as <- <- <-; unfold fl_pending; split6; try reflexivity.
    + intros ps Ha. rewrite odd_length_app, <- Hp, <- Ha. simpl. now rewrite xorb_true_r.
    + intros ps Hb. rewrite odd_length_app, <- Hp, <- Hb. simpl. now rewrite xorb_true_r.
    + exact Ef.
    + intros ps Ha. rewrite odd_length_app, <- Hp, <- Ha. now rewrite xorb_false_r.
    + intros ps Hb. rewrite odd_length_app, <- Hp, <- Hb. now rewrite xorb_false_r.
Qed.
