(** C01 / C02 — executable model of rlib/segtree/src/segtree.rs.

    Generic over the item operations (the trait [SegtreeItem<M>]):
      [merge]  = T::merge(left, right)
      [update] = self.update(left, right)      (trait default: [*self = merge(left, right)])
      [modify] = self.modify(modifier)
      [push]   = self.push(left, right)        returns the new (self, left, right)

    The implicit array [data[i]] (children [2i+1], [2i+2]) is abstracted to a
    shape whose inner node stores the *items of its two children*; the item of
    the node in hand is passed alongside.  [push_at(i)] is then an update of
    the item in hand and of the two stored child items, and every recursive
    call is structural.  The code decides "leaf" by [vl == vr]; the model by the
    shape constructor [L]; the two agree because the shape is built over the same
    ranges ([m = (vl+vr)/2], left [vl..m], right [m+1..vr]) the code recurses
    over (theorems [c01_rep_leaf_iff] and [c01_build_correct]).

    Order of effects transcribed from the code:
      set_internal     leaf: overwrite; else push_at, descend ([ind <= m]), merge_at
      ask_internal     [l == vl && r == vr]: clone; else push_at, three-way split
                       ([r <= m], [l > m], both: merge(left answer, right answer)); NO merge_at
      modify_internal  full cover: modify; else push_at, three-way split, merge_at
      lower_bound_internal / _rev_internal: see below; NO merge_at
    Asserted preconditions ([n != 0], [ind < n], [l <= r], [r < n]) are checked by
    [step] and give [OPanic] with the state unchanged (the asserts precede every
    mutation).  Definitions only; proofs are in Proofs*.v. *)
From Coq Require Import List Arith Bool.
Import ListNotations.
Arguments Nat.div : simpl never.
Arguments Nat.modulo : simpl never.

Section Seg.
Context {T M : Type}.
Variable merge : T -> T -> T.
Variable update : T -> T -> T -> T.
Variable modify : T -> M -> T.
Variable push : T -> T -> T -> T * T * T.

Inductive shape := L | N (l : shape) (xl xr : T) (r : shape).

(** rebuild(i, l, r, data): leaves take the next element of the iterator; inner
    nodes: left, right, then merge_at(i) = data[i].update(left, right), where
    data[i] still holds the fill value [x] given to new_raw.  [None] = the
    iterator ran dry ([unwrap] on [None]) or the fuel did (excluded by the
    theorems: fuel [n] suffices). *)
Fixpoint rebuild (fuel : nat) (x : T) (vl vr : nat) (data : list T) {struct fuel}
  : option (T * shape * list T) :=
  if vl =? vr then
    match data with [] => None | d :: data' => Some (d, L, data') end
  else
    match fuel with
    | 0 => None
    | S fuel' =>
      let m := (vl + vr) / 2 in
      match rebuild fuel' x vl m data with
      | None => None
      | Some (xl, lt, data1) =>
        match rebuild fuel' x (m + 1) vr data1 with
        | None => None
        | Some (xr, rt, data2) => Some (update x xl xr, N lt xl xr rt, data2)
        end
      end
    end.

(** rebuild_empty(i, l, r): every slot already holds [x]; inner nodes are updated bottom-up *)
Fixpoint rebuild_empty (fuel : nat) (x : T) (vl vr : nat) {struct fuel} : option (T * shape) :=
  if vl =? vr then Some (x, L)
  else
    match fuel with
    | 0 => None
    | S fuel' =>
      let m := (vl + vr) / 2 in
      match rebuild_empty fuel' x vl m with
      | None => None
      | Some (xl, lt) =>
        match rebuild_empty fuel' x (m + 1) vr with
        | None => None
        | Some (xr, rt) => Some (update x xl xr, N lt xl xr rt)
        end
      end
    end.

Fixpoint set_t (x : T) (s : shape) (ind : nat) (value : T) (vl vr : nat) : T * shape :=
  match s with
  | L => (value, L)
  | N lt xl xr rt =>
    let '(x, xl, xr) := push x xl xr in
    let m := (vl + vr) / 2 in
    if ind <=? m then
      let '(xl, lt) := set_t xl lt ind value vl m in (update x xl xr, N lt xl xr rt)
    else
      let '(xr, rt) := set_t xr rt ind value (m + 1) vr in (update x xl xr, N lt xl xr rt)
  end.

(** returns (item of this node, shape, answer) *)
Fixpoint ask_t (x : T) (s : shape) (l r vl vr : nat) : T * shape * T :=
  match s with
  | L => (x, s, x)
  | N lt xl xr rt =>
    if (l =? vl) && (r =? vr) then (x, s, x) else
    let '(x, xl, xr) := push x xl xr in
    let m := (vl + vr) / 2 in
    if r <=? m then
      let '(xl, lt, res) := ask_t xl lt l r vl m in (x, N lt xl xr rt, res)
    else if m <? l then
      let '(xr, rt, res) := ask_t xr rt l r (m + 1) vr in (x, N lt xl xr rt, res)
    else
      let '(xl, lt, a) := ask_t xl lt l m vl m in
      let '(xr, rt, b) := ask_t xr rt (m + 1) r (m + 1) vr in
      (x, N lt xl xr rt, merge a b)
  end.

Fixpoint modify_t (x : T) (s : shape) (md : M) (l r vl vr : nat) : T * shape :=
  match s with
  | L => (modify x md, s)
  | N lt xl xr rt =>
    if (l =? vl) && (r =? vr) then (modify x md, s) else
    let '(x, xl, xr) := push x xl xr in
    let m := (vl + vr) / 2 in
    if r <=? m then
      let '(xl, lt) := modify_t xl lt md l r vl m in (update x xl xr, N lt xl xr rt)
    else if m <? l then
      let '(xr, rt) := modify_t xr rt md l r (m + 1) vr in (update x xl xr, N lt xl xr rt)
    else
      let '(xl, lt) := modify_t xl lt md l m vl m in
      let '(xr, rt) := modify_t xr rt md (m + 1) r (m + 1) vr in
      (update x xl xr, N lt xl xr rt)
  end.

(** lower_bound_internal(item, f, l, r, i, vl, vr) -> (T, Option<usize>).
    Result: ((item of this node, shape), (returned item, returned index), trace of the
    values [f] was applied to, in call order).
      if l == vl && r == vr { next = merge(item, data[i]); if !f(next) return (next, None);
                              if vl == vr return (next, Some(vl)); }
      push_at(i); m = (vl+vr)/2;
      if l <= m { (li, lr) = rec(item, l, m, left); if lr.is_some() return (li, lr); item = li; }
      rec(item, max(l, m+1), r, right)
    On a leaf the test [l == vl && r == vr] always succeeds in calls that come from
    [lower_bound] with [l < n] (then [vl <= l <= r = vr] throughout); the
    fall-through of a leaf (reachable only with [l >= n], where the code indexes
    out of bounds) is not modelled: [step] reports [OPanic] for [l >= n]. *)
Fixpoint lb_t (f : T -> bool) (item x : T) (s : shape) (l r vl vr : nat)
  : (T * shape) * (T * option nat) * list T :=
  match s with
  | L =>
    let next := merge item x in
    if negb (f next) then ((x, s), (next, None), [next])
    else ((x, s), (next, Some vl), [next])
  | N lt xl xr rt =>
    let full := (l =? vl) && (r =? vr) in
    let next := merge item x in
    if full && negb (f next) then ((x, s), (next, None), [next]) else
    let tr0 := if full then [next] else [] in
    let '(x, xl, xr) := push x xl xr in
    let m := (vl + vr) / 2 in
    if l <=? m then
      let '((xl, lt), (litem, lres), tr1) := lb_t f item xl lt l m vl m in
      match lres with
      | Some _ => ((x, N lt xl xr rt), (litem, lres), tr0 ++ tr1)
      | None =>
        let '((xr, rt), res, tr2) := lb_t f litem xr rt (Nat.max l (m + 1)) r (m + 1) vr in
        ((x, N lt xl xr rt), res, tr0 ++ tr1 ++ tr2)
      end
    else
      let '((xr, rt), res, tr2) := lb_t f item xr rt (Nat.max l (m + 1)) r (m + 1) vr in
      ((x, N lt xl xr rt), res, tr0 ++ tr2)
  end.

(** lower_bound_rev_internal: mirror image; next = merge(data[i], item); right child first;
    left child called with (l, min(r, m)). *)
Fixpoint lbr_t (f : T -> bool) (item x : T) (s : shape) (l r vl vr : nat)
  : (T * shape) * (T * option nat) * list T :=
  match s with
  | L =>
    let next := merge x item in
    if negb (f next) then ((x, s), (next, None), [next])
    else ((x, s), (next, Some vl), [next])
  | N lt xl xr rt =>
    let full := (l =? vl) && (r =? vr) in
    let next := merge x item in
    if full && negb (f next) then ((x, s), (next, None), [next]) else
    let tr0 := if full then [next] else [] in
    let '(x, xl, xr) := push x xl xr in
    let m := (vl + vr) / 2 in
    if m <? r then
      let '((xr, rt), (ritem, rres), tr1) := lbr_t f item xr rt (m + 1) r (m + 1) vr in
      match rres with
      | Some _ => ((x, N lt xl xr rt), (ritem, rres), tr0 ++ tr1)
      | None =>
        let '((xl, lt), res, tr2) := lbr_t f ritem xl lt l (Nat.min r m) vl m in
        ((x, N lt xl xr rt), res, tr0 ++ tr1 ++ tr2)
      end
    else
      let '((xl, lt), res, tr2) := lbr_t f item xl lt l (Nat.min r m) vl m in
      ((x, N lt xl xr rt), res, tr0 ++ tr2)
  end.

(** ---------- the public interface ---------- *)
Record tree := Tree { tn : nat; troot : T; tshape : shape }.

(** new(n, value): assert n != 0; fill; rebuild_empty(0, 0, n-1) *)
Definition new (n : nat) (value : T) : option tree :=
  if n =? 0 then None else
  match rebuild_empty n value 0 (n - 1) with
  | Some (x, s) => Some (Tree n x s)
  | None => None
  end.

(** from_slice(data): new_raw(data.len(), data[0].clone()) — panics on an empty slice *)
Definition from_slice (data : list T) : option tree :=
  match data with
  | [] => None
  | d0 :: _ =>
    let n := length data in
    match rebuild n d0 0 (n - 1) data with
    | Some (x, s, _) => Some (Tree n x s)
    | None => None
    end
  end.

(** from_iter(iter): new_raw(iter.len(), T::default()) — assert n != 0 *)
Definition from_iter (dflt : T) (data : list T) : option tree :=
  let n := length data in
  if n =? 0 then None else
  match rebuild n dflt 0 (n - 1) data with
  | Some (x, s, _) => Some (Tree n x s)
  | None => None
  end.

Definition set (t : tree) (ind : nat) (value : T) : option tree :=
  if ind <? tn t then
    let '(x, s) := set_t (troot t) (tshape t) ind value 0 (tn t - 1) in Some (Tree (tn t) x s)
  else None.

Definition ask (t : tree) (l r : nat) : option (tree * T) :=
  if (l <=? r) && (r <? tn t) then
    let '(x, s, res) := ask_t (troot t) (tshape t) l r 0 (tn t - 1) in Some (Tree (tn t) x s, res)
  else None.

Definition modify_range (t : tree) (l r : nat) (md : M) : option tree :=
  if (l <=? r) && (r <? tn t) then
    let '(x, s) := modify_t (troot t) (tshape t) md l r 0 (tn t - 1) in Some (Tree (tn t) x s)
  else None.

(** lower_bound(l, f) = lower_bound_internal(T::default(), &f, l, n-1, 0, 0, n-1).1
    ([None] of the outer option: [l >= n], outside the model, see [lb_t]) *)
Definition lower_bound (dflt : T) (t : tree) (l : nat) (f : T -> bool)
  : option (tree * option nat * list T) :=
  if l <? tn t then
    let '((x, s), (_, res), tr) := lb_t f dflt (troot t) (tshape t) l (tn t - 1) 0 (tn t - 1) in
    Some (Tree (tn t) x s, res, tr)
  else None.

Definition lower_bound_rev (dflt : T) (t : tree) (r : nat) (f : T -> bool)
  : option (tree * option nat * list T) :=
  if r <? tn t then
    let '((x, s), (_, res), tr) := lbr_t f dflt (troot t) (tshape t) 0 r 0 (tn t - 1) in
    Some (Tree (tn t) x s, res, tr)
  else None.

(** debug(): (0..n).map(|i| self.ask(i, i)) — each ask mutates the lazy state *)
Fixpoint debug_from (t : tree) (i k : nat) : tree * list T :=
  match k with
  | 0 => (t, [])
  | S k' =>
    match ask t i i with
    | Some (t', x) => let '(t'', xs) := debug_from t' (S i) k' in (t'', x :: xs)
    | None => (t, [])
    end
  end.
Definition debug (t : tree) : tree * list T := debug_from t 0 (tn t).

(** ---------- operation histories ---------- *)
Context {P : Type}.
Variable interp : P -> T -> bool.   (* the closure passed to lower_bound, described by data *)
Variable dflt : T.                  (* T::default() *)

Inductive op :=
| ONew (n : nat) (v : T)
| OFromSlice (xs : list T)
| OFromIter (xs : list T)
| OSet (i : nat) (v : T)
| OModify (l r : nat) (m : M)
| OAsk (l r : nat)
| OLowerBound (l : nat) (p : P)
| OLowerBoundRev (r : nat) (p : P)
| ODebug.

Inductive out :=
| OUnit
| OPanic
| OItem (x : T)
| OItems (xs : list T)
| OBound (res : option nat) (trace : list T).

Definition lift (st : option tree) (r : option tree) : option tree * out :=
  match r with Some t => (Some t, OUnit) | None => (st, OPanic) end.

Definition step (st : option tree) (o : op) : option tree * out :=
  match o with
  | ONew n v => lift st (new n v)
  | OFromSlice xs => lift st (from_slice xs)
  | OFromIter xs => lift st (from_iter dflt xs)
  | _ =>
    match st with
    | None => (st, OPanic)
    | Some t =>
      match o with
      | OSet i v => lift st (set t i v)
      | OModify l r m => lift st (modify_range t l r m)
      | OAsk l r =>
        match ask t l r with Some (t', x) => (Some t', OItem x) | None => (st, OPanic) end
      | OLowerBound l p =>
        match lower_bound dflt t l (interp p) with
        | Some (t', res, tr) => (Some t', OBound res tr)
        | None => (st, OPanic)
        end
      | OLowerBoundRev r p =>
        match lower_bound_rev dflt t r (interp p) with
        | Some (t', res, tr) => (Some t', OBound res tr)
        | None => (st, OPanic)
        end
      | ODebug => let '(t', xs) := debug t in (Some t', OItems xs)
      | _ => (st, OPanic)
      end
    end
  end.

Fixpoint run (st : option tree) (ops : list op) : list out :=
  match ops with
  | [] => []
  | o :: os => let '(st', r) := step st o in r :: run st' os
  end.

End Seg.

Arguments L {T}.
Arguments N {T} l xl xr r.
Arguments shape T : clear implicits.
Arguments tree T : clear implicits.
Arguments op T M P : clear implicits.
Arguments out T : clear implicits.
Arguments ONew {T M P}. Arguments OFromSlice {T M P}. Arguments OFromIter {T M P}.
Arguments OSet {T M P}. Arguments OModify {T M P}. Arguments OAsk {T M P}.
Arguments OLowerBound {T M P}. Arguments OLowerBoundRev {T M P}. Arguments ODebug {T M P}.
Arguments OUnit {T}. Arguments OPanic {T}. Arguments OItem {T}. Arguments OItems {T}. Arguments OBound {T}.
