(** C01 / C02 — [model_check c = true -> spec_check c = true]: on every case where the
    implementation agrees with the model, its observations satisfy the plain-array
    specification *by proof* (the second batch lemma is then a redundant cross-check). *)
From Coq Require Import ZArith List Lia Bool Arith.
From RlibV Require Import C01.Model C01.Items C01.Spec C01.Laws C01.Corr
  C01.ProofsItems C01.ProofsTop.
Import ListNotations.
Local Open Scope nat_scope.

Definition eqb_ok {A} (e : A -> A -> bool) : Prop := forall x y, e x y = true <-> x = y.

Lemma list_eqb_ok {A} (e : A -> A -> bool) : eqb_ok e -> eqb_ok (list_eqb e).
Proof.
  intros He x. induction x as [|a x IH]; intros [|b y]; simpl; split; intro H; try discriminate; auto.
  - apply andb_true_iff in H. destruct H as [H1 H2]. apply He in H1. apply IH in H2. congruence.
  - injection H as -> ->. apply andb_true_iff. split; [now apply He|now apply IH].
Qed.
Lemma pair_eqb_ok {A B} (ea : A -> A -> bool) (eb : B -> B -> bool) : eqb_ok ea -> eqb_ok eb -> eqb_ok (pair_eqb ea eb).
Proof.
  intros Ha Hb [a b] [c d]. unfold pair_eqb. simpl. rewrite andb_true_iff, (Ha a c), (Hb b d).
  split; [intros [-> ->]; reflexivity|intros H; injection H; auto].
Qed.
Lemma opt_eqb_ok {A} (e : A -> A -> bool) : eqb_ok e -> eqb_ok (opt_eqb e).
Proof.
  intros He [a|] [b|]; simpl; split; intro H; try discriminate; auto.
  - apply He in H. congruence.
  - injection H as ->. now apply He.
Qed.
Lemma Z_eqb_ok : eqb_ok Z.eqb. Proof. intros x y. apply Z.eqb_eq. Qed.
Lemma va_eqb_ok : eqb_ok va_eqb.
Proof.
  intros [a b] [c d]. unfold va_eqb. simpl. rewrite andb_true_iff, !Z.eqb_eq.
  split; [intros [-> ->]; reflexivity|intros H; injection H; auto].
Qed.
Lemma sa_eqb_ok : eqb_ok sa_eqb.
Proof.
  intros [a b c] [a' b' c']. unfold sa_eqb. simpl. rewrite !andb_true_iff, !Z.eqb_eq.
  split; [intros [[-> ->] ->]; reflexivity|intros H; injection H; auto].
Qed.
Lemma af_eqb_ok : eqb_ok af_eqb.
Proof.
  intros [a b c d] [a' b' c' d']. unfold af_eqb. simpl. rewrite !andb_true_iff, !Z.eqb_eq.
  split; [intros [[[-> ->] ->] ->]; reflexivity|intros H; injection H; auto].
Qed.
Lemma fl_eqb_ok : eqb_ok fl_eqb.
Proof.
  intros [a b c] [a' b' c']. unfold fl_eqb. simpl. rewrite !andb_true_iff, !Z.eqb_eq, Bool.eqb_true_iff.
  split; [intros [[-> ->] ->]; reflexivity|intros H; injection H; auto].
Qed.
Lemma zz_eqb_ok : eqb_ok zz_eqb.
Proof.
  intros [a b] [c d]. unfold zz_eqb. simpl. rewrite andb_true_iff, !Z.eqb_eq.
  split; [intros [-> ->]; reflexivity|intros H; injection H; auto].
Qed.
Lemma kva_eqb_ok : eqb_ok kva_eqb.
Proof.
  intros [a b] [c d]. unfold kva_eqb. simpl. rewrite andb_true_iff, (zz_eqb_ok a c), (zz_eqb_ok b d).
  split; [intros [-> ->]; reflexivity|intros H; injection H; auto].
Qed.
Lemma str_eqb_ok : eqb_ok str_eqb. Proof. apply list_eqb_ok, Z_eqb_ok. Qed.
Lemma cmod_eqb_ok : eqb_ok cmod_eqb.
Proof.
  intros [s|s] [t|t]; simpl; split; intro H; try discriminate.
  - apply str_eqb_ok in H. congruence.
  - injection H as ->. now apply str_eqb_ok.
  - apply str_eqb_ok in H. congruence.
  - injection H as ->. now apply str_eqb_ok.
Qed.
Lemma cc_eqb_ok : eqb_ok cc_eqb.
Proof.
  intros [p t] [p' t']. unfold cc_eqb. simpl. rewrite andb_true_iff.
  rewrite (list_eqb_ok _ str_eqb_ok p p'), (opt_eqb_ok _ cmod_eqb_ok t t').
  split; [intros [-> ->]; reflexivity|intros H; injection H; auto].
Qed.
Lemma onat_eqb_ok : eqb_ok onat_eqb.
Proof.
  intros [a|] [b|]; simpl; split; intro H; try discriminate; auto.
  - apply Nat.eqb_eq in H. congruence.
  - injection H as ->. apply Nat.eqb_refl.
Qed.

Section Check.
Context {T M V : Type}.
Variable k : kit T M V.
Variable Pending : T -> list M -> Prop.
Hypothesis LAW : kit_lawful k Pending.
Hypothesis Ht : eqb_ok (k_teqb k).
Hypothesis Hv : eqb_ok (k_veqb k).

Lemma out_eqb_sound a b : out_eqb k a b = true -> a = b.
Proof.
  destruct a, b; simpl; intro H; try discriminate; auto.
  - apply Ht in H. congruence.
  - apply (list_eqb_ok _ Ht) in H. congruence.
  - apply andb_true_iff in H. destruct H as [H1 H2].
    apply onat_eqb_ok in H1. apply (list_eqb_ok _ Ht) in H2. congruence.
Qed.

Lemma all2_out_eqb_sound xs : forall ys, all2 (out_eqb k) xs ys = true -> xs = ys.
Proof.
  induction xs as [|x xs IH]; intros [|y ys] H; simpl in H; try discriminate; auto.
  apply andb_true_iff in H. destruct H as [H1 H2]. apply out_eqb_sound in H1. apply IH in H2. congruence.
Qed.

Lemma vlist_eqb_refl (vs : list V) : vlist_eqb (k_veqb k) vs vs = true.
Proof. induction vs as [|v vs IH]; simpl; auto. rewrite IH, andb_true_r. now apply Hv. Qed.

Lemma out_match_b ca cb r s :
  out_match (k_obs k) (k_vmerge k) (k_pv k) (k_obs k (k_dflt k)) r s ->
  out_matchb (k_obs k) (k_vmerge k) (k_pv k) (k_obs k (k_dflt k)) (k_veqb k) ca cb r s = true.
Proof.
  destruct r, s; simpl; intro H; try contradiction; auto.
  - apply orb_true_iff. right. now apply Hv.
  - apply orb_true_iff. right. rewrite H. apply vlist_eqb_refl.
  - destruct cb; [|reflexivity]. simpl.
    destruct (id_okb (k_vmerge k) (k_obs k (k_dflt k)) (k_veqb k) rev cs) eqn:Eid; [|reflexivity]. simpl.
    assert (Hid : id_ok (k_vmerge k) (k_obs k (k_dflt k)) rev cs).
    { intros kv Hin. unfold id_okb in Eid. rewrite forallb_forall in Eid. apply Hv. apply (Eid kv Hin). }
    destruct (H Hid) as [Htr Hres].
    apply andb_true_iff. split.
    + apply forallb_forall. intros t Ht'. apply existsb_exists.
      destruct (Htr t Ht') as (kv & Hin & Heq). exists kv. split; [exact Hin|]. now apply Hv.
    + destruct (monotone (map (fun kv => k_pv k p (snd kv)) cs)) eqn:Em; [|reflexivity]. simpl.
      rewrite (Hres eq_refl). now apply onat_eqb_ok.
Qed.

Lemma forall2_all2 ca cb rs : forall ss,
  Forall2 (out_match (k_obs k) (k_vmerge k) (k_pv k) (k_obs k (k_dflt k))) rs ss ->
  all2 (out_matchb (k_obs k) (k_vmerge k) (k_pv k) (k_obs k (k_dflt k)) (k_veqb k) ca cb) rs ss = true.
Proof.
  induction rs as [|r rs IH]; intros ss H; inversion H; subst; simpl; auto.
  rewrite out_match_b by assumption. now apply IH.
Qed.

Theorem model_check_spec_check_k ca cb (h : hist T M) :
  model_check_k k h = true -> spec_check_k k ca cb h = true.
Proof.
  unfold model_check_k, spec_check_k. intros H. apply all2_out_eqb_sound in H. rewrite <- H.
  apply forall2_all2. exact (kit_history k Pending LAW (fst h)).
Qed.
End Check.

Theorem model_check_spec_check_gen ca cb (c : case) : model_check c = true -> spec_check_gen ca cb c = true.
Proof.
  destruct c as [h|h|h|h|h|h|h|h|h|h|h|h|h|h|h|h|h|h|h|h|h]; cbn [model_check spec_check_gen].
  - apply (model_check_spec_check_k kit_min _ kit_min_lawful Z_eqb_ok Z_eqb_ok).
  - apply (model_check_spec_check_k kit_max _ kit_max_lawful Z_eqb_ok Z_eqb_ok).
  - apply (model_check_spec_check_k kit_sum _ kit_sum_lawful Z_eqb_ok Z_eqb_ok).
  - apply (model_check_spec_check_k kit_minadd _ kit_minadd_lawful va_eqb_ok Z_eqb_ok).
  - apply (model_check_spec_check_k kit_maxadd _ kit_maxadd_lawful va_eqb_ok Z_eqb_ok).
  - apply (model_check_spec_check_k kit_sumadd _ kit_sumadd_lawful sa_eqb_ok zz_eqb_ok).
  - apply (model_check_spec_check_k kit_comb2 _ kit_comb2_lawful (pair_eqb_ok _ _ va_eqb_ok va_eqb_ok) (pair_eqb_ok _ _ Z_eqb_ok Z_eqb_ok)).
  - apply (model_check_spec_check_k kit_comb3 _ kit_comb3_lawful
             (pair_eqb_ok _ _ (pair_eqb_ok _ _ va_eqb_ok va_eqb_ok) sa_eqb_ok)
             (pair_eqb_ok _ _ (pair_eqb_ok _ _ Z_eqb_ok Z_eqb_ok) zz_eqb_ok)).
  - apply (model_check_spec_check_k kit_concat _ kit_concat_lawful cc_eqb_ok (list_eqb_ok _ str_eqb_ok)).
  - apply (model_check_spec_check_k kit_affine _ kit_affine_lawful af_eqb_ok zz_eqb_ok).
  - apply (model_check_spec_check_k kit_flip _ kit_flip_lawful fl_eqb_ok zz_eqb_ok).
  - apply (model_check_spec_check_k kit_minkey _ kit_minkey_lawful zz_eqb_ok zz_eqb_ok).
  - apply (model_check_spec_check_k kit_maxkey _ kit_maxkey_lawful zz_eqb_ok zz_eqb_ok).
  - apply (model_check_spec_check_k kit_minf _ kit_minf_lawful zz_eqb_ok zz_eqb_ok).
  - apply (model_check_spec_check_k kit_maxf _ kit_maxf_lawful zz_eqb_ok zz_eqb_ok).
  - apply (model_check_spec_check_k kit_minaddkey _ kit_minaddkey_lawful kva_eqb_ok zz_eqb_ok).
  - apply (model_check_spec_check_k kit_maxaddkey _ kit_maxaddkey_lawful kva_eqb_ok zz_eqb_ok).
  - apply (model_check_spec_check_k kit_sumcat _ kit_sumcat_lawful str_eqb_ok str_eqb_ok).
  - apply (model_check_spec_check_k kit_combcat _ kit_combcat_lawful (pair_eqb_ok _ _ cc_eqb_ok cc_eqb_ok)
             (pair_eqb_ok _ _ (list_eqb_ok _ str_eqb_ok) (list_eqb_ok _ str_eqb_ok))).
  - apply (model_check_spec_check_k kit_combunit _ kit_combunit_lawful
             (pair_eqb_ok _ _ Z_eqb_ok (pair_eqb_ok _ _ Z_eqb_ok Z_eqb_ok))
             (pair_eqb_ok _ _ Z_eqb_ok (pair_eqb_ok _ _ Z_eqb_ok Z_eqb_ok))).
  - apply (model_check_spec_check_k kit_combflip _ kit_combflip_lawful (pair_eqb_ok _ _ fl_eqb_ok Z_eqb_ok)
             (pair_eqb_ok _ _ zz_eqb_ok Z_eqb_ok)).
Qed.
