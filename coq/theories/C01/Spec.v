(** C01 / C02 — the specification: plain-array semantics, independent of the tree model.

    The logical array is a [list V] of observable values; a point assignment replaces
    one position, a range modification maps [act m] over the positions [l..r] and leaves
    every other position untouched, a query is the left-to-right [vmerge] of the
    sub-list, the boundary searches scan the ranges [l..k] (resp. [k..r]) in order.
    Nothing here mentions shapes, pushes or lazy tags.  Definitions only. *)
From Coq Require Import List Arith Bool.
From RlibV Require Import C01.Model.
Import ListNotations.

Section Spec.
Context {T M V P : Type}.
Variable obs : T -> V.
Variable vmerge : V -> V -> V.
Variable act : M -> V -> V.
Variable pv : P -> V -> bool.    (* the predicate of a boundary search, on observable values *)
Variable vd : V.                 (* obs (T::default()) *)

(** left-to-right merge of a non-empty list; [d] is returned for the empty list only *)
Fixpoint vfold1 (v : V) (vs : list V) : V :=
  match vs with [] => v | w :: ws => vmerge v (vfold1 w ws) end.
Definition vfold (d : V) (vs : list V) : V :=
  match vs with [] => d | v :: ws => vfold1 v ws end.

(** positions [l..r] of a list whose first element has index [vl] *)
Definition seg (vs : list V) (vl l r : nat) : list V := firstn (r - l + 1) (skipn (l - vl) vs).
(** [f] applied to the positions [l..r] only *)
Definition upd_seg (f : V -> V) (vs : list V) (vl l r : nat) : list V :=
  firstn (l - vl) vs ++ map f (seg vs vl l r) ++ skipn (r - vl + 1) vs.
Definition upd_at (vs : list V) (i : nat) (v : V) : list V := firstn i vs ++ v :: skipn (S i) vs.

Definition range (vs : list V) (l r : nat) : V := vfold vd (seg vs 0 l r).

(** candidates of lower_bound(l, _): (k, merge of [l..k]) for k = l, l+1, ..., n-1 *)
Definition cands_fwd (vs : list V) (l : nat) : list (nat * V) :=
  map (fun k => (k, range vs l k)) (seq l (length vs - l)).
(** candidates of lower_bound_rev(r, _): (k, merge of [k..r]) for k = r, r-1, ..., 0 *)
Definition cands_rev (vs : list V) (r : nat) : list (nat * V) :=
  map (fun k => (k, range vs k r)) (rev (seq 0 (r + 1))).

(** once true, always true *)
Fixpoint monotone (bs : list bool) : bool :=
  match bs with
  | [] => true
  | b :: r => if b then forallb (fun x => x) r else monotone r
  end.

Definition first_sat (p : P) (cs : list (nat * V)) : option nat :=
  match find (fun kv => pv p (snd kv)) cs with Some kv => Some (fst kv) | None => None end.

Inductive sout :=
| SUnit
| SPanic
| SVal (v : V)
| SVals (vs : list V)
| SBound (rev : bool) (p : P) (cs : list (nat * V)).   (* the search order and what each prefix merges to *)

Definition spec_step (a : option (list V)) (o : op T M P) : option (list V) * sout :=
  match o with
  | ONew n v => if n =? 0 then (a, SPanic) else (Some (repeat (obs v) n), SUnit)
  | OFromSlice xs | OFromIter xs =>
      match xs with [] => (a, SPanic) | _ => (Some (map obs xs), SUnit) end
  | _ =>
    match a with
    | None => (a, SPanic)
    | Some vs =>
      let n := length vs in
      match o with
      | OSet i v => if i <? n then (Some (upd_at vs i (obs v)), SUnit) else (a, SPanic)
      | OModify l r m =>
          if (l <=? r) && (r <? n) then (Some (upd_seg (act m) vs 0 l r), SUnit) else (a, SPanic)
      | OAsk l r => if (l <=? r) && (r <? n) then (a, SVal (range vs l r)) else (a, SPanic)
      | OLowerBound l p => if l <? n then (a, SBound false p (cands_fwd vs l)) else (a, SPanic)
      | OLowerBoundRev r p => if r <? n then (a, SBound true p (cands_rev vs r)) else (a, SPanic)
      | ODebug => (a, SVals vs)
      | _ => (a, SPanic)
      end
    end
  end.

Fixpoint spec_run (a : option (list V)) (ops : list (op T M P)) : list sout :=
  match ops with
  | [] => []
  | o :: os => let '(a', r) := spec_step a o in r :: spec_run a' os
  end.

(** identity law of [default] on exactly the values the search can meet *)
Definition id_ok (rev : bool) (cs : list (nat * V)) : Prop :=
  forall kv, In kv cs -> (if rev then vmerge (snd kv) vd else vmerge vd (snd kv)) = snd kv.

(** when does an observed output agree with the specification's *)
Definition out_match (r : out T) (s : sout) : Prop :=
  match r, s with
  | OUnit, SUnit => True
  | OPanic, SPanic => True
  | OItem x, SVal v => obs x = v
  | OItems xs, SVals vs => map obs xs = vs
  | OBound res tr, SBound rev p cs =>
      id_ok rev cs ->
      (forall t, In t tr -> exists kv, In kv cs /\ obs t = snd kv)
      /\ (monotone (map (fun kv => pv p (snd kv)) cs) = true -> res = first_sat p cs)
  | _, _ => False
  end.

(** the same, decided ([veqb] decides equality of observable values) *)
Variable veqb : V -> V -> bool.
Fixpoint vlist_eqb (x y : list V) : bool :=
  match x, y with
  | [], [] => true
  | a :: x', b :: y' => veqb a b && vlist_eqb x' y'
  | _, _ => false
  end.
Definition id_okb (rev : bool) (cs : list (nat * V)) : bool :=
  forallb (fun kv => veqb (if rev then vmerge (snd kv) vd else vmerge vd (snd kv)) (snd kv)) cs.
Definition onat_eqb (x y : option nat) : bool :=
  match x, y with Some a, Some b => a =? b | None, None => true | _, _ => false end.

(** [chk_ask]: check query answers (C01); [chk_bound]: check search results and traces (C02) *)
Definition out_matchb (chk_ask chk_bound : bool) (r : out T) (s : sout) : bool :=
  match r, s with
  | OUnit, SUnit => true
  | OPanic, SPanic => true
  | OItem x, SVal v => negb chk_ask || veqb (obs x) v
  | OItems xs, SVals vs => negb chk_ask || vlist_eqb (map obs xs) vs
  | OBound res tr, SBound rev p cs =>
      negb chk_bound || negb (id_okb rev cs) ||
      (forallb (fun t => existsb (fun kv => veqb (obs t) (snd kv)) cs) tr
       && (negb (monotone (map (fun kv => pv p (snd kv)) cs)) || onat_eqb res (first_sat p cs)))
  | _, _ => false
  end.

Fixpoint all2 {A B} (f : A -> B -> bool) (x : list A) (y : list B) : bool :=
  match x, y with
  | [], [] => true
  | a :: x', b :: y' => f a b && all2 f x' y'
  | _, _ => false
  end.

End Spec.
Arguments sout V P : clear implicits.
Arguments SUnit {V P}. Arguments SPanic {V P}. Arguments SVal {V P}. Arguments SVals {V P}. Arguments SBound {V P}.
