(** C01 — the theorems instantiated on the item kits that the correspondence batches
    execute (C01.Corr): each kit is lawful, hence every history run by [model_outs]
    agrees with the plain-array [spec_outs]. *)
From Coq Require Import ZArith List Lia Bool Arith.
From RlibV Require Import C01.Model C01.Items C01.Spec C01.Laws C01.Corr
  C01.ProofsCore C01.ProofsBound C01.ProofsTree C01.ProofsHist C01.ProofsItems.
Import ListNotations.
Local Open Scope nat_scope.

Definition kit_lawful {T M V} (k : kit T M V) (Pending : T -> list M -> Prop) : Prop :=
  lawful (k_merge k) (k_update k) (k_modify k) (k_push k) (k_obs k) (k_vmerge k) (k_act k) Pending.

Lemma kit_min_lawful : kit_lawful kit_min no_pending. Proof. exact min_lawful. Qed.
Lemma kit_max_lawful : kit_lawful kit_max no_pending. Proof. exact max_lawful. Qed.
Lemma kit_sum_lawful : kit_lawful kit_sum no_pending. Proof. exact sum_lawful. Qed.
Lemma kit_minadd_lawful : kit_lawful kit_minadd va_pending. Proof. exact minadd_lawful. Qed.
Lemma kit_maxadd_lawful : kit_lawful kit_maxadd va_pending. Proof. exact maxadd_lawful. Qed.
Lemma kit_sumadd_lawful : kit_lawful kit_sumadd sa_pending. Proof. exact sumadd_lawful. Qed.
Lemma kit_concat_lawful : kit_lawful kit_concat cc_pending. Proof. exact concat_lawful. Qed.
Lemma kit_affine_lawful : kit_lawful kit_affine af_pending. Proof. exact affine_lawful. Qed.
Lemma kit_flip_lawful : kit_lawful kit_flip fl_pending. Proof. exact flip_lawful. Qed.

Lemma kit_minkey_lawful : kit_lawful kit_minkey no_pending. Proof. exact minkey_lawful. Qed.
Lemma kit_maxkey_lawful : kit_lawful kit_maxkey no_pending. Proof. exact maxkey_lawful. Qed.
Lemma kit_minf_lawful : kit_lawful kit_minf no_pending. Proof. exact minkey_lawful. Qed.
Lemma kit_maxf_lawful : kit_lawful kit_maxf no_pending. Proof. exact maxkey_lawful. Qed.
Lemma kit_minaddkey_lawful : kit_lawful kit_minaddkey kva_pending. Proof. exact kminaddkey_lawful. Qed.
Lemma kit_maxaddkey_lawful : kit_lawful kit_maxaddkey kva_pending. Proof. exact kmaxaddkey_lawful. Qed.
Lemma kit_sumcat_lawful : kit_lawful kit_sumcat no_pending. Proof. exact sumcat_lawful. Qed.

(** Combinator of two lawful kits (whose [update] is the trait default) is lawful: hence every nesting *)
Lemma kit_comb_lawful {T1 T2 M V1 V2} (a : kit T1 M V1) (b : kit T2 M V2) PA PB :
  k_update a = upd_of (k_merge a) -> k_update b = upd_of (k_merge b) ->
  kit_lawful a PA -> kit_lawful b PB -> kit_lawful (kit_comb a b) (comb_pending PA PB).
Proof.
  unfold kit_lawful. intros Ea Eb LA LB. rewrite Ea in LA. rewrite Eb in LB.
  exact (comb_lawful _ _ _ _ _ _ _ _ _ _ _ _ _ _ LA LB).
Qed.
Lemma kit_comb2_lawful : kit_lawful kit_comb2 (comb_pending va_pending va_pending).
Proof. apply kit_comb_lawful; [reflexivity|reflexivity|exact kit_minadd_lawful|exact kit_maxadd_lawful]. Qed.
Lemma kit_comb3_lawful :
  kit_lawful kit_comb3 (comb_pending (comb_pending va_pending va_pending) sa_pending).
Proof. apply kit_comb_lawful; [reflexivity|reflexivity|exact kit_comb2_lawful|exact kit_sumadd_lawful]. Qed.

Lemma kit_combcat_lawful : kit_lawful kit_combcat (comb_pending cc_pending cc_pending).
Proof. apply kit_comb_lawful; [reflexivity|reflexivity|exact kit_concat_lawful|exact kit_concat_lawful]. Qed.
Lemma kit_combunit_lawful :
  kit_lawful kit_combunit (comb_pending no_pending (comb_pending no_pending no_pending)).
Proof.
  apply kit_comb_lawful; [reflexivity|reflexivity|exact kit_min_lawful|].
  apply kit_comb_lawful; [reflexivity|reflexivity|exact kit_max_lawful|exact kit_sum_lawful].
Qed.
Lemma kit_combflip_lawful : kit_lawful kit_combflip (comb_pending fl_pending no_pending).
Proof. apply kit_comb_lawful; [reflexivity|reflexivity|exact kit_flip_lawful|exact kit_sum_lawful]. Qed.

Lemma build_correct {T M V} (merge : T -> T -> T) update (modify : T -> M -> T) push
  (obs : T -> V) vmerge act Pending :
  lawful merge update modify push obs vmerge act Pending ->
  forall dflt : T,
  (forall n v, n <> 0 -> exists t, new update n v = Some t /\ tn t = n
                                   /\ RepT obs vmerge act Pending t (repeat (obs v) n)) /\
  (forall xs, xs <> [] -> exists t, from_slice update xs = Some t /\ tn t = length xs
                                   /\ RepT obs vmerge act Pending t (map obs xs)) /\
  (forall xs, xs <> [] -> exists t, from_iter update dflt xs = Some t /\ tn t = length xs
                                   /\ RepT obs vmerge act Pending t (map obs xs)).
Proof.
  intros LAW dflt. split; [|split].
  - intros n v Hn. exact (new_correct _ _ _ _ _ _ _ _ LAW n v Hn).
  - intros xs Hx. exact (from_slice_correct _ _ _ _ _ _ _ _ LAW xs Hx).
  - intros xs Hx. exact (from_iter_correct _ _ _ _ _ _ _ _ LAW dflt xs Hx).
Qed.

Theorem kit_history {T M V} (k : kit T M V) Pending : kit_lawful k Pending ->
  forall ops : list (op T M pred),
  Forall2 (out_match (k_obs k) (k_vmerge k) (k_pv k) (k_obs k (k_dflt k)))
          (model_outs k ops) (spec_outs k ops).
Proof.
  intros LAW ops. unfold model_outs, spec_outs.
  exact (history_ok _ _ _ _ _ _ _ _ LAW (k_dflt k) (k_pv k) ops None None I).
Qed.
