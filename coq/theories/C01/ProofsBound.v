(** C02 — lower_bound_internal / lower_bound_rev_internal against the plain array,
    for every lawful item (no commutativity, any pending tags). *)
From Coq Require Import List Arith Lia Bool.
From RlibV Require Import C01.Model C01.Spec C01.Laws C01.ProofsCore.
Import ListNotations.
Arguments Nat.div : simpl never.
Arguments Nat.modulo : simpl never.

Section Bound.
Context {T M V : Type}.
Variable merge : T -> T -> T.
Variable update : T -> T -> T -> T.
Variable modify : T -> M -> T.
Variable push : T -> T -> T -> T * T * T.
Variable obs : T -> V.
Variable vmerge : V -> V -> V.
Variable act : M -> V -> V.
Variable Pending : T -> list M -> Prop.
Hypothesis LAW : lawful merge update modify push obs vmerge act Pending.
Variable f : T -> bool.
Variable g : V -> bool.
Hypothesis Hfg : forall x, f x = g (obs x).
Variable d : V.

Local Notation vfold := (vfold vmerge).
Local Notation Rep := (Rep obs vmerge act Pending).
Let vmerge_assoc := vmerge_assoc _ _ _ _ _ _ _ _ LAW.
Let obs_merge := obs_merge _ _ _ _ _ _ _ _ LAW.

Lemma lb_correct s : forall item x vl vr vs l (F : nat -> V) x' s' item' res tr,
  Rep x s vl vr vs -> vl <= l -> l <= vr ->
  (forall k, l <= k -> k <= vr -> vmerge (obs item) (vfold d (seg vs vl l k)) = F k) ->
  lb_t merge push f item x s l vr vl vr = ((x', s'), (item', res), tr) ->
  Rep x' s' vl vr vs /\
  (forall t, In t tr -> exists k, l <= k /\ k <= vr /\ obs t = F k) /\
  match res with
  | Some k => l <= k /\ k <= vr /\ obs item' = F k /\ g (F k) = true
  | None => obs item' = F vr /\ g (F vr) = false
  end /\
  ((forall j k, l <= j -> j <= k -> k <= vr -> g (F j) = true -> g (F k) = true) ->
   forall k, res = Some k -> forall j, l <= j -> j < k -> g (F j) = false).
Proof.
  induction s as [|lt IHl xl xr rt IHr];
    intros item x vl vr vs l F x' s' item' res tr HR Hl Hr HF Hlb.
  - inversion HR; subst. assert (l = vr) by lia. subst l.
    assert (Hn : obs (merge item x) = F vr).
    { rewrite obs_merge, <- (HF vr) by lia. unfold seg. rewrite Nat.sub_diag. reflexivity. }
    cbn [lb_t] in Hlb. destruct (negb (f (merge item x))) eqn:Ef; injection Hlb as <- <- <- <- <-.
    + apply negb_true_iff in Ef. rewrite Hfg, Hn in Ef.
      split; [constructor|]. split.
      { intros t [<-|[]]. exists vr. auto. }
      split; [auto|]. intros _ k Hk. discriminate.
    + apply negb_false_iff in Ef. rewrite Hfg, Hn in Ef.
      split; [constructor|]. split.
      { intros t [<-|[]]. exists vr. auto. }
      split; [repeat split; auto|]. intros _ k Hk j Hj1 Hj2. injection Hk as <-. lia.
  - pose proof (Rep_length _ _ _ _ _ _ _ _ _ HR) as [Hlenvs _].
    assert (Hnext : l = vl -> obs (merge item x) = F vr).
    { intros ->. rewrite obs_merge, <- (HF vr) by lia.
      rewrite seg_full by lia. f_equal.
      apply (Rep_top _ _ _ _ _ _ _ _ _ HR). }
    cbn [lb_t] in Hlb. rewrite Nat.eqb_refl, andb_true_r in Hlb.
    destruct ((l =? vl) && negb (f (merge item x))) eqn:Estop.
    + injection Hlb as <- <- <- <- <-.
      apply andb_true_iff in Estop. destruct Estop as [E1 E2]. apply Nat.eqb_eq in E1.
      apply negb_true_iff in E2. rewrite Hfg, (Hnext E1) in E2.
      split; [exact HR|]. split.
      { intros t [<-|[]]. exists vr. repeat split; auto. }
      split; [auto|]. intros _ k Hk. discriminate.
    + set (tr0 := if l =? vl then [merge item x] else []) in Hlb.
      assert (Htr0 : forall t, In t tr0 -> exists k, l <= k /\ k <= vr /\ obs t = F k).
      { intros t Ht. unfold tr0 in Ht. destruct (l =? vl) eqn:E; [|destruct Ht].
        apply Nat.eqb_eq in E. destruct Ht as [<-|[]]. exists vr. repeat split; auto. }
      clearbody tr0. clear Estop Hnext.
      destruct (push x xl xr) as [[x1 xl1] xr1] eqn:Epush.
      destruct (Rep_push _ _ _ _ _ _ _ _ LAW _ _ _ _ _ _ _ _ _ _ _ HR Epush)
        as (ls & rs & -> & Hlt & HR1 & HR2 & _ & _ & Hnode).
      set (m := (vl + vr) / 2) in *.
      pose proof (mid_bounds _ _ Hlt) as [Hm1 Hm2]. fold m in Hm1, Hm2.
      pose proof (Rep_length _ _ _ _ _ _ _ _ _ HR1) as [Hlen1 _].
      pose proof (Rep_length _ _ _ _ _ _ _ _ _ HR2) as [Hlen2 _].
      destruct (l <=? m) eqn:Elm.
      * apply Nat.leb_le in Elm.
        destruct (lb_t merge push f item xl1 lt l m vl m) as [[[xl' lt'] [litem lres]] tr1] eqn:Ea.
        assert (HFl : forall k, l <= k -> k <= m -> vmerge (obs item) (vfold d (seg ls vl l k)) = F k).
        { intros k Hk1 Hk2. rewrite <- (HF k) by lia. now rewrite (seg_left _ _ vl m) by lia. }
        destruct (IHl _ _ _ _ _ _ F _ _ _ _ _ HR1 Hl Elm HFl Ea) as (HRl & Htr1 & Hres1 & Hmin1).
        destruct lres as [kl|].
        -- injection Hlb as <- <- <- <- <-.
           split; [apply Hnode; auto|]. split.
           { intros t Ht. apply in_app_or in Ht. destruct Ht as [Ht|Ht]; [auto|].
             destruct (Htr1 t Ht) as (k & ? & ? & ?). exists k. repeat split; auto; lia. }
           destruct Hres1 as (? & ? & ? & ?).
           split; [repeat split; auto; lia|].
           intros Hmono k Hk j Hj1 Hj2. injection Hk as <-.
           apply (Hmin1 ltac:(intros; apply (Hmono j0 k); auto; lia) kl eq_refl j); auto.
        -- destruct Hres1 as [Hli Hgm].
           replace (Nat.max l (m + 1)) with (m + 1) in Hlb by lia.
           destruct (lb_t merge push f litem xr1 rt (m + 1) vr (m + 1) vr) as [[[xr' rt'] [ritem rres]] tr2] eqn:Eb.
           injection Hlb as <- <- <- <- <-.
           assert (HFr : forall k, m + 1 <= k -> k <= vr ->
                     vmerge (obs litem) (vfold d (seg rs (m + 1) (m + 1) k)) = F k).
           { intros k Hk1 Hk2. rewrite Hli, <- (HF m), <- (HF k) by lia.
             rewrite (seg_split ls rs vl m vr l k) by lia. rewrite (seg_left ls rs vl m l m) by lia.
             rewrite (vfold_app _ _ _ _ _ _ _ _ LAW) by (apply seg_nonempty; lia).
             now rewrite vmerge_assoc. }
           assert (Hmr : m + 1 <= vr) by lia.
           destruct (IHr _ _ _ _ _ _ F _ _ _ _ _ HR2 (le_n _) Hmr HFr Eb) as (HRr & Htr2 & Hres2 & Hmin2).
           split; [apply Hnode; auto|]. split.
           { intros t Ht. apply in_app_or in Ht. destruct Ht as [Ht|Ht]; [auto|].
             apply in_app_or in Ht. destruct Ht as [Ht|Ht].
             - destruct (Htr1 t Ht) as (k & ? & ? & ?). exists k. repeat split; auto; lia.
             - destruct (Htr2 t Ht) as (k & ? & ? & ?). exists k. repeat split; auto; lia. }
           split.
           { destruct rres as [kr|]; [|exact Hres2].
             destruct Hres2 as (? & ? & ? & ?). repeat split; auto; lia. }
           intros Hmono k Hk j Hj1 Hj2.
           destruct (le_lt_dec j m) as [Hjm|Hjm].
           ++ destruct (g (F j)) eqn:Egj; [|reflexivity].
              rewrite (Hmono j m) in Hgm by (auto; lia). discriminate.
           ++ apply (Hmin2 ltac:(intros; apply (Hmono j0 k0); auto; lia) k Hk j); lia.
      * apply Nat.leb_gt in Elm.
        replace (Nat.max l (m + 1)) with l in Hlb by lia.
        destruct (lb_t merge push f item xr1 rt l vr (m + 1) vr) as [[[xr' rt'] [ritem rres]] tr2] eqn:Eb.
        injection Hlb as <- <- <- <- <-.
        assert (HFr : forall k, l <= k -> k <= vr -> vmerge (obs item) (vfold d (seg rs (m + 1) l k)) = F k).
        { intros k Hk1 Hk2. rewrite <- (HF k) by lia. now rewrite (seg_right _ _ vl m) by lia. }
        assert (Hml : m + 1 <= l) by lia.
        destruct (IHr _ _ _ _ _ _ F _ _ _ _ _ HR2 Hml Hr HFr Eb) as (HRr & Htr2 & Hres2 & Hmin2).
        split; [apply Hnode; auto|]. split.
        { intros t Ht. apply in_app_or in Ht. destruct Ht as [Ht|Ht]; auto. }
        split; [exact Hres2|exact Hmin2].
Qed.

(** mirror image: ranges [k..r] ending at r, growing to the left *)
Lemma lbr_correct s : forall item x vl vr vs r (F : nat -> V) x' s' item' res tr,
  Rep x s vl vr vs -> vl <= r -> r <= vr ->
  (forall k, vl <= k -> k <= r -> vmerge (vfold d (seg vs vl k r)) (obs item) = F k) ->
  lbr_t merge push f item x s vl r vl vr = ((x', s'), (item', res), tr) ->
  Rep x' s' vl vr vs /\
  (forall t, In t tr -> exists k, vl <= k /\ k <= r /\ obs t = F k) /\
  match res with
  | Some k => vl <= k /\ k <= r /\ obs item' = F k /\ g (F k) = true
  | None => obs item' = F vl /\ g (F vl) = false
  end /\
  ((forall j k, vl <= j -> j <= k -> k <= r -> g (F k) = true -> g (F j) = true) ->
   forall k, res = Some k -> forall j, k < j -> j <= r -> g (F j) = false).
Proof.
  induction s as [|lt IHl xl xr rt IHr];
    intros item x vl vr vs r F x' s' item' res tr HR Hl Hr HF Hlb.
  - inversion HR; subst. assert (r = vr) by lia. subst r.
    assert (Hn : obs (merge x item) = F vr).
    { rewrite obs_merge, <- (HF vr) by lia. unfold seg. rewrite Nat.sub_diag. reflexivity. }
    cbn [lbr_t] in Hlb. destruct (negb (f (merge x item))) eqn:Ef; injection Hlb as <- <- <- <- <-.
    + apply negb_true_iff in Ef. rewrite Hfg, Hn in Ef.
      split; [constructor|]. split.
      { intros t [<-|[]]. exists vr. auto. }
      split; [auto|]. intros _ k Hk. discriminate.
    + apply negb_false_iff in Ef. rewrite Hfg, Hn in Ef.
      split; [constructor|]. split.
      { intros t [<-|[]]. exists vr. auto. }
      split; [repeat split; auto|]. intros _ k Hk j Hj1 Hj2. injection Hk as <-. lia.
  - pose proof (Rep_length _ _ _ _ _ _ _ _ _ HR) as [Hlenvs _].
    assert (Hnext : r = vr -> obs (merge x item) = F vl).
    { intros ->. rewrite obs_merge, <- (HF vl) by lia.
      rewrite seg_full by lia. f_equal.
      apply (Rep_top _ _ _ _ _ _ _ _ _ HR). }
    cbn [lbr_t] in Hlb. rewrite Nat.eqb_refl, andb_true_l in Hlb.
    destruct ((r =? vr) && negb (f (merge x item))) eqn:Estop.
    + injection Hlb as <- <- <- <- <-.
      apply andb_true_iff in Estop. destruct Estop as [E1 E2]. apply Nat.eqb_eq in E1.
      apply negb_true_iff in E2. rewrite Hfg, (Hnext E1) in E2.
      split; [exact HR|]. split.
      { intros t [<-|[]]. exists vl. repeat split; auto. }
      split; [auto|]. intros _ k Hk. discriminate.
    + set (tr0 := if r =? vr then [merge x item] else []) in Hlb.
      assert (Htr0 : forall t, In t tr0 -> exists k, vl <= k /\ k <= r /\ obs t = F k).
      { intros t Ht. unfold tr0 in Ht. destruct (r =? vr) eqn:E; [|destruct Ht].
        apply Nat.eqb_eq in E. destruct Ht as [<-|[]]. exists vl. repeat split; auto. }
      clearbody tr0. clear Estop Hnext.
      destruct (push x xl xr) as [[x1 xl1] xr1] eqn:Epush.
      destruct (Rep_push _ _ _ _ _ _ _ _ LAW _ _ _ _ _ _ _ _ _ _ _ HR Epush)
        as (ls & rs & -> & Hlt & HR1 & HR2 & _ & _ & Hnode).
      set (m := (vl + vr) / 2) in *.
      pose proof (mid_bounds _ _ Hlt) as [Hm1 Hm2]. fold m in Hm1, Hm2.
      pose proof (Rep_length _ _ _ _ _ _ _ _ _ HR1) as [Hlen1 _].
      pose proof (Rep_length _ _ _ _ _ _ _ _ _ HR2) as [Hlen2 _].
      destruct (m <? r) eqn:Emr.
      * apply Nat.ltb_lt in Emr.
        destruct (lbr_t merge push f item xr1 rt (m + 1) r (m + 1) vr) as [[[xr' rt'] [ritem rres]] tr1] eqn:Ea.
        assert (HFr : forall k, m + 1 <= k -> k <= r -> vmerge (vfold d (seg rs (m + 1) k r)) (obs item) = F k).
        { intros k Hk1 Hk2. rewrite <- (HF k) by lia. now rewrite (seg_right _ _ vl m) by lia. }
        assert (Hmr : m + 1 <= r) by lia.
        destruct (IHr _ _ _ _ _ _ F _ _ _ _ _ HR2 Hmr Hr HFr Ea) as (HRr & Htr1 & Hres1 & Hmin1).
        destruct rres as [kr|].
        -- injection Hlb as <- <- <- <- <-.
           split; [apply Hnode; auto|]. split.
           { intros t Ht. apply in_app_or in Ht. destruct Ht as [Ht|Ht]; [auto|].
             destruct (Htr1 t Ht) as (k & ? & ? & ?). exists k. repeat split; auto; lia. }
           destruct Hres1 as (? & ? & ? & ?).
           split; [repeat split; auto; lia|].
           intros Hmono k Hk j Hj1 Hj2. injection Hk as <-.
           apply (Hmin1 ltac:(intros; apply (Hmono j0 k); auto; lia) kr eq_refl j); auto.
        -- destruct Hres1 as [Hri Hgm].
           replace (Nat.min r m) with m in Hlb by lia.
           destruct (lbr_t merge push f ritem xl1 lt vl m vl m) as [[[xl' lt'] [litem lres]] tr2] eqn:Eb.
           injection Hlb as <- <- <- <- <-.
           assert (HFl : forall k, vl <= k -> k <= m ->
                     vmerge (vfold d (seg ls vl k m)) (obs ritem) = F k).
           { intros k Hk1 Hk2. rewrite Hri, <- (HF (m + 1)), <- (HF k) by lia.
             rewrite (seg_split ls rs vl m vr k r) by lia. rewrite (seg_right ls rs vl m (m + 1) r) by lia.
             rewrite (vfold_app _ _ _ _ _ _ _ _ LAW) by (apply seg_nonempty; lia).
             now rewrite vmerge_assoc. }
           destruct (IHl _ _ _ _ _ _ F _ _ _ _ _ HR1 Hm1 (le_n _) HFl Eb) as (HRl & Htr2 & Hres2 & Hmin2).
           split; [apply Hnode; auto|]. split.
           { intros t Ht. apply in_app_or in Ht. destruct Ht as [Ht|Ht]; [auto|].
             apply in_app_or in Ht. destruct Ht as [Ht|Ht].
             - destruct (Htr1 t Ht) as (k & ? & ? & ?). exists k. repeat split; auto; lia.
             - destruct (Htr2 t Ht) as (k & ? & ? & ?). exists k. repeat split; auto; lia. }
           split.
           { destruct lres as [kl|]; [|exact Hres2].
             destruct Hres2 as (? & ? & ? & ?). repeat split; auto; lia. }
           intros Hmono k Hk j Hj1 Hj2.
           destruct (le_lt_dec j m) as [Hjm|Hjm].
           ++ apply (Hmin2 ltac:(intros; apply (Hmono j0 k0); auto; lia) k Hk j); lia.
           ++ destruct (g (F j)) eqn:Egj; [|reflexivity].
              rewrite (Hmono (m + 1) j) in Hgm by (auto; lia). discriminate.
      * apply Nat.ltb_ge in Emr.
        replace (Nat.min r m) with r in Hlb by lia.
        destruct (lbr_t merge push f item xl1 lt vl r vl m) as [[[xl' lt'] [litem lres]] tr2] eqn:Eb.
        injection Hlb as <- <- <- <- <-.
        assert (HFl : forall k, vl <= k -> k <= r -> vmerge (vfold d (seg ls vl k r)) (obs item) = F k).
        { intros k Hk1 Hk2. rewrite <- (HF k) by lia. now rewrite (seg_left _ _ vl m) by lia. }
        destruct (IHl _ _ _ _ _ _ F _ _ _ _ _ HR1 Hl Emr HFl Eb) as (HRl & Htr2 & Hres2 & Hmin2).
        split; [apply Hnode; auto|]. split.
        { intros t Ht. apply in_app_or in Ht. destruct Ht as [Ht|Ht]; auto. }
        split; [exact Hres2|exact Hmin2].
Qed.

End Bound.
