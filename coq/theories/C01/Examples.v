(** C01 — non-vacuity: the model runs on literals, and every hypothesis of the property
    theorems has a concrete instance. *)
From Coq Require Import ZArith List Bool Arith Lia.
From RlibV Require Import C01.Model C01.Items C01.Spec C01.Laws C01.Corr
  C01.ProofsCore C01.ProofsTree C01.ProofsItems C01.ProofsTop C01.ProofsMorph C01.Properties.
Import ListNotations.
Local Open Scope nat_scope.

(** a 5-element MinAdd tree: from_iter [5;7;11;2;9], += 100 on [1..3], queries, searches, debug *)
Definition ex_ops : list (op vadd Z pred) :=
  [OFromIter [VA 5 0; VA 7 0; VA 11 0; VA 2 0; VA 9 0]; OModify 1 3 100%Z; OAsk 0 1; OAsk 2 4;
   OLowerBound 1 (PLe 104%Z); OLowerBoundRev 4 (PLe 5%Z); OSet 2 (VA (-1) 0); OAsk 0 4; ODebug; OAsk 3 2].
Example ex_minadd_run :
  model_outs kit_minadd ex_ops =
  [OUnit; OUnit; OItem (VA 5 0); OItem (VA 9 0);
   OBound (Some 3) [VA 107 0; VA 107 0; VA 9 0; VA 102 0];
   OBound (Some 0) [VA 5 0; VA 9 0; VA 5 0; VA 9 0; VA 5 0; VA 9 0; VA 5 0];
   OUnit; OItem (VA (-1) 0);
   OItems [VA 5 0; VA 107 100; VA (-1) 0; VA 102 100; VA 9 0]; OPanic].
Proof. vm_compute. reflexivity. Qed.
Example ex_minadd_spec :
  map (fun s => match s with SVal v => Some v | _ => None end) (spec_outs kit_minadd ex_ops) =
  [None; None; Some 5%Z; Some 9%Z; None; None; None; Some (-1)%Z; None; None].
Proof. vm_compute. reflexivity. Qed.
(** the history theorem applies to it (its only hypothesis is lawfulness, proved for the kit) *)
Example ex_minadd_history :
  Forall2 (out_match (k_obs kit_minadd) (k_vmerge kit_minadd) (k_pv kit_minadd) (k_obs kit_minadd (k_dflt kit_minadd)))
          (model_outs kit_minadd ex_ops) (spec_outs kit_minadd ex_ops).
Proof. exact (c01_kit_history _ _ _ kit_minadd va_pending c01_minadd_lawful ex_ops). Qed.

(** a 3-element assign/append tree: merge is not commutative, the modifiers do not commute *)
Definition sa : str := [97%Z]. Definition sb : str := [98%Z]. Definition sc : str := [99%Z].
Definition ex_cc_ops : list (op concat cmod pred) :=
  [OFromSlice [cc_new sa; cc_new sb; cc_new sc]; OModify 0 1 (CAppend sc); OModify 1 2 (CAssign sa);
   OModify 0 2 (CAppend sb); OAsk 0 2; OAsk 1 2; OLowerBound 0 (PLenGe 4%Z)].
Example ex_concat_run :
  map (fun o => match o with OItem x => List.concat (cc_parts x) | _ => [] end) (model_outs kit_concat ex_cc_ops) =
  [[]; []; []; []; sa ++ sc ++ sb ++ sa ++ sb ++ sa ++ sb; sa ++ sb ++ sa ++ sb; []].
Proof. vm_compute. reflexivity. Qed.
Example ex_concat_history :
  Forall2 (out_match (k_obs kit_concat) (k_vmerge kit_concat) (k_pv kit_concat) (k_obs kit_concat (k_dflt kit_concat)))
          (model_outs kit_concat ex_cc_ops) (spec_outs kit_concat ex_cc_ops).
Proof. exact (c01_kit_history _ _ _ kit_concat cc_pending c01_concat_lawful ex_cc_ops). Qed.

(** [Rep]/[RepT] hypotheses are inhabited: the constructors establish them (c01_build_correct) *)
Example ex_rep_inhabited :
  exists t, from_slice (k_update kit_sumadd) [sa_new 5; sa_new 7; sa_new 11] = Some t /\
            RepT sa_obs sa_vmerge sa_act sa_pending t [(5, 1); (7, 1); (11, 1)]%Z.
Proof.
  destruct (c01_build_correct _ _ _ _ _ _ _ _ _ _ _ c01_sumadd_lawful (SA 0 0 0)) as (_ & H & _).
  destruct (H [sa_new 5; sa_new 7; sa_new 11]) as (t & E & _ & HR); [discriminate|].
  exists t. split; [exact E|exact HR].
Qed.
(** ... and then the per-operation theorems apply, e.g. ask on that tree *)
Example ex_ask_applies :
  forall t, RepT sa_obs sa_vmerge sa_act sa_pending t [(5, 1); (7, 1); (11, 1)]%Z -> tn t = 3 ->
  exists t' x, ask sa_merge sa_push t 1 2 = Some (t', x) /\ sa_obs x = (18, 2)%Z.
Proof.
  intros t HR Hn.
  destruct (c01_ask_tree_correct _ _ _ _ _ _ _ _ _ _ _ c01_sumadd_lawful (SA 0 0 0) t _ 1 2 HR) as (t' & x & E & _ & _ & Hx); try lia.
  exists t', x. split; [exact E|].
  transitivity (range sa_vmerge (sa_obs (SA 0 0 0)) [(5, 1); (7, 1); (11, 1)]%Z 1 2); [exact Hx|reflexivity].
Qed.

(** the affine item: assign and add do not commute, the tree still agrees with the array *)
Definition ex_af_ops : list (op affine (Z * Z) pred) :=
  [ONew 4 (af_new 3); OModify 0 2 (1, 5)%Z; OModify 1 3 (0, 7)%Z; OModify 0 3 (2, 1)%Z; OAsk 0 3; OAsk 0 0; OAsk 3 3].
Example ex_affine_run :
  map (fun o => match o with OItem x => af_sum x | _ => 0%Z end) (model_outs kit_affine ex_af_ops) =
  [0; 0; 0; 0; 62; 17; 15]%Z.
Proof. vm_compute. reflexivity. Qed.

(** the flip item (modifier type unit): the flip of modify(0,3) is still pending at the root when the
    searches run; they must push it down: lower_bound(0, ones >= 1) = Some 0, lower_bound_rev(3, ones >= 2) = Some 2 *)
Definition ex_fl_ops : list (op flip unit pred) :=
  [ONew 4 (fl_new 0); OModify 0 3 tt; OLowerBound 0 (PFst (PGe 1%Z)); OLowerBoundRev 3 (PFst (PGe 2%Z));
   OModify 1 2 tt; OAsk 0 3; OAsk 1 1; ODebug].
Example ex_flip_run :
  model_outs kit_flip ex_fl_ops =
  [OUnit; OUnit;
   OBound (Some 0) [FL 4 4 false; FL 2 2 false; FL 1 1 false];
   OBound (Some 2) [FL 4 4 false; FL 2 2 false; FL 1 1 false; FL 2 2 false];
   OUnit; OItem (FL 2 4 false); OItem (FL 0 1 false);
   OItems [FL 1 1 true; FL 0 1 false; FL 0 1 false; FL 1 1 true]].
Proof. vm_compute. reflexivity. Qed.
Example ex_flip_history :
  Forall2 (out_match (k_obs kit_flip) (k_vmerge kit_flip) (k_pv kit_flip) (k_obs kit_flip (k_dflt kit_flip)))
          (model_outs kit_flip ex_fl_ops) (spec_outs kit_flip ex_fl_ops).
Proof. exact (c01_kit_history _ _ _ kit_flip fl_pending c01_flip_lawful ex_fl_ops). Qed.

(** leaves may carry a lazy tag of their own (MinAdd { v: 3, md: 7 } as first element of a slice / fill value):
    the tag is never pushed anywhere, the inner nodes are rebuilt by update = merge (md = 0), the array is [3; 5] *)
Definition ex_md_ops : list (op vadd Z pred) :=
  [OFromSlice [VA 3 7; VA 5 0]; OAsk 1 1; OAsk 0 0; OAsk 0 1; ONew 3 (VA 4 9); OAsk 1 2; OAsk 2 2; ODebug].
Example ex_md_run :
  model_outs kit_minadd ex_md_ops =
  [OUnit; OItem (VA 5 0); OItem (VA 3 7); OItem (VA 3 0); OUnit; OItem (VA 4 0); OItem (VA 4 9);
   OItems [VA 4 9; VA 4 9; VA 4 9]].
Proof. vm_compute. reflexivity. Qed.

(** side by side: a Combinator<MinAdd, MaxAdd> history without searches projects onto the MinAdd history *)
Definition ex_c2_ops : list (op (vadd * vadd) Z pred) :=
  [ONew 5 (VA 3 0, VA 3 0); OModify 1 3 4%Z; OSet 2 (VA (-7) 0, VA (-7) 0); OAsk 0 4; OAsk 2 3; ODebug].
Example ex_side_by_side :
  map (rmap fst) (model_outs kit_comb2 ex_c2_ops) = model_outs kit_minadd (map (omap fst) ex_c2_ops).
Proof.
  refine (proj1 (c01_combinator_side_by_side _ _ _ _ minadd_merge va_modify va_push maxadd_merge va_modify va_push
            (k_interp kit_comb2) (k_interp kit_minadd) (k_interp kit_maxadd) (VA i64_max 0) (VA i64_min 0) ex_c2_ops) _).
  repeat constructor.
Qed.
Example ex_side_by_side_values :
  map (rmap snd) (model_outs kit_comb2 ex_c2_ops) =
  [OUnit; OUnit; OUnit; OItem (VA 7 0); OItem (VA 7 0); OItems [VA 3 0; VA 7 4; VA (-7) 0; VA 7 4; VA 3 0]].
Proof. vm_compute. reflexivity. Qed.

(** Min over (key, id) — elements that compare equal are distinguishable: every answer is the RIGHTMOST minimum
    (ask 0 3 = (3, 2), not (3, 1)); after set(0, (3, 9)) the prefix [0..2] still answers (3, 2) *)
Definition ex_mk_ops : list (op (Z * Z) unit pred) :=
  [OFromSlice [(5, 0); (3, 1); (3, 2); (7, 3)]%Z; OAsk 0 3; OAsk 0 1; OSet 0 (3, 9)%Z; OAsk 0 2; OAsk 0 0;
   OLowerBound 0 (PFst (PLe 3%Z)); OLowerBoundRev 3 (PFst (PLe 3%Z)); ODebug].
Example ex_minkey_run :
  model_outs kit_minkey ex_mk_ops =
  [OUnit; OItem (3, 2); OItem (3, 1); OUnit; OItem (3, 2); OItem (3, 9);
   OBound (Some 0%nat) [(3, 2); (3, 1); (3, 9)];
   OBound (Some 2%nat) [(3, 2); (3, 2); (7, 3); (3, 2)];
   OItems [(3, 9); (3, 1); (3, 2); (7, 3)]]%Z.
Proof. vm_compute. reflexivity. Qed.
Example ex_minkey_history :
  Forall2 (out_match (k_obs kit_minkey) (k_vmerge kit_minkey) (k_pv kit_minkey) (k_obs kit_minkey (k_dflt kit_minkey)))
          (model_outs kit_minkey ex_mk_ops) (spec_outs kit_minkey ex_mk_ops).
Proof. exact (c01_kit_history _ _ _ kit_minkey no_pending c01_minkey_lawful ex_mk_ops). Qed.
(** the hypothesis of c01_key_tie_right has instances with different ids *)
Example ex_key_tie : kmin_merge (3, 1)%Z (3, 2)%Z = (3, 2)%Z /\ kmax_merge (3, 1)%Z (3, 2)%Z = (3, 2)%Z.
Proof. exact (c01_key_tie_right (3, 1)%Z (3, 2)%Z eq_refl). Qed.
(** ... and the two zeros of f64: min(0.0, -0.0) = -0.0, min(-0.0, 0.0) = 0.0 *)
Example ex_f64_zeros :
  model_outs kit_minf [OFromSlice [(0, 0); (0, 1)]%Z; OAsk 0 1; OSet 1 (0, 0)%Z; OSet 0 (0, 1)%Z; OAsk 0 1] =
  [OUnit; OItem (0, 1); OUnit; OUnit; OItem (0, 0)]%Z.
Proof. vm_compute. reflexivity. Qed.

(** MinAdd over (key, id): range adds create a tie (keys 5 3 3 6: rightmost minimum (3, 2)) and destroy it again *)
Definition ex_ka_ops : list (op kvadd (Z * Z) pred) :=
  [OFromIter [kva_new (5, 0); kva_new (3, 1); kva_new (4, 2); kva_new (7, 3)]%Z; OModify 2 3 (-1, 0)%Z; OAsk 0 3;
   OModify 0 1 (-2, 0)%Z; OAsk 0 3; OAsk 2 3; ODebug].
Example ex_minaddkey_run :
  model_outs kit_minaddkey ex_ka_ops =
  [OUnit; OUnit; OItem (KVA (3, 2) (0, 0)); OUnit; OItem (KVA (1, 1) (0, 0)); OItem (KVA (3, 2) (-1, 0));
   OItems [KVA (3, 0) (-2, 0); KVA (1, 1) (-2, 0); KVA (3, 2) (-1, 0); KVA (6, 3) (-1, 0)]]%Z.
Proof. vm_compute. reflexivity. Qed.
Example ex_minaddkey_history :
  Forall2 (out_match (k_obs kit_minaddkey) (k_vmerge kit_minaddkey) (k_pv kit_minaddkey) (k_obs kit_minaddkey (k_dflt kit_minaddkey)))
          (model_outs kit_minaddkey ex_ka_ops) (spec_outs kit_minaddkey ex_ka_ops).
Proof. exact (c01_kit_history _ _ _ kit_minaddkey kva_pending c01_minaddkey_lawful ex_ka_ops). Qed.

(** Sum over strings: the operands are concatenated left to right *)
Example ex_sumcat_run :
  model_outs kit_sumcat [OFromSlice [[97]; [98]; [99]]%Z; OAsk 0 2; OSet 1 [100; 101]%Z; OAsk 1 2; OAsk 0 2] =
  [OUnit; OItem [97; 98; 99]; OUnit; OItem [100; 101; 99]; OItem [97; 100; 101; 99]]%Z.
Proof. vm_compute. reflexivity. Qed.

(** Combinator<Concat, Concat>: both components keep their own order *)
Example ex_combcat_run :
  map (fun o => match o with OItem x => (List.concat (cc_parts (fst x)), List.concat (cc_parts (snd x))) | _ => ([], []) end)
      (model_outs kit_combcat [OFromSlice [(cc_new sa, cc_new sb); (cc_new sb, cc_new sc); (cc_new sc, cc_new sa)];
                               OModify 1 2 (CAppend sa); OAsk 0 2; OAsk 1 2]) =
  [([], []); ([], []); (sa ++ sb ++ sa ++ sc ++ sa, sb ++ sc ++ sa ++ sa ++ sa); (sb ++ sa ++ sc ++ sa, sc ++ sa ++ sa ++ sa)].
Proof. vm_compute. reflexivity. Qed.
