(** C17 — property theorems (statements only; proofs by [exact]).
    [G], [step], [out], [seed] are arbitrary: the theorems hold for every deterministic
    generator, every number of threads, every program and every schedule. *)
From Coq Require Import List NArith.
From RlibV Require Import C17.Model C17.Proofs.
Import ListNotations.

(** One generator per thread (the discipline of the code between commits c92b73c and b8a7caa): no data race is ever
    enabled, and every thread observes a sequentially explicable stream. *)
Theorem c17_threadlocal_safe : forall (G : Type) (step : G -> G) (out : G -> N), safe step out ThreadLocal.
Proof. exact (@threadlocal_safe). Qed.

(** ... precisely: each thread sees exactly the stream it would see running alone. *)
Theorem c17_threadlocal_solo :
  forall (G : Type) (step : G -> G) (out : G -> N) (seed : G) (progs sched : list nat) t th,
    nth_error (threads (run step out ThreadLocal (init seed progs) sched)) t = Some th ->
    seen th = stream step out (length (seen th)) seed.
Proof. exact (@threadlocal_solo). Qed.

(** A shared generator advanced by ONE atomic read-modify-write per draw is safe as well:
    race free and linearizable (the time-ordered log of all draws is the generator's stream,
    every thread sees its own sub-sequence of it). *)
Theorem c17_atomic_rmw_safe : forall (G : Type) (step : G -> G) (out : G -> N), safe step out AtomicRMW.
Proof. exact (@atomic_rmw_safe). Qed.

Theorem c17_atomic_rmw_no_lost_draw :
  forall (G : Type) (step : G -> G) (out : G -> N) (seed : G) progs sched,
    let m := run step out AtomicRMW (init seed progs) sched in
    map snd (log m) = stream step out (length (log m)) seed.
Proof. exact (@atomic_rmw_log_is_stream). Qed.

(** A mutex held around the load and the store of a shared generator is safe too. *)
Theorem c17_locked_safe : forall (G : Type) (step : G -> G) (out : G -> N), safe step out Locked.
Proof. exact (@locked_safe). Qed.

(** ... linearizable: the time-ordered log of all draws is the generator's stream (no draw is lost, none is
    handed out twice), every thread holds exactly its own sub-sequence of it, and the shared state is the
    stream position.  This is the discipline of the current code (one process-wide Mutex<Rng>). *)
Theorem c17_locked_no_lost_draw :
  forall (G : Type) (step : G -> G) (out : G -> N) (seed : G) (progs sched : list nat),
    let m := run step out Locked (init seed progs) sched in
    map snd (log m) = stream step out (length (log m)) seed /\
    (forall t th, nth_error (threads m) t = Some th -> seen th = project t (log m)) /\
    glob m = Nat.iter (length (log m)) step seed.
Proof. exact (@locked_log_is_stream). Qed.

(** ... and free of deadlock: in every reachable state in which some thread still has a draw to start or
    to finish, some thread is enabled. *)
Theorem c17_locked_no_deadlock :
  forall (G : Type) (step : G -> G) (out : G -> N) (seed : G) (progs sched : list nat),
    let m := run step out Locked (init seed progs) sched in
    (exists t th, nth_error (threads m) t = Some th /\ (todo th <> 0 \/ ph th <> Idle)) ->
    exists t m', mstep step out Locked m t = Some m'.
Proof. exact (@locked_no_deadlock). Qed.

(** The unsynchronised static (the defect repaired in /repo, commit "per-thread priority
    generator"): a data race is enabled after a single scheduling step of two threads ... *)
Theorem c17_racy_refuted_race :
  forall (G : Type) (step : G -> G) (out : G -> N) (seed : G),
    race Racy (run step out Racy (init seed [1; 1]) [0]) = true.
Proof. exact (@racy_race_reachable). Qed.

(** ... and draws are duplicated through interference although the generator never repeats. *)
Theorem c17_racy_refuted_duplicate :
  let m := run N.succ (fun x => x) Racy (init 0%N [1; 3]) dup_sched in
  NoDup (stream N.succ (fun x => x) 4 0%N) /\
  map snd (log m) = [1; 2; 1; 2]%N /\
  map (@seen N) (threads m) = [[1]; [1; 2; 2]]%N.
Proof. exact racy_duplicates_draw. Qed.

(** Atomic load followed by a separate atomic store is race free but still loses draws. *)
Theorem c17_split_atomic_refuted_duplicate :
  let m := run N.succ (fun x => x) SplitAtomic (init 0%N [1; 3]) dup_sched in
  map snd (log m) = [1; 2; 1; 2]%N /\
  map (@seen N) (threads m) = [[1]; [1; 2; 2]]%N.
Proof. exact split_atomic_duplicates_draw. Qed.
