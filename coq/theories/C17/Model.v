(** C17 — interleaving model of concurrent priority draws.

    Threads that own disjoint treaps share nothing except, possibly, the
    priority generator used by [TreapNode::new].  A draw is expanded into
    micro-steps according to the *synchronisation discipline* of the generator
    (extracted from rlib/treap/src/treap_node.rs by checks/c17.py on every
    run); a schedule is an arbitrary list of thread ids.  The generator is
    abstract: any state type [G] with [step] and [out].  Definitions only. *)
From Coq Require Import List Arith NArith Bool.
Import ListNotations.

Inductive discipline :=
| Racy          (* static mut: plain load, plain store *)
| SplitAtomic   (* atomic load followed by a separate atomic store: no data race, updates can be lost *)
| AtomicRMW     (* one atomic read-modify-write per draw (fetch_update / compare_exchange loop) *)
| Locked        (* mutex around load + store *)
| ThreadLocal.  (* one generator per thread *)

Inductive phase (G : Type) :=
| Idle                (* between draws *)
| Loaded (v : G)      (* generator state read, store pending *)
| WantLoad            (* Locked: lock acquired, load pending *)
| WantRelease.        (* Locked: stored, release pending *)
Arguments Idle {G}. Arguments Loaded {G} v. Arguments WantLoad {G}. Arguments WantRelease {G}.

Section Machine.
Context {G : Type}.
Variable step : G -> G.
Variable out : G -> N.

Record thread := { own : G;            (* this thread's private generator (ThreadLocal only) *)
                   ph : phase G;
                   todo : nat;          (* draws still to start *)
                   seen : list N }.     (* draws observed so far, oldest first *)

Record machine := { glob : G;                       (* the shared generator state *)
                    lock : option nat;              (* Locked: owner *)
                    threads : list thread;
                    log : list (nat * N) }.         (* ghost: every completed draw, in time order *)

Definition init (seed : G) (progs : list nat) : machine :=
  {| glob := seed; lock := None;
     threads := map (fun k => {| own := seed; ph := Idle; todo := k; seen := [] |}) progs;
     log := [] |}.

Definition upd {A} (l : list A) (i : nat) (x : A) : list A := firstn i l ++ x :: skipn (S i) l.

Definition finish (t : nat) (th : thread) (s' : G) (m : machine) (glob' : G) (own' : G) (p : phase G) : machine :=
  let d := out s' in
  {| glob := glob'; lock := lock m;
     threads := upd (threads m) t {| own := own'; ph := p; todo := todo th; seen := seen th ++ [d] |};
     log := log m ++ [(t, d)] |}.

Definition set_thread (m : machine) (t : nat) (th : thread) : machine :=
  {| glob := glob m; lock := lock m; threads := upd (threads m) t th; log := log m |}.

(** one micro-step of thread [t]; [None] = not enabled (finished, blocked on the lock, bad id) *)
Definition mstep (d : discipline) (m : machine) (t : nat) : option machine :=
  match nth_error (threads m) t with
  | None => None
  | Some th =>
    match d, ph th with
    | Racy, Idle | SplitAtomic, Idle =>
        match todo th with
        | O => None
        | S k => Some (set_thread m t {| own := own th; ph := Loaded (glob m); todo := k; seen := seen th |})
        end
    | Racy, Loaded v | SplitAtomic, Loaded v =>
        let s' := step v in Some (finish t th s' m s' (own th) Idle)
    | AtomicRMW, Idle =>
        match todo th with
        | O => None
        | S k => let s' := step (glob m) in
                 Some (finish t {| own := own th; ph := Idle; todo := k; seen := seen th |} s' m s' (own th) Idle)
        end
    | ThreadLocal, Idle =>
        match todo th with
        | O => None
        | S k => Some (set_thread m t {| own := own th; ph := Loaded (own th); todo := k; seen := seen th |})
        end
    | ThreadLocal, Loaded v =>
        let s' := step v in Some (finish t th s' m (glob m) s' Idle)
    | Locked, Idle =>
        match todo th, lock m with
        | S k, None =>
            Some {| glob := glob m; lock := Some t;
                    threads := upd (threads m) t {| own := own th; ph := WantLoad; todo := k; seen := seen th |};
                    log := log m |}
        | _, _ => None
        end
    | Locked, WantLoad =>
        Some (set_thread m t {| own := own th; ph := Loaded (glob m); todo := todo th; seen := seen th |})
    | Locked, Loaded v =>
        let s' := step v in Some (finish t th s' m s' (own th) WantRelease)
    | Locked, WantRelease =>
        Some {| glob := glob m; lock := None;
                threads := upd (threads m) t {| own := own th; ph := Idle; todo := todo th; seen := seen th |};
                log := log m |}
    | _, _ => None
    end
  end.

(** a schedule may name disabled threads: those entries are skipped (stuttering) *)
Definition sstep (d : discipline) (m : machine) (t : nat) : machine :=
  match mstep d m t with Some m' => m' | None => m end.
Definition run (d : discipline) (m : machine) (sched : list nat) : machine := fold_left (sstep d) sched m.

(** The memory access a thread would perform next. *)
Inductive loc := LGlob | LOwn (t : nat).
Record access := { a_loc : loc; a_write : bool; a_atomic : bool }.

Definition next_access (d : discipline) (t : nat) (th : thread) : option access :=
  match d, ph th with
  | Racy, Idle => match todo th with O => None | _ => Some {| a_loc := LGlob; a_write := false; a_atomic := false |} end
  | Racy, Loaded _ => Some {| a_loc := LGlob; a_write := true; a_atomic := false |}
  | SplitAtomic, Idle => match todo th with O => None | _ => Some {| a_loc := LGlob; a_write := false; a_atomic := true |} end
  | SplitAtomic, Loaded _ => Some {| a_loc := LGlob; a_write := true; a_atomic := true |}
  | AtomicRMW, Idle => match todo th with O => None | _ => Some {| a_loc := LGlob; a_write := true; a_atomic := true |} end
  | ThreadLocal, Idle => match todo th with O => None | _ => Some {| a_loc := LOwn t; a_write := false; a_atomic := false |} end
  | ThreadLocal, Loaded _ => Some {| a_loc := LOwn t; a_write := true; a_atomic := false |}
  | Locked, WantLoad => Some {| a_loc := LGlob; a_write := false; a_atomic := false |}
  | Locked, Loaded _ => Some {| a_loc := LGlob; a_write := true; a_atomic := false |}
  | _, _ => None   (* lock acquire / release are synchronisation, not data accesses *)
  end.

Definition loc_eqb (a b : loc) : bool :=
  match a, b with LGlob, LGlob => true | LOwn x, LOwn y => Nat.eqb x y | _, _ => false end.

(** two accesses of different threads form a data race: same location, one is a write, one is not atomic *)
Definition conflict (a b : access) : bool :=
  loc_eqb (a_loc a) (a_loc b) && (a_write a || a_write b) && (negb (a_atomic a) || negb (a_atomic b)).

Fixpoint accesses_from (d : discipline) (i : nat) (ths : list thread) : list (nat * access) :=
  match ths with
  | [] => []
  | th :: r => match next_access d i th with
               | Some a => (i, a) :: accesses_from d (S i) r
               | None => accesses_from d (S i) r
               end
  end.

(** a data race is *enabled* in state [m]: two distinct threads are both about to touch the
    same location in a conflicting, not-both-atomic way (no synchronisation orders them) *)
Definition race (d : discipline) (m : machine) : bool :=
  let acc := accesses_from d 0 (threads m) in
  existsb (fun x => existsb (fun y => negb (Nat.eqb (fst x) (fst y)) && conflict (snd x) (snd y)) acc) acc.

(** the draws produced by the generator run sequentially: out (step seed), out (step (step seed)), ... *)
Fixpoint stream (n : nat) (s : G) : list N :=
  match n with O => [] | S k => out (step s) :: stream k (step s) end.

Definition project (t : nat) (l : list (nat * N)) : list N :=
  map snd (filter (fun e => Nat.eqb (fst e) t) l).
End Machine.

Arguments thread G : clear implicits.
Arguments machine G : clear implicits.
