(** C17 — the model runs: concrete schedules on a concrete generator (step = +1, out = id). *)
From Coq Require Import List NArith.
From RlibV Require Import C17.Model C17.Proofs C17.Properties C17.Corr.
Import ListNotations.

Definition ex_sched : list nat := [0; 1; 1; 2; 0; 0; 2; 1; 1; 2; 0; 2; 9; 1; 0; 0; 2; 2; 1; 1].

(** thread-local: whatever the schedule, each thread sees 1, 2, 3, ... *)
Example tl_run :
  map (@seen N) (threads (run N.succ (fun x => x) ThreadLocal (init 0%N [3; 2; 2]) ex_sched))
  = [[1; 2; 3]; [1; 2]; [1; 2]]%N.
Proof. reflexivity. Qed.

(** one shared generator with atomic read-modify-write: the draws 1..7 are dealt out, each once *)
Example rmw_run :
  let m := run N.succ (fun x => x) AtomicRMW (init 0%N [3; 2; 2]) ex_sched in
  map snd (log m) = [1; 2; 3; 4; 5; 6; 7]%N /\ map (@seen N) (threads m) = [[1; 5; 6]; [2; 3]; [4; 7]]%N.
Proof. split; reflexivity. Qed.


(** the same schedule under the racy discipline duplicates draws (1 and 2 are handed out twice) *)
Example racy_run :
  map snd (log (run N.succ (fun x => x) Racy (init 0%N [3; 2; 2]) ex_sched)) = [1; 1; 2; 3; 2; 4; 5]%N.
Proof. reflexivity. Qed.

(** the correspondence checks accept the two safe shapes and reject a duplicated draw *)
Example spec_accepts_thread_local : spec_check (CSpawn ThreadLocal [10; 20; 30; 40]%N [[10; 20]; [10; 20]]%N true) = true.
Proof. reflexivity. Qed.
Example spec_accepts_linearizable : spec_check (CSpawn AtomicRMW [10; 20; 30; 40]%N [[10; 40]; [20; 30]]%N true) = true.
Proof. reflexivity. Qed.
Example spec_rejects_duplicate : spec_check (CSpawn AtomicRMW [10; 20; 30; 40]%N [[10; 20]; [20; 30]]%N true) = false.
Proof. reflexivity. Qed.
Example model_accepts_linearizable : model_check (CSpawn AtomicRMW [10; 20; 30; 40]%N [[10; 40]; [20; 30]]%N true) = true.
Proof. reflexivity. Qed.
Example model_accepts_locked : model_check (CSpawn Locked [10; 20; 30; 40]%N [[10; 40]; [20; 30]]%N true) = true.
Proof. reflexivity. Qed.
