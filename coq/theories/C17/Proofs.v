(** C17 — proofs: thread-local and atomic read-modify-write generators are race free and
    every thread observes a sequentially explicable stream, for every number of threads,
    every program and EVERY schedule; the racy disciplines are refuted by witnesses. *)
From Coq Require Import List Arith NArith Bool Lia.
From RlibV Require Import C17.Model.
Import ListNotations.

Section Proofs.
Context {G : Type}.
Variable step : G -> G.
Variable out : G -> N.
Notation thread := (thread G).
Notation machine := (machine G).
Notation stream := (stream step out).
Notation mstep := (mstep step out).
Notation sstep := (sstep step out).
Notation run := (run step out).

Definition pow (n : nat) (s : G) : G := Nat.iter n step s.

Lemma pow_step n s : pow n (step s) = step (pow n s).
Proof.
  unfold pow. induction n as [|n IH]; [reflexivity|].
  change (step (Nat.iter n step (step s)) = step (step (Nat.iter n step s))). now rewrite IH.
Qed.

Lemma stream_length n s : length (stream n s) = n.
Proof. revert s; induction n as [|n IH]; intros s; cbn; [reflexivity|now rewrite IH]. Qed.

Lemma stream_snoc n s : stream (S n) s = stream n s ++ [out (step (pow n s))].
Proof.
  revert s; induction n as [|n IH]; intros s; [reflexivity|].
  change (stream (S (S n)) s) with (out (step s) :: stream (S n) (step s)).
  rewrite IH. cbn [Model.stream app]. now rewrite pow_step.
Qed.

(** ** generic list-update facts *)
Lemma nth_error_upd_eq {A} (l : list A) i x : i < length l -> nth_error (upd l i x) i = Some x.
Proof.
  intros H. unfold upd. rewrite nth_error_app2 by (rewrite firstn_length; lia).
  rewrite firstn_length, Nat.min_l by lia. now rewrite Nat.sub_diag.
Qed.

Lemma nth_error_upd_neq {A} (l : list A) i j x : i < length l -> i <> j -> nth_error (upd l i x) j = nth_error l j.
Proof.
  revert i j; induction l as [|a l IH]; intros i j Hlt Hne; cbn [length] in Hlt; [lia|].
  destruct i as [|i]; destruct j as [|j]; try lia; try reflexivity.
  change (upd (a :: l) (S i) x) with (a :: upd l i x). cbn [nth_error]. apply IH; lia.
Qed.

Lemma upd_length {A} (l : list A) i x : i < length l -> length (upd l i x) = length l.
Proof. intros H. unfold upd. rewrite app_length, firstn_length. cbn [length]. rewrite skipn_length. lia. Qed.

Lemma nth_error_lt {A} (l : list A) i x : nth_error l i = Some x -> i < length l.
Proof. intros H. apply nth_error_Some. congruence. Qed.

(** ** ThreadLocal *)
Definition TLInv (seed : G) (th : thread) : Prop :=
  own th = pow (length (seen th)) seed /\
  seen th = stream (length (seen th)) seed /\
  match ph th with Idle => True | Loaded v => v = own th | _ => False end.

Lemma tl_mstep_inv (seed : G) (m : machine) t m' :
  (forall i th, nth_error (threads m) i = Some th -> TLInv seed th) ->
  mstep ThreadLocal m t = Some m' ->
  (forall i th, nth_error (threads m') i = Some th -> TLInv seed th).
Proof.
  intros Hall Hs i th' Hi. unfold Model.mstep in Hs.
  destruct (nth_error (threads m) t) as [th|] eqn:Et; [|discriminate].
  pose proof (nth_error_lt _ _ _ Et) as Hlt.
  pose proof (Hall t th Et) as (Hown & Hseen & Hph).
  destruct (ph th) as [|v| |] eqn:Eph; try discriminate.
  - destruct (todo th) as [|k] eqn:Etodo; [discriminate|]. injection Hs as <-.
    cbn [threads set_thread] in Hi. destruct (Nat.eq_dec t i) as [->|Hne].
    + rewrite nth_error_upd_eq in Hi by exact Hlt. injection Hi as <-.
      unfold TLInv; cbn. auto.
    + rewrite nth_error_upd_neq in Hi by (exact Hlt || exact Hne). eauto.
  - injection Hs as <-. cbn [threads finish] in Hi. destruct (Nat.eq_dec t i) as [->|Hne].
    + rewrite nth_error_upd_eq in Hi by exact Hlt. injection Hi as <-.
      unfold TLInv; cbn [own seen ph]. rewrite app_length. cbn [length].
      rewrite Nat.add_1_r. subst v. split; [|split; [|exact I]].
      * rewrite Hown. reflexivity.
      * rewrite stream_snoc, <- Hseen, <- Hown. reflexivity.
    + rewrite nth_error_upd_neq in Hi by (exact Hlt || exact Hne). eauto.
Qed.

Lemma init_threads_nth (seed : G) progs i (th : thread) :
  nth_error (threads (init seed progs)) i = Some th ->
  own th = seed /\ ph th = Idle /\ seen th = [].
Proof.
  cbn [init threads]. intros H. apply nth_error_In in H. apply in_map_iff in H.
  destruct H as (k & <- & _). cbn. auto.
Qed.

Lemma tl_run_inv (seed : G) sched : forall m : machine,
  (forall i th, nth_error (threads m) i = Some th -> TLInv seed th) ->
  (forall i th, nth_error (threads (run ThreadLocal m sched)) i = Some th -> TLInv seed th).
Proof.
  induction sched as [|t sched IH]; intros m Hall; [exact Hall|].
  cbn [Model.run fold_left]. apply IH. unfold Model.sstep.
  destruct (mstep ThreadLocal m t) as [m'|] eqn:E; [|exact Hall].
  eapply tl_mstep_inv; eauto.
Qed.

Lemma accesses_from_tl k (ths : list thread) i a :
  In (i, a) (accesses_from ThreadLocal k ths) -> a_loc a = LOwn i.
Proof.
  revert k; induction ths as [|th r IH]; intros k H; [destruct H|].
  cbn [accesses_from] in H.
  destruct (next_access ThreadLocal k th) as [b|] eqn:E.
  - destruct H as [H|H]; [|eauto]. injection H as <- <-.
    unfold next_access in E. destruct (ph th); try discriminate.
    + destruct (todo th); [discriminate|]. injection E as <-. reflexivity.
    + injection E as <-. reflexivity.
  - eauto.
Qed.

Lemma tl_no_race (m : machine) : race ThreadLocal m = false.
Proof.
  unfold race. set (acc := accesses_from ThreadLocal 0 (threads m)).
  destruct (existsb _ acc) eqn:E; [|reflexivity]. exfalso.
  apply existsb_exists in E. destruct E as ([i a] & Hi & E).
  apply existsb_exists in E. destruct E as ([j b] & Hj & E).
  cbn [fst snd] in E. apply andb_true_iff in E. destruct E as [Hne Hc].
  apply accesses_from_tl in Hi, Hj. unfold conflict in Hc. rewrite Hi, Hj in Hc. cbn [loc_eqb] in Hc.
  apply andb_true_iff in Hc. destruct Hc as [Hc _]. apply andb_true_iff in Hc. destruct Hc as [Hc _].
  rewrite Hc in Hne. discriminate.
Qed.

(** ** what "sequentially explicable" means *)
Definition Acceptable (seed : G) (m : machine) : Prop :=
  (forall t th, nth_error (threads m) t = Some th -> seen th = stream (length (seen th)) seed)
  \/ (map snd (log m) = stream (length (log m)) seed /\
      forall t th, nth_error (threads m) t = Some th -> seen th = project t (log m)).

Definition safe (d : discipline) : Prop :=
  forall (seed : G) (progs sched : list nat),
    let m := run d (init seed progs) sched in race d m = false /\ Acceptable seed m.

Theorem threadlocal_safe : safe ThreadLocal.
Proof.
  intros seed progs sched m. split; [apply tl_no_race|]. left. intros t th Ht.
  assert (H : TLInv seed th).
  { eapply tl_run_inv; [|exact Ht]. intros i th0 Hi.
    apply init_threads_nth in Hi. destruct Hi as (Ho & Hp & Hs).
    unfold TLInv. rewrite Ho, Hp, Hs. cbn. auto. }
  exact (proj1 (proj2 H)).
Qed.

(** every thread sees exactly what it would see running alone: its first k draws of the stream *)
Corollary threadlocal_solo (seed : G) (progs sched : list nat) t th :
  nth_error (threads (run ThreadLocal (init seed progs) sched)) t = Some th ->
  seen th = stream (length (seen th)) seed.
Proof.
  intros H. destruct (threadlocal_safe seed progs sched) as [_ [Ha|[_ Hb]]]; [eauto|].
  (* the second disjunct cannot be used to derive this in general; go through the invariant *)
  assert (Hinv : TLInv seed th).
  { eapply tl_run_inv; [|exact H]. intros i th0 Hi.
    apply init_threads_nth in Hi. destruct Hi as (Ho & Hp & Hs).
    unfold TLInv. rewrite Ho, Hp, Hs. cbn. auto. }
  exact (proj1 (proj2 Hinv)).
Qed.

(** ** AtomicRMW *)
Definition RMWInv (seed : G) (m : machine) : Prop :=
  glob m = pow (length (log m)) seed /\
  map snd (log m) = stream (length (log m)) seed /\
  forall t th, nth_error (threads m) t = Some th -> seen th = project t (log m) /\ ph th = Idle.

Lemma project_snoc_same t l d : project t (l ++ [(t, d)]) = project t l ++ [d].
Proof. unfold project. rewrite filter_app, map_app. cbn. now rewrite Nat.eqb_refl. Qed.
Lemma project_snoc_other t i l d : t <> i -> project i (l ++ [(t, d)]) = project i l.
Proof.
  intros H. unfold project. rewrite filter_app, map_app. cbn.
  destruct (Nat.eqb_spec t i); [contradiction|]. cbn. now rewrite app_nil_r.
Qed.

Lemma rmw_mstep_inv (seed : G) (m : machine) t m' : RMWInv seed m -> mstep AtomicRMW m t = Some m' -> RMWInv seed m'.
Proof.
  intros (Hg & Hl & Hth) Hs. unfold Model.mstep in Hs.
  destruct (nth_error (threads m) t) as [th|] eqn:Et; [|discriminate].
  pose proof (nth_error_lt _ _ _ Et) as Hlt.
  destruct (Hth t th Et) as [Hseen Hph]. rewrite Hph in Hs.
  destruct (todo th) as [|k]; [discriminate|]. injection Hs as <-.
  unfold RMWInv, finish; cbn [glob log threads own seen ph todo].
  rewrite app_length. cbn [length]. rewrite Nat.add_1_r. repeat split.
  - rewrite Hg. reflexivity.
  - rewrite map_app, stream_snoc, Hl, <- Hg. reflexivity.
  - destruct (Nat.eq_dec t t0) as [->|Hne].
    + rewrite nth_error_upd_eq in H by exact Hlt. injection H as <-. cbn [seen].
      now rewrite project_snoc_same, Hseen.
    + rewrite nth_error_upd_neq in H by (exact Hlt || exact Hne). rewrite project_snoc_other by exact Hne.
      exact (proj1 (Hth _ _ H)).
  - destruct (Nat.eq_dec t t0) as [->|Hne].
    + rewrite nth_error_upd_eq in H by exact Hlt. injection H as <-. reflexivity.
    + rewrite nth_error_upd_neq in H by (exact Hlt || exact Hne). exact (proj2 (Hth _ _ H)).
Qed.

Lemma rmw_run_inv (seed : G) sched : forall m : machine, RMWInv seed m -> RMWInv seed (run AtomicRMW m sched).
Proof.
  induction sched as [|t sched IH]; intros m H; [exact H|].
  cbn [Model.run fold_left]. apply IH. unfold Model.sstep.
  destruct (mstep AtomicRMW m t) as [m'|] eqn:E; [|exact H]. eapply rmw_mstep_inv; eauto.
Qed.

Lemma accesses_from_atomic d k (ths : list thread) i a :
  d = AtomicRMW \/ d = SplitAtomic ->
  In (i, a) (accesses_from d k ths) -> a_atomic a = true.
Proof.
  intros Hd. revert k; induction ths as [|th r IH]; intros k H; [destruct H|].
  cbn [accesses_from] in H.
  destruct (next_access d k th) as [b|] eqn:E; [|eauto].
  destruct H as [H|H]; [|eauto]. injection H as <- <-.
  unfold next_access in E. destruct Hd as [-> | ->]; destruct (ph th); try discriminate;
    try (destruct (todo th); [discriminate|]); injection E as <-; reflexivity.
Qed.

Lemma atomic_no_race d (m : machine) : d = AtomicRMW \/ d = SplitAtomic -> race d m = false.
Proof.
  intros Hd. unfold race. set (acc := accesses_from d 0 (threads m)).
  destruct (existsb _ acc) eqn:E; [|reflexivity]. exfalso.
  apply existsb_exists in E. destruct E as ([i a] & Hi & E).
  apply existsb_exists in E. destruct E as ([j b] & Hj & E).
  cbn [fst snd] in E. apply andb_true_iff in E. destruct E as [_ Hc].
  apply (accesses_from_atomic d _ _ _ _ Hd) in Hi, Hj. unfold conflict in Hc. rewrite Hi, Hj in Hc.
  cbn in Hc. rewrite andb_false_r in Hc. discriminate.
Qed.

Theorem atomic_rmw_safe : safe AtomicRMW.
Proof.
  intros seed progs sched m. split; [apply atomic_no_race; auto|]. right.
  assert (H : RMWInv seed m).
  { apply rmw_run_inv. unfold RMWInv. cbn [init glob log threads length]. repeat split.
    - apply init_threads_nth in H. destruct H as (_ & _ & ->). reflexivity.
    - apply init_threads_nth in H. tauto. }
  destruct H as (_ & Hl & Hth). split; [exact Hl|]. intros t th Ht. exact (proj1 (Hth t th Ht)).
Qed.

(** under AtomicRMW no draw is lost or duplicated: the log IS the stream *)
Corollary atomic_rmw_log_is_stream (seed : G) progs sched :
  let m := run AtomicRMW (init seed progs) sched in map snd (log m) = stream (length (log m)) seed.
Proof.
  intros m. assert (H : RMWInv seed m).
  { apply rmw_run_inv. unfold RMWInv. cbn [init glob log threads length]. repeat split.
    - apply init_threads_nth in H. destruct H as (_ & _ & ->). reflexivity.
    - apply init_threads_nth in H. tauto. }
  exact (proj1 (proj2 H)).
Qed.

(** ** Locked: a mutex held around load + store *)
Definition LInv (seed : G) (m : machine) : Prop :=
  glob m = pow (length (log m)) seed /\
  map snd (log m) = stream (length (log m)) seed /\
  (forall t th, nth_error (threads m) t = Some th -> seen th = project t (log m)) /\
  (forall t th, nth_error (threads m) t = Some th ->
     match ph th with
     | Idle => lock m <> Some t
     | Loaded v => lock m = Some t /\ v = glob m
     | WantLoad | WantRelease => lock m = Some t
     end).

Lemma linv_holder (seed : G) (m : machine) t th :
  LInv seed m -> nth_error (threads m) t = Some th -> ph th <> Idle -> lock m = Some t.
Proof.
  intros (_ & _ & _ & Hph) Ht Hne. specialize (Hph t th Ht).
  destruct (ph th); tauto.
Qed.

Lemma locked_mstep_inv (seed : G) (m : machine) t m' : LInv seed m -> mstep Locked m t = Some m' -> LInv seed m'.
Proof.
  intros HI Hs. pose proof HI as (Hg & Hl & Hseen & Hph). unfold Model.mstep in Hs.
  destruct (nth_error (threads m) t) as [th|] eqn:Et; [|discriminate].
  pose proof (nth_error_lt _ _ _ Et) as Hlt.
  pose proof (Hph t th Et) as Hpt.
  assert (Hothers : forall i th', i <> t -> nth_error (threads m) i = Some th' -> ph th <> Idle -> ph th' = Idle).
  { intros i th' Hne Hi Hnid. destruct (ph th') eqn:E; [reflexivity| | |];
      (assert (Hli : lock m = Some i) by (apply (linv_holder seed m i th' HI Hi); rewrite E; discriminate));
      (assert (Hlt' : lock m = Some t) by (apply (linv_holder seed m t th HI Et Hnid)));
      congruence. }
  destruct (ph th) as [|v| |] eqn:Eph.
  - (* acquire *)
    destruct (todo th) as [|k]; [discriminate|]. destruct (lock m) eqn:El; [discriminate|]. injection Hs as <-.
    unfold LInv; cbn [glob log threads lock]. repeat split; try assumption.
    + intros i th' Hi. destruct (Nat.eq_dec t i) as [->|Hne].
      * rewrite nth_error_upd_eq in Hi by exact Hlt. injection Hi as <-. cbn [seen]. eauto.
      * rewrite nth_error_upd_neq in Hi by (exact Hlt || exact Hne). eauto.
    + intros i th' Hi. destruct (Nat.eq_dec t i) as [->|Hne].
      * rewrite nth_error_upd_eq in Hi by exact Hlt. injection Hi as <-. reflexivity.
      * rewrite nth_error_upd_neq in Hi by (exact Hlt || exact Hne).
        pose proof (Hph i th' Hi) as Hpi. rewrite ?El in Hpi.
        destruct (ph th'); try (destruct Hpi; discriminate); try discriminate. congruence.
  - (* store *)
    destruct Hpt as [Hlk ->]. injection Hs as <-.
    unfold LInv, finish; cbn [glob log threads lock own seen ph todo].
    rewrite app_length. cbn [length]. rewrite Nat.add_1_r. repeat split.
    + rewrite Hg. reflexivity.
    + rewrite map_app, stream_snoc, Hl, <- Hg. reflexivity.
    + intros i th' Hi. destruct (Nat.eq_dec t i) as [->|Hne].
      * rewrite nth_error_upd_eq in Hi by exact Hlt. injection Hi as <-. cbn [seen].
        rewrite project_snoc_same. now rewrite (Hseen _ _ Et).
      * rewrite nth_error_upd_neq in Hi by (exact Hlt || exact Hne).
        rewrite project_snoc_other by exact Hne. eauto.
    + intros i th' Hi. destruct (Nat.eq_dec t i) as [->|Hne].
      * rewrite nth_error_upd_eq in Hi by exact Hlt. injection Hi as <-. exact Hlk.
      * rewrite nth_error_upd_neq in Hi by (exact Hlt || exact Hne).
        assert (E : ph th' = Idle) by (apply (Hothers i th' (not_eq_sym Hne) Hi); rewrite ?Eph; discriminate).
        rewrite E. pose proof (Hph i th' Hi) as Hpi. rewrite E in Hpi. exact Hpi.
  - (* load *)
    injection Hs as <-. unfold LInv, set_thread; cbn [glob log threads lock]. repeat split; try assumption.
    + intros i th' Hi. destruct (Nat.eq_dec t i) as [->|Hne].
      * rewrite nth_error_upd_eq in Hi by exact Hlt. injection Hi as <-. cbn [seen]. eauto.
      * rewrite nth_error_upd_neq in Hi by (exact Hlt || exact Hne). eauto.
    + intros i th' Hi. destruct (Nat.eq_dec t i) as [->|Hne].
      * rewrite nth_error_upd_eq in Hi by exact Hlt. injection Hi as <-. cbn [ph]. split; [exact Hpt|reflexivity].
      * rewrite nth_error_upd_neq in Hi by (exact Hlt || exact Hne). exact (Hph i th' Hi).
  - (* release *)
    injection Hs as <-. unfold LInv; cbn [glob log threads lock]. repeat split; try assumption.
    + intros i th' Hi. destruct (Nat.eq_dec t i) as [->|Hne].
      * rewrite nth_error_upd_eq in Hi by exact Hlt. injection Hi as <-. cbn [seen]. eauto.
      * rewrite nth_error_upd_neq in Hi by (exact Hlt || exact Hne). eauto.
    + intros i th' Hi. destruct (Nat.eq_dec t i) as [->|Hne].
      * rewrite nth_error_upd_eq in Hi by exact Hlt. injection Hi as <-. cbn [ph]. discriminate.
      * rewrite nth_error_upd_neq in Hi by (exact Hlt || exact Hne).
        assert (E : ph th' = Idle) by (apply (Hothers i th' (not_eq_sym Hne) Hi); rewrite ?Eph; discriminate).
        rewrite E. discriminate.
Qed.

Lemma locked_run_inv (seed : G) sched : forall m : machine, LInv seed m -> LInv seed (run Locked m sched).
Proof.
  induction sched as [|t sched IH]; intros m H; [exact H|].
  cbn [Model.run fold_left]. apply IH. unfold Model.sstep.
  destruct (mstep Locked m t) as [m'|] eqn:E; [|exact H]. eapply locked_mstep_inv; eauto.
Qed.

Lemma accesses_from_locked k (ths : list thread) i a :
  In (i, a) (accesses_from Locked k ths) ->
  k <= i /\ exists th, nth_error ths (i - k) = Some th /\ ph th <> Idle.
Proof.
  revert k; induction ths as [|th r IH]; intros k H; [destruct H|].
  cbn [accesses_from] in H.
  assert (Hrec : In (i, a) (accesses_from Locked (S k) r) ->
                 k <= i /\ exists th0, nth_error (th :: r) (i - k) = Some th0 /\ ph th0 <> Idle).
  { intros H'. destruct (IH _ H') as (Hle & th0 & Hn & Hp). split; [lia|]. exists th0. split; [|exact Hp].
    replace (i - k) with (S (i - S k)) by lia. exact Hn. }
  destruct (next_access Locked k th) as [b|] eqn:E; [|auto].
  destruct H as [H|H]; [|auto]. injection H as <- <-. split; [lia|]. exists th.
  rewrite Nat.sub_diag. split; [reflexivity|].
  unfold next_access in E. destruct (ph th); try discriminate; discriminate.
Qed.

Lemma locked_no_race (seed : G) (m : machine) : LInv seed m -> race Locked m = false.
Proof.
  intros HI. unfold race. set (acc := accesses_from Locked 0 (threads m)).
  destruct (existsb _ acc) eqn:E; [|reflexivity]. exfalso.
  apply existsb_exists in E. destruct E as ([i a] & Hi & E).
  apply existsb_exists in E. destruct E as ([j b] & Hj & E).
  cbn [fst snd] in E. apply andb_true_iff in E. destruct E as [Hne _].
  apply accesses_from_locked in Hi, Hj.
  destruct Hi as (_ & thi & Hni & Hpi). destruct Hj as (_ & thj & Hnj & Hpj).
  rewrite Nat.sub_0_r in Hni, Hnj.
  pose proof (linv_holder seed m i thi HI Hni Hpi) as Li.
  pose proof (linv_holder seed m j thj HI Hnj Hpj) as Lj.
  assert (i = j) by congruence. subst. rewrite Nat.eqb_refl in Hne. discriminate.
Qed.

Lemma init_LInv (seed : G) progs : LInv seed (init seed progs).
Proof.
  unfold LInv. cbn [init glob log threads lock length]. repeat split.
  - intros t th H. apply init_threads_nth in H. destruct H as (_ & _ & ->). reflexivity.
  - intros t th H. apply init_threads_nth in H. destruct H as (_ & -> & _). discriminate.
Qed.

Theorem locked_safe : safe Locked.
Proof.
  intros seed progs sched m.
  assert (H : LInv seed m) by (apply locked_run_inv, init_LInv).
  split; [exact (locked_no_race seed m H)|]. right.
  destruct H as (_ & Hl & Hseen & _). split; [exact Hl|exact Hseen].
Qed.

(** the time-ordered log of all draws under the lock is the generator's stream (no draw lost, none handed
    out twice), every thread holds exactly its own sub-sequence of it, and whenever the lock is free the
    shared state is the stream position *)
Theorem locked_log_is_stream (seed : G) (progs sched : list nat) :
  let m := run Locked (init seed progs) sched in
  map snd (log m) = stream (length (log m)) seed /\
  (forall t th, nth_error (threads m) t = Some th -> seen th = project t (log m)) /\
  glob m = pow (length (log m)) seed.
Proof.
  intros m. assert (H : LInv seed m) by (apply locked_run_inv, init_LInv).
  destruct H as (Hg & Hl & Hseen & _). repeat split; assumption.
Qed.

(** the lock always names an existing thread that is in the middle of a draw *)
Definition HInv (m : machine) : Prop :=
  forall h, lock m = Some h -> exists th, nth_error (threads m) h = Some th /\ ph th <> Idle.

Lemma holder_mstep_inv (m : machine) t m' : HInv m -> mstep Locked m t = Some m' -> HInv m'.
Proof.
  intros HI Hs. unfold Model.mstep in Hs.
  destruct (nth_error (threads m) t) as [th|] eqn:Et; [|discriminate].
  pose proof (nth_error_lt _ _ _ Et) as Hlt.
  assert (Hkeep : forall (x : thread) h, ph x <> Idle -> (exists th0, nth_error (threads m) h = Some th0 /\ ph th0 <> Idle) ->
                  exists th0, nth_error (upd (threads m) t x) h = Some th0 /\ ph th0 <> Idle).
  { intros x h Hx (th0 & Hh & Hp). destruct (Nat.eq_dec t h) as [->|Hne].
    - exists x. split; [apply nth_error_upd_eq; exact Hlt|exact Hx].
    - exists th0. split; [rewrite nth_error_upd_neq by (exact Hlt || exact Hne); exact Hh|exact Hp]. }
  destruct (ph th) as [|v| |] eqn:Eph.
  - destruct (todo th) as [|k]; [discriminate|]. destruct (lock m) eqn:El; [discriminate|]. injection Hs as <-.
    intros h Hh. cbn [lock] in Hh. injection Hh as <-. cbn [threads].
    eexists. split; [apply nth_error_upd_eq; exact Hlt|cbn [ph]; discriminate].
  - injection Hs as <-. intros h Hh. unfold finish in *. cbn [lock threads] in *.
    apply Hkeep; [cbn [ph]; discriminate|exact (HI h Hh)].
  - injection Hs as <-. intros h Hh. unfold set_thread in *. cbn [lock threads] in *.
    apply Hkeep; [cbn [ph]; discriminate|exact (HI h Hh)].
  - injection Hs as <-. intros h Hh. cbn [lock] in Hh. discriminate.
Qed.

Lemma holder_run_inv sched : forall m : machine, HInv m -> HInv (run Locked m sched).
Proof.
  induction sched as [|t sched IH]; intros m H; [exact H|].
  cbn [Model.run fold_left]. apply IH. unfold Model.sstep.
  destruct (mstep Locked m t) as [m'|] eqn:E; [|exact H]. eapply holder_mstep_inv; eauto.
Qed.

(** no deadlock: in every reachable state, if some thread still has something to do (a draw to start or a
    draw in progress), then some thread is enabled - the holder of the lock can always go on, and when the
    lock is free every thread that has a draw to start can take it *)
Definition busy (th : thread) : Prop := todo th <> 0 \/ ph th <> Idle.

Theorem locked_no_deadlock (seed : G) (progs sched : list nat) :
  let m := run Locked (init seed progs) sched in
  (exists t th, nth_error (threads m) t = Some th /\ busy th) ->
  exists t m', mstep Locked m t = Some m'.
Proof.
  intros m (t & th & Ht & Hb).
  assert (H : LInv seed m) by (apply locked_run_inv, init_LInv).
  assert (HH : HInv m) by (apply holder_run_inv; intros h Hh; cbn [init lock] in Hh; discriminate).
  destruct (lock m) as [h|] eqn:El.
  - destruct (HH h El) as (thh & Hh & Hp).
    exists h. unfold Model.mstep. rewrite Hh.
    destruct (ph thh) eqn:E; [contradiction| | |]; eexists; reflexivity.
  - assert (Hidle : ph th = Idle).
    { destruct (ph th) eqn:E; [reflexivity| | |];
        (assert (Hl : lock m = Some t) by (apply (linv_holder seed m t th H Ht); rewrite E; discriminate)); congruence. }
    destruct Hb as [Hb|Hb]; [|contradiction].
    exists t. unfold Model.mstep. rewrite Ht, Hidle, El.
    destruct (todo th) as [|k]; [contradiction|]. eexists; reflexivity.
Qed.

(** ** the racy discipline: a data race is reachable with two threads and one scheduling step *)
Theorem racy_race_reachable (seed : G) : race Racy (run Racy (init seed [1; 1]) [0]) = true.
Proof. reflexivity. Qed.
End Proofs.

(** ** lost update: with a generator whose draws are all distinct, a racy (or split-atomic)
    schedule makes two threads observe the same draw, and makes one thread see a draw twice *)
Definition dup_sched : list nat := [0; 1; 1; 1; 1; 0; 1; 1].

Theorem racy_duplicates_draw :
  let m := run N.succ (fun x => x) Racy (init 0%N [1; 3]) dup_sched in
  NoDup (stream N.succ (fun x => x) 4 0%N) /\
  map snd (log m) = [1; 2; 1; 2]%N /\
  map (@seen N) (threads m) = [[1]; [1; 2; 2]]%N.
Proof.
  repeat split. cbn. repeat constructor; cbn; intuition discriminate.
Qed.

Theorem split_atomic_duplicates_draw :
  let m := run N.succ (fun x => x) SplitAtomic (init 0%N [1; 3]) dup_sched in
  map snd (log m) = [1; 2; 1; 2]%N /\
  map (@seen N) (threads m) = [[1]; [1; 2; 2]]%N.
Proof. repeat split. Qed.
