(** C17 — correspondence: per-thread priority lists observed on real threads, compared with
    what the interleaving model allows for the discipline extracted from the source, and with
    the property itself ([spec_check]: the lists are sequentially explicable w.r.t. the stream
    the implementation itself produces when run on a single thread). *)
From Coq Require Import List Arith NArith Bool.
From RlibV Require Import Common.Batch C17.Model.
Import ListNotations.

(** [solo]: priorities drawn by ONE fresh thread creating (sum of lengths) nodes by direct [TreapNode::new] calls;
    [lists]: for each logical thread of the run, the priority of EVERY node it created, in creation order,
      whatever the constructor path (direct [TreapNode::new] through several instantiations, [Treap::insert_at],
      [Treap::from_item]), read back through the public field; the threads are started by one of several
      topologies (barrier, main thread included, nested spawn, one after the other, a treap handed to another thread);
    [results_equal]: every thread's treap program gave the results it gives when run alone AND every integrity
      check inside the executor held (shadow sequence, heap order, aggregates, the priority stored in a node is
      the one recorded at its creation) *)
Inductive case := CSpawn (d : discipline) (solo : list N) (lists : list (list N)) (results_equal : bool).

Definition leqN := leqb N.eqb.

(** (a) every thread has its own generator: each list is a prefix of the solo stream *)
Definition prefixes (solo : list N) (lists : list (list N)) : bool :=
  forallb (fun l => leqN l (firstn (length l) solo)) lists.

(** (b) one shared generator, linearizable: walking along the solo stream, every draw is the
    next unconsumed element of exactly one thread; returns the schedule (thread id per draw) *)
Fixpoint owner (x : N) (i : nat) (rest : list (list N)) : option (nat * list (list N)) :=
  match rest with
  | [] => None
  | l :: r =>
      match l with
      | y :: l' => if N.eqb x y then Some (i, l' :: r)
                   else match owner x (S i) r with Some (j, r') => Some (j, l :: r') | None => None end
      | [] => match owner x (S i) r with Some (j, r') => Some (j, l :: r') | None => None end
      end
  end.

Fixpoint recon (solo : list N) (rest : list (list N)) : option (list nat) :=
  if forallb (fun l => match l with [] => true | _ => false end) rest then Some []
  else match solo with
       | [] => None
       | x :: solo' =>
           match owner x 0 rest with
           | None => None
           | Some (t, rest') => match recon solo' rest' with Some s => Some (t :: s) | None => None end
           end
       end.

Definition spec_check (c : case) : bool :=
  let '(CSpawn _ solo lists req) := c in
  req && (prefixes solo lists || match recon solo lists with Some _ => true | None => false end).

(** the model instantiated with "generator state = position in the solo stream" *)
Definition gstep (k : N) : N := N.succ k.
Definition gout (solo : list N) (k : N) : N := nth (N.to_nat (N.pred k)) solo 0%N.

Fixpoint round_robin (rounds : nat) (n : nat) : list nat :=
  match rounds with O => [] | S r => seq 0 n ++ round_robin r n end.

Definition model_lists (d : discipline) (solo : list N) (progs : list nat) (sched : list nat) : list (list N) :=
  map (@seen N) (threads (run gstep (gout solo) d (init 0%N progs) sched)).

Definition rep {A} (k : nat) (l : list A) : list A := flat_map (fun x => repeat x k) l.

Definition model_check (c : case) : bool :=
  let '(CSpawn d solo lists req) := c in
  let progs := map (@length N) lists in
  req &&
  match d with
  | ThreadLocal =>
      (* by c17_threadlocal_safe the outcome is schedule independent: run round robin *)
      leqb leqN (model_lists d solo progs (round_robin (2 * fold_right max 0 progs) (length progs))) lists
  | AtomicRMW =>
      match recon solo lists with
      | Some sched => leqb leqN (model_lists d solo progs sched) lists
      | None => false
      end
  | Locked =>
      match recon solo lists with
      | Some sched => leqb leqN (model_lists d solo progs (rep 4 sched)) lists
      | None => false
      end
  | Racy | SplitAtomic => false   (* no verified model corresponds to these disciplines *)
  end.

Definition explain (c : case) :=
  let '(CSpawn d solo lists _) := c in
  (prefixes solo lists, recon solo lists,
   model_lists d solo (map (@length N) lists) (round_robin (2 * fold_right max 0 (map (@length N) lists)) (length lists))).
