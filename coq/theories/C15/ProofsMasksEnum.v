(** C15 — the mask iterators' output as an explicit filtered enumeration of all w-bit values. *)
From Coq Require Import ZArith NArith Lia List Bool Sorting.Sorted.
From RlibV Require Import Common.Iter C15.Model C15.Corr C15.ProofsMasks.
Import ListNotations.
Open Scope N_scope.

Section Generic.
Context {A : Type} (R : A -> A -> Prop).
Hypothesis R_irrefl : forall a, ~ R a a.
Hypothesis R_trans : forall a b c, R a b -> R b c -> R a c.

Lemma ssorted_unique (l1 l2 : list A) :
  StronglySorted R l1 -> StronglySorted R l2 -> (forall u, In u l1 <-> In u l2) -> l1 = l2.
Proof.
  intros H1. revert l2. induction H1 as [|a l1 H1 IH Ha]; intros l2 H2 Hin.
  - destruct l2 as [|b l2]; [reflexivity|]. exfalso. apply (Hin b). left. reflexivity.
  - destruct H2 as [|b l2 H2 Hb].
    + exfalso. apply (Hin a). left. reflexivity.
    + rewrite Forall_forall in Ha, Hb.
      assert (Hab : a = b).
      { destruct (proj1 (Hin a) (or_introl eq_refl)) as [E|Hi]; [symmetry; exact E|].
        destruct (proj2 (Hin b) (or_introl eq_refl)) as [E|Hj]; [exact E|].
        specialize (Ha _ Hj). specialize (Hb _ Hi). exfalso. exact (R_irrefl a (R_trans _ _ _ Ha Hb)). }
      subst b. f_equal. apply IH; [exact H2|]. intros u. split; intros Hu.
      * destruct (proj1 (Hin u) (or_intror Hu)) as [E|Hi]; [|exact Hi]. subst u. exfalso. exact (R_irrefl a (Ha _ Hu)).
      * destruct (proj2 (Hin u) (or_intror Hu)) as [E|Hi]; [|exact Hi]. subst u. exfalso. exact (R_irrefl a (Hb _ Hu)).
Qed.

Lemma ssorted_filter (f : A -> bool) l : StronglySorted R l -> StronglySorted R (filter f l).
Proof.
  intros H. induction H as [|a l H IH Ha]; cbn [filter]; [constructor|].
  destruct (f a); [|exact IH]. constructor; [exact IH|].
  rewrite Forall_forall in *. intros b Hb. apply filter_In in Hb. apply Ha. apply Hb.
Qed.
End Generic.

Lemma seq_sorted : forall n k, StronglySorted lt (seq k n).
Proof.
  induction n as [|n IH]; intros k; cbn [seq]; constructor; [apply IH|].
  apply Forall_forall. intros b Hb. apply in_seq in Hb. lia.
Qed.

Lemma map_sorted {A B} (R : A -> A -> Prop) (R' : B -> B -> Prop) (f : A -> B) l :
  (forall a b, R a b -> R' (f a) (f b)) -> StronglySorted R l -> StronglySorted R' (map f l).
Proof.
  intros Hf H. induction H as [|a l H IH Ha]; cbn [map]; constructor; [exact IH|].
  rewrite Forall_forall in *. intros b Hb. apply in_map_iff in Hb. destruct Hb as (c & <- & Hc). apply Hf, Ha, Hc.
Qed.

Lemma all_below_sorted w : StronglySorted N.lt (all_below w).
Proof. unfold all_below. apply (map_sorted lt); [intros a b H; lia|apply seq_sorted]. Qed.

Lemma all_below_in w u : In u (all_below w) <-> u < 2 ^ w.
Proof.
  unfold all_below. rewrite in_map_iff. split.
  - intros (k & <- & Hk). apply in_seq in Hk. lia.
  - intros H. exists (N.to_nat u). split; [apply N2Nat.id|]. apply in_seq. lia.
Qed.

Lemma is_sub_spec x u : is_sub x u = true <-> N.land u x = u.
Proof. unfold is_sub. apply N.eqb_eq. Qed.
Lemma is_sup_spec w x u : is_sup w x u = true <-> N.land u x = x /\ u < 2 ^ w.
Proof. unfold is_sup. rewrite andb_true_iff, N.eqb_eq, N.ltb_lt. reflexivity. Qed.

Lemma supermasks_filter w x : w <= 128 -> x < 2 ^ w ->
  iter_supermasks w x = Some (filter (is_sup w x) (all_below w)).
Proof.
  intros Hw Hx. destruct (iter_supermasks_ok w x Hw Hx) as (l & Hl & Hin & Hs & _). rewrite Hl. f_equal.
  apply (ssorted_unique N.lt); [intros a; lia|intros a b c; lia|exact Hs|apply ssorted_filter; apply all_below_sorted|].
  intros u. rewrite Hin, filter_In, is_sup_spec, all_below_in. tauto.
Qed.

Lemma submasks_filter w x : w <= 128 -> x < 2 ^ w ->
  iter_submasks w x = Some (filter (is_sub x) (rev (all_below w))).
Proof.
  intros Hw Hx. destruct (iter_submasks_ok w x Hw Hx) as (l & Hl & Hin & Hs & _). rewrite Hl. f_equal.
  apply (ssorted_unique (fun a b => b < a)); [intros a; lia|intros a b c; lia|exact Hs| |].
  - apply ssorted_filter. apply (ssorted_rev N.lt). apply all_below_sorted.
  - intros u. rewrite Hin, filter_In, is_sub_spec, <- in_rev, all_below_in. split; [|tauto].
    intros H. split; [|exact H]. pose proof (land_le_r u x). lia.
Qed.
