(** C15 — property theorems (statements only; proofs by [exact]). *)
From Coq Require Import ZArith NArith List Bool Sorting.Permutation Sorting.Sorted.
From RlibV Require Import C15.Model C15.Spec C15.Corr C15.ProofsMasks C15.ProofsMasksEnum C15.ProofsPerm C15.ProofsIter
  C15.ProofsSmall C15.ProofsNb C15.ProofsCorrPerm C15.ProofsCorrMasks C15.ProofsTake C15.ProofsDirect C15.ProofsDeposit
  C15.ProofsCorr.
Import ListNotations.

(** ** masks *)

(** one step of the submask iterator from a non-zero submask [s] of [x] (any width [w]): it yields [s] and moves to
    the greatest submask of [x] below [s] *)
Theorem c15_submask_succ : forall w x s : N, (s <> 0 -> s < 2 ^ w -> N.land s x = s ->
  exists n, next_submask w x s = Some (s, n) /\ N.land n x = n /\ n < s /\
            forall u, N.land u x = u -> u < s -> u <= n)%N.
Proof. exact submask_succ. Qed.

(** one step of the supermask iterator from a supermask [s] of [x] other than all-ones: it yields [s] and moves to
    the least supermask of [x] above [s], which still fits the width *)
Theorem c15_supermask_succ : forall w x s : N, (x < 2 ^ w -> s < 2 ^ w -> s <> 2 ^ w - 1 -> N.land s x = x ->
  exists n, next_supermask w x s = Some (s, n) /\ N.land n x = x /\ s < n /\ n < 2 ^ w /\
            forall u, N.land u x = x -> s < u -> n <= u)%N.
Proof. exact supermask_succ. Qed.

(** the stop conditions *)
Theorem c15_mask_stop : forall w x : N,
  next_submask w x 0 = None /\ next_supermask w x (2 ^ w - 1) = None.
Proof. exact mask_stop. Qed.

(** iter_submasks(x) for a w-bit type, w <= 128: terminates; its output contains exactly the submasks of x, is strictly
    decreasing (hence each submask once), starts with x and ends with 0 *)
Theorem c15_submasks_enumeration : forall w x : N, (w <= 128 -> x < 2 ^ w ->
  exists l, iter_submasks w x = Some l /\
            (forall u, In u l <-> N.land u x = u) /\
            StronglySorted (fun a b => b < a) l /\ NoDup l /\ hd 1 l = x /\ last l 1 = 0)%N.
Proof. exact submasks_enumeration. Qed.

(** iter_supermasks(x): exactly the w-bit supermasks of x, strictly increasing, from x to all-ones *)
Theorem c15_supermasks_enumeration : forall w x : N, (w <= 128 -> x < 2 ^ w ->
  exists l, iter_supermasks w x = Some l /\
            (forall u, In u l <-> (N.land u x = x /\ u < 2 ^ w)) /\
            StronglySorted N.lt l /\ NoDup l /\ hd 0 l = x /\ last l 0 = 2 ^ w - 1)%N.
Proof. exact supermasks_enumeration. Qed.

(** the binary fuel 2^130 is never exhausted for widths up to 128 *)
Theorem c15_masks_terminate : forall w x : N, (w <= 128 -> x < 2 ^ w ->
  iter_submasks w x <> None /\ iter_supermasks w x <> None)%N.
Proof. exact masks_terminate. Qed.

(** the iterators' output, explicitly: all w-bit values in descending (ascending) order, filtered by the
    submask (supermask) test — [all_below w] is [0; 1; ...; 2^w - 1] *)
Theorem c15_submasks_filter : forall w x : N, (w <= 128 -> x < 2 ^ w ->
  iter_submasks w x = Some (filter (fun u => N.land u x =? u) (rev (all_below w))))%N.
Proof. exact submasks_filter. Qed.

Theorem c15_supermasks_filter : forall w x : N, (w <= 128 -> x < 2 ^ w ->
  iter_supermasks w x = Some (filter (fun u => (N.land u x =? x) && (u <? 2 ^ w)) (all_below w)))%N.
Proof. exact supermasks_filter. Qed.

Open Scope Z_scope.

(** ** permutations (sequences may contain repeated elements) *)

(** the slice after the call is a rearrangement of the slice before *)
Theorem c15_next_perm_is_permutation : forall d : list Z, Permutation d (snd (next_permutation d)).
Proof. exact next_perm_is_permutation. Qed.

(** when it returns true the new sequence is lexicographically strictly greater *)
Theorem c15_next_perm_greater : forall d : list Z,
  fst (next_permutation d) = true -> lex_lt d (snd (next_permutation d)).
Proof. exact next_perm_greater. Qed.

(** ... and it is the lexicographic successor: no arrangement of the same elements lies strictly between *)
Theorem c15_next_perm_minimal : forall d : list Z, fst (next_permutation d) = true ->
  forall p : list Z, Permutation d p -> ~ (lex_lt d p /\ lex_lt p (snd (next_permutation d))).
Proof. exact next_perm_minimal. Qed.

(** it returns false exactly on non-increasing input (the last arrangement), and then leaves the reversed = sorted
    (non-decreasing) sequence *)
Theorem c15_next_perm_wrap : forall d : list Z,
  (fst (next_permutation d) = false <-> StronglySorted Z.ge d) /\
  (StronglySorted Z.ge d ->
     snd (next_permutation d) = rev d /\ StronglySorted Z.le (snd (next_permutation d)) /\
     snd (next_permutation d) = sort d).
Proof. exact next_perm_wrap_full. Qed.

(** iter_permutations terminates within its fuel for every input; the output starts with the sorted data, is strictly
    increasing lexicographically (so no arrangement is listed twice) and contains exactly the arrangements of the input *)
Theorem c15_iter_permutations : forall d : list Z,
  exists l, iter_permutations d = Some l /\ StronglySorted lex_lt l /\
            (forall p, In p l <-> Permutation d p) /\ NoDup l /\ hd [] l = sort d.
Proof. exact iter_permutations_ok. Qed.

(** the characterisation determines the output *)
Theorem c15_sorted_listing_unique : forall l1 l2 : list (list Z),
  StronglySorted lex_lt l1 -> StronglySorted lex_lt l2 -> (forall u, In u l1 <-> In u l2) -> l1 = l2.
Proof. exact ssorted_lex_unique. Qed.

(** by computation, for all 3280 sequences over a 3-letter alphabet of length at most 7: iter_permutations equals the
    directly enumerated list of distinct arrangements, and next_permutation the element following its input there
    (wrapping to the first with result false) *)
Theorem c15_iter_permutations_small : forallb iter_matches (seqs_upto [0; 1; 2] 7) = true.
Proof. exact iter_permutations_small. Qed.
Theorem c15_next_permutation_small : forallb next_matches (seqs_upto [0; 1; 2] 7) = true.
Proof. exact next_permutation_small. Qed.

(** ** neighbours: the fixed cell order filtered by the bounds; membership; no repetition *)
Theorem c15_neighbours_4 : forall n m i j : Z,
  iter_neighbours_4 n m i j = filter (in_grid n m) [(i, j + 1); (i - 1, j); (i, j - 1); (i + 1, j)] /\
  (forall a b, In (a, b) (iter_neighbours_4 n m i j) <->
               0 <= a < n /\ 0 <= b < m /\ Z.abs (a - i) + Z.abs (b - j) = 1) /\
  NoDup (iter_neighbours_4 n m i j).
Proof. exact nb4_full. Qed.

Theorem c15_neighbours_4d : forall n m i j : Z,
  iter_neighbours_4d n m i j = filter (in_grid n m) [(i - 1, j + 1); (i - 1, j - 1); (i + 1, j - 1); (i + 1, j + 1)] /\
  (forall a b, In (a, b) (iter_neighbours_4d n m i j) <->
               0 <= a < n /\ 0 <= b < m /\ Z.abs (a - i) = 1 /\ Z.abs (b - j) = 1) /\
  NoDup (iter_neighbours_4d n m i j).
Proof. exact nb4d_full. Qed.

Theorem c15_neighbours_8 : forall n m i j : Z,
  iter_neighbours_8 n m i j = filter (in_grid n m) [(i, j + 1); (i - 1, j + 1); (i - 1, j); (i - 1, j - 1);
                                                     (i, j - 1); (i + 1, j - 1); (i + 1, j); (i + 1, j + 1)] /\
  (forall a b, In (a, b) (iter_neighbours_8 n m i j) <->
               0 <= a < n /\ 0 <= b < m /\ Z.max (Z.abs (a - i)) (Z.abs (b - j)) = 1) /\
  NoDup (iter_neighbours_8 n m i j).
Proof. exact nb8_full. Qed.

(** ** further consequences *)

(** the number of items: 2^popcount(x) submasks, 2^(w - popcount(x)) supermasks *)
Theorem c15_submasks_count : forall w x : N, (w <= 128 -> x < 2 ^ w ->
  exists l, iter_submasks w x = Some l /\ N.of_nat (length l) = 2 ^ popcount x)%N.
Proof. exact submasks_count. Qed.
Theorem c15_supermasks_count : forall w x : N, (w <= 128 -> x < 2 ^ w ->
  exists l, iter_supermasks w x = Some l /\ N.of_nat (length l) = 2 ^ (w - popcount x))%N.
Proof. exact supermasks_count. Qed.

(** iter_permutations is, for every input, the directly enumerated list of distinct arrangements of Corr.v
    (first element chosen among the distinct values in increasing order, recursively) *)
Theorem c15_iter_permutations_enumerated : forall d : list Z, iter_permutations d = Some (all_arrangements d).
Proof. exact iter_permutations_all_arrangements. Qed.

(** the direct description of the successor used by Corr.v for sequences of every length (pivot position, least greater
    element of the non-increasing rest, sorted rearranged tail; reversal on non-increasing input) holds of a pair
    (returned bool, data afterwards) exactly when the pair is what next_permutation computes, hence it accepts exactly
    what the brute-force [spec_next] (successor in the enumerated listing of all arrangements) accepts *)
Theorem c15_next_perm_direct : forall (d : list Z) (r : bool) (out : list Z),
  spec_next_direct d r out = true <-> (r, out) = next_permutation d.
Proof. exact spec_next_direct_iff. Qed.
Theorem c15_spec_next_direct_agrees : forall (d : list Z) (r : bool) (out : list Z),
  spec_next_direct d r out = spec_next d r out.
Proof. exact spec_next_direct_agrees. Qed.

(** [take(k)] of the three iterators (called [next()] at most k times) is the first k items of the full listing *)
Theorem c15_submasks_take : forall (w x : N) (l : list N) (k : nat),
  iter_submasks w x = Some l -> iter_submasks_take w x k = firstn k l.
Proof. exact iter_submasks_take_firstn. Qed.
Theorem c15_supermasks_take : forall (w x : N) (l : list N) (k : nat),
  iter_supermasks w x = Some l -> iter_supermasks_take w x k = firstn k l.
Proof. exact iter_supermasks_take_firstn. Qed.
Theorem c15_iter_permutations_take : forall (d : list Z) (l : list (list Z)) (k : nat),
  iter_permutations d = Some l -> iter_permutations_take d k = firstn k l.
Proof. exact iter_permutations_take_firstn. Qed.

(** closed form, every width: the i-th submask is the one whose bits at the one positions of x read
    2^popcount x - 1 - i ([deposit]), the i-th supermask is x + the submask of the complement that reads i *)
Theorem c15_submasks_take_closed : forall (w x : N) (k : nat), (x < 2 ^ w ->
  iter_submasks_take w x k = sub_closed x (2 ^ popcount x - 1) k)%N.
Proof. exact iter_submasks_take_closed. Qed.
Theorem c15_supermasks_take_closed : forall (w x : N) (k : nat), (x < 2 ^ w ->
  iter_supermasks_take w x k = sup_closed x (2 ^ w - 1 - x) (2 ^ popcount (2 ^ w - 1 - x) - 1) 0 k)%N.
Proof. exact iter_supermasks_take_closed. Qed.

(** on in-scope cases (mask width at most 128) an observation that agrees with the model satisfies the brute-force
    specification of Corr.v: the batch lemma about the model carries the specification to the implementation by proof *)
Theorem c15_model_implies_spec : forall c : case, in_scope c -> model_check c = true -> spec_check c = true.
Proof. exact model_implies_spec. Qed.
