(** C15 — property theorems (statements only; proofs by [exact]). *)
From Coq Require Import ZArith NArith List Bool Sorting.Permutation Sorting.Sorted.
From RlibV Require Import C15.Model C15.Corr C15.ProofsMasks.
Import ListNotations.

(** ** masks *)

(** one step of the submask iterator from a non-zero submask [s] of [x] (any width [w]): it yields [s] and moves to
    the greatest submask of [x] below [s] *)
Theorem c15_submask_succ : forall w x s : N, (s <> 0 -> s < 2 ^ w -> N.land s x = s ->
  exists n, next_submask w x s = Some (s, n) /\ N.land n x = n /\ n < s /\
            forall u, N.land u x = u -> u < s -> u <= n)%N.
Proof. exact submask_succ. Qed.

(** one step of the supermask iterator from a supermask [s] of [x] other than all-ones: it yields [s] and moves to
    the least supermask of [x] above [s], which still fits the width *)
Theorem c15_supermask_succ : forall w x s : N, (x < 2 ^ w -> s < 2 ^ w -> s <> 2 ^ w - 1 -> N.land s x = x ->
  exists n, next_supermask w x s = Some (s, n) /\ N.land n x = x /\ s < n /\ n < 2 ^ w /\
            forall u, N.land u x = x -> s < u -> n <= u)%N.
Proof. exact supermask_succ. Qed.

(** the stop conditions *)
Theorem c15_mask_stop : forall w x : N,
  next_submask w x 0 = None /\ next_supermask w x (2 ^ w - 1) = None.
Proof. exact mask_stop. Qed.

(** iter_submasks(x) for a w-bit type, w <= 128: terminates; its output contains exactly the submasks of x, is strictly
    decreasing (hence each submask once), starts with x and ends with 0 *)
Theorem c15_submasks_enumeration : forall w x : N, (w <= 128 -> x < 2 ^ w ->
  exists l, iter_submasks w x = Some l /\
            (forall u, In u l <-> N.land u x = u) /\
            StronglySorted (fun a b => b < a) l /\ NoDup l /\ hd 1 l = x /\ last l 1 = 0)%N.
Proof. exact submasks_enumeration. Qed.

(** iter_supermasks(x): exactly the w-bit supermasks of x, strictly increasing, from x to all-ones *)
Theorem c15_supermasks_enumeration : forall w x : N, (w <= 128 -> x < 2 ^ w ->
  exists l, iter_supermasks w x = Some l /\
            (forall u, In u l <-> (N.land u x = x /\ u < 2 ^ w)) /\
            StronglySorted N.lt l /\ NoDup l /\ hd 0 l = x /\ last l 0 = 2 ^ w - 1)%N.
Proof. exact supermasks_enumeration. Qed.

(** the binary fuel 2^130 is never exhausted for widths up to 128 *)
Theorem c15_masks_terminate : forall w x : N, (w <= 128 -> x < 2 ^ w ->
  iter_submasks w x <> None /\ iter_supermasks w x <> None)%N.
Proof. exact masks_terminate. Qed.
