(** C15 — non-vacuity: the model runs on literals, and every hypothesis of every property theorem is met by a
    concrete instance. *)
From Coq Require Import ZArith NArith Lia List Bool Sorting.Permutation Sorting.Sorted.
From RlibV Require Import C15.Model C15.Spec C15.Corr C15.Properties.
Import ListNotations.

(** ** masks *)
Example ex_sub_run : iter_submasks 32 13 = Some [13; 12; 9; 8; 5; 4; 1; 0]%N.
Proof. vm_compute. reflexivity. Qed.
Example ex_sub_zero_run : iter_submasks 32 0 = Some [0]%N.       (* from_fn part empty, the chained 0 *)
Proof. vm_compute. reflexivity. Qed.
Example ex_sup_run : iter_supermasks 8 (255 - 128 - 16 - 1) = Some [110; 111; 126; 127; 238; 239; 254; 255]%N.
Proof. vm_compute. reflexivity. Qed.
Example ex_sup_ones_run : iter_supermasks 8 255 = Some [255]%N.
Proof. vm_compute. reflexivity. Qed.
Example ex_sub_128_run :
  iter_submasks 128 (2 ^ 127 + 2 ^ 100) = Some [2 ^ 127 + 2 ^ 100; 2 ^ 127; 2 ^ 100; 0]%N.
Proof. vm_compute. reflexivity. Qed.
(** i8: the pattern 128 is the value -128; the iterator still passes through it *)
Example ex_sub_sign_run : iter_submasks 8 129 = Some [129; 128; 1; 0]%N.
Proof. vm_compute. reflexivity. Qed.

Example ex_submask_succ : exists n, (next_submask 8 13 12 = Some (12, n) /\ N.land n 13 = n /\ n < 12 /\
                                    forall u, N.land u 13 = u -> u < 12 -> u <= n)%N.
Proof. apply c15_submask_succ; [discriminate|reflexivity|reflexivity]. Qed.
Example ex_supermask_succ : exists n, (next_supermask 8 13 15 = Some (15, n) /\ N.land n 13 = 13 /\ 15 < n /\ n < 2 ^ 8 /\
                                      forall u, N.land u 13 = 13 -> 15 < u -> n <= u)%N.
Proof. apply c15_supermask_succ; [reflexivity|reflexivity|discriminate|reflexivity]. Qed.
Example ex_sub_enum : exists l, (iter_submasks 128 (2 ^ 127 + 1) = Some l /\
                                (forall u, In u l <-> N.land u (2 ^ 127 + 1) = u) /\
                                StronglySorted (fun a b => b < a) l /\ NoDup l /\ hd 1 l = 2 ^ 127 + 1 /\ last l 1 = 0)%N.
Proof. apply c15_submasks_enumeration; [discriminate|reflexivity]. Qed.
Example ex_sup_enum : exists l, (iter_supermasks 16 40000 = Some l /\
                                (forall u, In u l <-> (N.land u 40000 = 40000 /\ u < 2 ^ 16)) /\
                                StronglySorted N.lt l /\ NoDup l /\ hd 0 l = 40000 /\ last l 0 = 2 ^ 16 - 1)%N.
Proof. apply c15_supermasks_enumeration; [discriminate|reflexivity]. Qed.
Example ex_terminate : iter_submasks 128 (2 ^ 128 - 1 - 2 ^ 64) <> None /\ iter_supermasks 128 (2 ^ 128 - 1 - 2 ^ 64) <> None.
Proof. apply c15_masks_terminate; [discriminate|reflexivity]. Qed.
Example ex_sub_filter : iter_submasks 4 5 = Some (filter (fun u => N.land u 5 =? u) (rev (all_below 4)))%N.
Proof. apply c15_submasks_filter; [discriminate|reflexivity]. Qed.
Example ex_sup_filter : iter_supermasks 4 5 = Some (filter (fun u => (N.land u 5 =? 5) && (u <? 2 ^ 4)) (all_below 4))%N.
Proof. apply c15_supermasks_filter; [discriminate|reflexivity]. Qed.
(** the printing aid of Corr.v *)
Example ex_unpack_sub : unpack_sub 13 [7; 6; 5; 4; 3; 2; 1; 0]%Z = [13; 12; 9; 8; 5; 4; 1; 0]%Z.
Proof. vm_compute. reflexivity. Qed.
Example ex_unpack_sup : unpack_sup 8 110 [0; 1; 2; 3; 4; 5; 6; 7]%Z = [110; 111; 126; 127; 238; 239; 254; 255]%Z.
Proof. vm_compute. reflexivity. Qed.

(** ** permutations *)
Open Scope Z_scope.
Example ex_np_run : next_permutation [3; 5; 1; 4; 2] = (true, [3; 5; 2; 1; 4]).
Proof. vm_compute. reflexivity. Qed.
Example ex_np_dup_run : next_permutation [1; 2; 2; 1] = (true, [2; 1; 1; 2]).
Proof. vm_compute. reflexivity. Qed.
Example ex_np_last_run : next_permutation [2; 2; 1; 0] = (false, [0; 1; 2; 2]).
Proof. vm_compute. reflexivity. Qed.
Example ex_np_empty_run : next_permutation [] = (false, []).
Proof. vm_compute. reflexivity. Qed.
Example ex_ip_run : iter_permutations [2; 1; 2] = Some [[1; 2; 2]; [2; 1; 2]; [2; 2; 1]].
Proof. vm_compute. reflexivity. Qed.
Example ex_ip_empty_run : iter_permutations [] = Some [[]].
Proof. vm_compute. reflexivity. Qed.

Example ex_np_true : fst (next_permutation [1; 2; 2; 1]) = true.
Proof. vm_compute. reflexivity. Qed.
Example ex_np_greater : lex_lt [1; 2; 2; 1] (snd (next_permutation [1; 2; 2; 1])).
Proof. apply c15_next_perm_greater. exact ex_np_true. Qed.
(** [1;2;1;2] is an arrangement of the same elements but smaller than the input, [2;1;2;1] one above the successor:
    neither lies strictly between *)
Example ex_np_minimal : ~ (lex_lt [1; 2; 2; 1] [2; 1; 2; 1] /\ lex_lt [2; 1; 2; 1] (snd (next_permutation [1; 2; 2; 1]))).
Proof.
  apply c15_next_perm_minimal; [exact ex_np_true|].
  change [1; 2; 2; 1] with ([1; 2] ++ [2; 1]). change [2; 1; 2; 1] with ([2; 1] ++ [2; 1]).
  apply Permutation_app_tail. apply perm_swap.
Qed.
Example ex_noninc : StronglySorted Z.ge [2; 2; 1; 0].
Proof. repeat constructor; lia. Qed.
Example ex_np_wrap : snd (next_permutation [2; 2; 1; 0]) = sort [2; 2; 1; 0].
Proof. apply (c15_next_perm_wrap [2; 2; 1; 0]). exact ex_noninc. Qed.
Example ex_np_wrap_false : fst (next_permutation [2; 2; 1; 0]) = false.
Proof. apply (c15_next_perm_wrap [2; 2; 1; 0]). exact ex_noninc. Qed.
Example ex_listing_unique : [[1; 2]; [2; 1]] = [[1; 2]; [2; 1]].
Proof.
  apply c15_sorted_listing_unique; try (repeat constructor; cbn; lia). intros u. reflexivity.
Qed.

(** ** neighbours *)
Example ex_n4_run : iter_neighbours_4 10 10 0 0 = [(0, 1); (1, 0)].
Proof. vm_compute. reflexivity. Qed.
Example ex_n4d_run : iter_neighbours_4d 10 10 5 5 = [(4, 6); (4, 4); (6, 4); (6, 6)].
Proof. vm_compute. reflexivity. Qed.
Example ex_n8_run : iter_neighbours_8 10 10 9 9 = [(8, 9); (8, 8); (9, 8)].
Proof. vm_compute. reflexivity. Qed.
Example ex_n8_1x1_run : iter_neighbours_8 1 1 0 0 = [].
Proof. vm_compute. reflexivity. Qed.
Example ex_n8_in : In (8, 8) (iter_neighbours_8 10 10 9 9).
Proof. apply c15_neighbours_8. lia. Qed.

(** ** model_check -> spec_check *)
Example ex_in_scope : in_scope (CSub 32 13 [13; 12; 9; 8; 5; 4; 1; 0]).
Proof. cbn [in_scope]. lia. Qed.
Example ex_model_implies_spec : spec_check (CSub 32 13 [13; 12; 9; 8; 5; 4; 1; 0]) = true.
Proof. apply c15_model_implies_spec; [exact ex_in_scope|vm_compute; reflexivity]. Qed.
Example ex_model_implies_spec_np : spec_check (CNext [1; 2; 2; 1] true [2; 1; 1; 2]) = true.
Proof. apply c15_model_implies_spec; [exact I|vm_compute; reflexivity]. Qed.
Example ex_count : exists l, (iter_submasks 128 (2 ^ 127 + 5) = Some l /\ N.of_nat (length l) = 2 ^ popcount (2 ^ 127 + 5))%N.
Proof. apply c15_submasks_count; [discriminate|reflexivity]. Qed.
Example ex_count_sup : exists l, (iter_supermasks 16 40000 = Some l /\ N.of_nat (length l) = 2 ^ (16 - popcount 40000))%N.
Proof. apply c15_supermasks_count; [discriminate|reflexivity]. Qed.
Example ex_enumerated : iter_permutations [2; 1; 2] = Some (all_arrangements [2; 1; 2]).
Proof. apply c15_iter_permutations_enumerated. Qed.

(** ** prefixes, the direct successor description, long sequences *)
Example ex_sub_take_run : iter_submasks_take 128 (2 ^ 128 - 1) 3 = [2 ^ 128 - 1; 2 ^ 128 - 2; 2 ^ 128 - 3]%N.
Proof. vm_compute. reflexivity. Qed.
Example ex_sup_take_run : iter_supermasks_take 64 0 4 = [0; 1; 2; 3]%N.
Proof. vm_compute. reflexivity. Qed.
Example ex_sub_take_short_run : iter_submasks_take 8 5 100 = [5; 4; 1; 0]%N.     (* fewer than requested *)
Proof. vm_compute. reflexivity. Qed.
Example ex_ip_take_run : iter_permutations_take [3; 1; 2; 1] 3 = [[1; 1; 2; 3]; [1; 1; 3; 2]; [1; 2; 1; 3]].
Proof. vm_compute. reflexivity. Qed.
Example ex_sub_take : iter_submasks_take 8 13 3 = firstn 3 [13; 12; 9; 8; 5; 4; 1; 0]%N.
Proof. apply c15_submasks_take. vm_compute. reflexivity. Qed.
Example ex_sup_take : iter_supermasks_take 8 110 3 = firstn 3 [110; 111; 126; 127; 238; 239; 254; 255]%N.
Proof. apply c15_supermasks_take. vm_compute. reflexivity. Qed.
Example ex_ip_take : iter_permutations_take [2; 1; 2] 2 = firstn 2 [[1; 2; 2]; [2; 1; 2]; [2; 2; 1]].
Proof. apply c15_iter_permutations_take. vm_compute. reflexivity. Qed.
Example ex_sub_take_closed :
  iter_submasks_take 128 (2 ^ 127 + 5) 3 = sub_closed (2 ^ 127 + 5) (2 ^ popcount (2 ^ 127 + 5) - 1) 3%nat.
Proof. apply c15_submasks_take_closed. reflexivity. Qed.
Example ex_sup_take_closed :
  iter_supermasks_take 16 40000 3 = sup_closed 40000 (2 ^ 16 - 1 - 40000) (2 ^ popcount (2 ^ 16 - 1 - 40000) - 1) 0 3%nat.
Proof. apply c15_supermasks_take_closed. reflexivity. Qed.
Example ex_direct : spec_next_direct [1; 2; 2; 1] true [2; 1; 1; 2] = true.
Proof. apply c15_next_perm_direct. vm_compute. reflexivity. Qed.
Example ex_direct_rejects : spec_next_direct [1; 2; 3] true [2; 1; 3] = false.   (* not the rightmost pivot *)
Proof. vm_compute. reflexivity. Qed.
Example ex_direct_agrees : spec_next_direct [1; 2; 3] true [2; 1; 3] = spec_next [1; 2; 3] true [2; 1; 3].
Proof. apply c15_spec_next_direct_agrees. Qed.
Example ex_rle : rle [(5, 3); (-1, 2); (7, 0); (4, 1)] = [5; 5; 5; -1; -1; 4].
Proof. vm_compute. reflexivity. Qed.
Example ex_unpack_sub_top : unpack_sub_top 13 [0; 1; 2; 7] = [13; 12; 9; 0].
Proof. vm_compute. reflexivity. Qed.
(** a sequence of 300 elements: the pivot in front of a long non-increasing tail that contains copies of it *)
Example ex_np_long_run :
  next_permutation (rle [(0, 100); (1, 1); (2, 99); (1, 50); (0, 50)]) = (true, rle [(0, 100); (2, 1); (0, 50); (1, 51); (2, 98)]).
Proof. vm_compute. reflexivity. Qed.
Example ex_model_implies_spec_long :
  spec_check (CNext (rle [(0, 100); (1, 1); (2, 99); (1, 50); (0, 50)]) true (rle [(0, 100); (2, 1); (0, 50); (1, 51); (2, 98)])) = true.
Proof. apply c15_model_implies_spec; [exact I|vm_compute; reflexivity]. Qed.
Example ex_model_implies_spec_pre : spec_check (CSubPre 128 (2 ^ 128 - 1) 3 [2 ^ 128 - 1; 2 ^ 128 - 2; 2 ^ 128 - 3]) = true.
Proof. apply c15_model_implies_spec; [cbn [in_scope]; lia|vm_compute; reflexivity]. Qed.
Example ex_model_implies_spec_ippre :
  spec_check (CIterPre [3; 1; 2; 1] 3 [[1; 1; 2; 3]; [1; 1; 3; 2]; [1; 2; 1; 3]]) = true.
Proof. apply c15_model_implies_spec; [exact I|vm_compute; reflexivity]. Qed.
