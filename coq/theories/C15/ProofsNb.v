(** C15 — proofs about the grid-neighbour iterators. *)
From Coq Require Import ZArith Lia List Bool.
From RlibV Require Import C15.Model C15.Corr.
Import ListNotations.
Open Scope Z_scope.

Notation inb := in_grid.

Lemma neighbours_filter_map offs n m i j :
  neighbours offs n m i j = filter (inb n m) (map (fun '(x, y) => (i + x, j + y)) offs).
Proof.
  unfold neighbours. induction offs as [|[x y] offs IH]; [reflexivity|].
  cbn [filter map]. unfold inb at 1. cbn [fst snd].
  rewrite !Z.geb_leb. destruct ((0 <=? i + x) && (i + x <? n) && (0 <=? j + y) && (j + y <? m));
    cbn [map]; rewrite IH; reflexivity.
Qed.

Definition cells4 (i j : Z) : list (Z * Z) := [(i, j + 1); (i - 1, j); (i, j - 1); (i + 1, j)].
Definition cells4d (i j : Z) : list (Z * Z) := [(i - 1, j + 1); (i - 1, j - 1); (i + 1, j - 1); (i + 1, j + 1)].
Definition cells8 (i j : Z) : list (Z * Z) :=
  [(i, j + 1); (i - 1, j + 1); (i - 1, j); (i - 1, j - 1); (i, j - 1); (i + 1, j - 1); (i + 1, j); (i + 1, j + 1)].

Ltac cells_eq := repeat (f_equal; try lia).

Lemma nb4_eq n m i j : iter_neighbours_4 n m i j = filter (inb n m) (cells4 i j).
Proof. unfold iter_neighbours_4. rewrite neighbours_filter_map. unfold cells4, offs4. cbn [map]. cells_eq. Qed.
Lemma nb4d_eq n m i j : iter_neighbours_4d n m i j = filter (inb n m) (cells4d i j).
Proof. unfold iter_neighbours_4d. rewrite neighbours_filter_map. unfold cells4d, offs4d. cbn [map]. cells_eq. Qed.
Lemma nb8_eq n m i j : iter_neighbours_8 n m i j = filter (inb n m) (cells8 i j).
Proof. unfold iter_neighbours_8. rewrite neighbours_filter_map. unfold cells8, offs8. cbn [map]. cells_eq. Qed.

Lemma inb_spec n m a b : inb n m (a, b) = true <-> 0 <= a < n /\ 0 <= b < m.
Proof. unfold inb. cbn [fst snd]. rewrite !andb_true_iff, !Z.leb_le, !Z.ltb_lt. lia. Qed.

Ltac in_cells H :=
  cbn [In] in H;
  repeat match type of H with
         | _ \/ _ => destruct H as [H|H]
         | (_, _) = (_, _) => injection H as <- <-
         | False => contradiction
         end.

Lemma nb4_in n m i j a b :
  In (a, b) (iter_neighbours_4 n m i j) <-> 0 <= a < n /\ 0 <= b < m /\ Z.abs (a - i) + Z.abs (b - j) = 1.
Proof.
  rewrite nb4_eq, filter_In, inb_spec. unfold cells4. split.
  - intros [H Hb]. in_cells H; lia.
  - intros (Ha & Hb & Hd). split; [|lia]. cbn [In].
    assert (C : (a = i /\ b = j + 1) \/ (a = i - 1 /\ b = j) \/ (a = i /\ b = j - 1) \/ (a = i + 1 /\ b = j)) by lia.
    destruct C as [[-> ->]|[[-> ->]|[[-> ->]|[-> ->]]]]; auto 6.
Qed.

Lemma nb4d_in n m i j a b :
  In (a, b) (iter_neighbours_4d n m i j) <-> 0 <= a < n /\ 0 <= b < m /\ Z.abs (a - i) = 1 /\ Z.abs (b - j) = 1.
Proof.
  rewrite nb4d_eq, filter_In, inb_spec. unfold cells4d. split.
  - intros [H Hb]. in_cells H; lia.
  - intros (Ha & Hb & Hd & He). split; [|lia]. cbn [In].
    assert (C : (a = i - 1 /\ b = j + 1) \/ (a = i - 1 /\ b = j - 1) \/ (a = i + 1 /\ b = j - 1) \/ (a = i + 1 /\ b = j + 1)) by lia.
    destruct C as [[-> ->]|[[-> ->]|[[-> ->]|[-> ->]]]]; auto 6.
Qed.

Lemma nb8_in n m i j a b :
  In (a, b) (iter_neighbours_8 n m i j) <-> 0 <= a < n /\ 0 <= b < m /\ Z.max (Z.abs (a - i)) (Z.abs (b - j)) = 1.
Proof.
  rewrite nb8_eq, filter_In, inb_spec. unfold cells8. split.
  - intros [H Hb]. in_cells H; lia.
  - intros (Ha & Hb & Hd). split; [|lia]. cbn [In].
    assert (C : (a = i /\ b = j + 1) \/ (a = i - 1 /\ b = j + 1) \/ (a = i - 1 /\ b = j) \/ (a = i - 1 /\ b = j - 1) \/
                (a = i /\ b = j - 1) \/ (a = i + 1 /\ b = j - 1) \/ (a = i + 1 /\ b = j) \/ (a = i + 1 /\ b = j + 1)) by lia.
    destruct C as [[-> ->]|[[-> ->]|[[-> ->]|[[-> ->]|[[-> ->]|[[-> ->]|[[-> ->]|[-> ->]]]]]]]]; auto 10.
Qed.

Ltac nodup_cells :=
  repeat (constructor; [let H := fresh in intro H; in_cells H; lia|]); constructor.

Lemma in_cells_neq : forall (a b c d : Z), (a, b) = (c, d) -> a = c /\ b = d.
Proof. intros a b c d H. injection H. auto. Qed.

Lemma cells8_nodup i j : NoDup (cells8 i j).
Proof.
  unfold cells8.
  repeat (constructor; [cbn [In]; intros H;
     repeat (destruct H as [H|H]; [apply in_cells_neq in H; lia|]); contradiction|]).
  constructor.
Qed.
Lemma cells4_nodup i j : NoDup (cells4 i j).
Proof.
  unfold cells4.
  repeat (constructor; [cbn [In]; intros H;
     repeat (destruct H as [H|H]; [apply in_cells_neq in H; lia|]); contradiction|]).
  constructor.
Qed.
Lemma cells4d_nodup i j : NoDup (cells4d i j).
Proof.
  unfold cells4d.
  repeat (constructor; [cbn [In]; intros H;
     repeat (destruct H as [H|H]; [apply in_cells_neq in H; lia|]); contradiction|]).
  constructor.
Qed.

Lemma nb4_nodup n m i j : NoDup (iter_neighbours_4 n m i j).
Proof. rewrite nb4_eq. apply NoDup_filter. apply cells4_nodup. Qed.
Lemma nb4d_nodup n m i j : NoDup (iter_neighbours_4d n m i j).
Proof. rewrite nb4d_eq. apply NoDup_filter. apply cells4d_nodup. Qed.
Lemma nb8_nodup n m i j : NoDup (iter_neighbours_8 n m i j).
Proof. rewrite nb8_eq. apply NoDup_filter. apply cells8_nodup. Qed.

Lemma nb4_full : forall n m i j : Z,
  iter_neighbours_4 n m i j = filter (in_grid n m) [(i, j + 1); (i - 1, j); (i, j - 1); (i + 1, j)] /\
  (forall a b, In (a, b) (iter_neighbours_4 n m i j) <->
               0 <= a < n /\ 0 <= b < m /\ Z.abs (a - i) + Z.abs (b - j) = 1) /\
  NoDup (iter_neighbours_4 n m i j).
Proof. intros. split; [apply nb4_eq|]. split; [intros; apply nb4_in|apply nb4_nodup]. Qed.
Lemma nb4d_full : forall n m i j : Z,
  iter_neighbours_4d n m i j = filter (in_grid n m) [(i - 1, j + 1); (i - 1, j - 1); (i + 1, j - 1); (i + 1, j + 1)] /\
  (forall a b, In (a, b) (iter_neighbours_4d n m i j) <->
               0 <= a < n /\ 0 <= b < m /\ Z.abs (a - i) = 1 /\ Z.abs (b - j) = 1) /\
  NoDup (iter_neighbours_4d n m i j).
Proof. intros. split; [apply nb4d_eq|]. split; [intros; apply nb4d_in|apply nb4d_nodup]. Qed.
Lemma nb8_full : forall n m i j : Z,
  iter_neighbours_8 n m i j = filter (in_grid n m) [(i, j + 1); (i - 1, j + 1); (i - 1, j); (i - 1, j - 1);
                                                     (i, j - 1); (i + 1, j - 1); (i + 1, j); (i + 1, j + 1)] /\
  (forall a b, In (a, b) (iter_neighbours_8 n m i j) <->
               0 <= a < n /\ 0 <= b < m /\ Z.max (Z.abs (a - i)) (Z.abs (b - j)) = 1) /\
  NoDup (iter_neighbours_8 n m i j).
Proof. intros. split; [apply nb8_eq|]. split; [intros; apply nb8_in|apply nb8_nodup]. Qed.
