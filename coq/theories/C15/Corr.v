(** C15 — correspondence cases: what the implementation returned on an input, compared with
    the model ([model_check]) and with the specification itself ([spec_check], written without
    the model: brute-force enumeration / counting arguments). *)
From Coq Require Import ZArith NArith List Bool Sorting.Mergesort Orders.
From RlibV Require Import Common.Batch C15.Model.
Import ListNotations.
Open Scope Z_scope.

Inductive nbkind := K4 | K4d | K8.

(** All numbers are printed as [Z]; masks are bit patterns (non-negative, below 2^w). *)
Inductive case :=
| CSub (w x : Z) (out : list Z)                       (* iter_submasks::<w-bit type>(x).collect() *)
| CSup (w x : Z) (out : list Z)                       (* iter_supermasks *)
| CNext (d : list Z) (r : bool) (out : list Z)        (* next_permutation(&mut d) = r, d afterwards = out *)
| CIter (d : list Z) (out : list (list Z))            (* iter_permutations(d).collect() *)
| CNb (k : nbkind) (n m i j : Z) (out : list (Z * Z)). (* iter_neighbours_k(n, m, i, j).collect() *)

(** Printing aid for the wide types (a 128-bit decimal numeral costs Coq's parser about 3 ms): when every item [u]
    of an observed output agrees with [base] outside the bit positions [free], the printer writes the item as the
    small number formed by its bits at the positions of [free] (lowest position = bit 0), and the case term rebuilds
    the observed items with [unpack].  Items that do not fit this shape are printed in full. *)
Fixpoint deposit_pos (m : positive) (i : N) : N :=
  match m with
  | xH => N.modulo i 2
  | xO m' => N.double (deposit_pos m' i)
  | xI m' => (N.double (deposit_pos m' (N.div2 i)) + N.modulo i 2)%N
  end.
Definition deposit (mask i : N) : N := match mask with N0 => 0%N | Npos m => deposit_pos m i end.
Definition unpack (free base : Z) (idxs : list Z) : list Z :=
  map (fun i => base + Z.of_N (deposit (Z.to_N free) (Z.to_N i))) idxs.
Definition unpack_sub (x : Z) (idxs : list Z) : list Z := unpack x 0 idxs.
Definition unpack_sup (w x : Z) (idxs : list Z) : list Z := unpack (2 ^ w - 1 - x) x idxs.

Definition nonneg (l : list Z) : bool := forallb (fun v => 0 <=? v) l.
Definition toN (l : list Z) : list N := map Z.to_N l.
Definition zz_eqb (a b : Z * Z) : bool := peqb Z.eqb Z.eqb a b.

Definition offs_of (k : nbkind) : list (Z * Z) :=
  match k with K4 => offs4 | K4d => offs4d | K8 => offs8 end.

Definition model_check (c : case) : bool :=
  match c with
  | CSub w x out =>
      (0 <=? w) && (0 <=? x) && nonneg out &&
      match iter_submasks (Z.to_N w) (Z.to_N x) with
      | Some l => leqb N.eqb l (toN out) | None => false end
  | CSup w x out =>
      (0 <=? w) && (0 <=? x) && nonneg out &&
      match iter_supermasks (Z.to_N w) (Z.to_N x) with
      | Some l => leqb N.eqb l (toN out) | None => false end
  | CNext d r out =>
      let '(r', out') := next_permutation d in Bool.eqb r r' && leqb Z.eqb out out'
  | CIter d out =>
      match iter_permutations d with
      | Some l => leqb (leqb Z.eqb) l out | None => false end
  | CNb k n m i j out => leqb zz_eqb (neighbours (offs_of k) n m i j) out
  end.

(** ** specification side *)

(** number of one bits *)
Fixpoint popcount_pos (p : positive) : N :=
  match p with xH => 1 | xO q => popcount_pos q | xI q => N.succ (popcount_pos q) end.
Definition popcount (x : N) : N := match x with N0 => 0%N | Npos p => popcount_pos p end.

(** [0; 1; ...; 2^w - 1] (used for w <= 8 only) *)
Definition all_below (w : N) : list N := map N.of_nat (seq 0 (N.to_nat (2 ^ w))).

Fixpoint strictly (lt : N -> N -> bool) (l : list N) : bool :=
  match l with
  | a :: ((b :: _) as t) => lt a b && strictly lt t
  | _ => true
  end.
Definition lengthN {A} (l : list A) : N := fold_left (fun n _ => N.succ n) l 0%N.

Definition is_sub (x u : N) : bool := N.eqb (N.land u x) u.
Definition is_sup (w x u : N) : bool := N.eqb (N.land u x) x && N.ltb u (2 ^ w).

Definition spec_sub (w x : N) (out : list N) : bool :=
  if N.leb w 8 then leqb N.eqb out (filter (is_sub x) (rev (all_below w)))
  else forallb (is_sub x) out && strictly (fun a b => N.ltb b a) out
       && N.eqb (last out 1%N) 0 && N.eqb (lengthN out) (2 ^ popcount x).

Definition spec_sup (w x : N) (out : list N) : bool :=
  if N.leb w 8 then leqb N.eqb out (filter (is_sup w x) (all_below w))
  else forallb (is_sup w x) out && strictly N.ltb out
       && N.eqb (last out 0%N) (2 ^ w - 1) && N.eqb (lengthN out) (2 ^ (w - popcount x)).

(** distinct arrangements of a multiset, listed lexicographically, by the definition:
    choose the first element among the distinct values in increasing order, recurse. *)
Module ZOrder <: TotalLeBool.
  Definition t := Z.
  Definition leb := Z.leb.
  Theorem leb_total : forall a1 a2, is_true (leb a1 a2) \/ is_true (leb a2 a1).
  Proof.
    intros a1 a2. unfold leb, is_true. destruct (Z.leb_spec a1 a2) as [H|H]; [left; reflexivity|right].
    apply Z.leb_le. apply Z.lt_le_incl. exact H.
  Qed.
End ZOrder.
Module ZSort := Sort ZOrder.

Fixpoint remove1 (v : Z) (l : list Z) : list Z :=
  match l with [] => [] | h :: t => if h =? v then t else h :: remove1 v t end.
Fixpoint dedup_adj (l : list Z) : list Z :=
  match l with
  | a :: ((b :: _) as t) => if a =? b then dedup_adj t else a :: dedup_adj t
  | _ => l
  end.
Fixpoint arrangements (n : nat) (l : list Z) : list (list Z) :=
  match n with
  | O => [[]]
  | S n' => flat_map (fun v => map (cons v) (arrangements n' (remove1 v l))) (dedup_adj l)
  end.
Definition all_arrangements (d : list Z) : list (list Z) := arrangements (length d) (ZSort.sort d).

(** the element following [d] in [A] *)
Fixpoint succ_in (A : list (list Z)) (d : list Z) : option (list Z) :=
  match A with
  | a :: ((b :: _) as t) => if leqb Z.eqb a d then Some b else succ_in t d
  | _ => None
  end.

Definition spec_next (d : list Z) (r : bool) (out : list Z) : bool :=
  let A := all_arrangements d in
  match succ_in A d with
  | Some b => r && leqb Z.eqb out b
  | None => negb r && leqb Z.eqb out (hd [] A)
  end.

(** the eight surrounding cells in the iterators' fixed (counter-clockwise from (i, j+1)) order *)
Definition ring (i j : Z) : list (Z * Z) :=
  [(i, j + 1); (i - 1, j + 1); (i - 1, j); (i - 1, j - 1); (i, j - 1); (i + 1, j - 1); (i + 1, j); (i + 1, j + 1)].
Definition adjacent (k : nbkind) (i j : Z) (c : Z * Z) : bool :=
  let di := Z.abs (fst c - i) in let dj := Z.abs (snd c - j) in
  match k with
  | K4 => di + dj =? 1
  | K4d => (di =? 1) && (dj =? 1)
  | K8 => Z.max di dj =? 1
  end.
Definition in_grid (n m : Z) (c : Z * Z) : bool :=
  (0 <=? fst c) && (fst c <? n) && (0 <=? snd c) && (snd c <? m).
Definition grid_cells (n m : Z) : list (Z * Z) :=
  flat_map (fun a => map (fun b => (Z.of_nat a, Z.of_nat b)) (seq 0 (Z.to_nat m))) (seq 0 (Z.to_nat n)).

Definition spec_nb (k : nbkind) (n m i j : Z) (out : list (Z * Z)) : bool :=
  leqb zz_eqb out (filter (fun c => adjacent k i j c && in_grid n m c) (ring i j))
  && (if n * m <=? 400 then (length out =? length (filter (adjacent k i j) (grid_cells n m)))%nat else true).

Definition spec_check (c : case) : bool :=
  match c with
  | CSub w x out =>
      if negb ((0 <=? w) && (0 <=? x) && (x <? 2 ^ w)) then true   (* outside the quantifier *)
      else nonneg out && spec_sub (Z.to_N w) (Z.to_N x) (toN out)
  | CSup w x out =>
      if negb ((0 <=? w) && (0 <=? x) && (x <? 2 ^ w)) then true
      else nonneg out && spec_sup (Z.to_N w) (Z.to_N x) (toN out)
  | CNext d r out => spec_next d r out
  | CIter d out => leqb (leqb Z.eqb) out (all_arrangements d)
  | CNb k n m i j out =>
      if negb ((0 <=? n) && (0 <=? m) && (0 <=? i) && (0 <=? j)) then true
      else spec_nb k n m i j out
  end.

(** the cases the theorems cover: integer types of at most 128 bits *)
Definition in_scope (c : case) : Prop :=
  match c with
  | CSub w _ _ | CSup w _ _ => w <= 128
  | _ => True
  end.

(** what the model computes on the input of a case (for replay files) *)
Inductive shown :=
| ShMasks (l : option (list N))
| ShNext (r : bool) (l : list Z)
| ShIter (l : option (list (list Z)))
| ShNb (l : list (Z * Z)).
Definition explain (c : case) : shown :=
  match c with
  | CSub w x _ => ShMasks (iter_submasks (Z.to_N w) (Z.to_N x))
  | CSup w x _ => ShMasks (iter_supermasks (Z.to_N w) (Z.to_N x))
  | CNext d _ _ => let '(r, l) := next_permutation d in ShNext r l
  | CIter d _ => ShIter (iter_permutations d)
  | CNb k n m i j _ => ShNb (neighbours (offs_of k) n m i j)
  end.
